(* Verified exhaustive exploration of one network: if a finite set S of states contains the initial state and is
   closed under every step of every thread, every reachable state is in S — so a boolean predicate that holds
   on all of S holds after EVERY schedule.  The set is computed by an (unverified) breadth-first search inside
   Coq and checked by vm_compute; the soundness lemma is proved once. *)
From SV Require Import Base.Prelude Model.Mailbox Proof.MailboxFacts Model.MailboxFail Model.C06Run
  Proof.MailboxFailFacts Proof.MailboxFailStruct Spec.MailboxFailSpec.
Local Open Scope nat_scope.

Definition msg_eq_dec : forall a b : msg, {a = b} + {a <> b}.
Proof. decide equality; try apply Z.eq_dec; apply Nat.eq_dec. Defined.
Definition exn_eq_dec : forall a b : exn, {a = b} + {a <> b}.
Proof. decide equality; apply Nat.eq_dec. Defined.
Definition outcome_eq_dec : forall a b : outcome, {a = b} + {a <> b}.
Proof. decide equality; [apply (list_eq_dec Z.eq_dec) | apply exn_eq_dec]. Defined.
Definition pc_eq_dec : forall a b : pc, {a = b} + {a <> b}.
Proof.
  decide equality; try apply Nat.eq_dec; try apply Bool.bool_dec; try apply msg_eq_dec; try apply exn_eq_dec;
    try apply outcome_eq_dec.
  decide equality; apply Nat.eq_dec.
Defined.
Definition tkind_eq_dec : forall a b : tkind, {a = b} + {a <> b}.
Proof.
  decide equality; try apply Nat.eq_dec; try apply Bool.bool_dec.
  apply list_eq_dec. decide equality; [apply Bool.bool_dec | apply Nat.eq_dec].
Defined.
Definition rstate_eq_dec : forall a b : rstate, {a = b} + {a <> b}.
Proof. decide equality; try apply Nat.eq_dec; try apply Bool.bool_dec. apply (list_eq_dec msg_eq_dec). Defined.
Definition thread_eq_dec : forall a b : thread, {a = b} + {a <> b}.
Proof.
  decide equality; try apply Nat.eq_dec; try apply Bool.bool_dec; try apply Z.eq_dec.
  - decide equality; apply Nat.eq_dec.
  - apply (list_eq_dec Z.eq_dec).
  - apply (list_eq_dec rstate_eq_dec).
  - apply pc_eq_dec.
  - apply tkind_eq_dec.
Defined.
Definition sub_eq_dec : forall a b : sub, {a = b} + {a <> b}.
Proof. decide equality; try apply Nat.eq_dec; try apply Bool.bool_dec. decide equality; apply Nat.eq_dec. Defined.
Definition mbox_eq_dec : forall a b : mbox, {a = b} + {a <> b}.
Proof.
  decide equality; try apply Nat.eq_dec; try apply Bool.bool_dec.
  - apply (list_eq_dec sub_eq_dec).
  - apply list_eq_dec. decide equality; [apply msg_eq_dec | apply Nat.eq_dec].
Defined.
Definition nstate_eq_dec : forall a b : nstate, {a = b} + {a <> b}.
Proof. decide equality; [apply (list_eq_dec thread_eq_dec) | apply (list_eq_dec mbox_eq_dec)]. Defined.

Definition st_eqb (a b : nstate) : bool := if nstate_eq_dec a b then true else false.
Lemma st_eqb_true a b : st_eqb a b = true -> a = b.
Proof. unfold st_eqb. destruct (nstate_eq_dec a b); auto; discriminate. Qed.

Definition mem (s : nstate) (l : list nstate) : bool := existsb (st_eqb s) l.
Lemma mem_In s l : mem s l = true -> In s l.
Proof.
  unfold mem. rewrite existsb_exists. intros [x [Hx E]]. apply st_eqb_true in E. subst. auto.
Qed.

Definition succs (nt : net) (n : nat) (s : nstate) : list nstate :=
  flat_map (fun tid => match nstep nt s tid with Some s' => [s'] | None => [] end) (seq 0 n).

(* breadth-first search (not verified; its result is checked) *)
Fixpoint add_new (cands visited : list nstate) : list nstate * list nstate :=
  match cands with
  | [] => ([], visited)
  | c :: rest =>
      if mem c visited then add_new rest visited
      else let '(new, vis) := add_new rest (c :: visited) in (c :: new, vis)
  end.
Fixpoint explore (nt : net) (n fuel : nat) (frontier visited : list nstate) : list nstate :=
  match fuel with
  | O => visited
  | S f =>
      match frontier with
      | [] => visited
      | s :: rest =>
          let '(new, vis) := add_new (succs nt n s) visited in
          explore nt n f (rest ++ new) vis
      end
  end.

Definition closed_ok (nt : net) (n : nat) (S : list nstate) : bool :=
  forallb (fun s => (length (ths s) =? n) && forallb (fun s' => mem s' S) (succs nt n s)) S.

Lemma succs_spec nt n s tid s' : tid < n -> nstep nt s tid = Some s' -> In s' (succs nt n s).
Proof.
  intros Ht H. unfold succs. apply in_flat_map. exists tid. split; [apply in_seq; lia|]. rewrite H. left. auto.
Qed.

Theorem reach_sound nt n st0 S (P : nstate -> bool) :
  mem st0 S = true -> closed_ok nt n S = true -> forallb P S = true ->
  forall sched st, nrun nt st0 sched = Some st -> P st = true.
Proof.
  intros H0 Hc HP.
  assert (Hin : forall sched s st, In s S -> nrun nt s sched = Some st -> In st S).
  { induction sched as [|t rest IH]; intros s st Hs Hr; cbn in Hr.
    - inversion Hr; subst; auto.
    - destruct (nstep nt s t) as [s'|] eqn:E; [|discriminate].
      unfold closed_ok in Hc. rewrite forallb_forall in Hc. specialize (Hc _ Hs).
      apply andb_true_iff in Hc. destruct Hc as [Hl Hs']. apply Nat.eqb_eq in Hl.
      assert (Ht : t < n).
      { unfold nstep in E. destruct (nth_error (ths s) t) eqn:En; [|discriminate].
        rewrite <- Hl. apply nth_error_Some. congruence. }
      rewrite forallb_forall in Hs'. specialize (Hs' _ (succs_spec _ _ _ _ _ Ht E)).
      apply (IH s'); auto. apply mem_In. auto. }
  intros sched st Hr. rewrite forallb_forall in HP. apply HP. eapply Hin; eauto. apply mem_In. auto.
Qed.

(* ---------- the boolean form of the C06 predicates ---------- *)
Definition quiescent_b (nt : net) (st : nstate) : bool :=
  forallb (fun t => negb (nenabled nt st t)) (seq 0 (length (ths st))).
Lemma quiescent_b_spec nt st : quiescent nt st -> quiescent_b nt st = true.
Proof. intros H. unfold quiescent_b. apply forallb_forall. intros t _. rewrite H. reflexivity. Qed.

Definition outcome_eqb (a b : option outcome) : bool :=
  match a, b with
  | Some x, Some y => if outcome_eq_dec x y then true else false
  | None, None => true
  | _, _ => false
  end.
Lemma outcome_eqb_true a b : outcome_eqb a b = true -> a = b.
Proof.
  destruct a, b; cbn; try discriminate; auto. destruct (outcome_eq_dec o o0); [congruence | discriminate].
Qed.

Definition savers_marked_b (st : nstate) (n : nat) : bool :=
  forallb (fun t => negb (is_saver t) || (t_closed t && (t_excrec t || (length (t_rows t) =? n)))) (ths st).
Lemma savers_marked_b_spec st n : savers_marked_b st n = true -> savers_marked st n.
Proof.
  unfold savers_marked_b, savers_marked. rewrite forallb_forall. intros H i t Hi Hs.
  specialize (H t (nth_error_In _ _ Hi)). rewrite Hs in H. cbn in H.
  apply andb_true_iff in H. destruct H as [Hc H]. split; auto.
  apply orb_true_iff in H. destruct H as [H|H]; [left; auto | right; apply Nat.eqb_eq; auto].
Qed.

(* "if nothing can run any more then all threads finished, the caller holds `want`, the savers are marked" *)
Definition final_ok (nt : net) (main n : nat) (want : outcome) (st : nstate) : bool :=
  negb (quiescent_b nt st) ||
  (all_terminal st && outcome_eqb (main_outcome st main) (Some want) && savers_marked_b st n).

Definition check_net (nt : net) (st0 : nstate) (main n : nat) (want : outcome) (fuel : nat) : bool :=
  let k := length (ths st0) in
  let S := explore nt k fuel [st0] [st0] in
  mem st0 S && closed_ok nt k S && forallb (final_ok nt main n want) S.

Theorem check_net_sound nt st0 main n c fuel :
  check_net nt st0 main n (OErr (EOrig c)) fuel = true -> failure_reaches_caller nt st0 main n c.
Proof.
  unfold check_net. intros H. apply andb_true_iff in H. destruct H as [H HP].
  apply andb_true_iff in H. destruct H as [H0 Hc].
  intros sched st Hr Hq.
  pose proof (reach_sound _ _ _ _ _ H0 Hc HP _ _ Hr) as Hf. unfold final_ok in Hf.
  rewrite (quiescent_b_spec _ _ Hq) in Hf. cbn [negb orb] in Hf.
  apply andb_true_iff in Hf. destruct Hf as [Hf Hs]. apply andb_true_iff in Hf. destruct Hf as [Ht Ho].
  split; auto. split; [apply outcome_eqb_true; auto | apply savers_marked_b_spec; auto].
Qed.

(* ---------- the same with a hash map (the state sets of real instances have 10^3..10^5 elements) ---------- *)
From Coq Require Import FMapPositive.
Module PM := PositiveMap.
Local Open Scope Z_scope.

Definition mix (acc x : Z) : Z := Z.land (acc * 131 + x) 1073741823.
Definition bz (b : bool) : Z := if b then 1 else 0.
Definition nz (n : nat) : Z := Z.of_nat n.
Definition msg_code (m : msg) : Z := match m with Plain v => 3 + 3 * v | Fut k v => 4 + 3 * v | Stop => 2 end.
Definition exn_z (e : exn) : Z := match e with EOrig c => 2 * nz c | EKilled c => 2 * nz c + 1 end.
Definition pc_code (p : pc) : Z :=
  match p with
  | PGate oi => 1 + 16 * nz oi
  | PGateWait oi => 2 + 16 * nz oi
  | PRead => 3
  | PReadWait => 4
  | PSend oi m c => 5 + 16 * (nz oi + 8 * (msg_code m * 2 + bz c))
  | PSendWait oi m c => 6 + 16 * (nz oi + 8 * (msg_code m * 2 + bz c))
  | PKillOut oi e => 7 + 16 * (nz oi + 8 * exn_z e)
  | PKillIn e => 8 + 16 * exn_z e
  | PKillAll i c => 9 + 16 * (nz i + 64 * nz c)
  | PJoin i exc => 10 + 16 * (nz i + 64 * match exc with Some c => 1 + nz c | None => 0 end)
  | PDone => 11
  | PDead e => 12 + 16 * exn_z e
  | PFin (OOk rows) => 13 + 16 * nz (length rows)
  | PFin (OErr e) => 14 + 16 * exn_z e
  end.
Definition rstate_fp (acc : Z) (r : rstate) : Z :=
  mix (mix (mix acc (nz (r_next r))) (nz (length (r_buf r)))) (bz (r_last r)).
Definition thread_fp (acc : Z) (t : thread) : Z :=
  let a := mix (mix acc (pc_code (t_pc t))) (bz (t_woken t)) in
  let a := fold_left rstate_fp (t_rd t) a in
  let a := mix (mix (mix a (nz (t_fi t))) (nz (t_nstop t))) (nz (t_cnt t)) in
  mix (mix (mix a (bz (t_closed t))) (bz (t_excrec t))) (match t_got t with Some c => 1 + nz c | None => 0 end).
Definition sub_fp (acc : Z) (s : sub) : Z :=
  mix (mix acc (nz (sb_nread s))) (match sb_wait s with Some n => 1 + nz n | None => 0 end).
Definition mbox_fp (acc : Z) (m : mbox) : Z :=
  let a := mix (mix (mix acc (nz (mb_nsent m))) (nz (length (mb_box m)))) (bz (mb_closed m)) in
  let a := mix (mix (mix a (bz (mb_killed m))) (bz (mb_fkilled m))) (nz (mb_reason m)) in
  fold_left sub_fp (mb_subs m) a.
Definition fp (st : nstate) : positive :=
  Z.to_pos (1 + Z.abs (fold_left thread_fp (ths st) (fold_left mbox_fp (mbs st) 7))).

Local Open Scope nat_scope.

Definition smap := PM.t (list nstate).
Definition memM (s : nstate) (M : smap) : bool :=
  match PM.find (fp s) M with Some b => existsb (st_eqb s) b | None => false end.
Definition addM (s : nstate) (M : smap) : smap :=
  match PM.find (fp s) M with Some b => PM.add (fp s) (s :: b) M | None => PM.add (fp s) [s] M end.

Definition Inm (s : nstate) (M : smap) : Prop := exists k b, PM.find k M = Some b /\ In s b.
Lemma memM_Inm s M : memM s M = true -> Inm s M.
Proof.
  unfold memM. destruct (PM.find (fp s) M) as [b|] eqn:E; [|discriminate].
  rewrite existsb_exists. intros [x [Hx Hs]]. apply st_eqb_true in Hs. subst x. exists (fp s), b. auto.
Qed.

Definition all_states (M : smap) : list nstate := flat_map snd (PM.elements M).
Lemma Inm_all s M : Inm s M -> In s (all_states M).
Proof.
  intros (k & b & Hf & Hin). unfold all_states. apply in_flat_map. exists (k, b). split; auto.
  apply PM.elements_correct. auto.
Qed.

Fixpoint add_newM (cands : list nstate) (M : smap) : list nstate * smap :=
  match cands with
  | [] => ([], M)
  | c :: rest =>
      if memM c M then add_newM rest M
      else let '(new, M') := add_newM rest (addM c M) in (c :: new, M')
  end.
(* one whole level of the breadth-first search per iteration *)
Fixpoint bfs_level (nt : net) (n : nat) (frontier acc : list nstate) (M : smap) : list nstate * smap :=
  match frontier with
  | [] => (acc, M)
  | s :: rest => let '(new, M') := add_newM (succs nt n s) M in bfs_level nt n rest (new ++ acc) M'
  end.
Definition bfs_step (nt : net) (n : nat) (x : list nstate * smap) : list nstate * smap :=
  bfs_level nt n (fst x) [] (snd x).
Definition exploreM (nt : net) (n : nat) (fuel : positive) (frontier : list nstate) (M : smap) : smap :=
  snd (Pos.iter (bfs_step nt n) (frontier, M) fuel).

Definition closed_okM (nt : net) (n : nat) (M : smap) : bool :=
  forallb (fun s => (length (ths s) =? n) && forallb (fun s' => memM s' M) (succs nt n s)) (all_states M).

Theorem reach_soundM nt n st0 M (P : nstate -> bool) :
  memM st0 M = true -> closed_okM nt n M = true -> forallb P (all_states M) = true ->
  forall sched st, nrun nt st0 sched = Some st -> P st = true.
Proof.
  intros H0 Hc HP.
  assert (Hin : forall sched s st, Inm s M -> nrun nt s sched = Some st -> Inm st M).
  { induction sched as [|t rest IH]; intros s st Hs Hr; cbn in Hr.
    - inversion Hr; subst; auto.
    - destruct (nstep nt s t) as [s'|] eqn:E; [|discriminate].
      unfold closed_okM in Hc. rewrite forallb_forall in Hc. specialize (Hc _ (Inm_all _ _ Hs)).
      apply andb_true_iff in Hc. destruct Hc as [Hl Hs']. apply Nat.eqb_eq in Hl.
      assert (Ht : t < n).
      { unfold nstep in E. destruct (nth_error (ths s) t) eqn:En; [|discriminate].
        rewrite <- Hl. apply nth_error_Some. congruence. }
      rewrite forallb_forall in Hs'. specialize (Hs' _ (succs_spec _ _ _ _ _ Ht E)).
      apply (IH s'); auto. apply memM_Inm. auto. }
  intros sched st Hr. rewrite forallb_forall in HP. apply HP. apply Inm_all. eapply Hin; eauto. apply memM_Inm. auto.
Qed.

Definition check_netM (nt : net) (st0 : nstate) (main n : nat) (want : outcome) (fuel : positive) : bool :=
  let k := length (ths st0) in
  let M := exploreM nt k fuel [st0] (addM st0 (PM.empty _)) in
  memM st0 M && closed_okM nt k M && forallb (final_ok nt main n want) (all_states M).

Theorem check_netM_sound nt st0 main n c fuel :
  check_netM nt st0 main n (OErr (EOrig c)) fuel = true -> failure_reaches_caller nt st0 main n c.
Proof.
  unfold check_netM. intros H. apply andb_true_iff in H. destruct H as [H HP].
  apply andb_true_iff in H. destruct H as [H0 Hc].
  intros sched st Hr Hq.
  pose proof (reach_soundM _ _ _ _ _ H0 Hc HP _ _ Hr) as Hf. unfold final_ok in Hf.
  rewrite (quiescent_b_spec _ _ Hq) in Hf. cbn [negb orb] in Hf.
  apply andb_true_iff in Hf. destruct Hf as [Hf Hs]. apply andb_true_iff in Hf. destruct Hf as [Ht Ho].
  split; auto. split; [apply outcome_eqb_true; auto | apply savers_marked_b_spec; auto].
Qed.

(* number of states explored (for the evidence / examples) *)
Definition count_states (nt : net) (st0 : nstate) (fuel : positive) : nat :=
  length (all_states (exploreM nt (length (ths st0)) fuel [st0] (addM st0 (PM.empty _)))).
