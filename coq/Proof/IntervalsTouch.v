(* touching_windows: the two scans return, for every container and every integer window, exactly
   the index range of the things touching it. *)
From SV Require Import Model.Rows Model.Intervals Spec.IntervalDefs Proof.RowsFacts
  Proof.IntervalsChecks Proof.IntervalsSort.
From Coq Require Import Permutation.

Definition pL (w : Z) (t0 : Z) (q : row) : bool := re q <=? t0 - w.
Definition pR (w : Z) (t1 : Z) (q : row) : bool := rt q <? t1 + w.
Definition Lidx (w : Z) (things : list row) (c : row) : nat := prefix_len (pL w (rt c)) things.
Definition Ridx (w : Z) (things : list row) (t1 : Z) : nat := prefix_len (pR w t1) things.

Lemma tw_adv_left_spec th li b :
  tw_adv_left th li b =
  (skipn (prefix_len (fun q => re q <=? b) th) th, Nat.add li (prefix_len (fun q => re q <=? b) th)).
Proof.
  revert li; induction th as [|q th IH]; intros li; cbn [tw_adv_left prefix_len skipn].
  - f_equal. lia.
  - destruct (re q <=? b); [rewrite IH; f_equal; lia | cbn [skipn]; f_equal; lia].
Qed.

Lemma tw_adv_right_spec th ri b :
  tw_adv_right th ri b =
  (skipn (prefix_len (fun q => rt q <? b) th) th, Nat.add ri (prefix_len (fun q => rt q <? b) th)).
Proof.
  revert ri; induction th as [|q th IH]; intros ri; cbn [tw_adv_right prefix_len skipn].
  - f_equal. lia.
  - destruct (rt q <? b); [rewrite IH; f_equal; lia | cbn [skipn]; f_equal; lia].
Qed.

(* first pass: container starts sorted *)
Lemma tw_left_inv : forall cs pre th w,
  sorted cs ->
  Forall (fun c => Forall (fun q => pL w (rt c) q = true) pre) cs ->
  tw_left th (length pre) w cs = map (Lidx w (pre ++ th)) cs.
Proof.
  induction cs as [|c cs IH]; intros pre th w Hs Hpre; [reflexivity|].
  cbn [tw_left map]. rewrite tw_adv_left_spec.
  inversion Hpre as [|? ? Hc Hrest]; subst. destruct Hs as [Hs1 Hs2].
  set (k := prefix_len (fun q => re q <=? rt c - w) th).
  assert (Hk : Lidx w (pre ++ th) c = (length pre + k)%nat).
  { unfold Lidx. rewrite prefix_len_app_all by exact Hc. reflexivity. }
  f_equal; [symmetry; exact Hk|].
  replace (length pre + k)%nat with (length (pre ++ firstn k th))
    by (rewrite app_length, firstn_length_le; [reflexivity|apply prefix_len_le]).
  rewrite IH; auto.
  - rewrite <- app_assoc, firstn_skipn. reflexivity.
  - rewrite Forall_forall in Hrest, Hs1 |- *. intros c' Hc'. apply Forall_app. split; [apply Hrest, Hc'|].
    eapply Forall_impl; [|apply (prefix_len_firstn (fun q => re q <=? rt c - w) th)].
    cbn. intros q Hq. specialize (Hs1 c' Hc'). unfold pL. lia.
Qed.

(* second pass: the order is sorted by container end *)
Lemma tw_right_inv : forall (order : list (nat * Z)) pre th w,
  key_sorted snd order ->
  Forall (fun p => Forall (fun q => pR w (snd p) q = true) pre) order ->
  tw_right th (length pre) w order = map (fun p => (fst p, Ridx w (pre ++ th) (snd p))) order.
Proof.
  induction order as [|[i t1] order IH]; intros pre th w Hs Hpre; [reflexivity|].
  cbn [tw_right map fst snd]. rewrite tw_adv_right_spec.
  inversion Hpre as [|? ? Hc Hrest]; subst. destruct Hs as [Hs1 Hs2]. cbn [snd] in Hc, Hs1.
  set (k := prefix_len (fun q => rt q <? t1 + w) th).
  assert (Hk : Ridx w (pre ++ th) t1 = (length pre + k)%nat).
  { unfold Ridx. rewrite prefix_len_app_all by exact Hc. reflexivity. }
  f_equal; [f_equal; symmetry; exact Hk|].
  replace (length pre + k)%nat with (length (pre ++ firstn k th))
    by (rewrite app_length, firstn_length_le; [reflexivity|apply prefix_len_le]).
  rewrite IH; auto.
  - rewrite <- app_assoc, firstn_skipn. reflexivity.
  - rewrite Forall_forall in Hrest, Hs1 |- *. intros p Hp. apply Forall_app. split; [apply Hrest, Hp|].
    eapply Forall_impl; [|apply (prefix_len_firstn (fun q => rt q <? t1 + w) th)].
    cbn. intros q Hq. specialize (Hs1 p Hp). unfold pR. lia.
Qed.

Lemma Forall_nil_inner {A B} (P : A -> B -> Prop) (l : list A) : Forall (fun a => Forall (P a) []) l.
Proof. apply Forall_forall. intros; constructor. Qed.

(* assembling result[i] = (left_i, right_i) *)
Lemma assemble {C} (L : C -> nat) (R : C -> nat) (lk : nat -> nat) : forall (l : list C) s,
  (forall k c, nth_error l k = Some c -> lk (s + k)%nat = R c) ->
  map (fun p => (snd p, lk (fst p))) (combine (seq s (length (map L l))) (map L l)) =
  map (fun c => (L c, R c)) l.
Proof.
  induction l as [|c l IH]; intros s H; [reflexivity|].
  cbn [map length seq combine fst snd]. f_equal.
  - f_equal. specialize (H 0%nat c eq_refl). rewrite Nat.add_0_r in H. exact H.
  - apply IH. intros k c' Hk. specialize (H (S k) c' Hk). replace (S s + k)%nat with (s + S k)%nat by lia. exact H.
Qed.

(* closed form of the core for arbitrary things, container starts sorted *)
Theorem touching_windows_core_closed things cs w :
  sorted cs ->
  touching_windows_core things cs w 0 =
  Ok (map (fun c => (Lidx w things c, Ridx w things (re c))) cs).
Proof.
  intros Hs. unfold touching_windows_core. cbn [Z.eqb negb].
  f_equal.
  pose proof (tw_left_inv cs [] things w Hs (Forall_nil_inner _ _)) as HL. cbn [length app] in HL.
  rewrite HL.
  set (order := sort_by snd (index_list (map re cs))).
  pose proof (tw_right_inv order [] things w (sort_by_sorted snd _) (Forall_nil_inner _ _)) as HR.
  cbn [length app] in HR. rewrite HR.
  unfold index_list at 1.
  apply (assemble (Lidx w things) (fun c => Ridx w things (re c))
           (fun i => lookup_nat i (map (fun p : nat * Z => (fst p, Ridx w things (snd p))) order))).
  intros k c Hk. cbn [Nat.add].
  assert (Hin : In (k, re c) order).
  { eapply Permutation_in; [apply sort_by_perm|]. unfold index_list.
    apply (in_combine_seq (map re cs) 0 k). rewrite nth_error_map, Hk. reflexivity. }
  apply find_nodup.
  - rewrite map_map. cbn [fst].
    eapply Permutation_NoDup; [apply Permutation_map, sort_by_perm|]. apply index_list_nodup.
  - change (k, Ridx w things (re c)) with ((fun p : nat * Z => (fst p, Ridx w things (snd p))) (k, re c)).
    apply in_map, Hin.
Qed.

(* things sorted by start and by end: the touching set is the index range [L, R) *)
Lemma idxs_range w c : forall things s,
  sorted things -> ends_sorted things ->
  idxs (touchesb w c) things s =
  seq (s + Lidx w things c) (Ridx w things (re c) - Lidx w things c).
Proof.
  unfold Lidx, Ridx.
  induction things as [|q l IH]; intros s Hs He; [reflexivity|].
  destruct Hs as [Hs1 Hs2]. apply ends_sorted_cons in He as [He1 He2].
  cbn [idxs prefix_len]. specialize (IH (S s) Hs2 He2).
  unfold touchesb at 1.
  change (pL w (rt c) q) with (re q <=? rt c - w). change (pR w (re c) q) with (rt q <? re c + w).
  destruct (re q <=? rt c - w) eqn:EL.
  - replace (re q >? rt c - w) with false by (rewrite Z.gtb_ltb; clear - EL; lia). cbn [andb]. rewrite IH.
    destruct (rt q <? re c + w) eqn:ER.
    + f_equal; lia.
    + rewrite (prefix_len_none (pR w (re c)) l).
      * cbn [Nat.sub]. reflexivity.
      * eapply Forall_impl; [|exact Hs1]. cbn. intros q' Hq'. unfold pR. lia.
  - replace (re q >? rt c - w) with true by (rewrite Z.gtb_ltb; clear - EL; lia). cbn [andb].
    assert (HL0 : prefix_len (pL w (rt c)) l = 0%nat).
    { apply prefix_len_none. eapply Forall_impl; [|exact He1]. cbn. intros q' Hq'. unfold pL. lia. }
    rewrite HL0 in IH.
    destruct (rt q <? re c + w) eqn:ER.
    + rewrite IH. rewrite !Nat.add_0_r, !Nat.sub_0_r. cbn [seq]. reflexivity.
    + rewrite IH. rewrite (prefix_len_none (pR w (re c)) l).
      * reflexivity.
      * eapply Forall_impl; [|exact Hs1]. cbn. intros q' Hq'. unfold pR. lia.
Qed.

Definition ranges (r : list (nat * nat)) : list (list nat) :=
  map (fun p => seq (fst p) (snd p - fst p)) r.

Theorem touching_windows_core_spec things cs w :
  sorted things -> ends_sorted things -> sorted cs ->
  exists r, touching_windows_core things cs w 0 = Ok r /\ ranges r = tw_spec things cs w.
Proof.
  intros Hs He Hc. eexists. split; [apply touching_windows_core_closed; auto|].
  unfold ranges, tw_spec. rewrite map_map. apply map_ext. intros c. cbn [fst snd].
  rewrite (idxs_range w c things 0) by auto. reflexivity.
Qed.

(* the wrapper, under the documented preconditions stated as its own boolean checks *)
Definition tw_pre (things cs : list row) : Prop :=
  check_time_sorted (map rt things) = true /\ check_time_sorted (map re things) = true /\
  check_time_sorted (map rt cs) = true /\
  check_nonneg_length things = true /\ check_nonneg_length cs = true.

Theorem touching_windows_spec things cs w :
  tw_pre things cs ->
  exists r, touching_windows things cs w = Ok (false, r) /\ length r = length cs /\
            ranges r = tw_spec things cs w.
Proof.
  intros (H1 & H2 & H3 & H4 & H5). unfold touching_windows. rewrite H1, H2, H3, H4, H5. cbn [negb].
  destruct things as [|q things].
  - eexists. split; [reflexivity|]. split; [apply map_length|].
    unfold ranges, tw_spec. rewrite map_map. apply map_ext. intros c. reflexivity.
  - destruct cs as [|c cs].
    + eexists. split; [reflexivity|]. split; reflexivity.
    + destruct (touching_windows_core_spec (q :: things) (c :: cs) w) as (r & Hr & Hspec).
      * apply check_time_sorted_iff; auto.
      * apply check_ends_sorted_iff; auto.
      * apply check_time_sorted_iff; auto.
      * exists r. rewrite Hr. cbn [res_bind]. split; [reflexivity|]. split; [|exact Hspec].
        apply (f_equal (@length _)) in Hspec. unfold ranges, tw_spec in Hspec. rewrite !map_length in Hspec.
        exact Hspec.
Qed.

(* membership form of the same statement *)
Corollary touching_windows_iff things cs w :
  tw_pre things cs ->
  exists r, touching_windows things cs w = Ok (false, r) /\ length r = length cs /\
    forall i k c q, nth_error cs i = Some c -> nth_error things k = Some q ->
      ((fst (nth i r (0, 0)) <= k < snd (nth i r (0, 0)))%nat <-> touchesb w c q = true).
Proof.
  intros Hp. destruct (touching_windows_spec things cs w Hp) as (r & Hr & Hlen & Hspec).
  exists r. split; [exact Hr|]. split; [exact Hlen|].
  intros i k c q Hi Hk.
  assert (Hnth : nth_error (ranges r) i = nth_error (tw_spec things cs w) i) by (rewrite Hspec; reflexivity).
  unfold ranges, tw_spec in Hnth. rewrite !nth_error_map, Hi in Hnth.
  destruct (nth_error r i) as [p|] eqn:Er; [|discriminate]. cbn [option_map] in Hnth.
  rewrite (nth_error_nth _ _ _ Er). inversion Hnth as [Hrange]. clear Hnth.
  assert (Hmem : In k (idxs (touchesb w c) things 0) <-> touchesb w c q = true).
  { clear - Hk. assert (G : forall l s j, In j (idxs (touchesb w c) l s) <->
             exists x, nth_error l (j - s) = Some x /\ (s <= j)%nat /\ touchesb w c x = true).
    { induction l as [|x l IH]; intros s j; cbn [idxs].
      - split; [intros []|intros (x & Hx & _)]. destruct (j - s)%nat; discriminate.
      - destruct (touchesb w c x) eqn:E.
        + cbn [In]. rewrite IH. split.
          * intros [->|(y & Hy & Hle & Hty)].
            -- exists x. rewrite Nat.sub_diag. cbn. auto.
            -- exists y. replace (j - s)%nat with (S (j - S s)) by lia. cbn. auto with zarith.
          * intros (y & Hy & Hle & Hty). destruct (Nat.eq_dec s j) as [->|Hne]; [left; auto|right].
            exists y. replace (j - s)%nat with (S (j - S s)) in Hy by lia. cbn in Hy. repeat split; auto. lia.
        + rewrite IH. split.
          * intros (y & Hy & Hle & Hty). exists y. replace (j - s)%nat with (S (j - S s)) by lia. cbn. auto with zarith.
          * intros (y & Hy & Hle & Hty). destruct (Nat.eq_dec s j) as [->|Hne].
            -- rewrite Nat.sub_diag in Hy. cbn in Hy. congruence.
            -- exists y. replace (j - s)%nat with (S (j - S s)) in Hy by lia. cbn in Hy. repeat split; auto. lia. }
    rewrite G, Nat.sub_0_r. split.
    - intros (x & Hx & _ & Hx'). congruence.
    - intros Hq. exists q. repeat split; auto. lia. }
  rewrite <- Hmem, <- Hrange, in_seq. lia.
Qed.

Theorem touching_windows_rejects things cs w :
  (exists c, touching_windows things cs w = Err c /\
     (c = 1 /\ ~ sorted things \/ c = 2 /\ ~ sorted cs \/ c = 3 /\ ~ nonnegP things \/ c = 4 /\ ~ nonnegP cs)) \/
  (exists warn r, touching_windows things cs w = Ok (warn, r) /\
     sorted things /\ sorted cs /\ nonnegP things /\ nonnegP cs /\ (warn = false <-> ends_sorted things)).
Proof.
  unfold touching_windows.
  destruct (check_time_sorted (map rt things)) eqn:E1; cbn [negb].
  2:{ left. exists 1. split; [reflexivity|]. left. split; [reflexivity|].
      rewrite <- check_time_sorted_iff. congruence. }
  destruct (check_time_sorted (map rt cs)) eqn:E2; cbn [negb].
  2:{ left. exists 2. split; [reflexivity|]. right; left. split; [reflexivity|].
      rewrite <- check_time_sorted_iff. congruence. }
  destruct (check_nonneg_length things) eqn:E3; cbn [negb].
  2:{ left. exists 3. split; [reflexivity|]. right; right; left. split; [reflexivity|].
      rewrite <- check_nonneg_iff. congruence. }
  destruct (check_nonneg_length cs) eqn:E4; cbn [negb].
  2:{ left. exists 4. split; [reflexivity|]. right; right; right. split; [reflexivity|].
      rewrite <- check_nonneg_iff. congruence. }
  right.
  assert (Hw : negb (check_time_sorted (map re things)) = false <-> ends_sorted things).
  { rewrite <- check_ends_sorted_iff. destruct (check_time_sorted (map re things)); cbn; split; congruence. }
  apply check_time_sorted_iff in E1, E2. apply check_nonneg_iff in E3, E4.
  destruct things as [|q things]; [do 2 eexists; split; [reflexivity|auto]|].
  destruct cs as [|c cs]; [do 2 eexists; split; [reflexivity|auto]|].
  rewrite touching_windows_core_closed by auto. cbn [res_bind]. do 2 eexists; split; [reflexivity|auto].
Qed.

Example tw_pre_example :
  let things := [mkrow 0 2 0 0; mkrow 2 2 1 0; mkrow 2 4 2 0; mkrow 3 6 3 0; mkrow 7 8 4 0] in
  let cs := [mkrow 1 9 0 0; mkrow 2 4 1 0; mkrow 4 4 2 0] in
  tw_pre things cs /\
  touching_windows things cs 0 = Ok (false, [(0, 5); (2, 4); (3, 4)])%nat /\
  touching_windows things cs (-2) = Ok (false, [(2, 4); (3, 1); (4, 1)])%nat /\
  touching_windows things cs 3 = Ok (false, [(0, 5); (0, 4); (0, 4)])%nat.
Proof. vm_compute. repeat split; reflexivity. Qed.
