(* Laws of Chunk.split / Chunk.concatenate on the model (property C07). *)
From SV Require Import Model.Rows Model.SplitArray Model.Chunk Proof.RowsFacts Proof.SplitArrayProof.

Definition same_meta (c d : chunk) : Prop :=
  cdtype d = cdtype c /\ ckind d = ckind c /\ crun d = crun c /\ ctarget d = ctarget c.

Lemma In_skipn {A} n (l : list A) x : In x (skipn n l) -> In x l.
Proof.
  revert l; induction n as [|n IH]; intros l H; [exact H|].
  destruct l as [|y l]; [destruct H|]. right. apply IH. exact H.
Qed.

Lemma zmaxl_le d l x : d <= x -> Forall (fun y => y <= x) l -> zmaxl d l <= x.
Proof.
  revert d; induction l as [|y l IH]; intros d Hd HF; cbn [zmaxl]; [exact Hd|].
  inversion HF; subst. apply IH; [lia|auto].
Qed.

Lemma max_end_le rows x : 0 <= x -> Forall (fun r => re r <= x) rows -> max_end rows <= x.
Proof.
  intros H0 HF. destruct rows as [|r rest]; cbn [max_end]; [exact H0|].
  inversion HF; subst. apply zmaxl_le; [auto|]. apply Forall_map. auto.
Qed.

Lemma Forall_lastn {A} (P : A -> Prop) n l : Forall P l -> Forall P (lastn n l).
Proof.
  intros HF. apply Forall_forall. intros x Hx. unfold lastn in Hx. apply In_skipn in Hx.
  rewrite Forall_forall in HF. auto.
Qed.

(* the constructor accepts every range-valid row list *)
Lemma mk_chunk_ok s e rows dt kind run tgt :
  0 <= s -> s <= e -> Forall (fun r => s <= rt r /\ re r <= e) rows ->
  mk_chunk s e rows dt kind run tgt = Ok (mkchunk s e rows dt kind run tgt).
Proof.
  intros H0 Hse HF. unfold mk_chunk.
  destruct (s <? 0) eqn:E1; [lia|]. destruct (s >? e) eqn:E2; [lia|].
  destruct rows as [|r0 rest]; [reflexivity|].
  inversion HF as [|? ? [Hr1 Hr2] HF']; subst.
  destruct (rt r0 <? s) eqn:E3; [lia|].
  assert (max_end (lastn end_window (r0 :: rest)) <= e).
  { apply max_end_le; [lia|]. apply Forall_lastn. eapply Forall_impl; [|exact HF]. cbn; tauto. }
  destruct (max_end (lastn end_window (r0 :: rest)) >? e) eqn:E4; [lia|reflexivity].
Qed.

Lemma mk_chunk_inv s e rows dt kind run tgt c :
  mk_chunk s e rows dt kind run tgt = Ok c -> c = mkchunk s e rows dt kind run tgt.
Proof.
  unfold mk_chunk. destruct (s <? 0); [discriminate|]. destruct (s >? e); [discriminate|].
  destruct rows as [|r0 rest]; [congruence|].
  destruct (rt r0 <? s); [discriminate|]. destruct (max_end _ >? e); [discriminate|congruence].
Qed.

Definition chunk_split_post (c : chunk) (t0 : Z) (early : bool) (r : res (chunk * chunk)) : Prop :=
  let t := Z.max (Z.min t0 (cend c)) (cstart c) in
  match r with
  | Ok (c1, c2) =>
      wf c1 /\ wf c2 /\ cstart c1 = cstart c /\ cend c1 = cstart c2 /\ cend c2 = cend c /\
      crows c1 ++ crows c2 = crows c /\ same_meta c c1 /\ same_meta c c2 /\
      cend c1 <= t /\ (early = false -> cend c1 = t) /\
      (forall y, cend c1 < y <= t -> exists q, In q (crows c) /\ straddles q y)
  | Err e => e = E_CANNOT_SPLIT /\ early = false /\ exists q, In q (crows c) /\ straddles q t
  end.

Lemma wf_rows_nonneg c : wf c -> Forall (fun q => 0 <= rt q) (crows c).
Proof.
  intros (H0 & _ & _ & HF). eapply Forall_impl; [|exact HF]. cbn. intros; lia.
Qed.

(* building the two halves once the data has been divided *)
Lemma split_build c l r t' t :
  wf c -> l ++ r = crows c -> cstart c <= t' -> t' <= t -> t <= cend c ->
  Forall (fun q => re q <= t') l -> Forall (fun q => t' <= rt q) r ->
  exists c1 c2,
    mk_chunk (cstart c) (Z.max (cstart c) t') l (cdtype c) (ckind c) (crun c) (ctarget c) = Ok c1 /\
    mk_chunk (Z.max (cstart c) t') (Z.max t' (cend c)) r (cdtype c) (ckind c) (crun c) (ctarget c) = Ok c2 /\
    wf c1 /\ wf c2 /\ cstart c1 = cstart c /\ cend c1 = t' /\ cstart c2 = t' /\ cend c2 = cend c /\
    crows c1 = l /\ crows c2 = r /\ same_meta c c1 /\ same_meta c c2.
Proof.
  intros (H0 & Hse & Hs & HF) Hlr Hst Htt Hte Hl Hr.
  rewrite <- Hlr in Hs, HF. apply sorted_app in Hs as (Hsl & Hsr & _).
  apply Forall_app in HF as [HFl HFr].
  rewrite Z.max_r by lia. rewrite (Z.max_r t' (cend c)) by lia.
  eexists; eexists. split; [|split].
  - apply mk_chunk_ok; [lia|lia|].
    apply Forall_forall. intros q Hq. rewrite Forall_forall in HFl, Hl.
    specialize (HFl q Hq). specialize (Hl q Hq). cbn in *. lia.
  - apply mk_chunk_ok; [lia|lia|].
    apply Forall_forall. intros q Hq. rewrite Forall_forall in HFr, Hr.
    specialize (HFr q Hq). specialize (Hr q Hq). cbn in *. lia.
  - cbn. unfold wf, same_meta; cbn. repeat split; auto; try lia.
    + apply Forall_forall. intros q Hq. rewrite Forall_forall in HFl, Hl.
      specialize (HFl q Hq). specialize (Hl q Hq). cbn in *. lia.
    + apply Forall_forall. intros q Hq. rewrite Forall_forall in HFr, Hr.
      specialize (HFr q Hq). specialize (Hr q Hq). cbn in *. lia.
Qed.

Theorem chunk_split_correct c t0 early :
  wf c -> chunk_split_post c t0 early (chunk_split c t0 early).
Proof.
  intros Hwf. pose proof Hwf as (H0 & Hse & Hs & HF).
  unfold chunk_split_post, chunk_split.
  set (t := Z.max (Z.min t0 (cend c)) (cstart c)).
  assert (Ht1 : cstart c <= t) by (unfold t; lia).
  assert (Ht2 : t <= cend c) by (unfold t; lia).
  destruct (t =? cend c) eqn:Ee.
  { (* everything goes left *)
    destruct (split_build c (crows c) [] t t Hwf) as (c1 & c2 & E1 & E2 & W1 & W2 & A1 & A2 & A3 & A4 & A5 & A6 & M1 & M2);
      try lia; auto.
    - apply app_nil_r.
    - eapply Forall_impl; [|exact HF]. cbn; intros; lia.
    - cbn [res_bind]. rewrite E1. cbn [res_bind]. rewrite E2. cbn [res_bind].
      split; [exact W1|]. split; [exact W2|]. split; [exact A1|]. split; [lia|]. split; [exact A4|].
      split; [rewrite A5, A6; apply app_nil_r|]. split; [exact M1|]. split; [exact M2|].
      split; [lia|]. split; [intros; lia|]. intros; lia. }
  destruct (t =? cstart c) eqn:Es.
  { destruct (split_build c [] (crows c) t t Hwf) as (c1 & c2 & E1 & E2 & W1 & W2 & A1 & A2 & A3 & A4 & A5 & A6 & M1 & M2);
      try lia; auto.
    - eapply Forall_impl; [|exact HF]. cbn; intros; lia.
    - cbn [res_bind]. rewrite E1. cbn [res_bind]. rewrite E2. cbn [res_bind].
      split; [exact W1|]. split; [exact W2|]. split; [exact A1|]. split; [lia|]. split; [exact A4|].
      split; [rewrite A5, A6; reflexivity|]. split; [exact M1|]. split; [exact M2|].
      split; [lia|]. split; [intros; lia|]. intros; lia. }
  pose proof (split_array_correct (crows c) t early Hs (wf_rows_nonneg c Hwf)) as HP.
  destruct (split_array (crows c) t early) as [[[l r] t']|].
  - cbn in HP. destruct HP as (Hlr & Hl & Hr & Htt & Hearly & Hlate).
    assert (Hst : cstart c <= t').
    { destruct (Z_le_dec (cstart c) t') as [|Hn]; [auto|exfalso].
      destruct (Hlate (cstart c)) as [q [Hq1 [Hq2 _]]]; [lia|].
      rewrite Forall_forall in HF. specialize (HF q Hq1). cbn in HF. lia. }
    destruct (split_build c l r t' t Hwf Hlr Hst Htt Ht2 Hl Hr)
      as (c1 & c2 & E1 & E2 & W1 & W2 & A1 & A2 & A3 & A4 & A5 & A6 & M1 & M2).
    cbn [res_bind]. rewrite E1. cbn [res_bind]. rewrite E2. cbn [res_bind].
    split; [exact W1|]. split; [exact W2|]. split; [exact A1|]. split; [lia|]. split; [exact A4|].
    split; [rewrite A5, A6; exact Hlr|]. split; [exact M1|]. split; [exact M2|].
    split; [lia|]. split; [rewrite A2; exact Hearly|]. rewrite A2. exact Hlate.
  - cbn in HP. cbn. tauto.
Qed.

(* ---- concatenation of two adjacent (or gapped) chunks ---- *)

Lemma concatenate_two_correct c1 c2 allow :
  wf c1 -> wf c2 -> cdtype c2 = cdtype c1 -> crun c2 = crun c1 -> cend c1 <= cstart c2 ->
  exists c, concatenate [Some c1; Some c2] allow = Ok c /\ wf c /\
            cstart c = cstart c1 /\ cend c = cend c2 /\ crows c = crows c1 ++ crows c2 /\
            cdtype c = cdtype c1 /\ ckind c = ckind c1 /\ crun c = crun c1 /\
            ctarget c = Z.max (Z.max (ctarget c1) (ctarget c1)) (ctarget c2).
Proof.
  intros (A0 & Ase & As & AF) (B0 & Bse & Bs & BF) Hdt Hrun Hord.
  unfold concatenate. cbn [somes forallb].
  rewrite Hdt, Z.eqb_refl. cbn [andb negb].
  assert (Hr : opt_eqb (crun c1) (crun c1) = true).
  { destruct (crun c1); cbn; [apply Z.eqb_refl|reflexivity]. }
  rewrite Hrun, Hr. cbn [andb negb order_ok].
  destruct (cstart c1 <? 0) eqn:E1; [lia|].
  destruct (cstart c2 <? cend c1) eqn:E2; [lia|]. cbn [negb last_end flat_map map fold_left].
  rewrite app_nil_r.
  eexists. split; [|split].
  - apply mk_chunk_ok; [lia|lia|].
    apply Forall_app; split.
    + eapply Forall_impl; [|exact AF]. cbn; intros; lia.
    + eapply Forall_impl; [|exact BF]. cbn; intros; lia.
  - unfold wf; cbn. repeat split; auto; try lia.
    + apply sorted_app. repeat split; auto.
      apply Forall_forall. intros a Ha. apply Forall_forall. intros b Hb.
      rewrite Forall_forall in AF, BF. specialize (AF a Ha). specialize (BF b Hb). cbn in *. lia.
    + apply Forall_app; split.
      * eapply Forall_impl; [|exact AF]. cbn; intros; lia.
      * eapply Forall_impl; [|exact BF]. cbn; intros; lia.
  - cbn. repeat split; auto.
Qed.

(* concatenate is the inverse of split *)
Theorem concat_split_inverse c t0 early c1 c2 :
  wf c -> chunk_split c t0 early = Ok (c1, c2) ->
  exists c', concatenate [Some c1; Some c2] false = Ok c' /\
             cstart c' = cstart c /\ cend c' = cend c /\ crows c' = crows c /\
             cdtype c' = cdtype c /\ ckind c' = ckind c /\ crun c' = crun c.
Proof.
  intros Hwf Hsp. pose proof (chunk_split_correct c t0 early Hwf) as HP. rewrite Hsp in HP.
  cbn in HP. destruct HP as (W1 & W2 & A1 & A2 & A3 & A4 & (M1 & M2 & M3 & M4) & (N1 & N2 & N3 & N4) & _).
  destruct (concatenate_two_correct c1 c2 false W1 W2) as (c' & E & _ & B1 & B2 & B3 & B4 & B5 & B6 & _);
    try congruence; try lia.
  exists c'. split; [exact E|]. repeat split; congruence.
Qed.

(* a non-trivial instance: hypotheses are satisfiable *)
Example wf_example :
  wf (mkchunk 0 20 [mkrow 1 4 0 0; mkrow 3 9 1 0; mkrow 9 9 2 0; mkrow 12 15 3 0] 1 1 (Some 7) 4).
Proof. unfold wf; cbn. repeat split; try lia; repeat constructor; cbn; lia. Qed.
