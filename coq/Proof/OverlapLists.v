(* List / filter lemmas about sorted output rows used by the overlap-window proof. *)
From SV Require Import Model.Rows Proof.RowsFacts Spec.WindowLocal.

Definition beforeb (x : Z) (o : row) : bool := rt o <? x.
Definition fromb (x : Z) (o : row) : bool := x <=? rt o.
Definition betweenb (x y : Z) (o : row) : bool := fromb x o && beforeb y o.

Lemma filter_all_true {A} (P : A -> bool) l : Forall (fun x => P x = true) l -> filter P l = l.
Proof.
  induction l as [|x l IH]; intros H; cbn; [auto|]. inversion H; subst. rewrite H2. f_equal. auto.
Qed.

Lemma filter_all_false {A} (P : A -> bool) l : Forall (fun x => P x = false) l -> filter P l = [].
Proof.
  induction l as [|x l IH]; intros H; cbn; [auto|]. inversion H; subst. rewrite H2. auto.
Qed.

Lemma filter_split_unique {A} (P : A -> bool) l r :
  Forall (fun x => P x = true) l -> Forall (fun x => P x = false) r ->
  filter P (l ++ r) = l /\ filter (fun x => negb (P x)) (l ++ r) = r.
Proof.
  intros Hl Hr. rewrite !filter_app. split.
  - rewrite (filter_all_true P l Hl), (filter_all_false P r Hr). apply app_nil_r.
  - rewrite (filter_all_false (fun x => negb (P x)) l), (filter_all_true (fun x => negb (P x)) r); auto.
    + eapply Forall_impl; [|exact Hr]. cbn. intros x ->. reflexivity.
    + eapply Forall_impl; [|exact Hl]. cbn. intros x ->. reflexivity.
Qed.

Lemma filter_ext_in' {A} (P Q : A -> bool) l : (forall x, In x l -> P x = Q x) -> filter P l = filter Q l.
Proof.
  induction l as [|x l IH]; intros H; cbn; [auto|].
  rewrite (H x (or_introl eq_refl)). destruct (Q x); [f_equal|]; apply IH; intros; apply H; right; auto.
Qed.

Lemma filter_filter_impl {A} (P Q : A -> bool) l :
  (forall x, In x l -> P x = true -> Q x = true) -> filter P l = filter P (filter Q l).
Proof.
  induction l as [|x l IH]; intros H; cbn; [auto|].
  destruct (P x) eqn:EP.
  - rewrite (H x (or_introl eq_refl) EP). cbn. rewrite EP. f_equal. apply IH. intros; apply H; [right|]; auto.
  - destruct (Q x); cbn; [rewrite EP|]; apply IH; intros; apply H; try right; auto.
Qed.

Lemma filter_comm {A} (P Q : A -> bool) l : filter P (filter Q l) = filter Q (filter P l).
Proof.
  induction l as [|x l IH]; cbn; [auto|].
  destruct (Q x) eqn:EQ, (P x) eqn:EP; cbn; rewrite ?EQ, ?EP, IH; auto.
Qed.

Lemma filter_andb {A} (P Q : A -> bool) l : filter (fun x => P x && Q x) l = filter Q (filter P l).
Proof.
  induction l as [|x l IH]; cbn; [auto|].
  destruct (P x) eqn:EP; cbn; [destruct (Q x); rewrite IH; auto|auto].
Qed.

(* a split of a positive-length list at a time nobody straddles is the pair of filters *)
Lemma split_is_filter (O l r : list row) x :
  l ++ r = O -> Forall (fun o => rt o < re o) O ->
  Forall (fun q => re q <= x) l -> Forall (fun q => x <= rt q) r ->
  l = filter (beforeb x) O /\ r = filter (fromb x) O.
Proof.
  intros <- Hpos Hl Hr. apply Forall_app in Hpos as [Pl Pr].
  destruct (filter_split_unique (beforeb x) l r) as [E1 E2].
  - rewrite Forall_forall in *. intros o Ho. specialize (Pl o Ho). specialize (Hl o Ho). unfold beforeb. cbn in *. lia.
  - rewrite Forall_forall in *. intros o Ho. specialize (Hr o Ho). unfold beforeb. cbn in *. lia.
  - split; [symmetry; exact E1|]. rewrite <- E2 at 1. apply filter_ext_in'. intros o _. unfold fromb, beforeb. lia.
Qed.

Lemma sorted_head_ge x o O : sorted (o :: O) -> x <= rt o -> Forall (fun q => fromb x q = true) (o :: O).
Proof.
  intros [H1 _] Hx. constructor; [unfold fromb; lia|].
  eapply Forall_impl; [|exact H1]. cbn. intros q Hq. unfold fromb. lia.
Qed.

(* rows from S up to S', then rows from S': all rows from S *)
Lemma sorted_between_from O S S' :
  sorted O -> S <= S' ->
  filter (betweenb S S') O ++ filter (fromb S') O = filter (fromb S) O.
Proof.
  intros Hs HS. induction O as [|o O IH]; [reflexivity|].
  destruct (Z_lt_dec (rt o) S') as [Hlt|Hge].
  - cbn [filter]. destruct Hs as [_ Hs]. specialize (IH Hs).
    assert (E2 : fromb S' o = false) by (unfold fromb; lia). rewrite E2.
    destruct (fromb S o) eqn:E1.
    + assert (E3 : betweenb S S' o = true) by (unfold betweenb, beforeb; rewrite E1; cbn; lia).
      rewrite E3. cbn [app]. f_equal. exact IH.
    + assert (E3 : betweenb S S' o = false) by (unfold betweenb; rewrite E1; reflexivity).
      rewrite E3. exact IH.
  - pose proof (sorted_head_ge S' o O Hs ltac:(lia)) as HF.
    rewrite (filter_all_false (betweenb S S') (o :: O)).
    + cbn [app]. rewrite (filter_all_true _ _ HF). symmetry. apply filter_all_true.
      eapply Forall_impl; [|exact HF]. cbn. unfold fromb. intros; lia.
    + eapply Forall_impl; [|exact HF]. cbn. unfold betweenb, fromb, beforeb. intros; lia.
Qed.

Lemma from_from O S S' : S <= S' -> filter (fromb S') (filter (fromb S) O) = filter (fromb S') O.
Proof.
  intros HS. symmetry. apply filter_filter_impl. unfold fromb. intros; lia.
Qed.

Lemma before_from_between O S S' :
  filter (beforeb S') (filter (fromb S) O) = filter (betweenb S S') O.
Proof. unfold betweenb. rewrite filter_andb. reflexivity. Qed.

Lemma dsp_app l1 l2 : dsp (l1 ++ l2) -> dsp l1 /\ dsp l2.
Proof.
  induction l1 as [|r l1 IH]; cbn [app dsp]; [tauto|].
  intros (Hp & HF & Hd). apply Forall_app in HF as [HF1 HF2]. destruct (IH Hd). tauto.
Qed.

Lemma dsp_pos l : dsp l -> Forall pos_row l.
Proof. induction l as [|r l IH]; cbn; [constructor|]. intros (Hp & _ & Hd). constructor; auto. Qed.

Lemma safeb_true ml mr L T o :
  Forall (fun q => re q + ml < rt o) L -> Forall (fun q => re o + mr < rt q) T -> safeb ml mr L T o = true.
Proof.
  intros HL HT. unfold safeb. apply andb_true_iff. split; apply forallb_forall; intros q Hq.
  - rewrite Forall_forall in HL. specialize (HL q Hq). lia.
  - rewrite Forall_forall in HT. specialize (HT q Hq). lia.
Qed.

Lemma straddled_iff O x : straddled O x <-> exists q, In q O /\ straddles q x.
Proof. unfold straddled. apply Exists_exists. Qed.

(* a row that starts before x and does not straddle it ends at or before x *)
Lemma not_straddled_end O x o : ~ straddled O x -> In o O -> rt o < x -> re o <= x.
Proof.
  intros Hn Ho Hlt. destruct (Z_le_gt_dec (re o) x); [auto|exfalso].
  apply Hn. apply straddled_iff. exists o. split; [auto|]. unfold straddles. lia.
Qed.
