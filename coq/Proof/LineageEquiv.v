(* C02 — plugin initialisation respects the equivalence of settings (dict order, tuple/list,
   class identity): [spec_plugin_equiv]. *)
From SV Require Import Base.Prelude Model.Canon Model.Lineage Proof.CanonProof Spec.LineageSpec.

(* ---------- dequiv is an equivalence ---------- *)
Lemma dequiv_refl {A B} (f : A -> B) l : dequiv f l l.
Proof. intros k. reflexivity. Qed.
Lemma dequiv_sym {A B} (f : A -> B) l1 l2 : dequiv f l1 l2 -> dequiv f l2 l1.
Proof. intros H k. symmetry. apply H. Qed.
Lemma dequiv_trans {A B} (f : A -> B) l1 l2 l3 : dequiv f l1 l2 -> dequiv f l2 l3 -> dequiv f l1 l3.
Proof. intros H1 H2 k. rewrite H1. apply H2. Qed.

Lemma dequiv_has_key {A B} (f : A -> B) l1 l2 k : dequiv f l1 l2 -> has_key k l1 = has_key k l2.
Proof.
  intros H. specialize (H k). unfold has_key.
  destruct (lookup k l1), (lookup k l2); cbn in H; congruence.
Qed.

Lemma dequiv_dset {A B} (f : A -> B) l1 l2 k v1 v2 :
  dequiv f l1 l2 -> f v1 = f v2 -> dequiv f (dset k v1 l1) (dset k v2 l2).
Proof.
  intros H E k'. rewrite !lookup_dset. destruct (k' =? k); [cbn; congruence|apply H].
Qed.

Lemma dequiv_filter {A B} (f : A -> B) (P Q : Z -> bool) l1 l2 :
  (forall k, P k = Q k) -> dequiv f l1 l2 ->
  dequiv f (filter (fun kv => P (fst kv)) l1) (filter (fun kv => Q (fst kv)) l2).
Proof.
  intros HPQ H k. rewrite (lookup_filter_key P), (lookup_filter_key Q), HPQ.
  destruct (Q k); [apply H|reflexivity].
Qed.

Lemma lookup_rev_NoDup {A} k (l : list (Z * A)) : NoDup (keys l) -> lookup k (rev l) = lookup k l.
Proof.
  induction l as [|[k' v] l IH]; intros ND; [reflexivity|].
  unfold keys in ND. cbn [map fst] in ND. inversion ND as [|? ? Hn ND']; subst.
  cbn [rev]. rewrite lookup_app, (IH ND'). cbn [lookup].
  destruct (k =? k') eqn:E.
  - apply Z.eqb_eq in E. subst. destruct (lookup k' l) eqn:L; [|reflexivity].
    exfalso. apply Hn. apply lookup_In in L. now apply (in_map fst) in L.
  - destruct (lookup k l); reflexivity.
Qed.

Lemma dequiv_dupdate {A B} (f : A -> B) l1 l2 n1 n2 :
  NoDup (keys n1) -> NoDup (keys n2) ->
  dequiv f l1 l2 -> dequiv f n1 n2 -> dequiv f (dupdate l1 n1) (dupdate l2 n2).
Proof.
  intros N1 N2 H Hn k. rewrite !lookup_dupdate, !lookup_rev_NoDup by assumption.
  specialize (Hn k). specialize (H k).
  destruct (lookup k n1), (lookup k n2); cbn in Hn |- *; try congruence.
Qed.

Lemma dequiv_dupdate_same {A B} (f : A -> B) l1 l2 n :
  dequiv f l1 l2 -> dequiv f (dupdate l1 n) (dupdate l2 n).
Proof.
  intros H k. rewrite !lookup_dupdate. destruct (lookup k (rev n)); [reflexivity|apply H].
Qed.

(* keys of the results of the dict operations *)
Lemma keys_dset_NoDup {A} k (v : A) l : NoDup (keys l) -> NoDup (keys (dset k v l)).
Proof.
  induction l as [|[k' v'] l IH]; intros ND; cbn [dset].
  - unfold keys. cbn. constructor; [intros []|constructor].
  - unfold keys in *. cbn [map fst] in ND. inversion ND as [|? ? Hn ND']; subst.
    destruct (k =? k') eqn:E; cbn [map fst].
    + apply Z.eqb_eq in E. subst. constructor; assumption.
    + constructor; [|apply IH; assumption].
      intros Hin. apply Hn. change (In k' (keys (dset k v l))) in Hin. change (In k' (keys l)).
      apply has_key_spec in Hin. apply has_key_spec. unfold has_key in *. rewrite lookup_dset in Hin.
      destruct (k' =? k) eqn:Q; [|exact Hin]. apply Z.eqb_eq in Q. subst. rewrite Z.eqb_refl in E. discriminate.
Qed.

Lemma keys_dupdate_NoDup {A} (l n : list (Z * A)) : NoDup (keys l) -> NoDup (keys (dupdate l n)).
Proof.
  unfold dupdate. revert l. induction n as [|[k v] n IH]; intros l ND; cbn [fold_left]; [exact ND|].
  apply IH. now apply keys_dset_NoDup.
Qed.

(* ---------- options of equivalent classes ---------- *)
Lemma opts_equiv_find os os' k :
  Forall2 opt_equiv os os' ->
  match find (fun o => oname o =? k) os, find (fun o => oname o =? k) os' with
  | Some o, Some o' => opt_equiv o o'
  | None, None => True
  | _, _ => False
  end.
Proof.
  induction 1 as [|o o' os os' Ho _ IH]; cbn [find]; [exact I|].
  destruct Ho as (En & Ho). rewrite <- En. destruct (oname o =? k); [|exact IH].
  split; [exact En|exact Ho].
Qed.

Lemma cls_equiv_opt_of c c' k :
  cls_equiv c c' ->
  match opt_of c k, opt_of c' k with
  | Some o, Some o' => opt_equiv o o'
  | None, None => True
  | _, _ => False
  end.
Proof. intros (_ & _ & _ & _ & _ & _ & H). apply opts_equiv_find, H. Qed.

Lemma cls_equiv_tracked c c' k : cls_equiv c c' -> tracked c k = tracked c' k.
Proof.
  intros H. pose proof (cls_equiv_opt_of c c' k H) as G. unfold tracked.
  destruct (opt_of c k), (opt_of c' k); try contradiction; [|reflexivity]. apply G.
Qed.

Lemma takes_opt_of c k : takes c k = match opt_of c k with Some _ => true | None => false end.
Proof.
  unfold takes, opt_of. induction (copts c) as [|o os IH]; cbn [existsb find]; [reflexivity|].
  destruct (oname o =? k); [reflexivity|exact IH].
Qed.

Lemma cls_equiv_takes c c' k : cls_equiv c c' -> takes c k = takes c' k.
Proof.
  intros H. pose proof (cls_equiv_opt_of c c' k H) as G. rewrite !takes_opt_of.
  destruct (opt_of c k), (opt_of c' k); try contradiction; reflexivity.
Qed.

Lemma cls_equiv_parent_options c c' : cls_equiv c c' -> parent_options c = parent_options c'.
Proof.
  intros (_ & _ & _ & _ & _ & _ & H). unfold parent_options.
  induction H as [|o o' os os' Ho _ IH]; cbn [flat_map]; [reflexivity|].
  destruct Ho as (_ & _ & Ep & _). rewrite Ep, IH. reflexivity.
Qed.

(* ---------- with_defaults ---------- *)
Lemma lookup_with_defaults k conf os :
  lookup k (with_defaults conf os) =
  match lookup k conf with
  | Some v => Some v
  | None => option_map odefault (find (fun o => oname o =? k) os)
  end.
Proof.
  unfold with_defaults. revert conf. induction os as [|o os IH]; intros conf; cbn [fold_left find].
  - destruct (lookup k conf); reflexivity.
  - rewrite IH. destruct (has_key (oname o) conf) eqn:Hk.
    + destruct (lookup k conf) eqn:L; [reflexivity|].
      destruct (oname o =? k) eqn:E; [|reflexivity].
      apply Z.eqb_eq in E. subst. unfold has_key in Hk. rewrite L in Hk. discriminate.
    + rewrite lookup_dset. rewrite (Z.eqb_sym k (oname o)).
      destruct (oname o =? k) eqn:E.
      * apply Z.eqb_eq in E. subst. unfold has_key in Hk. destruct (lookup (oname o) conf); [discriminate|reflexivity].
      * reflexivity.
Qed.

Lemma with_defaults_equiv conf conf' os os' :
  conf_equiv conf conf' -> Forall2 opt_equiv os os' ->
  conf_equiv (with_defaults conf os) (with_defaults conf' os').
Proof.
  intros Hc Ho k. rewrite !lookup_with_defaults. specialize (Hc k).
  pose proof (opts_equiv_find os os' k Ho) as G.
  destruct (lookup k conf), (lookup k conf'); cbn in Hc |- *; try congruence.
  destruct (find _ os), (find _ os'); try contradiction; cbn; [|reflexivity].
  destruct G as (_ & _ & _ & G). congruence.
Qed.

(* ---------- plugin_config ---------- *)
Definition child_step (full : config) (acc : res config) (o : opt) : res config :=
  do pc <- acc;
  match oparent o with
  | None => Ok pc
  | Some pn =>
      match lookup (oname o) full with
      | None => Err E_KEY
      | Some v => if has_key pn pc then Ok (dset pn v pc) else Err E_ASSERT
      end
  end.

Lemma plugin_config_unfold conf c :
  plugin_config conf c =
  let full := with_defaults conf (copts c) in
  let pconf := filter (fun kv => takes c (fst kv)) full in
  if cchild c then fold_left (child_step full) (copts c) (Ok pconf) else Ok pconf.
Proof. reflexivity. Qed.

Lemma child_fold_equiv full full' os os' a a' :
  conf_equiv full full' -> Forall2 opt_equiv os os' -> res_rel conf_equiv a a' ->
  res_rel conf_equiv (fold_left (child_step full) os a) (fold_left (child_step full') os' a').
Proof.
  intros Hf Ho. revert a a'. induction Ho as [|o o' os os' Hoo _ IH]; intros a a' Ha; cbn [fold_left]; [exact Ha|].
  apply IH. destruct Hoo as (En & _ & Ep & _).
  unfold child_step. destruct a as [pc|e], a' as [pc'|e']; cbn [res_bind res_rel] in *; try contradiction.
  2: exact Ha.
  rewrite <- Ep. destruct (oparent o) as [pn|]; [|exact Ha].
  rewrite <- En. pose proof (Hf (oname o)) as Hl.
  destruct (lookup (oname o) full) as [v|], (lookup (oname o) full') as [v'|]; cbn in Hl; try congruence.
  all: try reflexivity.
  rewrite (dequiv_has_key norm pc pc' pn Ha).
  destruct (has_key pn pc'); cbn [res_rel]; [|reflexivity].
  apply dequiv_dset; [exact Ha|congruence].
Qed.

Lemma plugin_config_equiv conf conf' c c' :
  conf_equiv conf conf' -> cls_equiv c c' ->
  res_rel conf_equiv (plugin_config conf c) (plugin_config conf' c').
Proof.
  intros Hc Hcl. rewrite !plugin_config_unfold. cbn zeta.
  pose proof Hcl as (_ & _ & _ & _ & Ech & _ & Hos). rewrite <- Ech.
  assert (Hfull : conf_equiv (with_defaults conf (copts c)) (with_defaults conf' (copts c')))
    by (apply with_defaults_equiv; assumption).
  assert (Hp : conf_equiv (filter (fun kv => takes c (fst kv)) (with_defaults conf (copts c)))
                          (filter (fun kv => takes c' (fst kv)) (with_defaults conf' (copts c')))).
  { apply (dequiv_filter norm (takes c) (takes c')); [intros k; now apply cls_equiv_takes|exact Hfull]. }
  destruct (cchild c); [|exact Hp].
  apply child_fold_equiv; assumption.
Qed.

(* ---------- lineage ---------- *)
Lemma lin_configs_equiv c c' p p' :
  cls_equiv c c' -> conf_equiv p p' -> conf_equiv (lin_configs c p) (lin_configs c' p').
Proof.
  intros Hcl Hp. unfold lin_configs. pose proof Hcl as (_ & _ & _ & _ & Ech & Epar & _).
  rewrite <- Ech, <- Epar, <- (cls_equiv_parent_options c c' Hcl).
  destruct (cchild c).
  - apply dequiv_dupdate_same.
    apply (dequiv_filter norm (fun k => negb (memZ k (parent_options c)) && tracked c k)
                              (fun k => negb (memZ k (parent_options c)) && tracked c' k)); [|exact Hp].
    intros k. now rewrite (cls_equiv_tracked c c' k Hcl).
  - apply (dequiv_filter norm (tracked c) (tracked c')); [|exact Hp].
    intros k. now apply cls_equiv_tracked.
Qed.

Lemma norm_entry_eq n v cfg cfg' : conf_equiv cfg cfg' -> norm_entry (n, v, cfg) = norm_entry (n, v, cfg').
Proof.
  intros H. unfold norm_entry, entry_value. cbn [fst snd]. rewrite !norm_tuple. cbn [map].
  assert (E : norm (VDict cfg) = norm (VDict cfg')) by now apply norm_dict_ext.
  now rewrite E.
Qed.

Definition lin_nodup (i : inst) : Prop := NoDup (keys (ilin i)).

Lemma build_lineage_NoDup c p deps : NoDup (keys (build_lineage c p deps)).
Proof.
  unfold build_lineage.
  assert (G : forall l, NoDup (keys l) -> NoDup (keys (fold_left (fun l d => dupdate l (ilin d)) deps l))).
  { induction deps as [|d deps IH]; intros l ND; cbn [fold_left]; [exact ND|]. apply IH. now apply keys_dupdate_NoDup. }
  apply G. unfold keys. cbn. constructor; [intros []|constructor].
Qed.

Lemma build_lineage_equiv c c' p p' deps deps' :
  cls_equiv c c' -> conf_equiv p p' ->
  Forall2 (fun d d' => lin_equiv (ilin d) (ilin d') /\ lin_nodup d /\ lin_nodup d') deps deps' ->
  lin_equiv (build_lineage c p deps) (build_lineage c' p' deps').
Proof.
  intros Hcl Hp Hd. unfold build_lineage.
  assert (H0 : lin_equiv [(last_provide c, (cname c, cversion c, lin_configs c p))]
                         [(last_provide c', (cname c', cversion c', lin_configs c' p'))]).
  { pose proof Hcl as (En & Ev & Epr & _). unfold last_provide. rewrite <- En, <- Ev, <- Epr.
    intros k. cbn [lookup]. destruct (k =? last (cprovides c) 0); [|reflexivity]. cbn [option_map]. f_equal.
    apply norm_entry_eq. now apply lin_configs_equiv. }
  revert H0. generalize [(last_provide c, (cname c, cversion c, lin_configs c p))]
                        [(last_provide c', (cname c', cversion c', lin_configs c' p'))].
  induction Hd as [|d d' deps deps' (Hl & N1 & N2) _ IH]; intros l l' H0; cbn [fold_left]; [exact H0|].
  apply IH. apply dequiv_dupdate; assumption.
Qed.

(* ---------- the specification respects equivalent settings ---------- *)
Lemma spec_deps_equiv (sp sp' : Z -> res inst) ds :
  (forall d, res_rel inst_equiv (sp d) (sp' d)) ->
  (forall d i, sp d = Ok i -> lin_nodup i) -> (forall d i, sp' d = Ok i -> lin_nodup i) ->
  res_rel (Forall2 (fun d d' => inst_equiv d d' /\ lin_nodup d /\ lin_nodup d')) (spec_deps sp ds) (spec_deps sp' ds).
Proof.
  intros H N N'. induction ds as [|d ds IH]; cbn [spec_deps]; [constructor|].
  pose proof (H d) as Hd. destruct (sp d) as [i|e] eqn:E1, (sp' d) as [i'|e'] eqn:E2; cbn [res_rel res_bind] in *; try contradiction; [|exact Hd].
  destruct (spec_deps sp ds) as [r|e], (spec_deps sp' ds) as [r'|e']; cbn [res_rel res_bind] in *; try contradiction; [|exact IH].
  constructor; [|exact IH]. split; [exact Hd|]. split; [eapply N; eauto|eapply N'; eauto].
Qed.

Lemma spec_plugin_nodup fuel reg conf dt i : spec_plugin fuel reg conf dt = Ok i -> lin_nodup i.
Proof.
  destruct fuel as [|f]; cbn [spec_plugin]; [discriminate|].
  destruct (lookup dt reg) as [c|]; [|discriminate].
  destruct (plugin_config conf c) as [p|]; cbn [res_bind]; [|discriminate].
  destruct (spec_deps _ _) as [deps|]; cbn [res_bind]; [|discriminate].
  intros H. inversion H. unfold lin_nodup. cbn [ilin]. apply build_lineage_NoDup.
Qed.

Theorem spec_plugin_equiv reg reg' conf conf' :
  reg_equiv reg reg' -> conf_equiv conf conf' ->
  forall fuel dt, res_rel inst_equiv (spec_plugin fuel reg conf dt) (spec_plugin fuel reg' conf' dt).
Proof.
  intros Hr Hc. induction fuel as [|f IH]; intros dt; cbn [spec_plugin]; [reflexivity|].
  pose proof (Hr dt) as Hdt. destruct (lookup dt reg) as [c|], (lookup dt reg') as [c'|]; try contradiction; [|reflexivity].
  pose proof (plugin_config_equiv conf conf' c c' Hc Hdt) as Hp.
  destruct (plugin_config conf c) as [p|e], (plugin_config conf' c') as [p'|e']; cbn [res_rel res_bind] in *; try contradiction; [|exact Hp].
  pose proof Hdt as (_ & _ & _ & Edep & _). rewrite <- Edep.
  pose proof (spec_deps_equiv (spec_plugin f reg conf) (spec_plugin f reg' conf') (cdepends c) IH
                (fun d i => spec_plugin_nodup f reg conf d i) (fun d i => spec_plugin_nodup f reg' conf' d i)) as Hd.
  destruct (spec_deps _ (cdepends c)) as [deps|e], (spec_deps (spec_plugin f reg' conf') _) as [deps'|e'];
    cbn [res_rel res_bind] in *; try contradiction; [|exact Hd].
  split; [exact Hdt|]. split; [exact Hp|]. cbn [ilin].
  apply build_lineage_equiv; try assumption.
  clear - Hd. induction Hd as [|d d' l l' (Hi & N1 & N2) _ IHd]; constructor; [|exact IHd].
  destruct Hi as (_ & _ & Hl). auto.
Qed.
