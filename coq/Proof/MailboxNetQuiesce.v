(* C13: the pipeline comes to rest.  Every schedule of every well-formed network is finite (the sum of the
   single-mailbox termination measures decreases with every step), a schedule that cannot be extended ends in
   a quiescent state, and — for chains and for one multi-output stage — the source has then been advanced at
   most p + B times. *)
From SV Require Import Base.Prelude Model.Mailbox Model.MailboxNet
  Proof.MailboxFacts Proof.MailboxProof Proof.MailboxInOrder Proof.MailboxNetLift Proof.MailboxStepFacts
  Proof.MailboxMeasure Proof.MailboxNetFlow Proof.MailboxNetBound Proof.MailboxNetChain.
Local Open Scope nat_scope.

Lemma GI_J N n : GI N n -> all_boxes (J N) (n_boxes n).
Proof. intros [HB _ _] d cfg st H. apply (HB _ _ _ H). Qed.

(* every schedule is finite *)
Theorem quiescence_reached N n0 sched n :
  GI N n0 -> nrun n0 sched = Some n -> length sched <= net_mu (n_boxes n0).
Proof.
  intros HG Hrun. pose proof (net_terminates N n0 (GI_J _ _ HG) sched n Hrun). lia.
Qed.

(* a schedule that cannot be extended ends in a quiescent state *)
Lemma maximal_quiescent n0 sched n :
  nrun n0 sched = Some n -> (forall w, nrun n0 (sched ++ [w]) = None) -> quiescent n = true.
Proof.
  intros Hrun Hmax. apply quiescent_spec. intros w. specialize (Hmax w).
  rewrite nrun_app, Hrun in Hmax. cbn [nrun] in Hmax. destruct (nstep n w); [discriminate|reflexivity].
Qed.

Definition comes_to_rest (n0 : net) (N p B src : nat) : Prop :=
  (* the source is never more than B items beyond the consumer's p chunks *)
  (forall sched n, nrun n0 sched = Some n -> advances N (n_boxes n) src <= p + B) /\
  (* no schedule is longer than the initial measure: the threads cannot run for ever *)
  (forall sched n, nrun n0 sched = Some n -> length sched <= net_mu (n_boxes n0)) /\
  (* and where a schedule cannot be extended no thread is enabled *)
  (forall sched n, nrun n0 sched = Some n -> (forall w, nrun n0 (sched ++ [w]) = None) -> quiescent n = true).

Theorem quiescence_bound_chain L c lz p N :
  1 <= L -> comes_to_rest (chain_net L c lz p N) N p (B_chain L c) 0.
Proof.
  intros HL. split; [|split].
  - intros sched n Hrun. eapply chain_bound; eauto.
  - intros sched n Hrun. exact (quiescence_reached N _ sched n (chain_GI L c lz p N HL) Hrun).
  - intros sched n. apply maximal_quiescent.
Qed.

Theorem quiescence_bound_fanout k c lz gated drives sides t it p N :
  t < k -> (forall g, In g gated -> 2 <= g) -> (forall j, j < k -> drives j <> []) ->
  it < length (drives t) ->
  (forall u i, In (u, i) sides -> exists j, j < k /\ u = 2 + j /\ i < length (drives j)) ->
  NoDup ((2 + t, it) :: sides) ->
  comes_to_rest (fanout_net k c lz gated drives sides t it p N) N p (B_fanout c) 0.
Proof.
  intros Ht Hg Hd Hit Hs Hnd. split; [|split].
  - intros sched n Hrun.
    exact (fanout_bound k c lz gated drives sides t it p N Ht Hg Hd Hit Hs Hnd sched n Hrun).
  - intros sched n Hrun.
    exact (quiescence_reached N _ sched n (fanout_GI k c lz gated drives sides t it p N Ht Hg Hd Hit Hs Hnd) Hrun).
  - intros sched n. apply maximal_quiescent.
Qed.
