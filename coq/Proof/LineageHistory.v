(* C02 — cache transparency over histories for the repaired context hash: after any sequence of
   operations the plugin cache of every context is sound for the context's current settings, hence
   key_for / lineage through the cache equal what the cache-free specification computes. *)
From SV Require Import Base.Prelude Model.Canon Model.Lineage Proof.CanonProof Spec.LineageSpec
  Proof.LineageEquiv Proof.LineageCache Proof.LineageCache2 Proof.LineageHash Proof.LineageRegister.

Lemma my_in_firstn {A} n (l : list A) x : In x (firstn n l) -> In x l.
Proof. revert l. induction n as [|n IH]; intros [|a l] H; cbn in *; try contradiction. destruct H; [now left|right; auto]. Qed.
Lemma my_in_skipn {A} n (l : list A) x : In x (skipn n l) -> In x l.
Proof. revert l. induction n as [|n IH]; intros [|a l] H; cbn in *; try contradiction; auto. Qed.

Definition classes_of (ops : list op) : list cls :=
  flat_map (fun o => match o with ORegister _ k => [k] | _ => [] end) ops.

Section Fixed.
Variable HT : Type.
Variable hash : list Z -> HT.
Variable heqb : HT -> HT -> bool.
Hypothesis hash_inj : forall a b, hash a = hash b -> a = b.
Hypothesis heqb_spec : forall a b, heqb a b = true <-> a = b.

Notation chash := (context_hash HT hash true).
Notation cache_t := (cache_t HT).
Notation context := (context HT).
Notation state := (state HT).

Definition cache_inv (ca : cache_t) : Prop :=
  match ca with
  | None => True
  | Some (h', m) => exists reg0 conf0, h' = chash reg0 conf0 /\ reg_ok reg0 /\ cache_sound reg0 conf0 m
  end.

Lemma inv_cs reg conf ca : cache_inv ca -> cs HT heqb reg conf (chash reg conf) ca.
Proof.
  intros Hinv m Hm. destruct ca as [[h' m']|]; [|discriminate]. cbn [cache_map] in Hm.
  destruct (heqb (chash reg conf) h') eqn:E; [|discriminate]. inversion Hm; subst m'. clear Hm.
  apply heqb_spec in E. destruct Hinv as (reg0 & conf0 & Eh & Hok0 & Hs). subst h'.
  unfold context_hash in E. apply hash_inj in E. apply fixed_hash_equiv in E. destruct E as (Hr & Hc).
  intros dt i Hin. eapply sound_inst_transfer; [apply reg_equiv_sym; exact Hr|apply dequiv_sym; exact Hc|]. now apply Hs.
Qed.

(* shape of the cache after a lookup: unchanged, or a cache under the current hash *)
Definition shape (h : HT) (ca ca' : cache_t) : Prop := ca' = ca \/ exists m, ca' = Some (h, m).

Lemma shape_trans h a b c : shape h a b -> shape h b c -> shape h a c.
Proof.
  intros [->|(m & ->)] [->|(m' & ->)]; [now left|right; eauto|right; eauto|right; eauto].
Qed.

Lemma fold_deps_shape h (gp : cache_t -> Z -> res (inst * cache_t)) :
  (forall ca d i ca', gp ca d = Ok (i, ca') -> shape h ca ca') ->
  forall ds ca acc l ca', fold_deps HT gp ds ca acc = Ok (l, ca') -> shape h ca ca'.
Proof.
  intros Hgp. induction ds as [|d ds IH]; intros ca acc l ca' H; cbn [fold_deps] in H.
  - inversion H. now left.
  - destruct (gp ca d) as [[i ca1]|] eqn:E; cbn [res_bind fst snd] in H; [|discriminate].
    eapply shape_trans; [eapply Hgp; eauto|eapply IH; eauto].
Qed.

Lemma get_plugin_shape h reg conf : forall fuel ca dt i ca',
  get_plugin HT heqb fuel h reg conf ca dt = Ok (i, ca') -> shape h ca ca'.
Proof.
  induction fuel as [|f IH]; intros ca dt i ca' H; cbn [get_plugin] in H; [discriminate|].
  destruct (cache_has HT heqb h ca dt).
  - destruct (cache_map HT heqb h ca); [|discriminate]. destruct (lookup dt _); [|discriminate].
    inversion H. now left.
  - destruct (lookup dt reg) as [c|]; [|discriminate].
    destruct (plugin_config conf c); cbn [res_bind] in H; [|discriminate].
    destruct (fold_deps _ _ _ _ _) as [[deps ca1]|]; cbn [res_bind] in H; [|discriminate].
    inversion H. right. unfold cache_put. eauto.
Qed.

Lemma cs_shape_inv reg conf ca ca' :
  reg_ok reg -> cache_inv ca -> shape (chash reg conf) ca ca' -> cs HT heqb reg conf (chash reg conf) ca' -> cache_inv ca'.
Proof.
  intros Hok Hinv [->|(m & ->)] Hcs; [exact Hinv|].
  exists reg, conf. split; [reflexivity|]. split; [exact Hok|]. apply Hcs. cbn [cache_map].
  now rewrite (heqb_refl HT heqb heqb_spec).
Qed.

Lemma get_plugin_inv reg conf fuel ca dt i ca' :
  reg_ok reg -> cache_inv ca ->
  get_plugin HT heqb fuel (chash reg conf) reg conf ca dt = Ok (i, ca') ->
  cache_inv ca' /\ sound_inst reg conf dt i.
Proof.
  intros Hok Hinv H.
  destruct (get_plugin_sound HT hash heqb heqb_spec reg conf Hok (chash reg conf) fuel ca dt i ca' (inv_cs reg conf ca Hinv) H) as (Hs & Hcs).
  split; [|exact Hs]. eapply cs_shape_inv; eauto. eapply get_plugin_shape; eauto.
Qed.

Lemma get_plugins_inv reg conf fuel : reg_ok reg -> forall wfuel ca todo acc ps ca',
  cache_inv ca ->
  get_plugins HT heqb wfuel fuel (chash reg conf) reg conf ca todo acc = Ok (ps, ca') -> cache_inv ca'.
Proof.
  intros Hok. induction wfuel as [|w IH]; intros ca todo acc ps ca' Hinv H; cbn [get_plugins] in H; [discriminate|].
  destruct todo as [|t r]; [inversion H; now subst|].
  destruct (has_key t acc); [eapply IH; eauto|].
  destruct (get_plugin _ _ _ _ _ _ _ _) as [[i ca1]|] eqn:E; cbn [res_bind fst snd] in H; [|discriminate].
  destruct (get_plugin_inv _ _ _ _ _ _ _ Hok Hinv E) as (Hinv1 & _). eapply IH; eauto.
Qed.

(* ---------- the invariant of histories ---------- *)
Variable U : list cls.
Hypothesis HU : cid_ok U.

Definition ctx_inv (x : context) : Prop :=
  reg_ok (creg HT x) /\ reg_in U (creg HT x) /\ cache_inv (ccache HT x).

Definition state_inv (s : state) : Prop := Forall ctx_inv (ctxs HT s).

Lemma Forall_set_ctx (s : state) c x : state_inv s -> ctx_inv x -> state_inv (set_ctx HT s c x).
Proof.
  unfold state_inv, set_ctx. cbn [ctxs]. intros Hs Hx. apply Forall_app. split.
  - apply Forall_forall. intros y Hy. rewrite Forall_forall in Hs. apply Hs. eapply my_in_firstn; eauto.
  - constructor; [exact Hx|]. apply Forall_forall. intros y Hy. rewrite Forall_forall in Hs. apply Hs.
    eapply my_in_skipn; eauto.
Qed.

Lemma nth_inv (s : state) c x : state_inv s -> nth_error (ctxs HT s) c = Some x -> ctx_inv x.
Proof. intros Hs Hn. unfold state_inv in Hs. rewrite Forall_forall in Hs. apply Hs. eapply nth_error_In; eauto. Qed.

Ltac ci := unfold ctx_inv, with_cache; cbn [creg cconf ccache]; split; [assumption|split; [assumption|first [assumption|exact I]]].

Lemma step_inv (s : state) (o : op) :
  (forall k, In k (classes_of [o]) -> In k U) -> state_inv s -> state_inv (fst (step HT hash heqb true s o)).
Proof.
  intros HoU Hs. destruct o as [c mode kv|c k|c ff fo|c| |c run dt|c run dt|c run dt|c run dt]; cbn [step].
  - destruct (nth_error (ctxs HT s) c) as [x|] eqn:E; [|exact Hs]. cbn [fst].
    apply Forall_set_ctx; [exact Hs|]. destruct (nth_inv s c x Hs E) as (A & B & C). ci.
  - destruct (nth_error (ctxs HT s) c) as [x|] eqn:E; [|exact Hs].
    destruct (nth_inv s c x Hs E) as (A & B & C).
    unfold register. cbn [fst]. apply Forall_set_ctx; [exact Hs|].
    assert (Hk : In k U) by (apply HoU; cbn; now left).
    destruct (register_reg_ok U (creg HT x) k HU B Hk A) as (A' & B'). ci.
  - destruct (nth_error (ctxs HT s) c) as [x|] eqn:E; [|exact Hs]. cbn [fst].
    apply Forall_set_ctx; [exact Hs|]. destruct (nth_inv s c x Hs E) as (A & B & C). ci.
  - destruct (nth_error (ctxs HT s) c) as [x|] eqn:E; [|exact Hs]. cbn [fst].
    unfold state_inv. cbn [ctxs]. apply Forall_app. split; [exact Hs|]. constructor; [|constructor].
    destruct (nth_inv s c x Hs E) as (A & B & C). ci.
  - cbn [fst]. unfold state_inv. cbn [ctxs]. apply Forall_app. split; [exact Hs|]. constructor; [|constructor].
    split; [apply reg_ok_nil|split; [intros dt0 c0 H0; discriminate H0|exact I]].
  - destruct (nth_error (ctxs HT s) c) as [x|] eqn:E; [|exact Hs].
    destruct (nth_inv s c x Hs E) as (A & B & C).
    unfold ctx_plugin. destruct (get_plugin _ _ _ _ _ _ _ _) as [[i ca]|] eqn:G; [|exact Hs]. cbn [fst].
    apply Forall_set_ctx; [exact Hs|].
    destruct (get_plugin_inv _ _ _ _ _ _ _ A C G) as (C' & _). ci.
  - destruct (nth_error (ctxs HT s) c) as [x|] eqn:E; [|exact Hs].
    destruct (nth_inv s c x Hs E) as (A & B & C).
    unfold ctx_plugin. destruct (get_plugin _ _ _ _ _ _ _ _) as [[i ca]|] eqn:G; [|exact Hs].
    destruct (get_plugin_inv _ _ _ _ _ _ _ A C G) as (C' & _).
    destruct (find_ff _ _); cbn [fst]; apply Forall_set_ctx; try exact Hs; ci.
  - destruct (nth_error (ctxs HT s) c) as [x|] eqn:E; [|exact Hs].
    destruct (nth_inv s c x Hs E) as (A & B & C).
    unfold ctx_plugins. destruct (get_plugins _ _ _ _ _ _ _ _ _ _) as [[ps ca]|] eqn:G; [|exact Hs].
    pose proof (get_plugins_inv _ _ _ A _ _ _ _ _ _ C G) as C'.
    assert (S1 : state_inv (set_ctx HT s c (with_cache HT x ca))) by (apply Forall_set_ctx; [exact Hs|ci]).
    destruct (find_ff _ _); [|exact S1].
    destruct (get_data _ _ _ _ _ _ _ _ _ _ _) as [[[d st'] amb]|]; [|exact S1]. exact S1.
  - destruct (nth_error (ctxs HT s) c) as [x|] eqn:E; [|exact Hs].
    destruct (nth_inv s c x Hs E) as (A & B & C).
    unfold ctx_plugins. destruct (get_plugins _ _ _ _ _ _ _ _ _ _) as [[ps ca]|] eqn:G; [|exact Hs].
    pose proof (get_plugins_inv _ _ _ A _ _ _ _ _ _ C G) as C'.
    assert (S1 : state_inv (set_ctx HT s c (with_cache HT x ca))) by (apply Forall_set_ctx; [exact Hs|ci]).
    destruct (find_ff _ _); [|exact S1].
    destruct (get_data _ _ _ _ _ _ _ _ _ _ _) as [[[d st'] amb]|]; [|exact S1]. exact S1.
Qed.

Lemma run_inv : forall ops (s : state),
  (forall k, In k (classes_of ops) -> In k U) -> state_inv s -> state_inv (fst (run_ops HT hash heqb true s ops)).
Proof.
  induction ops as [|o ops IH]; intros s HoU Hs; cbn [run_ops]; [exact Hs|].
  destruct (step HT hash heqb true s o) as [s1 ob] eqn:E1.
  destruct (run_ops HT hash heqb true s1 ops) as [s2 obs] eqn:E2. cbn [fst].
  assert (H1 : state_inv s1).
  { pose proof (step_inv s o) as G. rewrite E1 in G. apply G; [|exact Hs].
    intros k Hk. apply HoU. unfold classes_of in *. cbn [flat_map] in *. rewrite app_nil_r in Hk. apply in_app_iff. now left. }
  pose proof (IH s1) as G. rewrite E2 in G. apply G; [|exact H1].
  intros k Hk. apply HoU. unfold classes_of in *. cbn [flat_map]. apply in_app_iff. now right.
Qed.

Lemma init_inv : state_inv (init_state HT).
Proof.
  constructor; [|constructor]. split; [apply reg_ok_nil|split; [intros dt0 c0 H0; discriminate H0|exact I]].
Qed.

End Fixed.

(* ---------- cache transparency for the repaired context hash ---------- *)
Definition transparent_at (HT : Type) (hash : list Z -> HT) (heqb : HT -> HT -> bool) (fx : bool)
           (x : context HT) (dt : Z) : Prop :=
  (forall i ca, ctx_plugin HT hash heqb fx x dt = Ok (i, ca) ->
     exists n i', spec_plugin n (creg HT x) (cconf HT x) dt = Ok i' /\ inst_equiv i i' /\
                  lineage_hash HT hash (ilin i) = lineage_hash HT hash (ilin i')) /\
  (forall i', spec_plugin DEPTH (creg HT x) (cconf HT x) dt = Ok i' ->
     exists i ca, ctx_plugin HT hash heqb fx x dt = Ok (i, ca)).

Theorem cache_transparent_fixed (HT : Type) (hash : list Z -> HT) (heqb : HT -> HT -> bool) :
  (forall a b, hash a = hash b -> a = b) -> (forall a b, heqb a b = true <-> a = b) ->
  forall ops, cid_ok (classes_of ops) ->
  forall c x dt, nth_error (ctxs HT (fst (run_ops HT hash heqb true (init_state HT) ops))) c = Some x ->
  transparent_at HT hash heqb true x dt.
Proof.
  intros hash_inj heqb_spec ops HU c x dt Hn.
  pose proof (run_inv HT hash heqb hash_inj heqb_spec (classes_of ops) HU ops (init_state HT) (fun k H => H)
                (init_inv HT hash (classes_of ops))) as Hinv.
  destruct (nth_inv HT hash (classes_of ops) _ c x Hinv Hn) as (A & B & C).
  split.
  - intros i ca H. unfold ctx_plugin in H.
    destruct (get_plugin_inv HT hash heqb hash_inj heqb_spec _ _ _ _ _ _ _ A C H) as (_ & (ND & n & i' & Hs & He)).
    exists n, i'. split; [exact Hs|]. split; [exact He|]. unfold lineage_hash. f_equal.
    apply lin_equiv_canon. now destruct He as (_ & _ & Hl).
  - intros i' Hs. unfold ctx_plugin.
    eapply (get_plugin_complete HT hash heqb heqb_spec); eauto. apply inv_cs; assumption.
Qed.
