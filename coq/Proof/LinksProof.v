(* C18 proofs, part 2: record_links connects exactly the time-adjacent fragments. *)
From SV Require Import Model.Hits Model.Reduction Spec.HitsSpec Proof.HitsProof.

(* ---------- arrays ---------- *)
Lemma set_nth_length j v l : length (set_nth j v l) = length l.
Proof. revert j; induction l as [|x l IH]; intros [|j]; cbn [set_nth length]; auto. Qed.

Lemma nth_set_nth v d : forall l j k, (j < length l)%nat ->
  nth k (set_nth j v l) d = if Nat.eqb k j then v else nth k l d.
Proof.
  induction l as [|x l IH]; intros j k Hj; cbn [length] in Hj; [lia|].
  destruct j as [|j]; destruct k as [|k]; cbn [set_nth nth Nat.eqb]; auto.
  apply IH. lia.
Qed.

Lemma zlen_set_idx j v l : zlen (set_idx j v l) = zlen l.
Proof.
  unfold set_idx. destruct ((if j <? 0 then j + zlen l else j) <? 0); [reflexivity|].
  unfold zlen. rewrite set_nth_length. reflexivity.
Qed.

Lemma nthZ_set_idx j v l k : 0 <= j < zlen l ->
  nthZ (set_idx j v l) k = if k =? j then v else nthZ l k.
Proof.
  intros Hj. unfold set_idx, nthZ.
  replace (j <? 0) with false by lia. replace (j <? 0) with false by lia.
  destruct (k <? 0) eqn:Ek.
  - replace (k =? j) with false by lia. reflexivity.
  - rewrite nth_set_nth by (unfold zlen in Hj; lia).
    destruct (k =? j) eqn:E.
    + replace (Z.to_nat k =? Z.to_nat j)%nat with true; [reflexivity|]. symmetry. apply Nat.eqb_eq. lia.
    + replace (Z.to_nat k =? Z.to_nat j)%nat with false; [reflexivity|]. symmetry. apply Nat.eqb_neq. lia.
Qed.

Lemma nthZ_repeat_in v n k : 0 <= k < Z.of_nat n -> nthZ (repeat v n) k = v.
Proof.
  intros H. unfold nthZ. replace (k <? 0) with false by lia.
  assert (Hc : (Z.to_nat k < n)%nat) by lia. revert Hc. generalize (Z.to_nat k). clear H.
  induction n as [|m IH]; intros c Hc; [lia|]. destruct c; cbn [repeat nth]; auto. apply IH. lia.
Qed.

Lemma rec_at_app_r pre r rest : rec_at (pre ++ r :: rest) (zlen pre) = r.
Proof.
  unfold rec_at, zlen. rewrite Nat2Z.id, app_nth2, Nat.sub_diag; [reflexivity|lia].
Qed.

Section Links.
Variables (spr : Z) (all : list rec).
Notation N := (zlen all).
Notation chn k := (r_ch (rec_at all k)).

Definition latest (i ch j : Z) : Prop :=
  (j = -1 /\ forall k, 0 <= k < i -> chn k <> ch) \/
  (0 <= j < i /\ chn j = ch /\ forall k, j < k < i -> chn k <> ch).

Lemma latest_fun i ch j1 j2 : latest i ch j1 -> latest i ch j2 -> j1 = j2.
Proof.
  intros [(E1 & H1)|(B1 & C1 & H1)] [(E2 & H2)|(B2 & C2 & H2)].
  - lia.
  - exfalso. apply (H1 j2); auto.
  - exfalso. apply (H2 j1); auto.
  - destruct (Z.lt_trichotomy j1 j2) as [L|[E|L]]; auto; exfalso.
    + apply (H1 j2); auto; lia.
    + apply (H2 j1); auto; lia.
Qed.

Definition LInv (i : Z) (prev next : list Z) (last exp : list (Z * Z)) : Prop :=
  zlen prev = N /\ zlen next = N /\
  (forall ch, latest i ch (alookup (-1) ch last)) /\
  (forall ch, (alookup (-1) ch last = -1 -> alookup 0 ch exp = 0) /\
              (0 <= alookup (-1) ch last ->
               alookup 0 ch exp = r_time (rec_at all (alookup (-1) ch last))
                                  + spr * r_dt (rec_at all (alookup (-1) ch last)))) /\
  (forall i', 0 <= i' < N ->
      -1 <= nthZ prev i' /\ (i <= i' -> nthZ prev i' = -1) /\
      forall j, 0 <= j -> (nthZ prev i' = j <-> (linked spr all j i' /\ i' < i))) /\
  (forall j, 0 <= j < N ->
      -1 <= nthZ next j /\
      forall i', 0 <= i' -> (nthZ next j = i' <-> (linked spr all j i' /\ i' < i))).


(* a link into i comes from the latest earlier record of i's channel *)
Lemma linked_latest j i : linked spr all j i -> latest i (chn i) j.
Proof. intros (B & _ & C & Hk & _). right. repeat split; auto; lia. Qed.

Lemma rl_loop_spec : forall rs pre prev next last exp,
  all = pre ++ rs ->
  Forall rec_wf rs ->
  LInv (zlen pre) prev next last exp ->
  exists p n last' exp', rl_loop spr rs (zlen pre) prev next last exp = Ok (p, n) /\
                         LInv N p n last' exp'.
Proof.
  induction rs as [|r rest IH]; intros pre prev next last exp Hall Hwf HI.
  - exists prev, next, last, exp. split; [reflexivity|].
    assert (E : zlen all = zlen pre) by (rewrite Hall, app_nil_r; reflexivity).
    rewrite E. exact HI.
  - inversion Hwf as [|? ? Hch Hwf']; subst. unfold rec_wf in Hch.
    cbn [rl_loop]. replace (r_ch r <? 0) with false by lia.
    set (i := zlen pre) in *.
    assert (Hri : rec_at all i = r) by (rewrite Hall; apply rec_at_app_r).
    assert (HiN : 0 <= i < N).
    { unfold i. rewrite Hall, zlen_app, zlen_cons. pose proof (zlen_nonneg pre). pose proof (zlen_nonneg rest). lia. }
    assert (Hall' : all = (pre ++ [r]) ++ rest) by (rewrite Hall; apply snoc_assoc).
    assert (Hi1 : zlen (pre ++ [r]) = i + 1) by (rewrite zlen_app, zlen_cons, zlen_nil; unfold i; lia).
    destruct HI as (Lp & Ln & Hlast & Hexp & Hprev & Hnext).
    set (ch := r_ch r) in *.
    set (li := alookup NO_RECORD_LINK ch last).
    pose proof (Hlast ch) as Hli. fold li in Hli. change (alookup (-1) ch last) with li in Hli.
    destruct (Hexp ch) as (Hexp0 & Hexp1). change (alookup (-1) ch last) with li in Hexp0, Hexp1.
    (* the common part of the new invariant: last / exp after this record *)
    assert (Hlast' : forall c, latest (i + 1) c (alookup (-1) c ((ch, i) :: last))).
    { intros c. cbn [alookup]. destruct (ch =? c) eqn:Ec.
      - right. repeat split; try lia. rewrite Hri. fold ch. lia.
      - destruct (Hlast c) as [(E & H)|(B & C & H)].
        + left. split; auto. intros k Hk. destruct (Z.eq_dec k i) as [->|]; [rewrite Hri; fold ch; lia|apply H; lia].
        + right. repeat split; auto; try lia. intros k Hk.
          destruct (Z.eq_dec k i) as [->|]; [rewrite Hri; fold ch; lia|apply H; lia]. }
    assert (Hexp' : forall c,
       (alookup (-1) c ((ch, i) :: last) = -1 -> alookup 0 c ((ch, r_time r + spr * r_dt r) :: exp) = 0) /\
       (0 <= alookup (-1) c ((ch, i) :: last) ->
        alookup 0 c ((ch, r_time r + spr * r_dt r) :: exp)
        = r_time (rec_at all (alookup (-1) c ((ch, i) :: last)))
          + spr * r_dt (rec_at all (alookup (-1) c ((ch, i) :: last))))).
    { intros c. cbn [alookup]. destruct (ch =? c) eqn:Ec.
      - split; [lia|]. intros _. rewrite Hri. reflexivity.
      - apply Hexp. }
    (* no link into i unless the code makes one *)
    assert (Hnolink : forall j, linked spr all j i -> j = li /\ 0 <= li /\ r_reci r <> 0 /\
                                  r_time r = alookup 0 ch exp).
    { intros j HL. pose proof (linked_latest j i HL) as HLa. rewrite Hri in HLa. fold ch in HLa.
      pose proof (latest_fun _ _ _ _ HLa Hli) as ->.
      destruct HL as (B & _ & _ & _ & Hr & Ht). rewrite Hri in Hr, Ht.
      repeat split; auto; try lia; rewrite Hexp1 by lia; exact Ht. }
    (* finishing: invariant at i+1 given the new prev / next *)
    assert (Hfinish : forall prev' next',
      zlen prev' = N -> zlen next' = N ->
      (forall i', 0 <= i' < N -> nthZ prev' i' = if i' =? i then (if (negb (r_reci r =? 0)) && (negb (li =? NO_RECORD_LINK) && (r_time r =? alookup 0 ch exp)) then li else -1) else nthZ prev i') ->
      (forall j, 0 <= j < N -> nthZ next' j = if (negb (r_reci r =? 0)) && (negb (li =? NO_RECORD_LINK) && (r_time r =? alookup 0 ch exp)) && (j =? li) then i else nthZ next j) ->
      LInv (i + 1) prev' next' ((ch, i) :: last) ((ch, r_time r + spr * r_dt r) :: exp)).
    { intros prev' next' Lp' Ln' Hp' Hn'.
      set (mk := negb (r_reci r =? 0) && (negb (li =? NO_RECORD_LINK) && (r_time r =? alookup 0 ch exp))) in *.
      assert (Hmk : mk = true -> 0 <= li /\ linked spr all li i).
      { intros E. unfold mk in E. apply andb_true_iff in E as [E1 E2]. apply andb_true_iff in E2 as [E2 E3].
        unfold NO_RECORD_LINK in E2.
        assert (Hr : r_reci r <> 0) by lia. assert (Ht : r_time r = alookup 0 ch exp) by lia.
        destruct Hli as [(E & H)|(B & C & H)].
        - exfalso. lia.
        - split; [lia|]. unfold linked. rewrite Hri. fold ch. repeat split; auto; try lia;
          rewrite Ht; apply Hexp1; lia. }
      unfold LInv. split; [exact Lp'|]. split; [exact Ln'|]. split; [exact Hlast'|]. split; [exact Hexp'|].
      split; [intros i' H; split; [|split; [|intros j Hj0; split]] | intros j H; split; [|intros i' Hi0; split]].
      - rewrite Hp' by auto. destruct (i' =? i) eqn:E; [|apply Hprev; auto].
        destruct mk eqn:Em; [destruct (Hmk eq_refl); lia|lia].
      - intros Hge. rewrite Hp' by auto. replace (i' =? i) with false by lia.
        destruct (Hprev i' H) as (_ & Hz & _). apply Hz. lia.
      - rewrite Hp' by auto. destruct (i' =? i) eqn:E.
        + assert (i' = i) by lia. subst i'. intros Heq. destruct mk eqn:Em; [|lia].
          destruct (Hmk eq_refl) as (_ & HL). subst j. split; [exact HL|lia].
        + intros Heq. destruct (Hprev i' H) as (_ & _ & Hiff). apply Hiff in Heq; auto. split; [tauto|lia].
      - rewrite Hp' by auto. intros (HL & Hlt). destruct (i' =? i) eqn:E.
        + assert (i' = i) by lia. subst i'. destruct (Hnolink j HL) as (-> & Hl0 & Hr & Ht).
          unfold mk. replace (r_reci r =? 0) with false by lia. replace (r_time r =? alookup 0 ch exp) with true by lia.
          replace (li =? NO_RECORD_LINK) with false by (unfold NO_RECORD_LINK; lia).
          reflexivity.
        + destruct (Hprev i' H) as (_ & _ & Hiff). apply Hiff; auto. split; auto. lia.
      - rewrite Hn' by auto. destruct (mk && (j =? li)) eqn:E; [lia|]. apply Hnext; auto.
      - rewrite Hn' by auto. destruct (mk && (j =? li)) eqn:E.
        + apply andb_true_iff in E as [Em Ej]. intros <-. assert (j = li) by lia. subst j.
          destruct (Hmk Em) as (_ & HL). split; [exact HL|lia].
        + intros Heq. destruct (Hnext j H) as (_ & Hiff). apply Hiff in Heq; auto. split; [tauto|lia].
      - rewrite Hn' by auto. intros (HL & Hlt). destruct (Z.eq_dec i' i) as [->|Hne].
        + destruct (Hnolink j HL) as (-> & Hl0 & Hr & Ht).
          unfold mk. replace (r_reci r =? 0) with false by lia. replace (r_time r =? alookup 0 ch exp) with true by lia.
          replace (li =? NO_RECORD_LINK) with false by (unfold NO_RECORD_LINK; lia).
          replace (li =? li) with true by lia. reflexivity.
        + destruct (mk && (j =? li)) eqn:E.
          * (* next[li] was still free: a link li -> i' < i would put i' between li and i in channel ch *)
            exfalso. apply andb_true_iff in E as [Em Ej]. assert (j = li) by lia. subst j.
            destruct (Hmk Em) as (Hl0 & (_ & _ & _ & Hbetween & _)).
            destruct HL as (B & _ & C & _). apply (Hbetween i'); [lia|]. rewrite Hri. fold ch.
            rewrite <- C. destruct Hli as [(E' & _)|(_ & C' & _)]; [lia|exact C'].
          * destruct (Hnext j H) as (_ & Hiff). apply Hiff; auto. split; auto. lia. }
    destruct (r_reci r =? 0) eqn:Er.
    + (* first fragment of a pulse *)
      destruct (IH (pre ++ [r]) (set_idx i NO_RECORD_LINK prev) next ((ch, i) :: last)
                   ((ch, r_time r + spr * r_dt r) :: exp)) as (p & n & l' & e' & Hrun & HF); auto.
      { rewrite Hi1. apply Hfinish.
        - rewrite zlen_set_idx. exact Lp.
        - exact Ln.
        - intros i' Hi'. rewrite nthZ_set_idx by lia. rewrite ?Er. cbn [negb andb]. reflexivity.
        - intros j Hj. rewrite ?Er. cbn [negb andb]. reflexivity. }
      rewrite Hi1 in Hrun. exists p, n, l', e'. split; auto.
    + destruct (negb (li =? NO_RECORD_LINK) && (r_time r =? alookup 0 ch exp)) eqn:Et.
      * (* continuing fragment *)
        assert (Hl0 : 0 <= li < i).
        { apply andb_true_iff in Et as [Et1 _]. unfold NO_RECORD_LINK in Et1.
          destruct Hli as [(E & H)|(B & C & H)]; lia. }
        destruct (IH (pre ++ [r]) (set_idx i li prev) (set_idx li i next) ((ch, i) :: last)
                     ((ch, r_time r + spr * r_dt r) :: exp)) as (p & n & l' & e' & Hrun & HF); auto.
        { rewrite Hi1. apply Hfinish.
          - rewrite zlen_set_idx. exact Lp.
          - rewrite zlen_set_idx. exact Ln.
          - intros i' Hi'. rewrite nthZ_set_idx by lia. rewrite ?Er, ?Et. cbn [negb andb]. reflexivity.
          - intros j Hj. rewrite nthZ_set_idx by lia. rewrite ?Er, ?Et. cbn [negb andb]. reflexivity. }
        rewrite Hi1 in Hrun. exists p, n, l', e'. split; auto.
      * (* continuing fragment whose predecessor is missing *)
        destruct (IH (pre ++ [r]) prev next ((ch, i) :: last)
                     ((ch, r_time r + spr * r_dt r) :: exp)) as (p & n & l' & e' & Hrun & HF); auto.
        { rewrite Hi1. apply Hfinish.
          - exact Lp.
          - exact Ln.
          - intros i' Hi'. rewrite ?Er, ?Et. cbn [negb andb]. destruct (i' =? i) eqn:E; [|reflexivity].
            assert (i' = i) by lia. subst i'. destruct (Hprev i Hi') as (_ & Hz & _). apply Hz. lia.
          - intros j Hj. rewrite ?Er, ?Et. cbn [negb andb]. reflexivity. }
        rewrite Hi1 in Hrun. exists p, n, l', e'. split; auto.
Qed.

End Links.

Theorem record_links_spec rs :
  Forall rec_wf rs ->
  exists prev next, record_links rs = Ok (prev, next) /\
    zlen prev = zlen rs /\ zlen next = zlen rs /\
    (forall i, 0 <= i < zlen rs -> -1 <= nthZ prev i /\
        forall j, 0 <= j -> (nthZ prev i = j <-> linked (spr_of rs) rs j i)) /\
    (forall j, 0 <= j < zlen rs -> -1 <= nthZ next j /\
        forall i, 0 <= i -> (nthZ next j = i <-> linked (spr_of rs) rs j i)).
Proof.
  intros Hwf. unfold record_links.
  destruct (rl_loop_spec (spr_of rs) rs rs [] (repeat NO_RECORD_LINK (length rs)) (repeat NO_RECORD_LINK (length rs)) [] [])
    as (p & n & l' & e' & Hrun & HF); auto.
  - assert (Hnn : forall k, 0 <= k < zlen rs -> nthZ (repeat NO_RECORD_LINK (length rs)) k = -1).
    { intros k Hk. apply nthZ_repeat_in. unfold zlen in Hk. lia. }
    assert (Hl : zlen (repeat NO_RECORD_LINK (length rs)) = zlen rs).
    { unfold zlen. rewrite repeat_length. reflexivity. }
    unfold LInv. cbn [alookup]. change (zlen (@nil rec)) with 0.
    split; [exact Hl|]. split; [exact Hl|].
    split; [intros ch; left; split; auto; intros k Hk; lia|].
    split; [intros ch; split; [reflexivity|lia]|].
    split.
    + intros i' H. rewrite (Hnn i' H). split; [lia|]. split; [reflexivity|].
      intros j Hj. split; [lia|]. intros (HL & Hlt). lia.
    + intros j H. rewrite (Hnn j H). split; [lia|].
      intros i' Hi. split; [lia|]. intros (HL & Hlt). lia.
  - change (zlen (@nil rec)) with 0 in Hrun. exists p, n. split; [exact Hrun|].
    destruct HF as (Lp & Ln & _ & _ & Hp & Hn).
    split; [exact Lp|]. split; [exact Ln|]. split.
    + intros i H. destruct (Hp i H) as (H1 & _ & H3). split; [exact H1|].
      intros j Hj. rewrite (H3 j Hj). split; [tauto|]. intros HL. split; auto. destruct HL; lia.
    + intros j H. destruct (Hn j H) as (H1 & H3). split; [exact H1|].
      intros i Hi. rewrite (H3 i Hi). split; [tauto|]. intros HL. split; auto. destruct HL; lia.
Qed.
