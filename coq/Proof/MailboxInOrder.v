(* Delivery safety and deadlock freedom of the mailbox LTS for implicitly numbered messages
   (the numbering every sender of strax uses: Mailbox._send_from / divide_outputs call send(x) without
   msg_number), for every number of subscribers, every message list, capacity, lazy/eager mode, driver
   mask, futures and an optional kill() at any moment, over all schedules. *)
From SV Require Import Base.Prelude Model.Mailbox Proof.MailboxFacts Proof.MailboxProof.
Local Open Scope nat_scope.

Definition val_of (m : msg) : list Z := match m with Plain v => [v] | Fut _ v => [v] | Stop => [] end.
(* what a subscriber receives for a list of messages: futures replaced by their results *)
Definition vals (ms : list msg) : list Z := flat_map val_of ms.

Lemma vals_app a b : vals (a ++ b) = vals a ++ vals b.
Proof. unfold vals. apply flat_map_app. Qed.

(* ---------- list facts ---------- *)
Lemma skipn_nth_cons {T} (l : list T) a x : nth_error l a = Some x -> skipn a l = x :: skipn (S a) l.
Proof.
  revert a; induction l as [|h t IH]; intros [|a] H; cbn [nth_error skipn] in *; try discriminate.
  - inversion H; reflexivity.
  - apply IH in H. exact H.
Qed.

Lemma firstn_S_nth {T} (l : list T) a x : nth_error l a = Some x -> firstn (S a) l = firstn a l ++ [x].
Proof.
  revert a; induction l as [|h t IH]; intros [|a] H; cbn [nth_error] in *; try discriminate.
  - inversion H; reflexivity.
  - cbn [firstn app]. f_equal. apply IH. exact H.
Qed.

Lemma firstn_skipn_cons {T} (l : list T) a j x t :
  firstn j (skipn a l) = x :: t -> nth_error l a = Some x /\ t = firstn (j - 1) (skipn (S a) l) /\ 0 < j.
Proof.
  intros H. destruct j as [|j]; [discriminate|].
  destruct (nth_error l a) eqn:E.
  - rewrite (skipn_nth_cons _ _ _ E) in H. cbn [firstn] in H. inversion H; subst.
    replace (S j - 1) with j by lia. auto with arith.
  - apply nth_error_None in E. rewrite skipn_all2 in H by lia. discriminate.
Qed.

Section InOrder.
Variable cfg : config.
Variable msgs : list msg.
Variable nfut : nat.
Hypothesis nostop : forall m, In m msgs -> is_stop m = false.

Definition A : list msg := msgs ++ [Stop].
Definition N : nat := length msgs.

Lemma A_length : length A = S N.
Proof. unfold A, N. rewrite app_length. cbn. lia. Qed.

Lemma A_nth_lt k : k < N -> nth_error A k = nth_error msgs k.
Proof. intros H. unfold A. apply nth_error_app1. exact H. Qed.

Lemma A_nth_N : nth_error A N = Some Stop.
Proof. unfold A, N. rewrite nth_error_app2 by lia. rewrite Nat.sub_diag. reflexivity. Qed.

Lemma A_nth_stop k : nth_error A k = Some Stop -> k = N.
Proof.
  intros H. destruct (Nat.lt_trichotomy k N) as [Hlt|[->|Hgt]]; auto.
  - rewrite A_nth_lt in H by auto. apply nth_error_In in H. apply nostop in H. discriminate.
  - assert (k < length A) by (apply nth_error_Some; congruence). rewrite A_length in *. lia.
Qed.

Lemma A_firstn_N : firstn N A = msgs.
Proof. unfold A, N. rewrite firstn_app, Nat.sub_diag, firstn_all. cbn. apply app_nil_r. Qed.

Lemma vals_A : vals A = vals msgs.
Proof. unfold A. rewrite vals_app. cbn. apply app_nil_r. Qed.

Lemma vals_firstn_SN : vals (firstn (S N) A) = vals msgs.
Proof. rewrite <- A_length, firstn_all. apply vals_A. Qed.

Lemma vals_firstn_N : vals (firstn N A) = vals msgs.
Proof. now rewrite A_firstn_N. Qed.

(* the last_message flag computed by take_from on a segment of A *)
Lemma stop_in_seg a b : a <= N -> a <= b -> b <= S N -> stop_in (firstn (b - a) (skipn a A)) = (N <? b).
Proof.
  intros Ha Hab Hb. remember (b - a) as j eqn:Ej. revert a Ha Hab Ej.
  induction j as [|j IH]; intros a Ha Hab Ej.
  - cbn. symmetry. apply Nat.ltb_ge. lia.
  - assert (Hlt : a < length A) by (rewrite A_length; lia).
    destruct (nth_error A a) eqn:E; [|apply nth_error_None in E; lia].
    rewrite (skipn_nth_cons _ _ _ E). cbn [firstn stop_in].
    destruct (Nat.eq_dec a N) as [->|Hne].
    + rewrite A_nth_N in E. inversion E; subst. cbn. symmetry. apply Nat.ltb_lt. lia.
    + assert (is_stop m = false).
      { destruct m; auto. apply A_nth_stop in E. congruence. }
      rewrite H. cbn [orb]. apply IH; lia.
Qed.

(* ---------- what a reader still has to deliver ---------- *)
Definition pend_ok (log : list Z) (ms : list msg) (n' : nat) (last : bool) : Prop :=
  exists a, a <= n' /\ n' <= S N /\ ms = firstn (n' - a) (skipn a A) /\ log = vals (firstn a A) /\ last = (N <? n').

Lemma pend_ok_nil log n' last :
  pend_ok log [] n' last -> log = vals (firstn n' A) /\ last = (N <? n') /\ n' <= S N.
Proof.
  intros (a & H1 & H2 & H3 & H4 & H5). split; [|auto].
  assert (a = n').
  { destruct (Nat.eq_dec a n') as [|Hne]; auto. exfalso.
    assert (a < length A) by (rewrite A_length; lia).
    destruct (nth_error A a) eqn:E; [|apply nth_error_None in E; lia].
    rewrite (skipn_nth_cons _ _ _ E) in H3. replace (n' - a) with (S (n' - a - 1)) in H3 by lia.
    discriminate. }
  subst a. exact H4.
Qed.

Lemma pend_ok_cons log m t n' last :
  pend_ok log (m :: t) n' last ->
  exists a, a < n' /\ n' <= S N /\ nth_error A a = Some m /\ log = vals (firstn a A) /\ last = (N <? n') /\
            pend_ok (log ++ val_of m) t n' last.
Proof.
  intros (a & H1 & H2 & H3 & H4 & H5). symmetry in H3.
  apply firstn_skipn_cons in H3. destruct H3 as (E & Et & Hj).
  exists a. repeat split; auto; try lia.
  exists (S a). repeat split; auto; try lia.
  - rewrite Et. f_equal. lia.
  - rewrite (firstn_S_nth _ _ _ E), vals_app, H4. cbn. now rewrite app_nil_r.
Qed.

Lemma deliver_ok wd r ms n' last :
  pend_ok (r_log r) ms n' last ->
  match r_pc (deliver wd r ms n' last) with
  | REnter n => n = n' /\ n' <= N /\ r_log (deliver wd r ms n' last) = vals (firstn n' A)
  | RAwait k v rest n'' last' =>
      n'' = n' /\ pend_ok (r_log (deliver wd r ms n' last)) (Fut k v :: rest) n'' last'
  | RDone => n' = S N /\ r_log (deliver wd r ms n' last) = vals msgs
  | _ => False
  end.
Proof.
  revert r; induction ms as [|m t IH]; intros r Hp.
  - cbn [deliver]. apply pend_ok_nil in Hp. destruct Hp as (Hl & Hlast & Hn).
    destruct last; cbn [r_pc r_log rd_set_pc].
    + symmetry in Hlast. apply Nat.ltb_lt in Hlast. assert (n' = S N) by lia. subst n'.
      split; auto. rewrite Hl. apply vals_firstn_SN.
    + symmetry in Hlast. apply Nat.ltb_ge in Hlast. auto.
  - pose proof Hp as Hp0.
    apply pend_ok_cons in Hp. destruct Hp as (a & Ha & Hn & E & Hl & Hlast & Hp).
    destruct m; cbn [deliver].
    + apply IH. exact Hp.
    + destruct (nth k wd false).
      * apply IH. exact Hp.
      * cbn [r_pc r_log rd_set_pc]. auto.
    + (* the end marker: break *)
      apply A_nth_stop in E. subst a.
      assert (n' = S N) by lia. subst n'.
      assert (Hlt : last = true) by (rewrite Hlast; apply Nat.ltb_lt; lia).
      rewrite Hlt. cbn [r_pc r_log rd_set_pc]. split; auto. rewrite Hl. apply vals_firstn_N.
Qed.

(* ---------- the invariant ---------- *)
Definition pc_ok (st : state) (r : reader) : Prop :=
  match r_pc r with
  | REnter n => r_nread r = n /\ n <= N /\ r_waiting r = None /\ r_log r = vals (firstn n A)
  | RWait n => r_nread r = n /\ n <= N /\ r_waiting r = Some n /\ r_log r = vals (firstn n A)
  | RAwait k v rest n' last =>
      r_nread r = n' /\ r_waiting r = None /\ pend_ok (r_log r) (Fut k v :: rest) n' last
  | RDone => r_nread r = S N /\ r_waiting r = None /\ r_log r = vals msgs
  | RRaised => killed st = true /\ r_waiting r = None /\ exists a, r_log r = vals (firstn a A)
  end.

Definition readers_ok (st : state) : Prop :=
  forall i r, nth_error (rds st) i = Some r -> r_nread r <= n_sent st /\ pc_ok st r.

Definition box_ok (st : state) : Prop :=
  box st = seg A (min_nread (rds st)) (n_sent st - min_nread (rds st)).

Definition MB (st : state) : Prop :=
  box_ok st /\ n_sent st <= S N /\ readers_ok st /\ rds st <> [].

Definition hand_ok (st : state) (m : msg) (closing : bool) : Prop :=
  if closing then m = Stop /\ n_sent st = N
  else m :: map snd (src st) = skipn (n_sent st) msgs.

Definition src_none (st : state) : Prop := Forall (fun it : option nat * msg => fst it = None) (src st).

Definition sender_ok (st : state) : Prop :=
  src_none st /\
  (closed st = true -> s_pc st = SDone) /\
  match s_pc st with
  | SGate | SGateWait => killed st = false -> map snd (src st) = skipn (n_sent st) msgs /\ n_sent st <= N
  | SSend num m closing => num = None /\ (killed st = false -> hand_ok st m closing)
  | SSendWait k m closing => killed st = false -> k = n_sent st /\ hand_ok st m closing
  | SKill _ | SDead => killed st = true
  | SDone => killed st = false -> n_sent st = S N /\ closed st = true
  end.

Definition Inv (st : state) : Prop :=
  MB st /\ sender_ok st /\ (fkilled st = true -> killed st = true) /\ length (w_done st) = nfut.

(* ---------- frame lemmas for MB ---------- *)
Definition same_fields (r' r : reader) : Prop :=
  r_nread r' = r_nread r /\ r_waiting r' = r_waiting r /\ r_pc r' = r_pc r /\ r_log r' = r_log r.

Lemma pc_ok_same st st' r r' :
  same_fields r' r -> (killed st = true -> killed st' = true) -> pc_ok st r -> pc_ok st' r'.
Proof.
  intros (E1 & E2 & E3 & E4) Hk. unfold pc_ok. rewrite E1, E2, E3, E4.
  destruct (r_pc r); auto. intros (H1 & H2 & H3). auto.
Qed.

Lemma MB_lo_le st : MB st -> min_nread (rds st) <= n_sent st.
Proof.
  intros (_ & _ & HR & Hne). destruct (min_nread_in _ Hne) as (i & r & Hi & Hr).
  rewrite <- Hr. apply (HR _ _ Hi).
Qed.

Lemma MB_frame st st' (f : reader -> reader) :
  (forall r, same_fields (f r) r) -> rds st' = map f (rds st) -> box st' = box st ->
  n_sent st' = n_sent st -> (killed st = true -> killed st' = true) -> MB st -> MB st'.
Proof.
  intros Hf Er Eb En Hk (HB & HS & HR & Hne).
  assert (Emin : min_nread (rds st') = min_nread (rds st)).
  { rewrite Er. apply min_nread_map. intros r. apply (Hf r). }
  split; [|split; [|split]].
  - unfold box_ok. rewrite Eb, En, Emin. exact HB.
  - rewrite En. exact HS.
  - intros i r' Hi. rewrite Er in Hi. apply nth_error_map_some in Hi. destruct Hi as (r & Hi & ->).
    destruct (HR _ _ Hi) as [H1 H2]. split.
    + rewrite En. destruct (Hf r) as (E1 & _). rewrite E1. exact H1.
    + eapply pc_ok_same; eauto.
  - rewrite Er. destruct (rds st); [congruence|discriminate].
Qed.

Lemma MB_same st st' :
  rds st' = rds st -> box st' = box st -> n_sent st' = n_sent st ->
  (killed st = true -> killed st' = true) -> MB st -> MB st'.
Proof.
  intros Er. apply (MB_frame st st' (fun r => r)).
  - intros r. repeat split.
  - rewrite map_id. exact Er.
Qed.

Lemma same_fields_woken r w : same_fields (rd_set_woken r w) r.
Proof. repeat split. Qed.

Lemma MB_push st m :
  MB st -> nth_error A (n_sent st) = Some m ->
  MB (wake_readers (push_box st (insert (n_sent st) m (box st)))).
Proof.
  intros HM Hm. pose proof (MB_lo_le _ HM) as Hlo. destruct HM as (HB & HS & HR & Hne).
  assert (Hlt : n_sent st < S N).
  { rewrite <- A_length. apply nth_error_Some. congruence. }
  assert (Emin : min_nread (map (fun r => rd_set_woken r true) (rds st)) = min_nread (rds st)).
  { apply min_nread_map. reflexivity. }
  unfold wake_readers. split; [|split; [|split]]; simp_st.
  - unfold box_ok. simp_st. rewrite Emin, HB.
    set (lo := min_nread (rds st)) in *.
    replace (n_sent st) with (lo + (n_sent st - lo)) at 1 by lia.
    rewrite insert_seg.
    + f_equal. lia.
    + replace (lo + (n_sent st - lo)) with (n_sent st) by lia. exact Hm.
  - lia.
  - intros i r' Hi. apply nth_error_map_some in Hi. destruct Hi as (r & Hi & ->).
    destruct (HR _ _ Hi) as [H1 H2]. split.
    + cbn. lia.
    + eapply pc_ok_same; [apply same_fields_woken| |exact H2]. auto.
  - destruct (rds st); [congruence|discriminate].
Qed.

Lemma kill_region_view st up :
  box (kill_region st up) = box st /\ n_sent (kill_region st up) = n_sent st /\
  killed (kill_region st up) = true /\ closed (kill_region st up) = closed st /\
  src (kill_region st up) = src st /\ w_done (kill_region st up) = w_done st /\
  (fkilled (kill_region st up) = true -> up = true \/ fkilled st = true) /\
  (rds (kill_region st up) = rds st \/ rds (kill_region st up) = map (fun r => rd_set_woken r true) (rds st)).
Proof.
  unfold kill_region.
  destruct up; simp_st; destruct (killed st) eqn:Ek; simp_st;
    unfold wake_gate, wake_writer, wake_readers; simp_st;
    repeat match goal with |- context [match ?x with _ => _ end] => destruct x end; simp_st;
    repeat split; auto.
Qed.

Lemma MB_kill st up : MB st -> MB (kill_region st up).
Proof.
  intros HM. destruct (kill_region_view st up) as (Eb & En & Ek & _ & _ & _ & _ & [Er|Er]).
  - eapply MB_same; eauto.
  - eapply (MB_frame st _ (fun r => rd_set_woken r true)); eauto. intros r. apply same_fields_woken.
Qed.

(* ---------- the sender ---------- *)
Lemma skipn_cons_nth {T} (l : list T) n x t : skipn n l = x :: t -> nth_error l n = Some x /\ skipn (S n) l = t.
Proof.
  revert n; induction l as [|h tl IH]; intros [|n] H; cbn [skipn nth_error] in *; try discriminate.
  - inversion H; auto.
  - apply IH in H. destruct H as [H1 H2]. split; auto.
Qed.

Lemma hand_nth st m closing : hand_ok st m closing -> nth_error A (n_sent st) = Some m /\ n_sent st <= N.
Proof.
  unfold hand_ok. destruct closing.
  - intros [-> ->]. split; [apply A_nth_N|lia].
  - intros H. symmetry in H. apply skipn_cons_nth in H. destruct H as [H _].
    assert (n_sent st < N) by (apply nth_error_Some; congruence).
    rewrite A_nth_lt by auto. split; [exact H|lia].
Qed.

Lemma sender_ok_produce st :
  src_none st -> closed st = false ->
  (killed st = false -> map snd (src st) = skipn (n_sent st) msgs /\ n_sent st <= N) ->
  sender_ok (produce st).
Proof.
  intros Hs Hc Hk. unfold produce, src_none in *. destruct (src st) as [|[num m] rest] eqn:Es.
  - unfold sender_ok, src_none, hand_ok. simp_st. rewrite Es. split; [constructor|]. split; [congruence|].
    split; auto. intros Hkk. destruct (Hk Hkk) as [H1 H2]. cbn in H1. split; auto.
    assert (length (skipn (n_sent st) msgs) = 0) by (rewrite <- H1; reflexivity).
    rewrite skipn_length in H. fold N in H. lia.
  - inversion Hs as [|x l Hx Hl]; subst. cbn in Hx. subst num.
    unfold sender_ok, src_none, hand_ok. simp_st. split; [exact Hl|]. split; [congruence|].
    split; auto. intros Hkk. destruct (Hk Hkk) as [H1 H2]. cbn [map snd] in H1. exact H1.
Qed.

Lemma sender_ok_after_send st closing :
  src_none st -> closed st = false ->
  (killed st = false -> match closing return Prop with
                        | true => n_sent st = S N
                        | false => map snd (src st) = skipn (n_sent st) msgs /\ n_sent st <= N
                        end) ->
  sender_ok (after_send cfg st closing).
Proof.
  intros Hs Hc Hk. unfold after_send. destruct closing.
  - unfold sender_ok, src_none in *. simp_st. split; [exact Hs|]. split; auto.
  - destruct (c_lazy cfg).
    + unfold sender_ok, src_none in *. simp_st. split; [exact Hs|]. split; [congruence|]. exact Hk.
    + apply sender_ok_produce; auto.
Qed.

Lemma sender_ok_send_raises st closing r :
  src_none st -> closed st = false -> killed st = true -> sender_ok (send_raises st closing r).
Proof.
  intros Hs Hc Hk. unfold send_raises.
  destruct closing; unfold sender_ok, src_none in *; simp_st; (split; [exact Hs|]); (split; [congruence|]); exact Hk.
Qed.

Lemma closed_false_of st : sender_ok st -> s_pc st <> SDone -> closed st = false.
Proof. intros (_ & H & _) Hpc. destruct (closed st); auto. exfalso. auto. Qed.

(* projections of the state after a push *)
Lemma Inv_do_push st m closing :
  Inv st -> killed st = false -> hand_ok st m closing -> src_none st -> closed st = false ->
  Inv (do_push cfg st (n_sent st) m closing).
Proof.
  intros (HM & HS & HF & HW) Hk Hh Hsn Hc.
  destruct (hand_nth _ _ _ Hh) as [Hnth Hle].
  pose proof (MB_push st m HM Hnth) as HM1.
  set (st1 := wake_readers (push_box st (insert (n_sent st) m (box st)))) in *.
  unfold do_push. fold st1.
  assert (E1 : rds (after_send cfg st1 closing) = rds st1 /\ box (after_send cfg st1 closing) = box st1 /\
               n_sent (after_send cfg st1 closing) = n_sent st1 /\ killed (after_send cfg st1 closing) = killed st1 /\
               fkilled (after_send cfg st1 closing) = fkilled st1 /\ w_done (after_send cfg st1 closing) = w_done st1).
  { unfold after_send. destruct closing; [repeat split|]. destruct (c_lazy cfg); [repeat split|].
    unfold produce. destruct (src st1) as [|[num m0] rest]; repeat split. }
  destruct E1 as (Er & Eb & En & Ekk & Ef & Ew).
  split; [|split; [|split]].
  - eapply MB_same; [exact Er|exact Eb|exact En| |exact HM1]. rewrite Ekk. auto.
  - apply sender_ok_after_send; auto.
    intros _. unfold hand_ok in Hh. destruct closing.
    + destruct Hh as [_ Hn]. cbn. lia.
    + symmetry in Hh. apply skipn_cons_nth in Hh. destruct Hh as [Hx Ht]. cbn [n_sent st1 wake_readers set_rds push_box src].
      split; [symmetry; exact Ht|].
      assert (n_sent st < N) by (apply nth_error_Some; congruence). lia.
  - rewrite Ef, Ekk. exact HF.
  - rewrite Ew. exact HW.
Qed.

Lemma Inv_sender_view st st' :
  Inv st -> rds st' = rds st -> box st' = box st -> n_sent st' = n_sent st -> killed st' = killed st ->
  fkilled st' = fkilled st -> w_done st' = w_done st -> sender_ok st' -> Inv st'.
Proof.
  intros (HM & HS & HF & HW) Er Eb En Ek Ef Ew HS'. split; [|split; [|split]]; auto.
  - eapply MB_same; eauto; rewrite Ek; auto.
  - rewrite Ef, Ek. exact HF.
  - rewrite Ew. exact HW.
Qed.

Lemma after_send_view st closing :
  let st' := after_send cfg st closing in
  rds st' = rds st /\ box st' = box st /\ n_sent st' = n_sent st /\ killed st' = killed st /\
  fkilled st' = fkilled st /\ w_done st' = w_done st.
Proof.
  unfold after_send. destruct closing; [repeat split|]. destruct (c_lazy cfg); [repeat split|].
  unfold produce. destruct (src st) as [|[num m0] rest]; repeat split.
Qed.

Lemma produce_view' st :
  let st' := produce st in
  rds st' = rds st /\ box st' = box st /\ n_sent st' = n_sent st /\ killed st' = killed st /\
  fkilled st' = fkilled st /\ w_done st' = w_done st.
Proof. unfold produce. destruct (src st) as [|[num m0] rest]; repeat split. Qed.

Lemma send_raises_view st c r :
  let st' := send_raises st c r in
  rds st' = rds st /\ box st' = box st /\ n_sent st' = n_sent st /\ killed st' = killed st /\
  fkilled st' = fkilled st /\ w_done st' = w_done st.
Proof. unfold send_raises. destruct c; repeat split. Qed.

Lemma sender_ok_gatewait st :
  sender_ok st -> (s_pc st = SGate \/ s_pc st = SGateWait) ->
  sender_ok (set_swoken (set_spc st SGateWait) false).
Proof.
  intros (Hs & Hc & Hpc) Hg. unfold sender_ok, src_none in *. simp_st.
  split; [exact Hs|]. split.
  - intros Hcl. specialize (Hc Hcl). destruct Hg; congruence.
  - destruct Hg as [E|E]; rewrite E in Hpc; exact Hpc.
Qed.

Lemma sender_ok_swoken st w : sender_ok st -> sender_ok (set_swoken st w).
Proof. intros H. exact H. Qed.

Lemma sender_ok_sendwait st m closing :
  sender_ok st -> s_pc st = SSend None m closing ->
  sender_ok (set_swoken (set_spc st (SSendWait (n_sent st) m closing)) false).
Proof.
  intros (Hs & Hc & Hpc) E. unfold sender_ok, src_none in *. simp_st. rewrite E in Hpc.
  split; [exact Hs|]. split.
  - intros Hcl. specialize (Hc Hcl). congruence.
  - intros Hk. destruct Hpc as [_ Hh]. split; auto.
Qed.

Lemma Inv_sender_step st : Inv st -> sender_enabled st = true -> Inv (sender_step cfg st).
Proof.
  intros HI Hen. pose proof HI as (HM & HS & HF & HW). pose proof HS as (Hsn & Hcl & Hpc).
  unfold sender_step. destruct (s_pc st) eqn:Epc; auto.
  - (* SGate *)
    assert (Hc : closed st = false) by (apply closed_false_of; auto; congruence).
    unfold gate_enter. destruct (can_fetch st).
    + destruct (produce_view' st) as (E1 & E2 & E3 & E4 & E5 & E6).
      eapply Inv_sender_view; eauto. apply sender_ok_produce; auto.
    + eapply Inv_sender_view; eauto; try reflexivity. apply sender_ok_gatewait; auto.
  - (* SGateWait *)
    assert (Hc : closed st = false) by (apply closed_false_of; auto; congruence).
    unfold gate_resume. destruct (can_fetch st).
    + destruct (produce_view' st) as (E1 & E2 & E3 & E4 & E5 & E6).
      eapply Inv_sender_view; eauto. apply sender_ok_produce; auto.
    + eapply Inv_sender_view; eauto; try reflexivity.
  - (* SSend *)
    assert (Hc : closed st = false) by (apply closed_false_of; auto; congruence).
    destruct Hpc as [-> Hh].
    unfold send_enter. rewrite Hc.
    destruct (fkilled st) eqn:Efk.
    { destruct (send_raises_view st closing false) as (E1 & E2 & E3 & E4 & E5 & E6).
      eapply Inv_sender_view; eauto. apply sender_ok_send_raises; auto. }
    destruct (killed st) eqn:Ek.
    { destruct (after_send_view st closing) as (E1 & E2 & E3 & E4 & E5 & E6).
      eapply Inv_sender_view; eauto. apply sender_ok_after_send; auto. congruence. }
    specialize (Hh eq_refl).
    pose proof (MB_lo_le _ HM) as Hlo.
    replace (n_sent st <? min_nread (rds st)) with false by (symmetry; apply Nat.ltb_ge; lia).
    destruct (can_write cfg st).
    + apply Inv_do_push; auto.
    + eapply Inv_sender_view; eauto; try reflexivity. apply sender_ok_sendwait; auto.
  - (* SSendWait *)
    assert (Hc : closed st = false) by (apply closed_false_of; auto; congruence).
    unfold send_resume. destruct (can_write cfg st).
    + destruct (killed st) eqn:Ek.
      * destruct (fkilled st) eqn:Efk.
        { destruct (send_raises_view st closing false) as (E1 & E2 & E3 & E4 & E5 & E6).
          eapply Inv_sender_view; eauto. apply sender_ok_send_raises; auto. }
        { destruct (after_send_view st closing) as (E1 & E2 & E3 & E4 & E5 & E6).
          eapply Inv_sender_view; eauto. apply sender_ok_after_send; auto. congruence. }
      * destruct (Hpc eq_refl) as [-> Hh]. apply Inv_do_push; auto.
    + eapply Inv_sender_view; eauto; try reflexivity.
  - (* SKill *)
    destruct (kill_region_view st true) as (Eb & En & Ek & Ec & Es & Ew & Ef & Er).
    split; [|split; [|split]]; simp_st.
    + eapply MB_same; [| | | |apply (MB_kill st true HM)]; auto.
    + unfold sender_ok, src_none in *. simp_st. rewrite Es, Ec. split; [exact Hsn|]. split.
      * intros Hc. specialize (Hcl Hc). congruence.
      * destruct reraise; simp_st; auto. intros Hk. congruence.
    + intros _. exact Ek.
    + rewrite Ew. exact HW.
Qed.

(* ---------- readers ---------- *)
Lemma min_nread_map_eq l1 l2 : map r_nread l1 = map r_nread l2 -> min_nread l1 = min_nread l2.
Proof.
  revert l2; induction l1 as [|h1 t1 IH]; intros [|h2 t2] H; cbn [map] in H; try discriminate; auto.
  inversion H as [[Hh Ht]].
  destruct t1 as [|a1 t1']; destruct t2 as [|a2 t2']; cbn [map] in Ht; try discriminate.
  - rewrite !min_nread_one. exact Hh.
  - rewrite !min_nread_cons, Hh. f_equal. apply IH. exact Ht.
Qed.

Lemma min_nread_upd_nread i x y l : r_nread x = r_nread y -> min_nread (upd i x l) = min_nread (upd i y l).
Proof. intros E. apply min_nread_map_eq. rewrite !upd_map, E. reflexivity. Qed.

Lemma sender_ok_view st st' :
  src st' = src st -> closed st' = closed st -> s_pc st' = s_pc st -> killed st' = killed st ->
  n_sent st' = n_sent st -> sender_ok st -> sender_ok st'.
Proof. unfold sender_ok, src_none, hand_ok. intros -> -> -> -> ->. auto. Qed.

Lemma MB_upd_gc st st' i r r' :
  MB st -> nth_error (rds st) i = Some r -> rds st' = upd i r' (rds st) -> n_sent st' = n_sent st ->
  (killed st = true -> killed st' = true) ->
  r_nread r <= r_nread r' -> r_nread r' <= n_sent st -> pc_ok st' r' ->
  box st' = gc (min_nread (rds st')) (box st) -> MB st'.
Proof.
  intros HM Hi Er En Hk Hge Hle Hpc Eb.
  pose proof (MB_lo_le _ HM) as Hlo. destruct HM as (HB & HS & HR & Hne).
  assert (Hlen : i < length (rds st)) by (apply nth_error_Some; congruence).
  assert (Hne' : upd i r' (rds st) <> []).
  { intros E. apply (f_equal (@length reader)) in E. rewrite upd_length in E. cbn in E. lia. }
  set (lo := min_nread (rds st)) in *.
  assert (Hlo1 : lo <= min_nread (upd i r' (rds st))).
  { apply min_nread_ge; auto. intros j x Hj. apply nth_error_upd in Hj.
    destruct Hj as [(-> & -> & _)|(_ & Hj)].
    - pose proof (min_nread_le _ _ _ Hi). fold lo in H. lia.
    - apply (min_nread_le _ _ _ Hj). }
  assert (Hlo2 : min_nread (upd i r' (rds st)) <= n_sent st).
  { pose proof (min_nread_le (upd i r' (rds st)) i r' (nth_error_upd_eq _ _ _ Hlen)). lia. }
  split; [|split; [|split]].
  - unfold box_ok. rewrite Eb, Er, En, HB. fold lo.
    rewrite gc_seg; try lia.
    + f_equal. lia.
    + rewrite A_length. lia.
  - rewrite En. exact HS.
  - intros j x Hj. rewrite Er in Hj. rewrite En. apply nth_error_upd in Hj.
    destruct Hj as [(-> & -> & _)|(_ & Hj)].
    + split; auto.
    + destruct (HR _ _ Hj) as [H1 H2]. split; auto.
      eapply pc_ok_same; [|exact Hk|exact H2]. repeat split.
  - rewrite Er. exact Hne'.
Qed.

Lemma MB_upd_same st st' i r r' :
  MB st -> nth_error (rds st) i = Some r -> rds st' = upd i r' (rds st) -> n_sent st' = n_sent st ->
  (killed st = true -> killed st' = true) ->
  r_nread r' = r_nread r -> pc_ok st' r' -> box st' = box st -> MB st'.
Proof.
  intros HM Hi Er En Hk Hn Hpc Eb.
  pose proof (MB_lo_le _ HM) as Hlo. pose proof HM as (HB & HS & HR & Hne).
  eapply MB_upd_gc; eauto; try lia.
  - rewrite Hn. apply (HR _ _ Hi).
  - rewrite Eb, Er.
    assert (E : min_nread (upd i r' (rds st)) = min_nread (rds st)).
    { rewrite (min_nread_upd_nread i r' r) by auto. rewrite upd_same; auto. }
    rewrite E, HB. rewrite gc_seg; try lia.
    + f_equal. lia.
    + rewrite A_length. lia.
Qed.

Lemma wake_writer_view st :
  let st' := wake_writer st in
  rds st' = rds st /\ box st' = box st /\ n_sent st' = n_sent st /\ killed st' = killed st /\
  fkilled st' = fkilled st /\ w_done st' = w_done st /\ src st' = src st /\ closed st' = closed st /\
  s_pc st' = s_pc st.
Proof. unfold wake_writer. destruct (s_pc st) eqn:E; repeat split; auto. Qed.

Lemma maybe_wake_gate_view st :
  let st' := maybe_wake_gate cfg st in
  rds st' = rds st /\ box st' = box st /\ n_sent st' = n_sent st /\ killed st' = killed st /\
  fkilled st' = fkilled st /\ w_done st' = w_done st /\ src st' = src st /\ closed st' = closed st /\
  s_pc st' = s_pc st.
Proof.
  unfold maybe_wake_gate, wake_gate. destruct (c_lazy cfg && can_fetch st); [|repeat split].
  destruct (s_pc st) eqn:E; repeat split; auto.
Qed.

Lemma pc_ok_wants st r n :
  pc_ok st r -> (r_pc r = REnter n \/ r_pc r = RWait n) ->
  r_nread r = n /\ n <= N /\ r_log r = vals (firstn n A).
Proof. unfold pc_ok. intros H [E|E]; rewrite E in H; tauto. Qed.

Lemma Inv_grab st i r n :
  Inv st -> nth_error (rds st) i = Some r -> (r_pc r = REnter n \/ r_pc r = RWait n) ->
  next_ready st n = true -> Inv (grab cfg st i r n).
Proof.
  intros (HM & HS & HF & HW) Hi Hpc Hnr.
  pose proof (MB_lo_le _ HM) as Hlo. pose proof HM as (HB & HSn & HR & Hne). unfold box_ok in HB.
  destruct (HR _ _ Hi) as [Hrn Hrpc].
  destruct (pc_ok_wants _ _ _ Hrpc Hpc) as (Enr & HnN & Elog).
  unfold grab. destruct (killed st) eqn:Ek.
  - (* MailboxKilled *)
    split; [|split; [|split]]; simp_st; auto.
    eapply (MB_upd_same st _ i r (rd_set_pc (rd_set_waiting r None) RRaised)); eauto; simp_st; auto.
    unfold pc_ok. simp_st. split; auto. split; auto. exists n. exact Elog.
  - unfold next_ready in Hnr. rewrite Ek, orb_false_r in Hnr.
    set (lo := min_nread (rds st)) in *.
    assert (Hlen : lo + (n_sent st - lo) <= length A) by (rewrite A_length; lia).
    rewrite HB in Hnr. rewrite has_msg_seg in Hnr by exact Hlen.
    apply andb_true_iff in Hnr. destruct Hnr as [Hn1 Hn2].
    apply Nat.leb_le in Hn1. apply Nat.ltb_lt in Hn2.
    rewrite HB at 1 2. rewrite seg_length by exact Hlen.
    rewrite take_from_seg; try lia.
    replace (lo + (n_sent st - lo)) with (n_sent st) by lia.
    set (ms := firstn (n_sent st - n) (skipn n A)).
    set (r2 := rd_set_nread (rd_set_waiting r None) (n_sent st)).
    set (st1 := set_rds st (upd i r2 (rds st))).
    set (st2 := set_box st1 (gc (min_nread (rds st1)) (box st1))).
    set (st3 := wake_writer (maybe_wake_gate cfg st2)).
    set (rf := deliver (w_done st3) r2 ms (n_sent st) (stop_in ms)).
    destruct (wake_writer_view (maybe_wake_gate cfg st2)) as (A1 & A2 & A3 & A4 & A5 & A6 & A7 & A8 & A9).
    destruct (maybe_wake_gate_view st2) as (B1 & B2 & B3 & B4 & B5 & B6 & B7 & B8 & B9).
    assert (E1 : rds st3 = upd i r2 (rds st)) by exact (eq_trans A1 B1).
    assert (E2 : box st3 = gc (min_nread (upd i r2 (rds st))) (box st)) by exact (eq_trans A2 B2).
    assert (E3 : n_sent st3 = n_sent st) by exact (eq_trans A3 B3).
    assert (E4 : killed st3 = killed st) by exact (eq_trans A4 B4).
    assert (E5 : fkilled st3 = fkilled st) by exact (eq_trans A5 B5).
    assert (E6 : w_done st3 = w_done st) by exact (eq_trans A6 B6).
    assert (E7 : src st3 = src st) by exact (eq_trans A7 B7).
    assert (E8 : closed st3 = closed st) by exact (eq_trans A8 B8).
    assert (E9 : s_pc st3 = s_pc st) by exact (eq_trans A9 B9).
    clear A1 A2 A3 A4 A5 A6 A7 A8 A9 B1 B2 B3 B4 B5 B6 B7 B8 B9.
    assert (Hpend : pend_ok (r_log r2) ms (n_sent st) (stop_in ms)).
    { exists n. repeat split; auto; try lia. unfold ms. apply stop_in_seg; lia. }
    pose proof (deliver_ok (w_done st3) r2 ms (n_sent st) (stop_in ms) Hpend) as Hd. fold rf in Hd.
    destruct (deliver_fields (w_done st3) r2 ms (n_sent st) (stop_in ms)) as (F1 & F2 & F3 & F4).
    fold rf in F1, F2, F3, F4.
    change (r_nread r2) with (n_sent st) in F1. change (r_waiting r2) with (@None nat) in F2.
    set (st4 := set_rds st3 (upd i rf (rds st3))).
    assert (G1 : rds st4 = upd i rf (rds st)).
    { change (rds st4) with (upd i rf (rds st3)). rewrite E1. apply upd_upd. }
    assert (G2 : box st4 = box st3) by reflexivity.
    assert (G3 : n_sent st4 = n_sent st) by exact E3.
    assert (G4 : killed st4 = killed st) by exact E4.
    assert (G5 : fkilled st4 = fkilled st) by exact E5.
    assert (G6 : w_done st4 = w_done st) by exact E6.
    assert (G7 : src st4 = src st) by exact E7.
    assert (G8 : closed st4 = closed st) by exact E8.
    assert (G9 : s_pc st4 = s_pc st) by exact E9.
    clearbody st4 st3.
    split; [|split; [|split]].
    + apply (MB_upd_gc st st4 i r rf HM Hi G1 G3).
      * rewrite G4. auto.
      * rewrite F1. lia.
      * rewrite F1. lia.
      * unfold pc_ok. destruct (r_pc rf); try contradiction.
        -- destruct Hd as (-> & H1 & H2). auto.
        -- destruct Hd as (-> & H1). auto.
        -- destruct Hd as (H1 & H2). rewrite F1. auto.
      * rewrite G1, G2, E2. f_equal. apply min_nread_upd_nread. rewrite F1. reflexivity.
    + eapply sender_ok_view; [| | | | |exact HS]; auto.
    + rewrite G5, G4, Ek. exact HF.
    + rewrite G6. exact HW.
Qed.

Lemma Inv_reader_step st i r :
  Inv st -> nth_error (rds st) i = Some r -> reader_enabled st r = true -> Inv (reader_step cfg st i r).
Proof.
  intros HI Hi Hen. pose proof HI as (HM & HS & HF & HW). pose proof HM as (HB & HSn & HR & Hne).
  destruct (HR _ _ Hi) as [Hrn Hrpc].
  unfold reader_step. destruct (r_pc r) eqn:Epc; auto.
  - (* REnter *)
    unfold read_enter. destruct (next_ready st n) eqn:Enr; [apply (Inv_grab st i r n); auto|].
    set (r' := rd_set_woken (rd_set_pc (rd_set_waiting r (Some n)) (RWait n)) false).
    destruct (maybe_wake_gate_view (set_rds st (upd i r' (rds st)))) as (B1 & B2 & B3 & B4 & B5 & B6 & B7 & B8 & B9).
    set (st' := maybe_wake_gate cfg (set_rds st (upd i r' (rds st)))) in *. clearbody st'.
    cbn [rds box n_sent killed fkilled w_done src closed s_pc set_rds] in B1, B2, B3, B4, B5, B6, B7, B8, B9.
    split; [|split; [|split]].
    + apply (MB_upd_same st st' i r r' HM Hi B1 B3).
      * rewrite B4. auto.
      * reflexivity.
      * unfold pc_ok in *. rewrite Epc in Hrpc. cbn. tauto.
      * exact B2.
    + eapply sender_ok_view; [| | | | |exact HS]; auto.
    + rewrite B5, B4. exact HF.
    + rewrite B6. exact HW.
  - (* RWait *)
    unfold read_resume. destruct (next_ready st n) eqn:Enr; [apply (Inv_grab st i r n); auto|].
    set (st' := set_rds st (upd i (rd_set_woken r false) (rds st))).
    split; [|split; [|split]].
    + apply (MB_upd_same st st' i r (rd_set_woken r false) HM Hi); try reflexivity; auto;
        try (eapply pc_ok_same; [|auto|exact Hrpc]; repeat split).
    + eapply sender_ok_view; [| | | | |exact HS]; reflexivity.
    + exact HF.
    + exact HW.
  - (* RAwait *)
    unfold pc_ok in Hrpc. rewrite Epc in Hrpc. destruct Hrpc as (Hn & Hw & Hp).
    apply pend_ok_cons in Hp. destruct Hp as (a & _ & _ & _ & _ & _ & Hp). cbn [val_of] in Hp.
    set (rf := deliver (w_done st) (rd_log r v) rest n' last).
    pose proof (deliver_ok (w_done st) (rd_log r v) rest n' last Hp) as Hd. fold rf in Hd.
    destruct (deliver_fields (w_done st) (rd_log r v) rest n' last) as (F1 & F2 & F3 & F4).
    fold rf in F1, F2, F3, F4.
    change (r_nread (rd_log r v)) with (r_nread r) in F1. change (r_waiting (rd_log r v)) with (r_waiting r) in F2.
    set (st' := set_rds st (upd i rf (rds st))).
    split; [|split; [|split]].
    + apply (MB_upd_same st st' i r rf HM Hi); try reflexivity; auto.
      unfold pc_ok. destruct (r_pc rf); try contradiction.
      * destruct Hd as (-> & H1 & H2). rewrite F1, F2. auto.
      * destruct Hd as (-> & H1). rewrite F1, F2. auto.
      * destruct Hd as (H1 & H2). rewrite F1, F2. subst n'. auto.
    + eapply sender_ok_view; [| | | | |exact HS]; reflexivity.
    + exact HF.
    + exact HW.
Qed.

(* ---------- all threads ---------- *)
Lemma Inv_step st t st' : Inv st -> step cfg st t = Some st' -> Inv st'.
Proof.
  intros HI Hs. apply step_inv in Hs. destruct t.
  - destruct Hs as [Hen ->]. apply Inv_sender_step; auto.
  - destruct Hs as (r & Hr & Hen & ->). apply Inv_reader_step; auto.
  - destruct Hs as (up & _ & ->). destruct HI as (HM & HS & HF & HW).
    destruct (kill_region_view st up) as (Eb & En & Ek & Ec & Es & Ew & Ef & Er).
    split; [|split; [|split]]; simp_st.
    + eapply MB_same; [| | | |apply (MB_kill st up HM)]; auto.
    + destruct HS as (Hsn & Hcl & Hpc). unfold sender_ok, src_none in *. simp_st.
      rewrite Es, Ec, spc_kill_region, Ek, En. split; [exact Hsn|]. split; [exact Hcl|].
      destruct (s_pc st); auto; try (intros; discriminate).
      destruct Hpc as [H1 H2]. split; auto. intros; discriminate.
    + intros _. exact Ek.
    + rewrite Ew. exact HW.
  - destruct Hs as (d & Hd & _ & ->). destruct HI as (HM & HS & HF & HW).
    split; [|split; [|split]].
    + eapply MB_same; [| | | |exact HM]; auto.
    + exact HS.
    + exact HF.
    + cbn [w_done set_wdone]. rewrite upd_length. exact HW.
Qed.

Definition source_of (ms : list msg) : list (option nat * msg) := map (fun m => (@None nat, m)) ms.

Lemma Inv_init drives killer :
  drives <> [] -> Inv (init cfg drives (source_of msgs) killer nfut).
Proof.
  intros Hd.
  set (st0 := mkState [] 0 false false false (map init_reader drives) SGate false (source_of msgs) killer
                      (repeat false nfut)).
  assert (Hmin : min_nread (map init_reader drives) = 0).
  { destruct drives as [|d t]; [congruence|]. clear.
    revert d; induction t as [|d2 t IH]; intros d; [reflexivity|].
    cbn [map]. rewrite min_nread_cons. cbn [map] in IH. rewrite IH. reflexivity. }
  assert (HM0 : MB st0).
  { split; [|split; [|split]].
    - unfold box_ok. cbn [box rds n_sent st0]. rewrite Hmin. reflexivity.
    - cbn. lia.
    - intros i r Hi. cbn [rds st0] in Hi. apply nth_error_map_some in Hi. destruct Hi as (d & _ & ->).
      split; [cbn; lia|]. unfold pc_ok. cbn. repeat split; auto. lia.
    - cbn [rds st0]. destruct drives; [congruence|discriminate]. }
  assert (Hsn : src_none st0).
  { unfold src_none, source_of. cbn [src st0]. apply Forall_forall. intros x Hx. apply in_map_iff in Hx.
    destruct Hx as (m & <- & _). reflexivity. }
  assert (Hsrc : map snd (src st0) = skipn (n_sent st0) msgs).
  { cbn [src n_sent st0 skipn]. unfold source_of. rewrite map_map. cbn. apply map_id. }
  unfold init. fold st0. destruct (c_lazy cfg).
  - split; [|split; [|split]].
    + exact HM0.
    + unfold sender_ok. cbn [s_pc st0 closed]. split; [exact Hsn|]. split; [discriminate|].
      intros _. split; [exact Hsrc|]. cbn. lia.
    + cbn. intros; discriminate.
    + cbn. apply repeat_length.
  - destruct (produce_view' st0) as (E1 & E2 & E3 & E4 & E5 & E6).
    split; [|split; [|split]].
    + eapply MB_same; eauto; rewrite E4; auto.
    + apply sender_ok_produce; auto. intros _. split; [exact Hsrc|]. cbn. lia.
    + rewrite E5. cbn. intros; discriminate.
    + rewrite E6. cbn. apply repeat_length.
Qed.

Lemma Inv_reachable drives killer sched st :
  drives <> [] -> run cfg (init cfg drives (source_of msgs) killer nfut) sched = Some st -> Inv st.
Proof.
  intros Hd Hrun. eapply run_invariant; [| |exact Hrun]; [intros; eapply Inv_step; eauto|apply Inv_init; auto].
Qed.

(* ---------- delivery safety ---------- *)
Definition is_prefix (l full : list Z) : Prop := exists rest, full = l ++ rest.

Lemma vals_firstn_prefix a : is_prefix (vals (firstn a A)) (vals msgs).
Proof. exists (vals (skipn a A)). rewrite <- vals_app, firstn_skipn. symmetry. apply vals_A. Qed.

Lemma pc_ok_prefix st r :
  pc_ok st r -> is_prefix (r_log r) (vals msgs) /\ (r_pc r = RDone -> r_log r = vals msgs).
Proof.
  unfold pc_ok. destruct (r_pc r).
  - intros (_ & _ & _ & ->). split; [apply vals_firstn_prefix|discriminate].
  - intros (_ & _ & _ & ->). split; [apply vals_firstn_prefix|discriminate].
  - intros (_ & _ & (a & _ & _ & _ & -> & _)). split; [apply vals_firstn_prefix|discriminate].
  - intros (_ & _ & ->). split; auto. exists []. now rewrite app_nil_r.
  - intros (_ & _ & (a & ->)). split; [apply vals_firstn_prefix|discriminate].
Qed.

Lemma drives_reachable dm killer sched st :
  run cfg (init cfg dm (source_of msgs) killer nfut) sched = Some st -> map r_drive (rds st) = dm.
Proof.
  intros Hrun. eapply (run_invariant cfg (fun s => map r_drive (rds s) = dm)); [| |exact Hrun].
  - intros s t s' H Hs. destruct (step_frame _ _ _ _ Hs) as (E & _). congruence.
  - unfold init. destruct (c_lazy cfg).
    + cbn [rds]. rewrite map_map. cbn. apply map_id.
    + destruct (frame_produce (mkState [] 0 false false false (map init_reader dm) SGate false
                                  (source_of msgs) killer (repeat false nfut))) as (_ & E & _).
      rewrite E. cbn [rds]. rewrite map_map. cbn. apply map_id.
Qed.

Theorem delivery_safe dm killer sched st :
  run cfg (init cfg dm (source_of msgs) killer nfut) sched = Some st ->
  forall i r, nth_error (rds st) i = Some r ->
    is_prefix (r_log r) (vals msgs) /\ (r_pc r = RDone -> r_log r = vals msgs).
Proof.
  intros Hrun i r Hi.
  destruct dm as [|d ds] eqn:Ed.
  - pose proof (drives_reachable _ _ _ _ Hrun) as H. destruct (rds st); [destruct i; discriminate|discriminate].
  - assert (Hne : d :: ds <> []) by discriminate.
    destruct (Inv_reachable _ _ _ _ Hne Hrun) as ((_ & _ & HR & _) & _).
    apply pc_ok_prefix with (st := st). apply (HR _ _ Hi).
Qed.

(* ---------- deadlock freedom ---------- *)
Definition valid (dm : list bool) : Prop :=
  dm <> [] /\
  (forall c, c_cap cfg = Some c -> 1 <= c) /\
  (c_lazy cfg = true -> In true dm) /\
  (forall k v, In (Fut k v) msgs -> k < nfut).

Lemma has_box st n : MB st -> has_msg (box st) n = (min_nread (rds st) <=? n) && (n <? n_sent st).
Proof.
  intros HM. pose proof (MB_lo_le _ HM) as Hlo. destruct HM as (HB & HSn & _ & _).
  unfold box_ok in HB. rewrite HB, has_msg_seg.
  - replace (min_nread (rds st) + (n_sent st - min_nread (rds st))) with (n_sent st) by lia. reflexivity.
  - rewrite A_length. lia.
Qed.

Lemma box_len st : MB st -> length (box st) = n_sent st - min_nread (rds st).
Proof.
  intros HM. pose proof (MB_lo_le _ HM) as Hlo. destruct HM as (HB & HSn & _ & _).
  unfold box_ok in HB. rewrite HB, seg_length; auto. rewrite A_length. lia.
Qed.

Lemma box_hd st k m t : MB st -> box st = (k, m) :: t -> k = min_nread (rds st).
Proof. intros (HB & _) E. unfold box_ok in HB. rewrite HB in E. apply seg_hd in E. exact E. Qed.

(* a reader that cannot run is finished or is waiting without having been woken *)
Lemma reader_class dm st r :
  valid dm -> length (w_done st) = nfut ->
  (forall k, k < length (w_done st) -> nth k (w_done st) false = true) ->
  pc_ok st r -> reader_enabled st r = false ->
  r_pc r = RDone \/ r_pc r = RRaised \/ exists n, r_pc r = RWait n /\ r_woken r = false.
Proof.
  intros (_ & _ & _ & Hfut) Hlen Hw Hpc Hen. unfold reader_enabled, pc_ok in *.
  destruct (r_pc r) eqn:E; auto; try discriminate.
  - right. right. eauto.
  - exfalso. destruct Hpc as (_ & _ & Hp). apply pend_ok_cons in Hp.
    destruct Hp as (a & _ & _ & Ha & _).
    assert (Hin : In (Fut k v) msgs).
    { apply nth_error_In in Ha. unfold A in Ha. apply in_app_or in Ha. destruct Ha as [Ha|Ha]; auto.
      cbn in Ha. destruct Ha as [Ha|[]]. discriminate. }
    specialize (Hfut _ _ Hin). unfold fut_done in Hen. rewrite Hw in Hen by lia. discriminate.
Qed.

Lemma waiter_beyond st i r n :
  MB st -> killed st = false -> WR st -> nth_error (rds st) i = Some r ->
  r_pc r = RWait n -> r_woken r = false -> n_sent st <= n /\ r_nread r = n.
Proof.
  intros HM Hk HWR Hi Hpc Hw. pose proof (HWR _ _ _ Hi Hpc Hw) as Hnr.
  unfold next_ready in Hnr. rewrite Hk, orb_false_r, has_box in Hnr by auto.
  destruct HM as (_ & _ & HR & _). destruct (HR _ _ Hi) as [_ Hok].
  unfold pc_ok in Hok. rewrite Hpc in Hok. destruct Hok as (En & _).
  pose proof (min_nread_le _ _ _ Hi) as Hlo. split; auto.
  apply andb_false_iff in Hnr. destruct Hnr as [H|H].
  - apply Nat.leb_gt in H. lia.
  - apply Nat.ltb_ge in H. exact H.
Qed.

Lemma no_enabled_terminal dm st :
  valid dm -> Inv st -> W cfg st -> map r_drive (rds st) = dm ->
  (forall t, enabled st t = false) -> all_terminal st = true.
Proof.
  intros Hv HI HW Hdr Hno. pose proof Hv as (Hd & Hcap & Hlz & Hfut).
  destruct HI as (HM & HS & HF & HWd). pose proof HM as (HB & HSn & HR & Hne).
  destruct HW as (HWR & HWS & HWG & HGL).
  assert (Hk : k_pc st = None).
  { specialize (Hno TK). cbn in Hno. destruct (k_pc st); [discriminate|auto]. }
  assert (Hw : forall k, k < length (w_done st) -> nth k (w_done st) false = true).
  { intros k Hk'. specialize (Hno (TW k)). cbn in Hno. destruct (nth_error (w_done st) k) eqn:E.
    - destruct b; [|discriminate]. apply (nth_error_nth _ _ false) in E. exact E.
    - apply nth_error_None in E. lia. }
  assert (Hrd : forall i r, nth_error (rds st) i = Some r ->
            r_pc r = RDone \/ r_pc r = RRaised \/ exists n, r_pc r = RWait n /\ r_woken r = false).
  { intros i r Hi. eapply reader_class; eauto.
    - apply (HR _ _ Hi).
    - specialize (Hno (TR i)). cbn in Hno. rewrite Hi in Hno. exact Hno. }
  pose proof (Hno TS) as Hs. cbn [enabled] in Hs. unfold sender_enabled in Hs.
  (* every reader is finished, and the sender is *)
  assert (Hfin : (s_pc st = SDone \/ s_pc st = SDead) /\
                 forall i r, nth_error (rds st) i = Some r -> r_pc r = RDone \/ r_pc r = RRaised).
  { destruct (killed st) eqn:Ek.
    - (* killed: nobody can be waiting unwoken *)
      split.
      + destruct (s_pc st) eqn:Epc; auto; try discriminate.
        * specialize (HWG Epc Hs). rewrite can_fetch_killed in HWG; auto. discriminate.
        * specialize (HWS _ _ _ Epc Hs). rewrite can_write_killed in HWS; auto. discriminate.
      + intros i r Hi. destruct (Hrd _ _ Hi) as [H|[H|(n & Hpc & Hwk)]]; auto.
        pose proof (HWR _ _ _ Hi Hpc Hwk) as Hnr. unfold next_ready in Hnr. rewrite Ek, orb_true_r in Hnr.
        discriminate.
    - destruct HS as (_ & _ & Hpc).
      assert (Hreaders_done : n_sent st = S N ->
                forall i r, nth_error (rds st) i = Some r -> r_pc r = RDone \/ r_pc r = RRaised).
      { intros Hn i r Hi. destruct (Hrd _ _ Hi) as [H|[H|(n & Hp & Hwk)]]; auto. exfalso.
        destruct (waiter_beyond _ _ _ _ HM Ek HWR Hi Hp Hwk) as [H1 _].
        destruct (HR _ _ Hi) as [_ Hok]. unfold pc_ok in Hok. rewrite Hp in Hok. lia. }
      destruct (s_pc st) eqn:Epc; try discriminate.
      + (* SGateWait, not woken: can_fetch is false *)
        exfalso. specialize (HWG Epc Hs). specialize (Hpc Ek). destruct Hpc as [_ HnN].
        assert (Hlazy : c_lazy cfg = true) by (apply HGL; auto).
        unfold can_fetch in HWG. rewrite Ek in HWG.
        assert (Hdrv : existsb Mailbox.drives (rds st) = false ->  False).
        { intros Hex. specialize (Hlz Hlazy). rewrite <- Hdr in Hlz. apply in_map_iff in Hlz.
          destruct Hlz as (r & Hrd1 & Hin). apply In_nth_error in Hin. destruct Hin as (i & Hi).
          assert (Hnd : Mailbox.drives r = false).
          { destruct (Mailbox.drives r) eqn:E; auto. rewrite <- Hex. symmetry. apply existsb_exists.
            exists r. split; auto. eapply nth_error_In; eauto. }
          unfold Mailbox.drives in Hnd. rewrite Hrd1 in Hnd. cbn [andb] in Hnd.
          destruct (HR _ _ Hi) as [Hle Hok].
          destruct (Hrd _ _ Hi) as [H|[H|(n & Hp & Hwk)]].
          - unfold pc_ok in Hok. rewrite H in Hok. destruct Hok as (E1 & _). lia.
          - unfold pc_ok in Hok. rewrite H in Hok. destruct Hok as (E1 & _). congruence.
          - unfold pc_ok in Hok. rewrite Hp in Hok. destruct Hok as (_ & _ & E1 & _).
            rewrite E1 in Hnd. discriminate. }
        destruct (existsb (waits_buffered st) (rds st)) eqn:Ewl; [|apply Hdrv; exact HWG].
        (* a subscriber waits for a buffered message: it is in RWait with a true predicate, so it is
           woken (no lost wake-up) and can run *)
        apply existsb_exists in Ewl. destruct Ewl as (r & Hin & Hwl).
        apply In_nth_error in Hin. destruct Hin as (i & Hi).
        unfold waits_buffered in Hwl. destruct (r_waiting r) as [x|] eqn:Ewait; [|discriminate].
        destruct (HR _ _ Hi) as [Hle Hok].
        destruct (Hrd _ _ Hi) as [H|[H|(n & Hp & Hwk)]].
        * unfold pc_ok in Hok. rewrite H in Hok. destruct Hok as (_ & E1 & _). congruence.
        * unfold pc_ok in Hok. rewrite H in Hok. destruct Hok as (_ & E1 & _). congruence.
        * pose proof (HWR _ _ _ Hi Hp Hwk) as Hnr. unfold next_ready in Hnr.
          unfold pc_ok in Hok. rewrite Hp in Hok. destruct Hok as (_ & _ & E1 & _).
          assert (x = n) by congruence. subst x. rewrite Hwl in Hnr. discriminate.
      + (* SSendWait, not woken: the box is full *)
        exfalso. specialize (HWS _ _ _ Epc Hs). unfold can_write in HWS. rewrite Ek, orb_false_r in HWS.
        unfold room in HWS. destruct (c_cap cfg) as [c|] eqn:Ec; [|discriminate].
        apply Nat.ltb_ge in HWS. specialize (Hcap _ eq_refl).
        pose proof (box_len _ HM) as Hlen.
        destruct (min_nread_in _ Hne) as (j & r & Hj & Hmin).
        destruct (HR _ _ Hj) as [Hle Hok].
        destruct (Hrd _ _ Hj) as [H|[H|(n & Hp & Hwk)]].
        * unfold pc_ok in Hok. rewrite H in Hok. destruct Hok as (E1 & _). lia.
        * unfold pc_ok in Hok. rewrite H in Hok. destruct Hok as (E1 & _). congruence.
        * destruct (waiter_beyond _ _ _ _ HM Ek HWR Hj Hp Hwk) as [H1 H2]. lia.
      + (* SDone *)
        split; auto. apply Hreaders_done. apply Hpc. exact Ek.
      + (* SDead *) exfalso. congruence. }
  destruct Hfin as [Hsd Hrdone].
  unfold all_terminal. rewrite Hk.
  assert (E1 : match s_pc st with SDone | SDead => true | _ => false end = true).
  { destruct Hsd as [->| ->]; reflexivity. }
  assert (E2 : forallb (fun r => match r_pc r with RDone | RRaised => true | _ => false end) (rds st) = true).
  { apply forallb_forall. intros r Hin. apply In_nth_error in Hin. destruct Hin as (i & Hi).
    destruct (Hrdone _ _ Hi) as [->| ->]; reflexivity. }
  assert (E3 : forallb (fun d : bool => d) (w_done st) = true).
  { apply forallb_forall. intros d Hin. apply In_nth_error in Hin. destruct Hin as (k & Hk').
    assert (k < length (w_done st)) by (apply nth_error_Some; congruence).
    specialize (Hw _ H). apply (nth_error_nth _ _ false) in Hk'. congruence. }
  rewrite E1, E2, E3. reflexivity.
Qed.

(* all thread identifiers that can possibly be enabled *)
Definition tids (st : state) : list tid :=
  TS :: TK :: map TR (seq 0 (length (rds st))) ++ map TW (seq 0 (length (w_done st))).

Lemma enabled_in_tids st t : enabled st t = true -> In t (tids st).
Proof.
  unfold tids. destruct t; cbn [enabled]; intros H.
  - left; auto.
  - right. right. apply in_or_app. left. apply in_map. apply in_seq.
    destruct (nth_error (rds st) i) eqn:E; [|discriminate].
    assert (i < length (rds st)) by (apply nth_error_Some; congruence). lia.
  - right. left. auto.
  - right. right. apply in_or_app. right. apply in_map. apply in_seq.
    destruct (nth_error (w_done st) k) eqn:E; [|discriminate].
    assert (k < length (w_done st)) by (apply nth_error_Some; congruence). lia.
Qed.

Theorem deadlock_free dm killer sched st :
  valid dm ->
  run cfg (init cfg dm (source_of msgs) killer nfut) sched = Some st ->
  (exists t, enabled st t = true) \/ all_terminal st = true.
Proof.
  intros Hv Hrun. pose proof Hv as (Hd & _).
  destruct (existsb (enabled st) (tids st)) eqn:E.
  - left. apply existsb_exists in E. destruct E as (t & _ & Ht). eauto.
  - right. eapply no_enabled_terminal; eauto.
    + eapply Inv_reachable; eauto.
    + eapply mailbox_no_lost_wakeup_gen; eauto.
    + eapply drives_reachable; eauto.
    + intros t. destruct (enabled st t) eqn:Et; auto.
      assert (existsb (enabled st) (tids st) = true).
      { apply existsb_exists. exists t. split; auto. apply enabled_in_tids. exact Et. }
      congruence.
Qed.

(* ---------- without a killer nothing is ever killed, and the final states are complete ---------- *)
Lemma not_killed_reachable dm sched st :
  dm <> [] ->
  run cfg (init cfg dm (source_of msgs) None nfut) sched = Some st ->
  Inv st /\ k_pc st = None /\ killed st = false.
Proof.
  intros Hd Hrun.
  eapply (run_invariant cfg (fun s => Inv s /\ k_pc s = None /\ killed s = false)); [| |exact Hrun].
  - intros s t s' (HI & Hk & Hkl) Hs. split; [eapply Inv_step; eauto|].
    destruct (step_frame _ _ _ _ Hs) as (_ & _ & Hkp & Hkill).
    assert (Ht : t <> TK).
    { intros ->. apply step_inv in Hs. destruct Hs as (up & Hup & _). congruence. }
    split; [rewrite Hkp; auto|].
    destruct (killed s') eqn:E; auto. exfalso.
    destruct (Hkill eq_refl) as [H|[H|(r & H)]]; try congruence.
    destruct HI as (_ & (_ & _ & Hpc) & _). rewrite H in Hpc. congruence.
  - split; [apply Inv_init; auto|].
    unfold init. destruct (c_lazy cfg); [auto|].
    destruct (frame_produce (mkState [] 0 false false false (map init_reader dm) SGate false
                                (source_of msgs) None (repeat false nfut))) as (E1 & _ & _ & E4).
    rewrite E1, E4. auto.
Qed.

Theorem complete dm sched st :
  dm <> [] ->
  run cfg (init cfg dm (source_of msgs) None nfut) sched = Some st ->
  all_terminal st = true ->
  closed st = true /\ killed st = false /\
  forall i r, nth_error (rds st) i = Some r -> r_pc r = RDone /\ r_log r = vals msgs.
Proof.
  intros Hd Hrun Hterm.
  destruct (not_killed_reachable _ _ _ Hd Hrun) as (HI & Hk & Hkl).
  destruct HI as ((_ & _ & HR & _) & (_ & _ & Hpc) & _).
  unfold all_terminal in Hterm.
  apply andb_true_iff in Hterm. destruct Hterm as [Hterm _].
  apply andb_true_iff in Hterm. destruct Hterm as [Hterm _].
  apply andb_true_iff in Hterm. destruct Hterm as [Hs Hr].
  split; [|split; auto].
  - destruct (s_pc st) eqn:E; try discriminate.
    + apply Hpc. exact Hkl.
    + congruence.
  - intros i r Hi. destruct (HR _ _ Hi) as [_ Hok].
    assert (Hin : In r (rds st)) by (eapply nth_error_In; eauto).
    rewrite forallb_forall in Hr. specialize (Hr _ Hin).
    unfold pc_ok in Hok. destruct (r_pc r) eqn:E; try discriminate.
    + destruct Hok as (_ & _ & Hl). auto.
    + destruct Hok as (Hkk & _). congruence.
Qed.

Theorem maximal_deliver dm sched st :
  valid dm ->
  run cfg (init cfg dm (source_of msgs) None nfut) sched = Some st ->
  (forall t, enabled st t = false) ->
  forall i r, nth_error (rds st) i = Some r -> r_pc r = RDone /\ r_log r = vals msgs.
Proof.
  intros Hv Hrun Hno. pose proof Hv as (Hd & _).
  destruct (deadlock_free _ _ _ _ Hv Hrun) as [(t & Ht)|Hterm].
  - rewrite Hno in Ht. discriminate.
  - destruct (complete _ _ _ Hd Hrun Hterm) as (_ & _ & H). exact H.
Qed.
End InOrder.
