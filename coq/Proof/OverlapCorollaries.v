(* The main theorem instantiated with the proved window-local computations. *)
From SV Require Import Model.Rows Model.Chunk Model.OverlapKernels Model.Overlap.
From SV Require Import Spec.WindowLocal Spec.OverlapSpec.
From SV Require Import Proof.OverlapProof Proof.WindowLocalProof Proof.GroupLocalProof.

(* neighbour count with kernel window (kl, kr) under a declared window (wl, wr): the kernel may look up
   to twice as far as declared, the 2 w + 1 margins of do_compute still cover it *)
Theorem count_chunking_independent kl kr wtuple wl wr odt okind orun otgt sw R a b dt run cs :
  0 <= kl -> 0 <= kr -> kl <= 2 * wl -> kr <= 2 * wr ->
  dsp R -> chunking_of R a b dt run cs ->
  exists outs,
    ow_iter (single_params (f_count kl kr) wtuple wl wr odt okind orun otgt sw) cs = Ok (as_items outs) /\
    flat_map crows outs = f_count kl kr R /\
    contiguous_from a outs /\ last_end a outs = b /\ Forall wf outs.
Proof.
  intros. apply (overlap_single_correct (f_count kl kr) wtuple wl wr kl kr odt okind orun otgt sw R a b dt run cs); auto; try lia.
  apply f_count_window_local; auto.
Qed.

(* one output per gap-separated group, gap threshold G <= 2 wl and <= 2 wr *)
Theorem group_chunking_independent G wtuple wl wr odt okind orun otgt sw R a b dt run cs :
  0 <= G -> G <= 2 * wl -> G <= 2 * wr ->
  dsp R -> chunking_of R a b dt run cs ->
  exists outs,
    ow_iter (single_params (f_group G) wtuple wl wr odt okind orun otgt sw) cs = Ok (as_items outs) /\
    flat_map crows outs = f_group G R /\
    contiguous_from a outs /\ last_end a outs = b /\ Forall wf outs.
Proof.
  intros. apply (overlap_single_correct (f_group G) wtuple wl wr G G odt okind orun otgt sw R a b dt run cs); auto; try lia.
  apply f_group_window_local; auto.
Qed.

(* non-vacuity: the group former really merges and the theorem applies *)
Example group_example :
  f_group 2 [mkrow 1 2 0 0; mkrow 3 4 1 0; mkrow 4 6 2 0; mkrow 9 15 4 0] =
  [mkrow 1 6 0 3; mkrow 9 15 4 1].
Proof. reflexivity. Qed.
