(* The main theorem instantiated with the proved window-local computations. *)
From SV Require Import Model.Rows Model.Chunk Model.OverlapKernels Model.Overlap.
From SV Require Import Spec.WindowLocal Spec.OverlapSpec.
From SV Require Import Proof.OverlapProof Proof.WindowLocalProof Proof.GroupLocalProof.

(* neighbour count with kernel window (kl, kr) under a declared window (wl, wr): the kernel may look up
   to twice as far as declared, the 2 w + 1 margins of do_compute still cover it *)
Theorem count_chunking_independent kl kr wtuple wl wr odt okind orun otgt sw R a b dt run cs :
  0 <= kl -> 0 <= kr -> kl <= 2 * wl -> kr <= 2 * wr ->
  dsp R -> chunking_of R a b dt run cs ->
  exists outs,
    ow_iter (single_params (f_count kl kr) wtuple wl wr odt okind orun otgt sw) cs = Ok (as_items outs) /\
    flat_map crows outs = f_count kl kr R /\
    contiguous_from a outs /\ last_end a outs = b /\ Forall wf outs.
Proof.
  intros. apply (overlap_single_correct (f_count kl kr) wtuple wl wr kl kr odt okind orun otgt sw R a b dt run cs); auto; try lia.
  apply f_count_window_local; auto.
Qed.

(* one output per gap-separated group, gap threshold G <= 2 wl and <= 2 wr *)
Theorem group_chunking_independent G wtuple wl wr odt okind orun otgt sw R a b dt run cs :
  0 <= G -> G <= 2 * wl -> G <= 2 * wr ->
  dsp R -> chunking_of R a b dt run cs ->
  exists outs,
    ow_iter (single_params (f_group G) wtuple wl wr odt okind orun otgt sw) cs = Ok (as_items outs) /\
    flat_map crows outs = f_group G R /\
    contiguous_from a outs /\ last_end a outs = b /\ Forall wf outs.
Proof.
  intros. apply (overlap_single_correct (f_group G) wtuple wl wr G G odt okind orun otgt sw R a b dt run cs); auto; try lia.
  apply f_group_window_local; auto.
Qed.

(* non-vacuity: the group former really merges and the theorem applies *)
Example group_example :
  f_group 2 [mkrow 1 2 0 0; mkrow 3 4 1 0; mkrow 4 6 2 0; mkrow 9 15 4 0] =
  [mkrow 1 6 0 3; mkrow 9 15 4 1].
Proof. reflexivity. Qed.

(* ---- multi-output ---- *)
From SV Require Import Proof.OverlapLists Proof.OverlapMulti.

Lemma straddled_f_row h I x : straddled (f_row h I) x <-> exists r, In r I /\ straddles r x.
Proof.
  rewrite straddled_iff. unfold f_row. split.
  - intros (o & Ho & Hs). apply in_map_iff in Ho as (r & <- & Hr). exists r. split; auto.
  - intros (r & Hr & Hs). eexists. split; [apply in_map; exact Hr|exact Hs].
Qed.

(* outputs that all have one row per input row can be cut at the same times *)
Lemma f_row_same_cuts (hs : list (row -> list row -> Z)) : same_cuts (map f_row hs).
Proof.
  intros f1 f2 I x H1 H2 _. apply in_map_iff in H1 as (h1 & <- & _). apply in_map_iff in H2 as (h2 & <- & _).
  rewrite !straddled_f_row. tauto.
Qed.

(* the dual-output plugin of the harness: neighbour count and plain copy *)
Theorem dual_count_copy_chunking_independent kl kr wtuple wl wr d1 k1 d2 k2 orun otgt sw R a b dt run cs :
  0 <= kl -> 0 <= kr -> kl <= 2 * wl -> kr <= 2 * wr ->
  dsp R -> chunking_of R a b dt run cs ->
  let outs := [mk_ow_out (f_count kl kr) d1 k1; mk_ow_out f_copy d2 k2] in
  exists items,
    ow_iter (mk_ow_params wtuple wl wr outs orun otgt sw) cs = Ok items /\
    forall k o, nth_error outs k = Some o ->
      flat_map crows (out_stream k items) = oo_f o R /\
      contiguous_from a (out_stream k items) /\ last_end a (out_stream k items) = b /\
      Forall wf (out_stream k items).
Proof.
  intros Hkl Hkr H1 H2 HR Hch outs.
  apply (overlap_multi_correct wtuple wl wr kl kr outs orun otgt sw R a b dt run cs); auto; try lia.
  - intros o [<-|[<-|[]]]; cbn [oo_f].
    + apply f_count_window_local; auto.
    + eapply window_local_mono; [| |apply f_copy_window_local]; lia.
  - apply same_cuts_nested. apply (f_row_same_cuts [h_count kl kr; (fun r _ => re r - rt r)]).
Qed.

(* ---- nested cuts: a per-row output together with the group former ---- *)
Lemma covered_of_row G X r x : In r X -> straddles r x -> covered G X x.
Proof.
  induction X as [|a X IH]; intros Hin Hs; [destruct Hin|].
  apply covered_cons. destruct Hin as [<-|Hin]; [left; exact Hs|right; right; apply IH; auto].
Qed.

Lemma row_cut_group_cut h G I x : dsp I -> straddled (f_row h I) x -> straddled (f_group G I) x.
Proof.
  intros Hd Hs. apply straddled_f_row in Hs as (r & Hr & Hsr).
  apply (group_covered G I x Hd). apply (covered_of_row G I r x Hr Hsr).
Qed.

Lemma nested_pair f1 f2 :
  (forall I x, dsp I -> straddled (f1 I) x -> straddled (f2 I) x) -> nested_cuts [f1; f2] /\ nested_cuts [f2; f1].
Proof.
  intros H. split; intros a b [<-|[<-|[]]] [<-|[<-|[]]]; auto.
Qed.

(* the dual-output plugins of the harness that combine the neighbour count with the group former, in
   either order: cache_beyond needs a second pass whenever the count output can be cut later than the
   group output *)
Theorem dual_count_group_chunking_independent kl kr G (group_first : bool) wtuple wl wr d1 k1 d2 k2 orun otgt sw
        R a b dt run cs :
  0 <= kl -> 0 <= kr -> kl <= 2 * wl -> kr <= 2 * wr -> 0 <= G -> G <= 2 * wl -> G <= 2 * wr ->
  dsp R -> chunking_of R a b dt run cs ->
  let oc := mk_ow_out (f_count kl kr) d1 k1 in
  let og := mk_ow_out (f_group G) d2 k2 in
  let outs := if group_first then [og; oc] else [oc; og] in
  exists items,
    ow_iter (mk_ow_params wtuple wl wr outs orun otgt sw) cs = Ok items /\
    forall k o, nth_error outs k = Some o ->
      flat_map crows (out_stream k items) = oo_f o R /\
      contiguous_from a (out_stream k items) /\ last_end a (out_stream k items) = b /\
      Forall wf (out_stream k items).
Proof.
  intros Hkl Hkr H1 H2 HG HG1 HG2 HR Hch oc og outs.
  assert (Hwc : window_local (Z.max kl G) (Z.max kr G) (f_count kl kr)).
  { eapply window_local_mono; [| |apply f_count_window_local; auto]; lia. }
  assert (Hwg : window_local (Z.max kl G) (Z.max kr G) (f_group G)).
  { eapply window_local_mono; [| |apply f_group_window_local; auto]; lia. }
  destruct (nested_pair (f_count kl kr) (f_group G) (fun I x Hd => row_cut_group_cut (h_count kl kr) G I x Hd)) as [N1 N2].
  apply (overlap_multi_correct wtuple wl wr (Z.max kl G) (Z.max kr G) outs orun otgt sw R a b dt run cs); auto; try lia.
  - unfold outs. destruct group_first; cbn [length]; lia.
  - unfold outs. destruct group_first; intros o [<-|[<-|[]]]; cbn [oo_f oc og]; auto.
  - unfold outs. destruct group_first; cbn [map oo_f oc og]; auto.
Qed.

(* ---- any number of outputs: per-row outputs and group formers (one gap threshold) in any order ---- *)
Lemma rows_and_group_nested G (fs : list (list row -> list row)) :
  (forall f, In f fs -> (exists h, f = f_row h) \/ f = f_group G) -> nested_cuts fs.
Proof.
  intros Hshape f1 f2 H1 H2.
  destruct (Hshape f1 H1) as [[h1 ->]| ->]; destruct (Hshape f2 H2) as [[h2 ->]| ->].
  - left. intros I x _ Hs. apply straddled_f_row. apply straddled_f_row in Hs. exact Hs.
  - left. intros I x Hd Hs. exact (row_cut_group_cut h1 G I x Hd Hs).
  - right. intros I x Hd Hs. exact (row_cut_group_cut h2 G I x Hd Hs).
  - left. intros I x _ Hs. exact Hs.
Qed.

Theorem rows_and_group_chunking_independent G wtuple wl wr ml mr outs orun otgt sw R a b dt run cs :
  0 <= wl -> 0 <= wr -> ml <= 2 * wl -> mr <= 2 * wr -> (1 < length outs)%nat ->
  (forall o, In o outs -> window_local ml mr (oo_f o)) ->
  (forall o, In o outs -> (exists h, oo_f o = f_row h) \/ oo_f o = f_group G) ->
  dsp R -> chunking_of R a b dt run cs ->
  exists items,
    ow_iter (mk_ow_params wtuple wl wr outs orun otgt sw) cs = Ok items /\
    forall k o, nth_error outs k = Some o ->
      flat_map crows (out_stream k items) = oo_f o R /\
      contiguous_from a (out_stream k items) /\ last_end a (out_stream k items) = b /\
      Forall wf (out_stream k items).
Proof.
  intros Hwl Hwr H1 H2 Hlen Hloc Hshape HR Hch.
  apply (overlap_multi_correct wtuple wl wr ml mr outs orun otgt sw R a b dt run cs); auto.
  apply (rows_and_group_nested G). intros f Hf. apply in_map_iff in Hf as (o & <- & Ho). auto.
Qed.

(* the harness's outputs: neighbour counts (kernel window (kl, kr)), plain copies and group formers
   (threshold G), ANY number >= 2 of them in ANY order (the three-output plugins copy / count around
   the group former of the C09 generator are instances) *)
Theorem harness_outputs_chunking_independent kl kr G wtuple wl wr outs orun otgt sw R a b dt run cs :
  0 <= kl -> 0 <= kr -> kl <= 2 * wl -> kr <= 2 * wr -> 0 <= G -> G <= 2 * wl -> G <= 2 * wr ->
  (1 < length outs)%nat ->
  (forall o, In o outs -> oo_f o = f_count kl kr \/ oo_f o = f_copy \/ oo_f o = f_group G) ->
  dsp R -> chunking_of R a b dt run cs ->
  exists items,
    ow_iter (mk_ow_params wtuple wl wr outs orun otgt sw) cs = Ok items /\
    forall k o, nth_error outs k = Some o ->
      flat_map crows (out_stream k items) = oo_f o R /\
      contiguous_from a (out_stream k items) /\ last_end a (out_stream k items) = b /\
      Forall wf (out_stream k items).
Proof.
  intros Hkl Hkr H1 H2 HG HG1 HG2 Hlen Hkind HR Hch.
  apply (rows_and_group_chunking_independent G wtuple wl wr (Z.max kl G) (Z.max kr G) outs orun otgt sw R a b dt run cs);
    auto; try lia.
  - intros o Ho. destruct (Hkind o Ho) as [-> | [-> | ->]].
    + eapply window_local_mono; [| |apply f_count_window_local; auto]; lia.
    + eapply window_local_mono; [| |apply f_copy_window_local]; lia.
    + eapply window_local_mono; [| |apply f_group_window_local; auto]; lia.
  - intros o Ho. destruct (Hkind o Ho) as [-> | [-> | ->]].
    + left. exists (h_count kl kr). reflexivity.
    + left. eexists. reflexivity.
    + right. reflexivity.
Qed.

(* non-vacuity: a three-output parameter set of the generator (copy, group former, count) meets the
   hypotheses, on a run where the group former merges rows across the cut points of the other two *)
Example harness_triple_example :
  let outs := [mk_ow_out f_copy 20 10; mk_ow_out (f_group 2) 21 11; mk_ow_out (f_count 1 1) 22 12] in
  (1 < length outs)%nat /\
  (forall o, In o outs -> oo_f o = f_count 1 1 \/ oo_f o = f_copy \/ oo_f o = f_group 2) /\
  f_group 2 [mkrow 0 1 0 0; mkrow 1 2 1 0; mkrow 2 3 2 0] = [mkrow 0 3 0 3].
Proof.
  cbn zeta. split; [cbn; lia|]. split; [|reflexivity].
  intros o [<-|[<-|[<-|[]]]]; cbn [oo_f]; auto.
Qed.
