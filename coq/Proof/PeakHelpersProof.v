(* Proofs about the waveform helpers: symmetric_moving_average equals the windowed mean. *)
From SV Require Import Model.PeakHelpers Spec.PeakHelpersSpec.

Definition psum (a : list Z) (k : Z) : Z := zsum (firstn (Z.to_nat k) a).

Lemma firstn_add {A} (n m : nat) (l : list A) :
  firstn (n + m) l = firstn n l ++ firstn m (skipn n l).
Proof.
  revert l; induction n as [|n IH]; intros l; [reflexivity|].
  destruct l as [|x l]; cbn [Nat.add firstn skipn app].
  - destruct m; reflexivity.
  - rewrite IH. reflexivity.
Qed.

Lemma slice_psum a lo hi : 0 <= lo <= hi -> zsum (slice a lo hi) = psum a hi - psum a lo.
Proof.
  intros H. unfold slice, psum.
  replace (Z.to_nat hi) with (Z.to_nat lo + Z.to_nat (hi - lo))%nat by lia.
  rewrite firstn_add, zsum_app. lia.
Qed.

Lemma psum_nat_succ a (k : nat) :
  zsum (firstn (S k) a) = zsum (firstn k a) + nth k a 0.
Proof.
  revert a; induction k as [|k IH]; intros a.
  - destruct a as [|x a]; cbn; lia.
  - destruct a as [|x a]; [cbn; lia|].
    change (firstn (S (S k)) (x :: a)) with (x :: firstn (S k) a).
    change (firstn (S k) (x :: a)) with (x :: firstn k a).
    cbn [zsum nth]. rewrite IH. lia.
Qed.

Lemma psum_succ a k : 0 <= k -> psum a (k + 1) = psum a k + zget a k.
Proof.
  intros H. unfold psum, zget.
  replace (Z.to_nat (k + 1)) with (S (Z.to_nat k)) by lia. apply psum_nat_succ.
Qed.

Lemma psum_0 a : psum a 0 = 0.
Proof. reflexivity. Qed.

Lemma sma_loop_spec {T} a w : 0 <= w ->
  forall (todo : list T) i asum count,
    0 <= i -> i + zlen todo <= zlen a ->
    asum = psum a (Z.min (zlen a) (i + w)) - psum a (Z.max 0 (i - 1 - w)) ->
    count = Z.min (zlen a) (i + w) - Z.max 0 (i - 1 - w) ->
    sma_loop a w (zlen a) todo i asum count = map (sma_spec_at a w) (zseq i (length todo)).
Proof.
  intros Hw. induction todo as [|x todo IH]; intros i asum count Hi Hlen Hs Hc; [reflexivity|].
  unfold zlen in Hlen. cbn [length] in Hlen. rewrite Nat2Z.inj_succ in Hlen.
  cbn [sma_loop length zseq map].
  assert (Hpo : i - w - 1 >= 0 -> psum a (i - w) = psum a (i - w - 1) + zget a (i - w - 1)).
  { intros. replace (i - w) with ((i - w - 1) + 1) at 1 by lia. apply psum_succ. lia. }
  assert (Hpi : psum a (i + w + 1) = psum a (i + w) + zget a (i + w)).
  { apply psum_succ. lia. }
  f_equal.
  - unfold sma_spec_at, sma_window. rewrite slice_psum by (unfold zlen; lia).
    destruct (i - w - 1 >=? 0) eqn:E1; destruct (i + w <? zlen a) eqn:E2.
    + replace (Z.max 0 (i - w)) with (i - w) by lia.
      replace (Z.min (zlen a) (i + w + 1)) with (i + w + 1) by lia.
      replace (Z.min (zlen a) (i + w)) with (i + w) in * by lia.
      replace (Z.max 0 (i - 1 - w)) with (i - w - 1) in * by lia.
      rewrite Hpi, Hpo by lia. f_equal; lia.
    + replace (Z.max 0 (i - w)) with (i - w) by lia.
      replace (Z.min (zlen a) (i + w + 1)) with (zlen a) by lia.
      replace (Z.min (zlen a) (i + w)) with (zlen a) in * by lia.
      replace (Z.max 0 (i - 1 - w)) with (i - w - 1) in * by lia.
      rewrite Hpo by lia. f_equal; lia.
    + replace (Z.max 0 (i - w)) with 0 by lia.
      replace (Z.min (zlen a) (i + w + 1)) with (i + w + 1) by lia.
      replace (Z.min (zlen a) (i + w)) with (i + w) in * by lia.
      replace (Z.max 0 (i - 1 - w)) with 0 in * by lia.
      rewrite Hpi. f_equal; lia.
    + replace (Z.max 0 (i - w)) with 0 by lia.
      replace (Z.min (zlen a) (i + w + 1)) with (zlen a) by lia.
      replace (Z.min (zlen a) (i + w)) with (zlen a) in * by lia.
      replace (Z.max 0 (i - 1 - w)) with 0 in * by lia.
      f_equal; lia.
  - apply IH; [lia|unfold zlen; lia| |].
    + replace (i + 1 - 1 - w) with (i - w) by lia.
      destruct (i - w - 1 >=? 0) eqn:E1; destruct (i + w <? zlen a) eqn:E2.
      * replace (Z.max 0 (i - w)) with (i - w) by lia.
        replace (Z.min (zlen a) (i + 1 + w)) with (i + w + 1) by lia.
        replace (Z.min (zlen a) (i + w)) with (i + w) in * by lia.
        replace (Z.max 0 (i - 1 - w)) with (i - w - 1) in * by lia.
        rewrite Hpi, Hpo by lia. lia.
      * replace (Z.max 0 (i - w)) with (i - w) by lia.
        replace (Z.min (zlen a) (i + 1 + w)) with (zlen a) by lia.
        replace (Z.min (zlen a) (i + w)) with (zlen a) in * by lia.
        replace (Z.max 0 (i - 1 - w)) with (i - w - 1) in * by lia.
        rewrite Hpo by lia. lia.
      * replace (Z.max 0 (i - w)) with 0 by lia.
        replace (Z.min (zlen a) (i + 1 + w)) with (i + w + 1) by lia.
        replace (Z.min (zlen a) (i + w)) with (i + w) in * by lia.
        replace (Z.max 0 (i - 1 - w)) with 0 in * by lia.
        rewrite Hpi. lia.
      * replace (Z.max 0 (i - w)) with 0 by lia.
        replace (Z.min (zlen a) (i + 1 + w)) with (zlen a) by lia.
        replace (Z.min (zlen a) (i + w)) with (zlen a) in * by lia.
        replace (Z.max 0 (i - 1 - w)) with 0 in * by lia.
        lia.
    + replace (i + 1 - 1 - w) with (i - w) by lia.
      destruct (i - w - 1 >=? 0) eqn:E1; destruct (i + w <? zlen a) eqn:E2; lia.
Qed.

Lemma slice_single a i : 0 <= i < zlen a -> slice a i (i + 1) = [zget a i].
Proof.
  intros H. unfold slice, zget, zlen in *.
  replace (Z.to_nat (i + 1 - i)) with 1%nat by lia.
  remember (Z.to_nat i) as k eqn:Ek.
  assert (Hk : (k < length a)%nat) by lia. clear - Hk.
  revert a Hk; induction k as [|k IH]; intros a Hk; destruct a as [|x a]; cbn in *; try lia; auto.
  apply IH. lia.
Qed.

Lemma sma_w0 a : forall i (pre : list Z), i = zlen pre ->
  map (fun x => (x, 1)) a = map (sma_spec_at (pre ++ a) 0) (zseq i (length a)).
Proof.
  induction a as [|x a IH]; intros i pre Hi; [reflexivity|].
  cbn [map length zseq]. f_equal.
  - unfold sma_spec_at, sma_window.
    assert (Hl : zlen (pre ++ x :: a) = i + 1 + zlen a).
    { unfold zlen in *. rewrite app_length. cbn [length]. lia. }
    replace (Z.max 0 (i - 0)) with i by (unfold zlen in *; lia).
    replace (Z.min (zlen (pre ++ x :: a)) (i + 0 + 1)) with (i + 1) by (unfold zlen in *; lia).
    rewrite slice_single by (unfold zlen in *; lia).
    unfold zget. rewrite Hi. unfold zlen. rewrite Nat2Z.id, app_nth2, Nat.sub_diag by lia.
    cbn. f_equal; lia.
  - replace (pre ++ x :: a) with ((pre ++ [x]) ++ a) by (rewrite <- app_assoc; reflexivity).
    apply IH. unfold zlen in *. rewrite app_length. cbn [length]. lia.
Qed.

Lemma psum_sat a k : zlen a <= k -> psum a k = psum a (zlen a).
Proof.
  intros H. unfold psum, zlen in *. rewrite !firstn_all2 by lia. reflexivity.
Qed.

(* symmetric_moving_average = the windowed mean, for every array and every wing width >= 0 *)
Theorem sma_is_windowed_mean a w : 0 <= w -> sma a w = sma_spec a w.
Proof.
  intros Hw. unfold sma, sma_spec.
  destruct (w =? 0) eqn:E.
  - assert (w = 0) by lia. subst w. apply (sma_w0 a 0 []). reflexivity.
  - assert (Hn : 0 <= zlen a) by (unfold zlen; lia).
    apply sma_loop_spec; [lia|lia|lia| |lia].
    replace (Z.max 0 (0 - 1 - w)) with 0 by lia. rewrite psum_0.
    destruct (Z_le_dec w (zlen a)).
    + replace (Z.min (zlen a) (0 + w)) with w by lia. unfold psum. lia.
    + replace (Z.min (zlen a) (0 + w)) with (zlen a) by lia.
      rewrite <- (psum_sat a w) by lia. unfold psum. lia.
Qed.

(* the window is never empty and lies inside the array: the denominator is positive *)
Lemma sma_window_nonempty a w i : 0 <= w -> 0 <= i < zlen a ->
  let '(lo, hi) := sma_window a w i in 0 <= lo /\ lo <= i < hi /\ hi <= zlen a.
Proof. intros. unfold sma_window. lia. Qed.

(* Hypotheses are satisfiable and the statement is not vacuous *)
Example sma_example : sma [8; 0; 0; 0; 0; 0; 0; 0] 1 =
  [(8, 2); (8, 3); (0, 3); (0, 3); (0, 3); (0, 3); (0, 3); (0, 2)].
Proof. vm_compute. reflexivity. Qed.
Example sma_example2 : sma [1; 2; 3; 4; 5] 2 = [(6, 3); (10, 4); (15, 5); (14, 4); (12, 3)].
Proof. vm_compute. reflexivity. Qed.

Example sma_example_wide : sma [1; 1] 3 = [(2, 2); (2, 2)].
Proof. vm_compute. reflexivity. Qed.

(* Documentation of the pinned tree (before /repo commit 19272a6): count was initialised to
   wing_width although a[:wing_width] has only n elements; that code did NOT compute the windowed
   mean for wing widths beyond the array length. *)
Definition sma_pinned (a : list Z) (w : Z) : list (Z * Z) :=
  if w =? 0 then map (fun x => (x, 1)) a
  else sma_loop a w (zlen a) a 0 (zsum (firstn (Z.to_nat w) a)) w.
Theorem sma_pinned_wide_wing_refuted : exists a w, 0 <= w /\ sma_pinned a w <> sma_spec a w.
Proof. exists [1; 1], 3. split; [lia|]. vm_compute. discriminate. Qed.
