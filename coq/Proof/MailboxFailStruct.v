(* The static part of a network state never changes: kinds, wiring (which mailbox / subscriber slot every
   thread reads, where it sends), capacities, lazy flags, can_drive flags, numbers of mailboxes and threads. *)
From SV Require Import Base.Prelude Model.Mailbox Proof.MailboxFacts Model.MailboxFail Proof.MailboxFailFacts.
Local Open Scope nat_scope.

Definition rsig (r : rstate) : nat * nat := (r_mb r, r_sub r).
Definition tsig (t : thread) : tkind * list (nat * nat) := (t_kind t, map rsig (t_rd t)).
Definition msig (m : mbox) : nat * bool * list bool := (mb_cap m, mb_lazy m, map sb_drive (mb_subs m)).
Definition sig (st : nstate) := (map msig (mbs st), map tsig (ths st)).

Lemma map_upd_same {A B} (f : A -> B) i x l d :
  (i < length l -> f x = f (nth i l d)) -> map f (upd i x l) = map f l.
Proof.
  revert i; induction l as [|h t IH]; intros [|i] H; cbn in *; auto.
  - f_equal. apply H. lia.
  - f_equal. apply IH. intros Hi. apply H. lia.
Qed.

(* ---------- threads ---------- *)
Lemma tsig_set_pc t p : tsig (set_pc t p) = tsig t. Proof. reflexivity. Qed.
Lemma tsig_set_woken t w : tsig (set_woken t w) = tsig t. Proof. reflexivity. Qed.
Lemma tsig_set_round t a b c : tsig (set_round t a b c) = tsig t. Proof. reflexivity. Qed.
Lemma tsig_set_cnt t x : tsig (set_cnt t x) = tsig t. Proof. reflexivity. Qed.
Lemma tsig_add_row t v : tsig (add_row t v) = tsig t. Proof. reflexivity. Qed.
Lemma tsig_set_saver t a b : tsig (set_saver t a b) = tsig t. Proof. reflexivity. Qed.
Lemma tsig_set_got t x : tsig (set_got t x) = tsig t. Proof. reflexivity. Qed.

Lemma tsig_set_cur_r t r : rsig r = rsig (cur_r t) -> tsig (set_cur_r t r) = tsig t.
Proof.
  intros H. unfold tsig, set_cur_r. cbn [t_kind t_rd set_rd]. f_equal.
  apply map_upd_same with (d := dflt_r). intros _. exact H.
Qed.
Lemma tsig_set_buf t b : tsig (set_cur_r t (r_set_buf (cur_r t) b)) = tsig t.
Proof. apply tsig_set_cur_r. reflexivity. Qed.
Lemma tsig_wk f j t : tsig (wk f j t) = tsig t.
Proof. unfold wk. destruct (f t j); reflexivity. Qed.

Section Thread.
Variable nt : net.
Variable tid : nat.

Lemma tsig_first_out t p q : tsig (set_pc t (first_out q p)) = tsig t. Proof. reflexivity. Qed.

Lemma tsig_on_input_killed t c : tsig (on_input_killed nt t c) = tsig t.
Proof. unfold on_input_killed. destruct (t_kind t); reflexivity. Qed.
Lemma tsig_stage_compute t : tsig (stage_compute nt tid t) = tsig t.
Proof. unfold stage_compute. destruct (fault_at nt tid (t_cnt t)); reflexivity. Qed.
Lemma tsig_stage_end t : tsig (stage_end nt tid t) = tsig t.
Proof. unfold stage_end. destruct (fault_at nt tid (t_cnt t)); reflexivity. Qed.

Lemma tsig_stage_fetch left : forall t, tsig (stage_fetch nt tid left t) = tsig t.
Proof.
  induction left as [|l IH]; intros t; cbn [stage_fetch].
  - destruct (t_nstop t =? 0); [rewrite tsig_stage_compute; reflexivity|].
    destruct (t_nstop t =? length (t_rd t)); [rewrite tsig_stage_end; reflexivity | reflexivity].
  - destruct (r_buf (cur_r t)) as [|m rest].
    + destruct (r_last (cur_r t)); [rewrite IH; reflexivity | reflexivity].
    + destruct m; rewrite IH; rewrite tsig_set_round; apply tsig_set_buf.
Qed.

Lemma tsig_source_produce t n : tsig (source_produce nt tid t n) = tsig t.
Proof. unfold source_produce. destruct (t_cnt t <? n); [rewrite tsig_stage_compute | rewrite tsig_stage_end]; reflexivity. Qed.

Lemma tsig_sink_data t v : tsig (fst (sink_data nt tid t v)) = tsig t.
Proof.
  unfold sink_data. destruct (t_kind t); cbn; auto.
  - destruct (if rechunk then None else fault_at nt tid (t_cnt t)); reflexivity.
  - destruct (cfault_at nt (t_cnt t)) as [[[|] c]|]; cbn; auto.
    destruct relay; cbn; auto. destruct (n_f1 nt); reflexivity.
Qed.
Lemma tsig_sink_stop t : tsig (sink_stop nt tid t) = tsig t.
Proof. unfold sink_stop. destruct (t_kind t); cbn; auto. destruct (fault_at nt tid (t_cnt t)); reflexivity. Qed.

Lemma tsig_sink_loop ms : forall t, tsig (sink_loop nt tid t ms) = tsig t.
Proof.
  induction ms as [|m rest IH]; intros t; cbn [sink_loop].
  - rewrite tsig_set_pc. apply tsig_set_buf.
  - set (tb := set_cur_r t (r_set_buf (cur_r t) rest)).
    assert (Hb : tsig tb = tsig t) by apply tsig_set_buf.
    assert (Hd : forall v, tsig (let '(t', go) := sink_data nt tid tb v in if go then sink_loop nt tid t' rest else t') = tsig t).
    { intros v. pose proof (tsig_sink_data tb v) as Hs. destruct (sink_data nt tid tb v) as [t' go]. cbn [fst] in Hs.
      destruct go; [rewrite IH|]; congruence. }
    destruct m; [apply Hd | apply Hd | rewrite tsig_sink_stop; exact Hb].
Qed.

Lemma tsig_consume t : tsig (consume nt tid t) = tsig t.
Proof.
  unfold consume. destruct (t_kind t); try apply tsig_sink_loop.
  destruct (t_rd t); [apply tsig_source_produce | apply tsig_stage_fetch].
Qed.

Lemma tsig_loop_start st t : tsig (loop_start nt tid st t) = tsig t.
Proof.
  unfold loop_start. destruct (t_kind t); try apply tsig_consume.
  - destruct (mb_lazy _); [reflexivity | apply tsig_consume].
  - destruct (next_gate _ _ _); [reflexivity | apply tsig_consume].
Qed.

Lemma tsig_send_raise t closing e : tsig (send_raise nt t closing e) = tsig t.
Proof. unfold send_raise. destruct closing; destruct (t_kind t); try reflexivity. destruct (n_f3 nt); reflexivity. Qed.
End Thread.

(* ---------- mailboxes ---------- *)
Lemma msig_set_sub m s x : sb_drive x = sb_drive (get_sub m s) -> msig (set_sub m s x) = msig m.
Proof.
  intros H. unfold msig, set_sub. cbn [mb_cap mb_lazy mb_subs set_subs]. f_equal.
  apply map_upd_same with (d := dflt_sub). intros _. exact H.
Qed.
Lemma msig_set_box m b : msig (set_box m b) = msig m. Proof. reflexivity. Qed.
Lemma msig_push_box m b : msig (push_box m b) = msig m. Proof. reflexivity. Qed.
Lemma msig_set_closed m b : msig (set_closed m b) = msig m. Proof. reflexivity. Qed.
Lemma msig_set_killed m b r : msig (set_killed m b r) = msig m. Proof. reflexivity. Qed.
Lemma msig_set_fkilled m b : msig (set_fkilled m b) = msig m. Proof. reflexivity. Qed.

(* ---------- states ---------- *)
Lemma sig_set_th st i t : (i < length (ths st) -> tsig t = tsig (get_th st i)) -> sig (set_th st i t) = sig st.
Proof.
  intros H. unfold sig, set_th. cbn [mbs ths]. f_equal. apply map_upd_same with (d := dflt_th). exact H.
Qed.
Lemma sig_set_mb st j m : msig m = msig (get_mb st j) -> sig (set_mb st j m) = sig st.
Proof.
  intros H. unfold sig, set_mb. cbn [mbs ths]. f_equal. apply map_upd_same with (d := dflt_mb). intros _. exact H.
Qed.
Lemma sig_wake f j st : sig (wake f j st) = sig st.
Proof.
  unfold sig, wake. cbn [mbs ths]. f_equal. rewrite map_map. apply map_ext. intros t. apply tsig_wk.
Qed.
Lemma sig_maybe_wake_gate j st : sig (maybe_wake_gate j st) = sig st.
Proof. unfold maybe_wake_gate. destruct (_ && _); auto using sig_wake. Qed.
Lemma sig_kill_mb st j c : sig (kill_mb st j c) = sig st.
Proof.
  unfold kill_mb. cbn [mb_killed set_fkilled]. destruct (mb_killed (get_mb st j)).
  - apply sig_set_mb. reflexivity.
  - rewrite !sig_wake. apply sig_set_mb. reflexivity.
Qed.

Lemma get_th_nth st i t : nth_error (ths st) i = Some t -> get_th st i = t.
Proof. intros H. unfold get_th. apply nth_error_nth_dflt. auto. Qed.

Section Step.
Variable nt : net.
Variable tid : nat.
Variable st : nstate.
Variable t : thread.
Hypothesis Ht : nth_error (ths st) tid = Some t.

Lemma sig_put st1 t' : sig st1 = sig st -> tsig t' = tsig t -> sig (set_th st1 tid t') = sig st.
Proof.
  intros H1 H2. rewrite sig_set_th; auto. intros _. rewrite H2.
  assert (E : map tsig (ths st1) = map tsig (ths st)) by (unfold sig in H1; congruence).
  unfold get_th. assert (Hn : nth_error (map tsig (ths st1)) tid = Some (tsig t)).
  { rewrite E. rewrite nth_error_map, Ht. reflexivity. }
  rewrite nth_error_map in Hn. destruct (nth_error (ths st1) tid) as [u|] eqn:Eu; [|discriminate].
  cbn in Hn. inversion Hn. rewrite (nth_error_nth_dflt _ _ _ _ Eu). congruence.
Qed.

Lemma sig_gate_region resume oi : sig (gate_region nt tid resume st t oi) = sig st.
Proof.
  unfold gate_region. destruct (mb_can_fetch _).
  - destruct (t_kind t); try (apply sig_put; auto using tsig_consume).
    destruct (next_gate _ _ _); apply sig_put; auto using tsig_consume.
  - destruct resume; apply sig_put; auto.
Qed.

Lemma sig_read_region resume : sig (read_region nt tid resume st t) = sig st.
Proof.
  unfold read_region. destruct (has_msg _ _ || mb_killed _).
  - destruct (mb_killed _).
    + apply sig_put; [|apply tsig_on_input_killed]. apply sig_set_mb. apply msig_set_sub. reflexivity.
    + destruct (take_from _ _ _) as [[ms n'] last].
      apply sig_put.
      * rewrite sig_wake, sig_maybe_wake_gate. apply sig_set_mb. rewrite msig_set_box.
        rewrite msig_set_sub by reflexivity. apply msig_set_sub. reflexivity.
      * rewrite tsig_consume. apply tsig_set_cur_r. reflexivity.
  - destruct resume; [apply sig_put; auto|].
    apply sig_put; auto. rewrite sig_maybe_wake_gate. apply sig_set_mb. apply msig_set_sub. reflexivity.
Qed.

Lemma sig_after_send st1 t1 oi mg closing :
  sig st1 = sig st -> tsig t1 = tsig t -> sig (after_send nt tid st1 t1 oi mg closing) = sig st.
Proof.
  intros H1 H2. unfold after_send. apply sig_put.
  - destruct closing; auto. rewrite sig_set_mb; auto.
  - destruct (S oi <? n_outs t1); [rewrite tsig_set_pc; auto|].
    destruct closing; [rewrite tsig_set_pc; auto | rewrite tsig_loop_start; auto].
Qed.

Lemma sig_do_push oi mg closing : sig (do_push nt tid st t oi mg closing) = sig st.
Proof. unfold do_push. apply sig_after_send; auto. rewrite sig_wake. apply sig_set_mb. reflexivity. Qed.

Lemma sig_send_region resume oi mg closing : sig (send_region nt tid resume st t oi mg closing) = sig st.
Proof.
  unfold send_region.
  assert (Hr : forall e, sig (set_th st tid (send_raise nt t closing e)) = sig st).
  { intros e. apply sig_put; auto using tsig_send_raise. }
  destruct resume.
  - destruct (mb_can_write _); [|apply sig_put; auto].
    destruct (mb_killed _); [destruct (mb_fkilled _); auto using sig_after_send | apply sig_do_push].
  - destruct (mb_closed _); auto. destruct (mb_fkilled _); auto.
    destruct (mb_killed _); [apply sig_after_send; auto|].
    destruct (mb_can_write _); [apply sig_do_push | apply sig_put; auto].
Qed.

Lemma sig_thread_step : sig (thread_step nt tid st t) = sig st.
Proof.
  unfold thread_step. destruct (t_pc t); auto using sig_gate_region, sig_read_region, sig_send_region.
  - unfold killout_region. apply sig_put; [apply sig_kill_mb|].
    destruct (S oi <? n_outs t); [reflexivity|]. destruct (is_mk e); reflexivity.
  - unfold killin_region. apply sig_put; [apply sig_kill_mb|].
    destruct (is_mk e && n_f2 nt); [reflexivity|]. destruct (is_mk e).
    + destruct (r_buf (cur_r t)) as [|[v|k v|] rest]; try (rewrite tsig_set_pc; apply tsig_set_buf).
      destruct (r_last (cur_r t)); reflexivity.
    + destruct (t_kind t); reflexivity.
  - unfold killall_region. apply sig_put; [apply sig_kill_mb | reflexivity].
Qed.
End Step.

Lemma sig_settle nt tid st : sig (settle nt tid st) = sig st.
Proof.
  unfold settle. destruct (t_pc (get_th st tid)) eqn:E; auto.
  destruct (first_alive _ _ _); apply sig_set_th; intros _; reflexivity.
Qed.

Theorem sig_step nt st tid st' : nstep nt st tid = Some st' -> sig st' = sig st.
Proof.
  unfold nstep. destruct (nth_error (ths st) tid) as [t|] eqn:Et; [|discriminate].
  destruct (t_enabled nt st t); [|discriminate]. intros H. inversion H; subst st'.
  rewrite sig_settle. eapply sig_thread_step; eauto.
Qed.

Theorem sig_run nt sched : forall st st', nrun nt st sched = Some st' -> sig st' = sig st.
Proof.
  induction sched as [|t s IH]; intros st st' H; cbn in H.
  - inversion H; auto.
  - destruct (nstep nt st t) eqn:E; [|discriminate]. rewrite (IH _ _ H). eapply sig_step; eauto.
Qed.

(* consequences used everywhere *)
Lemma sig_lengths st st' : sig st' = sig st -> length (mbs st') = length (mbs st) /\ length (ths st') = length (ths st).
Proof.
  unfold sig. intros H. injection H as H1 H2. split.
  - rewrite <- (map_length msig (mbs st')), H1, map_length. auto.
  - rewrite <- (map_length tsig (ths st')), H2, map_length. auto.
Qed.

Lemma sig_thread st st' i t' :
  sig st' = sig st -> nth_error (ths st') i = Some t' ->
  exists t, nth_error (ths st) i = Some t /\ tsig t' = tsig t.
Proof.
  unfold sig. intros H Hi. injection H as _ H2.
  assert (Hn : nth_error (map tsig (ths st')) i = Some (tsig t')) by (rewrite nth_error_map, Hi; reflexivity).
  rewrite H2, nth_error_map in Hn. destruct (nth_error (ths st) i) as [t|]; [|discriminate].
  exists t. cbn in Hn. inversion Hn. split; congruence.
Qed.

Lemma sig_mbox st st' j : sig st' = sig st -> msig (get_mb st' j) = msig (get_mb st j).
Proof.
  unfold sig. intros H. injection H as H1 _. unfold get_mb.
  rewrite <- (map_nth msig (mbs st') dflt_mb j), <- (map_nth msig (mbs st) dflt_mb j), H1. reflexivity.
Qed.
