(* C14, exactness of the annotations: with T = the list of (sub-run, first chunk start, last chunk end)
   in spec order, a superrun chunk [a,b) is *exact* when its `subruns` is clip a b T.  Exactness is
   invariant under Chunk.split (when the chunk's promise of continuity holds), Chunk.concatenate of
   adjacent chunks, the superrun Rechunker, storing and loading. *)
From SV Require Import Model.Annot Model.Superrun Proof.SuperrunKeyProof Proof.AnnotProof Proof.SuperrunRowsProof.
From Coq Require Import Permutation Sorted.

(* consecutive spans touch: no gap between the sub-runs *)
Fixpoint tight (l : annot) : Prop :=
  match l with
  | a :: ((b :: _) as r) => send a = sstart b /\ tight r
  | _ => True
  end.

Definition t_lo (T : annot) : Z := sstart (hd span0 T).
Definition t_hi (T : annot) : Z := send (last T span0).

Lemma clip_empty_range a b l : b <= a -> clip a b l = [].
Proof.
  intros H. induction l as [|s l IH]; [reflexivity|].
  rewrite clip_cons, IH. unfold clip_span. destruct (_ <? _) eqn:E; [lia|reflexivity].
Qed.

Lemma last_cons2 {A} (x y : A) l d : last (x :: y :: l) d = last (y :: l) d.
Proof. reflexivity. Qed.

Lemma flat_map_ext_in' {A B} (f g : A -> list B) l :
  (forall x, In x l -> f x = g x) -> flat_map f l = flat_map g l.
Proof.
  induction l as [|x l IH]; intros H; [reflexivity|]. cbn [flat_map].
  rewrite (H x) by (left; auto). rewrite IH; auto. intros y Hy. apply H. right; auto.
Qed.

(* with touching spans the clip of a non-empty range inside the covered range starts and ends exactly
   at the range: the chunk keeps its promise of continuity *)
Lemma clip_tight_ends T : wfa T -> tight T -> forall a b,
  t_lo T <= a -> a < b -> b <= t_hi T ->
  clip a b T <> [] /\ sstart (hd span0 (clip a b T)) = a /\ send (last (clip a b T) span0) = b.
Proof.
  induction T as [|h T IH]; intros Hwf Ht a b Ha Hab Hb.
  { unfold t_lo, t_hi in *. cbn in *. lia. }
  apply wfa_cons_inv in Hwf as (Hh & Hall & HwT).
  unfold t_lo in Ha. cbn [hd] in Ha.
  destruct T as [|h2 T'].
  - (* a single span *)
    unfold t_hi in Hb. cbn [last] in Hb.
    cbn [clip flat_map app]. unfold clip_span. rewrite app_nil_r.
    destruct (Z.max (sstart h) a <? Z.min (send h) b) eqn:E; [|lia].
    cbn [hd last sstart send]. repeat split; [discriminate|lia|lia].
  - destruct Ht as [Htouch Ht'].
    assert (Hhi : t_hi (h :: h2 :: T') = t_hi (h2 :: T')) by reflexivity.
    rewrite Hhi in Hb.
    rewrite clip_cons. unfold clip_span.
    destruct (Z.max (sstart h) a <? Z.min (send h) b) eqn:E.
    + (* the head span meets [a,b) *)
      destruct (Z_le_gt_dec b (send h)) as [Hbe|Hbe].
      * (* ... and the range ends inside it *)
        assert (Hnil : clip a b (h2 :: T') = []).
        { apply clip_left_nil. eapply Forall_impl; [|exact Hall]. cbn; intros; lia. }
        rewrite Hnil. cbn [app hd last sstart send]. repeat split; [discriminate|lia|lia].
      * (* the range goes on into the tail *)
        assert (Hlo2 : t_lo (h2 :: T') <= send h) by (unfold t_lo; cbn [hd]; lia).
        destruct (IH HwT Ht' (send h) b) as (Hne & Hs & He); [unfold t_lo; cbn [hd]; lia|lia|lia|].
        assert (Hsame : clip a b (h2 :: T') = clip (send h) b (h2 :: T')).
        { unfold clip. apply flat_map_ext_in'. intros s Hin. rewrite Forall_forall in Hall. specialize (Hall _ Hin).
          unfold clip_span. rewrite !Z.max_l by lia. reflexivity. }
        rewrite Hsame. cbn [app]. split; [discriminate|]. split; [cbn [hd sstart]; lia|].
        destruct (clip (send h) b (h2 :: T')) as [|x r] eqn:Ec; [contradiction|].
        rewrite last_cons2. exact He.
    + (* the head span lies entirely before a *)
      cbn [app]. apply IH; auto. unfold t_lo; cbn [hd]. lia.
Qed.

(* a chunk that lies inside one sub-run covers exactly that sub-run over its own range *)
Lemma clip_single T r S E a b :
  wfa T -> In (mkspan r S E) T -> S <= a -> a < b -> b <= E -> NoDup (keys T) ->
  clip a b T = [mkspan r a b].
Proof.
  induction T as [|h T IH]; intros Hwf Hin HS Hab HE Hnd; [destruct Hin|].
  apply wfa_cons_inv in Hwf as (Hh & Hall & HwT).
  cbn [keys map] in Hnd. inversion Hnd as [|? ? Hnk Hnd']; subst.
  rewrite clip_cons. destruct Hin as [->|Hin].
  - unfold clip_span. cbn [sstart send srun]. destruct (Z.max S a <? Z.min E b) eqn:E1; [|lia].
    rewrite clip_left_nil; [cbn [app]; f_equal; f_equal; lia|].
    eapply Forall_impl; [|exact Hall]. cbn [send]. intros; lia.
  - rewrite (IH HwT Hin HS Hab HE Hnd').
    rewrite Forall_forall in Hall. specialize (Hall _ Hin). cbn [sstart] in Hall.
    unfold clip_span. destruct (_ <? _) eqn:E1; [lia|reflexivity].
Qed.

(* ---------------------------------------------------------------------------------------------
   split_runs of a clip at ANY time
   --------------------------------------------------------------------------------------------- *)
Definition clamp (a b t : Z) : Z := Z.max a (Z.min t b).

Lemma split_first_clip_span_lo a b t s :
  t <= a -> pop_empty (flat_map (split_span_first t) (clip_span a b s)) = [].
Proof.
  intros Ht. unfold clip_span. destruct (_ <? _) eqn:E; [|reflexivity].
  cbn [flat_map app]. rewrite app_nil_r. unfold split_span_first. cbn [sstart send srun].
  destruct (t <=? Z.max (sstart s) a) eqn:E1; [reflexivity|lia].
Qed.
Lemma split_second_clip_span_lo a b t s :
  t <= a -> pop_empty (flat_map (split_span_second t) (clip_span a b s)) = clip_span a b s.
Proof.
  intros Ht. unfold clip_span. destruct (_ <? _) eqn:E; [|reflexivity].
  cbn [flat_map app]. unfold split_span_second. cbn [sstart send srun].
  destruct (t <=? Z.max (sstart s) a) eqn:E1; [|lia].
  rewrite app_nil_r. unfold pop_empty. cbn [filter sstart send]. destruct (Z.max (sstart s) a =? Z.min (send s) b) eqn:E2; [lia|reflexivity].
Qed.
Lemma split_first_clip_span_hi a b t s :
  b <= t -> pop_empty (flat_map (split_span_first t) (clip_span a b s)) = clip_span a b s.
Proof.
  intros Ht. unfold clip_span. destruct (_ <? _) eqn:E; [|reflexivity].
  cbn [flat_map app]. unfold split_span_first. cbn [sstart send srun].
  destruct (t <=? Z.max (sstart s) a) eqn:E1; [lia|].
  destruct ((Z.max (sstart s) a <? t) && (t <? Z.min (send s) b)) eqn:E2; [lia|].
  destruct (Z.min (send s) b <=? t) eqn:E3; [|lia].
  rewrite app_nil_r. unfold pop_empty. cbn [filter sstart send]. destruct (Z.max (sstart s) a =? Z.min (send s) b) eqn:E4; [lia|reflexivity].
Qed.
Lemma split_second_clip_span_hi a b t s :
  b <= t -> pop_empty (flat_map (split_span_second t) (clip_span a b s)) = [].
Proof.
  intros Ht. unfold clip_span. destruct (_ <? _) eqn:E; [|reflexivity].
  cbn [flat_map app]. rewrite app_nil_r. unfold split_span_second. cbn [sstart send srun].
  destruct (t <=? Z.max (sstart s) a) eqn:E1; [lia|].
  destruct ((Z.max (sstart s) a <? t) && (t <? Z.min (send s) b)) eqn:E2; [lia|reflexivity].
Qed.

Lemma flat_map_nil {A B} (l : list A) : flat_map (fun _ => @nil B) l = [].
Proof. induction l; auto. Qed.

Lemma split_runs_clip_any a b t l :
  a <= b ->
  split_runs (none_if_empty (clip a b l)) t
  = (none_if_empty (clip a (clamp a b t) l), none_if_empty (clip (clamp a b t) b l)).
Proof.
  intros Hab. unfold clamp.
  destruct (Z_lt_ge_dec t a) as [H1|H1]; [|destruct (Z_gt_le_dec t b) as [H2|H2]].
  - (* t before the chunk *)
    rewrite Z.max_l by lia. rewrite (clip_empty_range a a l) by lia.
    assert (F : pop_empty (flat_map (split_span_first t) (clip a b l)) = []).
    { unfold clip. rewrite flat_map_flat_map, pop_empty_flat_map.
      erewrite flat_map_ext; [apply flat_map_nil|]. intros s. apply split_first_clip_span_lo. lia. }
    assert (S : pop_empty (flat_map (split_span_second t) (clip a b l)) = clip a b l).
    { unfold clip. rewrite flat_map_flat_map, pop_empty_flat_map.
      apply flat_map_ext. intros s. apply split_second_clip_span_lo. lia. }
    destruct (clip a b l) eqn:E; [reflexivity|]. cbn [none_if_empty]. unfold split_runs. now rewrite F, S.
  - (* t after the chunk *)
    rewrite Z.min_r, Z.max_r by lia. rewrite (clip_empty_range b b l) by lia.
    assert (F : pop_empty (flat_map (split_span_first t) (clip a b l)) = clip a b l).
    { unfold clip. rewrite flat_map_flat_map, pop_empty_flat_map.
      apply flat_map_ext. intros s. apply split_first_clip_span_hi. lia. }
    assert (S : pop_empty (flat_map (split_span_second t) (clip a b l)) = []).
    { unfold clip. rewrite flat_map_flat_map, pop_empty_flat_map.
      erewrite flat_map_ext; [apply flat_map_nil|]. intros s. apply split_second_clip_span_hi. lia. }
    destruct (clip a b l) eqn:E; [reflexivity|]. cbn [none_if_empty]. unfold split_runs. now rewrite F, S.
  - rewrite Z.min_l, Z.max_r by lia. apply split_runs_clip. lia.
Qed.

(* _split_runs_in_chunk on a one-entry dict *)
Lemma split_runs_single k a b t : a <= b ->
  split_runs (Some ([mkspan k a b] : annot)) t =
  (if a <? Z.min b t then Some [mkspan k a (Z.min b t)] else None,
   if Z.max a t <? b then Some [mkspan k (Z.max a t) b] else None).
Proof.
  intros Hab. unfold split_runs. cbn [flat_map app]. rewrite !app_nil_r.
  unfold split_span_first, split_span_second. cbn [sstart send srun].
  destruct (t <=? a) eqn:E1.
  - cbn [pop_empty filter none_if_empty sstart send].
    destruct (a <? Z.min b t) eqn:E2; [lia|].
    destruct (a =? b) eqn:E3; cbn [negb none_if_empty]; destruct (Z.max a t <? b) eqn:E4; try lia; try reflexivity.
    rewrite Z.max_l by lia. reflexivity.
  - destruct ((a <? t) && (t <? b)) eqn:E2.
    + cbn [pop_empty filter sstart send].
      destruct (a =? t) eqn:E3; [lia|]. destruct (t =? b) eqn:E4; [lia|]. cbn [negb none_if_empty].
      destruct (a <? Z.min b t) eqn:E5; [|lia]. destruct (Z.max a t <? b) eqn:E6; [|lia].
      rewrite Z.min_r, Z.max_r by lia. reflexivity.
    + destruct (b <=? t) eqn:E3; [|lia].
      cbn [pop_empty filter sstart send none_if_empty].
      destruct (Z.max a t <? b) eqn:E6; [lia|].
      destruct (a =? b) eqn:E4; cbn [negb none_if_empty]; destruct (a <? Z.min b t) eqn:E5; try lia; try reflexivity.
      rewrite Z.min_l by lia. reflexivity.
Qed.

Lemma set_superrun_none r s e : set_superrun (Some r) s e None = Ok [mkspan (Some r) s e].
Proof. reflexivity. Qed.
Lemma set_superrun_single r s e k x y :
  set_superrun (Some r) s e (Some [mkspan (Some k) x y]) = Ok [mkspan (Some k) x y].
Proof. reflexivity. Qed.

(* ---------------------------------------------------------------------------------------------
   exact superrun chunks
   --------------------------------------------------------------------------------------------- *)
Section Exact.
  Variable T : annot.                 (* (Some r, S_r, E_r) per sub-run, in spec order *)
  Variable prun : Z.                  (* the superrun's id *)
  Hypothesis HwT : wfa T.
  Hypothesis HndT : NoDup (keys T).
  Hypothesis HnoneT : has_none_key T = false.
  Hypothesis Hprun : prun < 0.

  (* a chunk of the superrun [a,b) whose subruns are exactly clip a b T *)
  Definition exactc (c : achunk) : Prop :=
    let b := abase c in
    crun b = Some prun /\ cstart b <= cend b /\
    asub c = none_if_empty (clip (cstart b) (cend b) T) /\
    asuper c = [mkspan (Some prun) (cstart b) (cend b)].

  Lemma has_none_key_clip a b : has_none_key (clip a b T) = false.
  Proof.
    unfold has_none_key in *. apply not_true_is_false. intros H. apply existsb_exists in H as (s & Hin & Hs).
    assert (In (srun s) (keys T)) as Hk by (apply (clip_keys_incl a b T), in_map, Hin).
    apply in_map_iff in Hk as (s0 & Hs0 & Hin0).
    assert (existsb (fun s => match srun s with None => true | Some _ => false end) T = true) as Hc.
    { apply existsb_exists. exists s0. split; auto. rewrite Hs0. exact Hs. }
    congruence.
  Qed.

  Lemma set_subruns_clip i a b :
    set_subruns i (none_if_empty (clip a b T)) = Ok (none_if_empty (clip a b T)).
  Proof.
    destruct (clip a b T) eqn:E; [reflexivity|]. cbn [none_if_empty]. rewrite <- E.
    apply set_subruns_wfa; [apply clip_wfa, HwT|apply has_none_key_clip].
  Qed.

  Lemma is_superrun_exact c : exactc c -> is_superrun c = Ok (match clip (cstart (abase c)) (cend (abase c)) T with [] => false | _ => true end).
  Proof.
    intros (Hr & _ & Hs & _). unfold is_superrun. rewrite Hs.
    destruct (clip _ _ T); cbn [none_if_empty]; [reflexivity|]. rewrite Hr.
    destruct (prun <? 0) eqn:E; [reflexivity|lia].
  Qed.

  (* split_array never moves the split time forward *)
  Lemma split_array_le rs t early l r t' : split_array rs t early = Some (l, r, t') -> t' <= t.
  Proof.
    unfold split_array. destruct rs as [|d0 rs0]; [intros H; inversion H; lia|].
    destruct (rt d0 >=? t); [intros H; inversion H; lia|].
    destruct (sa_scan _ _ _ _ _) as [[ex les] spl].
    destruct ex; try (intros H; inversion H; lia);
      (destruct (_ || _); [destruct early; [|discriminate]|]; intros H; inversion H; lia).
  Qed.

  (* E1: both halves of a split of an exact chunk are exact *)
  Lemma asplit_exact c t0 early c1 c2 :
    exactc c -> asplit c t0 early = Ok (c1, c2) ->
    exactc c1 /\ exactc c2 /\ cend (abase c1) = cstart (abase c2) /\
    cstart (abase c1) = cstart (abase c) /\ cend (abase c2) = cend (abase c).
  Proof.
    intros Hc H. pose proof Hc as (Hr & Hab & Hs & Hsup).
    unfold asplit in H.
    set (b := abase c) in *. set (t := Z.max (Z.min t0 (cend b)) (cstart b)) in *.
    destruct (if t =? cend b then Some (crows b, [], t)
              else if t =? cstart b then Some ([], crows b, t) else split_array (crows b) t early)
      as [[[d1 d2] t']|] eqn:Er; [|discriminate].
    assert (Ht' : t' <= cend b).
    { destruct (t =? cend b); [inversion Er; lia|]. destruct (t =? cstart b); [inversion Er; lia|].
      apply split_array_le in Er. lia. }
    rewrite Hs, (split_runs_clip_any (cstart b) (cend b) t' T Hab) in H. cbn [fst snd] in H.
    rewrite Hsup in H.
    bind_inv H. bind_inv H. inversion H; subst x x0. clear H.
    apply mk_achunk_ok in Hx as (Hb1 & Hsub1 & Hsup1 & _). apply mk_achunk_ok in Hx0 as (Hb2 & Hsub2 & Hsup2 & _).
    rewrite set_subruns_clip in Hsub1, Hsub2. inversion Hsub1 as [Hs1]. inversion Hsub2 as [Hs2]. clear Hsub1 Hsub2.
    assert (Hcl : clamp (cstart b) (cend b) t' = Z.max (cstart b) t') by (unfold clamp; lia).
    rewrite Hcl in *.
    (* the superrun annotation {prun: [a,b)} and the recovered run ids *)
    set (sp := mkspan (Some prun) (cstart b) (cend b)) in *.
    assert (Hrun : forall x, (if one_or_none x then srun (hd span0 [sp]) else crun b) = Some prun).
    { intros x. destruct (one_or_none x); [reflexivity|exact Hr]. }
    assert (Hrun2 : forall x, (if one_or_none x then srun (last [sp] span0) else crun b) = Some prun).
    { intros x. destruct (one_or_none x); [reflexivity|exact Hr]. }
    rewrite Hrun in Hb1, Hsup1. rewrite Hrun2 in Hb2, Hsup2.
    subst sp. rewrite (split_runs_single (Some prun) (cstart b) (cend b) t' Hab) in Hsup1, Hsup2.
    cbn [fst snd] in Hsup1, Hsup2.
    assert (Hsup1' : asuper c1 = [mkspan (Some prun) (cstart b) (Z.max (cstart b) t')]).
    { destruct (cstart b <? Z.min (cend b) t') eqn:E1.
      - rewrite set_superrun_single in Hsup1. inversion Hsup1. f_equal. f_equal. lia.
      - rewrite set_superrun_none in Hsup1. inversion Hsup1. reflexivity. }
    assert (Hsup2' : asuper c2 = [mkspan (Some prun) (Z.max (cstart b) t') (Z.max t' (cend b))]).
    { destruct (Z.max (cstart b) t' <? cend b) eqn:E1.
      - rewrite set_superrun_single in Hsup2. inversion Hsup2. f_equal. f_equal. lia.
      - rewrite set_superrun_none in Hsup2. inversion Hsup2. reflexivity. }
    unfold exactc. rewrite Hb1, Hb2. cbn [crun cstart cend].
    assert (Hm : Z.max t' (cend b) = cend b) by lia. rewrite Hm in *.
    repeat split; auto; try lia.
  Qed.

  (* E2: concatenating two adjacent exact chunks gives an exact chunk *)
  Lemma aconcatenate_exact c1 c2 allow c :
    exactc c1 -> exactc c2 -> cend (abase c1) = cstart (abase c2) ->
    aconcatenate [Some c1; Some c2] allow = Ok c ->
    exactc c /\ cstart (abase c) = cstart (abase c1) /\ cend (abase c) = cend (abase c2).
  Proof.
    intros (Hr1 & Hab1 & Hs1 & Hsup1) (Hr2 & Hab2 & Hs2 & Hsup2) Hadj H.
    unfold aconcatenate in H. cbn [somes] in H.
    destruct (negb _); [discriminate|].
    assert (Hsame : all_same_run c1 [c1; c2] = true).
    { unfold all_same_run. cbn [forallb]. rewrite Hr1, Hr2, opt_eqb_refl. reflexivity. }
    rewrite Hsame in H. cbn [negb andb res_bind] in H.
    assert (Hm : merge_subruns [c1; c2] false
                 = Ok (none_if_empty (clip (cstart (abase c1)) (cend (abase c2)) T))).
    { unfold merge_subruns. cbn [fold_left]. rewrite Hs1, Hs2, !merge_runs_nie, Hadj.
      rewrite (merge_clips (cstart (abase c1)) (cstart (abase c2)) (cend (abase c2)) T) by (auto; lia).
      reflexivity. }
    rewrite Hm in H. cbn [res_bind] in H. destruct (negb _); [discriminate|].
    apply mk_achunk_ok in H as (Hb & Hsub & Hsup & _). cbn [map last_end] in *.
    rewrite set_subruns_clip in Hsub. inversion Hsub as [Hs]. clear Hsub.
    unfold set_superrun in Hsup. rewrite Hr1 in Hsup.
    cbn [has_none_key existsb srun length Nat.eqb andb orb] in Hsup.
    unfold sort_spans in Hsup. cbn [fold_left ins_span overlapb] in Hsup. inversion Hsup as [Hsp]. clear Hsup.
    unfold exactc. rewrite Hb. cbn [crun cstart cend]. rewrite Hr1.
    repeat split; auto; lia.
  Qed.

  (* the fields that split and concatenate copy *)
  Lemma asplit_fields c t0 early c1 c2 :
    asplit c t0 early = Ok (c1, c2) ->
    cdtype (abase c1) = cdtype (abase c) /\ ckind (abase c1) = ckind (abase c) /\ ctarget (abase c1) = ctarget (abase c) /\
    cdtype (abase c2) = cdtype (abase c) /\ ckind (abase c2) = ckind (abase c) /\ ctarget (abase c2) = ctarget (abase c).
  Proof.
    unfold asplit. intros H.
    destruct (if _ =? _ then _ else _) as [[[d1 d2] t']|]; [|discriminate].
    bind_inv H. bind_inv H. inversion H; subst.
    apply mk_achunk_ok in Hx as (-> & _). apply mk_achunk_ok in Hx0 as (-> & _). cbn. repeat split; reflexivity.
  Qed.

  Lemma aconcatenate_fields c1 c2 allow c :
    aconcatenate [Some c1; Some c2] allow = Ok c ->
    cdtype (abase c) = cdtype (abase c1) /\ ckind (abase c) = ckind (abase c1) /\
    ctarget (abase c) = Z.max (Z.max (ctarget (abase c1)) (ctarget (abase c1))) (ctarget (abase c2)).
  Proof.
    unfold aconcatenate. cbn [somes]. intros H.
    destruct (negb _); [discriminate|]. destruct (_ && _); [discriminate|].
    bind_inv H. bind_inv H. destruct (negb _); [discriminate|].
    apply mk_achunk_ok in H as (-> & _). cbn. repeat split; reflexivity.
  Qed.

  (* concat_split_inverse on exact superrun chunks: whenever a split succeeds and its halves can be
     concatenated, the result is the chunk that was split -- rows, range, run id, sub- and superrun spans *)
  Theorem asplit_aconcatenate_id c t0 early c1 c2 allow c' :
    exactc c -> asplit c t0 early = Ok (c1, c2) -> aconcatenate [Some c1; Some c2] allow = Ok c' -> c' = c.
  Proof.
    intros Hc Hs Hcat.
    destruct (asplit_exact c t0 early c1 c2 Hc Hs) as (H1 & H2 & Hadj & Hst & Hen).
    destruct (aconcatenate_exact c1 c2 allow c' H1 H2 Hadj Hcat) as (Hc' & Hst' & Hen').
    pose proof (asplit_rows _ _ _ _ _ Hs) as Hrows. pose proof (aconcatenate_rows _ _ _ Hcat) as Hrows'.
    destruct (asplit_fields _ _ _ _ _ Hs) as (Hd1 & Hk1 & Ht1 & Hd2 & Hk2 & Ht2).
    destruct (aconcatenate_fields _ _ _ _ Hcat) as (Hd & Hk & Ht).
    destruct Hc as (Hr & Hab & Hsub & Hsup). destruct Hc' as (Hr' & Hab' & Hsub' & Hsup').
    unfold rows_a in *. cbn [somes rows_of_stream flat_map] in Hrows'. rewrite app_nil_r in Hrows'.
    destruct c as [b sub sup]. destruct c' as [b' sub' sup'].
    destruct b as [a e rows dt k run tgt]. destruct b' as [a' e' rows' dt' k' run' tgt'].
    cbn [abase asub asuper cstart cend crows cdtype ckind crun ctarget] in *.
    assert (Ea : a' = a) by congruence. assert (Ee : e' = e) by congruence.
    f_equal; [f_equal| |].
    - exact Ea.
    - exact Ee.
    - congruence.
    - congruence.
    - congruence.
    - congruence.
    - lia.
    - rewrite Hsub', Hsub, Ea, Ee. reflexivity.
    - rewrite Hsup', Hsup, Ea, Ee. reflexivity.
  Qed.

  Ltac rsplit := repeat match goal with |- _ /\ _ => split end.

  (* consecutive chunks touch *)
  Fixpoint chain_from (e : Z) (cs : list achunk) : Prop :=
    match cs with
    | [] => True
    | c :: r => cstart (abase c) = e /\ chain_from (cend (abase c)) r
    end.
  Fixpoint end_of (e : Z) (cs : list achunk) : Z :=
    match cs with [] => e | c :: r => end_of (cend (abase c)) r end.

  Lemma chain_from_app e l1 l2 :
    chain_from e (l1 ++ l2) <-> chain_from e l1 /\ chain_from (end_of e l1) l2.
  Proof.
    revert e; induction l1 as [|c l1 IH]; intros e; cbn [app chain_from end_of]; [tauto|].
    rewrite IH. tauto.
  Qed.
  Lemma end_of_app e l1 l2 : end_of e (l1 ++ l2) = end_of (end_of e l1) l2.
  Proof. revert e; induction l1 as [|c l1 IH]; intros e; cbn [app end_of]; auto. Qed.

  (* E3: the superrun Rechunker (concatenate the cache, split off chunks) keeps every chunk exact *)
  Lemma asplit_off_exact idxs : forall c out c',
    exactc c -> asplit_off c idxs = Ok (out, c') ->
    Forall exactc out /\ exactc c' /\ chain_from (cstart (abase c)) (out ++ [c']) /\
    cend (abase c') = cend (abase c).
  Proof.
    induction idxs as [|i rest IH]; intros c out c' Hc H; cbn [asplit_off] in H.
    - inversion H; subst. cbn. rsplit; auto.
    - destruct (nth_error _ _); [|discriminate]. bind_inv H. destruct x as [c1 c2]. bind_inv H.
      destruct x as [out' c'']. inversion H; subst.
      apply (asplit_exact c _ _ c1 c2 Hc) in Hx as (H1 & H2 & Hadj & Hst & Hen).
      destruct (IH _ _ _ H2 Hx0) as (Ho & Hc' & Hch & He).
      rsplit; auto; [|congruence].
      cbn [app chain_from]. split; [exact Hst|]. rewrite Hadj. exact Hch.
  Qed.

  Definition cache_ok (cache : option achunk) (e : Z) : Prop :=
    match cache with None => True | Some c0 => exactc c0 /\ cend (abase c0) = e end.
  Definition cache_start (cache : option achunk) (e : Z) : Z :=
    match cache with None => e | Some c0 => cstart (abase c0) end.

  Lemma areceive_exact is_sr cache c out cache' :
    cache_ok cache (cstart (abase c)) -> exactc c ->
    areceive is_sr cache c = Ok (out, cache') ->
    exists c', cache' = Some c' /\ Forall exactc out /\ exactc c' /\ cend (abase c') = cend (abase c) /\
               chain_from (cache_start cache (cstart (abase c))) (out ++ [c']).
  Proof.
    intros Hcache Hc H. unfold areceive in H. bind_inv H. bind_inv H. bind_inv H.
    destruct x1 as [o c']. inversion H; subst. exists c'. split; [reflexivity|].
    assert (Hx' : exactc x /\ cstart (abase x) = cache_start cache (cstart (abase c)) /\ cend (abase x) = cend (abase c)).
    { destruct cache as [c0|]; cbn [cache_ok cache_start] in *.
      - destruct Hcache as [H0 He]. apply (aconcatenate_exact c0 c is_sr x H0 Hc He) in Hx. tauto.
      - inversion Hx; subst. auto. }
    destruct Hx' as (Hxe & Hxs & Hxen).
    destruct (asplit_off_exact _ _ _ _ Hxe Hx1) as (Ho & Hc' & Hch & He).
    rsplit; auto; congruence.
  Qed.

  Lemma arechunk_exact is_sr cs : forall cache e res,
    cache_ok cache e -> Forall exactc cs -> chain_from e cs ->
    arechunk_from is_sr cache cs = Ok res ->
    Forall exactc res /\ chain_from (cache_start cache e) res /\
    end_of (cache_start cache e) res = end_of e cs.
  Proof.
    induction cs as [|c rest IH]; intros cache e res Hcache Hall Hch H; cbn [arechunk_from] in H.
    - inversion H; subst. destruct cache as [c0|]; cbn in *; [|auto].
      destruct Hcache. rsplit; auto.
    - bind_inv H. destruct x as [out cache']. bind_inv H. inversion H; subst.
      inversion Hall as [|? ? Hc Hrest]; subst. cbn [chain_from] in Hch. destruct Hch as [Hst Hch].
      rewrite <- Hst in Hcache.
      destruct (areceive_exact _ _ _ _ _ Hcache Hc Hx) as (c' & -> & Ho & Hc' & He & Hchain).
      assert (Hco : cache_ok (Some c') (cend (abase c))) by (cbn; auto).
      destruct (IH _ _ _ Hco Hrest Hch Hx0) as (Hm & Hchm & Hend).
      cbn [cache_start] in Hchm, Hend.
      apply chain_from_app in Hchain as [Hch1 Hch2]. cbn [chain_from] in Hch2. destruct Hch2 as [Hs' _].
      rewrite Hst in *.
      rsplit.
      + apply Forall_app; auto.
      + apply chain_from_app. split; [exact Hch1|]. rewrite <- Hs'. exact Hchm.
      + rewrite end_of_app, <- Hs', Hend. cbn [end_of]. reflexivity.
  Qed.

  (* ---------------------------------------------------------------------------------------------
     storing and re-reading
     --------------------------------------------------------------------------------------------- *)
  Lemma sorted_perm_unique (l1 l2 : annot) :
    StronglySorted (key_le sstart) l1 -> StronglySorted (fun a b => sstart a < sstart b) l2 ->
    Permutation l1 l2 -> l1 = l2.
  Proof.
    revert l2; induction l1 as [|a l1 IH]; intros l2 H1 H2 HP.
    - apply Permutation_nil in HP. now subst.
    - destruct l2 as [|b l2]; [apply Permutation_sym, Permutation_nil in HP; discriminate|].
      inversion H1 as [|? ? Hs1 Ha]; inversion H2 as [|? ? Hs2 Hb]; subst.
      assert (a = b).
      { assert (In a (b :: l2)) as Hia by (eapply Permutation_in; [exact HP|left; auto]).
        assert (In b (a :: l1)) as Hib by (eapply Permutation_in; [symmetry; exact HP|left; auto]).
        destruct Hia as [->|Hia]; auto. destruct Hib as [->|Hib]; auto.
        rewrite Forall_forall in Ha, Hb. specialize (Ha _ Hib). specialize (Hb _ Hia). unfold key_le in Ha. lia. }
      subst b. f_equal. apply IH; auto. eapply Permutation_cons_inv; exact HP.
  Qed.

  Lemma wfa_strict l : wfa l -> StronglySorted (fun a b => sstart a < sstart b) l.
  Proof.
    induction l as [|h l IH]; intros H; [constructor|].
    apply wfa_cons_inv in H as (Hh & Hall & Hl). constructor; [auto|].
    eapply Forall_impl; [|exact Hall]. cbn. intros; lia.
  Qed.

  Lemma sort_spans_of_perm l l' : wfa l -> Permutation l' l -> sort_spans l' = l.
  Proof.
    intros Hwf HP. apply sorted_perm_unique; [rewrite sort_spans_sort_by; apply (sort_by_sorted sstart)|apply wfa_strict, Hwf|].
    rewrite sort_spans_perm. exact HP.
  Qed.

  Lemma has_none_key_perm l l' : Permutation l' l -> has_none_key l' = has_none_key l.
  Proof.
    intros HP. unfold has_none_key. destruct (existsb _ l) eqn:E.
    - apply existsb_exists in E as (s & Hin & Hs). apply existsb_exists. exists s. split; auto.
      eapply Permutation_in; [symmetry; exact HP|exact Hin].
    - apply not_true_is_false. intros E'. apply existsb_exists in E' as (s & Hin & Hs).
      assert (existsb (fun s => match srun s with None => true | Some _ => false end) l = true) as Hc.
      { apply existsb_exists. exists s. split; auto. eapply Permutation_in; [exact HP|exact Hin]. }
      congruence.
  Qed.

  (* a stored exact chunk that covers some sub-run comes back unchanged (the json round trip re-orders the
     dict by run id, the setter re-sorts it by start) *)
  Lemma load_save_exact c :
    exactc c -> clip (cstart (abase c)) (cend (abase c)) T <> [] ->
    mk_chunk (cstart (abase c)) (cend (abase c)) (crows (abase c)) (cdtype (abase c)) (ckind (abase c))
             (crun (abase c)) (ctarget (abase c)) = Ok (abase c) ->
    load_chunk (save_chunk c) = Ok c.
  Proof.
    intros Hc Hne Hmk. pose proof Hc as (Hr & Hab & Hs & Hsup).
    unfold load_chunk, save_chunk. cbn [st_base st_sub]. rewrite Hs.
    destruct (clip (cstart (abase c)) (cend (abase c)) T) as [|x r] eqn:E; [contradiction|].
    cbn [none_if_empty]. rewrite <- E in *. unfold mk_achunk.
    assert (Hset : set_subruns true (Some (sort_by key_z (clip (cstart (abase c)) (cend (abase c)) T)))
                   = Ok (Some (clip (cstart (abase c)) (cend (abase c)) T))).
    { unfold set_subruns.
      rewrite (has_none_key_perm _ _ (sort_by_perm key_z _)), has_none_key_clip.
      rewrite (sort_spans_of_perm (clip (cstart (abase c)) (cend (abase c)) T)); [|apply clip_wfa, HwT|apply sort_by_perm].
      rewrite overlapb_wfa by (apply clip_wfa, HwT). reflexivity. }
    rewrite Hset. cbn [res_bind]. rewrite Hmk. cbn [res_bind]. rewrite Hr, set_superrun_none. cbn [res_bind].
    destruct c as [b sub sup]. cbn in *. subst sub sup. rewrite E. reflexivity.
  Qed.
End Exact.
