(* C09, multi-output plugins: when every output's computation is window-local and the cut sets of the
   outputs are nested (of any two outputs one can be cut wherever the other can; in particular when all
   outputs have one row per input row), each output delivered by OverlapWindowPlugin.iter equals its
   computation over the whole run; cache_beyond needs at most two of its max_trials passes. *)
From SV Require Import Model.Rows Model.SplitArray Model.Chunk Model.Overlap Spec.WindowLocal Spec.OverlapSpec.
From SV Require Import Proof.RowsFacts Proof.OverlapChunkFacts Proof.OverlapLists Proof.OverlapBasic Proof.OverlapProof.

Lemma map_res_map {A B C} (g : A -> B) (h : B -> res C) (k : A -> C) : forall l,
  (forall x, In x l -> h (g x) = Ok (k x)) -> map_res h (map g l) = Ok (map k l).
Proof.
  induction l as [|x l IH]; intros H; cbn [map map_res]; [reflexivity|].
  rewrite (H x (or_introl eq_refl)). cbn [res_bind]. rewrite IH by (intros; apply H; right; auto). reflexivity.
Qed.

Lemma cb_pass_fixed {A} (g : A -> chunk) (b : A -> chunk) p : forall l,
  (forall x, In x l -> exists a, chunk_split (g x) p true = Ok (a, b x) /\ cstart (b x) = p) ->
  cb_pass (map g l) p = Ok (map b l, p).
Proof.
  induction l as [|x l IH]; intros H; cbn [map cb_pass]; [reflexivity|].
  destruct (H x (or_introl eq_refl)) as (a & Hs & Hp). rewrite Hs. cbn [res_bind]. rewrite Hp.
  rewrite IH by (intros; apply H; right; auto). reflexivity.
Qed.

Lemma list_nonempty {A} (l : list A) : (0 < length l)%nat -> exists x r, l = x :: r.
Proof. destruct l as [|x r]; cbn; [lia|eauto]. Qed.

Lemma sorted_filter (P : row -> bool) O : sorted O -> sorted (filter P O).
Proof.
  induction O as [|o O IH]; cbn; [auto|]. intros [Ha Hb]. destruct (P o); [|auto]. cbn. split; [|auto].
  clear - Ha. induction O as [|q O IH]; cbn; [constructor|]. inversion Ha; subst.
  destruct (P q); [constructor|]; auto.
Qed.

Section OneOutput.
  Variable f : list row -> list row.
  Variables wl wr : Z.
  Hypothesis Hwl : 0 <= wl.
  Hypothesis Hwr : 0 <= wr.
  Hypothesis HWL : window_local (2 * wl) (2 * wr) f.
  Variables odt okind : Z.
  Variable orun : option Z.
  Variable otgt : Z.
  Variable R : list row.
  Hypothesis HR : dsp R.

  Let oc (s e : Z) (rows : list row) : chunk := mkchunk s e rows odt okind orun otgt.

  Variable inp : chunk.
  Variables L T : list row.
  Variable S : Z.
  Hypothesis Hwf : wf inp.
  Hypothesis HRdec : R = L ++ crows inp ++ T.
  Hypothesis HS : cstart inp <= S <= cend inp.
  Hypothesis HL : Forall (fun q => re q + 2 * wl < S) L.
  Hypothesis HT : Forall (fun q => cend inp <= rt q) T.
  Hypothesis Hphase : (S = cstart inp /\ L = []) \/ S + 2 * wr + 1 <= cend inp.
  Hypothesis HnsR : ~ straddled (f R) S.

  Let I := crows inp.

  Lemma oo_dI : dsp I.
  Proof. unfold I. rewrite HRdec in HR. apply dsp_app in HR as [_ H]. apply dsp_app in H as [H _]. exact H. Qed.

  Lemma oo_dR : dsp (L ++ I ++ T).
  Proof. unfold I. rewrite <- HRdec. exact HR. Qed.

  Lemma oo_range : Forall (fun o => cstart inp <= rt o /\ re o <= cend inp) (f I).
  Proof.
    apply (wl_range _ _ _ HWL); [exact oo_dI|]. eapply Forall_impl; [|exact (wf_rows_in _ Hwf)]. cbn beta; intros; lia.
  Qed.

  Lemma oo_nsI : ~ straddled (f I) S.
  Proof.
    destruct Hphase as [[HSa HLn]|HSb].
    - intros Hst. apply straddled_iff in Hst as (o & Ho & Hso).
      pose proof (proj1 (Forall_forall _ _) oo_range o Ho) as H. unfold straddles in Hso. cbn beta in H. lia.
    - intros Hst. apply HnsR. rewrite HRdec. apply (wl_straddle _ _ _ HWL L I T S oo_dR); [|exact Hst].
      split; [exact HL|]. eapply Forall_impl; [|exact HT]. cbn beta; intros; lia.
  Qed.

  Lemma oo_rows_from p : cstart inp <= p -> p <= cend inp ->
    rows_in p (cend inp) (filter (fromb p) (f I)).
  Proof.
    intros H1 H2. unfold rows_in. apply Forall_forall. intros o Ho. apply filter_In in Ho as [Ho Hb].
    pose proof (proj1 (Forall_forall _ _) oo_range o Ho) as Hr.
    pose proof (proj1 (Forall_forall _ _) (wl_pos _ _ _ HWL I oo_dI) o Ho) as Hp.
    unfold fromb in Hb. cbn beta in *. lia.
  Qed.

  Lemma oo_wf_from p : cstart inp <= p -> p <= cend inp -> wf (oc p (cend inp) (filter (fromb p) (f I))).
  Proof.
    intros H1 H2. destruct Hwf as (H0 & _). apply wf_mkchunk; try lia.
    - apply sorted_filter. apply (wl_sorted _ _ _ HWL). exact oo_dI.
    - apply oo_rows_from; auto.
  Qed.

  (* Plugin.do_compute: the result over the input's range *)
  Lemma oo_result0 :
    mk_chunk (cstart inp) (cend inp) (f I) odt okind orun otgt = Ok (oc (cstart inp) (cend inp) (f I)) /\
    wf (oc (cstart inp) (cend inp) (f I)).
  Proof.
    destruct Hwf as (H0 & Hse & _).
    assert (Hri : rows_in (cstart inp) (cend inp) (f I)).
    { unfold rows_in. apply Forall_forall. intros o Ho.
      pose proof (proj1 (Forall_forall _ _) oo_range o Ho) as Hr.
      pose proof (proj1 (Forall_forall _ _) (wl_pos _ _ _ HWL I oo_dI) o Ho) as Hp. cbn beta in *. lia. }
    split; [apply mk_chunk_ok; auto|apply wf_mkchunk; auto]. apply (wl_sorted _ _ _ HWL). exact oo_dI.
  Qed.

  (* the strict split at sent_until *)
  Lemma oo_strict S0 : S = clamp inp S0 ->
    exists l1,
      chunk_split (oc (cstart inp) (cend inp) (f I)) S0 false =
        Ok (oc (cstart inp) S l1, oc S (cend inp) (filter (fromb S) (f I))).
  Proof.
    intros HSdef. destruct oo_result0 as [_ Hwf0].
    set (res0 := oc (cstart inp) (cend inp) (f I)) in *.
    assert (Hc1 : clamp res0 S0 = S) by (rewrite HSdef; reflexivity).
    destruct (chunk_split_spec res0 S0 false Hwf0) as (l1 & r1 & t1 & Hs1 & Hlr1 & Hl1 & Hr1 & _ & _ & Ht1 & _).
    { right. rewrite Hc1. intros Hst. apply oo_nsI. apply straddled_rows_iff. exact Hst. }
    rewrite Hc1 in Ht1.
    assert (Et1 : t1 = S) by (apply Ht1; intros Hst; apply oo_nsI; apply straddled_rows_iff; exact Hst).
    subst t1. cbn [crows res0 oc] in Hlr1.
    destruct (split_is_filter (f I) l1 r1 S Hlr1 (wl_pos _ _ _ HWL I oo_dI) Hl1 Hr1) as [_ Er1].
    exists l1. rewrite Hs1, Er1. reflexivity.
  Qed.

  (* the early split of the remaining results at p *)
  Lemma oo_early p :
    exists S',
      chunk_split (oc S (cend inp) (filter (fromb S) (f I))) p true =
        Ok (oc S S' (filter (betweenb S S') (f I)), oc S' (cend inp) (filter (fromb S') (f I))) /\
      S <= S' /\ S' <= Z.max (Z.min p (cend inp)) S /\
      ~ straddled (f I) S' /\
      (~ straddled (f I) (Z.max (Z.min p (cend inp)) S) -> S' = Z.max (Z.min p (cend inp)) S).
  Proof.
    set (res1 := oc S (cend inp) (filter (fromb S) (f I))).
    assert (Hwf1 : wf res1) by (apply oo_wf_from; lia).
    destruct (chunk_split_spec res1 p true Hwf1 (or_introl eq_refl))
      as (l2 & r2 & S' & Hs2 & Hlr2 & Hl2 & Hr2 & HS1 & HS2 & Hex & _).
    assert (Hc2 : clamp res1 p = Z.max (Z.min p (cend inp)) S) by reflexivity.
    rewrite Hc2 in *. cbn [cstart cend cdtype ckind crun ctarget crows res1 oc] in *.
    assert (Hpos1 : Forall (fun o => rt o < re o) (filter (fromb S) (f I))).
    { apply Forall_forall. intros o Ho. apply filter_In in Ho as [Ho _].
      exact (proj1 (Forall_forall _ _) (wl_pos _ _ _ HWL I oo_dI) o Ho). }
    destruct (split_is_filter _ l2 r2 S' Hlr2 Hpos1 Hl2 Hr2) as [El2 Er2].
    rewrite before_from_between in El2. rewrite from_from in Er2 by lia.
    assert (Hns' : ~ straddled (f I) S').
    { intros Hst. apply straddled_iff in Hst as (o & Ho & Hso). unfold straddles in Hso.
      destruct (Z_lt_dec (rt o) S) as [Hlt|Hge].
      - pose proof (not_straddled_end _ _ _ oo_nsI Ho Hlt). lia.
      - assert (Ho1 : In o (filter (fromb S) (f I))) by (apply filter_In; split; [auto|unfold fromb; lia]).
        rewrite <- Hlr2 in Ho1. apply in_app_or in Ho1 as [Ho2|Ho2].
        + pose proof (proj1 (Forall_forall _ _) Hl2 o Ho2) as H. cbn beta in H. lia.
        + pose proof (proj1 (Forall_forall _ _) Hr2 o Ho2) as H. cbn beta in H. lia. }
    exists S'. split; [rewrite Hs2, El2, Er2; reflexivity|]. split; [lia|]. split; [lia|]. split; [exact Hns'|].
    intros Hn. apply Hex. intros (q & Hq & Hsq). apply Hn. apply straddled_iff. exists q. split; [|exact Hsq].
    apply filter_In in Hq. tauto.
  Qed.

  (* what is sent out between S and S' is what the whole-run computation has there *)
  Lemma oo_emit S' :
    S <= S' -> ((S' = S /\ S = cstart inp /\ L = []) \/ S' + 2 * wr + 1 <= cend inp) ->
    ~ straddled (f I) S' ->
    ~ straddled (f R) S' /\
    filter (betweenb S S') (f I) = filter (betweenb S S') (f R).
  Proof.
    intros HSS Hphase' HnsI'.
    assert (HnsR' : ~ straddled (f R) S').
    { destruct Hphase' as [(E1 & E2 & E3)|Hb].
      - rewrite E1. exact HnsR.
      - intros Hst. apply HnsI'. rewrite HRdec in Hst. apply (wl_straddle _ _ _ HWL L I T S' oo_dR); [|exact Hst].
        split.
        + eapply Forall_impl; [|exact HL]. cbn beta; intros; lia.
        + eapply Forall_impl; [|exact HT]. cbn beta; intros; lia. }
    split; [exact HnsR'|].
    destruct Hphase' as [(E1 & _)|Hb].
    - rewrite E1. rewrite !filter_all_false; auto; apply Forall_forall; intros o _;
        unfold betweenb, fromb, beforeb; lia.
    - rewrite (filter_filter_impl (betweenb S S') (safeb (2 * wl) (2 * wr) L T) (f I)).
      + rewrite (filter_filter_impl (betweenb S S') (safeb (2 * wl) (2 * wr) L T) (f R)).
        * rewrite (wl_agree _ _ _ HWL L I T oo_dR). unfold I. rewrite <- HRdec. reflexivity.
        * intros o Ho Hb'. unfold betweenb, fromb, beforeb in Hb'. apply andb_true_iff in Hb' as [Hb1 Hb2].
          pose proof (not_straddled_end _ _ _ HnsR' Ho ltac:(lia)) as He.
          apply safeb_true.
          -- eapply Forall_impl; [|exact HL]. cbn beta; intros; lia.
          -- eapply Forall_impl; [|exact HT]. cbn beta; intros; lia.
      + intros o Ho Hb'. unfold betweenb, fromb, beforeb in Hb'. apply andb_true_iff in Hb' as [Hb1 Hb2].
        pose proof (not_straddled_end _ _ _ HnsI' Ho ltac:(lia)) as He.
        apply safeb_true.
        * eapply Forall_impl; [|exact HL]. cbn beta; intros; lia.
        * eapply Forall_impl; [|exact HT]. cbn beta; intros; lia.
  Qed.

  Lemma oo_wf_between S' : S <= S' -> S' <= cend inp -> ~ straddled (f I) S' ->
    wf (oc S S' (filter (betweenb S S') (f I))).
  Proof.
    intros H1 H2 Hns. destruct Hwf as (H0 & _). apply wf_mkchunk; try lia.
    - apply sorted_filter. apply (wl_sorted _ _ _ HWL). exact oo_dI.
    - unfold rows_in. apply Forall_forall. intros o Ho. apply filter_In in Ho as [Ho Hb].
      pose proof (proj1 (Forall_forall _ _) (wl_pos _ _ _ HWL I oo_dI) o Ho) as Hp.
      unfold betweenb, fromb, beforeb in Hb. apply andb_true_iff in Hb as [Hb1 Hb2].
      pose proof (not_straddled_end _ _ _ Hns Ho ltac:(lia)). cbn beta in *. lia.
  Qed.

  (* at the end of the run the cached results are those of the whole-run computation *)
  Lemma oo_flush S' : T = [] -> S <= S' ->
    filter (fromb S') (f I) = filter (fromb S') (f R).
  Proof.
    intros HT0 HSS. pose proof oo_dR as HdR. pose proof HRdec as HRd. rewrite HT0 in HdR, HRd.
    rewrite (filter_filter_impl (fromb S') (safeb (2 * wl) (2 * wr) L []) (f I)).
    - rewrite (filter_filter_impl (fromb S') (safeb (2 * wl) (2 * wr) L []) (f R)).
      + rewrite (wl_agree _ _ _ HWL L I [] HdR). unfold I. rewrite <- HRd. reflexivity.
      + intros o _ Hb'. unfold fromb in Hb'. apply safeb_true; [|constructor].
        eapply Forall_impl; [|exact HL]. cbn beta; intros; lia.
    - intros o _ Hb'. unfold fromb in Hb'. apply safeb_true; [|constructor].
      eapply Forall_impl; [|exact HL]. cbn beta; intros; lia.
  Qed.
End OneOutput.

(* ------------------------------------------------------------------------------------------ *)
Section Multi.
  Variables wl wr : Z.
  Variable wtuple : bool.
  Variable outs : list ow_out.
  Variable orun : option Z.
  Variables otgt sw : Z.
  Hypothesis Hwl : 0 <= wl.
  Hypothesis Hwr : 0 <= wr.
  Hypothesis Hmulti : (1 < length outs)%nat.
  Hypothesis HWLs : forall o, In o outs -> window_local (2 * wl) (2 * wr) (oo_f o).
  (* the cut sets of the outputs are nested: of any two outputs, one can be cut wherever the other can *)
  Hypothesis Hnested : forall o1 o2, In o1 outs -> In o2 outs ->
      (forall I x, dsp I -> straddled (oo_f o1 I) x -> straddled (oo_f o2 I) x) \/
      (forall I x, dsp I -> straddled (oo_f o2 I) x -> straddled (oo_f o1 I) x).

  Let P := mk_ow_params wtuple wl wr outs orun otgt sw.

  Variable R : list row.
  Hypothesis HR : dsp R.

  Definition och (o : ow_out) (s e : Z) (rows : list row) : chunk :=
    mkchunk s e rows (oo_dt o) (oo_kind o) orun otgt.

  Lemma get_window_ok_m : get_window P = Ok (wl, wr).
  Proof.
    unfold get_window, P. cbn [ow_wtuple ow_wl ow_wr].
    destruct (wl <? 0) eqn:E1; [lia|]. destruct (wr <? 0) eqn:E2; [lia|].
    rewrite andb_false_r. reflexivity.
  Qed.

  Lemma multi_true : multi_output P = true.
  Proof. unfold multi_output, P. cbn [ow_outs]. apply Nat.ltb_lt. exact Hmulti. Qed.

  (* ---- cache_beyond over the outputs: at most two passes when the cut sets are nested ---- *)
  Lemma max_trials_two : exists k, Z.to_nat OVERLAP_MAX_TRIALS = Datatypes.S (Datatypes.S k).
  Proof. eexists. vm_compute. reflexivity. Qed.

  (* a most restrictive output: where it can be cut, every output can be cut *)
  Lemma most_restrictive_exists :
    exists m, In m outs /\ forall o I x, In o outs -> dsp I -> straddled (oo_f o I) x -> straddled (oo_f m I) x.
  Proof.
    assert (Hgen : forall l, incl l outs -> l <> [] ->
              exists m, In m l /\ forall o I x, In o l -> dsp I -> straddled (oo_f o I) x -> straddled (oo_f m I) x).
    { induction l as [|a l IH]; intros Hi Hne; [congruence|].
      destruct l as [|b l'].
      - exists a. split; [left; auto|]. intros o I x [<-|[]] _ H. exact H.
      - destruct IH as (m & Hm & Hmax); [intros x Hx; apply Hi; right; exact Hx|discriminate|].
        destruct (Hnested a m (Hi a (or_introl eq_refl)) (Hi m (or_intror Hm))) as [Ham|Hma].
        + exists m. split; [right; exact Hm|]. intros o I x [<-|Ho] Hd H; [apply Ham; auto|apply (Hmax o I x Ho Hd H)].
        + exists a. split; [left; auto|]. intros o I x [<-|Ho] Hd H; [exact H|]. apply Hma; [exact Hd|apply (Hmax o I x Ho Hd H)]. }
    destruct (list_nonempty outs ltac:(lia)) as (o1 & orest & Eouts).
    destruct (Hgen outs (incl_refl _)) as (m & Hm & Hmax); [rewrite Eouts; discriminate|].
    exists m. split; auto.
  Qed.

  Lemma one_unique_const (cs : list chunk) x : cs <> [] -> Forall (fun c => cstart c = x) cs -> one_unique (map cstart cs) = true.
  Proof.
    destruct cs as [|c cs]; [congruence|]. intros _ H. inversion H; subst. cbn [map one_unique].
    apply forallb_forall. intros y Hy. apply in_map_iff in Hy as (c' & <- & Hc').
    rewrite Forall_forall in H3. rewrite (H3 c' Hc'). apply Z.eqb_refl.
  Qed.

  Lemma one_unique_eq (cs : list chunk) : one_unique (map cstart cs) = true ->
    exists x, Forall (fun c => cstart c = x) cs.
  Proof.
    destruct cs as [|c cs]; cbn; [discriminate|]. intros H. exists (cstart c). constructor; [reflexivity|].
    rewrite forallb_forall in H. apply Forall_forall. intros y Hy. apply Z.eqb_eq. apply H. apply in_map. exact Hy.
  Qed.

  Lemma cb_multi inp L T S :
    wf inp -> R = L ++ crows inp ++ T -> cstart inp <= S <= cend inp ->
    Forall (fun q => re q + 2 * wl < S) L ->
    Forall (fun q => cend inp <= rt q) T ->
    ((S = cstart inp /\ L = []) \/ S + 2 * wr + 1 <= cend inp) ->
    (forall o, In o outs -> ~ straddled (oo_f o R) S) ->
    forall ib, exists cs S',
      cache_beyond (map (fun o => och o S (cend inp) (filter (fromb S) (oo_f o (crows inp)))) outs) ib = Ok (cs, S') /\
      S <= S' /\ S' <= Z.max (Z.min ib (cend inp)) S /\
      forall o, In o outs -> ~ straddled (oo_f o (crows inp)) S'.
  Proof.
    intros Hwf HRdec HS HL HT Hphase HnsR ib.
    assert (HdI : dsp (crows inp)).
    { rewrite HRdec in HR. apply dsp_app in HR as [_ HR']. apply dsp_app in HR' as [HR' _]. exact HR'. }
    set (I := crows inp) in *. set (E := cend inp) in *.
    set (g := fun o => och o S E (filter (fromb S) (oo_f o I))).
    set (A := fun (o : ow_out) (p : Z) => ~ straddled (oo_f o I) p).
    set (cl := fun p => Z.max (Z.min p E) S).
    assert (Hcl : forall p, S <= cl p <= E) by (intros p; unfold cl; lia).
    assert (Hclid : forall p, S <= p <= E -> cl p = p) by (intros p Hp; unfold cl; lia).
    (* one early split *)
    assert (Hearly : forall o p, In o outs -> exists c1 s,
              chunk_split (g o) p true = Ok (c1, och o s E (filter (fromb s) (oo_f o I))) /\
              S <= s /\ s <= cl p /\ A o s /\ (A o (cl p) -> s = cl p)).
    { intros o p Ho.
      destruct (oo_early (oo_f o) wl wr (HWLs o Ho) (oo_dt o) (oo_kind o) orun otgt R HR inp L T S
                  Hwf HRdec HS HL HT Hphase (HnsR o Ho) p) as (s & Hsp & H1 & H2 & H3 & H4).
      eexists _, s. split; [exact Hsp|]. repeat split; auto. }
    (* one pass of the inner loop *)
    assert (Hpass : forall l p, incl l outs ->
              exists cs p', cb_pass (map g l) p = Ok (cs, p') /\
                (l = [] -> cs = [] /\ p' = p) /\
                (l <> [] -> cs <> [] /\ S <= p' /\ p' <= cl p /\ exists c, In c cs /\ cstart c = p') /\
                Forall2 (fun o c => A o (cstart c)) l cs /\
                (forall m, In m l -> (forall o x, In o outs -> A m x -> A o x) -> forall o, In o outs -> A o p') /\
                ((forall o, In o l -> A o (cl p)) -> Forall (fun c => cstart c = cl p) cs /\ (l <> [] -> p' = cl p))).
    { induction l as [|o l IH]; intros p Hi.
      - exists [], p. cbn. repeat split; auto; try congruence.
      - destruct (Hearly o p (Hi o (or_introl eq_refl))) as (c1 & s & Hsp & Hs1 & Hs2 & HAs & Hseq).
        destruct (IH s (fun x Hx => Hi x (or_intror Hx))) as (cs & p' & Hcp & Hnil & Hcons & HF2 & Hmax & Hall).
        assert (Hcls : cl s = s) by (apply Hclid; specialize (Hcl p); lia).
        exists (och o s E (filter (fromb s) (oo_f o I)) :: cs), p'.
        split; [cbn [map cb_pass]; rewrite Hsp; cbn [res_bind cstart och]; rewrite Hcp; reflexivity|].
        split; [congruence|].
        split.
        { intros _. split; [discriminate|]. destruct l as [|o2 l'].
          - destruct (Hnil eq_refl) as [-> ->]. repeat split; try lia. eexists. split; [left; reflexivity|reflexivity].
          - destruct (Hcons ltac:(discriminate)) as (_ & Hp1 & Hp2 & c & Hc & Hcp').
            rewrite Hcls in Hp2. repeat split; try lia. exists c. split; [right; exact Hc|exact Hcp']. }
        split; [constructor; [exact HAs|exact HF2]|].
        split.
        { intros m [<-|Hm] Hmm o' Ho'.
          - (* the most restrictive output is the head: everything after it stays at s *)
            assert (Hall_s : forall o2, In o2 l -> A o2 (cl s)).
            { intros o2 Ho2. rewrite Hcls. apply (Hmm o2 s (Hi o2 (or_intror Ho2)) HAs). }
            destruct (Hall Hall_s) as [_ Hp'].
            destruct l as [|o2 l'].
            + destruct (Hnil eq_refl) as [_ ->]. apply (Hmm o' s Ho' HAs).
            + rewrite (Hp' ltac:(discriminate)), Hcls. apply (Hmm o' s Ho' HAs).
          - apply (Hmax m Hm Hmm o' Ho'). }
        intros HallA.
        assert (Es : s = cl p) by (apply Hseq; apply HallA; left; reflexivity).
        assert (Hall_s : forall o2, In o2 l -> A o2 (cl s)).
        { intros o2 Ho2. rewrite Hcls, Es. apply HallA. right; exact Ho2. }
        destruct (Hall Hall_s) as [HF Hp'].
        split.
        + constructor; [cbn; exact Es|]. eapply Forall_impl; [|exact HF]. cbn beta. intros c Hc. rewrite Hc, Hcls. exact Es.
        + intros _. destruct l as [|o2 l'].
          * destruct (Hnil eq_refl) as [_ ->]. exact Es.
          * rewrite (Hp' ltac:(discriminate)), Hcls. exact Es. }
    destruct (list_nonempty outs ltac:(lia)) as (o1 & orest & Eouts).
    assert (Hne : outs <> []) by (rewrite Eouts; discriminate).
    destruct most_restrictive_exists as (m & Hm & Hmost).
    assert (Hmm : forall o x, In o outs -> A m x -> A o x).
    { intros o x Ho HA Hst. apply HA. apply (Hmost o I x Ho HdI Hst). }
    destruct max_trials_two as [k Hk]. unfold cache_beyond. rewrite Hk. cbn [cb_loop].
    destruct (Hpass outs ib (incl_refl _)) as (cs1 & p1 & Hcp1 & _ & Hcons1 & HF1 & Hmax1 & _).
    destruct (Hcons1 Hne) as (Hcs1 & Hp1a & Hp1b & c1 & Hc1 & Hc1p).
    fold g. rewrite Hcp1. cbn [res_bind].
    destruct (one_unique (map cstart cs1)) eqn:Eu.
    - (* settled in the first pass *)
      exists cs1, p1. split; [reflexivity|]. split; [exact Hp1a|]. split; [exact Hp1b|].
      destruct (one_unique_eq cs1 Eu) as [x Hx].
      assert (Exp : x = p1) by (rewrite <- Hc1p; symmetry; exact (proj1 (Forall_forall _ _) Hx c1 Hc1)).
      subst x.
      assert (Hgen : forall l cs, Forall2 (fun o c => A o (cstart c)) l cs -> Forall (fun c => cstart c = p1) cs ->
                forall o, In o l -> A o p1).
      { induction l as [|a l IH]; intros cs HF Hxx o Ho; [destruct Ho|].
        inversion HF as [|? c ? cs' Hac HF']; subst. inversion Hxx as [|? ? Hcx Hx']; subst.
        destruct Ho as [<-|Ho]; [rewrite <- Hcx; exact Hac|]. apply (IH cs' HF' Hx' o Ho). }
      apply (Hgen outs cs1 HF1 Hx).
    - (* second pass: p1 is admissible for every output *)
      assert (HallA : forall o, In o outs -> A o (cl p1)).
      { intros o Ho. rewrite (Hclid p1) by (specialize (Hcl ib); lia). apply (Hmax1 m Hm Hmm o Ho). }
      destruct (Hpass outs p1 (incl_refl _)) as (cs2 & p2 & Hcp2 & _ & Hcons2 & _ & _ & Hall2).
      destruct (Hall2 HallA) as [HF2 Hp2]. destruct (Hcons2 Hne) as (Hcs2 & _).
      rewrite Hcp2. cbn [res_bind]. rewrite (one_unique_const cs2 (cl p1) Hcs2 HF2).
      assert (Ep2 : p2 = p1) by (rewrite (Hp2 Hne); apply Hclid; specialize (Hcl ib); lia).
      exists cs2, p2. rewrite Ep2. split; [reflexivity|]. split; [exact Hp1a|]. split; [exact Hp1b|].
      intros o Ho. apply (Hmax1 m Hm Hmm o Ho).
  Qed.

  Lemma compute_core_multi inp S0 L T :
    wf inp -> R = L ++ crows inp ++ T ->
    forall S, S = clamp inp S0 ->
    Forall (fun q => re q + 2 * wl < S) L ->
    Forall (fun q => cend inp <= rt q) T ->
    ((S = cstart inp /\ L = []) \/ S + 2 * wr + 1 <= cend inp) ->
    (forall o, In o outs -> ~ straddled (oo_f o R) S) ->
    exists S' t A M,
      ow_compute_core P inp S0 =
        Ok (map (fun o => och o S S' (filter (betweenb S S') (oo_f o R))) outs,
            mk_ow_state (Some (mkchunk t (cend inp) M (cdtype inp) (ckind inp) (crun inp) (ctarget inp)))
                        (Some (map (fun o => och o S' (cend inp) (filter (fromb S') (oo_f o (crows inp)))) outs)) S') /\
      S <= S' /\ S' <= cend inp /\
      (forall o, In o outs -> wf (och o S S' (filter (betweenb S S') (oo_f o R)))) /\
      (forall o, In o outs -> wf (och o S' (cend inp) (filter (fromb S') (oo_f o (crows inp))))) /\
      A ++ M = crows inp /\ cstart inp <= t /\ t <= S' /\
      Forall (fun q => re q <= t) A /\ Forall (fun q => t <= rt q) M /\
      Forall (fun q => re q + 2 * wl < S') (L ++ A) /\
      ((S' = t /\ L ++ A = []) \/ S' + 2 * wr + 1 <= cend inp) /\
      (forall o, In o outs -> ~ straddled (oo_f o R) S').
  Proof.
    intros Hwf HRdec S HSdef HL HT Hphase HnsR.
    pose proof Hwf as (H0 & Hse & Hsort & Hin).
    assert (HS : cstart inp <= S <= cend inp) by (rewrite HSdef; unfold clamp; lia).
    assert (HdI : dsp (crows inp)).
    { rewrite HRdec in HR. apply dsp_app in HR as [_ HR']. apply dsp_app in HR' as [HR' _]. exact HR'. }
    assert (HposI : Forall (fun r => rt r < re r) (crows inp)).
    { eapply Forall_impl; [|apply dsp_pos; exact HdI]. unfold pos_row. intros; lia. }
    set (I := crows inp) in *.
    destruct (list_nonempty outs ltac:(lia)) as (o1 & orest & Eouts).
    set (ib := cend inp - 2 * wr - 1).
    (* cache_beyond decides the split time *)
    destruct (cb_multi inp L T S Hwf HRdec HS HL HT Hphase HnsR ib) as (cs0 & S' & Hcb1 & HSS & HSle & HnsI').
    fold I in Hcb1, HnsI'.
    assert (Hphase' : (S' = S /\ S = cstart inp /\ L = []) \/ S' + 2 * wr + 1 <= cend inp).
    { destruct (Z_le_gt_dec S ib) as [Hle|Hgt].
      - right. unfold ib in *. lia.
      - left. assert (S' = S) by lia. destruct Hphase as [[? ?]|?]; [auto|unfold ib in *; lia]. }
    assert (Hemit : forall o, In o outs ->
              ~ straddled (oo_f o R) S' /\
              filter (betweenb S S') (oo_f o I) = filter (betweenb S S') (oo_f o R)).
    { intros o Ho. apply (oo_emit (oo_f o) wl wr (HWLs o Ho) 0 0 None 0 R HR inp L T S HRdec HL HT (HnsR o Ho) S' HSS Hphase').
      apply HnsI'; exact Ho. }
    (* every output splits at S' exactly *)
    assert (Hsplit : forall o, In o outs ->
              chunk_split (och o S (cend inp) (filter (fromb S) (oo_f o I))) S' true =
                Ok (och o S S' (filter (betweenb S S') (oo_f o I)), och o S' (cend inp) (filter (fromb S') (oo_f o I)))).
    { intros o Ho.
      destruct (oo_early (oo_f o) wl wr (HWLs o Ho) (oo_dt o) (oo_kind o) orun otgt R HR inp L T S
                  Hwf HRdec HS HL HT Hphase (HnsR o Ho) S') as (S2 & Hsp & _ & _ & _ & Heq).
      fold I in Hsp, Heq.
      assert (Hm : Z.max (Z.min S' (cend inp)) S = S') by lia. rewrite Hm in Heq.
      rewrite (Heq (HnsI' o Ho)) in Hsp. exact Hsp. }
    (* cache the input *)
    destruct (cache_beyond_single inp (S' - 2 * wl - 1) Hwf HposI)
      as (A & M & t & Hcb & HAM & Ht1' & Ht2' & HA & HM & HAnil).
    fold I in HAM.
    assert (Hc3 : clamp inp (S' - 2 * wl - 1) <= Z.max (S' - 2 * wl - 1) (cstart inp)) by (unfold clamp; lia).
    assert (HtS : t <= S') by lia.
    assert (HLA : Forall (fun q => re q + 2 * wl < S') (L ++ A)).
    { apply Forall_app. split.
      - eapply Forall_impl; [|exact HL]. cbn beta; intros; lia.
      - destruct (Z_lt_dec (S' - 2 * wl - 1) (cstart inp)) as [Hlt|Hge].
        + rewrite (HAnil Hlt). constructor.
        + eapply Forall_impl; [|exact HA]. cbn beta; intros; lia. }
    exists S', t, A, M.
    split.
    { unfold ow_compute_core. rewrite get_window_ok_m. cbn [res_bind]. fold I.
      (* base compute *)
      assert (Hbase : base_compute P inp = Ok (map (fun o => och o (cstart inp) (cend inp) (oo_f o I)) outs)).
      { unfold base_compute, P. cbn [ow_outs ow_run ow_tgt].
        rewrite <- (map_id outs) at 1. apply (map_res_map (fun o => o)). intros o Ho. fold I.
        apply (oo_result0 (oo_f o) wl wr (HWLs o Ho) (oo_dt o) (oo_kind o) orun otgt R HR inp L T 0 Hwf HRdec). }
      rewrite Hbase. cbn [res_bind].
      (* strict split *)
      rewrite (map_res_map (fun o => och o (cstart inp) (cend inp) (oo_f o I))
                 (fun r => do '(_, r2) <- chunk_split r S0 false; Ok r2)
                 (fun o => och o S (cend inp) (filter (fromb S) (oo_f o I)))).
      2:{ intros o Ho.
          destruct (oo_strict (oo_f o) wl wr (HWLs o Ho) (oo_dt o) (oo_kind o) orun otgt R HR inp L T S
                      Hwf HRdec HL HT Hphase (HnsR o Ho) S0 HSdef) as (l1 & Hs).
          fold I in Hs. unfold och. rewrite Hs. reflexivity. }
      cbn [res_bind]. rewrite multi_true.
      fold ib. rewrite Hcb1. cbn [res_bind].
      (* the final splits at prev_split *)
      rewrite (map_res_map (fun o => och o S (cend inp) (filter (fromb S) (oo_f o I)))
                 (fun r => chunk_split r S' true)
                 (fun o => (och o S S' (filter (betweenb S S') (oo_f o I)),
                            och o S' (cend inp) (filter (fromb S') (oo_f o I)))) outs Hsplit).
      cbn [res_bind]. rewrite !map_map. cbn [fst snd].
      assert (Hu2 : one_unique (map (fun o => cstart (och o S' (cend inp) (filter (fromb S') (oo_f o I)))) outs) = true).
      { rewrite Eouts. cbn [map one_unique]. apply forallb_forall. intros y Hy.
        apply in_map_iff in Hy as (o & <- & _). cbn. apply Z.eqb_refl. }
      rewrite Hu2. cbn [negb res_bind].
      rewrite Hcb. cbn [res_bind hd_error]. f_equal. f_equal.
      apply map_ext_in. intros o Ho. destruct (Hemit o Ho) as [_ ->]. reflexivity. }
    split; [lia|]. split; [lia|].
    split.
    { intros o Ho. destruct (Hemit o Ho) as [_ <-].
      apply (oo_wf_between (oo_f o) wl wr (HWLs o Ho) (oo_dt o) (oo_kind o) orun otgt R HR inp L T S
               Hwf HRdec HS S'); auto; try lia. }
    split.
    { intros o Ho.
      apply (oo_wf_from (oo_f o) wl wr (HWLs o Ho) (oo_dt o) (oo_kind o) orun otgt R HR inp L T 0 Hwf HRdec S'); lia. }
    split; [exact HAM|]. split; [lia|]. split; [lia|]. split; [exact HA|]. split; [exact HM|]. split; [exact HLA|].
    split; [|intros o Ho; apply (Hemit o Ho)].
    destruct Hphase' as [(E1 & E2 & E3)|Hb]; [left|right; exact Hb].
    assert (Hlt : S' - 2 * wl - 1 < cstart inp) by lia.
    rewrite (HAnil Hlt), E3. split; [|reflexivity].
    assert (clamp inp (S' - 2 * wl - 1) = cstart inp) by (unfold clamp; lia). lia.
  Qed.


  (* ---------------------------------------------------------------------------------- *)
  Variable dt : Z.
  Variable run : option Z.

  Definition state_ok_m (st : ow_state) (inp : chunk) (L M : list row) (S : Z) : Prop :=
    (st = ow_init /\ L = [] /\ M = [] /\ S = cstart inp) \/
    (exists ci crs, st = mk_ow_state (Some ci) (Some crs) S /\
       wf ci /\ crows ci = M /\ cend ci = cstart inp /\ cdtype ci = dt /\ crun ci = run /\
       cstart ci <= S /\ S <= cend ci /\
       Forall (fun q => re q + 2 * wl < S) L /\
       ((S = cstart ci /\ L = []) \/ S + 2 * wr + 1 <= cend ci) /\
       (forall o, In o outs -> ~ straddled (oo_f o R) S)).

  Lemma range_lo_m o lo : In o outs -> Forall (fun q => lo <= rt q) R -> Forall (fun x => lo <= rt x) (oo_f o R).
  Proof. intros Ho H. apply (range_lo (oo_f o) wl wr (HWLs o Ho) R HR lo H). Qed.

  Lemma do_compute_spec_m st inp L M Tr S :
    wf inp -> cdtype inp = dt -> crun inp = run ->
    R = L ++ M ++ crows inp ++ Tr -> Forall (fun q => cend inp <= rt q) Tr ->
    state_ok_m st inp L M S ->
    exists S' ci' A M',
      ow_do_compute P st inp =
        Ok (map (fun o => och o S S' (filter (betweenb S S') (oo_f o R))) outs,
            mk_ow_state (Some ci')
              (Some (map (fun o => och o S' (cend inp) (filter (fromb S') (oo_f o (M ++ crows inp)))) outs)) S') /\
      S <= S' /\ S' <= cend inp /\
      (forall o, In o outs -> wf (och o S S' (filter (betweenb S S') (oo_f o R)))) /\
      (forall o, In o outs -> wf (och o S' (cend inp) (filter (fromb S') (oo_f o (M ++ crows inp))))) /\
      A ++ M' = M ++ crows inp /\
      wf ci' /\ crows ci' = M' /\ cend ci' = cend inp /\ cdtype ci' = dt /\ crun ci' = run /\
      cstart ci' <= S' /\
      Forall (fun q => re q + 2 * wl < S') (L ++ A) /\
      ((S' = cstart ci' /\ L ++ A = []) \/ S' + 2 * wr + 1 <= cend inp) /\
      (forall o, In o outs -> ~ straddled (oo_f o R) S').
  Proof.
    intros Hwf Hdt Hrun HRdec HT Hst. pose proof Hwf as (H0 & Hse & _ & _).
    destruct Hst as [(-> & -> & -> & ->)|(ci & crs & -> & Hwci & HM & Hce & Hcdt & Hcrun & HS1 & HS2 & HL & Hph & Hns)].
    - cbn [app] in HRdec |- *.
      assert (HloR : Forall (fun q => cstart inp <= rt q) R).
      { rewrite HRdec. apply Forall_app. split.
        - eapply Forall_impl; [|apply (wf_rows_in _ Hwf)]. cbn beta; intros; lia.
        - eapply Forall_impl; [|exact HT]. cbn beta; intros; lia. }
      destruct (compute_core_multi inp 0 [] Tr Hwf HRdec (cstart inp)) as
          (S' & t & A & M' & Hcore & Ha & Hb & Hwo & Hwc & HAM & Ht1 & Ht2 & HA & HM' & HLA & Hph' & Hns');
        try (unfold clamp; lia); auto.
      { intros o Ho Hs. apply straddled_iff in Hs as (x & Hx & Hsx).
        pose proof (proj1 (Forall_forall _ _) (range_lo_m o _ Ho HloR) x Hx) as Hlo.
        unfold straddles in Hsx. cbn beta in Hlo. lia. }
      exists S', (mkchunk t (cend inp) M' (cdtype inp) (ckind inp) (crun inp) (ctarget inp)), A, M'.
      split; [unfold ow_do_compute; cbn [ow_cin ow_init ow_sent res_bind]; exact Hcore|].
      split; [lia|]. split; [lia|]. split; [exact Hwo|]. split; [exact Hwc|]. split; [exact HAM|].
      split; [apply (wf_suffix inp A M' t); auto; lia|].
      cbn [crows cend cdtype crun cstart]. split; [reflexivity|]. split; [reflexivity|]. split; [exact Hdt|].
      split; [exact Hrun|]. split; [lia|]. split; [exact HLA|]. split; [exact Hph'|exact Hns'].
    - destruct (concat2_ok ci inp Hwci Hwf ltac:(lia) ltac:(congruence) ltac:(congruence)) as [tgt Hcat].
      pose proof (wf_concat2 ci inp tgt Hwci Hwf ltac:(lia)) as Hwfi.
      set (inp' := mkchunk (cstart ci) (cend inp) (crows ci ++ crows inp) (cdtype ci) (ckind ci) (crun ci) tgt) in *.
      assert (HRdec' : R = L ++ crows inp' ++ Tr).
      { cbn [crows inp']. rewrite HM, <- app_assoc. exact HRdec. }
      destruct (compute_core_multi inp' S L Tr Hwfi HRdec' S) as
          (S' & t & A & M' & Hcore & Ha & Hb & Hwo & Hwc & HAM & Ht1 & Ht2 & HA & HM' & HLA & Hph' & Hns');
        try (unfold clamp; cbn [cstart cend inp']; lia); auto.
      { cbn [cstart cend inp']. destruct Hph as [?|?]; [left; auto|right; lia]. }
      cbn [cstart cend crows cdtype ckind crun ctarget inp'] in *.
      exists S', (mkchunk t (cend inp) M' (cdtype ci) (ckind ci) (crun ci) tgt), A, M'.
      split.
      { unfold ow_do_compute. cbn [ow_cin ow_sent]. rewrite Hcat. cbn [res_bind]. fold inp'.
        rewrite Hcore. rewrite HM. reflexivity. }
      rewrite HM in HAM.
      split; [lia|]. split; [lia|]. split; [exact Hwo|]. split; [rewrite <- HM; exact Hwc|]. split; [exact HAM|].
      split.
      { apply (wf_suffix inp' A M' t Hwfi); cbn [crows cstart cend inp']; auto; try lia. rewrite HM. exact HAM. }
      cbn [crows cend cdtype crun cstart]. split; [reflexivity|]. split; [reflexivity|]. split; [exact Hcdt|].
      split; [exact Hcrun|]. split; [lia|]. split; [exact HLA|]. split; [exact Hph'|exact Hns'].
  Qed.

  (* the yielded items, described by their range and the rows they select from each whole-run output *)
  Definition seg : Type := (Z * Z * (row -> bool))%type.
  Definition item_of (sg : seg) : option (list chunk) :=
    match sg with (s, e, sel) => Some (map (fun o => och o s e (filter sel (oo_f o R))) outs) end.
  Definition seg_rows (O : list row) (sg : seg) : list row := filter (snd sg) O.
  Definition segs_cover (S : Z) (segs : list seg) : Prop :=
    forall O, sorted O -> flat_map (seg_rows O) segs = filter (fromb S) O.
  Fixpoint segs_contig (a : Z) (segs : list seg) : Prop :=
    match segs with
    | [] => True
    | (s, e, _) :: rest => s = a /\ s <= e /\ segs_contig e rest
    end.
  Fixpoint segs_end (a : Z) (segs : list seg) : Z :=
    match segs with [] => a | (_, e, _) :: rest => segs_end e rest end.
  Definition seg_wf (sg : seg) : Prop :=
    match sg with (s, e, sel) => forall o, In o outs -> wf (och o s e (filter sel (oo_f o R))) end.

  Lemma rounds_spec_m : forall rest buf st L M S,
    wf buf -> cdtype buf = dt -> crun buf = run ->
    contiguous_from (cend buf) rest -> Forall wf rest -> Forall (fun c => cdtype c = dt /\ crun c = run) rest ->
    R = L ++ M ++ crows buf ++ flat_map crows rest ->
    state_ok_m st buf L M S ->
    exists segs,
      ow_rounds P st buf rest = Ok (map item_of segs) /\
      segs_contig S segs /\ segs_end S segs = last_end (cend buf) rest /\
      segs_cover S segs /\ Forall seg_wf segs.
  Proof.
    induction rest as [|c rest IH]; intros buf st L M S Hwf Hdt Hrun Hcont Hwrest Hmeta HRdec Hst.
    - cbn [flat_map] in HRdec.
      assert (Hpos : Forall (fun r => rt r < re r) (crows buf)).
      { rewrite HRdec in HR. apply dsp_app in HR as [_ H1]. apply dsp_app in H1 as [_ H1].
        apply dsp_app in H1 as [H1 _]. eapply Forall_impl; [|apply dsp_pos; exact H1]. unfold pos_row; intros; lia. }
      set (inp := mkchunk (cstart buf) (cend buf) (crows buf) (cdtype buf) (ckind buf) (crun buf) (ctarget buf)).
      assert (Hwfi : wf inp) by (destruct Hwf as (? & ? & ? & ?); apply wf_mkchunk; auto).
      assert (Hst' : state_ok_m st inp L M S) by exact Hst.
      destruct (do_compute_spec_m st inp L M [] S Hwfi Hdt Hrun HRdec (Forall_nil _) Hst')
        as (S' & ci' & A & M' & Hdo & Ha & Hb & Hwo & Hwc & HAM & Hwci & HM' & Hce & Hcdt & Hcrun & HcS & HLA & Hph & Hns).
      cbn [crows cend inp] in *.
      (* the flushed rows: nothing is missing on the right any more *)
      assert (Hfl : forall o, In o outs ->
                filter (fromb S') (oo_f o (M ++ crows buf)) = filter (fromb S') (oo_f o R)).
      { intros o Ho.
        set (inp2 := mkchunk 0 0 (M ++ crows buf) 0 0 None 0).
        apply Forall_app in HLA as [HLA _].
        pose proof (oo_flush (oo_f o) wl wr (HWLs o Ho) 0 0 None 0 R HR inp2 L [] S') as Hf.
        cbn [crows inp2] in Hf. apply Hf; auto; try lia.
        rewrite HRdec, !app_nil_r. reflexivity. }
      exists [(S, S', betweenb S S'); (S', cend buf, fromb S')].
      split.
      { cbn [ow_rounds]. rewrite (split_at_end buf Hwf Hpos). cbn [res_bind]. fold inp. rewrite Hdo.
        cbn [res_bind crows length ow_cres]. rewrite andb_false_r. cbn [map item_of]. do 4 f_equal.
        apply map_ext_in. intros o Ho. rewrite (Hfl o Ho). reflexivity. }
      split; [cbn; repeat split; lia|]. split; [reflexivity|].
      split.
      { intros O HsO. cbn [flat_map seg_rows snd]. rewrite app_nil_r. apply sorted_between_from; [exact HsO|lia]. }
      constructor; [exact Hwo|]. constructor; [|constructor].
      intros o Ho. rewrite <- (Hfl o Ho). apply Hwc. exact Ho.
    - cbn [flat_map] in HRdec.
      assert (Hpos : Forall (fun r => rt r < re r) (crows buf)).
      { rewrite HRdec in HR. apply dsp_app in HR as [_ H1]. apply dsp_app in H1 as [_ H1].
        apply dsp_app in H1 as [H1 _]. eapply Forall_impl; [|apply dsp_pos; exact H1]. unfold pos_row; intros; lia. }
      set (inp := mkchunk (cstart buf) (cend buf) (crows buf) (cdtype buf) (ckind buf) (crun buf) (ctarget buf)).
      assert (Hwfi : wf inp) by (destruct Hwf as (? & ? & ? & ?); apply wf_mkchunk; auto).
      assert (Hst' : state_ok_m st inp L M S) by exact Hst.
      destruct Hcont as [Hcs Hcont]. inversion Hwrest as [|? ? Hwc' Hwrest']; subst.
      inversion Hmeta as [|? ? [Hcdt' Hcrun'] Hmeta']; subst.
      assert (HTr : Forall (fun q => cend buf <= rt q) (crows c ++ flat_map crows rest)).
      { apply (stream_rows_ge 0 (c :: rest) (cend buf)); [split; auto|auto]. }
      destruct (do_compute_spec_m st inp L M (crows c ++ flat_map crows rest) S Hwfi Hdt Hrun HRdec HTr Hst')
        as (S' & ci' & A & M' & Hdo & Ha & Hb & Hwo & Hwc & HAM & Hwci & HM' & Hce & Hcdt & Hcrun & HcS & HLA & Hph & Hns).
      cbn [crows cend inp] in *.
      set (buf' := mkchunk (cend buf) (cend buf) [] (cdtype buf) (ckind buf) (crun buf) (ctarget buf)).
      assert (Hwb' : wf buf') by (destruct Hwf as (? & ? & ? & ?); apply wf_mkchunk; try lia; [exact I|constructor]).
      destruct (concat2_ok buf' c Hwb' Hwc' ltac:(cbn; lia) ltac:(cbn; congruence) ltac:(cbn; congruence)) as [tgt Hcat].
      pose proof (wf_concat2 buf' c tgt Hwb' Hwc' ltac:(cbn; lia)) as Hwb2.
      cbn [cstart cend crows cdtype ckind crun buf' app] in Hcat, Hwb2.
      set (buf2 := mkchunk (cend buf) (cend c) (crows c) (cdtype buf) (ckind buf) (crun buf) tgt) in *.
      destruct (IH buf2 (mk_ow_state (Some ci')
                  (Some (map (fun o => och o S' (cend buf) (filter (fromb S') (oo_f o (M ++ crows buf)))) outs)) S')
                  (L ++ A) M' S')
        as (segs & Hro & Hco & Hle & Hcov & Hwfs); auto.
      { cbn [crows buf2]. rewrite <- app_assoc. rewrite (app_assoc A), HAM, <- app_assoc. exact HRdec. }
      { right. eexists ci', _. split; [reflexivity|]. cbn [cstart buf2].
        split; [exact Hwci|]. split; [exact HM'|]. split; [exact Hce|]. split; [exact Hcdt|]. split; [exact Hcrun|].
        split; [exact HcS|]. split; [lia|]. split; [exact HLA|]. split; [|exact Hns].
        destruct Hph as [?|?]; [left; auto|right; lia]. }
      exists ((S, S', betweenb S S') :: segs).
      split.
      { cbn [ow_rounds]. rewrite (split_at_end buf Hwf Hpos). cbn [res_bind]. fold inp. rewrite Hdo.
        cbn [res_bind]. fold buf'. rewrite Hcat. cbn [res_bind]. fold buf2. rewrite Hro. reflexivity. }
      split; [cbn [segs_contig]; repeat split; auto; lia|].
      split; [cbn [segs_end last_end cend buf2] in *; exact Hle|].
      split.
      { intros O HsO. cbn [flat_map seg_rows snd]. rewrite (Hcov O HsO). apply sorted_between_from; [exact HsO|lia]. }
      constructor; [exact Hwo|exact Hwfs].
  Qed.

End Multi.

(* ------------------------------------------------------------------------------------------ *)
(* closed statement *)

Lemma nth_error_map_some {A B} (g : A -> B) l k x : nth_error l k = Some x -> nth_error (map g l) k = Some (g x).
Proof. intros H. rewrite nth_error_map, H. reflexivity. Qed.

Theorem overlap_multi_correct wtuple wl wr ml mr outs orun otgt sw R a b dt run cs :
  0 <= wl -> 0 <= wr -> ml <= 2 * wl -> mr <= 2 * wr -> (1 < length outs)%nat ->
  (forall o, In o outs -> window_local ml mr (oo_f o)) -> nested_cuts (map oo_f outs) ->
  dsp R -> chunking_of R a b dt run cs ->
  exists items,
    ow_iter (mk_ow_params wtuple wl wr outs orun otgt sw) cs = Ok items /\
    forall k o, nth_error outs k = Some o ->
      flat_map crows (out_stream k items) = oo_f o R /\
      contiguous_from a (out_stream k items) /\ last_end a (out_stream k items) = b /\
      Forall wf (out_stream k items).
Proof.
  intros Hwl Hwr Hml Hmr Hn HWL0 Hsame0 HR (Hne & Hcont & Hlast & Hwf & Hmeta & Hrows).
  assert (HWLs : forall o, In o outs -> window_local (2 * wl) (2 * wr) (oo_f o)).
  { intros o Ho. eapply window_local_mono; [exact Hml|exact Hmr|]. apply HWL0. exact Ho. }
  assert (Hsame : forall o1 o2, In o1 outs -> In o2 outs ->
            (forall I x, dsp I -> straddled (oo_f o1 I) x -> straddled (oo_f o2 I) x) \/
            (forall I x, dsp I -> straddled (oo_f o2 I) x -> straddled (oo_f o1 I) x)).
  { intros o1 o2 H1 H2. apply Hsame0; apply in_map; auto. }
  destruct cs as [|c rest]; [congruence|]. clear Hne.
  destruct Hcont as [Hca Hcont]. inversion Hwf as [|? ? Hwc Hwrest]; subst.
  inversion Hmeta as [|? ? [Hdt Hrun] Hmeta']; subst.
  cbn [flat_map last_end] in *.
  destruct (rounds_spec_m wl wr wtuple outs orun otgt sw Hwl Hwr Hn HWLs Hsame
              (crows c ++ flat_map crows rest) HR (cdtype c) (crun c) rest c ow_init [] [] (cstart c))
    as (segs & Hro & Hco & Hle & Hcov & Hwfs); auto.
  { left. auto. }
  exists (map (item_of outs orun otgt (crows c ++ flat_map crows rest)) segs).
  split; [exact Hro|].
  intros k o Hk.
  set (Rr := crows c ++ flat_map crows rest) in *.
  assert (Hstream : out_stream k (map (item_of outs orun otgt Rr) segs) =
                    map (fun sg : seg => och orun otgt o (fst (fst sg)) (snd (fst sg)) (filter (snd sg) (oo_f o Rr))) segs).
  { clear - Hk. induction segs as [|[[s e] sel] segs IH]; [reflexivity|].
    cbn [map out_stream flat_map item_of item_chunk] in *. unfold out_stream in IH. rewrite IH.
    rewrite (nth_error_map_some _ _ _ _ Hk). reflexivity. }
  rewrite Hstream.
  assert (Ho : In o outs) by (eapply nth_error_In; eauto).
  split.
  { rewrite flat_map_concat_map, map_map. cbn [crows och]. rewrite <- flat_map_concat_map.
    assert (HsO : sorted (oo_f o Rr)) by (apply (wl_sorted _ _ _ (HWLs o Ho)); exact HR).
    specialize (Hcov (oo_f o Rr) HsO). unfold seg_rows in Hcov. rewrite Hcov.
    apply filter_all_true.
    assert (Hlo : Forall (fun x => cstart c <= rt x) (oo_f o Rr)).
    { apply (range_lo (oo_f o) wl wr (HWLs o Ho) Rr HR). unfold Rr. apply Forall_app. split.
      - eapply Forall_impl; [|apply (wf_rows_in _ Hwc)]. cbn beta; intros; lia.
      - destruct Hwc as (_ & Hse & _).
        eapply Forall_impl; [|apply (stream_rows_ge 0 rest (cend c) Hcont Hwrest)]. cbn beta; intros; lia. }
    eapply Forall_impl; [|exact Hlo]. cbn beta. unfold fromb. intros; lia. }
  clear Hstream Hro Hcov.
  revert Hco Hle Hwfs. generalize (cstart c) as a0. generalize (last_end (cend c) rest) as b0.
  induction segs as [|[[s e] sel] segs IH]; intros b0 a0 Hco Hle Hwfs.
  - cbn in *. auto.
  - cbn [segs_contig segs_end] in Hco, Hle. destruct Hco as (-> & Hse & Hco).
    apply Forall_cons_iff in Hwfs as [Hw Hwfs'].
    destruct (IH b0 e Hco Hle Hwfs') as (I1 & I2 & I3).
    cbn [map fst snd contiguous_from last_end cstart cend och].
    split; [split; [reflexivity|exact I1]|]. split; [exact I2|]. constructor; [apply Hw; exact Ho|exact I3].
Qed.

Lemma same_cuts_nested fs : same_cuts fs -> nested_cuts fs.
Proof. intros H f1 f2 H1 H2. left. intros I x Hd Hs. apply (H f1 f2 I x H1 H2 Hd). exact Hs. Qed.
