(* highest_density_region: for ascending fractions the loop gives every fraction the result it
   would get alone: the first cut (Spec/HDRSpec.v: hdr_first) that holds it, or the whole array. *)
From SV Require Import Model.HDR Spec.HDRSpec Spec.PeakPropsSpec Proof.PeakPropsProof.

Lemma filter_all_false {X} (p : X -> bool) l : Forall (fun x => p x = false) l -> filter p l = [].
Proof. induction 1 as [|x l Hx _ IH]; cbn [filter]; [reflexivity|]. now rewrite Hx. Qed.

Lemma filter_all_true {X} (p : X -> bool) l : Forall (fun x => p x = true) l -> filter p l = l.
Proof. induction 1 as [|x l Hx _ IH]; cbn [filter]; [reflexivity|]. rewrite Hx. now f_equal. Qed.

Lemma flat_map_ext_in {X Y} (f g : X -> list Y) l :
  (forall x, In x l -> f x = g x) -> flat_map f l = flat_map g l.
Proof.
  induction l as [|x l IH]; intros H; cbn [flat_map]; [reflexivity|].
  rewrite (H x (or_introl eq_refl)), IH; [reflexivity|]. intros y Hy. apply H. right; exact Hy.
Qed.

(* on an ascending list the fractions below a bound form a prefix *)
Lemma sorted_filter_prefix s : forall fs, qsorted fs ->
  let c := length (filter (fun f => Qle_bool f s) fs) in
  Forall (fun f => Qle_bool f s = true) (firstn c fs) /\ Forall (fun f => Qle_bool f s = false) (skipn c fs).
Proof.
  induction fs as [|f fs IH]; intros Hs; cbn zeta.
  - cbn. split; constructor.
  - inversion Hs as [|? ? Hall Hs']; subst. cbn [filter]. destruct (Qle_bool f s) eqn:E.
    + cbn [length firstn skipn]. destruct (IH Hs') as [H1 H2]. split; [constructor; assumption|exact H2].
    + assert (Hf : Forall (fun f' => Qle_bool f' s = false) fs).
      { eapply Forall_impl; [|exact Hall]. cbn. intros f' Hle. eapply qle_bool_false_trans; eauto. }
      rewrite (filter_all_false _ _ Hf). cbn [length firstn skipn]. split; constructor; assumption.
Qed.

Section Loop.
Variables (data m2m : list Z) (A : Z) (upper : bool) (bs : Z).

Lemma hdr_loop_cons j js' lowest fs :
  hdr_loop data m2m A upper bs (j :: js') lowest fs =
  let v := zget data (zget m2m j) in
  if match lowest with Some l => l =? v | None => false end
  then hdr_loop data m2m A upper bs js' lowest fs
  else
    let cnt := length (filter (fun f => Qle_bool f (hdr_seen data m2m A upper j)) fs) in
    match cnt with
    | O => hdr_loop data m2m A upper bs js' (Some v) fs
    | _ =>
        let outs := map (hdr_out_at data m2m A upper bs j) (firstn cnt fs) in
        match skipn cnt fs with
        | [] => (outs, [])
        | rest => let '(o2, rem) := hdr_loop data m2m A upper bs js' (Some v) rest in (outs ++ o2, rem)
        end
    end.
Proof. reflexivity. Qed.

Definition one_or_none (r : Q -> option hdr_out) (f : Q) : list hdr_out :=
  match r f with Some o => [o] | None => [] end.

Lemma hdr_res_skip j js' lowest f :
  (match lowest with Some l => l =? zget data (zget m2m j) | None => false end) = true ->
  hdr_res data m2m A upper bs (j :: js') lowest f = hdr_res data m2m A upper bs js' lowest f.
Proof. intros E. unfold hdr_res. cbn [hdr_first]. cbv zeta. rewrite E. reflexivity. Qed.

Lemma hdr_res_hit j js' lowest f :
  (match lowest with Some l => l =? zget data (zget m2m j) | None => false end) = false ->
  Qle_bool f (hdr_seen data m2m A upper j) = true ->
  hdr_res data m2m A upper bs (j :: js') lowest f = Some (hdr_out_at data m2m A upper bs j f).
Proof. intros E E2. unfold hdr_res. cbn [hdr_first]. cbv zeta. rewrite E, E2. reflexivity. Qed.

Lemma hdr_res_miss j js' lowest f :
  (match lowest with Some l => l =? zget data (zget m2m j) | None => false end) = false ->
  Qle_bool f (hdr_seen data m2m A upper j) = false ->
  hdr_res data m2m A upper bs (j :: js') lowest f =
  hdr_res data m2m A upper bs js' (Some (zget data (zget m2m j))) f.
Proof. intros E E2. unfold hdr_res. cbn [hdr_first]. cbv zeta. rewrite E, E2. reflexivity. Qed.

Theorem hdr_loop_spec : forall js lowest fs, qsorted fs ->
  hdr_loop data m2m A upper bs js lowest fs =
    (flat_map (one_or_none (hdr_res data m2m A upper bs js lowest)) fs,
     filter (fun f => is_none (hdr_res data m2m A upper bs js lowest f)) fs).
Proof.
  induction js as [|j js IH]; intros lowest fs Hs.
  - cbn [hdr_loop]. f_equal.
    + induction fs as [|f fs IHf]; [reflexivity|]. cbn. inversion Hs; subst. auto.
    + symmetry. apply filter_all_true. rewrite Forall_forall. reflexivity.
  - rewrite hdr_loop_cons. cbv zeta.
    destruct (match lowest with Some l => l =? zget data (zget m2m j) | None => false end) eqn:E.
    { rewrite IH by exact Hs. f_equal.
      - apply flat_map_ext_in. intros f _. unfold one_or_none. now rewrite hdr_res_skip.
      - apply filter_ext. intros f. now rewrite hdr_res_skip. }
    destruct (sorted_filter_prefix (hdr_seen data m2m A upper j) fs Hs) as [Hpre Hpost].
    set (c := length (filter (fun f => Qle_bool f (hdr_seen data m2m A upper j)) fs)) in *.
    assert (Hmiss : forall l, Forall (fun f => Qle_bool f (hdr_seen data m2m A upper j) = false) l ->
              flat_map (one_or_none (hdr_res data m2m A upper bs (j :: js) lowest)) l =
              flat_map (one_or_none (hdr_res data m2m A upper bs js (Some (zget data (zget m2m j))))) l /\
              filter (fun f => is_none (hdr_res data m2m A upper bs (j :: js) lowest f)) l =
              filter (fun f => is_none (hdr_res data m2m A upper bs js (Some (zget data (zget m2m j))) f)) l).
    { intros l Hl. rewrite Forall_forall in Hl. split.
      - apply flat_map_ext_in. intros f Hf. unfold one_or_none. now rewrite hdr_res_miss by auto.
      - apply filter_ext_in. intros f Hf. now rewrite hdr_res_miss by auto. }
    destruct c as [|c'] eqn:Ec.
    { cbn [skipn] in Hpost. destruct (Hmiss fs Hpost) as [-> ->]. apply IH, Hs. }
    assert (Hhit : forall l, Forall (fun f => Qle_bool f (hdr_seen data m2m A upper j) = true) l ->
              flat_map (one_or_none (hdr_res data m2m A upper bs (j :: js) lowest)) l =
              map (hdr_out_at data m2m A upper bs j) l /\
              filter (fun f => is_none (hdr_res data m2m A upper bs (j :: js) lowest f)) l = []).
    { induction 1 as [|f l Hf _ IHl]; [split; reflexivity|]. destruct IHl as [I1 I2].
      cbn [flat_map map filter]. unfold one_or_none at 1. rewrite hdr_res_hit by auto.
      cbn [is_none app]. split; [now f_equal|exact I2]. }
    match goal with |- _ = (flat_map ?F fs, filter ?P fs) =>
      replace (flat_map F fs) with (flat_map F (firstn (S c') fs) ++ flat_map F (skipn (S c') fs))
        by (now rewrite <- flat_map_app, firstn_skipn);
      replace (filter P fs) with (filter P (firstn (S c') fs) ++ filter P (skipn (S c') fs))
        by (now rewrite <- filter_app, firstn_skipn)
    end.
    destruct (Hhit _ Hpre) as [-> ->]. destruct (Hmiss _ Hpost) as [-> ->]. cbn [app].
    destruct (skipn (S c') fs) as [|r0 rest] eqn:Er.
    { cbn [flat_map filter]. now rewrite app_nil_r. }
    rewrite IH.
    + reflexivity.
    + apply (FOP_app_r _ (firstn (S c') fs)). rewrite <- Er, firstn_skipn. exact Hs.
Qed.

Lemma hdr_first_mono f f' : (f <= f')%Q -> forall js lowest,
  hdr_first data m2m A upper js lowest f = None -> hdr_first data m2m A upper js lowest f' = None.
Proof.
  intros Hle. induction js as [|j js IH]; intros lowest; cbn [hdr_first]; [auto|]. cbv zeta.
  destruct (match lowest with Some l => l =? zget data (zget m2m j) | None => false end); [apply IH|].
  destruct (Qle_bool f (hdr_seen data m2m A upper j)) eqn:E; [discriminate|].
  rewrite (qle_bool_false_trans f f' _ Hle E). apply IH.
Qed.
End Loop.

Lemma split_some_none (r : Q -> option hdr_out) (ft : Q -> hdr_out) fs :
  ForallOrdPairs (fun f f' => r f = None -> r f' = None) fs ->
  flat_map (one_or_none r) fs ++ map ft (filter (fun f => is_none (r f)) fs) =
  map (fun f => match r f with Some o => o | None => ft f end) fs.
Proof.
  assert (Hnone : forall l, Forall (fun f' => r f' = None) l ->
            flat_map (one_or_none r) l = [] /\ filter (fun f => is_none (r f)) l = l /\
            map (fun f => match r f with Some o => o | None => ft f end) l = map ft l).
  { induction 1 as [|g l Hg _ (I1 & I2 & I3)]; [repeat split; reflexivity|].
    cbn [flat_map filter map]. unfold one_or_none at 1. rewrite Hg. cbn [is_none app].
    rewrite I1, I2, I3. repeat split; reflexivity. }
  induction 1 as [|f fs Hall _ IH]; [reflexivity|].
  cbn [flat_map filter map]. unfold one_or_none at 1. destruct (r f) as [o|] eqn:E; cbn [is_none app map].
  - f_equal. exact IH.
  - assert (Hn : Forall (fun f' => r f' = None) fs) by (eapply Forall_impl; [|exact Hall]; auto).
    destruct (Hnone fs Hn) as (-> & -> & ->). reflexivity.
Qed.

(* every fraction of an ascending list gets the result it would get alone *)
Theorem hdr_sorted_fractions data fs upper bs : qsorted fs -> 0 < zsum data ->
  highest_density_region data fs upper bs = Ok (map (fun f => hdr_one data f upper bs) fs).
Proof.
  intros Hs HA. unfold highest_density_region. destruct (zsum data <=? 0) eqn:E; [lia|].
  rewrite hdr_loop_spec by exact Hs. f_equal.
  change (fun fd : Q => mkho (Some [(0, zlen data)]) ((1 - fd) * inject_Z (zsum data) / inject_Z (zlen data))%Q)
    with (hdr_rest data).
  rewrite split_some_none; [reflexivity|].
  induction Hs as [|f l Hall _ IH]; constructor; [|exact IH].
  eapply Forall_impl; [|exact Hall]. cbn. intros f' Hle. unfold hdr_res. intros Hn.
  destruct (hdr_first data (rev (argsort data)) (zsum data) upper (zseqn 1 (length data - 1))
              (Some (zget data (zget (rev (argsort data)) 0))) f) eqn:E1; [discriminate|].
  now rewrite (hdr_first_mono _ _ _ _ f f' Hle _ _ E1).
Qed.

Corollary hdr_single data f upper bs : 0 < zsum data ->
  highest_density_region data [f] upper bs = Ok [hdr_one data f upper bs].
Proof. intros HA. apply (hdr_sorted_fractions data [f]); [repeat constructor|exact HA]. Qed.

Theorem hdr_no_area data fs upper bs : zsum data <= 0 -> highest_density_region data fs upper bs = Err 1.
Proof. intros H. unfold highest_density_region. destruct (zsum data <=? 0) eqn:E; [reflexivity|lia]. Qed.
