(* C01 on top of C09: the overlap-window kind.  ovl_c09 (Model/NetworkIter.v) = OverlapWindowPlugin.iter of
   Model/Overlap.v; from C09's main theorem (overlap_single_correct = C09_overlap_equals_whole_run): for every
   window-local computation, disjoint sorted positive-length input rows, every tight well-formed chunking of the
   input, the output stream is a tight well-formed contiguous chunking of f(whole input), one data type and run
   id.  C09's theorem says nothing about a zero-duration chunk at the end of the output (there is none unless the
   run itself has zero duration, but that needs another pass over C09's induction), so the output is a
   chunking_core: it may feed every kind except a two-dependency node. *)
From SV Require Import Model.Rows Model.SplitArray Model.Chunk Model.Overlap Spec.WindowLocal Spec.OverlapSpec
     Proof.RowsFacts Proof.ChunkProof Proof.OverlapProof.
From SV Require Import Model.Rechunker Model.NetworkIter Proof.RechunkerProof Proof.NetworkProof.

Definition ovl_pre (f : list row -> list row) (wl wr : Z) (R : list row) : Prop :=
  0 <= wl /\ 0 <= wr /\ window_local (2 * wl) (2 * wr) f /\ dsp R.

(* ---- vocabulary ---- *)
Lemma chain_contiguous : forall cs a b,
  RechunkerProof.chain a cs b <-> contiguous_from a cs /\ last_end a cs = b.
Proof.
  induction cs as [|c cs IH]; intros a b; cbn; [tauto|]. rewrite IH. tauto.
Qed.

Lemma flat_first_as_items outs : flat_map first_chunk (as_items outs) = outs.
Proof. unfold as_items. induction outs as [|c outs IH]; cbn [map flat_map first_chunk app]; [reflexivity|]. f_equal. exact IH. Qed.

(* ---- every chunk OverlapWindowPlugin.iter yields carries the plugin's data type and run id ---- *)
Definition meta (dt : Z) (run : option Z) (c : chunk) : Prop := cdtype c = dt /\ crun c = run.

Lemma mk_chunk_meta s e rows dt kind run tgt c : mk_chunk s e rows dt kind run tgt = Ok c -> meta dt run c.
Proof. intros H. apply mk_chunk_inv in H. subst c. split; reflexivity. Qed.

Lemma chunk_split_meta c t early c1 c2 dt run :
  chunk_split c t early = Ok (c1, c2) -> meta dt run c -> meta dt run c1 /\ meta dt run c2.
Proof.
  unfold chunk_split. intros H [M1 M2].
  destruct (if Z.max (Z.min t (cend c)) (cstart c) =? cend c then _ else _) as [[[d1 d2] t']|]; [|discriminate].
  destruct (mk_chunk (cstart c) _ d1 _ _ _ _) as [x1|] eqn:E1; [|discriminate]. cbn [res_bind] in H.
  destruct (mk_chunk _ _ d2 _ _ _ _) as [x2|] eqn:E2; [|discriminate]. cbn [res_bind] in H.
  injection H as <- <-. apply mk_chunk_meta in E1. apply mk_chunk_meta in E2. rewrite M1, M2 in *. auto.
Qed.

Section Meta.
  Variables (f : list row -> list row) (wt : bool) (wl wr odt okind : Z) (orun : option Z) (otgt sw : Z).
  Let P := mk_ow_params wt wl wr [mk_ow_out f odt okind] orun otgt sw.
  Let M := meta odt orun.

  Definition st_meta (st : ow_state) : Prop :=
    match ow_cres st with Some crs => Forall M crs | None => True end.

  Lemma map_res_Forall {A B} (g : A -> res B) (Q0 : A -> Prop) (Q : B -> Prop) :
    (forall x y, Q0 x -> g x = Ok y -> Q y) -> forall l l', Forall Q0 l -> Overlap.map_res g l = Ok l' -> Forall Q l'.
  Proof.
    intros Hg. induction l as [|x l IH]; intros l' HF H; cbn [Overlap.map_res] in H.
    - inversion H; constructor.
    - inversion HF as [|? ? Hx HF']; subst. destruct (g x) as [y|] eqn:E; [|discriminate]. cbn [res_bind] in H.
      destruct (Overlap.map_res g l) as [ys|] eqn:E2; [|discriminate]. cbn [res_bind] in H. inversion H; subst.
      constructor; [eapply Hg; eauto|apply IH; auto].
  Qed.

  Lemma core_meta inp sent outs st' :
    ow_compute_core P inp sent = Ok (outs, st') -> Forall M outs /\ st_meta st'.
  Proof.
    unfold ow_compute_core. destruct (get_window P) as [[w1 w2]|]; [|discriminate]. cbn [res_bind].
    destruct (base_compute P inp) as [res0|] eqn:E0; [|discriminate]. cbn [res_bind].
    assert (M0 : Forall M res0).
    { unfold base_compute in E0. eapply (map_res_Forall _ (fun o => oo_dt o = odt) M); [| |exact E0].
      - intros o y Ho Hy. unfold P in Hy. cbn [ow_run ow_tgt] in Hy. apply mk_chunk_meta in Hy. rewrite Ho in Hy. exact Hy.
      - unfold P. cbn [ow_outs]. constructor; [reflexivity|constructor]. }
    destruct (Overlap.map_res _ res0) as [res1|] eqn:E1; [|discriminate]. cbn [res_bind].
    assert (M1 : Forall M res1).
    { eapply (map_res_Forall _ M M); [|exact M0|exact E1].
      intros r y Hr Hy. cbn beta in Hy. destruct (chunk_split r sent false) as [[x r2]|] eqn:Es; [|cbn in Hy; discriminate].
      cbn in Hy. inversion Hy; subst. apply (chunk_split_meta _ _ _ _ _ _ _ Es Hr). }
    assert (Hmo : multi_output P = false) by reflexivity. rewrite Hmo.
    destruct res1 as [|r [|r' res1]]; try discriminate.
    destruct (chunk_split r _ true) as [[out cr]|] eqn:E2; [|discriminate]. cbn [res_bind].
    inversion M1 as [|? ? Mr _]; subst.
    destruct (chunk_split_meta _ _ _ _ _ _ _ E2 Mr) as [Mo Mc].
    destruct (cache_beyond [inp] _) as [[cins x']|]; [|discriminate]. cbn [res_bind].
    intros H. inversion H; subst. split; [constructor; [exact Mo|constructor]|].
    unfold st_meta. cbn. constructor; [exact Mc|constructor].
  Qed.

  Lemma do_compute_meta st c outs st' : ow_do_compute P st c = Ok (outs, st') -> Forall M outs /\ st_meta st'.
  Proof.
    unfold ow_do_compute. destruct (match ow_cin st with None => Ok c | Some ci => _ end) as [inp|]; [|discriminate].
    cbn [res_bind]. apply core_meta.
  Qed.

  Lemma rounds_meta : forall rest st buf items,
    ow_rounds P st buf rest = Ok items ->
    items <> [] /\ Forall (fun it => match it with Some cs => Forall M cs | None => True end) items.
  Proof.
    induction rest as [|c rest IH]; intros st buf items; cbn [ow_rounds].
    - destruct (chunk_split buf (cend buf) true) as [[inp buf']|]; [|discriminate]. cbn [res_bind].
      destruct (ow_do_compute P st inp) as [[out st']|] eqn:Ed; [|discriminate]. cbn [res_bind].
      destruct (do_compute_meta _ _ _ _ Ed) as [Mo Ms].
      destruct (_ && _); [discriminate|]. intros H. inversion H; subst. split; [discriminate|].
      constructor; [exact Mo|]. constructor; [|constructor]. unfold st_meta in Ms. exact Ms.
    - destruct (chunk_split buf (cend buf) true) as [[inp buf']|]; [|discriminate]. cbn [res_bind].
      destruct (ow_do_compute P st inp) as [[out st']|] eqn:Ed; [|discriminate]. cbn [res_bind].
      destruct (do_compute_meta _ _ _ _ Ed) as [Mo Ms].
      destruct (concatenate [Some buf'; Some c] false) as [buf2|]; [|discriminate]. cbn [res_bind].
      destruct (ow_rounds P st' buf2 rest) as [outs|] eqn:Er; [|discriminate]. cbn [res_bind].
      intros H. inversion H; subst. destruct (IH _ _ _ Er) as [_ Hm]. split; [discriminate|]. constructor; auto.
  Qed.

  Lemma iter_meta cs items : ow_iter P cs = Ok items ->
    flat_map first_chunk items <> [] -> True.
  Proof. auto. Qed.

  Lemma iter_stream_meta cs items : ow_iter P cs = Ok items ->
    items <> [] /\ Forall M (flat_map first_chunk items).
  Proof.
    unfold ow_iter. destruct cs as [|c rest]; [discriminate|]. intros H.
    destruct (rounds_meta _ _ _ _ H) as [Hn Hm]. split; [exact Hn|].
    clear - Hm. induction Hm as [|it items Hi _ IH]; cbn; [constructor|].
    apply Forall_app. split; [|exact IH]. destruct it as [[|c l]|]; cbn; try constructor.
    - inversion Hi; auto.
    - constructor.
  Qed.
End Meta.

(* ---- the kind lemma ---- *)
Theorem ovl_c09_ok rn : forall m f wt wl wr sw dt R T cs,
  o_run m = rn -> chunking_core dt rn R 0 T cs -> ovl_pre f wl wr R ->
  exists out, ovl_c09 m f wt wl wr sw cs = Ok out /\ chunking_core (o_dtype m) rn (f R) 0 T out.
Proof.
  intros m f wt wl wr sw dt R T cs HRN ((Hne & W & TT & Ch & HR) & U) (Hwl & Hwr & HWL & HD).
  assert (HC : OverlapSpec.chunking_of R 0 T dt rn cs).
  { apply chain_contiguous in Ch as [C1 C2]. unfold OverlapSpec.chunking_of. repeat split; auto. }
  destruct (overlap_single_correct f wt wl wr (2 * wl) (2 * wr) (o_dtype m) (o_kind m) (o_run m) (o_target m) sw
              R 0 T dt rn cs Hwl Hwr (Z.le_refl _) (Z.le_refl _) HWL HD HC)
    as (outs & Ei & Ro & Co & Le & Wo).
  unfold single_params in Ei. unfold ovl_c09. rewrite Ei. exists (flat_map first_chunk (as_items outs)).
  split; [reflexivity|]. rewrite flat_first_as_items.
  destruct (iter_stream_meta f wt wl wr (o_dtype m) (o_kind m) (o_run m) (o_target m) sw cs _ Ei) as [Hn Hm].
  rewrite flat_first_as_items in Hm.
  assert (Hon : outs <> []) by (intros ->; apply Hn; reflexivity).
  split; [|rewrite <- HRN; exact Hm].
  split; [exact Hon|]. split; [exact Wo|]. split; [|split; [apply chain_contiguous; auto|exact Ro]].
  (* tight: every output row has positive length (window_local) and ends inside its chunk *)
  pose proof (wl_pos _ _ _ HWL R HD) as Hp. rewrite <- Ro in Hp.
  apply Forall_forall. intros c Hc. unfold tight. apply Forall_forall. intros r Hr.
  assert (Hin : In r (flat_map crows outs)) by (apply in_flat_map; exists c; auto).
  rewrite Forall_forall in Hp. specialize (Hp r Hin). cbn beta in Hp.
  rewrite Forall_forall in Wo. destruct (Wo c Hc) as (_ & _ & _ & WF). rewrite Forall_forall in WF.
  specialize (WF r Hr). lia.
Qed.
