(* C18: the hypotheses of the property theorems are satisfiable by concrete non-trivial states, and
   the witness that refutes the unrestricted record-linking statement. *)
From SV Require Import Model.Hits Model.Reduction Spec.HitsSpec.

(* two channels; channel 0 holds a pulse of two fragments (4 samples per record), channel 1 a
   single-fragment pulse; baseline 100.25, rms 0.5 *)
Definition ex_records : list rec :=
  [ mkrec 10 4 2 0 7 0 0 0 1604 8 0 [0; 3; 3; 0];
    mkrec 12 4 2 1 4 0 0 0 4 16 0 [1; 1; 5; 2];
    mkrec 18 3 2 0 7 1 0 0 1604 8 0 [2; 2; 0; 0] ].

Example ex_rec_ok : Forall (rec_ok [32; 24] [0; 16]) ex_records.
Proof. repeat constructor; vm_compute; intuition congruence. Qed.

Example ex_find_hits :
  find_hits_core [32; 24] [0; 16] ex_records =
  Ok [ mkhit 12 2 2 0 104 1 3 0 512 52 12;      (* record 0, samples [1,3): area 6.5, height 3.25 *)
       mkhit 16 2 2 1 120 2 4 1 384 84 16;      (* record 1, samples [2,4): area 7.5, height 5.25 *)
       mkhit 18 2 2 0 72 0 2 2 512 36 18 ].     (* record 2, samples [0,2) *)
Proof. vm_compute. reflexivity. Qed.

Example ex_rec_wf : Forall rec_wf ex_records.
Proof. repeat constructor; vm_compute; intuition congruence. Qed.

Example ex_record_links : record_links ex_records = Ok ([-1; -1; 0], [2; -1; -1]).
Proof. vm_compute. reflexivity. Qed.

Example ex_linked : linked 4 ex_records 0 2.
Proof.
  unfold linked, rec_at, zlen. simpl. repeat split; try lia.
  intros k Hk. assert (k = 1) by lia. subst k. simpl. lia.
Qed.

Definition ex_hits : list hit :=
  [ mkhit 12 2 2 0 104 1 3 0 512 52 12; mkhit 18 2 2 0 72 0 2 2 512 36 18 ].

Example ex_hit_ok : Forall (hit_ok ex_records 4) ex_hits.
Proof. repeat constructor; vm_compute; intuition congruence. Qed.

(* left extension 1, right extension 2: the hit at the start of record 2 reaches back into the
   last sample of record 0; record 1 (other channel) is blanked *)
Example ex_cut :
  cut_outside_hits ex_records ex_hits 1 2 =
  Ok [ mkrec 10 4 2 0 7 0 0 2 1604 8 0 [0; 3; 3; 0];
       mkrec 12 4 2 1 4 0 0 2 4 16 0 [0; 0; 0; 0];
       mkrec 18 3 2 0 7 1 0 2 1604 8 0 [2; 2; 0; 0] ].
Proof. vm_compute. reflexivity. Qed.

(* Documentation of the pinned snapshot (before fix d422fcc): there the linking statement was false
   of the code: a continuing fragment at time 0 that is the first record of its channel matched the
   initial expected_next_start = 0 while last_record_seen = -1, and `next_record[-1] = i` wrote
   into the LAST record's slot.  The repaired loop gives no link on the same input. *)
Definition time0_records : list rec :=
  [ mkrec 0 4 1 0 8 1 0 0 0 0 0 [1; 1; 1; 1];
    mkrec 5 4 1 1 4 0 0 0 0 0 0 [1; 1; 1; 1] ].

Example time0_repaired : record_links time0_records = Ok ([-1; -1], [-1; -1]).
Proof. vm_compute. reflexivity. Qed.

Lemma record_links_time0_witness :
  exists rs prev next j i,
    Forall (fun r => 0 <= r_ch r) rs /\ record_links_pinned rs = Ok (prev, next) /\
    0 <= j < zlen rs /\ 0 <= i /\ nthZ next j = i /\ ~ linked (spr_of rs) rs j i.
Proof.
  exists time0_records, [-1; -1], [-1; 0], 1, 0.
  split; [repeat constructor; vm_compute; congruence|].
  split; [vm_compute; reflexivity|].
  split; [vm_compute; intuition congruence|]. split; [lia|]. split; [reflexivity|].
  intros (H & _). lia.
Qed.

(* raw-like records for baseline(): channel 0 has a two-fragment pulse, channel 1 one fragment *)
From SV Require Import Proof.BaselineProof.
Definition ex_raw : list rec :=
  [ mkrec 10 4 2 0 7 0 0 0 0 0 0 [100; 101; 97; 100];
    mkrec 12 4 2 1 4 0 0 0 0 0 0 [99; 99; 95; 98];
    mkrec 18 3 2 0 7 1 0 0 0 0 0 [98; 98; 100; 0] ].

Example ex_window_ok : Forall (window_ok 2) ex_raw.
Proof. repeat constructor; vm_compute; congruence. Qed.

Example ex_all_have_first : all_have_first [] ex_raw.
Proof. cbn. repeat split; discriminate. Qed.

(* baseline 100.5 (channel 0) and 99 (channel 1); the second fragment reuses 100.5 *)
Example ex_baseline :
  baseline ex_raw 2 true false 16000 =
  Ok [ mkrec 10 4 2 0 7 0 0 0 1608 0 0 [0; -1; 3; 0];
       mkrec 12 4 2 1 4 0 0 0 1584 0 0 [0; 0; 4; 1];
       mkrec 18 3 2 0 7 1 0 0 1608 0 0 [2; 2; 0; 0] ].
Proof. vm_compute. reflexivity. Qed.
