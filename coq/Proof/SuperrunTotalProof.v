(* C14, totality and exactness of the plugin levels of a superrun whose sub-runs touch (no gaps):
   what Plugin.iter yields at the first superrun-capable level (fed by the chained sub-run loaders)
   and at every level above it, computed symbolically. *)
From SV Require Import Model.Annot Model.Superrun Proof.SuperrunKeyProof Proof.AnnotProof
     Proof.SuperrunRowsProof Proof.SuperrunExactProof.
From Coq Require Import Permutation Sorted.

Definition base_ok (b : chunk) : Prop :=
  mk_chunk (cstart b) (cend b) (crows b) (cdtype b) (ckind b) (crun b) (ctarget b) = Ok b.

Lemma mk_chunk_any s e rows dt k run tgt c :
  mk_chunk s e rows dt k run tgt = Ok c ->
  forall dt' k' run' tgt', mk_chunk s e rows dt' k' run' tgt' = Ok (mkchunk s e rows dt' k' run' tgt').
Proof.
  unfold mk_chunk. intros H dt' k' run' tgt'.
  destruct (s <? 0); [discriminate|]. destruct (s >? e); [discriminate|].
  destruct rows as [|r0 rows]; [reflexivity|].
  destruct (rt r0 <? s); [discriminate|]. destruct (_ >? e); [discriminate|]. reflexivity.
Qed.

Lemma mk_chunk_range s e rows dt k run tgt c : mk_chunk s e rows dt k run tgt = Ok c -> 0 <= s <= e.
Proof.
  unfold mk_chunk. destruct (s <? 0) eqn:E1; [discriminate|]. destruct (s >? e) eqn:E2; [discriminate|]. lia.
Qed.

Lemma mk_chunk_empty e dt k run tgt : 0 <= e -> mk_chunk e e [] dt k run tgt = Ok (mkchunk e e [] dt k run tgt).
Proof.
  intros H. unfold mk_chunk. destruct (e <? 0) eqn:E1; [lia|]. destruct (e >? e) eqn:E2; [lia|]. reflexivity.
Qed.

Lemma base_ok_any b : base_ok b ->
  forall dt k run tgt, mk_chunk (cstart b) (cend b) (crows b) dt k run tgt
                       = Ok (mkchunk (cstart b) (cend b) (crows b) dt k run tgt).
Proof. intros H. eapply mk_chunk_any, H. Qed.

Definition relevel (prun : Z) (lv : level) (c : achunk) : achunk :=
  mkachunk (mkchunk (cstart (abase c)) (cend (abase c)) (crows (abase c)) (l_dtype lv) (l_kind lv)
                    (Some prun) (l_target lv)) (asub c) (asuper c).

Section Total.
  Variable T : annot.
  Variable prun : Z.
  Hypothesis HwT : wfa T.
  Hypothesis HndT : NoDup (keys T).
  Hypothesis HnoneT : has_none_key T = false.
  Hypothesis Hprun : prun < 0.

  (* an exact superrun chunk of positive duration that covers (part of) some sub-run and whose rows fit, of
     one data type / kind / target *)
  Definition goodc (dt k tgt : Z) (c : achunk) : Prop :=
    exactc T prun c /\ cstart (abase c) < cend (abase c) /\ base_ok (abase c) /\
    cdtype (abase c) = dt /\ ckind (abase c) = k /\ ctarget (abase c) = tgt /\
    clip (cstart (abase c)) (cend (abase c)) T <> [].

  (* what stays in the input buffer after a fetch has been consumed *)
  Definition rest_of (dt k tgt e : Z) : achunk :=
    mkachunk (mkchunk e e [] dt k (Some prun) tgt) None [mkspan (Some prun) e e].

  Lemma asplit_end_good dt k tgt c :
    goodc dt k tgt c -> asplit c (cend (abase c)) true = Ok (c, rest_of dt k tgt (cend (abase c))).
  Proof.
    intros (Hc & Hlt & Hok & Hdt & Hk & Htg & Hne).
    destruct Hc as (Hr & Hab & Hs & Hsup).
    pose proof (mk_chunk_range _ _ _ _ _ _ _ _ Hok) as Hrange.
    destruct c as [b sub sup]. destruct b as [a e rows dt0 k0 run0 tgt0].
    unfold base_ok in Hok.
    cbn [abase asub asuper cstart cend crows cdtype ckind crun ctarget] in *. subst.
    unfold asplit. cbn [abase asub asuper cstart cend crows cdtype ckind crun ctarget].
    rewrite Z.min_id, Z.max_l by lia. rewrite Z.eqb_refl.
    rewrite (split_runs_clip_any a e e T) by lia. unfold clamp. rewrite Z.min_id, (Z.max_r a e) by lia.
    rewrite (clip_empty_range e e T) by lia.
    rewrite (split_runs_single (Some prun) a e e) by lia. rewrite Z.min_id.
    destruct (a <? e) eqn:E1; [|lia]. rewrite (Z.max_r a e) by lia. rewrite Z.ltb_irrefl.
    cbn [none_if_empty fst snd one_or_none length Nat.eqb hd last srun]. rewrite Z.max_id.
    unfold mk_achunk. rewrite (set_subruns_clip T HwT HnoneT). cbn [res_bind]. rewrite Hok. cbn [res_bind].
    rewrite set_superrun_single. cbn [res_bind set_subruns].
    rewrite mk_chunk_empty by lia. cbn [res_bind]. rewrite set_superrun_none. cbn [res_bind].
    reflexivity.
  Qed.

  (* Plugin.do_compute of a level above the first superrun-capable one hands the annotations on *)
  Lemma do_compute_good dt k tgt lv c :
    goodc dt k tgt c -> do_compute prun lv c [] = Ok (relevel prun lv c).
  Proof.
    intros (Hc & Hlt & Hok & Hdt & Hk & Htg & Hne).
    destruct Hc as (Hr & Hab & Hs & Hsup).
    unfold do_compute, check_uniqueness. cbn [forallb negb map res_bind].
    unfold mk_achunk. cbn [set_subruns res_bind]. rewrite (base_ok_any _ Hok). cbn [res_bind].
    rewrite set_superrun_none. cbn [res_bind].
    unfold superrun_transformation. rewrite Hsup. cbn [existsb srun]. rewrite opt_eqb_refl.
    cbn [orb negb andb length].
    destruct (prun <? 0) eqn:E; [|lia]. cbn [andb].
    destruct (1 <? 1)%nat eqn:E2; [apply Nat.ltb_lt in E2; lia|].
    rewrite Hs, (set_subruns_clip T HwT HnoneT). cbn [res_bind abase crun cstart cend].
    rewrite set_superrun_single. cbn [res_bind]. unfold relevel, set_annots. cbn [abase].
    rewrite Hs, Hsup. reflexivity.
  Qed.

  Lemma relevel_good dt k tgt lv c :
    goodc dt k tgt c -> goodc (l_dtype lv) (l_kind lv) (l_target lv) (relevel prun lv c).
  Proof.
    intros (Hc & Hlt & Hok & Hdt & Hk & Htg & Hne). destruct Hc as (Hr & Hab & Hs & Hsup).
    unfold goodc, exactc, relevel, base_ok. cbn [abase asub asuper cstart cend crows cdtype ckind crun ctarget].
    repeat split; auto. apply (base_ok_any _ Hok).
  Qed.

  (* fetching the next chunk onto the empty rest of the buffer gives that chunk *)
  Lemma aconcatenate_rest_good dt k tgt e c :
    goodc dt k tgt c -> cstart (abase c) = e ->
    aconcatenate [Some (rest_of dt k tgt e); Some c] true = Ok c.
  Proof.
    intros (Hc & Hlt & Hok & Hdt & Hk & Htg & Hne) He.
    destruct Hc as (Hr & Hab & Hs & Hsup).
    pose proof (mk_chunk_range _ _ _ _ _ _ _ _ Hok) as Hrange.
    unfold aconcatenate. cbn [somes forallb abase rest_of cdtype].
    rewrite Hdt, !Z.eqb_refl. cbn [andb negb].
    unfold all_same_run. cbn [forallb abase crun]. rewrite Hr, !opt_eqb_refl. cbn [andb negb res_bind].
    assert (Hm : merge_subruns [rest_of dt k tgt e; c] false
                 = Ok (none_if_empty (clip (cstart (abase c)) (cend (abase c)) T))).
    { unfold merge_subruns. cbn [fold_left rest_of asub merge_runs]. rewrite Hs, merge_runs_nie.
      pose proof (merge_clips (cstart (abase c)) (cstart (abase c)) (cend (abase c)) T) as Hmc.
      rewrite (clip_empty_range (cstart (abase c)) (cstart (abase c)) T) in Hmc by lia.
      unfold add_spans in Hmc at 2. cbn [fold_left] in Hmc. rewrite Hmc by (auto; lia). reflexivity. }
    rewrite Hm. cbn [res_bind map abase order_ok cstart cend rest_of].
    destruct (e <? 0) eqn:E1; [lia|]. destruct (cstart (abase c) <? e) eqn:E2; [lia|]. cbn [negb].
    cbn [last_end map abase flat_map crows app ckind ctarget fold_left].
    rewrite app_nil_r. subst e.
    unfold mk_achunk. rewrite (set_subruns_clip T HwT HnoneT). cbn [res_bind].
    rewrite (base_ok_any _ Hok). cbn [res_bind]. rewrite set_superrun_none. cbn [res_bind].
    destruct c as [b sub sup]. destruct b as [a e rows dt0 k0 run0 tgt0].
    cbn [abase asub asuper cstart cend crows cdtype ckind crun ctarget] in *. subst.
    rewrite !Z.max_id. reflexivity.
  Qed.

  (* Plugin.iter of a level above the first superrun-capable one: one output per input chunk, the same
     ranges, rows and annotations *)
  Lemma iter_loop_good dt k tgt lv inputs : forall buffer,
    goodc dt k tgt buffer -> Forall (goodc dt k tgt) inputs -> chain_from (cend (abase buffer)) inputs ->
    iter_loop true prun lv buffer inputs = Ok (map (relevel prun lv) (buffer :: inputs)).
  Proof.
    induction inputs as [|c more IH]; intros buffer Hb Hall Hch; cbn [iter_loop].
    - rewrite (asplit_end_good dt k tgt buffer Hb). cbn [res_bind].
      rewrite (do_compute_good dt k tgt lv buffer Hb). cbn [res_bind rest_of abase crows]. reflexivity.
    - rewrite (asplit_end_good dt k tgt buffer Hb). cbn [res_bind].
      rewrite (do_compute_good dt k tgt lv buffer Hb). cbn [res_bind].
      inversion Hall as [|? ? Hc Hmore]; subst. cbn [chain_from] in Hch. destruct Hch as [Hst Hch].
      rewrite (aconcatenate_rest_good dt k tgt _ c Hc Hst). cbn [res_bind].
      rewrite (IH c Hc Hmore Hch). cbn [res_bind map]. reflexivity.
  Qed.

  Lemma plugin_iter_good dt k tgt lv cs e :
    cs <> [] -> Forall (goodc dt k tgt) cs -> chain_from e cs ->
    plugin_iter true prun lv cs = Ok (map (relevel prun lv) cs) /\
    Forall (goodc (l_dtype lv) (l_kind lv) (l_target lv)) (map (relevel prun lv) cs) /\
    chain_from e (map (relevel prun lv) cs).
  Proof.
    intros Hne Hall Hch. destruct cs as [|c more]; [contradiction|].
    inversion Hall as [|? ? Hc Hmore]; subst. cbn [chain_from] in Hch. destruct Hch as [Hst Hch].
    split; [cbn [plugin_iter]; apply (iter_loop_good dt k tgt lv more c Hc Hmore Hch)|].
    split.
    - apply Forall_forall. intros x Hx. apply in_map_iff in Hx as (y & <- & Hy).
      rewrite Forall_forall in Hall. apply (relevel_good dt k tgt lv y), Hall, Hy.
    - clear -Hst Hch. cbn [map chain_from relevel abase cstart cend]. split; [exact Hst|].
      revert Hch. generalize (cend (abase c)). induction more as [|x more IH]; intros e0 H; [exact I|].
      cbn [map chain_from relevel abase cstart cend] in *. destruct H as [H1 H2]. split; [exact H1|apply IH, H2].
  Qed.
End Total.

(* ---------------------------------------------------------------------------------------------
   the first superrun-capable level: its input is the chain of the sub-runs' loaders; between two
   sub-runs there may be a gap, which the first chunk of the later sub-run absorbs
   --------------------------------------------------------------------------------------------- *)
Record lc := mklc { lr : Z; la : Z; le : Z; lrows : list row }.

Lemma split_runs_border r0 r a s e : a <= s -> s < e ->
  split_runs (Some ([mkspan r0 a a; mkspan r s e] : annot)) e = (Some [mkspan r s e], None).
Proof.
  intros H1 H2. unfold split_runs. cbn [flat_map app]. unfold split_span_first, split_span_second.
  cbn [sstart send srun].
  destruct (e <=? a) eqn:E1; [lia|].
  destruct ((a <? e) && (e <? a)) eqn:E2; [lia|].
  destruct (a <=? e) eqn:E3; [|lia].
  destruct (e <=? s) eqn:E7; [lia|].
  destruct ((s <? e) && (e <? e)) eqn:E4; [lia|].
  destruct (e <=? e) eqn:E5; [|lia].
  cbn [app pop_empty filter sstart send]. rewrite Z.eqb_refl.
  destruct (s =? e) eqn:E6; [lia|]. reflexivity.
Qed.

(* a chunk whose rows fit still fits when its start is moved back *)
Lemma mk_chunk_widen s e rows c s' :
  mk_chunk s e rows 0 0 None 0 = Ok c -> 0 <= s' -> s' <= s ->
  mk_chunk s' e rows 0 0 None 0 = Ok (mkchunk s' e rows 0 0 None 0).
Proof.
  unfold mk_chunk. intros H H0 Hle.
  destruct (s <? 0) eqn:E1; [discriminate|]. destruct (s >? e) eqn:E2; [discriminate|].
  destruct (s' <? 0) eqn:E3; [lia|]. destruct (s' >? e) eqn:E4; [lia|].
  destruct rows as [|r0 rows]; [reflexivity|].
  destruct (rt r0 <? s) eqn:E5; [discriminate|]. destruct (rt r0 <? s') eqn:E6; [lia|].
  destruct (max_end (lastn end_window (r0 :: rows)) >? e); [discriminate|]. reflexivity.
Qed.

Section FirstLevel.
  Variable prun : Z.
  Hypothesis Hprun : prun < 0.
  Variables dt k tgt : Z.          (* data type, kind and target of the level that is loaded *)
  Variable lv : level.             (* the first superrun-capable level *)

  (* the input buffer [a,e) holding run r over [s,e): either an ordinary chunk of run r (then s = a), or --
     right after a sub-run border -- a chunk without run id whose superrun annotation still lists the
     (empty) rest of the previous run r0 *)
  Definition fl_buffer (pre : option Z) (r a s e : Z) (rows : list row) : achunk :=
    mkachunk (mkchunk a e rows dt k (match pre with None => Some r | Some _ => None end) tgt) None
             (match pre with
              | None => [mkspan (Some r) s e]
              | Some r0 => [mkspan (Some r0) a a; mkspan (Some r) s e]
              end).

  (* a chunk as the loader of an ordinary run yields it *)
  Definition ord_chunk (r a e : Z) (rows : list row) : achunk := fl_buffer None r a a e rows.
  Definition ord_of (x : lc) : achunk := ord_chunk (lr x) (la x) (le x) (lrows x).

  (* what the level yields: a chunk of the superrun [a,e) recording the run it came from over [s,e) *)
  Definition fl_out (r a s e : Z) (rows : list row) : achunk :=
    mkachunk (mkchunk a e rows (l_dtype lv) (l_kind lv) (Some prun) (l_target lv))
             (Some [mkspan (Some r) s e]) [mkspan (Some prun) a e].

  Definition lc_ok (x : lc) : Prop :=
    la x < le x /\ lr x <> prun /\
    exists c, mk_chunk (la x) (le x) (lrows x) 0 0 None 0 = Ok c.

  Definition fl_inp (pre : option Z) (r a s e : Z) (rows : list row) : achunk :=
    mkachunk (mkchunk a e rows dt k (Some (match pre with None => r | Some r0 => r0 end)) tgt)
             None [mkspan (Some r) s e].

  Lemma fl_split pre r a s e rows c0 :
    a <= s -> s < e -> mk_chunk a e rows 0 0 None 0 = Ok c0 ->
    asplit (fl_buffer pre r a s e rows) e true = Ok (fl_inp pre r a s e rows, ord_chunk r e e []).
  Proof.
    intros Has Hlt Hmk. pose proof (mk_chunk_range _ _ _ _ _ _ _ _ Hmk) as Hrange.
    unfold asplit. destruct pre as [r0|]; cbn [fl_buffer ord_chunk abase asub asuper cstart cend crows cdtype ckind crun ctarget].
    - rewrite Z.min_id, Z.max_l by lia. rewrite Z.eqb_refl.
      rewrite split_runs_border by lia.
      cbn [split_runs fst snd one_or_none length Nat.eqb hd last srun]. rewrite (Z.max_r a e), Z.max_id by lia.
      unfold mk_achunk. cbn [set_subruns res_bind].
      rewrite (mk_chunk_any _ _ _ _ _ _ _ _ Hmk). cbn [res_bind]. rewrite set_superrun_single. cbn [res_bind].
      rewrite mk_chunk_empty by lia. cbn [res_bind]. rewrite set_superrun_none. reflexivity.
    - rewrite Z.min_id, Z.max_l by lia. rewrite Z.eqb_refl.
      rewrite (split_runs_single (Some r) s e e) by lia. rewrite Z.min_id.
      destruct (s <? e) eqn:E1; [|lia]. rewrite (Z.max_r s e) by lia. rewrite Z.ltb_irrefl.
      cbn [split_runs fst snd one_or_none length Nat.eqb hd last srun]. rewrite (Z.max_r a e), Z.max_id by lia.
      unfold mk_achunk. cbn [set_subruns res_bind].
      rewrite (mk_chunk_any _ _ _ _ _ _ _ _ Hmk). cbn [res_bind]. rewrite set_superrun_single. cbn [res_bind].
      rewrite mk_chunk_empty by lia. cbn [res_bind]. rewrite set_superrun_none. reflexivity.
  Qed.

  Lemma fl_compute pre r a s e rows c0 :
    s < e -> r <> prun -> mk_chunk a e rows 0 0 None 0 = Ok c0 ->
    do_compute prun lv (fl_inp pre r a s e rows) [] = Ok (fl_out r a s e rows).
  Proof.
    intros Hlt Hr Hmk.
    unfold do_compute, check_uniqueness, fl_inp. cbn [forallb negb map res_bind abase asub asuper cstart cend crows].
    unfold mk_achunk. cbn [set_subruns res_bind]. rewrite (mk_chunk_any _ _ _ _ _ _ _ _ Hmk). cbn [res_bind].
    rewrite set_superrun_none. cbn [res_bind].
    unfold superrun_transformation. cbn [existsb srun opt_eqb].
    destruct (r =? prun) eqn:E1; [lia|]. destruct (prun <? 0) eqn:E2; [|lia]. cbn [orb negb andb].
    unfold set_subruns. cbn [has_none_key existsb srun orb].
    unfold sort_spans. cbn [fold_left ins_span overlapb res_bind]. reflexivity.
  Qed.

  Lemma fl_concat r e x :
    lc_ok x -> e <= la x -> (r = lr x -> la x = e) -> 0 <= e ->
    aconcatenate [Some (ord_chunk r e e []); Some (ord_of x)] true
    = Ok (fl_buffer (if r =? lr x then None else Some r) (lr x) e (la x) (le x) (lrows x)).
  Proof.
    intros (Hlt & Hrx & c0 & Hmk) Hla Hsame He.
    pose proof (mk_chunk_widen _ _ _ _ e Hmk He Hla) as Hmk'.
    unfold aconcatenate, ord_of, ord_chunk, fl_buffer.
    cbn [somes forallb abase cdtype]. rewrite !Z.eqb_refl. cbn [andb negb].
    unfold all_same_run. cbn [forallb abase crun opt_eqb]. rewrite Z.eqb_refl. cbn [andb].
    destruct (r =? lr x) eqn:E.
    - (* the next chunk belongs to the same run *)
      assert (r = lr x) by lia. subst r. rewrite Z.eqb_refl. cbn [andb negb res_bind].
      rewrite (Hsame eq_refl) in *.
      unfold merge_subruns. cbn [fold_left asub merge_runs mergable_check res_bind none_if_empty].
      cbn [map abase order_ok cstart cend].
      destruct (e <? 0) eqn:E1; [lia|]. destruct (e <? e) eqn:E2; [lia|]. cbn [negb].
      cbn [last_end map abase flat_map crows app ckind ctarget fold_left cend cstart].
      rewrite app_nil_r, !Z.max_id.
      unfold mk_achunk. cbn [set_subruns res_bind]. rewrite (mk_chunk_any _ _ _ _ _ _ _ _ Hmk). cbn [res_bind].
      rewrite set_superrun_none. reflexivity.
    - (* a sub-run border *)
      destruct (lr x =? r) eqn:E'; [lia|]. cbn [andb negb res_bind].
      unfold merge_superrun. cbn [fold_left asuper merge_runs add_run srun sstart send opt_eqb]. rewrite E'.
      cbn [add_run mergable_check]. unfold sort_pairs. cbn [fold_left ins_pair contiguous_pairs res_bind hd last fst snd].
      unfold merge_subruns. cbn [fold_left asub merge_runs mergable_check res_bind none_if_empty].
      cbn [map abase order_ok cstart cend].
      destruct (e <? 0) eqn:E1; [lia|]. destruct (la x <? e) eqn:E2; [lia|]. cbn [negb].
      cbn [last_end map abase flat_map crows app ckind ctarget fold_left cend cstart].
      rewrite app_nil_r, !Z.max_id.
      unfold mk_achunk. cbn [set_subruns res_bind]. rewrite (mk_chunk_any _ _ _ _ _ _ _ _ Hmk'). cbn [res_bind].
      unfold set_superrun. cbn [has_none_key existsb srun orb length Nat.eqb andb].
      unfold sort_spans. cbn [fold_left ins_span sstart].
      destruct (la x <? e) eqn:E4; [lia|].
      cbn [overlapb send sstart orb]. destruct (e >? la x) eqn:E3; [lia|]. reflexivity.
  Qed.

  (* the loaded chunks in order: never before the end of the previous one, and touching it inside a run *)
  Fixpoint lorder (r e : Z) (l : list lc) : Prop :=
    match l with
    | [] => True
    | x :: m => e <= la x /\ (r = lr x -> la x = e) /\ lorder (lr x) (le x) m
    end.

  (* what the level yields for them: chunk i begins where chunk i-1 ended *)
  Fixpoint fl_outs (e : Z) (l : list lc) : list achunk :=
    match l with
    | [] => []
    | x :: m => fl_out (lr x) e (la x) (le x) (lrows x) :: fl_outs (le x) m
    end.

  Lemma fl_iter inputs : forall pre r a s e rows c0,
    a <= s -> s < e -> r <> prun -> mk_chunk a e rows 0 0 None 0 = Ok c0 ->
    Forall lc_ok inputs -> lorder r e inputs ->
    iter_loop true prun lv (fl_buffer pre r a s e rows) (map ord_of inputs)
    = Ok (fl_out r a s e rows :: fl_outs e inputs).
  Proof.
    induction inputs as [|x more IH]; intros pre r a s e rows c0 Has Hlt Hr Hmk Hall Hch; cbn [map iter_loop fl_outs].
    - assert (He : cend (abase (fl_buffer pre r a s e rows)) = e) by reflexivity.
      rewrite He, (fl_split pre r a s e rows c0 Has Hlt Hmk). cbn [res_bind].
      rewrite (fl_compute pre r a s e rows c0 Hlt Hr Hmk). cbn [res_bind ord_chunk fl_buffer abase crows]. reflexivity.
    - assert (He : cend (abase (fl_buffer pre r a s e rows)) = e) by reflexivity.
      rewrite He, (fl_split pre r a s e rows c0 Has Hlt Hmk). cbn [res_bind].
      rewrite (fl_compute pre r a s e rows c0 Hlt Hr Hmk). cbn [res_bind].
      inversion Hall as [|? ? Hx Hmore]; subst. cbn [lorder] in Hch. destruct Hch as (Hla & Hsame & Hch).
      pose proof (mk_chunk_range _ _ _ _ _ _ _ _ Hmk) as Hrange.
      rewrite (fl_concat r e x Hx Hla Hsame) by lia. cbn [res_bind].
      destruct Hx as (Hlt' & Hr' & c1 & Hmk').
      pose proof (mk_chunk_widen _ _ _ _ e Hmk' ltac:(lia) Hla) as Hmk''.
      rewrite (IH _ (lr x) e (la x) (le x) (lrows x) _ Hla Hlt' Hr' Hmk'' Hmore Hch).
      cbn [res_bind]. reflexivity.
  Qed.

  Lemma fl_plugin_iter x inputs :
    lc_ok x -> Forall lc_ok inputs -> lorder (lr x) (le x) inputs ->
    plugin_iter true prun lv (map ord_of (x :: inputs))
    = Ok (fl_out (lr x) (la x) (la x) (le x) (lrows x) :: fl_outs (le x) inputs).
  Proof.
    intros (Hlt & Hr & c0 & Hmk) Hall Hch. cbn [map plugin_iter].
    apply (fl_iter inputs None (lr x) (la x) (la x) (le x) (lrows x) c0); auto. lia.
  Qed.
End FirstLevel.
