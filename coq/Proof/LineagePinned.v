(* C02 — cache transparency for the context hash of the pinned tree, under the two hypotheses that
   exclude exactly the refuted failure classes:
     H1  two classes of the history that provide a common data type and agree on
         (version, compressor, input_timeout) are the same class as far as lineages are concerned
         (no same-named, same-version class with other content is ever registered: finding D4);
     H2  no configuration key of the history is the name of a data type of the history. *)
From SV Require Import Base.Prelude Model.Canon Model.Lineage Proof.CanonProof Spec.LineageSpec
  Proof.LineageEquiv Proof.LineageCache Proof.LineageCache2 Proof.LineageHash Proof.LineageRegister
  Proof.LineageHistory Proof.LineageStore Proof.LineageKeys Proof.LineageFuzzy.

Definition config_keys_of (ops : list op) : list Z :=
  flat_map (fun o => match o with OSetConfig _ _ kv => keys kv | _ => [] end) ops.

Definition conf_in (K : list Z) (conf : config) : Prop := forall k, has_key k conf = true -> In k K.

(* ---------- NoDup of registry keys ---------- *)
Lemma keys_ddel_NoDup {A} k (l : list (Z * A)) : NoDup (keys l) -> NoDup (keys (ddel k l)).
Proof.
  unfold ddel, keys. induction l as [|kv l IH]; intros ND; cbn [filter map]; [constructor|].
  cbn [map] in ND. inversion ND as [|? ? Hn ND']; subst.
  destruct (negb (fst kv =? k)); cbn [map]; [|now apply IH]. constructor; [|now apply IH].
  intros Hin. apply Hn. apply in_map_iff in Hin. destruct Hin as (x & E & Hx). apply filter_In in Hx.
  rewrite <- E. apply in_map. tauto.
Qed.

Lemma register_core_NoDup reg c : NoDup (keys reg) -> NoDup (keys (register_core reg c)).
Proof.
  intros ND. rewrite register_core_unfold.
  assert (L1 : forall provs r d, NoDup (keys r) -> NoDup (keys (fst (fold_left (reg_step c) provs (r, d))))).
  { induction provs as [|p provs IH]; intros r d H; cbn [fold_left]; [exact H|].
    unfold reg_step at 2. apply IH. now apply keys_dset_NoDup. }
  match goal with |- context [let (_, _) := ?t in _] => destruct t as [r1 dereg] eqn:E end.
  pose proof (L1 (cprovides c) reg [] ND) as N1.
  assert (N1' : NoDup (keys r1)).
  { change (NoDup (keys (fst (r1, dereg)))). rewrite <- E. exact N1. }
  clear N1 E. rename N1' into N1. revert r1 N1. induction dereg as [|old dereg IH]; intros r1 N1; cbn [fold_left]; [exact N1|].
  apply IH. generalize (cprovides old). intros ds. revert r1 N1.
  induction ds as [|d ds IHd]; intros r1 N1; cbn [fold_left]; [exact N1|].
  apply IHd. unfold boot_one. destruct (lookup d r1); [|exact N1]. destruct (cls_same c0 old); [|exact N1].
  now apply keys_ddel_NoDup.
Qed.

(* ---------- the pinned context hash under H1, H2 ---------- *)
Definition triple (c : cls) : value := VTuple [VStr (cversion c); VStr (ccomp c); VInt (ctimeout c)].

Lemma lookup_pinned_dict reg conf k :
  NoDup (keys reg) ->
  lookup k (dupdate conf (map (fun dc => (fst dc, triple (snd dc))) reg)) =
  match lookup k reg with Some c => Some (triple c) | None => lookup k conf end.
Proof.
  intros ND. rewrite lookup_dupdate, lookup_rev_NoDup by (rewrite keys_map_snd; exact ND).
  rewrite (lookup_map_snd triple). destruct (lookup k reg); reflexivity.
Qed.

Section Pinned.
Variable U : list cls.
Variable K : list Z.
Hypothesis H1 : forall c1 c2 d, In c1 U -> In c2 U -> In d (cprovides c1) -> In d (cprovides c2) ->
  cversion c1 = cversion c2 -> ccomp c1 = ccomp c2 -> ctimeout c1 = ctimeout c2 -> cls_equiv c1 c2.
Hypothesis H2 : forall k c, In k K -> In c U -> ~ In k (cprovides c).

Definition good (reg : registry) (conf : config) : Prop :=
  reg_ok reg /\ reg_in U reg /\ NoDup (keys reg) /\ conf_in K conf.

Lemma good_dt_not_conf reg conf' dt c :
  reg_ok reg -> reg_in U reg -> conf_in K conf' -> lookup dt reg = Some c -> lookup dt conf' = None.
Proof.
  intros Hok Hin Hc Hl. destruct (lookup dt conf') eqn:E; [|reflexivity]. exfalso.
  assert (Hk : In dt K) by (apply Hc; unfold has_key; now rewrite E).
  destruct (Hok dt c Hl) as (Hp & _). exact (H2 dt c Hk (Hin dt c Hl) Hp).
Qed.

Theorem pinned_hash_equiv reg conf reg0 conf0 :
  good reg conf -> good reg0 conf0 ->
  canon (chash_value_pinned reg conf) = canon (chash_value_pinned reg0 conf0) ->
  reg_equiv reg reg0 /\ conf_equiv conf conf0.
Proof.
  intros (Hok & Hin & ND & Hc) (Hok0 & Hin0 & ND0 & Hc0) H. apply ser_injective in H.
  unfold chash_value_pinned in H. apply norm_dict_ext in H.
  assert (D : forall k, option_map norm (match lookup k reg with Some c => Some (triple c) | None => lookup k conf end) =
                        option_map norm (match lookup k reg0 with Some c => Some (triple c) | None => lookup k conf0 end)).
  { intros k. rewrite <- (lookup_pinned_dict reg conf k ND), <- (lookup_pinned_dict reg0 conf0 k ND0). apply H. }
  split.
  - intros dt. specialize (D dt).
    destruct (lookup dt reg) as [c|] eqn:L, (lookup dt reg0) as [c0|] eqn:L0; [| | |exact I].
    + cbn [option_map] in D. unfold triple in D. rewrite !norm_tuple in D. cbn [map norm] in D. inversion D.
      destruct (Hok dt c L) as (Hp & _). destruct (Hok0 dt c0 L0) as (Hp0 & _).
      eapply H1; eauto.
    + rewrite (good_dt_not_conf reg conf0 dt c Hok Hin Hc0 L) in D. discriminate.
    + rewrite (good_dt_not_conf reg0 conf dt c0 Hok0 Hin0 Hc L0) in D. discriminate.
  - intros k. specialize (D k).
    destruct (lookup k reg) as [c|] eqn:L.
    + rewrite (good_dt_not_conf reg conf k c Hok Hin Hc L).
      destruct (lookup k reg0) as [c0|] eqn:L0.
      * now rewrite (good_dt_not_conf reg0 conf0 k c0 Hok0 Hin0 Hc0 L0).
      * rewrite (good_dt_not_conf reg conf0 k c Hok Hin Hc0 L). reflexivity.
    + destruct (lookup k reg0) as [c0|] eqn:L0; [|exact D].
      rewrite (good_dt_not_conf reg0 conf k c0 Hok0 Hin0 Hc L0),
              (good_dt_not_conf reg0 conf0 k c0 Hok0 Hin0 Hc0 L0). reflexivity.
Qed.

(* ---------- the history invariant, as for the repaired hash ---------- *)
Variable HT : Type.
Variable hash : list Z -> HT.
Variable heqb : HT -> HT -> bool.
Hypothesis hash_inj : forall a b, hash a = hash b -> a = b.
Hypothesis heqb_spec : forall a b, heqb a b = true <-> a = b.
Hypothesis HU : cid_ok U.

Notation chash := (context_hash HT hash false).
Notation cache_t := (cache_t HT).
Notation context := (context HT).
Notation state := (state HT).

Definition cache_inv_p (ca : cache_t) : Prop :=
  match ca with
  | None => True
  | Some (h', m) => exists reg0 conf0, h' = chash reg0 conf0 /\ good reg0 conf0 /\ cache_sound reg0 conf0 m
  end.

Lemma inv_cs_p reg conf ca : good reg conf -> cache_inv_p ca -> cs HT heqb reg conf (chash reg conf) ca.
Proof.
  intros Hg Hinv m Hm. destruct ca as [[h' m']|]; [|discriminate]. cbn [cache_map] in Hm.
  destruct (heqb (chash reg conf) h') eqn:E; [|discriminate]. inversion Hm; subst m'. clear Hm.
  apply heqb_spec in E. destruct Hinv as (reg0 & conf0 & Eh & Hg0 & Hs). subst h'.
  unfold context_hash in E. apply hash_inj in E. apply (pinned_hash_equiv _ _ _ _ Hg Hg0) in E. destruct E as (Hr & Hc).
  intros dt i Hin. eapply sound_inst_transfer; [apply reg_equiv_sym; exact Hr|apply dequiv_sym; exact Hc|]. now apply Hs.
Qed.

Lemma cs_shape_inv_p reg conf ca ca' :
  good reg conf -> cache_inv_p ca -> shape HT (chash reg conf) ca ca' -> cs HT heqb reg conf (chash reg conf) ca' -> cache_inv_p ca'.
Proof.
  intros Hg Hinv [->|(m & ->)] Hcs; [exact Hinv|].
  exists reg, conf. split; [reflexivity|]. split; [exact Hg|]. apply Hcs. cbn [cache_map].
  now rewrite (heqb_refl HT heqb heqb_spec).
Qed.

Lemma get_plugin_inv_p reg conf fuel ca dt i ca' :
  good reg conf -> cache_inv_p ca ->
  get_plugin HT heqb fuel (chash reg conf) reg conf ca dt = Ok (i, ca') ->
  cache_inv_p ca' /\ sound_inst reg conf dt i.
Proof.
  intros Hg Hinv H. pose proof Hg as (Hok & _).
  destruct (get_plugin_sound HT hash heqb heqb_spec reg conf Hok (chash reg conf) fuel ca dt i ca' (inv_cs_p reg conf ca Hg Hinv) H) as (Hs & Hcs).
  split; [|exact Hs]. eapply cs_shape_inv_p; eauto. eapply get_plugin_shape; eauto.
Qed.

Lemma get_plugins_inv_p reg conf fuel : good reg conf -> forall wfuel ca todo acc ps ca',
  cache_inv_p ca ->
  get_plugins HT heqb wfuel fuel (chash reg conf) reg conf ca todo acc = Ok (ps, ca') -> cache_inv_p ca'.
Proof.
  intros Hg. induction wfuel as [|w IH]; intros ca todo acc ps ca' Hinv H; cbn [get_plugins] in H; [discriminate|].
  destruct todo as [|t r]; [inversion H; now subst|].
  destruct (has_key t acc); [eapply IH; eauto|].
  destruct (get_plugin _ _ _ _ _ _ _ _) as [[i ca1]|] eqn:E; cbn [res_bind fst snd] in H; [|discriminate].
  destruct (get_plugin_inv_p _ _ _ _ _ _ _ Hg Hinv E) as (Hinv1 & _). eapply IH; eauto.
Qed.

Definition ctx_inv_p (x : context) : Prop := good (creg HT x) (cconf HT x) /\ cache_inv_p (ccache HT x).
Definition state_inv_p (s : state) : Prop := Forall ctx_inv_p (ctxs HT s).

Lemma Forall_set_ctx_p (s : state) c x : state_inv_p s -> ctx_inv_p x -> state_inv_p (set_ctx HT s c x).
Proof.
  unfold state_inv_p, set_ctx. cbn [ctxs]. intros Hs Hx. apply Forall_app. split.
  - apply Forall_forall. intros y Hy. rewrite Forall_forall in Hs. apply Hs. eapply my_in_firstn; eauto.
  - constructor; [exact Hx|]. apply Forall_forall. intros y Hy. rewrite Forall_forall in Hs. apply Hs.
    eapply my_in_skipn; eauto.
Qed.

Lemma nth_inv_p (s : state) c x : state_inv_p s -> nth_error (ctxs HT s) c = Some x -> ctx_inv_p x.
Proof. intros Hs Hn. unfold state_inv_p in Hs. rewrite Forall_forall in Hs. apply Hs. eapply nth_error_In; eauto. Qed.

Lemma conf_in_combine conf kv mode :
  conf_in K conf -> (forall k, In k (keys kv) -> In k K) -> conf_in K (combine_configs conf kv mode).
Proof.
  intros Hc Hkv k Hk. unfold combine_configs in Hk.
  assert (G : has_key k conf = true \/ has_key k kv = true).
  { destruct (mode =? 0); [rewrite has_key_dupdate in Hk; apply orb_true_iff in Hk; tauto|].
    destruct (mode =? 1); [rewrite has_key_dupdate in Hk; apply orb_true_iff in Hk; tauto|]. now right. }
  destruct G as [G|G]; [now apply Hc|]. apply Hkv. now apply has_key_spec.
Qed.

Ltac cip := unfold ctx_inv_p, with_cache; cbn [creg cconf ccache]; split; [assumption|first [assumption|exact I]].

Lemma step_inv_p (s : state) (o : op) :
  (forall k, In k (classes_of [o]) -> In k U) -> (forall k, In k (config_keys_of [o]) -> In k K) ->
  state_inv_p s -> state_inv_p (fst (step HT hash heqb false s o)).
Proof.
  intros HoU HoK Hs. destruct o as [c mode kv|c k|c ff fo|c| |c run dt|c run dt|c run dt|c run dt]; cbn [step].
  - destruct (nth_error (ctxs HT s) c) as [x|] eqn:E; [|exact Hs]. cbn [fst].
    apply Forall_set_ctx_p; [exact Hs|]. destruct (nth_inv_p s c x Hs E) as ((A & B & C & D) & F).
    assert (G : good (creg HT x) (combine_configs (cconf HT x) kv mode)).
    { repeat (split; [assumption|]). apply conf_in_combine; [exact D|].
      intros k Hk. apply HoK. unfold config_keys_of. cbn [flat_map]. rewrite app_nil_r. exact Hk. }
    cip.
  - destruct (nth_error (ctxs HT s) c) as [x|] eqn:E; [|exact Hs].
    destruct (nth_inv_p s c x Hs E) as ((A & B & C & D) & F).
    unfold register. cbn [fst]. apply Forall_set_ctx_p; [exact Hs|].
    assert (Hk : In k U) by (apply HoU; cbn; now left).
    destruct (register_reg_ok U (creg HT x) k HU B Hk A) as (A' & B').
    assert (G : good (register_core (creg HT x) k) (cconf HT x)).
    { split; [exact A'|]. split; [exact B'|]. split; [now apply register_core_NoDup|exact D]. }
    cip.
  - destruct (nth_error (ctxs HT s) c) as [x|] eqn:E; [|exact Hs]. cbn [fst].
    apply Forall_set_ctx_p; [exact Hs|]. destruct (nth_inv_p s c x Hs E) as (G & F). cip.
  - destruct (nth_error (ctxs HT s) c) as [x|] eqn:E; [|exact Hs]. cbn [fst].
    unfold state_inv_p. cbn [ctxs]. apply Forall_app. split; [exact Hs|]. constructor; [|constructor].
    destruct (nth_inv_p s c x Hs E) as (G & F). cip.
  - cbn [fst]. unfold state_inv_p. cbn [ctxs]. apply Forall_app. split; [exact Hs|]. constructor; [|constructor].
    split; [|exact I]. cbn [creg cconf]. split; [apply reg_ok_nil|]. split; [intros dt0 c0 H0; discriminate H0|].
    split; [constructor|intros k Hk; discriminate Hk].
  - destruct (nth_error (ctxs HT s) c) as [x|] eqn:E; [|exact Hs].
    destruct (nth_inv_p s c x Hs E) as (G & F).
    unfold ctx_plugin. destruct (get_plugin _ _ _ _ _ _ _ _) as [[i ca]|] eqn:Q; [|exact Hs]. cbn [fst].
    apply Forall_set_ctx_p; [exact Hs|].
    destruct (get_plugin_inv_p _ _ _ _ _ _ _ G F Q) as (F' & _). cip.
  - destruct (nth_error (ctxs HT s) c) as [x|] eqn:E; [|exact Hs].
    destruct (nth_inv_p s c x Hs E) as (G & F).
    unfold ctx_plugin. destruct (get_plugin _ _ _ _ _ _ _ _) as [[i ca]|] eqn:Q; [|exact Hs].
    destruct (get_plugin_inv_p _ _ _ _ _ _ _ G F Q) as (F' & _).
    destruct (find_ff _ _); cbn [fst]; apply Forall_set_ctx_p; try exact Hs; cip.
  - destruct (nth_error (ctxs HT s) c) as [x|] eqn:E; [|exact Hs].
    destruct (nth_inv_p s c x Hs E) as (G & F).
    unfold ctx_plugins. destruct (get_plugins _ _ _ _ _ _ _ _ _ _) as [[ps ca]|] eqn:Q; [|exact Hs].
    pose proof (get_plugins_inv_p _ _ _ G _ _ _ _ _ _ F Q) as F'.
    assert (S1 : state_inv_p (set_ctx HT s c (with_cache HT x ca))) by (apply Forall_set_ctx_p; [exact Hs|cip]).
    destruct (find_ff _ _); [|exact S1].
    destruct (get_data _ _ _ _ _ _ _ _ _ _ _) as [[[d st'] amb]|]; [|exact S1]. exact S1.
  - destruct (nth_error (ctxs HT s) c) as [x|] eqn:E; [|exact Hs].
    destruct (nth_inv_p s c x Hs E) as (G & F).
    unfold ctx_plugins. destruct (get_plugins _ _ _ _ _ _ _ _ _ _) as [[ps ca]|] eqn:Q; [|exact Hs].
    pose proof (get_plugins_inv_p _ _ _ G _ _ _ _ _ _ F Q) as F'.
    assert (S1 : state_inv_p (set_ctx HT s c (with_cache HT x ca))) by (apply Forall_set_ctx_p; [exact Hs|cip]).
    destruct (find_ff _ _); [|exact S1].
    destruct (get_data _ _ _ _ _ _ _ _ _ _ _) as [[[d st'] amb]|]; [|exact S1]. exact S1.
Qed.

Lemma run_inv_p : forall ops (s : state),
  (forall k, In k (classes_of ops) -> In k U) -> (forall k, In k (config_keys_of ops) -> In k K) ->
  state_inv_p s -> state_inv_p (fst (run_ops HT hash heqb false s ops)).
Proof.
  induction ops as [|o ops IH]; intros s HoU HoK Hs; cbn [run_ops]; [exact Hs|].
  destruct (step HT hash heqb false s o) as [s1 ob] eqn:E1.
  destruct (run_ops HT hash heqb false s1 ops) as [s2 obs] eqn:E2. cbn [fst].
  assert (S1 : state_inv_p s1).
  { pose proof (step_inv_p s o) as G. rewrite E1 in G. apply G; [| |exact Hs].
    - intros k Hk. apply HoU. unfold classes_of in *. cbn [flat_map] in *. rewrite app_nil_r in Hk. apply in_app_iff. now left.
    - intros k Hk. apply HoK. unfold config_keys_of in *. cbn [flat_map] in *. rewrite app_nil_r in Hk. apply in_app_iff. now left. }
  pose proof (IH s1) as G. rewrite E2 in G. apply G; [| |exact S1].
  - intros k Hk. apply HoU. unfold classes_of in *. cbn [flat_map]. apply in_app_iff. now right.
  - intros k Hk. apply HoK. unfold config_keys_of in *. cbn [flat_map]. apply in_app_iff. now right.
Qed.

Lemma init_inv_p : state_inv_p (init_state HT).
Proof.
  constructor; [|constructor]. split; [|exact I]. cbn [creg cconf].
  split; [apply reg_ok_nil|]. split; [intros dt0 c0 H0; discriminate H0|]. split; [constructor|intros k Hk; discriminate Hk].
Qed.

End Pinned.

(* cache transparency on the pinned tree for histories that satisfy H1 and H2 *)
Definition no_conflicting_reregistration (ops : list op) : Prop :=
  forall c1 c2 d, In c1 (classes_of ops) -> In c2 (classes_of ops) -> In d (cprovides c1) -> In d (cprovides c2) ->
    cversion c1 = cversion c2 -> ccomp c1 = ccomp c2 -> ctimeout c1 = ctimeout c2 -> cls_equiv c1 c2.

Definition no_config_key_is_data_type (ops : list op) : Prop :=
  forall k c, In k (config_keys_of ops) -> In c (classes_of ops) -> ~ In k (cprovides c).

Theorem cache_transparent_pinned_partial (HT : Type) (hash : list Z -> HT) (heqb : HT -> HT -> bool) :
  (forall a b, hash a = hash b -> a = b) -> (forall a b, heqb a b = true <-> a = b) ->
  forall ops, cid_ok (classes_of ops) -> no_conflicting_reregistration ops -> no_config_key_is_data_type ops ->
  forall c x dt, nth_error (ctxs HT (fst (run_ops HT hash heqb false (init_state HT) ops))) c = Some x ->
  transparent_at HT hash heqb false x dt.
Proof.
  intros hash_inj heqb_spec ops HU H1 H2 c x dt Hn.
  pose proof (run_inv_p (classes_of ops) (config_keys_of ops) H1 H2 HT hash heqb hash_inj heqb_spec HU ops (init_state HT)
                (fun k H => H) (fun k H => H) (init_inv_p (classes_of ops) (config_keys_of ops) HT hash)) as Hinv.
  destruct (nth_inv_p (classes_of ops) (config_keys_of ops) HT hash _ c x Hinv Hn) as (G & F).
  pose proof G as (A & _).
  split.
  - intros i ca H. unfold ctx_plugin in H.
    destruct (get_plugin_inv_p (classes_of ops) (config_keys_of ops) H1 H2 HT hash heqb hash_inj heqb_spec _ _ _ _ _ _ _ G F H)
      as (_ & (ND & n & i' & Hs & He)).
    exists n, i'. split; [exact Hs|]. split; [exact He|]. unfold lineage_hash. f_equal.
    apply lin_equiv_canon. now destruct He as (_ & _ & Hl).
  - intros i' Hs. unfold ctx_plugin.
    eapply (get_plugin_complete HT hash heqb heqb_spec); eauto.
    eapply inv_cs_p; eauto.
Qed.
