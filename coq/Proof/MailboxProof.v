(* Invariants of the mailbox transition system (Model/Mailbox.v), proved for every schedule.

   Part 1 (this file, general: any source, any numbering, any configuration):
     - reachability and the induction principle over schedules
     - capacity:        length (box st) <= cap in every reachable state
     - no lost wake-up: a waiting thread whose woken flag is clear has a false wait predicate
   Part 2 (MailboxInOrder.v): delivery safety and deadlock freedom for implicitly numbered messages. *)
From SV Require Import Base.Prelude Model.Mailbox Proof.MailboxFacts.
Local Open Scope nat_scope.

(* ---------- tactics ---------- *)
Ltac simp_st :=
  cbn [box n_sent closed killed fkilled rds s_pc s_woken src k_pc w_done
       set_rds set_box set_spc set_swoken set_src set_closed set_killed set_fkilled set_kpc set_wdone push_box
       r_nread r_waiting r_drive r_pc r_woken r_log
       rd_set_pc rd_set_woken rd_set_waiting rd_set_nread rd_log] in *.

(* ---------- reachability ---------- *)
Lemma run_app cfg st s1 s2 :
  run cfg st (s1 ++ s2) = match run cfg st s1 with Some st' => run cfg st' s2 | None => None end.
Proof.
  revert st; induction s1 as [|t s1 IH]; intros st; cbn [run app]; auto.
  destruct (step cfg st t); auto.
Qed.

(* induction over schedules with an invariant *)
Lemma run_invariant cfg (P : state -> Prop) :
  (forall st t st', P st -> step cfg st t = Some st' -> P st') ->
  forall sched st st', P st -> run cfg st sched = Some st' -> P st'.
Proof.
  intros Hstep sched; induction sched as [|t s IH]; intros st st' HP Hrun; cbn [run] in Hrun.
  - inversion Hrun; subst; auto.
  - destruct (step cfg st t) eqn:E; try discriminate. eauto.
Qed.

(* shape of one step *)
Lemma step_inv cfg st t st' :
  step cfg st t = Some st' ->
  match t with
  | TS => sender_enabled st = true /\ st' = sender_step cfg st
  | TR i => exists r, nth_error (rds st) i = Some r /\ reader_enabled st r = true /\ st' = reader_step cfg st i r
  | TK => exists up, k_pc st = Some up /\ st' = set_kpc (kill_region st up) None
  | TW k => exists d, nth_error (w_done st) k = Some d /\ d = false /\ st' = set_wdone st (upd k true (w_done st))
  end.
Proof.
  unfold step. destruct (enabled st t) eqn:En; try discriminate.
  destruct t; cbn [enabled] in En.
  - intros H; inversion H; auto.
  - destruct (nth_error (rds st) i) eqn:E; try discriminate. intros H; inversion H; eauto.
  - destruct (k_pc st) eqn:E; try discriminate. intros H; inversion H; eauto.
  - destruct (nth_error (w_done st) k) eqn:E; try discriminate. intros H; inversion H.
    exists b. destruct b; try discriminate. auto.
Qed.

(* ---------- small facts about the notification helpers ---------- *)
Lemma box_wake_readers st : box (wake_readers st) = box st. Proof. reflexivity. Qed.
Lemma box_wake_writer st : box (wake_writer st) = box st.
Proof. unfold wake_writer. destruct (s_pc st); reflexivity. Qed.
Lemma box_wake_gate st : box (wake_gate st) = box st.
Proof. unfold wake_gate. destruct (s_pc st); reflexivity. Qed.
Lemma box_maybe_wake_gate cfg st : box (maybe_wake_gate cfg st) = box st.
Proof. unfold maybe_wake_gate. destruct (c_lazy cfg && can_fetch st); auto using box_wake_gate. Qed.
Lemma box_kill_region st up : box (kill_region st up) = box st.
Proof.
  unfold kill_region. destruct up; simp_st.
  - destruct (killed st); auto. rewrite box_wake_gate, box_wake_writer. reflexivity.
  - destruct (killed st); auto. rewrite box_wake_gate, box_wake_writer. reflexivity.
Qed.
Lemma box_produce st : box (produce st) = box st.
Proof. unfold produce. destruct (src st) as [|[num m] rest]; reflexivity. Qed.
Lemma box_after_send cfg st c : box (after_send cfg st c) = box st.
Proof. unfold after_send. destruct c; auto. destruct (c_lazy cfg); auto using box_produce. Qed.
Lemma box_send_raises st c r : box (send_raises st c r) = box st.
Proof. unfold send_raises. destruct c; reflexivity. Qed.

(* ---------- capacity ---------- *)
Definition cap_ok (cfg : config) (st : state) : Prop :=
  match c_cap cfg with Some c => length (box st) <= c | None => True end.

Lemma room_true cfg st c : c_cap cfg = Some c -> room cfg st = true -> length (box st) < c.
Proof. unfold room. intros ->. intros H. apply Nat.ltb_lt in H. exact H. Qed.

Lemma cap_ok_do_push cfg st k m closing :
  cap_ok cfg st -> room cfg st = true -> cap_ok cfg (do_push cfg st k m closing).
Proof.
  unfold cap_ok, do_push. destruct (c_cap cfg) as [c|] eqn:Ec; auto.
  intros H Hr. rewrite box_after_send, box_wake_readers. simp_st.
  rewrite insert_length. pose proof (room_true _ _ _ Ec Hr). lia.
Qed.

Lemma cap_ok_box cfg st st' : length (box st') <= length (box st) -> cap_ok cfg st -> cap_ok cfg st'.
Proof. unfold cap_ok. destruct (c_cap cfg); auto. lia. Qed.

Lemma box_deliver_upd st i r' : box (set_rds st (upd i r' (rds st))) = box st.
Proof. reflexivity. Qed.

Lemma cap_ok_grab cfg st i r n : cap_ok cfg st -> cap_ok cfg (grab cfg st i r n).
Proof.
  intros H. unfold grab. destruct (killed st); [exact H|].
  destruct (take_from (length (box st)) (box st) n) as [[ms n'] last].
  eapply cap_ok_box; [|exact H].
  cbn [box set_rds]. rewrite box_wake_writer, box_maybe_wake_gate. simp_st. apply gc_length.
Qed.

Lemma cap_ok_step cfg st t st' : cap_ok cfg st -> step cfg st t = Some st' -> cap_ok cfg st'.
Proof.
  intros H Hs. apply step_inv in Hs. destruct t.
  - destruct Hs as [_ ->]. unfold sender_step.
    destruct (s_pc st) eqn:Epc; auto.
    + (* gate *) unfold gate_enter. destruct (can_fetch st); eapply cap_ok_box; try exact H;
        rewrite ?box_produce; auto.
    + unfold gate_resume. destruct (can_fetch st); eapply cap_ok_box; try exact H; rewrite ?box_produce; auto.
    + unfold send_enter.
      destruct (closed st); [eapply cap_ok_box; [|exact H]; rewrite box_send_raises; auto|].
      destruct (fkilled st); [eapply cap_ok_box; [|exact H]; rewrite box_send_raises; auto|].
      destruct (killed st) eqn:Ek; [eapply cap_ok_box; [|exact H]; rewrite box_after_send; auto|].
      destruct (_ <? _); [eapply cap_ok_box; [|exact H]; rewrite box_send_raises; auto|].
      unfold can_write. rewrite Ek, orb_false_r.
      destruct (room cfg st) eqn:Er; [apply cap_ok_do_push; auto|].
      eapply cap_ok_box; [|exact H]; auto.
    + unfold send_resume. unfold can_write.
      destruct (killed st) eqn:Ek.
      * rewrite orb_true_r. destruct (fkilled st); eapply cap_ok_box; try exact H;
          rewrite ?box_send_raises, ?box_after_send; auto.
      * rewrite orb_false_r. destruct (room cfg st) eqn:Er; [apply cap_ok_do_push; auto|].
        eapply cap_ok_box; [|exact H]; auto.
    + eapply cap_ok_box; [|exact H]. cbn [box set_spc]. rewrite box_kill_region. auto.
  - destruct Hs as (r & Hr & _ & ->). unfold reader_step.
    destruct (r_pc r); auto.
    + unfold read_enter. destruct (next_ready st n); [apply cap_ok_grab; auto|].
      eapply cap_ok_box; [|exact H]. rewrite box_maybe_wake_gate. auto.
    + unfold read_resume. destruct (next_ready st n); [apply cap_ok_grab; auto|]. exact H.
  - destruct Hs as (up & _ & ->). eapply cap_ok_box; [|exact H]. cbn [box set_kpc]. rewrite box_kill_region. auto.
  - destruct Hs as (d & _ & _ & ->). exact H.
Qed.

Lemma cap_ok_init cfg drives source killer nfut : cap_ok cfg (init cfg drives source killer nfut).
Proof.
  unfold cap_ok, init. destruct (c_cap cfg); auto.
  destruct (c_lazy cfg); [cbn; lia|]. rewrite box_produce. cbn; lia.
Qed.

Theorem mailbox_capacity_gen cfg drives source killer nfut sched st c :
  c_cap cfg = Some c ->
  run cfg (init cfg drives source killer nfut) sched = Some st ->
  length (box st) <= c.
Proof.
  intros Hc Hrun.
  assert (H : cap_ok cfg st).
  { eapply run_invariant; [| |exact Hrun]; [intros; eapply cap_ok_step; eauto|apply cap_ok_init]. }
  unfold cap_ok in H. rewrite Hc in H. exact H.
Qed.

(* ---------- projections through the notification helpers ---------- *)
Ltac proj_tac :=
  intros; unfold maybe_wake_gate; unfold wake_writer, wake_gate, wake_readers;
  repeat match goal with |- context [match ?x with _ => _ end] => destruct x eqn:? end;
  simp_st; try reflexivity; try congruence.

Lemma rds_wake_writer st : rds (wake_writer st) = rds st. Proof. proj_tac. Qed.
Lemma rds_wake_gate st : rds (wake_gate st) = rds st. Proof. proj_tac. Qed.
Lemma rds_maybe_wake_gate cfg st : rds (maybe_wake_gate cfg st) = rds st. Proof. proj_tac. Qed.
Lemma killed_wake_writer st : killed (wake_writer st) = killed st. Proof. proj_tac. Qed.
Lemma killed_wake_gate st : killed (wake_gate st) = killed st. Proof. proj_tac. Qed.
Lemma killed_maybe_wake_gate cfg st : killed (maybe_wake_gate cfg st) = killed st. Proof. proj_tac. Qed.
Lemma spc_wake_writer st : s_pc (wake_writer st) = s_pc st. Proof. proj_tac. Qed.
Lemma spc_wake_gate st : s_pc (wake_gate st) = s_pc st. Proof. proj_tac. Qed.
Lemma spc_maybe_wake_gate cfg st : s_pc (maybe_wake_gate cfg st) = s_pc st. Proof. proj_tac. Qed.
Lemma nsent_wake_writer st : n_sent (wake_writer st) = n_sent st. Proof. proj_tac. Qed.
Lemma nsent_wake_gate st : n_sent (wake_gate st) = n_sent st. Proof. proj_tac. Qed.
Lemma nsent_maybe_wake_gate cfg st : n_sent (maybe_wake_gate cfg st) = n_sent st. Proof. proj_tac. Qed.
Lemma wdone_wake_writer st : w_done (wake_writer st) = w_done st. Proof. proj_tac. Qed.
Lemma wdone_maybe_wake_gate cfg st : w_done (maybe_wake_gate cfg st) = w_done st. Proof. proj_tac. Qed.

(* the sender's woken flag: only ever raised by the helpers, and raised when it waits there *)
Lemma swoken_wake_writer st k m c : s_pc st = SSendWait k m c -> s_woken (wake_writer st) = true.
Proof. intros H. unfold wake_writer. rewrite H. reflexivity. Qed.
Lemma swoken_wake_gate st : s_pc st = SGateWait -> s_woken (wake_gate st) = true.
Proof. intros H. unfold wake_gate. rewrite H. reflexivity. Qed.
Lemma swoken_wake_writer_mono st : s_woken st = true -> s_woken (wake_writer st) = true.
Proof. unfold wake_writer. destruct (s_pc st); auto. Qed.
Lemma swoken_wake_gate_mono st : s_woken st = true -> s_woken (wake_gate st) = true.
Proof. unfold wake_gate. destruct (s_pc st); auto. Qed.
Lemma swoken_wake_writer_gate st : s_pc st = SGateWait -> s_woken (wake_writer st) = s_woken st.
Proof. intros H. unfold wake_writer. rewrite H. reflexivity. Qed.
Lemma swoken_wake_gate_send st k m c : s_pc st = SSendWait k m c -> s_woken (wake_gate st) = s_woken st.
Proof. intros H. unfold wake_gate. rewrite H. reflexivity. Qed.

(* ---------- can_fetch depends only on killed, box, and the waiting/drive fields ---------- *)
Lemma existsb_upd_same {A} (f : A -> bool) i r r' l :
  nth_error l i = Some r -> f r' = f r -> existsb f (upd i r' l) = existsb f l.
Proof.
  revert i; induction l as [|h t IH]; intros [|i] H E; cbn [nth_error upd existsb] in *; try discriminate.
  - inversion H; subst. now rewrite E.
  - now rewrite (IH _ H E).
Qed.

Lemma existsb_map_same {A} (f : A -> bool) (g : A -> A) l :
  (forall x, f (g x) = f x) -> existsb f (map g l) = existsb f l.
Proof. intros E. induction l as [|h t IH]; cbn [map existsb]; auto. now rewrite E, IH. Qed.

Definition cf_view (st : state) := (killed st, box st, rds st).

(* can_fetch as a function of what it reads: killed, the box, the waiting/drive fields *)
Definition wb (b : list (nat * msg)) (r : reader) : bool :=
  match r_waiting r with Some x => has_msg b x | None => false end.
Definition cf (k : bool) (b : list (nat * msg)) (l : list reader) : bool :=
  if k then true else if existsb (wb b) l then false else existsb drives l.

Lemma can_fetch_cf st : can_fetch st = cf (killed st) (box st) (rds st).
Proof. reflexivity. Qed.

Lemma can_fetch_view st st' :
  killed st' = killed st -> box st' = box st -> rds st' = rds st -> can_fetch st' = can_fetch st.
Proof. rewrite !can_fetch_cf. intros -> -> ->. reflexivity. Qed.

Lemma can_fetch_upd st st' i r r' :
  killed st' = killed st -> box st' = box st ->
  nth_error (rds st) i = Some r -> rds st' = upd i r' (rds st) ->
  r_waiting r' = r_waiting r -> r_drive r' = r_drive r ->
  can_fetch st' = can_fetch st.
Proof.
  rewrite !can_fetch_cf. intros -> -> Hi -> Hw Hd. unfold cf.
  destruct (killed st); auto.
  assert (E1 : existsb (wb (box st)) (upd i r' (rds st)) = existsb (wb (box st)) (rds st)).
  { eapply existsb_upd_same; eauto. unfold wb. now rewrite Hw. }
  assert (E2 : existsb drives (upd i r' (rds st)) = existsb drives (rds st)).
  { eapply existsb_upd_same; eauto. unfold drives. now rewrite Hw, Hd. }
  rewrite E1, E2. reflexivity.
Qed.

Lemma can_fetch_wake_readers st : can_fetch (wake_readers st) = can_fetch st.
Proof.
  rewrite !can_fetch_cf. unfold wake_readers, cf. simp_st. destruct (killed st); auto.
  assert (E1 : existsb (wb (box st)) (map (fun r => rd_set_woken r true) (rds st))
               = existsb (wb (box st)) (rds st)).
  { apply existsb_map_same. reflexivity. }
  assert (E2 : existsb drives (map (fun r => rd_set_woken r true) (rds st)) = existsb drives (rds st)).
  { apply existsb_map_same. reflexivity. }
  rewrite E1, E2. reflexivity.
Qed.

(* ---------- deliver ---------- *)
Lemma deliver_fields wd r ms n' last :
  let r' := deliver wd r ms n' last in
  r_nread r' = r_nread r /\ r_waiting r' = r_waiting r /\ r_drive r' = r_drive r /\ r_woken r' = r_woken r.
Proof.
  revert r; induction ms as [|m t IH]; intros r; cbn [deliver].
  - destruct last; cbn; auto.
  - destruct m.
    + specialize (IH (rd_log r v)). cbn in IH. exact IH.
    + destruct (nth k wd false).
      * specialize (IH (rd_log r v)). cbn in IH. exact IH.
      * cbn; auto.
    + destruct last; cbn; auto.
Qed.

Lemma deliver_not_wait wd r ms n' last n : r_pc (deliver wd r ms n' last) <> RWait n.
Proof.
  revert r; induction ms as [|m t IH]; intros r; cbn [deliver].
  - destruct last; cbn; discriminate.
  - destruct m; auto.
    + destruct (nth k wd false); auto. cbn; discriminate.
    + destruct last; cbn; discriminate.
Qed.

(* ---------- no lost wake-up ---------- *)
Definition WR (st : state) : Prop :=
  forall i r n, nth_error (rds st) i = Some r -> r_pc r = RWait n -> r_woken r = false -> next_ready st n = false.
Definition WS (cfg : config) (st : state) : Prop :=
  forall k m c, s_pc st = SSendWait k m c -> s_woken st = false -> can_write cfg st = false.
Definition WG (st : state) : Prop :=
  s_pc st = SGateWait -> s_woken st = false -> can_fetch st = false.
Definition GL (cfg : config) (st : state) : Prop :=
  (s_pc st = SGate \/ s_pc st = SGateWait) -> c_lazy cfg = true.

Definition W (cfg : config) (st : state) : Prop := WR st /\ WS cfg st /\ WG st /\ GL cfg st.

(* WR is preserved when readers and the box/killed view do not change *)
Lemma WR_same st st' : rds st' = rds st -> box st' = box st -> killed st' = killed st -> WR st -> WR st'.
Proof. unfold WR, next_ready. intros -> -> ->. auto. Qed.

Lemma WR_all_woken st :
  (forall i r, nth_error (rds st) i = Some r -> r_woken r = true) -> WR st.
Proof. intros H i r n Hi _ Hw. rewrite (H _ _ Hi) in Hw. discriminate. Qed.

Lemma wake_readers_woken st i r : nth_error (rds (wake_readers st)) i = Some r -> r_woken r = true.
Proof.
  unfold wake_readers. simp_st. intros H. apply nth_error_map_some in H. destruct H as (x & _ & ->). reflexivity.
Qed.

Lemma WR_kill_region st up : WR st -> WR (kill_region st up).
Proof.
  intros H. unfold kill_region.
  assert (E : forall s, killed s = true -> WR s -> WR s) by auto.
  destruct up; simp_st.
  - destruct (killed st) eqn:Ek.
    + eapply WR_same; [| | |exact H]; reflexivity.
    + apply WR_all_woken. intros i r. rewrite rds_wake_gate, rds_wake_writer. apply wake_readers_woken.
  - destruct (killed st) eqn:Ek; auto.
    apply WR_all_woken. intros i r. rewrite rds_wake_gate, rds_wake_writer. apply wake_readers_woken.
Qed.

Lemma killed_kill_region st up : killed (kill_region st up) = true.
Proof.
  unfold kill_region. destruct up; simp_st.
  - destruct (killed st) eqn:Ek; [exact Ek|]. rewrite killed_wake_gate, killed_wake_writer. reflexivity.
  - destruct (killed st) eqn:Ek; [exact Ek|]. rewrite killed_wake_gate, killed_wake_writer. reflexivity.
Qed.

Lemma spc_kill_region st up : s_pc (kill_region st up) = s_pc st.
Proof.
  unfold kill_region. destruct up; simp_st; destruct (killed st); auto;
    rewrite spc_wake_gate, spc_wake_writer; reflexivity.
Qed.

Lemma can_write_killed cfg st : killed st = true -> can_write cfg st = true.
Proof. unfold can_write. intros ->. apply orb_true_r. Qed.
Lemma can_fetch_killed st : killed st = true -> can_fetch st = true.
Proof. unfold can_fetch. intros ->. reflexivity. Qed.


Lemma swoken_kill_region st up :
  killed st = false -> (s_pc st = SGateWait \/ exists k m c, s_pc st = SSendWait k m c) ->
  s_woken (kill_region st up) = true.
Proof.
  intros Hk Hpc. unfold kill_region.
  assert (E : s_woken (wake_gate (wake_writer (wake_readers (set_killed (if up then set_fkilled st true else st) true)))) = true).
  { destruct Hpc as [Hpc|(k & m & c & Hpc)].
    - apply swoken_wake_gate. rewrite spc_wake_writer. destruct up; exact Hpc.
    - apply swoken_wake_gate_mono. eapply swoken_wake_writer. destruct up; exact Hpc. }
  destruct up; simp_st; rewrite Hk; exact E.
Qed.

Lemma kill_region_killed_same st up :
  killed st = true -> s_woken (kill_region st up) = s_woken st /\ rds (kill_region st up) = rds st.
Proof. intros Hk. unfold kill_region. destruct up; simp_st; rewrite Hk; auto. Qed.

Lemma W_kill cfg st up : W cfg st -> W cfg (kill_region st up).
Proof.
  intros (HR & HS & HG & HL). repeat split.
  - apply WR_kill_region; auto.
  - intros k m c Hpc Hw. rewrite spc_kill_region in Hpc. exfalso.
    destruct (killed st) eqn:Ek.
    + destruct (kill_region_killed_same st up Ek) as [E _]. rewrite E in Hw.
      specialize (HS _ _ _ Hpc Hw). rewrite can_write_killed in HS; auto. discriminate.
    + rewrite swoken_kill_region in Hw; eauto. discriminate.
  - intros Hpc Hw. rewrite spc_kill_region in Hpc. exfalso.
    destruct (killed st) eqn:Ek.
    + destruct (kill_region_killed_same st up Ek) as [E _]. rewrite E in Hw.
      specialize (HG Hpc Hw). rewrite can_fetch_killed in HG; auto. discriminate.
    + rewrite swoken_kill_region in Hw; eauto. discriminate.
  - unfold GL in *. rewrite spc_kill_region. exact HL.
Qed.

(* W only looks at rds, box, killed, s_pc, s_woken *)
Lemma W_same cfg st st' :
  rds st' = rds st -> box st' = box st -> killed st' = killed st -> s_pc st' = s_pc st ->
  s_woken st' = s_woken st -> W cfg st -> W cfg st'.
Proof.
  intros E1 E2 E3 E4 E5 (HR & HS & HG & HL). repeat split.
  - eapply WR_same; eauto.
  - unfold WS, can_write, room in *. rewrite E2, E3, E4, E5. exact HS.
  - unfold WG in *. rewrite E4, E5. rewrite (can_fetch_view st st'); auto.
  - unfold GL in *. rewrite E4. exact HL.
Qed.

Definition plain_pc (x : spc) : Prop :=
  match x with SGate | SGateWait | SSendWait _ _ _ => False | _ => True end.

(* moving the sender to a pc that is neither a wait nor the gate: only WR matters *)
Lemma W_plain cfg st st' :
  rds st' = rds st -> box st' = box st -> killed st' = killed st -> plain_pc (s_pc st') ->
  WR st -> W cfg st'.
Proof.
  intros E1 E2 E3 Hp HR. repeat split.
  - eapply WR_same; eauto.
  - intros k m c Hpc. rewrite Hpc in Hp. destruct Hp.
  - intros Hpc. rewrite Hpc in Hp. destruct Hp.
  - intros [Hpc|Hpc]; rewrite Hpc in Hp; destruct Hp.
Qed.

Lemma produce_view st :
  rds (produce st) = rds st /\ box (produce st) = box st /\ killed (produce st) = killed st /\
  plain_pc (s_pc (produce st)).
Proof. unfold produce. destruct (src st) as [|[num m] rest]; cbn; auto. Qed.

Lemma W_produce cfg st : WR st -> W cfg (produce st).
Proof. intros H. destruct (produce_view st) as (E1 & E2 & E3 & E4). eapply W_plain; eauto. Qed.

Lemma W_gate cfg st : c_lazy cfg = true -> WR st -> W cfg (set_spc st SGate).
Proof.
  intros Hl HR. repeat split.
  - eapply WR_same; [| | |exact HR]; reflexivity.
  - intros k m c Hpc. simp_st. discriminate.
  - intros Hpc. simp_st. discriminate.
  - intros _. exact Hl.
Qed.

Lemma W_after_send cfg st closing : WR st -> W cfg (after_send cfg st closing).
Proof.
  intros H. unfold after_send. destruct closing.
  - eapply W_plain; [| | | |exact H]; cbn; auto.
  - destruct (c_lazy cfg) eqn:El.
    + apply W_gate; auto.
    + apply W_produce; auto.
Qed.

Lemma W_send_raises cfg st c r : WR st -> W cfg (send_raises st c r).
Proof. intros H. unfold send_raises. destruct c; (eapply W_plain; [| | | |exact H]; cbn; auto). Qed.

Lemma W_do_push cfg st k m closing : W cfg (do_push cfg st k m closing).
Proof. unfold do_push. apply W_after_send. apply WR_all_woken. apply wake_readers_woken. Qed.

Lemma W_sender_step cfg st : W cfg st -> sender_enabled st = true -> W cfg (sender_step cfg st).
Proof.
  intros HW Hen. pose proof HW as (HR & HS & HG & HL).
  unfold sender_step. unfold sender_enabled in Hen.
  destruct (s_pc st) eqn:Epc; auto.
  - (* SGate *)
    unfold gate_enter. destruct (can_fetch st) eqn:Ecf; [apply W_produce; auto|].
    repeat split.
    + eapply WR_same; [| | |exact HR]; reflexivity.
    + intros k m c Hpc. simp_st. discriminate.
    + intros _ _. rewrite <- Ecf. apply can_fetch_view; reflexivity.
    + intros _. apply HL. auto.
  - (* SGateWait *)
    unfold gate_resume. destruct (can_fetch st) eqn:Ecf; [apply W_produce; auto|].
    repeat split.
    + eapply WR_same; [| | |exact HR]; reflexivity.
    + intros k m c Hpc. simp_st. congruence.
    + intros _ _. rewrite <- Ecf. apply can_fetch_view; reflexivity.
    + intros _. apply HL. auto.
  - (* SSend *)
    unfold send_enter.
    destruct (closed st); [apply W_send_raises; auto|].
    destruct (fkilled st); [apply W_send_raises; auto|].
    destruct (killed st) eqn:Ek; [apply W_after_send; auto|].
    destruct (_ <? _); [apply W_send_raises; auto|].
    destruct (can_write cfg st) eqn:Ecw; [apply W_do_push|].
    repeat split.
    + eapply WR_same; [| | |exact HR]; reflexivity.
    + intros k' m' c' _ _. rewrite <- Ecw. unfold can_write, room. reflexivity.
    + intros Hpc. simp_st. discriminate.
    + intros [Hpc|Hpc]; simp_st; discriminate.
  - (* SSendWait *)
    unfold send_resume.
    destruct (can_write cfg st) eqn:Ecw.
    + destruct (killed st); [|apply W_do_push].
      destruct (fkilled st); [apply W_send_raises; auto|apply W_after_send; auto].
    + repeat split.
      * eapply WR_same; [| | |exact HR]; reflexivity.
      * intros k' m' c' _ _. rewrite <- Ecw. unfold can_write, room. reflexivity.
      * intros Hpc. simp_st. congruence.
      * intros [Hpc|Hpc]; simp_st; congruence.
  - (* SKill *)
    pose proof (W_kill cfg st true HW) as (HR' & _).
    eapply W_plain; [| | | |exact HR']; cbn; auto. destruct reraise; exact I.
Qed.

(* ---------- reader steps ---------- *)
Lemma upd_upd {A} i (x y : A) l : upd i x (upd i y l) = upd i x l.
Proof. revert i; induction l as [|h t IH]; intros [|i]; cbn [upd]; auto. now rewrite IH. Qed.

Lemma WR_upd st st' i r' :
  WR st -> rds st' = upd i r' (rds st) ->
  (forall n, r_pc r' = RWait n -> r_woken r' = false -> next_ready st' n = false) ->
  (forall n, next_ready st n = false -> next_ready st' n = false) ->
  WR st'.
Proof.
  intros HR E Hi Hmono j x n Hj Hpc Hw. rewrite E in Hj.
  apply nth_error_upd in Hj. destruct Hj as [(-> & -> & _)|(Hne & Hj)].
  - auto.
  - apply Hmono. eapply HR; eauto.
Qed.

Lemma swoken_maybe_gate cfg st :
  s_pc st = SGateWait -> c_lazy cfg = true -> s_woken (maybe_wake_gate cfg st) = false -> can_fetch st = false.
Proof.
  intros Hpc Hl. unfold maybe_wake_gate. rewrite Hl. cbn [andb].
  destruct (can_fetch st); auto. rewrite swoken_wake_gate; auto.
Qed.

Lemma next_ready_gc st st' lo n :
  killed st' = killed st -> box st' = gc lo (box st) -> next_ready st n = false -> next_ready st' n = false.
Proof.
  unfold next_ready. intros -> ->. intros H. apply orb_false_iff in H. destruct H as [H1 H2].
  rewrite H2, orb_false_r. destruct (has_msg (gc lo (box st)) n) eqn:E; auto.
  apply has_msg_gc in E. congruence.
Qed.

Lemma W_grab cfg st i r n :
  W cfg st -> nth_error (rds st) i = Some r -> W cfg (grab cfg st i r n).
Proof.
  intros (HR & HS & HG & HL) Hi. unfold grab.
  destruct (killed st) eqn:Ek.
  - (* MailboxKilled raised *)
    repeat split.
    + eapply WR_upd; [exact HR|reflexivity| |]; cbn; auto. discriminate.
    + intros k m c Hpc Hw. simp_st. rewrite <- (HS _ _ _ Hpc Hw). reflexivity.
    + intros Hpc Hw. simp_st. rewrite <- (HG Hpc Hw).
      eapply can_fetch_upd; [reflexivity|reflexivity|exact Hi|reflexivity| |]; cbn.
      * (* waiting changes from r_waiting r to None: but killed, so can_fetch is true on both sides *)
        exfalso. specialize (HG Hpc Hw). rewrite can_fetch_killed in HG; auto. discriminate.
      * reflexivity.
    + exact HL.
  - destruct (take_from (length (box st)) (box st) n) as [[ms n'] last].
    set (r2 := rd_set_nread (rd_set_waiting r None) n').
    set (st1 := set_rds st (upd i r2 (rds st))).
    set (st2 := set_box st1 (gc (min_nread (rds st1)) (box st1))).
    set (st3 := wake_writer (maybe_wake_gate cfg st2)).
    set (rf := deliver (w_done st3) r2 ms n' last).
    assert (Erds3 : rds st3 = upd i r2 (rds st)).
    { unfold st3. rewrite rds_wake_writer, rds_maybe_wake_gate. reflexivity. }
    assert (Ebox3 : box st3 = gc (min_nread (rds st1)) (box st)).
    { unfold st3. rewrite box_wake_writer, box_maybe_wake_gate. reflexivity. }
    assert (Ek3 : killed st3 = killed st).
    { unfold st3. rewrite killed_wake_writer, killed_maybe_wake_gate. reflexivity. }
    assert (Epc3 : s_pc st3 = s_pc st).
    { unfold st3. rewrite spc_wake_writer, spc_maybe_wake_gate. reflexivity. }
    assert (Hlen : i < length (rds st)) by (apply nth_error_Some; congruence).
    repeat split.
    + eapply (WR_upd st _ i rf); [exact HR| | |].
      * cbn [rds set_rds]. rewrite Erds3, upd_upd. reflexivity.
      * intros n0 Hpc. exfalso. eapply deliver_not_wait; eauto.
      * intros n0. apply (next_ready_gc st _ (min_nread (rds st1))); [exact Ek3|exact Ebox3].
    + intros k m c Hpc Hw. exfalso. simp_st. rewrite Epc3 in Hpc.
      unfold st3 in Hw. erewrite swoken_wake_writer in Hw; [discriminate|].
      rewrite spc_maybe_wake_gate. exact Hpc.
    + intros Hpc Hw. simp_st. rewrite Epc3 in Hpc.
      assert (Hcf2 : can_fetch st2 = false).
      { apply (swoken_maybe_gate cfg); auto.
        unfold st3 in Hw. rewrite swoken_wake_writer_gate in Hw; auto.
        rewrite spc_maybe_wake_gate. exact Hpc. }
      rewrite <- Hcf2.
      destruct (deliver_fields (w_done st3) r2 ms n' last) as (_ & Ew & Ed & _).
      eapply (can_fetch_upd st2 _ i r2 rf).
      * cbn [killed set_rds]. rewrite Ek3. reflexivity.
      * cbn [box set_rds]. rewrite Ebox3. reflexivity.
      * cbn [rds set_box st2 st1 set_rds]. apply nth_error_upd_eq. exact Hlen.
      * cbn [rds set_rds]. rewrite Erds3. cbn [rds set_box st2 st1 set_rds]. rewrite upd_upd. reflexivity.
      * exact Ew.
      * exact Ed.
    + unfold GL. cbn [s_pc set_rds]. rewrite Epc3. exact HL.
Qed.

Lemma W_reader_step cfg st i r :
  W cfg st -> nth_error (rds st) i = Some r -> reader_enabled st r = true -> W cfg (reader_step cfg st i r).
Proof.
  intros HW Hi Hen. pose proof HW as (HR & HS & HG & HL).
  unfold reader_step. destruct (r_pc r) eqn:Epc; auto.
  - (* REnter *)
    unfold read_enter. destruct (next_ready st n) eqn:Enr; [apply W_grab; auto|].
    set (r' := rd_set_woken (rd_set_pc (rd_set_waiting r (Some n)) (RWait n)) false).
    set (st1 := set_rds st (upd i r' (rds st))).
    repeat split.
    + eapply (WR_upd st _ i r'); [exact HR| | |].
      * rewrite rds_maybe_wake_gate. reflexivity.
      * intros n0 Hpc _. cbn in Hpc. inversion Hpc; subst n0.
        unfold next_ready. rewrite box_maybe_wake_gate, killed_maybe_wake_gate. exact Enr.
      * intros n0 H. unfold next_ready. rewrite box_maybe_wake_gate, killed_maybe_wake_gate. exact H.
    + intros k m c Hpc Hw. rewrite spc_maybe_wake_gate in Hpc.
      assert (Hw' : s_woken st = false).
      { unfold maybe_wake_gate in Hw. destruct (c_lazy cfg && can_fetch st1).
        - rewrite (swoken_wake_gate_send _ _ _ _ Hpc) in Hw. exact Hw.
        - exact Hw. }
      rewrite <- (HS _ _ _ Hpc Hw'). unfold can_write, room.
      rewrite box_maybe_wake_gate, killed_maybe_wake_gate. reflexivity.
    + intros Hpc Hw. rewrite spc_maybe_wake_gate in Hpc.
      assert (Hcf : can_fetch st1 = false) by (apply (swoken_maybe_gate cfg); auto; apply HL; auto).
      rewrite <- Hcf. apply can_fetch_view.
      * apply killed_maybe_wake_gate.
      * apply box_maybe_wake_gate.
      * apply rds_maybe_wake_gate.
    + unfold GL. rewrite spc_maybe_wake_gate. exact HL.
  - (* RWait *)
    unfold read_resume. destruct (next_ready st n) eqn:Enr; [apply W_grab; auto|].
    repeat split.
    + eapply (WR_upd st _ i (rd_set_woken r false)); [exact HR|reflexivity| |]; auto.
      intros n0 Hpc _. cbn in Hpc. rewrite Epc in Hpc. inversion Hpc; subst. exact Enr.
    + intros k m c Hpc Hw. simp_st. rewrite <- (HS _ _ _ Hpc Hw). reflexivity.
    + intros Hpc Hw. simp_st. rewrite <- (HG Hpc Hw).
      eapply can_fetch_upd; [reflexivity|reflexivity|exact Hi|reflexivity| |]; reflexivity.
    + exact HL.
  - (* RAwait *)
    set (rf := deliver (w_done st) (rd_log r v) rest n' last).
    destruct (deliver_fields (w_done st) (rd_log r v) rest n' last) as (_ & Ew & Ed & _).
    repeat split.
    + eapply (WR_upd st _ i rf); [exact HR|reflexivity| |]; auto.
      intros n0 Hpc. exfalso. eapply deliver_not_wait; eauto.
    + intros k0 m c Hpc Hw. simp_st. rewrite <- (HS _ _ _ Hpc Hw). reflexivity.
    + intros Hpc Hw. simp_st. rewrite <- (HG Hpc Hw).
      eapply can_fetch_upd; [reflexivity|reflexivity|exact Hi|reflexivity| |]; assumption.
    + exact HL.
Qed.

Lemma W_step cfg st t st' : W cfg st -> step cfg st t = Some st' -> W cfg st'.
Proof.
  intros HW Hs. apply step_inv in Hs. destruct t.
  - destruct Hs as [Hen ->]. apply W_sender_step; auto.
  - destruct Hs as (r & Hr & Hen & ->). apply W_reader_step; auto.
  - destruct Hs as (up & _ & ->). eapply W_same; [| | | | |apply (W_kill cfg st up HW)]; reflexivity.
  - destruct Hs as (d & _ & _ & ->). eapply W_same; [| | | | |exact HW]; reflexivity.
Qed.

Lemma WR_no_waiter st :
  (forall i r, nth_error (rds st) i = Some r -> forall n, r_pc r <> RWait n) -> WR st.
Proof. intros H i r n Hi Hpc. exfalso. eapply H; eauto. Qed.

Lemma W_init cfg drives source killer nfut : W cfg (init cfg drives source killer nfut).
Proof.
  set (st0 := mkState [] 0 false false false (map init_reader drives) SGate false source killer (repeat false nfut)).
  assert (HR : WR st0).
  { apply WR_no_waiter. intros i r Hi n. cbn [rds st0] in Hi.
    apply nth_error_map_some in Hi. destruct Hi as (d & _ & ->). discriminate. }
  unfold init. fold st0. destruct (c_lazy cfg) eqn:El.
  - split; [exact HR|]. split; [|split].
    + intros k m c Hpc. discriminate.
    + intros Hpc. discriminate.
    + intros _. exact El.
  - apply W_produce. exact HR.
Qed.

(* mailbox_no_lost_wakeup, for every source / numbering / configuration *)
Theorem mailbox_no_lost_wakeup_gen cfg drives source killer nfut sched st :
  run cfg (init cfg drives source killer nfut) sched = Some st -> W cfg st.
Proof.
  intros Hrun. eapply run_invariant; [| |exact Hrun]; [intros; eapply W_step; eauto|apply W_init].
Qed.

(* ---------- what a step leaves alone ---------- *)
Definition frame (st st' : state) : Prop :=
  k_pc st' = k_pc st /\ map r_drive (rds st') = map r_drive (rds st) /\ w_done st' = w_done st /\
  killed st' = killed st.

Lemma frame_refl st : frame st st. Proof. repeat split. Qed.
Lemma frame_trans a b c : frame a b -> frame b c -> frame a c.
Proof. intros (A1 & A2 & A3 & A4) (B1 & B2 & B3 & B4). repeat split; congruence. Qed.

Lemma map_drive_woken l w : map r_drive (map (fun r => rd_set_woken r w) l) = map r_drive l.
Proof. rewrite map_map. reflexivity. Qed.

Lemma frame_wake_readers st : frame st (wake_readers st).
Proof. unfold wake_readers. repeat split. simp_st. apply map_drive_woken. Qed.
Lemma frame_wake_writer st : frame st (wake_writer st).
Proof. unfold wake_writer. destruct (s_pc st); repeat split. Qed.
Lemma frame_wake_gate st : frame st (wake_gate st).
Proof. unfold wake_gate. destruct (s_pc st); repeat split. Qed.
Lemma frame_maybe_wake_gate cfg st : frame st (maybe_wake_gate cfg st).
Proof. unfold maybe_wake_gate. destruct (c_lazy cfg && can_fetch st); [apply frame_wake_gate|apply frame_refl]. Qed.
Lemma frame_produce st : frame st (produce st).
Proof. unfold produce. destruct (src st) as [|[num m] rest]; repeat split. Qed.
Lemma frame_after_send cfg st c : frame st (after_send cfg st c).
Proof.
  unfold after_send. destruct c; [repeat split|]. destruct (c_lazy cfg); [repeat split|apply frame_produce].
Qed.
Lemma frame_send_raises st c r : frame st (send_raises st c r).
Proof. unfold send_raises. destruct c; repeat split. Qed.
Lemma frame_do_push cfg st k m c : frame st (do_push cfg st k m c).
Proof.
  unfold do_push. eapply frame_trans; [|apply frame_after_send].
  eapply frame_trans; [|apply frame_wake_readers]. repeat split.
Qed.

Lemma frame_upd st st' i r r' :
  nth_error (rds st) i = Some r -> r_drive r' = r_drive r -> rds st' = upd i r' (rds st) ->
  k_pc st' = k_pc st -> w_done st' = w_done st -> killed st' = killed st -> frame st st'.
Proof.
  intros Hi Hd Er E1 E2 E3. repeat split; auto.
  rewrite Er, upd_map, Hd. apply upd_same. rewrite nth_error_map, Hi. reflexivity.
Qed.

Lemma frame_grab cfg st i r n : nth_error (rds st) i = Some r -> frame st (grab cfg st i r n).
Proof.
  intros Hi. unfold grab. destruct (killed st) eqn:Ek.
  - eapply (frame_upd st _ i r (rd_set_pc (rd_set_waiting r None) RRaised)); eauto; reflexivity.
  - destruct (take_from (length (box st)) (box st) n) as [[ms n'] last].
    set (r2 := rd_set_nread (rd_set_waiting r None) n').
    set (st1 := set_rds st (upd i r2 (rds st))).
    set (st2 := set_box st1 (gc (min_nread (rds st1)) (box st1))).
    set (st3 := wake_writer (maybe_wake_gate cfg st2)).
    assert (F12 : frame st st2).
    { eapply (frame_upd st st2 i r r2); eauto; reflexivity. }
    assert (F23 : frame st2 st3).
    { eapply frame_trans; [apply (frame_maybe_wake_gate cfg)|apply frame_wake_writer]. }
    assert (Hi3 : nth_error (rds st3) i = Some r2).
    { unfold st3. rewrite rds_wake_writer, rds_maybe_wake_gate. cbn [rds st2 st1 set_box set_rds].
      apply nth_error_upd_eq. apply nth_error_Some. congruence. }
    eapply frame_trans; [exact F12|]. eapply frame_trans; [exact F23|].
    destruct (deliver_fields (w_done st3) r2 ms n' last) as (_ & _ & Ed & _).
    eapply (frame_upd st3 _ i r2); eauto; reflexivity.
Qed.

Lemma frame_kill_region st up :
  k_pc (kill_region st up) = k_pc st /\ map r_drive (rds (kill_region st up)) = map r_drive (rds st) /\
  w_done (kill_region st up) = w_done st.
Proof.
  assert (H : forall s, k_pc (wake_gate (wake_writer (wake_readers s))) = k_pc s /\
                        map r_drive (rds (wake_gate (wake_writer (wake_readers s)))) = map r_drive (rds s) /\
                        w_done (wake_gate (wake_writer (wake_readers s))) = w_done s).
  { intros s.
    destruct (frame_trans _ _ _ (frame_wake_readers s)
               (frame_trans _ _ _ (frame_wake_writer _) (frame_wake_gate _))) as (A1 & A2 & A3 & _). auto. }
  unfold kill_region. destruct up; simp_st; destruct (killed st); simp_st; auto.
  - destruct (H (set_killed (set_fkilled st true) true)) as (A1 & A2 & A3). rewrite A1, A2, A3. auto.
  - destruct (H (set_killed st true)) as (A1 & A2 & A3). rewrite A1, A2, A3. auto.
Qed.

Lemma step_frame cfg st t st' :
  step cfg st t = Some st' ->
  map r_drive (rds st') = map r_drive (rds st) /\
  length (w_done st') = length (w_done st) /\
  (t <> TK -> k_pc st' = k_pc st) /\
  (killed st' = true -> killed st = true \/ t = TK \/ exists r, s_pc st = SKill r).
Proof.
  intros Hs. apply step_inv in Hs.
  assert (Hfr : forall s s' (Q : Prop), frame s s' ->
            map r_drive (rds s') = map r_drive (rds s) /\ length (w_done s') = length (w_done s) /\
            (t <> TK -> k_pc s' = k_pc s) /\ (killed s' = true -> killed s = true \/ Q)).
  { intros s s' Q (A1 & A2 & A3 & A4). rewrite A3, A4. auto. }
  destruct t.
  - destruct Hs as [_ ->]. unfold sender_step. destruct (s_pc st) eqn:Epc.
    + apply Hfr. unfold gate_enter. destruct (can_fetch st); [apply frame_produce|repeat split].
    + apply Hfr. unfold gate_resume. destruct (can_fetch st); [apply frame_produce|repeat split].
    + apply Hfr. unfold send_enter.
      destruct (closed st); [apply frame_send_raises|].
      destruct (fkilled st); [apply frame_send_raises|].
      destruct (killed st); [apply frame_after_send|].
      destruct (_ <? _); [apply frame_send_raises|].
      destruct (can_write cfg st); [apply frame_do_push|repeat split].
    + apply Hfr. unfold send_resume. destruct (can_write cfg st); [|repeat split].
      destruct (killed st); [|apply frame_do_push].
      destruct (fkilled st); [apply frame_send_raises|apply frame_after_send].
    + destruct (frame_kill_region st true) as (A1 & A2 & A3).
      cbn [rds w_done k_pc killed set_spc]. rewrite A1, A2, A3. repeat split; auto.
      intros _. right. right. eauto.
    + apply Hfr. apply frame_refl.
    + apply Hfr. apply frame_refl.
  - destruct Hs as (r & Hi & _ & ->). apply Hfr. unfold reader_step. destruct (r_pc r).
    + unfold read_enter. destruct (next_ready st n); [apply frame_grab; auto|].
      eapply frame_trans; [|apply frame_maybe_wake_gate].
      eapply (frame_upd st _ i r (rd_set_woken (rd_set_pc (rd_set_waiting r (Some n)) (RWait n)) false));
        eauto; reflexivity.
    + unfold read_resume. destruct (next_ready st n); [apply frame_grab; auto|].
      eapply (frame_upd st _ i r (rd_set_woken r false)); eauto; reflexivity.
    + destruct (deliver_fields (w_done st) (rd_log r v) rest n' last) as (_ & _ & Ed & _).
      eapply (frame_upd st _ i r (deliver (w_done st) (rd_log r v) rest n' last)); eauto; reflexivity.
    + apply frame_refl.
    + apply frame_refl.
  - destruct Hs as (up & _ & ->). destruct (frame_kill_region st up) as (A1 & A2 & A3).
    cbn [rds w_done k_pc killed set_kpc]. rewrite A2, A3. repeat split; auto. congruence.
  - destruct Hs as (d & _ & _ & ->). cbn [rds w_done k_pc killed set_wdone]. rewrite upd_length.
    repeat split; auto.
Qed.

(* ---------- _subscriber_waiting_for[i] is set exactly while subscriber i is inside wait_for ---------- *)
Definition wt_ok (r : reader) : Prop :=
  r_waiting r = match r_pc r with RWait n => Some n | _ => None end.
Definition WT (st : state) : Prop := forall i r, nth_error (rds st) i = Some r -> wt_ok r.

Definition rview (r : reader) : option nat * rpc := (r_waiting r, r_pc r).
Definition same_rviews (st st' : state) : Prop := map rview (rds st') = map rview (rds st).

Lemma WT_same st st' : same_rviews st st' -> WT st -> WT st'.
Proof.
  intros E H i r' Hi.
  assert (Hv : nth_error (map rview (rds st')) i = Some (rview r')) by (rewrite nth_error_map, Hi; reflexivity).
  rewrite E in Hv. apply nth_error_map_some in Hv. destruct Hv as (r & Hr & Er).
  specialize (H _ _ Hr). unfold wt_ok, rview in *. injection Er as E1 E2. rewrite E1, E2. exact H.
Qed.

Lemma sr_refl st : same_rviews st st. Proof. reflexivity. Qed.
Lemma sr_trans a b c : same_rviews a b -> same_rviews b c -> same_rviews a c.
Proof. unfold same_rviews. congruence. Qed.
Lemma sr_rds st st' : rds st' = rds st -> same_rviews st st'.
Proof. unfold same_rviews. intros ->. reflexivity. Qed.
Lemma sr_wake_readers st : same_rviews st (wake_readers st).
Proof. unfold same_rviews, wake_readers. simp_st. rewrite map_map. reflexivity. Qed.
Lemma sr_after_send cfg st c : same_rviews st (after_send cfg st c).
Proof.
  apply sr_rds. unfold after_send. destruct c; [reflexivity|]. destruct (c_lazy cfg); [reflexivity|].
  unfold produce. destruct (src st) as [|[num m] rest]; reflexivity.
Qed.
Lemma sr_produce st : same_rviews st (produce st).
Proof. apply sr_rds. unfold produce. destruct (src st) as [|[num m] rest]; reflexivity. Qed.
Lemma sr_send_raises st c r : same_rviews st (send_raises st c r).
Proof. apply sr_rds. unfold send_raises. destruct c; reflexivity. Qed.
Lemma sr_do_push cfg st k m c : same_rviews st (do_push cfg st k m c).
Proof.
  unfold do_push. eapply sr_trans; [|apply sr_after_send].
  eapply sr_trans; [|apply sr_wake_readers]. apply sr_rds. reflexivity.
Qed.
Lemma sr_kill_region st up : same_rviews st (kill_region st up).
Proof.
  assert (H : forall s, same_rviews s (wake_gate (wake_writer (wake_readers s)))).
  { intros s. eapply sr_trans; [apply sr_wake_readers|]. apply sr_rds.
    rewrite rds_wake_gate, rds_wake_writer. reflexivity. }
  unfold kill_region. destruct up; simp_st; destruct (killed st); simp_st; try (apply sr_rds; reflexivity).
  - eapply sr_trans; [|apply H]. apply sr_rds. reflexivity.
  - eapply sr_trans; [|apply H]. apply sr_rds. reflexivity.
Qed.

Lemma WT_upd st st' i r' :
  WT st -> rds st' = upd i r' (rds st) -> wt_ok r' -> WT st'.
Proof.
  intros H E Hr j x Hj. rewrite E in Hj. apply nth_error_upd in Hj.
  destruct Hj as [(_ & -> & _)|(_ & Hj)]; [exact Hr|apply (H _ _ Hj)].
Qed.

Lemma wt_deliver wd r ms n' last : r_waiting r = None -> wt_ok (deliver wd r ms n' last).
Proof.
  intros Hw. unfold wt_ok. destruct (deliver_fields wd r ms n' last) as (_ & E & _). rewrite E, Hw.
  pose proof (deliver_not_wait wd r ms n' last) as Hn.
  destruct (r_pc (deliver wd r ms n' last)); auto. exfalso. apply (Hn n). reflexivity.
Qed.

Lemma WT_step cfg st t st' : WT st -> step cfg st t = Some st' -> WT st'.
Proof.
  intros HW Hs. apply step_inv in Hs. destruct t.
  - destruct Hs as [_ ->]. eapply WT_same; [|exact HW]. unfold sender_step. destruct (s_pc st).
    + unfold gate_enter. destruct (can_fetch st); [apply sr_produce|apply sr_rds; reflexivity].
    + unfold gate_resume. destruct (can_fetch st); [apply sr_produce|apply sr_rds; reflexivity].
    + unfold send_enter.
      destruct (closed st); [apply sr_send_raises|].
      destruct (fkilled st); [apply sr_send_raises|].
      destruct (killed st); [apply sr_after_send|].
      destruct (_ <? _); [apply sr_send_raises|].
      destruct (can_write cfg st); [apply sr_do_push|apply sr_rds; reflexivity].
    + unfold send_resume. destruct (can_write cfg st); [|apply sr_rds; reflexivity].
      destruct (killed st); [|apply sr_do_push].
      destruct (fkilled st); [apply sr_send_raises|apply sr_after_send].
    + eapply sr_trans; [apply (sr_kill_region st true)|apply sr_rds; reflexivity].
    + apply sr_refl.
    + apply sr_refl.
  - destruct Hs as (r & Hi & _ & ->). pose proof (HW _ _ Hi) as Hr. unfold reader_step.
    assert (Hg : forall n, WT (grab cfg st i r n)).
    { intros n. unfold grab. destruct (killed st).
      - eapply WT_upd; [exact HW|reflexivity|]. unfold wt_ok. reflexivity.
      - destruct (take_from (length (box st)) (box st) n) as [[ms n'] last].
        set (r2 := rd_set_nread (rd_set_waiting r None) n').
        set (st1 := set_rds st (upd i r2 (rds st))).
        set (st2 := set_box st1 (gc (min_nread (rds st1)) (box st1))).
        set (st3 := wake_writer (maybe_wake_gate cfg st2)).
        assert (E1 : rds st3 = upd i r2 (rds st)).
        { unfold st3. rewrite rds_wake_writer, rds_maybe_wake_gate. reflexivity. }
        eapply (WT_upd st _ i (deliver (w_done st3) r2 ms n' last)); [exact HW| |].
        + cbn [rds set_rds]. rewrite E1. apply upd_upd.
        + apply wt_deliver. reflexivity. }
    destruct (r_pc r) eqn:Epc; auto.
    + unfold read_enter. destruct (next_ready st n); [apply Hg|].
      eapply WT_upd; [exact HW| |].
      * rewrite rds_maybe_wake_gate. reflexivity.
      * unfold wt_ok. reflexivity.
    + unfold read_resume. destruct (next_ready st n); [apply Hg|].
      eapply WT_upd; [exact HW|reflexivity|]. unfold wt_ok in *. cbn. exact Hr.
    + eapply WT_upd; [exact HW|reflexivity|]. apply wt_deliver. cbn.
      unfold wt_ok in Hr. rewrite Epc in Hr. exact Hr.
  - destruct Hs as (up & _ & ->). eapply WT_same; [|exact HW].
    eapply sr_trans; [apply (sr_kill_region st up)|apply sr_rds; reflexivity].
  - destruct Hs as (d & _ & _ & ->). eapply WT_same; [|exact HW]. apply sr_rds. reflexivity.
Qed.

Lemma WT_init cfg drives source killer nfut : WT (init cfg drives source killer nfut).
Proof.
  assert (H : WT (mkState [] 0 false false false (map init_reader drives) SGate false source killer (repeat false nfut))).
  { intros i r Hi. cbn [rds] in Hi. apply nth_error_map_some in Hi. destruct Hi as (d & _ & ->). reflexivity. }
  unfold init. destruct (c_lazy cfg); [exact H|]. eapply WT_same; [apply sr_produce|exact H].
Qed.

Lemma WT_reachable cfg drives source killer nfut sched st :
  run cfg (init cfg drives source killer nfut) sched = Some st -> WT st.
Proof.
  intros Hrun. eapply run_invariant; [| |exact Hrun]; [intros; eapply WT_step; eauto|apply WT_init].
Qed.

(* the can_drive flags never change *)
Lemma drives_reachable_gen cfg drives source killer nfut sched st :
  run cfg (init cfg drives source killer nfut) sched = Some st -> map r_drive (rds st) = drives.
Proof.
  intros Hrun. eapply (run_invariant cfg (fun s => map r_drive (rds s) = drives)); [| |exact Hrun].
  - intros s t s' H Hs. destruct (step_frame _ _ _ _ Hs) as (E & _). congruence.
  - unfold init. destruct (c_lazy cfg).
    + cbn [rds]. rewrite map_map. cbn. apply map_id.
    + destruct (frame_produce (mkState [] 0 false false false (map init_reader drives) SGate false
                                  source killer (repeat false nfut))) as (_ & E & _).
      rewrite E. cbn [rds]. rewrite map_map. cbn. apply map_id.
Qed.
