(* C11 — proofs about the planner model. *)
From SV Require Import Spec.PlannerSpec.

Local Open Scope nat_scope.

(* ---------------------------------------------------------------------------------------------- *)
(* Small facts                                                                                    *)
(* ---------------------------------------------------------------------------------------------- *)

Lemma mem_In d l : mem d l = true <-> In d l.
Proof.
  unfold mem. rewrite existsb_exists. split.
  - intros [x [Hin Heq]]. apply Nat.eqb_eq in Heq. subst. exact Hin.
  - intros Hin. exists d. split; [exact Hin | apply Nat.eqb_refl].
Qed.

Lemma mem_false d l : mem d l = false <-> ~ In d l.
Proof.
  split.
  - intros H Hin. apply mem_In in Hin. congruence.
  - intros H. destruct (mem d l) eqn:E; [|reflexivity]. apply mem_In in E. contradiction.
Qed.

Lemma find_plugin_some g : forall i d j p,
  find_plugin g i d = Some (j, p) -> In d (p_prov p) /\ i <= j /\ nth_error g (j - i) = Some p.
Proof.
  induction g as [|q g IH]; intros i d j p H; cbn [find_plugin] in H; [discriminate|].
  destruct (mem d (p_prov q)) eqn:E.
  - inversion H; subst. apply mem_In in E. rewrite Nat.sub_diag. auto.
  - apply IH in H. destruct H as [H1 [H2 H3]]. split; [exact H1|]. split; [lia|].
    replace (j - i) with (S (j - S i)) by lia. exact H3.
Qed.

Lemma plugin_of_some g d j p :
  plugin_of g d = Some (j, p) -> In d (p_prov p) /\ nth_error g j = Some p.
Proof.
  unfold plugin_of. intros H. apply find_plugin_some in H. rewrite Nat.sub_0_r in H. tauto.
Qed.

Lemma plugin_of_in g d j p : plugin_of g d = Some (j, p) -> In p g.
Proof. intros H. apply plugin_of_some in H. destruct H as [_ H]. eapply nth_error_In; eauto. Qed.

Lemma find_plugin_none g : forall i d, find_plugin g i d = None -> ~ In d (flat_map p_prov g).
Proof.
  induction g as [|q g IH]; intros i d H; cbn [find_plugin flat_map] in *; [tauto|].
  destruct (mem d (p_prov q)) eqn:E; [discriminate|].
  apply mem_false in E. rewrite in_app_iff. intros [H1|H1]; [contradiction|]. eapply IH; eauto.
Qed.

Lemma plugin_of_provided g d : In d (all_provs g) -> exists j p, plugin_of g d = Some (j, p).
Proof.
  intros Hin. unfold plugin_of. destruct (find_plugin g 0 d) as [[j p]|] eqn:E; [eauto|].
  apply find_plugin_none in E. contradiction.
Qed.

(* ---------------------------------------------------------------------------------------------- *)
(* _target_should_be_saved = the save-policy table                                                *)
(* ---------------------------------------------------------------------------------------------- *)

Lemma target_should_be_saved_spec sw t s :
  target_should_be_saved sw t s =
  if policy_conflict sw s then Err E_VALUE else Ok (policy_admits sw t s).
Proof.
  unfold target_should_be_saved, policy_conflict, policy_admits,
    SAVEWHEN_NEVER, SAVEWHEN_TARGET, SAVEWHEN_EXPLICIT, SAVEWHEN_ALWAYS.
  destruct (sw =? 0)%Z eqn:E0; destruct (sw =? 2)%Z eqn:E2; destruct (sw =? 1)%Z eqn:E1;
    destruct (sw =? 3)%Z eqn:E3; destruct t, s; cbn; try reflexivity; exfalso; lia.
Qed.

(* the same on the finite domain of SaveWhen x bool x bool, decided by computation *)
Definition savewhen_values : list Z := [SAVEWHEN_NEVER; SAVEWHEN_EXPLICIT; SAVEWHEN_TARGET; SAVEWHEN_ALWAYS].
Definition res_bool_eqb (a b : res bool) : bool :=
  match a, b with
  | Ok x, Ok y => Bool.eqb x y
  | Err x, Err y => (x =? y)%Z
  | _, _ => false
  end.
Definition tsbs_table_ok : bool :=
  forallb (fun sw => forallb (fun t => forallb (fun s =>
    res_bool_eqb (target_should_be_saved sw t s)
                 (if policy_conflict sw s then Err E_VALUE else Ok (policy_admits sw t s)))
    [true; false]) [true; false]) savewhen_values.
Lemma tsbs_table : tsbs_table_ok = true.
Proof. vm_compute. reflexivity. Qed.

Lemma target_should_be_saved_finite sw t s :
  In sw savewhen_values ->
  res_bool_eqb (target_should_be_saved sw t s)
               (if policy_conflict sw s then Err E_VALUE else Ok (policy_admits sw t s)) = true.
Proof.
  intros Hsw. pose proof tsbs_table as H. unfold tsbs_table_ok in H.
  rewrite forallb_forall in H. specialize (H sw Hsw).
  rewrite forallb_forall in H. specialize (H t).
  assert (Ht : In t [true; false]) by (destruct t; cbn; auto). specialize (H Ht).
  rewrite forallb_forall in H. apply H. destruct s; cbn; auto.
Qed.

Lemma should_save_spec p d rq :
  should_save p d rq = if conflict rq p d then Err E_VALUE else Ok (admits rq p d).
Proof. unfold should_save, conflict, admits. apply target_should_be_saved_spec. Qed.
