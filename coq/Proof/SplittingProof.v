(* _split_peaks: for strictly increasing positive split points (and a parent dt that is a
   multiple of orig_dt) the children tile the parent span up to the last split point, without
   gaps or overlap; LocalMinimumSplitter yields such split points ending at len(w). *)
From SV Require Import Model.Splitting.

Fixpoint increasing (prev : Z) (l : list Z) : Prop :=
  match l with [] => True | s :: r => prev < s /\ increasing s r end.

(* cs tile [start, stop): consecutive, each of positive length *)
Fixpoint tiled (start : Z) (cs : list child) (stop : Z) : Prop :=
  match cs with
  | [] => start = stop
  | c :: r => ct c = start /\ 0 < clen c /\ tiled (cend c) r stop
  end.

Lemma last_default {X} (l : list X) d d' : l <> [] -> last l d = last l d'.
Proof.
  induction l as [|a l IH]; [congruence|]. intros _. destruct l as [|b l]; [reflexivity|].
  change (last (a :: b :: l) d) with (last (b :: l) d). change (last (a :: b :: l) d') with (last (b :: l) d').
  apply IH. discriminate.
Qed.

Lemma sp_children_tiles t dt odt : 0 < odt -> 0 < dt -> (odt | dt) ->
  forall splits prev, increasing prev splits ->
  exists cs, sp_children t dt odt prev splits = Ok cs /\
             tiled (t + prev * dt) cs (t + last splits prev * dt) /\
             Forall (fun c => cdt c = odt) cs /\ length cs = length splits.
Proof.
  intros Ho Hd [k Hk]. assert (Hkp : 0 < k) by nia.
  induction splits as [|s r IH]; intros prev Hinc.
  - exists []. cbn. repeat split; constructor.
  - destruct Hinc as [Hps Hinc]. destruct (IH s Hinc) as (cs & Hcs & Ht & Hf & Hl).
    cbn [sp_children].
    assert (Hq : Z.quot ((s - prev) * dt) odt = (s - prev) * k).
    { rewrite Hk, Z.mul_assoc. apply Z.quot_mul. lia. }
    rewrite Hq. replace ((s - prev) * k <=? 0) with false by nia.
    rewrite Hcs. cbn [res_bind].
    exists (mkchild (t + prev * dt) ((s - prev) * k) odt :: cs).
    split; [reflexivity|]. split; [|split; [constructor; auto|cbn [length]; lia]].
    cbn [tiled ct clen]. split; [reflexivity|]. split; [nia|].
    unfold cend. cbn [ct clen cdt].
    replace (t + prev * dt + (s - prev) * k * odt) with (t + s * dt) by nia.
    destruct r as [|s' r']; [exact Ht|].
    change (last (s :: s' :: r') prev) with (last (s' :: r') prev).
    rewrite (last_default (s' :: r') prev s) by discriminate. exact Ht.
Qed.

Theorem split_peak_tiles t dt area min_area odt n splits :
  0 < odt -> 0 < dt -> (odt | dt) -> min_area <= area ->
  splits <> [] -> increasing 0 splits -> last splits 0 = n ->
  exists cs, split_peak t dt area min_area odt splits = Ok (true, cs) /\
             tiled t cs (t + n * dt) /\ Forall (fun c => cdt c = odt) cs /\ length cs = length splits.
Proof.
  intros Ho Hd Hdiv Ha Hne Hinc Hlast. unfold split_peak.
  replace (area <? min_area) with false by lia.
  destruct (sp_children_tiles t dt odt Ho Hd Hdiv splits 0 Hinc) as (cs & Hcs & Ht & Hf & Hl).
  rewrite Hcs. cbn [res_bind]. exists cs. split.
  - f_equal. f_equal. destruct splits; [congruence|]. unfold zlen. cbn [length]. lia.
  - rewrite Hlast in Ht. replace (t + 0 * dt) with t in Ht by lia. auto.
Qed.

Theorem split_peak_small_area t dt area min_area odt splits :
  area < min_area -> split_peak t dt area min_area odt splits = Ok (false, []).
Proof. intros H. unfold split_peak. replace (area <? min_area) with true by lia. reflexivity. Qed.

(* ---------- LocalMinimumSplitter.find_split_points ---------- *)
Definition lms_domain (mh : Z) (w : list Z) : Prop :=
  Forall (fun x => - BIG < x /\ x < BIG /\ - BIG <= x + mh) w.

Lemma increasing_snoc : forall r lo n, increasing lo r -> Forall (fun s => s < n) r -> lo < n ->
  increasing lo (r ++ [n]).
Proof.
  induction r as [|s r IH]; intros lo n Hi Hf Hl; cbn [app increasing]; [auto|].
  destruct Hi as [H1 H2]. inversion Hf; subst. split; [exact H1|]. apply IH; auto.
Qed.

Lemma lms_found_true mh mr : forall w i lm msm mi, snd (lms_loop w i lm msm mi true mh mr) = true.
Proof.
  induction w as [|x w IH]; intros i lm msm mi; cbn [lms_loop]; [reflexivity|].
  destruct (Z.min lm x >? Z.max ((if x <? msm then x else msm) + mh) ((if x <? msm then x else msm) * mr)).
  - specialize (IH (i + 1) x BIG i). destruct (lms_loop w (i + 1) x BIG i true mh mr) as [r f]. exact IH.
  - destruct (x >? lm); apply IH.
Qed.

Lemma lms_loop_inv mh mr : forall w i last_max msm msm_i found lo,
  lms_domain mh w -> lo < i -> (msm = BIG \/ lo < msm_i) -> msm_i <= i ->
  let rf := lms_loop w i last_max msm msm_i found mh mr in
  increasing lo (fst rf) /\ Forall (fun s => s < i + zlen w) (fst rf) /\
  (fst rf <> [] -> snd rf = true) /\ (found = false -> snd rf = true -> fst rf <> []).
Proof.
  induction w as [|x w IH]; intros i last_max msm msm_i found lo Hdom Hlo Hm Hmi; cbn zeta.
  - cbn [lms_loop fst snd]. repeat split; auto; try constructor; congruence.
  - inversion Hdom as [|? ? (Hx1 & Hx2 & Hx3) Hdom']; subst.
    assert (Hzl : zlen (x :: w) = zlen w + 1) by (unfold zlen; cbn [length]; lia).
    assert (Hzw : 0 <= zlen w) by (unfold zlen; lia).
    rewrite Hzl. cbn [lms_loop].
    set (msm1 := if x <? msm then x else msm).
    set (msmi1 := if x <? msm then i else msm_i).
    assert (Hmsmi1 : lo < msmi1 /\ msmi1 <= i \/ (msm1 = BIG /\ msmi1 <= i)).
    { unfold msm1, msmi1. destruct (x <? msm) eqn:E; [left; lia|]. destruct Hm as [->|Hm]; [lia|left; lia]. }
    assert (Hy : lo < msmi1 /\ msmi1 <= i).
    { unfold msm1, msmi1 in *. destruct (x <? msm) eqn:E; [lia|]. destruct Hm as [->|Hm]; lia. }
    destruct (Z.min last_max x >? Z.max (msm1 + mh) (msm1 * mr)) eqn:Ey.
    + specialize (IH (i + 1) x BIG i true msmi1 Hdom' ltac:(lia) (or_introl eq_refl) ltac:(lia)).
      cbn zeta in IH. destruct (lms_loop w (i + 1) x BIG i true mh mr) as [r f] eqn:Er. cbn [fst snd] in *.
      destruct IH as (I1 & I2 & I3 & I4). repeat split.
      * lia.
      * exact I1.
      * constructor; [lia|]. eapply Forall_impl; [|exact I2]. cbn. lia.
      * intros _. pose proof (lms_found_true mh mr w (i + 1) x BIG i) as Hft. rewrite Er in Hft. exact Hft.
      * discriminate.
    + destruct (x >? last_max) eqn:En.
      * specialize (IH (i + 1) x BIG i found lo Hdom' ltac:(lia) (or_introl eq_refl) ltac:(lia)).
        cbn zeta in IH. destruct (lms_loop w (i + 1) x BIG i found mh mr) as [r f]. cbn [fst snd] in *.
        destruct IH as (I1 & I2 & I3 & I4). repeat split; auto.
        eapply Forall_impl; [|exact I2]. cbn. lia.
      * assert (Hm' : msm1 = BIG \/ lo < msmi1).
        { unfold msm1, msmi1. destruct (x <? msm); [right; lia|]. destruct Hm; [left; auto|right; auto]. }
        specialize (IH (i + 1) last_max msm1 msmi1 found lo Hdom' ltac:(lia) Hm' ltac:(lia)).
        cbn zeta in IH. destruct (lms_loop w (i + 1) last_max msm1 msmi1 found mh mr) as [r f]. cbn [fst snd] in *.
        destruct IH as (I1 & I2 & I3 & I4). repeat split; auto.
        eapply Forall_impl; [|exact I2]. cbn. lia.
Qed.

(* the split points of the local-minimum finder: strictly increasing, positive, and - if there
   are any - ending with len(w) *)
Theorem lms_split_points_ok mh mr w : lms_domain mh w ->
  let s := lms_split_points w mh mr in
  increasing 0 s /\ (s <> [] -> last s 0 = zlen w).
Proof.
  intros Hdom. cbn zeta. unfold lms_split_points. destruct w as [|x0 w].
  - cbn. split; [exact I|congruence].
  - inversion Hdom as [|? ? (Hx1 & Hx2 & Hx3) Hdom']; subst.
    cbn [lms_loop]. replace (x0 <? BIG) with true by lia.
    replace (Z.min (- BIG) x0 >? Z.max (x0 + mh) (x0 * mr)) with false by lia.
    replace (x0 >? - BIG) with true by lia.
    pose proof (lms_loop_inv mh mr w 1 x0 BIG 0 false 0 Hdom' ltac:(lia) (or_introl eq_refl) ltac:(lia)) as H.
    cbn zeta in H. replace (0 + 1) with 1 by lia.
    destruct (lms_loop w 1 x0 BIG 0 false mh mr) as [r f]. cbn [fst snd] in H.
    destruct H as (I1 & I2 & I3 & I4).
    assert (Hz : zlen (x0 :: w) = 1 + zlen w) by (unfold zlen; cbn [length]; lia).
    assert (Hzw : 0 <= zlen w) by (unfold zlen; lia).
    destruct f.
    + split.
      * apply increasing_snoc; [exact I1| |lia]. rewrite Hz. exact I2.
      * intros _. apply last_last.
    + destruct r as [|s r]; [split; [exact I|congruence]|].
      exfalso. specialize (I3 ltac:(discriminate)). discriminate.
Qed.

(* splitting with the local-minimum finder tiles the parent exactly *)
Theorem local_minimum_split_tiles t dt area min_area odt w mh mr :
  0 < odt -> 0 < dt -> (odt | dt) -> min_area <= area -> lms_domain mh w ->
  lms_split_points w mh mr <> [] ->
  exists cs, split_peak_local_minimum t dt area min_area odt w mh mr = Ok (true, cs) /\
             tiled t cs (t + zlen w * dt) /\ Forall (fun c => cdt c = odt) cs.
Proof.
  intros Ho Hd Hdiv Ha Hdom Hne. unfold split_peak_local_minimum.
  destruct (lms_split_points_ok mh mr w Hdom) as [Hinc Hlast].
  destruct (split_peak_tiles t dt area min_area odt (zlen w) (lms_split_points w mh mr)
              Ho Hd Hdiv Ha Hne Hinc (Hlast Hne)) as (cs & H1 & H2 & H3 & _).
  exists cs. auto.
Qed.

Lemma local_minimum_no_split t dt area min_area odt w mh mr :
  lms_split_points w mh mr = [] -> min_area <= area ->
  split_peak_local_minimum t dt area min_area odt w mh mr = Ok (false, []).
Proof.
  intros H Ha. unfold split_peak_local_minimum, split_peak. rewrite H.
  replace (area <? min_area) with false by lia. reflexivity.
Qed.

(* non-vacuity *)
Example lms_example : lms_split_points [3; 3; 0; 0; 0; 0; 3; 3] 1 0 = [2; 8]
  /\ lms_domain 1 [3; 3; 0; 0; 0; 0; 3; 3].
Proof. split; [vm_compute; reflexivity|]. repeat constructor; cbv; intuition discriminate. Qed.
Example split_example :
  split_peak_local_minimum 100 2 12 0 1 [3; 3; 0; 0; 0; 0; 3; 3] 1 0
  = Ok (true, [mkchild 100 4 1; mkchild 104 12 1]).
Proof. vm_compute. reflexivity. Qed.
(* splitting with the natural-breaks finder (whatever interior index its goodness of split
   selects) tiles the parent exactly *)
Theorem natural_breaks_split_tiles t dt area min_area odt w max_i :
  0 < odt -> 0 < dt -> (odt | dt) -> min_area <= area -> 0 < max_i < zlen w ->
  exists cs, split_peak_natural_breaks t dt area min_area odt w max_i true = Ok (true, cs) /\
             tiled t cs (t + zlen w * dt) /\ Forall (fun c => cdt c = odt) cs /\ length cs = 2%nat.
Proof.
  intros Ho Hd Hdiv Ha Hm. unfold split_peak_natural_breaks, nbs_split_points.
  apply (split_peak_tiles t dt area min_area odt (zlen w) [max_i; zlen w]); auto.
  - discriminate.
  - cbn. lia.
Qed.
Lemma natural_breaks_no_split t dt area min_area odt w max_i : min_area <= area ->
  split_peak_natural_breaks t dt area min_area odt w max_i false = Ok (false, []).
Proof.
  intros Ha. unfold split_peak_natural_breaks, nbs_split_points, split_peak.
  replace (area <? min_area) with false by lia. reflexivity.
Qed.
Example nbs_example :
  split_peak_natural_breaks 100 2 12 0 1 [3; 3; 0; 0; 0; 0; 3; 3] 2 true
  = Ok (true, [mkchild 100 4 1; mkchild 104 12 1]).
Proof. vm_compute. reflexivity. Qed.

(* Documentation of the pinned tree (before /repo commit 8263a29): NaturalBreaksSplitter closed with
   len(w) - 1, which leaves the parent's last sample out *)
Example split_short_of_end : exists cs,
  split_peak 100 2 12 0 1 [2; 7] = Ok (true, cs) /\ tiled 100 cs 114 /\ ~ tiled 100 cs 116.
Proof.
  eexists. split; [vm_compute; reflexivity|]. split.
  - cbn. repeat split; lia.
  - cbn. intros (_ & _ & _ & _ & H). unfold cend in H. cbn in H. lia.
Qed.
