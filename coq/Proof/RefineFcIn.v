(* Refinement: the MiniPy program regenerated from strax/processing/general.py::_fc_in
   (Gen/FcIn.v), run on the columns of `things` and `cs` and on a result array initialised to -1
   (what the wrapper _fully_contained_in passes), terminates normally with the result array equal
   to Model/Intervals.v: fc_in things cs 0 -- for every input, given fuel > len(cs) for the inner
   `while` (whose number of iterations is bounded by the number of containers). *)
From Coq Require Import String.
From SV Require Import Lang.MiniPy Gen.FcIn Model.Intervals.

Definition fc_names : list str := Eval vm_compute in env_names fc_in_prog.
Definition fc_fbody : stmt := Eval vm_compute in for_body (fbody fc_in_prog).
Definition fc_ai : str := Eval vm_compute in nth 0 (for_targets (fbody fc_in_prog)) EmptyString.
Definition fc_wcond : expr := Eval vm_compute in while_cond (fbody fc_in_prog).
Definition fc_wbody : stmt := Eval vm_compute in while_body (fbody fc_in_prog).

(* a_starts, b_starts, a_ends, b_ends, result, b_i, a_i *)
Definition fc_env (things cs : list row) (res : list Z) (bi : nat) (aiv : val) : env :=
  mk_env fc_names [VInts (map rt things); VInts (map rt cs); VInts (map re things); VInts (map re cs);
                   VInts res; VInt (Z.of_nat bi); aiv].

(* the test of the inner while *)
Lemma fc_cond_eval tpre a tpost cpre crest res :
  eval_test fc_wcond (fc_env (tpre ++ a :: tpost) (cpre ++ crest) res (length cpre) (zi (length tpre))) =
  Some (match crest with [] => false | c :: _ => re c <=? rt a end).
Proof.
  unfold fc_wcond, fc_env, fc_names. mp_eval.
  rewrite len_z_map, len_z_app.
  destruct crest as [|c crest].
  - rewrite len_z_nil. replace (Z.of_nat (length cpre) <? len_z cpre + 0) with false by (unfold len_z; lia).
    reflexivity.
  - replace (Z.of_nat (length cpre) <? len_z cpre + len_z (c :: crest)) with true
      by (rewrite len_z_cons; pose proof (len_z_nonneg crest); unfold len_z in *; lia).
    rewrite !idx_map_app_mid. reflexivity.
Qed.

Lemma fc_while things res aiv tpre a tpost (Ht : things = tpre ++ a :: tpost) (Ha : aiv = zi (length tpre)) cs :
  forall crest cpre fuel,
    cs = cpre ++ crest -> (length crest < fuel)%nat ->
    iter_while fuel fc_wcond (exec fuel fc_wbody) (fc_env things cs res (length cpre) aiv) =
    ONormal (fc_env things cs res (snd (fc_skip crest (length cpre) (rt a))) aiv).
Proof.
  subst things aiv.
  assert (Hgen : forall crest cpre fuel fuel',
    cs = cpre ++ crest -> (length crest < fuel)%nat ->
    iter_while fuel fc_wcond (exec fuel' fc_wbody)
               (fc_env (tpre ++ a :: tpost) cs res (length cpre) (zi (length tpre))) =
    ONormal (fc_env (tpre ++ a :: tpost) cs res (snd (fc_skip crest (length cpre) (rt a))) (zi (length tpre)))).
  { induction crest as [|c crest IH]; intros cpre fuel fuel' Hcs Hf;
      (destruct fuel as [|fuel]; [cbn [length] in Hf; lia|]); rewrite iter_while_S; subst cs; rewrite fc_cond_eval.
    - reflexivity.
    - cbn [fc_skip]. destruct (re c <=? rt a).
      + unfold fc_wbody, fc_env, fc_names. mp_eval. mp_steps.
        replace (Z.of_nat (length cpre) + 1) with (Z.of_nat (length (cpre ++ [c])))
          by (rewrite app_length; cbn [length]; lia).
        specialize (IH (cpre ++ [c]) fuel fuel').
        unfold fc_wbody, fc_env, fc_names in IH. mp_eval_in IH.
        replace (S (length cpre)) with (length (cpre ++ [c])) by (rewrite app_length; cbn [length]; lia).
        apply IH; [rewrite <- app_assoc; reflexivity|cbn [length] in Hf; lia].
      + reflexivity. }
  intros crest cpre fuel. apply Hgen.
Qed.

(* the skipped containers form a prefix of the remaining ones *)
Lemma fc_skip_split : forall crest bi a,
  exists mid, crest = mid ++ fst (fc_skip crest bi a) /\ snd (fc_skip crest bi a) = (bi + length mid)%nat.
Proof.
  induction crest as [|c crest IH]; intros bi a; cbn [fc_skip].
  - exists []. split; [reflexivity|cbn [length snd]; lia].
  - destruct (re c <=? a) eqn:E.
    + destruct (IH (S bi) a) as (mid & H1 & H2). exists (c :: mid). split.
      * cbn [app]. rewrite <- H1. reflexivity.
      * rewrite H2. cbn [length]. lia.
    + exists []. split; [reflexivity|cbn [length snd]; lia].
Qed.

(* one iteration of the outer for *)
Lemma fc_step fuel tpre a tpost cpre crest rdone rrest aiv :
  length rdone = length tpre -> (length crest < fuel)%nat ->
  let things := tpre ++ a :: tpost in
  let cs := cpre ++ crest in
  exec fuel fc_fbody (bind_all (fc_env things cs (rdone ++ (-1) :: rrest) (length cpre) aiv)
                               [(fc_ai, zi (length tpre))]) =
  let bi' := snd (fc_skip crest (length cpre) (rt a)) in
  match fst (fc_skip crest (length cpre) (rt a)) with
  | [] => OBreak (fc_env things cs (rdone ++ (-1) :: rrest) bi' (zi (length tpre)))
  | c :: _ =>
      ONormal (fc_env things cs
                 (rdone ++ (if (rt c <=? rt a) && (re a <=? re c) then Z.of_nat bi' else -1) :: rrest)
                 bi' (zi (length tpre)))
  end.
Proof.
  intros Hr Hf things cs.
  pose proof (fc_while things (rdone ++ (-1) :: rrest) (zi (length tpre)) tpre a tpost eq_refl eq_refl cs
                       crest cpre fuel eq_refl Hf) as Hw.
  destruct (fc_skip_split crest (length cpre) (rt a)) as (mid & Hmid & Hbi).
  set (bi' := snd (fc_skip crest (length cpre) (rt a))) in *.
  set (cs' := fst (fc_skip crest (length cpre) (rt a))) in *.
  assert (Hcs : cs = (cpre ++ mid) ++ cs') by (subst cs; rewrite Hmid at 1; rewrite app_assoc; reflexivity).
  assert (Hbi' : bi' = length (cpre ++ mid)) by (rewrite app_length; exact Hbi).
  clearbody bi' cs'. clear Hbi.
  unfold fc_fbody, fc_wcond, fc_wbody, fc_env, fc_names, fc_ai in *. mp_eval_in Hw. mp_eval.
  mp_step. mp_step. rewrite Hw. clear Hw. mp_steps.
  rewrite len_z_map, Hcs, len_z_app.
  destruct cs' as [|c cs'].
  - rewrite len_z_nil. replace (Z.of_nat bi' =? len_z (cpre ++ mid) + 0) with true by (unfold len_z; lia).
    mp_steps. reflexivity.
  - replace (Z.of_nat bi' =? len_z (cpre ++ mid) + len_z (c :: cs')) with false
      by (rewrite len_z_cons; pose proof (len_z_nonneg cs'); unfold len_z in *; lia).
    mp_steps. subst bi'. unfold things. rewrite !idx_map_app_mid. mp_eval.
    destruct (rt c <=? rt a); cbn [andb]; mp_eval.
    + destruct (re a <=? re c); mp_steps.
      * rewrite <- Hr, set_idx_app_mid. reflexivity.
      * reflexivity.
    + mp_steps. reflexivity.
Qed.

Lemma fc_loop fuel things cs : forall trest tpre crest cpre rdone aiv,
  things = tpre ++ trest -> cs = cpre ++ crest ->
  length rdone = length tpre -> (length crest < fuel)%nat ->
  exists bi' aiv' (brk : bool),
    iter_list (exec fuel fc_fbody) (range_binds fc_ai (length tpre) (length trest))
              (fc_env things cs (rdone ++ repeat (-1) (length trest)) (length cpre) aiv) =
    (if brk then OBreak else ONormal) (fc_env things cs (rdone ++ fc_in trest crest (length cpre)) bi' aiv').
Proof.
  induction trest as [|a trest IH]; intros tpre crest cpre rdone aiv Ht Hc Hr Hf.
  - exists (length cpre), aiv, false. reflexivity.
  - cbn [length repeat]. rewrite range_binds_S, iter_list_cons. subst things cs.
    rewrite (fc_step fuel tpre a trest cpre crest rdone (repeat (-1) (length trest)) aiv Hr Hf). cbv zeta.
    cbn [fc_in].
    destruct (fc_skip_split crest (length cpre) (rt a)) as (mid & Hmid & Hbi).
    destruct (fc_skip crest (length cpre) (rt a)) as [cs' bi'] eqn:Esk. cbn [fst snd] in *.
    destruct cs' as [|c cs'].
    + exists bi', (zi (length tpre)), true.
      change (map (fun _ : row => -1) (a :: trest)) with ((-1) :: map (fun _ : row => -1) trest).
      rewrite map_const_repeat. reflexivity.
    + set (v := if (rt c <=? rt a) && (re a <=? re c) then Z.of_nat bi' else -1).
      specialize (IH (tpre ++ [a]) (c :: cs') (cpre ++ mid) (rdone ++ [v]) (zi (length tpre))).
      destruct IH as (bi2 & aiv2 & brk & IH).
      * rewrite <- app_assoc. reflexivity.
      * rewrite Hmid at 1. rewrite app_assoc. reflexivity.
      * rewrite !app_length. cbn [length]. lia.
      * assert (length crest = length mid + length (c :: cs'))%nat by (rewrite Hmid at 1; apply app_length). lia.
      * exists bi2, aiv2, brk.
        rewrite !app_length in IH. cbn [length] in IH. rewrite Nat.add_1_r in IH.
        rewrite <- Hbi in IH. rewrite <- !app_assoc in IH. cbn [app] in IH.
        exact IH.
Qed.

Theorem fc_in_refines fuel things cs :
  (length cs < fuel)%nat ->
  exists bi' aiv',
    run fuel fc_in_prog [VInts (map rt things); VInts (map rt cs); VInts (map re things); VInts (map re cs);
                         VInts (repeat (-1) (length things))]
    = ONormal (fc_env things cs (fc_in things cs 0) bi' aiv').
Proof.
  intros Hf.
  unfold run, fc_in_prog. mp_eval. mp_steps.
  rewrite len_z_map. unfold len_z. rewrite Nat2Z.id.
  destruct (fc_loop fuel things cs things [] cs [] [] VUndef eq_refl eq_refl eq_refl Hf) as (bi' & aiv' & brk & Hloop).
  unfold fc_env, fc_names, fc_ai, fc_fbody in Hloop. mp_eval_in Hloop. cbn [app length] in Hloop.
  change (Z.of_nat 0) with 0 in Hloop.
  rewrite Hloop. clear Hloop.
  exists bi', aiv'. unfold fc_env, fc_names. mp_eval.
  destruct brk; mp_steps; reflexivity.
Qed.

(* the result array, looked up under the name of the fifth formal *)
Definition fc_result_name : str := Eval vm_compute in nth 4 (fparams fc_in_prog) EmptyString.

Theorem fc_in_result fuel things cs :
  (length cs < fuel)%nat ->
  exists e,
    run fuel fc_in_prog [VInts (map rt things); VInts (map rt cs); VInts (map re things); VInts (map re cs);
                         VInts (repeat (-1) (length things))] = ONormal e /\
    lookup e fc_result_name = Some (VInts (fc_in things cs 0)).
Proof.
  intros Hf. destruct (fc_in_refines fuel things cs Hf) as (bi' & aiv' & H).
  eexists. split; [exact H|]. reflexivity.
Qed.

Example fc_in_prog_runs :
  exists e,
    run 3 fc_in_prog [VInts [0; 4; 5; 9]; VInts [0; 5]; VInts [2; 6; 7; 12]; VInts [4; 8]; VInts [-1; -1; -1; -1]]
    = ONormal e /\ lookup e fc_result_name = Some (VInts [0; -1; 1; -1]).
Proof. eexists. vm_compute. split; reflexivity. Qed.
