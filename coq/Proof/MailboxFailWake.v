(* No lost wake-up in the mailbox network (Model/MailboxFail.v), for EVERY network and every schedule:
   a thread that waits on a condition of mailbox j with its woken flag clear has a false wait predicate —
   in particular j is not killed.  Hence kill() wakes everyone, and a killed mailbox never blocks anybody. *)
From SV Require Import Base.Prelude Model.Mailbox Proof.MailboxFacts Model.MailboxFail Proof.MailboxFailFacts.
Local Open Scope nat_scope.

(* ---------- the invariant ---------- *)
Definition wait_ok (st : nstate) (t : thread) : Prop :=
  match t_pc t with
  | PReadWait =>
      let m := get_mb st (r_mb (cur_r t)) in
      has_msg (mb_box m) (r_next (cur_r t)) = false /\ mb_killed m = false
  | PSendWait oi _ _ => mb_can_write (get_mb st (out_mb t oi)) = false
  | PGateWait oi => mb_can_fetch (get_mb st (out_mb t oi)) = false
  | _ => True
  end.
Definition gate_ok (st : nstate) (t : thread) : Prop :=
  match t_pc t with
  | PGate oi | PGateWait oi => mb_lazy (get_mb st (out_mb t oi)) = true
  | _ => True
  end.
Definition tok (st : nstate) (t : thread) : Prop := (t_woken t = false -> wait_ok st t) /\ gate_ok st t.

Definition box_lt (m : mbox) : Prop := forall k x, In (k, x) (mb_box m) -> k < mb_nsent m.

Definition Wn (st : nstate) : Prop :=
  (forall i t, nth_error (ths st) i = Some t -> tok st t) /\ (forall j, box_lt (get_mb st j)).

Definition plain_pc (p : pc) : Prop :=
  match p with PGate _ | PGateWait _ | PReadWait | PSendWait _ _ _ => False | _ => True end.

Lemma tok_plain st t : plain_pc (t_pc t) -> tok st t.
Proof. unfold tok, wait_ok, gate_ok. destruct (t_pc t); cbn; intros H; try contradiction; auto. Qed.

(* the mailbox a waiting / gating thread looks at *)
Definition watch (t : thread) : option nat :=
  match t_pc t with
  | PReadWait => Some (r_mb (cur_r t))
  | PSendWait oi _ _ | PGate oi | PGateWait oi => Some (out_mb t oi)
  | _ => None
  end.

Lemma tok_same_mb st st' t :
  (forall k, watch t = Some k -> get_mb st' k = get_mb st k) -> tok st t -> tok st' t.
Proof.
  unfold tok, wait_ok, gate_ok, watch. intros H [H1 H2].
  destruct (t_pc t); cbn in *; auto; rewrite !(H _ eq_refl); auto.
Qed.

(* ---------- how one mailbox may change without hurting the unwoken waiters ---------- *)
Record safe_change (m m' : mbox) (rs ws gs : bool) : Prop := {
  sc_lazy : mb_lazy m' = mb_lazy m;
  sc_rd : rs = true -> (forall n, has_msg (mb_box m') n = true -> has_msg (mb_box m) n = true) /\ mb_killed m' = mb_killed m;
  sc_wr : ws = true -> mb_can_write m' = true -> mb_can_write m = true;
  sc_gt : gs = true -> mb_lazy m = true -> mb_can_fetch m' = true -> mb_can_fetch m = true;
}.

(* a thread looking at mailbox j survives the change m -> m' if its kind of wait is safe or it is woken *)
Lemma tok_change st st' j m' rs ws gs t :
  get_mb st' j = m' -> safe_change (get_mb st j) m' rs ws gs ->
  watch t = Some j ->
  (t_pc t = PReadWait -> rs = true \/ t_woken t = true) ->
  (forall oi mg c, t_pc t = PSendWait oi mg c -> ws = true \/ t_woken t = true) ->
  (forall oi, t_pc t = PGateWait oi -> gs = true \/ t_woken t = true) ->
  tok st t -> tok st' t.
Proof.
  intros Hm' [Hl Hr Hw Hg] Hwatch Hrd Hwr Hgt [H1 H2].
  unfold tok, wait_ok, gate_ok, watch in *.
  destruct (t_pc t) eqn:Epc; cbn in *; auto; inversion Hwatch; subst j.
  - (* PGate *) split; auto. rewrite Hm', Hl. auto.
  - (* PGateWait *) split.
    + intros Hu. destruct (Hgt _ eq_refl) as [Hs | Hwk]; [|congruence].
      rewrite Hm'. destruct (mb_can_fetch m') eqn:E; auto. rewrite (Hg Hs H2 eq_refl) in H1. auto.
    + rewrite Hm', Hl. auto.
  - (* PReadWait *) split; auto.
    intros Hu. destruct (Hrd eq_refl) as [Hs | Hwk]; [|congruence].
    destruct (Hr Hs) as [Ha Hb]. destruct (H1 Hu) as [Hc Hd]. rewrite Hm'. split.
    + destruct (has_msg (mb_box m') _) eqn:E; auto. rewrite (Ha _ E) in Hc. auto.
    + congruence.
  - (* PSendWait *) split; auto.
    intros Hu. destruct (Hwr _ _ _ eq_refl) as [Hs | Hwk]; [|congruence].
    rewrite Hm'. destruct (mb_can_write m') eqn:E; auto. rewrite (Hw Hs eq_refl) in H1. auto.
Qed.

(* ---------- thread-local continuations end in plain program counters (or a lazy gate) ---------- *)
Section Plain.
Variable nt : net.
Variable tid : nat.

Lemma pc_set_pc t p : t_pc (set_pc t p) = p. Proof. reflexivity. Qed.

Lemma first_out_plain t p : plain_pc p -> plain_pc (first_out t p).
Proof. unfold first_out. destruct (n_outs t =? 0); cbn; auto. Qed.

Lemma enter_killall_plain c : plain_pc (enter_killall nt c).
Proof. unfold enter_killall. destruct (n_kill nt); cbn; auto. Qed.

Lemma on_input_killed_plain t c : plain_pc (t_pc (on_input_killed nt t c)).
Proof.
  unfold on_input_killed. destruct (t_kind t); cbn; auto using enter_killall_plain.
  - apply first_out_plain. cbn. auto.
  - apply first_out_plain. cbn. auto.
Qed.

Lemma stage_compute_plain t : plain_pc (t_pc (stage_compute nt tid t)).
Proof. unfold stage_compute. destruct (fault_at nt tid (t_cnt t)); cbn; auto. Qed.
Lemma stage_end_plain t : plain_pc (t_pc (stage_end nt tid t)).
Proof. unfold stage_end. destruct (fault_at nt tid (t_cnt t)); cbn; auto. Qed.

Lemma stage_fetch_plain left t : plain_pc (t_pc (stage_fetch nt tid left t)).
Proof.
  revert t. induction left as [|l IH]; intros t; cbn [stage_fetch].
  - destruct (t_nstop t =? 0); [apply stage_compute_plain|].
    destruct (t_nstop t =? length (t_rd t)); [apply stage_end_plain | cbn; auto].
  - destruct (r_buf (cur_r t)) as [|m rest].
    + destruct (r_last (cur_r t)); [apply IH | cbn; auto].
    + destruct m; apply IH.
Qed.

Lemma source_produce_plain t n : plain_pc (t_pc (source_produce nt tid t n)).
Proof. unfold source_produce. destruct (t_cnt t <? n); [apply stage_compute_plain | apply stage_end_plain]. Qed.

Definition not_stage (t : thread) : Prop := match t_kind t with KStage _ _ => False | _ => True end.

Lemma sink_data_plain t v :
  not_stage t ->
  let r := sink_data nt tid t v in
  (snd r = false -> plain_pc (t_pc (fst r))) /\ (snd r = true -> t_kind (fst r) = t_kind t).
Proof.
  unfold not_stage, sink_data. destruct (t_kind t) eqn:Ek; cbn; intros Hn; try contradiction.
  - destruct (if rechunk then None else fault_at nt tid (t_cnt t)); cbn; split; intros; try discriminate; auto.
  - split; intros; try discriminate; auto.
  - split; intros H; try discriminate. apply first_out_plain. cbn. auto.
  - destruct (cfault_at nt (t_cnt t)) as [[[|] c]|]; cbn.
    + destruct relay; cbn; [split; intros; try discriminate; cbn; auto|].
      destruct (n_f1 nt); cbn; split; intros; try discriminate; cbn; auto using enter_killall_plain.
    + split; intros; try discriminate; cbn; auto.
    + split; intros; try discriminate; auto.
Qed.

Lemma sink_stop_plain t : not_stage t -> plain_pc (t_pc (sink_stop nt tid t)).
Proof.
  unfold not_stage, sink_stop. destruct (t_kind t); cbn; intros Hn; try contradiction; auto.
  - destruct (fault_at nt tid (t_cnt t)); cbn; auto.
  - apply first_out_plain. cbn. auto.
Qed.

Lemma not_stage_set_cur_r t r : not_stage t -> not_stage (set_cur_r t r).
Proof. unfold not_stage. cbn. auto. Qed.

Lemma sink_loop_plain ms : forall t, not_stage t -> plain_pc (t_pc (sink_loop nt tid t ms)).
Proof.
  induction ms as [|m rest IH]; intros t Hn; cbn [sink_loop]; [cbn; auto|].
  set (tb := set_cur_r t (r_set_buf (cur_r t) rest)).
  assert (Hnb : not_stage tb) by (apply not_stage_set_cur_r; auto).
  assert (Hd : forall v, plain_pc (t_pc (let '(t', go) := sink_data nt tid tb v in if go then sink_loop nt tid t' rest else t'))).
  { intros v. pose proof (sink_data_plain tb v Hnb) as [Hf Ht]. cbn zeta in Hf, Ht.
    destruct (sink_data nt tid tb v) as [t' go]. cbn [fst snd] in *. destruct go.
    - apply IH. unfold not_stage in *. rewrite (Ht eq_refl). auto.
    - apply Hf. reflexivity. }
  destruct m; [apply Hd | apply Hd | apply sink_stop_plain; auto].
Qed.

Lemma consume_plain t : plain_pc (t_pc (consume nt tid t)).
Proof.
  unfold consume. destruct (t_kind t) eqn:Ek.
  - destruct (t_rd t); [apply source_produce_plain | apply stage_fetch_plain].
  - apply sink_loop_plain. unfold not_stage. rewrite Ek. auto.
  - apply sink_loop_plain. unfold not_stage. rewrite Ek. auto.
  - apply sink_loop_plain. unfold not_stage. rewrite Ek. auto.
  - apply sink_loop_plain. unfold not_stage. rewrite Ek. auto.
Qed.

Lemma send_raise_plain t closing e : plain_pc (t_pc (send_raise nt t closing e)).
Proof.
  unfold send_raise. destruct closing.
  - destruct (t_kind t); cbn; auto. destruct (n_f3 nt); cbn; auto. apply first_out_plain. cbn. auto.
  - destruct (t_kind t); cbn; auto.
Qed.

End Plain.

(* ---------- waking is harmless; who gets woken ---------- *)
Lemma tok_wk st f j t : tok st t -> tok st (wk f j t).
Proof.
  unfold tok, wait_ok, gate_ok. intros [H1 H2]. rewrite wk_pc, wk_cur_r. split.
  - intros Hu. destruct (wk_unwoken _ _ _ Hu) as [E _]. rewrite E in *.
    destruct (t_pc t); auto.
  - destruct (t_pc t); auto; rewrite wk_out_mb; auto.
Qed.

Definition wks (fs : list (thread -> nat -> bool)) (j : nat) (t : thread) : thread :=
  fold_right (fun f u => wk f j u) t fs.
Definition wakes (fs : list (thread -> nat -> bool)) (j : nat) (st : nstate) : nstate :=
  fold_right (fun f s => wake f j s) st fs.

Lemma mbs_wakes fs j st : mbs (wakes fs j st) = mbs st.
Proof. induction fs; cbn; auto. Qed.
Lemma get_mb_wakes fs j st k : get_mb (wakes fs j st) k = get_mb st k.
Proof. unfold get_mb. rewrite mbs_wakes. reflexivity. Qed.
Lemma nth_error_wakes fs j st i :
  nth_error (ths (wakes fs j st)) i = option_map (wks fs j) (nth_error (ths st) i).
Proof.
  induction fs as [|f fs IH]; cbn [wakes wks fold_right].
  - destruct (nth_error (ths st) i); reflexivity.
  - rewrite nth_error_wake. fold (wakes fs j st). rewrite IH. destruct (nth_error (ths st) i); reflexivity.
Qed.
Lemma length_ths_wakes fs j st : length (ths (wakes fs j st)) = length (ths st).
Proof. induction fs; cbn [wakes fold_right]; auto. rewrite length_ths_wake. auto. Qed.

Lemma wks_pc fs j t : t_pc (wks fs j t) = t_pc t.
Proof. induction fs; cbn; auto. rewrite wk_pc. auto. Qed.
Lemma wks_cur_r fs j t : cur_r (wks fs j t) = cur_r t.
Proof. induction fs; cbn; auto. rewrite wk_cur_r. auto. Qed.
Lemma wks_out_mb fs j t oi : out_mb (wks fs j t) oi = out_mb t oi.
Proof. induction fs; cbn; auto. rewrite wk_out_mb. auto. Qed.
Lemma wks_watch fs j t : watch (wks fs j t) = watch t.
Proof. unfold watch. rewrite wks_pc, wks_cur_r. destruct (t_pc t); auto; rewrite wks_out_mb; auto. Qed.
Lemma tok_wks st fs j t : tok st t -> tok st (wks fs j t).
Proof. induction fs; cbn; auto. intros H. apply tok_wk. auto. Qed.

Lemma waits_read_wk f j k t : waits_read (wk f j t) k = waits_read t k.
Proof. unfold waits_read. rewrite wk_pc, wk_cur_r. reflexivity. Qed.
Lemma waits_write_wk f j k t : waits_write (wk f j t) k = waits_write t k.
Proof. unfold waits_write. rewrite wk_pc. destruct (t_pc t); auto. rewrite wk_out_mb. reflexivity. Qed.
Lemma waits_gate_wk f j k t : waits_gate (wk f j t) k = waits_gate t k.
Proof. unfold waits_gate. rewrite wk_pc. destruct (t_pc t); auto. rewrite wk_out_mb. reflexivity. Qed.

Lemma wks_woken fs j t (f : thread -> nat -> bool) :
  (forall g u, f (wk g j u) j = f u j) -> In f fs -> f t j = true -> t_woken (wks fs j t) = true.
Proof.
  intros Hst. induction fs as [|g fs IH]; cbn; [tauto|]. intros [-> | Hin] Hf.
  - unfold wk at 1. assert (E : f (wks fs j t) j = true).
    { clear IH. induction fs as [|h fs IH2]; cbn; auto. rewrite Hst. auto. }
    fold (wks fs j t). rewrite E. reflexivity.
  - apply wk_woken_mono. apply IH; auto.
Qed.

(* ---------- all threads but the stepping one, after mailbox j changed and some conditions were notified ---------- *)
Lemma others_tok st j m' fs rs ws gs :
  safe_change (get_mb st j) m' rs ws gs ->
  (rs = true \/ In waits_read fs) -> (ws = true \/ In waits_write fs) -> (gs = true \/ In waits_gate fs) ->
  (forall i t, nth_error (ths st) i = Some t -> tok st t) ->
  let stw := wakes fs j (set_mb st j m') in
  forall i t, nth_error (ths stw) i = Some t -> tok stw t.
Proof.
  intros Hsc Hr Hw Hg Hall stw i t Hi. unfold stw in Hi. rewrite nth_error_wakes in Hi. cbn [ths set_mb] in Hi.
  destruct (nth_error (ths st) i) as [u|] eqn:Eu; [|discriminate]. cbn in Hi. inversion Hi; subst t. clear Hi.
  pose proof (Hall _ _ Eu) as Hu.
  assert (Hmb : forall k, k <> j -> get_mb stw k = get_mb st k).
  { intros k Hk. unfold stw. rewrite get_mb_wakes. apply get_mb_set_mb_neq. auto. }
  destruct (get_mb_set_mb_cases st j m') as [[Hlt Heq] | [Hge [Hno Hd]]].
  - (* j in range *)
    destruct (watch u) as [k|] eqn:Ew.
    + destruct (Nat.eq_dec k j) as [->|Hne].
      * apply (tok_change st stw j m' rs ws gs).
        -- unfold stw. rewrite get_mb_wakes. auto.
        -- auto.
        -- rewrite wks_watch. auto.
        -- rewrite wks_pc. intros Hpc. destruct Hr as [Hr|Hr]; [left; auto | right].
           apply wks_woken with (f := waits_read); auto using waits_read_wk.
           unfold waits_read. rewrite Hpc. unfold watch in Ew. rewrite Hpc in Ew. inversion Ew. apply Nat.eqb_refl.
        -- rewrite wks_pc. intros oi mg c Hpc. destruct Hw as [Hw|Hw]; [left; auto | right].
           apply wks_woken with (f := waits_write); auto using waits_write_wk.
           unfold waits_write. rewrite Hpc. unfold watch in Ew. rewrite Hpc in Ew. inversion Ew. apply Nat.eqb_refl.
        -- rewrite wks_pc. intros oi Hpc. destruct Hg as [Hg|Hg]; [left; auto | right].
           apply wks_woken with (f := waits_gate); auto using waits_gate_wk.
           unfold waits_gate. rewrite Hpc. unfold watch in Ew. rewrite Hpc in Ew. inversion Ew. apply Nat.eqb_refl.
        -- apply tok_wks. auto.
      * apply (tok_same_mb st). { intros k' Hk'. rewrite wks_watch, Ew in Hk'. inversion Hk'; subst k'. auto. }
        apply tok_wks. auto.
    + apply (tok_same_mb st). { intros k' Hk'. rewrite wks_watch, Ew in Hk'. discriminate. }
      apply tok_wks. auto.
  - (* j out of range: nothing changed *)
    apply (tok_same_mb st).
    { intros k _. unfold stw. rewrite get_mb_wakes, Hno. reflexivity. }
    apply tok_wks. auto.
Qed.

Lemma tok_set_th st i t' t : tok st t -> tok (set_th st i t') t.
Proof. apply tok_same_mb. intros. reflexivity. Qed.

(* put the stepping thread back *)
Lemma all_tok_set_th st tid t' :
  (forall i t, nth_error (ths st) i = Some t -> tok st t) -> tok st t' ->
  forall i t, nth_error (ths (set_th st tid t')) i = Some t -> tok (set_th st tid t') t.
Proof.
  intros Hall Ht' i t Hi. unfold set_th in Hi. cbn in Hi.
  apply nth_error_upd in Hi. destruct Hi as [[-> [-> _]] | [_ Hi]].
  - apply tok_set_th. auto.
  - apply tok_set_th. eauto.
Qed.

(* ---------- instances of safe_change ---------- *)
Lemma sc_same m m' :
  mb_lazy m' = mb_lazy m -> mb_box m' = mb_box m -> mb_killed m' = mb_killed m -> mb_cap m' = mb_cap m ->
  mb_subs m' = mb_subs m -> safe_change m m' true true true.
Proof.
  intros Hl Hb Hk Hc Hs. split; auto.
  - intros _. rewrite Hb, Hk. auto.
  - intros _. unfold mb_can_write, mb_room. rewrite Hb, Hk, Hc. auto.
  - intros _ _. unfold mb_can_fetch. rewrite Hb, Hk, Hs. auto.
Qed.

Lemma sc_killed m m' :
  mb_lazy m' = mb_lazy m -> mb_box m' = mb_box m -> mb_killed m = true -> mb_killed m' = true ->
  safe_change m m' true true true.
Proof.
  intros Hl Hb Hk Hk'. split; auto.
  - intros _. rewrite Hb. split; auto. congruence.
  - intros _ _. unfold mb_can_write. rewrite Hk. apply orb_true_r.
  - intros _ _ _. unfold mb_can_fetch. rewrite Hk. reflexivity.
Qed.

Lemma sc_subs m m' gs :
  mb_lazy m' = mb_lazy m -> mb_box m' = mb_box m -> mb_killed m' = mb_killed m -> mb_cap m' = mb_cap m ->
  (gs = true -> mb_lazy m = true -> mb_can_fetch m' = true -> mb_can_fetch m = true) ->
  safe_change m m' true true gs.
Proof.
  intros Hl Hb Hk Hc Hg. split; auto.
  - intros _. rewrite Hb, Hk. auto.
  - intros _. unfold mb_can_write, mb_room. rewrite Hb, Hk, Hc. auto.
Qed.

Lemma sc_gc m m' gs :
  mb_lazy m' = mb_lazy m -> (exists lo, mb_box m' = gc lo (mb_box m)) -> mb_killed m' = mb_killed m ->
  (gs = true -> mb_lazy m = true -> mb_can_fetch m' = true -> mb_can_fetch m = true) ->
  safe_change m m' true false gs.
Proof.
  intros Hl [lo Hb] Hk Hg. split; auto.
  - intros _. split; auto. intros n. rewrite Hb. apply has_msg_gc.
  - discriminate.
Qed.

Lemma box_lt_head m lo x rest : box_lt m -> mb_box m = (lo, x) :: rest -> lo < mb_nsent m.
Proof. intros H E. apply (H lo x). rewrite E. left. reflexivity. Qed.

Lemma has_msg_insert_mono b k mg x : has_msg b x = true -> has_msg (insert k mg b) x = true.
Proof.
  unfold has_msg. induction b as [|[k' m'] t IH]; cbn [insert get_msg]; [discriminate|].
  destruct (k <? k').
  - cbn [get_msg]. destruct (k =? x); auto.
  - cbn [get_msg]. destruct (k' =? x); auto.
Qed.

Lemma can_fetch_push m mg :
  box_lt m -> mb_can_fetch (push_box m (insert (mb_nsent m) mg (mb_box m))) = true -> mb_can_fetch m = true.
Proof.
  intros Hlt. unfold mb_can_fetch. cbn [mb_killed mb_box mb_subs push_box].
  destruct (mb_killed m); auto.
  destruct (existsb (sb_waits_in (mb_box m)) (mb_subs m)) eqn:E.
  - apply existsb_exists in E. destruct E as [s [Hs Hw]].
    replace (existsb (sb_waits_in (insert (mb_nsent m) mg (mb_box m))) (mb_subs m)) with true;
      [intros H; exact H|].
    symmetry. apply existsb_exists. exists s. split; auto.
    unfold sb_waits_in in *. destruct (sb_wait s); auto. apply has_msg_insert_mono. auto.
  - destruct (existsb (sb_waits_in (insert (mb_nsent m) mg (mb_box m))) (mb_subs m)); [discriminate | auto].
Qed.

Lemma sc_push m mg :
  box_lt m -> safe_change m (push_box m (insert (mb_nsent m) mg (mb_box m))) false true true.
Proof.
  intros Hlt. split; auto.
  - discriminate.
  - intros _. unfold mb_can_write, mb_room. cbn [mb_box mb_cap mb_killed push_box]. rewrite insert_length.
    destruct (mb_killed m); [rewrite !orb_true_r; auto|]. rewrite !orb_false_r.
    intros H. apply Nat.ltb_lt in H. apply Nat.ltb_lt. lia.
  - intros _ _. apply can_fetch_push. auto.
Qed.

Lemma sc_any m m' : mb_lazy m' = mb_lazy m -> safe_change m m' false false false.
Proof. intros Hl. split; auto; discriminate. Qed.

(* ---------- box_lt ---------- *)
Lemma box_lt_set_mb st j m' :
  (forall k, box_lt (get_mb st k)) -> box_lt m' -> forall k, box_lt (get_mb (set_mb st j m') k).
Proof.
  intros Hall Hm k. destruct (Nat.eq_dec j k) as [->|Hne].
  - destruct (get_mb_set_mb_cases st k m') as [[_ E] | [_ [E _]]]; rewrite E; auto.
  - rewrite get_mb_set_mb_neq by auto. auto.
Qed.

Lemma box_lt_same m m' : mb_box m' = mb_box m -> mb_nsent m' = mb_nsent m -> box_lt m -> box_lt m'.
Proof. unfold box_lt. intros Hb Hn H k x. rewrite Hb, Hn. apply H. Qed.

Lemma in_gc lo b p : In p (gc lo b) -> In p b.
Proof.
  induction b as [|[k m] t IH]; cbn [gc]; auto. destruct (k <? lo); auto. intros H. right. auto.
Qed.

Lemma in_insert k m b p : In p (insert k m b) -> p = (k, m) \/ In p b.
Proof.
  induction b as [|[k' m'] t IH]; cbn [insert].
  - intros [H|[]]; auto.
  - destruct (k <? k').
    + intros [H|H]; auto.
    + intros [H|H]; [right; left; auto|]. destruct (IH H); auto. right. right. auto.
Qed.

Lemma box_lt_push m mg : box_lt m -> box_lt (push_box m (insert (mb_nsent m) mg (mb_box m))).
Proof.
  unfold box_lt. cbn [mb_box mb_nsent push_box]. intros H k x Hin.
  apply in_insert in Hin. destruct Hin as [E|Hin]; [inversion E; lia|]. specialize (H _ _ Hin). lia.
Qed.

(* ---------- Wn through the building blocks of a step ---------- *)
Lemma Wn_intro st : (forall i t, nth_error (ths st) i = Some t -> tok st t) -> (forall j, box_lt (get_mb st j)) -> Wn st.
Proof. split; auto. Qed.

(* result = the stepping thread put back into (wakes on j after mailbox j := m') *)
Lemma Wn_update st j m' fs rs ws gs tid t' :
  Wn st ->
  safe_change (get_mb st j) m' rs ws gs ->
  (rs = true \/ In waits_read fs) -> (ws = true \/ In waits_write fs) -> (gs = true \/ In waits_gate fs) ->
  box_lt m' ->
  tok (wakes fs j (set_mb st j m')) t' ->
  Wn (set_th (wakes fs j (set_mb st j m')) tid t').
Proof.
  intros [Hall Hbx] Hsc Hr Hw Hg Hb Ht'. apply Wn_intro.
  - apply all_tok_set_th; auto. apply (others_tok st j m' fs rs ws gs); auto.
  - intros k. rewrite get_mb_set_th, get_mb_wakes. apply box_lt_set_mb; auto.
Qed.

Lemma Wn_set_th st tid t' : Wn st -> tok st t' -> Wn (set_th st tid t').
Proof.
  intros [Hall Hbx] Ht'. apply Wn_intro.
  - apply all_tok_set_th; auto.
  - intros k. rewrite get_mb_set_th. auto.
Qed.

(* maybe_wake_gate as a list of wakes, with the side condition that makes the gate waiters safe *)
Lemma maybe_wake_gate_wakes j st :
  exists fs, maybe_wake_gate j st = wakes fs j st /\
             (In waits_gate fs \/ (fs = [] /\ mb_lazy (get_mb st j) && mb_can_fetch (get_mb st j) = false)).
Proof.
  unfold maybe_wake_gate. destruct (mb_lazy (get_mb st j) && mb_can_fetch (get_mb st j)) eqn:E.
  - exists [waits_gate]. split; [reflexivity | left; left; reflexivity].
  - exists []. split; [reflexivity | right; auto].
Qed.

Lemma gate_safe_of_cond st j m' :
  mb_lazy m' = mb_lazy (get_mb st j) ->
  mb_lazy (get_mb (set_mb st j m') j) && mb_can_fetch (get_mb (set_mb st j m') j) = false ->
  mb_lazy (get_mb st j) = true -> mb_can_fetch m' = true -> mb_can_fetch (get_mb st j) = true.
Proof.
  intros Hl Hc Hlz Hcf.
  destruct (get_mb_set_mb_cases st j m') as [[_ E] | [_ [_ E]]].
  - rewrite E in Hc. rewrite Hl, Hlz, Hcf in Hc. discriminate.
  - rewrite E in Hlz. discriminate.
Qed.


Lemma Wn_mb st j m' fs rs ws gs :
  Wn st ->
  safe_change (get_mb st j) m' rs ws gs ->
  (rs = true \/ In waits_read fs) -> (ws = true \/ In waits_write fs) -> (gs = true \/ In waits_gate fs) ->
  box_lt m' ->
  Wn (wakes fs j (set_mb st j m')).
Proof.
  intros [Hall Hbx] Hsc Hr Hw Hg Hb. apply Wn_intro.
  - apply (others_tok st j m' fs rs ws gs); auto.
  - intros k. rewrite get_mb_wakes. apply box_lt_set_mb; auto.
Qed.

Ltac inl := left; reflexivity.
Ltac in1 := right; left; reflexivity.
Ltac in2 := right; right; left; reflexivity.
Ltac in3 := right; right; right; left; reflexivity.

(* ---------- the lock regions preserve the invariant ---------- *)
Section Regions.
Variable nt : net.
Variable tid : nat.

Lemma tok_gate st t oi : mb_lazy (get_mb st (out_mb t oi)) = true -> tok st (set_pc t (PGate oi)).
Proof. intros H. unfold tok, wait_ok, gate_ok. cbn. auto. Qed.

Lemma nth_error_skipn' {A} (l : list A) n i : nth_error (skipn n l) i = nth_error l (n + i).
Proof. revert l; induction n as [|n IH]; intros [|h t]; cbn; auto. destruct i; reflexivity. Qed.

Lemma find_gate_spec st outs : forall idx i,
  find_gate st outs idx = Some i ->
  idx <= i /\ exists o ff, nth_error outs (i - idx) = Some (o, ff) /\ mb_lazy (get_mb st o) = true.
Proof.
  induction outs as [|[o ff] rest IH]; intros idx i; cbn [find_gate]; [discriminate|].
  destruct (negb ff && mb_lazy (get_mb st o)) eqn:E.
  - intros H. inversion H; subst i. split; auto. exists o, ff. rewrite Nat.sub_diag. cbn.
    apply andb_true_iff in E. tauto.
  - intros H. apply IH in H. destruct H as [Hle (o' & ff' & Hn & Hl)]. split; [lia|].
    exists o', ff'. split; auto. replace (i - idx) with (S (i - S idx)) by lia. cbn. auto.
Qed.

Lemma next_gate_lazy st outs i0 i :
  next_gate st outs i0 = Some i -> mb_lazy (get_mb st (fst (nth i outs (0, false)))) = true.
Proof.
  unfold next_gate. intros H. apply find_gate_spec in H. destruct H as [Hle (o & ff & Hn & Hl)].
  rewrite nth_error_skipn' in Hn. replace (i0 + (i - i0)) with i in Hn by lia.
  rewrite (nth_error_nth_dflt _ _ _ _ Hn). cbn. auto.
Qed.

Lemma tok_loop_start st t : tok st (loop_start nt tid st t).
Proof.
  unfold loop_start. destruct (t_kind t) eqn:Ek; try (apply tok_plain; apply consume_plain).
  - destruct (mb_lazy (get_mb st out)) eqn:El; [|apply tok_plain; apply consume_plain].
    apply tok_gate. unfold out_mb. rewrite Ek. auto.
  - destruct (next_gate st outs 0) as [i|] eqn:En; [|apply tok_plain; apply consume_plain].
    apply tok_gate. unfold out_mb. rewrite Ek. eapply next_gate_lazy; eauto.
Qed.

Lemma Wn_gate_region resume st t oi :
  Wn st -> mb_lazy (get_mb st (out_mb t oi)) = true -> (resume = true -> t_pc t = PGateWait oi) ->
  Wn (gate_region nt tid resume st t oi).
Proof.
  intros HW Hl Hres. unfold gate_region.
  destruct (mb_can_fetch (get_mb st (out_mb t oi))) eqn:Ecf.
  - destruct (t_kind t) eqn:Ek; try (apply Wn_set_th; auto; apply tok_plain; apply consume_plain).
    destruct (next_gate st outs (S oi)) as [i|] eqn:En.
    + apply Wn_set_th; auto. apply tok_gate. unfold out_mb. rewrite Ek. eapply next_gate_lazy; eauto.
    + apply Wn_set_th; auto. apply tok_plain. apply consume_plain.
  - destruct resume.
    + apply Wn_set_th; auto. unfold tok, wait_ok, gate_ok. cbn. rewrite (Hres eq_refl). split; auto.
    + apply Wn_set_th; auto. unfold tok, wait_ok, gate_ok. cbn. split; auto.
Qed.

Lemma box_lt_subs m s x : box_lt m -> box_lt (set_sub m s x).
Proof. apply box_lt_same; reflexivity. Qed.

Lemma Wn_read_region resume st t :
  Wn st -> (resume = true -> t_pc t = PReadWait) -> Wn (read_region nt tid resume st t).
Proof.
  intros HW Hres. unfold read_region.
  set (r := cur_r t). set (j := r_mb r). set (m := get_mb st j). set (n := r_next r).
  assert (Hbm : box_lt m) by (destruct HW as [_ Hb]; apply Hb).
  destruct (has_msg (mb_box m) n || mb_killed m) eqn:Erdy.
  - set (m1 := set_sub m (r_sub r) (sub_set_wait (get_sub m (r_sub r)) None)).
    destruct (mb_killed m) eqn:Ek.
    + (* killed: raise MailboxKilled *)
      change (set_mb st j m1) with (wakes [] j (set_mb st j m1)).
      eapply Wn_update with (rs := true) (ws := true) (gs := true);
        [exact HW | apply sc_killed; auto | inl | inl | inl | apply box_lt_subs; auto
        | apply tok_plain; apply on_input_killed_plain].
    + (* grab the messages *)
      destruct (take_from (length (mb_box m)) (mb_box m) n) as [[ms n'] last] eqn:Etk.
      set (m2 := set_sub m1 (r_sub r) (sub_set_nread (get_sub m1 (r_sub r)) n')).
      set (m3 := set_box m2 (gc (min_read (mb_subs m2)) (mb_box m2))).
      destruct (maybe_wake_gate_wakes j (set_mb st j m3)) as [fs [Efs Hfs]]. rewrite Efs.
      change (wake waits_write j (wakes fs j (set_mb st j m3))) with (wakes (waits_write :: fs) j (set_mb st j m3)).
      assert (Hb3 : box_lt m3).
      { unfold box_lt. cbn [mb_box mb_nsent m3 set_box m2 set_sub set_subs m1]. intros k x Hin.
        apply in_gc in Hin. apply (Hbm k x). exact Hin. }
      destruct Hfs as [Hin | [-> Hc]].
      * eapply Wn_update with (rs := true) (ws := false) (gs := false);
          [exact HW | | inl | in1 | right; right; exact Hin | exact Hb3 | apply tok_plain; apply consume_plain].
        apply sc_gc; [reflexivity | exists (min_read (mb_subs m2)); reflexivity | reflexivity | discriminate].
      * eapply Wn_update with (rs := true) (ws := false) (gs := true);
          [exact HW | | inl | in1 | inl | exact Hb3 | apply tok_plain; apply consume_plain].
        apply sc_gc; [reflexivity | exists (min_read (mb_subs m2)); reflexivity | reflexivity |].
        intros _. apply (gate_safe_of_cond st j m3); [reflexivity | exact Hc].
  - apply orb_false_iff in Erdy. destruct Erdy as [Eh Ek].
    destruct resume.
    + apply Wn_set_th; auto. unfold tok, wait_ok, gate_ok. cbn. rewrite (Hres eq_refl). split; auto.
    + set (m1 := set_sub m (r_sub r) (sub_set_wait (get_sub m (r_sub r)) (Some n))).
      destruct (maybe_wake_gate_wakes j (set_mb st j m1)) as [fs [Efs Hfs]]. rewrite Efs.
      assert (Htok : tok (wakes fs j (set_mb st j m1)) (set_woken (set_pc t PReadWait) false)).
      { unfold tok. split; [|exact I]. intros _. unfold wait_ok. cbn [t_pc set_woken set_pc].
        change (cur_r (set_woken (set_pc t PReadWait) false)) with r. fold j. fold n. rewrite get_mb_wakes.
        destruct (get_mb_set_mb_cases st j m1) as [[_ E] | [_ [E _]]]; rewrite E.
        - exact (conj Eh Ek).
        - fold m. exact (conj Eh Ek). }
      destruct Hfs as [Hin | [-> Hc]].
      * eapply Wn_update with (rs := true) (ws := true) (gs := false);
          [exact HW | | inl | inl | right; exact Hin | apply box_lt_subs; auto | exact Htok].
        apply sc_subs; try reflexivity. discriminate.
      * eapply Wn_update with (rs := true) (ws := true) (gs := true);
          [exact HW | | inl | inl | inl | apply box_lt_subs; auto | exact Htok].
        apply sc_subs; try reflexivity. intros _. apply (gate_safe_of_cond st j m1); [reflexivity | exact Hc].
Qed.

Lemma Wn_after_send st t oi mg closing : Wn st -> Wn (after_send nt tid st t oi mg closing).
Proof.
  intros HW. unfold after_send.
  set (o := out_mb t oi).
  set (st1 := if closing then set_mb st o (set_closed (get_mb st o) true) else st).
  assert (HW1 : Wn st1).
  { unfold st1. destruct closing; auto.
    change (set_mb st o (set_closed (get_mb st o) true)) with (wakes [] o (set_mb st o (set_closed (get_mb st o) true))).
    eapply Wn_mb with (rs := true) (ws := true) (gs := true);
      [exact HW | apply sc_same; reflexivity | inl | inl | inl |].
    destruct HW as [_ Hb]. apply (box_lt_same (get_mb st o)); auto. }
  apply Wn_set_th; auto.
  destruct (S oi <? n_outs t); [apply tok_plain; cbn; auto|].
  destruct closing; [apply tok_plain; cbn; auto|]. apply tok_loop_start.
Qed.

Lemma Wn_do_push st t oi mg closing : Wn st -> Wn (do_push nt tid st t oi mg closing).
Proof.
  intros HW. unfold do_push. apply Wn_after_send.
  set (o := out_mb t oi). set (m := get_mb st o).
  change (wake waits_read o (set_mb st o (push_box m (insert (mb_nsent m) mg (mb_box m)))))
    with (wakes [waits_read] o (set_mb st o (push_box m (insert (mb_nsent m) mg (mb_box m))))).
  assert (Hbm : box_lt m) by (destruct HW as [_ Hb]; apply Hb).
  eapply Wn_mb with (rs := false) (ws := true) (gs := true);
    [exact HW | apply sc_push; auto | in1 | inl | inl | apply box_lt_push; auto].
Qed.

Lemma Wn_send_region resume st t oi mg closing :
  Wn st -> (resume = true -> t_pc t = PSendWait oi mg closing) ->
  Wn (send_region nt tid resume st t oi mg closing).
Proof.
  intros HW Hres. unfold send_region.
  set (m := get_mb st (out_mb t oi)).
  assert (Hraise : forall e, Wn (set_th st tid (send_raise nt t closing e))).
  { intros e. apply Wn_set_th; auto. apply tok_plain. apply send_raise_plain. }
  destruct resume.
  - destruct (mb_can_write m) eqn:Ecw.
    + destruct (mb_killed m); [destruct (mb_fkilled m); auto using Wn_after_send | apply Wn_do_push; auto].
    + apply Wn_set_th; auto. unfold tok, wait_ok, gate_ok. cbn. rewrite (Hres eq_refl). split; auto.
  - destruct (mb_closed m); auto. destruct (mb_fkilled m); auto.
    destruct (mb_killed m); [apply Wn_after_send; auto|].
    destruct (mb_can_write m) eqn:Ecw; [apply Wn_do_push; auto|].
    apply Wn_set_th; auto. unfold tok, wait_ok, gate_ok. cbn. split; auto.
Qed.

Lemma Wn_kill_mb st j c : Wn st -> Wn (kill_mb st j c).
Proof.
  intros HW. unfold kill_mb. set (m := get_mb st j).
  assert (Hbm : box_lt m) by (destruct HW as [_ Hb]; apply Hb).
  cbn [mb_killed set_fkilled]. destruct (mb_killed m) eqn:Ek.
  - change (set_mb st j (set_fkilled m true)) with (wakes [] j (set_mb st j (set_fkilled m true))).
    eapply Wn_mb with (rs := true) (ws := true) (gs := true);
      [exact HW | apply sc_killed; auto | inl | inl | inl | apply (box_lt_same m); auto].
  - change (wake waits_gate j (wake waits_write j (wake waits_read j (set_mb st j (set_killed (set_fkilled m true) true c)))))
      with (wakes [waits_gate; waits_write; waits_read] j (set_mb st j (set_killed (set_fkilled m true) true c))).
    eapply Wn_mb with (rs := false) (ws := false) (gs := false);
      [exact HW | apply sc_any; reflexivity | in3 | in2 | in1 | apply (box_lt_same m); auto].
Qed.

Lemma Wn_killout_region st t oi e : Wn st -> Wn (killout_region tid st t oi e).
Proof.
  intros HW. unfold killout_region. apply Wn_set_th; [apply Wn_kill_mb; auto|].
  apply tok_plain. destruct (S oi <? n_outs t); cbn; auto. destruct (is_mk e); cbn; auto.
Qed.

Lemma Wn_killin_region st t e : Wn st -> Wn (killin_region nt tid st t e).
Proof.
  intros HW. unfold killin_region. apply Wn_set_th; [apply Wn_kill_mb; auto|].
  apply tok_plain.
  destruct (is_mk e && n_f2 nt); [apply first_out_plain; cbn; auto|].
  destruct (is_mk e).
  - destruct (r_buf (cur_r t)) as [|[v|k v|] rest]; cbn [t_pc set_pc];
      try (apply first_out_plain; cbn; auto).
    destruct (r_last (cur_r t)); cbn; auto. apply first_out_plain. cbn. auto.
  - destruct (t_kind t); cbn; auto using enter_killall_plain. apply first_out_plain. cbn. auto.
Qed.

Lemma Wn_killall_region st t i c : Wn st -> Wn (killall_region nt tid st t i c).
Proof.
  intros HW. unfold killall_region. apply Wn_set_th; [apply Wn_kill_mb; auto|].
  apply tok_plain. destruct (S i <? length (n_kill nt)); cbn; auto.
Qed.

Lemma Wn_settle st : Wn st -> Wn (settle nt tid st).
Proof.
  intros HW. unfold settle. destruct (t_pc (get_th st tid)); auto.
  destruct (first_alive st (skipn i (n_join nt)) i); apply Wn_set_th; auto; apply tok_plain; cbn; auto.
Qed.

Lemma Wn_thread_step st t :
  Wn st -> nth_error (ths st) tid = Some t -> Wn (thread_step nt tid st t).
Proof.
  intros HW Ht. pose proof (proj1 HW _ _ Ht) as [_ Hg]. unfold gate_ok in Hg.
  unfold thread_step. destruct (t_pc t) eqn:Epc; auto.
  - apply Wn_gate_region; auto. discriminate.
  - apply Wn_gate_region; auto.
  - apply Wn_read_region; auto. discriminate.
  - apply Wn_read_region; auto.
  - apply Wn_send_region; auto. discriminate.
  - apply Wn_send_region; auto.
  - apply Wn_killout_region; auto.
  - apply Wn_killin_region; auto.
  - apply Wn_killall_region; auto.
Qed.
End Regions.

Theorem Wn_step nt st tid st' : Wn st -> nstep nt st tid = Some st' -> Wn st'.
Proof.
  intros HW. unfold nstep. destruct (nth_error (ths st) tid) as [t|] eqn:Et; [|discriminate].
  destruct (t_enabled nt st t); [|discriminate]. intros H. inversion H; subst st'.
  apply Wn_settle. apply Wn_thread_step; auto.
Qed.

(* ---------- the initial state ---------- *)
Lemma Wn_start_all nt st : Wn st -> Wn (start_all nt st).
Proof.
  unfold start_all. generalize (seq 0 (length (ths st))). intros l. revert st.
  induction l as [|i l IH]; intros st HW; cbn [fold_left]; auto.
  apply IH. apply Wn_set_th; auto. apply tok_loop_start.
Qed.

Lemma Wn_init nt boxes threads :
  (forall t, In t threads -> plain_pc (t_pc t)) -> (forall m, In m boxes -> mb_box m = []) ->
  Wn (ninit nt boxes threads).
Proof.
  intros Ht Hm. unfold ninit. apply Wn_start_all. apply Wn_intro.
  - cbn. intros i t Hi. apply tok_plain. apply Ht. eapply nth_error_In; eauto.
  - intros j. unfold get_mb. cbn. unfold box_lt.
    destruct (nth_in_or_default j boxes dflt_mb) as [Hin | E].
    + rewrite (Hm _ Hin). intros k x [].
    + rewrite E. cbn. intros k x [].
Qed.

Theorem Wn_reachable nt boxes threads sched st :
  (forall t, In t threads -> plain_pc (t_pc t)) -> (forall m, In m boxes -> mb_box m = []) ->
  nrun nt (ninit nt boxes threads) sched = Some st -> Wn st.
Proof.
  intros Ht Hm. apply (nrun_invariant nt Wn).
  - intros. eapply Wn_step; eauto.
  - apply Wn_init; auto.
Qed.

(* ---------- kill wakes everyone ---------- *)
(* thread t waits on a condition of mailbox j *)
Definition waits_on (t : thread) (j : nat) : Prop :=
  match t_pc t with
  | PReadWait => r_mb (cur_r t) = j
  | PSendWait oi _ _ | PGateWait oi => out_mb t oi = j
  | _ => False
  end.

Lemma killed_waiter_woken st i t j :
  Wn st -> nth_error (ths st) i = Some t -> waits_on t j -> mb_killed (get_mb st j) = true -> t_woken t = true.
Proof.
  intros [Hall _] Hi Hw Hk. destruct (t_woken t) eqn:E; auto. destruct (Hall _ _ Hi) as [H1 _].
  specialize (H1 E). unfold wait_ok, waits_on in *.
  destruct (t_pc t); try contradiction; subst j.
  - unfold mb_can_fetch in H1. rewrite Hk in H1. discriminate.
  - destruct H1 as [_ H1]. congruence.
  - unfold mb_can_write in H1. rewrite Hk, orb_true_r in H1. discriminate.
Qed.

Lemma kill_mb_killed st j c :
  j < length (mbs st) -> mb_killed (get_mb (kill_mb st j c) j) = true /\ mb_fkilled (get_mb (kill_mb st j c) j) = true.
Proof.
  intros Hj. unfold kill_mb. cbn [mb_killed set_fkilled]. destruct (mb_killed (get_mb st j)) eqn:Ek.
  - rewrite get_mb_set_mb_eq by auto. cbn. auto.
  - rewrite !get_mb_wake. rewrite get_mb_set_mb_eq by auto. cbn. auto.
Qed.

(* ---------- a killed mailbox stays killed, and no region on it blocks ---------- *)
Definition not_waiting (p : pc) : Prop :=
  match p with PGateWait _ | PReadWait | PSendWait _ _ _ => False | _ => True end.
Lemma plain_not_waiting p : plain_pc p -> not_waiting p.
Proof. destruct p; cbn; auto. Qed.

Definition mb_mono (m m' : mbox) : Prop :=
  (mb_killed m = true -> mb_killed m' = true) /\ (mb_fkilled m = true -> mb_fkilled m' = true).
Definition st_mono (st st' : nstate) : Prop := forall k, mb_mono (get_mb st k) (get_mb st' k).

Lemma mb_mono_refl m : mb_mono m m. Proof. split; auto. Qed.
Lemma st_mono_refl st : st_mono st st. Proof. intros k. apply mb_mono_refl. Qed.
Lemma st_mono_trans a b c : st_mono a b -> st_mono b c -> st_mono a c.
Proof. intros H1 H2 k. destruct (H1 k), (H2 k). split; auto. Qed.
Lemma st_mono_set_th st i t : st_mono st (set_th st i t). Proof. intros k. apply mb_mono_refl. Qed.
Lemma st_mono_wake f j st : st_mono st (wake f j st). Proof. intros k. apply mb_mono_refl. Qed.
Lemma st_mono_set_mb st j m' : mb_mono (get_mb st j) m' -> st_mono st (set_mb st j m').
Proof.
  intros H k. destruct (Nat.eq_dec j k) as [->|Hne].
  - destruct (get_mb_set_mb_cases st k m') as [[_ E] | [_ [E _]]]; rewrite E; auto using mb_mono_refl.
  - rewrite get_mb_set_mb_neq by auto. apply mb_mono_refl.
Qed.
Lemma st_mono_maybe_wake_gate j st : st_mono st (maybe_wake_gate j st).
Proof. unfold maybe_wake_gate. destruct (_ && _); auto using st_mono_refl, st_mono_wake. Qed.

Lemma st_mono_kill_mb st j c : st_mono st (kill_mb st j c).
Proof.
  unfold kill_mb. cbn [mb_killed set_fkilled]. destruct (mb_killed (get_mb st j)) eqn:Ek.
  - apply st_mono_set_mb. split; cbn; auto.
  - eapply st_mono_trans; [|apply st_mono_wake]. eapply st_mono_trans; [|apply st_mono_wake].
    eapply st_mono_trans; [|apply st_mono_wake]. apply st_mono_set_mb. split; cbn; auto.
Qed.

Section Mono.
Variable nt : net.
Variable tid : nat.

Lemma st_mono_read_region resume st t : st_mono st (read_region nt tid resume st t).
Proof.
  unfold read_region.
  destruct (has_msg _ _ || mb_killed _).
  - destruct (mb_killed _).
    + eapply st_mono_trans; [|apply st_mono_set_th]. apply st_mono_set_mb. split; cbn; auto.
    + destruct (take_from _ _ _) as [[ms n'] last].
      eapply st_mono_trans; [|apply st_mono_set_th]. eapply st_mono_trans; [|apply st_mono_wake].
      eapply st_mono_trans; [|apply st_mono_maybe_wake_gate]. apply st_mono_set_mb. split; cbn; auto.
  - destruct resume; [apply st_mono_set_th|].
    eapply st_mono_trans; [|apply st_mono_set_th]. eapply st_mono_trans; [|apply st_mono_maybe_wake_gate].
    apply st_mono_set_mb. split; cbn; auto.
Qed.

Lemma st_mono_after_send st t oi mg closing : st_mono st (after_send nt tid st t oi mg closing).
Proof.
  unfold after_send. eapply st_mono_trans; [|apply st_mono_set_th].
  destruct closing; [|apply st_mono_refl]. apply st_mono_set_mb. split; cbn; auto.
Qed.

Lemma st_mono_do_push st t oi mg closing : st_mono st (do_push nt tid st t oi mg closing).
Proof.
  unfold do_push. eapply st_mono_trans; [|apply st_mono_after_send].
  eapply st_mono_trans; [|apply st_mono_wake]. apply st_mono_set_mb. split; cbn; auto.
Qed.

Lemma st_mono_send_region resume st t oi mg closing : st_mono st (send_region nt tid resume st t oi mg closing).
Proof.
  unfold send_region.
  destruct resume.
  - destruct (mb_can_write _); [|apply st_mono_set_th].
    destruct (mb_killed _); [destruct (mb_fkilled _); auto using st_mono_set_th, st_mono_after_send | apply st_mono_do_push].
  - destruct (mb_closed _); [apply st_mono_set_th|]. destruct (mb_fkilled _); [apply st_mono_set_th|].
    destruct (mb_killed _); [apply st_mono_after_send|].
    destruct (mb_can_write _); [apply st_mono_do_push | apply st_mono_set_th].
Qed.

Lemma st_mono_gate_region resume st t oi : st_mono st (gate_region nt tid resume st t oi).
Proof.
  unfold gate_region. destruct (mb_can_fetch _).
  - destruct (t_kind t); try apply st_mono_set_th. destruct (next_gate _ _ _); apply st_mono_set_th.
  - destruct resume; apply st_mono_set_th.
Qed.

Lemma st_mono_thread_step st t : st_mono st (thread_step nt tid st t).
Proof.
  unfold thread_step. destruct (t_pc t); try apply st_mono_refl;
    auto using st_mono_gate_region, st_mono_read_region, st_mono_send_region.
  - unfold killout_region. eapply st_mono_trans; [apply st_mono_kill_mb | apply st_mono_set_th].
  - unfold killin_region. eapply st_mono_trans; [apply st_mono_kill_mb | apply st_mono_set_th].
  - unfold killall_region. eapply st_mono_trans; [apply st_mono_kill_mb | apply st_mono_set_th].
Qed.

Lemma st_mono_settle st : st_mono st (settle nt tid st).
Proof.
  unfold settle. destruct (t_pc (get_th st tid)); try apply st_mono_refl.
  destruct (first_alive _ _ _); apply st_mono_set_th.
Qed.

Lemma get_th_set_th_eq st i t : i < length (ths st) -> get_th (set_th st i t) i = t.
Proof. intros H. unfold get_th, set_th. cbn. apply nth_upd_eq. auto. Qed.

(* no region on a killed mailbox leaves the thread waiting *)
Lemma read_killed_no_block resume st t :
  tid < length (ths st) -> mb_killed (get_mb st (r_mb (cur_r t))) = true ->
  not_waiting (t_pc (get_th (read_region nt tid resume st t) tid)).
Proof.
  intros Ht Hk. unfold read_region. rewrite Hk, orb_true_r.
  rewrite get_th_set_th_eq by (rewrite ths_set_mb; auto).
  apply plain_not_waiting. apply on_input_killed_plain.
Qed.

Lemma loop_start_not_waiting st t : not_waiting (t_pc (loop_start nt tid st t)).
Proof.
  unfold loop_start. destruct (t_kind t); try (apply plain_not_waiting; apply consume_plain).
  - destruct (mb_lazy _); [cbn; auto | apply plain_not_waiting; apply consume_plain].
  - destruct (next_gate _ _ _); [cbn; auto | apply plain_not_waiting; apply consume_plain].
Qed.

Lemma after_send_not_waiting st t oi mg closing :
  tid < length (ths st) -> not_waiting (t_pc (get_th (after_send nt tid st t oi mg closing) tid)).
Proof.
  intros Ht. unfold after_send. rewrite get_th_set_th_eq.
  - destruct (S oi <? n_outs t); [cbn; auto|]. destruct closing; [cbn; auto|]. apply loop_start_not_waiting.
  - destruct closing; [rewrite ths_set_mb|]; auto.
Qed.

Lemma send_killed_no_block resume st t oi mg closing :
  tid < length (ths st) -> mb_killed (get_mb st (out_mb t oi)) = true ->
  not_waiting (t_pc (get_th (send_region nt tid resume st t oi mg closing) tid)).
Proof.
  intros Ht Hk. unfold send_region. unfold mb_can_write. rewrite Hk, orb_true_r.
  assert (Hr : forall e, not_waiting (t_pc (get_th (set_th st tid (send_raise nt t closing e)) tid))).
  { intros e. rewrite get_th_set_th_eq by auto. apply plain_not_waiting. apply send_raise_plain. }
  destruct resume.
  - destruct (mb_fkilled _); auto using after_send_not_waiting.
  - destruct (mb_closed _); auto. destruct (mb_fkilled _); auto using after_send_not_waiting.
Qed.

Lemma gate_killed_no_block resume st t oi :
  tid < length (ths st) -> mb_killed (get_mb st (out_mb t oi)) = true ->
  not_waiting (t_pc (get_th (gate_region nt tid resume st t oi) tid)).
Proof.
  intros Ht Hk. unfold gate_region. unfold mb_can_fetch. rewrite Hk.
  destruct (t_kind t); try (rewrite get_th_set_th_eq by auto; apply plain_not_waiting; apply consume_plain).
  destruct (next_gate _ _ _); rewrite get_th_set_th_eq by auto; [cbn; auto | apply plain_not_waiting; apply consume_plain].
Qed.
End Mono.

Theorem killed_stable_step nt st tid st' j :
  nstep nt st tid = Some st' -> mb_killed (get_mb st j) = true -> mb_killed (get_mb st' j) = true.
Proof.
  unfold nstep. destruct (nth_error (ths st) tid) as [t|]; [|discriminate].
  destruct (t_enabled nt st t); [|discriminate]. intros H Hk. inversion H; subst st'.
  pose proof (st_mono_trans _ _ _ (st_mono_thread_step nt tid st t) (st_mono_settle nt tid _) j) as [Hm _]. auto.
Qed.

Theorem killed_stable nt sched : forall st st' j,
  nrun nt st sched = Some st' -> mb_killed (get_mb st j) = true -> mb_killed (get_mb st' j) = true.
Proof.
  induction sched as [|t s IH]; intros st st' j H Hk; cbn in H.
  - inversion H; subst; auto.
  - destruct (nstep nt st t) eqn:E; [|discriminate]. eapply IH; eauto. eapply killed_stable_step; eauto.
Qed.

(* ---------- summary ---------- *)
Theorem kill_wakes_everyone nt boxes threads sched st :
  (forall t, In t threads -> plain_pc (t_pc t)) -> (forall m, In m boxes -> mb_box m = []) ->
  nrun nt (ninit nt boxes threads) sched = Some st ->
  (forall i t j, nth_error (ths st) i = Some t -> waits_on t j -> mb_killed (get_mb st j) = true -> t_woken t = true) /\
  (forall j c, j < length (mbs st) ->
     mb_killed (get_mb (kill_mb st j c) j) = true /\ mb_fkilled (get_mb (kill_mb st j c) j) = true) /\
  (forall sched' st' j, nrun nt st sched' = Some st' -> mb_killed (get_mb st j) = true -> mb_killed (get_mb st' j) = true) /\
  (forall tid t resume, tid < length (ths st) -> mb_killed (get_mb st (r_mb (cur_r t))) = true ->
     not_waiting (t_pc (get_th (read_region nt tid resume st t) tid))) /\
  (forall tid t resume oi mg closing, tid < length (ths st) -> mb_killed (get_mb st (out_mb t oi)) = true ->
     not_waiting (t_pc (get_th (send_region nt tid resume st t oi mg closing) tid))) /\
  (forall tid t resume oi, tid < length (ths st) -> mb_killed (get_mb st (out_mb t oi)) = true ->
     not_waiting (t_pc (get_th (gate_region nt tid resume st t oi) tid))).
Proof.
  intros Ht Hm Hrun. pose proof (Wn_reachable _ _ _ _ _ Ht Hm Hrun) as HW.
  split; [intros; eapply killed_waiter_woken; eauto|].
  split; [intros; apply kill_mb_killed; auto|].
  split; [intros; eapply killed_stable; eauto|].
  split; [intros; apply read_killed_no_block; auto|].
  split; [intros; apply send_killed_no_block; auto | intros; apply gate_killed_no_block; auto].
Qed.

(* the hypotheses are met by the networks built with mk_thread / mk_mbox *)
Lemma mk_thread_plain k ins : plain_pc (t_pc (mk_thread k ins)). Proof. cbn. auto. Qed.
Lemma mk_mbox_empty c l d : mb_box (mk_mbox c l d) = []. Proof. reflexivity. Qed.
