(* Invariants of the Plugin.iter model (property C08), part 1: per-dependency steps. *)
From SV Require Import Model.Rows Model.SplitArray Model.Chunk Model.PluginIter
     Proof.RowsFacts Proof.SplitArrayProof Proof.ChunkProof.

(* ---------- sources ---------- *)

Definition srows (cs : list chunk) : list row := flat_map crows cs.

(* chunks are contiguous from a to b *)
Fixpoint chain (a : Z) (cs : list chunk) (b : Z) : Prop :=
  match cs with [] => a = b | c :: r => cstart c = a /\ chain (cend c) r b end.

Definition src_ok (dt : Z) (run : option Z) (cs : list chunk) : Prop :=
  Forall (fun c => wf c /\ cdtype c = dt /\ crun c = run) cs.

Lemma chain_le a cs b : Forall wf cs -> chain a cs b -> a <= b.
Proof.
  revert a; induction cs as [|c r IH]; intros a HF HC; cbn in HC; [lia|].
  destruct HC as [Hs HC]. inversion HF as [|? ? Hw HF']; subst.
  specialize (IH _ HF' HC). destruct Hw as (_ & Hse & _). lia.
Qed.

Lemma src_ok_wf dt run cs : src_ok dt run cs -> Forall wf cs.
Proof. intros H. eapply Forall_impl; [|exact H]. cbn. tauto. Qed.

Lemma chain_rows_ge a cs b :
  Forall wf cs -> chain a cs b -> Forall (fun q => a <= rt q /\ rt q <= re q /\ re q <= b) (srows cs).
Proof.
  revert a; induction cs as [|c r IH]; intros a HF HC; cbn [srows flat_map]; [constructor|].
  cbn in HC. destruct HC as [Hs HC]. inversion HF as [|? ? Hw HF']; subst.
  pose proof (chain_le _ _ _ HF' HC) as Hle.
  apply Forall_app; split.
  - destruct Hw as (_ & Hse & _ & Hin). eapply Forall_impl; [|exact Hin]. cbn. intros; lia.
  - specialize (IH _ HF' HC). destruct Hw as (_ & Hse & _).
    eapply Forall_impl; [|exact IH]. cbn. intros; lia.
Qed.

(* ---------- the invariant of one dependency ---------- *)

(* R = all rows of the dependency, b = where its source ends, done = rows already handed to compute *)
Record slot_inv (R : list row) (b dt : Z) (run : option Z) (done : list row) (s : slot) : Prop := {
  si_wf : wf (sbuf s);
  si_dt : cdtype (sbuf s) = dt;
  si_run : crun (sbuf s) = run;
  si_src : src_ok dt run (siter s);
  si_chain : chain (cend (sbuf s)) (siter s) b;
  si_rows : done ++ crows (sbuf s) ++ srows (siter s) = R;
  si_done : Forall (fun q => rt q <= re q /\ re q <= cstart (sbuf s)) done
}.

Lemma slot_inv_end_le R b dt run done s : slot_inv R b dt run done s -> cend (sbuf s) <= b.
Proof. intros H. eapply chain_le; [eapply src_ok_wf, (si_src _ _ _ _ _ _ H)|apply (si_chain _ _ _ _ _ _ H)]. Qed.

(* one _fetch_chunk that finds a chunk *)
Lemma fetch_step R b dt run done k buf c it :
  slot_inv R b dt run done (mkslot k buf (c :: it)) ->
  exists buf', concatenate [Some buf; Some c] false = Ok buf' /\
               slot_inv R b dt run done (mkslot k buf' it) /\
               cstart buf' = cstart buf /\ cend buf' = cend c /\ cend buf <= cend buf' /\ ckind buf' = ckind buf.
Proof.
  intros [Hwf Hdt Hrun Hsrc Hch Hrows Hdone]. cbn [sbuf siter] in *.
  apply Forall_cons_iff in Hsrc as [(Hwc & Hdc & Hrc) Hsrc'].
  cbn in Hch. destruct Hch as [Hcs Hch].
  destruct (concatenate_two_correct buf c false Hwf Hwc) as (b' & E & Wb & A1 & A2 & A3 & A4 & A5 & A6 & _);
    try congruence; try lia.
  exists b'. split; [exact E|]. split; [|split; [exact A1|split; [exact A2|split; [|exact A5]]]].
  - constructor; cbn [sbuf siter].
    + exact Wb.
    + congruence.
    + congruence.
    + exact Hsrc'.
    + rewrite A2. exact Hch.
    + rewrite A3. rewrite <- Hrows. cbn [srows flat_map]. rewrite <- !app_assoc. reflexivity.
    + rewrite A1. exact Hdone.
  - rewrite A2. destruct Hwc as (_ & Hse & _). lia.
Qed.

(* the `while buffer.end < this_chunk_end: fetch` loop *)
Lemma fetch_until_spec it : forall R b dt run done k buf tend,
  slot_inv R b dt run done (mkslot k buf it) ->
  match fetch_until buf it tend with
  | Ok (buf', it') =>
      slot_inv R b dt run done (mkslot k buf' it') /\ cstart buf' = cstart buf /\ tend <= cend buf' /\
      ckind buf' = ckind buf /\ (length it' <= length it)%nat
  | Err e => e = E_PREMATURE /\ b < tend
  end.
Proof.
  induction it as [|c it IH]; intros R b dt run done k buf tend HI; cbn [fetch_until].
  - destruct (cend buf <? tend) eqn:E.
    + split; [reflexivity|]. pose proof (si_chain _ _ _ _ _ _ HI) as Hc. cbn in Hc. lia.
    + split; [exact HI|]. split; [reflexivity|]. split; [lia|]. split; [reflexivity|lia].
  - destruct (cend buf <? tend) eqn:E.
    + destruct (fetch_step _ _ _ _ _ _ _ _ _ HI) as (b' & Ec & HI' & A1 & A2 & A3 & A4).
      rewrite Ec. cbn [res_bind].
      specialize (IH R b dt run done k b' tend HI').
      destruct (fetch_until b' it tend) as [[buf' it']|e]; [|exact IH].
      destruct IH as (I1 & I2 & I3 & I4 & I5).
      split; [exact I1|]. split; [congruence|]. split; [exact I3|]. split; [congruence|]. cbn [length]. lia.
    + split; [exact HI|]. split; [reflexivity|]. split; [lia|]. split; [reflexivity|lia].
Qed.

(* ---------- an input split off a buffer, waiting to be computed ---------- *)

Definition straddled (R : list row) (y : Z) : Prop := exists q, In q R /\ straddles q y.

(* `inp` was split off the front of the dependency's buffer; `y` is the time the split aimed at *)
Record pend_inv (R : list row) (b dt : Z) (run : option Z) (done : list row) (y : Z) (inp : chunk) (s : slot) : Prop := {
  pi_wf : wf inp;
  pi_dt : cdtype inp = dt;
  pi_run : crun inp = run;
  pi_adj : cend inp = cstart (sbuf s);
  pi_slot : slot_inv R b dt run (done ++ crows inp) s;
  pi_done : Forall (fun q => rt q <= re q /\ re q <= cstart inp) done;
  pi_le : cend inp <= y;
  pi_late : forall z, cend inp < z <= y -> straddled R z
}.

Lemma In_app3 {A} (x : A) a b c : In x (a ++ b ++ c) -> In x a \/ In x b \/ In x c.
Proof. intros H. apply in_app_or in H as [H|H]; [auto|]. apply in_app_or in H as [H|H]; auto. Qed.

(* nothing straddles the start of a buffer *)
Lemma slot_unstraddled R b dt run done s : slot_inv R b dt run done s -> ~ straddled R (cstart (sbuf s)).
Proof.
  intros HI [q [Hq [Hs1 Hs2]]].
  rewrite <- (si_rows _ _ _ _ _ _ HI) in Hq. apply In_app3 in Hq as [Hq|[Hq|Hq]].
  - pose proof (si_done _ _ _ _ _ _ HI) as HF. rewrite Forall_forall in HF. specialize (HF q Hq). cbn in HF. lia.
  - destruct (si_wf _ _ _ _ _ _ HI) as (_ & _ & _ & HF). rewrite Forall_forall in HF. specialize (HF q Hq). cbn in HF. lia.
  - pose proof (chain_rows_ge _ _ _ (src_ok_wf _ _ _ (si_src _ _ _ _ _ _ HI)) (si_chain _ _ _ _ _ _ HI)) as HF.
    rewrite Forall_forall in HF. specialize (HF q Hq). cbn in HF.
    destruct (si_wf _ _ _ _ _ _ HI) as (_ & Hse & _). lia.
Qed.

Lemma pend_unstraddled R b dt run done y inp s : pend_inv R b dt run done y inp s -> ~ straddled R (cend inp).
Proof. intros HP. rewrite (pi_adj _ _ _ _ _ _ _ _ HP). eapply slot_unstraddled, (pi_slot _ _ _ _ _ _ _ _ HP). Qed.

Lemma slot_rows_sub R b dt run done s q : slot_inv R b dt run done s -> In q (crows (sbuf s)) -> In q R.
Proof.
  intros HI Hq. rewrite <- (si_rows _ _ _ _ _ _ HI). apply in_or_app. right. apply in_or_app. left. exact Hq.
Qed.

(* early split of a buffer at a time inside it *)
Lemma split_buffer R b dt run done k buf it t :
  slot_inv R b dt run done (mkslot k buf it) -> cstart buf <= t -> t <= cend buf ->
  exists inp rest, chunk_split buf t true = Ok (inp, rest) /\
    pend_inv R b dt run done t inp (mkslot k rest it) /\ cstart inp = cstart buf /\
    ckind inp = ckind buf /\ ckind rest = ckind buf.
Proof.
  intros HI Ht1 Ht2. pose proof HI as [Hwf Hdt Hrun Hsrc Hch Hrows Hdone]. cbn [sbuf siter] in *.
  pose proof (chunk_split_correct buf t true Hwf) as HP. unfold chunk_split_post in HP.
  rewrite Z.min_l, Z.max_l in HP by lia.
  destruct (chunk_split buf t true) as [[c1 c2]|e]; [|destruct HP as (_ & Hf & _); discriminate].
  destruct HP as (W1 & W2 & A1 & A2 & A3 & A4 & (M1 & M2 & M3 & M4) & (N1 & N2 & N3 & N4) & A5 & _ & A6).
  exists c1, c2. split; [reflexivity|]. split; [|split; [exact A1|split; [exact M2|exact N2]]].
  constructor; cbn [sbuf siter].
  - exact W1.
  - congruence.
  - congruence.
  - exact A2.
  - constructor; cbn [sbuf siter].
    + exact W2.
    + congruence.
    + congruence.
    + exact Hsrc.
    + rewrite A3. exact Hch.
    + rewrite <- Hrows, <- A4, <- !app_assoc. reflexivity.
    + apply Forall_app; split.
      * eapply Forall_impl; [|exact Hdone]. cbn. intros q Hq.
        destruct W1 as (_ & Hse & _). lia.
      * destruct W1 as (_ & _ & _ & HF). eapply Forall_impl; [|exact HF]. cbn. intros; lia.
  - rewrite A1. exact Hdone.
  - exact A5.
  - intros z Hz. destruct (A6 z Hz) as [q [Hq Hs]]. exists q. split; [|exact Hs].
    eapply slot_rows_sub; [exact HI|exact Hq].
Qed.

(* one dependency of the first `for d in depends_on` loop *)
Lemma gather_one_spec R b dt run done s is_pm tce :
  slot_inv R b dt run done s -> cstart (sbuf s) <= tce ->
  (is_pm = true -> cend (sbuf s) = tce) ->
  match gather_one is_pm s tce with
  | Ok (inp, s') =>
      pend_inv R b dt run done tce inp s' /\ cstart inp = cstart (sbuf s) /\ skind s' = skind s /\
      ckind inp = ckind (sbuf s) /\ (length (siter s') <= length (siter s))%nat /\
      (is_pm = true -> siter s' = siter s)
  | Err e => e = E_PREMATURE /\ is_pm = false /\ b < tce
  end.
Proof.
  intros HI Hs Hpm. destruct s as [k buf it]. cbn [sbuf siter skind] in *. unfold gather_one. cbn [sbuf siter skind].
  destruct is_pm.
  - cbn [res_bind fst snd].
    destruct (split_buffer _ _ _ _ _ _ _ _ tce HI) as (inp & rest & E & HP & A1 & A2 & A3); [lia|rewrite Hpm; auto; lia|].
    rewrite E. cbn [res_bind fst snd sbuf siter skind].
    split; [exact HP|]. split; [exact A1|]. split; [reflexivity|]. split; [exact A2|]. split; [lia|reflexivity].
  - pose proof (fetch_until_spec it R b dt run done k buf tce HI) as HF.
    destruct (fetch_until buf it tce) as [[buf' it']|e]; cbn [res_bind fst snd].
    + destruct HF as (HI' & F1 & F2 & F3 & F4).
      pose proof (slot_inv_end_le _ _ _ _ _ _ HI') as Hle. cbn [sbuf] in Hle.
      destruct (split_buffer _ _ _ _ _ _ _ _ tce HI') as (inp & rest & E & HP & A1 & A2 & A3); [lia|lia|].
      rewrite E. cbn [res_bind fst snd sbuf siter skind].
      split; [exact HP|]. split; [congruence|]. split; [reflexivity|]. split; [congruence|]. split; [exact F4|intros; discriminate].
    + destruct HF as [-> Hb]. auto.
Qed.

(* one dependency of one re-trim pass: split the input again, put the rest back in front of the buffer *)
Lemma retrim_one R b dt run done y inp s t :
  pend_inv R b dt run done y inp s -> cstart inp <= t -> t <= cend inp ->
  exists a back buf', chunk_split inp t true = Ok (a, back) /\
    concatenate [Some back; Some (sbuf s)] false = Ok buf' /\
    pend_inv R b dt run done t a (mkslot (skind s) buf' (siter s)) /\ cstart a = cstart inp /\
    ckind a = ckind inp.
Proof.
  intros HP Ht1 Ht2. pose proof HP as [Hwf Hdt Hrun Hadj HS Hdone Hle Hlate].
  pose proof HS as [Swf Sdt Srun Ssrc Sch Srows Sdone].
  pose proof (chunk_split_correct inp t true Hwf) as HQ. unfold chunk_split_post in HQ.
  rewrite Z.min_l, Z.max_l in HQ by lia.
  destruct (chunk_split inp t true) as [[c1 c2]|e]; [|destruct HQ as (_ & Hf & _); discriminate].
  destruct HQ as (W1 & W2 & A1 & A2 & A3 & A4 & (M1 & M2 & M3 & M4) & (N1 & N2 & N3 & N4) & A5 & _ & A6).
  destruct (concatenate_two_correct c2 (sbuf s) false W2 Swf) as (b' & E & Wb & B1 & B2 & B3 & B4 & B5 & B6 & _);
    try congruence; try lia.
  exists c1, c2, b'. split; [reflexivity|]. split; [exact E|]. split; [|split; [exact A1|exact M2]].
  constructor; cbn [sbuf siter].
  - exact W1.
  - congruence.
  - congruence.
  - congruence.
  - constructor; cbn [sbuf siter].
    + exact Wb.
    + congruence.
    + congruence.
    + exact Ssrc.
    + rewrite B2. exact Sch.
    + rewrite B3. rewrite <- Srows, <- A4, <- !app_assoc. reflexivity.
    + rewrite B1, <- A2. apply Forall_app; split.
      * eapply Forall_impl; [|exact Hdone]. cbn. intros q Hq.
        destruct W1 as (_ & Hse & _). lia.
      * destruct W1 as (_ & _ & _ & HF). eapply Forall_impl; [|exact HF]. cbn. intros; lia.
  - rewrite A1. exact Hdone.
  - exact A5.
  - intros z Hz. destruct (A6 z Hz) as [q [Hq Hs]]. exists q. split; [|exact Hs].
    rewrite <- Srows. apply in_or_app. left. apply in_or_app. right. exact Hq.
Qed.
