(* highest_density_region: every returned interval list fits the result buffer of _buffer_size
   slots per fraction (otherwise the -1 overflow marker is returned).  With the pinned test
   `len(gaps) > _buffer_size` a list of _buffer_size + 1 intervals was written to the buffer. *)
From SV Require Import Model.HDR.

Definition fits (bs : Z) (o : hdr_out) : Prop :=
  match ho_iv o with Some ivs => zlen ivs <= Z.max 1 bs | None => True end.

Lemma hdr_loop_fits data m2m area upper bs : forall js lowest fs,
  Forall (fits bs) (fst (hdr_loop data m2m area upper bs js lowest fs)).
Proof.
  induction js as [|j js IH]; intros lowest fs; [constructor|].
  cbn [hdr_loop]. cbv zeta.
  destruct (match lowest with Some l => l =? zget data (zget m2m j) | None => false end); [apply IH|].
  match goal with |- context [length (filter ?p fs)] => destruct (length (filter p fs)) as [|c] eqn:Ec end;
    [apply IH|].
  match goal with |- context [map ?f (firstn (S c) fs)] => set (outs := map f (firstn (S c) fs)) end.
  assert (Ho : Forall (fits bs) outs).
  { unfold outs. rewrite Forall_map. rewrite Forall_forall. intros fd _. unfold fits. cbn [ho_iv].
    match goal with |- context [if ?b then None else Some ?l] => destruct b eqn:Eb; [exact I|lia] end. }
  destruct (skipn (S c) fs) as [|r0 rest]; [exact Ho|].
  match goal with |- context [hdr_loop data m2m area upper bs js ?lo ?f] =>
    specialize (IH lo f); destruct (hdr_loop data m2m area upper bs js lo f) as [o2 rem] end.
  cbn [fst] in *. apply Forall_app. split; assumption.
Qed.

Theorem hdr_intervals_fit_buffer data fs upper bs outs :
  highest_density_region data fs upper bs = Ok outs -> Forall (fits bs) outs.
Proof.
  unfold highest_density_region. destruct (zsum data <=? 0); [discriminate|].
  pose proof (hdr_loop_fits data (rev (argsort data)) (zsum data) upper bs
                (zseqn 1 (length data - 1)) (Some (zget data (zget (rev (argsort data)) 0))) fs) as H.
  destruct (hdr_loop data (rev (argsort data)) (zsum data) upper bs (zseqn 1 (length data - 1))
              (Some (zget data (zget (rev (argsort data)) 0))) fs) as [o rem]. cbn [fst] in H.
  intros E. injection E as <-. apply Forall_app. split; [exact H|].
  rewrite Forall_map, Forall_forall. intros fd _. unfold fits. cbn. lia.
Qed.

(* non-vacuity: three separate samples, buffer of 2 -> overflow marker; buffer of 3 -> the intervals *)
Example hdr_overflow_marker :
  exists a, highest_density_region [1; 0; 1; 0; 1] [9 # 10]%Q false 2 = Ok [mkho None a].
Proof. eexists. vm_compute. reflexivity. Qed.
Example hdr_three_intervals :
  exists a, highest_density_region [1; 0; 1; 0; 1] [9 # 10]%Q false 3
            = Ok [mkho (Some [(0, 1); (2, 3); (4, 5)]) a].
Proof. eexists. vm_compute. reflexivity. Qed.

(* Documentation of the pinned tree (before /repo commit 1da565c): the test `len(gaps) > _buffer_size`
   lets a list of _buffer_size + 1 intervals through *)
Theorem hdr_pinned_buffer_test_refuted :
  exists ivs bs, (zlen ivs - 1 >? bs) = false /\ ivs = runs (sort_z [4; 2; 0]) /\ ~ zlen ivs <= Z.max 1 bs.
Proof. exists [(0, 1); (2, 3); (4, 5)], 2. repeat split; vm_compute; congruence. Qed.
