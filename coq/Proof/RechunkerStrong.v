(* Strengthening of rechunk_stream_correct: metadata preserved and every interior cut of the output lies
   strictly inside a row-free gap of the stream (used by C03 / C16). *)
From SV Require Import Model.Rows Model.SplitArray Model.Chunk Model.Rechunker
     Proof.RowsFacts Proof.SplitArrayProof Proof.ChunkProof Proof.RechunkerProof.

Definition in_gap (rows : list row) (x : Z) : Prop := Forall (fun r => re r < x \/ x < rt r) rows.

Lemma in_gap_app r1 r2 x : in_gap (r1 ++ r2) x <-> in_gap r1 x /\ in_gap r2 x.
Proof. unfold in_gap. apply Forall_app. Qed.

(* rows of a wf chain end at or before the chain's end and start at or after its start *)
Lemma chain_rows_bounds : forall l s e, Forall wf l -> chain s l e ->
  s <= e /\ Forall (fun r => s <= rt r /\ re r <= e) (flat_map crows l).
Proof.
  induction l as [|c l IH]; intros s e Wl Hc; cbn in *; [subst; split; [lia|constructor]|].
  inversion Wl as [|? ? Wc Wl']; subst. destruct Hc as [Hs Hc].
  destruct (IH (cend c) e Wl' Hc) as [Hle HF]. destruct Wc as (W0 & W1 & W2 & W3).
  split; [lia|]. apply Forall_app; split.
  - eapply Forall_impl; [|exact W3]. cbn. intros; lia.
  - eapply Forall_impl; [|exact HF]. cbn. intros; lia.
Qed.

Definition cut_ok (c : chunk) (o : chunk) : Prop :=
  cstart c < cend o < cend c /\ in_gap (crows c) (cend o).

Lemma split_at_gap_cut c A d B c1 c2 :
  wf c -> crows c = A ++ d :: B -> A <> [] -> rt d - Mx A > MG ->
  chunk_split c (rt d - split_offset) false = Ok (c1, c2) ->
  wf c1 -> crows c1 = A -> cstart c1 = cstart c -> cut_ok c c1.
Proof.
  intros Hwf Hrows Hne Hgap Hsp W1 R1 S1. pose proof Hwf as (H0 & Hse & Hs & HF).
  pose proof split_offset_ok as [Ho1 Ho2]. unfold MG in Hgap.
  pose proof (chunk_split_correct c (rt d - split_offset) false Hwf) as HP. rewrite Hsp in HP.
  unfold chunk_split_post in HP. destruct HP as (_ & _ & _ & _ & _ & _ & _ & _ & _ & Hex & _).
  specialize (Hex eq_refl).
  destruct A as [|a0 A']; [congruence|]. set (A := a0 :: A') in *.
  rewrite Hrows in Hs, HF. apply Forall_app in HF as [HFA HFd]. inversion HFd as [|? ? Hd HFB]; subst.
  assert (Ha0 : cstart c <= rt a0 /\ rt a0 <= re a0 /\ re a0 <= Mx A).
  { inversion HFA; subst. cbn in H2. split; [lia|split; [lia|]]. apply Mx_in_le. left; auto. }
  assert (Ht : Z.max (Z.min (rt d - split_offset) (cend c)) (cstart c) = rt d - split_offset) by (cbn in Hd; lia).
  rewrite Ht in Hex. unfold cut_ok. rewrite Hex. split; [cbn in Hd; lia|].
  rewrite Hrows. apply in_gap_app. split.
  - apply Forall_forall. intros q Hq. left. pose proof (Mx_in_le A q Hq). lia.
  - apply sorted_app in Hs as (_ & Hs & _). cbn in Hs. destruct Hs as [Hs _].
    constructor; [right; lia|]. apply Forall_forall. intros q Hq. right.
    rewrite Forall_forall in Hs. specialize (Hs q Hq). lia.
Qed.

Lemma split_off_cuts : forall rel c out c',
  wf c -> GapsRel (crows c) rel -> split_off c rel = Ok (out, c') ->
  Forall (cut_ok c) out.
Proof.
  induction rel as [|i rest IH]; intros c out c' Hwf HG Hso.
  - cbn in Hso. inversion Hso; subst. constructor.
  - inversion HG as [|? ? ? A d B Hrows HA Hne Hgap HG']; subst.
    destruct (split_at_gap c A d B Hwf Hrows Hne Hgap) as (c1 & c2 & Es & W1 & W2 & R1 & R2 & S1 & S2 & S3 & M1 & M2).
    cbn [split_off] in Hso.
    assert (Hn : nth_error (crows c) (length A) = Some d).
    { rewrite Hrows, nth_error_app2 by lia. rewrite Nat.sub_diag. reflexivity. }
    rewrite Hn, Es in Hso. cbn [res_bind] in Hso.
    destruct (split_off c2 rest) as [[out2 c2']|e] eqn:E2; cbn [res_bind] in Hso; [|discriminate].
    inversion Hso; subst out c'. clear Hso.
    pose proof (split_at_gap_cut c A d B c1 c2 Hwf Hrows Hne Hgap Es W1 R1 S1) as Hc1.
    constructor; [exact Hc1|].
    rewrite <- R2 in HG'. specialize (IH c2 out2 c2' W2 HG' E2).
    eapply Forall_impl; [|exact IH]. intros o ((Ho1 & Ho2) & Ho3). unfold cut_ok.
    destruct Hc1 as ((Hc1a & Hc1b) & _).
    split; [lia|]. rewrite Hrows. apply in_gap_app. split.
    + destruct W1 as (_ & _ & _ & W1). rewrite R1 in W1.
      apply Forall_forall. intros q Hq. left. rewrite Forall_forall in W1. specialize (W1 q Hq). cbn in W1. lia.
    + rewrite <- R2. exact Ho3.
Qed.

Definition meta_eq (c0 c : chunk) : Prop := cdtype c = cdtype c0 /\ crun c = crun c0.

(* cuts of a later receive stay valid w.r.t. everything emitted before and everything that follows *)
Definition cut_in (s e : Z) (rows : list row) (o : chunk) : Prop :=
  s < cend o < e /\ in_gap rows (cend o).

Lemma rechunk_from_some_strong : forall cs c0 E,
  wf c0 -> 0 < ctarget c0 -> Forall wf cs -> Forall (fun c => 0 < ctarget c) cs ->
  Forall (meta_eq c0) cs -> chain (cend c0) cs E ->
  exists body lst, rechunk_from (Some c0) cs = Ok (body ++ [lst]) /\ Forall wf (body ++ [lst]) /\
    flat_map crows (body ++ [lst]) = crows c0 ++ flat_map crows cs /\
    chain (cstart c0) (body ++ [lst]) E /\ Forall (meta_eq c0) (body ++ [lst]) /\
    Forall (cut_in (cstart c0) E (crows c0 ++ flat_map crows cs)) body.
Proof.
  induction cs as [|c rest IH]; intros c0 E W0 T0 Wcs Tcs Mcs Hch.
  - cbn in Hch. subst E. exists [], c0. cbn. rewrite app_nil_r.
    split; [reflexivity|]. split; [constructor; auto|]. split; [reflexivity|]. split; [auto|].
    split; [constructor; [split; reflexivity|constructor]|constructor].
  - inversion Wcs as [|? ? Wc Wrest]; subst. inversion Tcs as [|? ? Tc Trest]; subst.
    inversion Mcs as [|? ? [Mc1 Mc2] Mrest]; subst. cbn in Hch. destruct Hch as [Hst Hch].
    destruct (concatenate_two_correct c0 c false W0 Wc Mc1 Mc2) as (c1 & Ec & W1 & S1 & E1 & R1 & D1 & _ & U1 & G1); [lia|].
    assert (T1 : 0 < ctarget c1) by lia.
    destruct (receive_core c1 W1 T1) as (splits & out & c' & Es & Eo & Wo & Wc' & Ro & Co & Mo).
    (* recover the GapsRel to get the cut facts *)
    assert (Hcuts : Forall (cut_ok c1) out).
    { destruct (get_splits_ok (crows c1) (ctarget c1) DEFAULT_CHUNK_SPLIT_NS T1) as (l & El & gs & -> & Hs & Hinc).
      rewrite El in Es. inversion Es; subst splits.
      eapply split_off_cuts; [exact W1| |exact Eo].
      change (crows c1) with (skipn 0 (crows c1)). apply good_splits_rel; [exact Hs|].
      intros g Hg. apply gap_indices_isgap; [|apply Hinc; exact Hg].
      destruct W1 as (H0 & _ & _ & HF). eapply Forall_impl; [|exact HF]. cbn. intros; lia. }
    apply chain_app in Co as (m & Co1 & Co2). cbn in Co2. destruct Co2 as [Hm Hce]. subst m.
    apply Forall_app in Mo as [Mo1 Mo2]. inversion Mo2 as [|? ? (Mc'1 & Mc'2 & Mc'3) _]; subst.
    assert (Hrest_chain : chain (cend c') rest E) by (rewrite Hce, E1; exact Hch).
    destruct (IH c' E Wc') as (body2 & lst & E2 & Wo2 & Ro2 & Co2 & Mo2' & Cut2).
    + lia.
    + exact Wrest.
    + exact Trest.
    + eapply Forall_impl; [|exact Mrest]. unfold meta_eq. intros x [X1 X2]. split; congruence.
    + exact Hrest_chain.
    + exists (out ++ body2), lst. rewrite <- app_assoc.
      cbn [rechunk_from]. unfold receive. cbn [res_bind].
      rewrite Ec. cbn [res_bind]. rewrite Es. cbn [res_bind]. rewrite Eo. cbn [res_bind]. rewrite E2. cbn [res_bind].
      (* facts about ranges *)
      destruct (chain_rows_bounds out (cstart c1) (cstart c') Wo Co1) as [Hb1 Hrows1].
      destruct (chain_rows_bounds rest (cend c') E Wrest Hrest_chain) as [Hb2 Hrows2].
      pose proof Wc' as (Wc'0 & Wc'1 & _ & Wc'3).
      split; [reflexivity|]. split; [apply Forall_app; split; auto|].
      split; [rewrite flat_map_app, Ro2, app_assoc, Ro, R1; cbn [flat_map]; rewrite <- app_assoc; reflexivity|].
      split; [apply chain_app; exists (cstart c'); split; [rewrite <- S1; exact Co1|exact Co2]|].
      split.
      { apply Forall_app; split.
        - eapply Forall_impl; [|exact Mo1]. unfold meta_eq. intros x (X1 & X2 & X3). split; congruence.
        - eapply Forall_impl; [|exact Mo2']. unfold meta_eq. intros x [X1 X2]. split; congruence. }
      apply Forall_app; split.
      * (* cuts made now: valid w.r.t. rows of c1 and all later rows *)
        eapply Forall_impl; [|exact Hcuts]. intros o ((Ho1 & Ho2) & Ho3). unfold cut_in.
        split; [lia|]. cbn [flat_map]. rewrite app_assoc, <- R1. apply in_gap_app. split; [exact Ho3|].
        apply Forall_forall. intros q Hq. right. rewrite Forall_forall in Hrows2. specialize (Hrows2 q Hq). cbn in Hrows2. lia.
      * (* later cuts: valid also w.r.t. the rows emitted now *)
        eapply Forall_impl; [|exact Cut2]. intros o ((Ho1 & Ho2) & Ho3). unfold cut_in.
        split; [lia|]. cbn [flat_map]. rewrite app_assoc, <- R1, <- Ro, <- app_assoc. apply in_gap_app. split; [|exact Ho3].
        apply Forall_forall. intros q Hq. left. rewrite Forall_forall in Hrows1. specialize (Hrows1 q Hq). cbn in Hrows1. lia.
Qed.

Theorem rechunk_stream_correct_strong cs :
  valid_stream cs ->
  exists body lst, rechunk_stream cs = Ok (body ++ [lst]) /\ Forall wf (body ++ [lst]) /\
    flat_map crows (body ++ [lst]) = flat_map crows cs /\
    chain (stream_start cs) (body ++ [lst]) (stream_end cs) /\
    Forall (meta_eq (hd lst cs)) (body ++ [lst]) /\
    Forall (cut_in (stream_start cs) (stream_end cs) (flat_map crows cs)) body.
Proof.
  destruct cs as [|c0 rest]; [intros []|]. intros (Wcs & Tcs & Mcs & Hch).
  inversion Wcs as [|? ? W0 Wrest]; subst. inversion Tcs as [|? ? T0 Trest]; subst.
  destruct (receive_core c0 W0 T0) as (splits & out & c' & Es & Eo & Wo & Wc' & Ro & Co & Mo).
  assert (Hcuts : Forall (cut_ok c0) out).
  { destruct (get_splits_ok (crows c0) (ctarget c0) DEFAULT_CHUNK_SPLIT_NS T0) as (l & El & gs & -> & Hs & Hinc).
    rewrite El in Es. inversion Es; subst splits.
    eapply split_off_cuts; [exact W0| |exact Eo].
    change (crows c0) with (skipn 0 (crows c0)). apply good_splits_rel; [exact Hs|].
    intros g Hg. apply gap_indices_isgap; [|apply Hinc; exact Hg].
    destruct W0 as (H0 & _ & _ & HF). eapply Forall_impl; [|exact HF]. cbn. intros; lia. }
  apply chain_app in Co as (m & Co1 & Co2). cbn in Co2. destruct Co2 as [Hm Hce]. subst m.
  apply Forall_app in Mo as [Mo1 Mo2]. inversion Mo2 as [|? ? (Mc'1 & Mc'2 & Mc'3) _]; subst.
  assert (Hrest_chain : chain (cend c') rest (last_end (cend c0) rest)) by (rewrite Hce; exact Hch).
  destruct (rechunk_from_some_strong rest c' (last_end (cend c0) rest) Wc') as (body2 & lst & E2 & Wo2 & Ro2 & Co2 & Mo2' & Cut2).
  - lia.
  - exact Wrest.
  - exact Trest.
  - eapply Forall_impl; [|exact Mcs]. unfold meta_eq. intros x [X1 X2]. split; congruence.
  - exact Hrest_chain.
  - exists (out ++ body2), lst. rewrite <- app_assoc. unfold rechunk_stream.
    cbn [rechunk_from]. unfold receive. cbn [res_bind].
    rewrite Es. cbn [res_bind]. rewrite Eo. cbn [res_bind]. rewrite E2. cbn [res_bind].
    destruct (chain_rows_bounds out (cstart c0) (cstart c') Wo Co1) as [Hb1 Hrows1].
    destruct (chain_rows_bounds rest (cend c') _ Wrest Hrest_chain) as [Hb2 Hrows2].
    pose proof Wc' as (Wc'0 & Wc'1 & _ & Wc'3).
    cbn [stream_start stream_end hd].
    split; [reflexivity|]. split; [apply Forall_app; split; auto|].
    split; [rewrite flat_map_app, Ro2, app_assoc, Ro; reflexivity|].
    split; [apply chain_app; exists (cstart c'); split; auto|].
    split.
    { apply Forall_app; split.
      - eapply Forall_impl; [|exact Mo1]. unfold meta_eq. intros x (X1 & X2 & X3). split; congruence.
      - eapply Forall_impl; [|exact Mo2']. unfold meta_eq. intros x [X1 X2]. split; congruence. }
    apply Forall_app; split.
    * eapply Forall_impl; [|exact Hcuts]. intros o ((Ho1 & Ho2) & Ho3). unfold cut_in.
      split; [lia|]. cbn [flat_map]. apply in_gap_app. split; [exact Ho3|].
      apply Forall_forall. intros q Hq. right. rewrite Forall_forall in Hrows2. specialize (Hrows2 q Hq). cbn in Hrows2. lia.
    * eapply Forall_impl; [|exact Cut2]. intros o ((Ho1 & Ho2) & Ho3). unfold cut_in.
      split; [lia|]. cbn [flat_map]. rewrite <- Ro, <- app_assoc. apply in_gap_app. split; [|exact Ho3].
      apply Forall_forall. intros q Hq. left. rewrite Forall_forall in Hrows1. specialize (Hrows1 q Hq). cbn in Hrows1. lia.
Qed.
