(* C18 proofs, part 3b: cut_outside_hits as a whole. *)
From SV Require Import Model.Hits Model.Reduction Spec.HitsSpec Proof.HitsProof Proof.LinksProof Proof.ReductionProof.

Lemma keepsb_iff rs spr prev next le re h j s :
  keepsb rs spr prev next le re h j s = true <-> keeps rs spr prev next le re h j s.
Proof.
  unfold keepsb, keeps, NO_RECORD_LINK. cbn zeta.
  rewrite !orb_true_iff, !andb_true_iff, !negb_true_iff.
  rewrite !Z.eqb_eq, !Z.eqb_neq, !Z.ltb_lt, !Z.leb_le. tauto.
Qed.

Lemma existsb_keeps rs spr prev next le re hs j s :
  existsb (fun h => keepsb rs spr prev next le re h j s) hs = true <->
  exists h, In h hs /\ keeps rs spr prev next le re h j s.
Proof.
  rewrite existsb_exists. split; intros (h & Hin & Hk); exists h; split; auto; apply keepsb_iff; auto.
Qed.

Lemma nth_map' {A B} (f : A -> B) l k d d' : (k < length l)%nat -> nth k (map f l) d = f (nth k l d').
Proof.
  intros H. rewrite nth_indep with (d' := f d') by (rewrite map_length; exact H). apply map_nth.
Qed.

Lemma get_zeros rs j s : get (map (fun r => zeros_like (r_data r)) rs) j s = 0.
Proof.
  unfold get, nthZ. destruct (s <? 0); [reflexivity|].
  destruct (Nat.lt_ge_cases (Z.to_nat j) (length rs)) as [H|H].
  - rewrite (nth_map' _ rs _ [] (mkrec 0 0 0 0 0 0 0 0 0 0 0 [])) by exact H. unfold zeros_like.
    set (dd := r_data _).
    destruct (Nat.lt_ge_cases (Z.to_nat s) (length dd)) as [H'|H'].
    + rewrite (nth_map' _ dd _ 0 0) by exact H'. reflexivity.
    + apply nth_overflow. rewrite map_length. auto.
  - rewrite (nth_overflow (map (fun r => zeros_like (r_data r)) rs)) by (rewrite map_length; auto). destruct (Z.to_nat s); reflexivity.
Qed.

Lemma shape_zeros rs spr :
  Forall (fun r => zlen (r_data r) = spr) rs ->
  shape (map (fun r => zeros_like (r_data r)) rs) (length rs) spr.
Proof.
  intros HF. split; [apply map_length|]. apply Forall_forall. intros d Hd.
  apply in_map_iff in Hd as (r & <- & Hr). unfold zeros_like, zlen. rewrite map_length.
  rewrite Forall_forall in HF. apply HF. exact Hr.
Qed.

Definition dflt : rec := mkrec 0 0 0 0 0 0 0 0 0 0 0 [].

Lemma rec_at_out rs new (f : rec * list Z -> rec) j :
  length new = length rs -> 0 <= j < zlen rs ->
  rec_at (map f (combine rs new)) j = f (rec_at rs j, nth (Z.to_nat j) new []).
Proof.
  intros Hl Hj. unfold rec_at.
  assert (Hk : (Z.to_nat j < length (combine rs new))%nat).
  { rewrite combine_length, Hl, Nat.min_id. unfold zlen in Hj. lia. }
  rewrite (nth_map' f _ _ _ (dflt, [])) by exact Hk.
  rewrite combine_nth by auto. reflexivity.
Qed.

Lemma cut_outside_hits_unfold rs hs le re : rs <> [] ->
  cut_outside_hits rs hs le re =
  match record_links rs with
  | Err e => Err e
  | Ok (prev, next) =>
      match coh_loop rs (spr_of rs) prev next le re hs (map (fun r => zeros_like (r_data r)) rs) with
      | Err e => Err e
      | Ok new => Ok (map (fun '(r, d) => set_level (set_data r d) HITS_ONLY) (combine rs new))
      end
  end.
Proof. destruct rs; [congruence|reflexivity]. Qed.

(* The reduction keeps exactly the samples within the left / right extension of some hit (in the
   hit's record, or continuing into the linked previous / next fragment), zeroes every other
   sample and alters nothing else but the reduction level. *)
Theorem cut_outside_hits_keeps_exactly rs hs le re prev next :
  let spr := spr_of rs in
  Forall (fun r => zlen (r_data r) = spr) rs ->
  0 <= le -> 0 <= re ->
  Forall (hit_ok rs spr) hs ->
  record_links rs = Ok (prev, next) ->
  exists out, cut_outside_hits rs hs le re = Ok out /\ length out = length rs /\
    forall j, 0 <= j < zlen rs ->
      let r := rec_at rs j in let o := rec_at out j in
      o = set_level (set_data r (r_data o)) HITS_ONLY /\
      zlen (r_data o) = spr /\
      forall s, 0 <= s < spr ->
        ((exists h, In h hs /\ keeps rs spr prev next le re h j s) -> nthZ (r_data o) s = nthZ (r_data r) s) /\
        (~ (exists h, In h hs /\ keeps rs spr prev next le re h j s) -> nthZ (r_data o) s = 0).
Proof.
  intros spr Hdata Hle Hre Hhits Hlinks.
  assert (Hcase : rs = [] \/ rs <> []) by (destruct rs; [left; auto|right; congruence]).
  destruct Hcase as [Hnil|Hne].
  { exists []. subst rs. split; [reflexivity|]. split; [reflexivity|]. intros j Hj. change (zlen (@nil rec)) with 0 in Hj. lia. }
  rewrite cut_outside_hits_unfold by exact Hne. rewrite Hlinks. fold spr.
  destruct (coh_loop_spec rs spr Hdata prev next le re Hle Hre hs (map (fun r => zeros_like (r_data r)) rs))
    as (new' & Hrun & (Sl & SF) & G); auto.
  { apply shape_zeros. exact Hdata. }
  rewrite Hrun. eexists. split; [reflexivity|].
  split; [rewrite map_length, combine_length, Sl, Nat.min_id; reflexivity|].
  intros j Hj. cbn zeta.
  rewrite (rec_at_out rs new' _ j Sl Hj).
  set (d := nth (Z.to_nat j) new' []).
  assert (Hd : zlen d = spr).
  { rewrite Forall_forall in SF. apply SF. apply nth_In. unfold zlen in Hj. lia. }
  split; [destruct (rec_at rs j); reflexivity|].
  split; [exact Hd|].
  intros s Hs. pose proof (G j s Hj Hs) as Hg. rewrite get_zeros in Hg.
  change (get new' j s) with (nthZ d s) in Hg.
  rewrite (data_at_rec_at rs j Hj) in Hg.
  cbn [r_data set_level set_data].
  split.
  - intros Hex. apply existsb_keeps in Hex. rewrite Hex in Hg. exact Hg.
  - intros Hnex. destruct (existsb (fun h => keepsb rs spr prev next le re h j s) hs) eqn:E; [|exact Hg].
    exfalso. apply Hnex. apply existsb_keeps. exact E.
Qed.

(* with the links spelled out: a neighbouring record is reached exactly when it is the
   time-adjacent fragment of the same channel *)
Corollary cut_outside_hits_spec rs hs le re :
  let spr := spr_of rs in
  Forall rec_wf rs ->
  Forall (fun r => zlen (r_data r) = spr) rs ->
  0 <= le -> 0 <= re ->
  Forall (hit_ok rs spr) hs ->
  exists out prev next, cut_outside_hits rs hs le re = Ok out /\ length out = length rs /\
    (forall i j, 0 <= i < zlen rs -> 0 <= j -> (nthZ prev i = j <-> linked spr rs j i)) /\
    (forall j i, 0 <= j < zlen rs -> 0 <= i -> (nthZ next j = i <-> linked spr rs j i)) /\
    forall j, 0 <= j < zlen rs ->
      let r := rec_at rs j in let o := rec_at out j in
      o = set_level (set_data r (r_data o)) HITS_ONLY /\
      zlen (r_data o) = spr /\
      forall s, 0 <= s < spr ->
        ((exists h, In h hs /\ keeps rs spr prev next le re h j s) -> nthZ (r_data o) s = nthZ (r_data r) s) /\
        (~ (exists h, In h hs /\ keeps rs spr prev next le re h j s) -> nthZ (r_data o) s = 0).
Proof.
  intros spr Hwf Hdata Hle Hre Hhits.
  destruct (record_links_spec rs Hwf) as (prev & next & Hlinks & _ & _ & Hp & Hn).
  destruct (cut_outside_hits_keeps_exactly rs hs le re prev next Hdata Hle Hre Hhits Hlinks) as (out & Hrun & Hl & Hout).
  exists out, prev, next. split; [exact Hrun|]. split; [exact Hl|].
  split; [intros i j Hi Hj; apply Hp; auto|].
  split; [intros j i Hj Hi; apply Hn; auto|].
  exact Hout.
Qed.
