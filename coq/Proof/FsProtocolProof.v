(* C04 -- proofs about the protocol automaton: every accepted trace, cut at any point (process death,
   mid-write included), leaves the data key either invisible or visible with exactly the saved data. *)
From SV Require Import Model.FsProtocol.

(* ------------------------------------------------------------------------------------------ *)
(* directories                                                                                *)
(* ------------------------------------------------------------------------------------------ *)

Lemma fname_eqb_eq a b : fname_eqb a b = true <-> a = b.
Proof.
  destruct a, b; cbn; split; intros H; try discriminate; try reflexivity;
    try (apply Z.eqb_eq in H; subst; reflexivity); inversion H; subst; apply Z.eqb_refl.
Qed.

Lemma fname_eqb_refl a : fname_eqb a a = true.
Proof. apply fname_eqb_eq; reflexivity. Qed.

Lemma fname_eqb_neq a b : a <> b -> fname_eqb a b = false.
Proof. intros H. destruct (fname_eqb a b) eqn:E; [apply fname_eqb_eq in E; contradiction | reflexivity]. Qed.

Lemma fname_eqb_sym a b : fname_eqb a b = fname_eqb b a.
Proof.
  destruct (fname_eqb a b) eqn:E.
  - apply fname_eqb_eq in E; subst. symmetry; apply fname_eqb_refl.
  - destruct (fname_eqb b a) eqn:E2; [apply fname_eqb_eq in E2; subst; rewrite fname_eqb_refl in E; discriminate | reflexivity].
Qed.

Lemma dlookup_ddelete_same d f : dlookup (ddelete d f) f = None.
Proof.
  induction d as [|[g c] d IH]; cbn; [reflexivity|].
  destruct (fname_eqb g f) eqn:E; [exact IH|]. cbn. rewrite E. exact IH.
Qed.

Lemma dlookup_ddelete_other d f g : f <> g -> dlookup (ddelete d f) g = dlookup d g.
Proof.
  intros Hne. induction d as [|[h c] d IH]; cbn; [reflexivity|].
  destruct (fname_eqb h f) eqn:E.
  - apply fname_eqb_eq in E; subst h. rewrite (fname_eqb_neq f g Hne). exact IH.
  - cbn. destruct (fname_eqb h g); [reflexivity | exact IH].
Qed.

Lemma dlookup_dinsert_same d f c : dlookup (dinsert d f c) f = Some c.
Proof. unfold dinsert; cbn. rewrite fname_eqb_refl. reflexivity. Qed.

Lemma dlookup_dinsert_other d f g c : f <> g -> dlookup (dinsert d f c) g = dlookup d g.
Proof.
  intros Hne. unfold dinsert; cbn. rewrite (fname_eqb_neq f g Hne). apply dlookup_ddelete_other; exact Hne.
Qed.

(* ------------------------------------------------------------------------------------------ *)
(* association lists of the automaton                                                         *)
(* ------------------------------------------------------------------------------------------ *)

Lemma lookup_i_rm_same i l : lookup_i i (rm_i i l) = None.
Proof.
  induction l as [|[j v] l IH]; cbn; [reflexivity|].
  destruct (j =? i) eqn:E; cbn; [exact IH|]. rewrite E. exact IH.
Qed.

Lemma lookup_i_rm_other i j l : j <> i -> lookup_i j (rm_i i l) = lookup_i j l.
Proof.
  intros Hne. induction l as [|[k v] l IH]; cbn; [reflexivity|].
  destruct (k =? i) eqn:E; cbn.
  - apply Z.eqb_eq in E; subst k. destruct (i =? j) eqn:E2; [apply Z.eqb_eq in E2; subst; contradiction | exact IH].
  - destruct (k =? j); [reflexivity | exact IH].
Qed.

Lemma mem_iv_true i v l : mem_iv i v l = true <-> lookup_i i l = Some v.
Proof.
  unfold mem_iv. destruct (lookup_i i l) as [w|]; split; intros H; try discriminate.
  - apply Z.eqb_eq in H; subst; reflexivity.
  - inversion H; subst; apply Z.eqb_refl.
Qed.

Lemma pair_eqb_eq a b : pair_eqb a b = true <-> a = b.
Proof.
  destruct a as [a1 a2], b as [b1 b2]; unfold pair_eqb; cbn. rewrite Bool.andb_true_iff, !Z.eqb_eq.
  split; [intros [-> ->]; reflexivity | intros H; inversion H; auto].
Qed.

Lemma list_eqb_pair_eq a b : list_eqb pair_eqb a b = true <-> a = b.
Proof.
  revert b; induction a as [|x a IH]; intros [|y b]; cbn; split; intros H; try discriminate; try reflexivity.
  - apply Bool.andb_true_iff in H as [H1 H2]. apply pair_eqb_eq in H1; apply IH in H2; subst; reflexivity.
  - inversion H; subst. apply Bool.andb_true_iff; split; [apply pair_eqb_eq; reflexivity | apply IH; reflexivity].
Qed.

(* ------------------------------------------------------------------------------------------ *)
(* what "correct" means for a file system state                                               *)
(* ------------------------------------------------------------------------------------------ *)

(* `<key>`, when it exists, has a readable metadata file (it was renamed from a directory whose closing
   flush succeeded): `find` answers without looking into `<key>_temp`, and `is_stored` never raises *)
Definition final_has_meta (f : fs) : Prop :=
  forall d, f_final f = Some d -> exists m, dlookup d FMeta = Some (CMeta (Some m)).

Definition loads_correct (ex : list chunkspec) (f : fs) : Prop := load f = Ok (payloads ex).

(* every chunk the visible metadata lists with rows exists as a complete file *)
Definition listed_complete (f : fs) : Prop :=
  forall d m i n, f_final f = Some d -> find f = Ok m -> In (i, n) (m_chunks m) -> n <> 0 ->
    exists v, dlookup d (FChunk i) = Some (CChunk v true).

(* the safety property of one state: visible => loads to exactly the saved data *)
Definition fs_ok (ex : list chunkspec) (f : fs) : Prop :=
  final_has_meta f /\ (visible f = true -> loads_correct ex f).

Lemma load_chunks_complete d cs l :
  load_chunks d cs = Ok l ->
  forall i n, In (i, n) cs -> n <> 0 -> exists v, dlookup d (FChunk i) = Some (CChunk v true).
Proof.
  revert l; induction cs as [|[j k] cs IH]; intros l H i n Hin Hn; [destruct Hin|].
  cbn in H.
  destruct (k =? 0) eqn:Ek.
  - cbn in H. destruct (load_chunks d cs) as [xs|e] eqn:E; cbn in H; [|discriminate].
    destruct Hin as [Heq|Hin]; [inversion Heq; subst; apply Z.eqb_eq in Ek; contradiction | eapply IH; eauto].
  - destruct (dlookup d (FChunk j)) as [[v [|]|m]|] eqn:El; cbn in H; try discriminate.
    destruct (load_chunks d cs) as [xs|e] eqn:E; cbn in H; [|discriminate].
    destruct Hin as [Heq|Hin]; [inversion Heq; subst; eauto | eapply IH; eauto].
Qed.

Lemma loads_correct_listed_complete ex f : loads_correct ex f -> listed_complete f.
Proof.
  unfold loads_correct, listed_complete, load. intros H d m i n Hd Hf Hin Hn.
  rewrite Hf, Hd in H. destruct (m_chunks m) as [|c cs] eqn:Ec; [discriminate|].
  eapply load_chunks_complete; eauto.
Qed.

(* meta_of / find / visible / load depend on `<key>_temp` only when `<key>` has no metadata file *)
Lemma meta_of_final f g : final_has_meta f -> f_final g = f_final f -> meta_of g = meta_of f.
Proof.
  unfold final_has_meta, meta_of. intros H E. rewrite E. destruct (f_final f) as [d|]; [|reflexivity].
  destruct (H d eq_refl) as [m ->]. reflexivity.
Qed.

Lemma is_stored_ok f : final_has_meta f -> exists b, is_stored f = Ok b.
Proof.
  unfold final_has_meta, is_stored, find, meta_of. intros H.
  destruct (f_final f) as [d|]; [|exists false; reflexivity].
  destruct (H d eq_refl) as [m ->].
  destruct (m_exc m); [exists false; reflexivity|]. destruct (m_ended m); cbn; eauto.
Qed.

Lemma find_final f g : final_has_meta f -> f_final g = f_final f -> find g = find f.
Proof. intros H E. unfold find. rewrite (meta_of_final f g H E). reflexivity. Qed.

Lemma fs_ok_final ex f g : fs_ok ex f -> f_final g = f_final f -> fs_ok ex g.
Proof.
  intros [Hm Hv] E. split.
  - unfold final_has_meta in *. rewrite E. exact Hm.
  - unfold visible, loads_correct, load in *. rewrite (find_final f g Hm E), E. exact Hv.
Qed.

Lemma fs_ok_no_final ex f : f_final f = None -> fs_ok ex f.
Proof.
  intros E. split.
  - unfold final_has_meta. rewrite E. discriminate.
  - unfold visible, find, meta_of. rewrite E. cbn. discriminate.
Qed.

(* ------------------------------------------------------------------------------------------ *)
(* the invariant tying the automaton state to the file system                                 *)
(* ------------------------------------------------------------------------------------------ *)

Definition files_ok (d : dir) (mk : Z -> fname) (l : list (Z * Z)) : Prop :=
  forall i v, lookup_i i l = Some v -> dlookup d (mk i) = Some (CChunk v true).

(* a directory that may be renamed to `<key>`: its metadata is the closing one, and when it carries no
   `exception` the listing is the complete one and every chunk with rows is a complete file *)
Definition dir_valid (ex : list chunkspec) (d : dir) : Prop :=
  exists m, dlookup d FMeta = Some (CMeta (Some m)) /\ m_ended m = true /\
    (m_exc m = false ->
       m_chunks m = infos ex /\
       forall i n v, In (i, n, v) ex -> n <> 0 -> dlookup d (FChunk i) = Some (CChunk v true)).

(* a directory whose closing metadata records `exception`: it can be renamed to `<key>` and will never be visible *)
Definition dir_broken (d : dir) : Prop :=
  exists m, dlookup d FMeta = Some (CMeta (Some m)) /\ m_ended m = true /\ m_exc m = true.

Lemma dir_broken_valid ex d : dir_broken d -> dir_valid ex d.
Proof. intros (m & H1 & H2 & H3). exists m. split; [exact H1|]. split; [exact H2|]. rewrite H3. discriminate. Qed.

Definition Inv (c : pcfg) (s : pst) (f : fs) : Prop :=
  fs_ok (p_expected c) f /\
  match p_ph s with
  | PhInit => p_tmp s = [] /\ p_fin s = []
  | PhOpen => exists d, f_temp f = Some d /\ files_ok d FTmp (p_tmp s) /\ files_ok d FChunk (p_fin s)
  | PhClosing => exists d, f_temp f = Some d /\ dir_valid (p_expected c) d
  | PhClosingX => exists d, f_temp f = Some d /\ dir_broken d
  | PhDone | PhDoneX => True
  end.

Lemma load_chunks_infos ex d :
  (forall i n v, In (i, n, v) ex -> n <> 0 -> dlookup d (FChunk i) = Some (CChunk v true)) ->
  load_chunks d (infos ex) = Ok (payloads ex).
Proof.
  unfold infos, payloads.
  induction ex as [|[[i n] v] ex IH]; intros H; cbn [map load_chunks fst snd]; [reflexivity|].
  destruct (n =? 0) eqn:En.
  - cbn [res_bind]. rewrite IH; [reflexivity|]. intros; eapply H; [right; eauto | auto].
  - rewrite (H i n v (or_introl eq_refl)) by (apply Z.eqb_neq in En; exact En). cbn [res_bind].
    rewrite IH; [reflexivity|]. intros; eapply H; [right; eauto | auto].
Qed.

Lemma all_final_spec ex fin :
  all_final ex fin = true -> forall i n v, In (i, n, v) ex -> n <> 0 -> lookup_i i fin = Some v.
Proof.
  unfold all_final. rewrite forallb_forall. intros H i n v Hin Hn.
  specialize (H _ Hin). cbn in H. apply Bool.orb_true_iff in H as [H|H].
  - apply Z.eqb_eq in H; contradiction.
  - apply mem_iv_true; exact H.
Qed.

Lemma files_ok_insert_other d mk l f c :
  (forall i, mk i <> f) -> files_ok d mk l -> files_ok (dinsert d f c) mk l.
Proof.
  intros Hne H i v Hl. rewrite dlookup_dinsert_other; [apply H; exact Hl | intros E; apply (Hne i); auto].
Qed.

Lemma dir_valid_visible ex d t :
  ex <> [] -> dir_valid ex d -> fs_ok ex (mkFs t (Some d)).
Proof.
  intros Hex (m & Hm & Hen & Hx). split.
  - intros d' E. cbn in E. inversion E; subst. eauto.
  - unfold visible, loads_correct, load, find, meta_of. cbn. rewrite Hm. cbn.
    destruct (m_exc m) eqn:Ee; [discriminate|]. rewrite Hen. cbn. intros _.
    destruct (Hx eq_refl) as [Hc Hf]. rewrite Hc.
    rewrite <- (load_chunks_infos ex d Hf).
    destruct ex as [|c0 ex0]; [contradiction | reflexivity].
Qed.

(* a chunk write / chunk rename touches neither `<key>` nor the metadata file of `<key>_temp` *)
Lemma chunk_op_frame f o oc f' :
  (exists i v, o = OWriteTmp i v) \/ (exists i, o = ORenameChunk i) ->
  apply_ev f (o, oc) = Some f' ->
  f_final f' = f_final f /\
  (forall d, f_temp f = Some d -> exists d', f_temp f' = Some d' /\ dlookup d' FMeta = dlookup d FMeta).
Proof.
  intros Ho Ha.
  assert (Hd : forall g, apply_done f o = Some g ->
             f_final g = f_final f /\
             (forall d, f_temp f = Some d -> exists d', f_temp g = Some d' /\ dlookup d' FMeta = dlookup d FMeta)).
  { intros g Hg. destruct Ho as [(i & v & ->)|(i & ->)]; cbn in Hg; unfold on_temp in Hg;
      destruct (f_temp f) as [d0|]; try discriminate.
    - inversion Hg; subst. split; [reflexivity|]. intros d E; inversion E; subst. eexists; split; [reflexivity|].
      apply dlookup_dinsert_other; discriminate.
    - destruct (dlookup d0 (FTmp i)) as [c0|]; [|discriminate]. inversion Hg; subst. split; [reflexivity|].
      intros d E; inversion E; subst. eexists; split; [reflexivity|].
      rewrite dlookup_dinsert_other by discriminate. apply dlookup_ddelete_other; discriminate. }
  destruct oc as [|[]]; cbn in Ha; auto.
  - inversion Ha; subst. split; [reflexivity|]. intros d E; eauto.
  - destruct Ho as [(i & v & ->)|(i & ->)]; [|discriminate]. unfold on_temp in Ha.
    destruct (f_temp f) as [d0|]; [|discriminate]. inversion Ha; subst. split; [reflexivity|].
    intros d E; inversion E; subst. eexists; split; [reflexivity|]. apply dlookup_dinsert_other; discriminate.
Qed.

Lemma late_chunk_op_inv c s f o oc f' fl tmp fin :
  (exists i v, o = OWriteTmp i v) \/ (exists i, o = ORenameChunk i) ->
  Inv c s f -> late_ok (p_ph s) = true -> apply_ev f (o, oc) = Some f' ->
  Inv c (mkPst (p_ph s) fl tmp fin) f'.
Proof.
  intros Ho [Hok Hph] Hl Ha. destruct (chunk_op_frame f o oc f' Ho Ha) as [Hfin Htemp].
  split; [eapply fs_ok_final; eauto|]. cbn.
  destruct (p_ph s); try discriminate; [|exact I].
  destruct Hph as (d & Hd & m & H1 & H2 & H3). destruct (Htemp d Hd) as (d' & Hd' & Hm).
  exists d'. split; [exact Hd'|]. exists m. rewrite Hm. auto.
Qed.

(* one step of the automaton on one (successful, failed or interrupted) operation preserves the invariant *)
Lemma pstep_inv c s ev s' f f' :
  p_expected c <> [] ->
  Inv c s f -> pstep c s ev = Some s' -> apply_ev f ev = Some f' -> Inv c s' f'.
Proof.
  intros Hex [Hok Hph] Hs Ha. destruct ev as [o oc]. unfold pstep in Hs.
  destruct o.
  - (* OMkTemp *)
    destruct (phase_eqb (p_ph s) PhInit) eqn:Ep; [|discriminate]. inversion Hs; subst s'; clear Hs.
    assert (Hf : f_final f' = f_final f /\ (did oc = true -> f_temp f' = Some [])).
    { destruct oc as [|[]]; cbn in Ha; try (destruct (f_temp f); inversion Ha; subst; cbn; auto; fail);
        inversion Ha; subst; split; auto; discriminate. }
    destruct Hf as [Hf Ht]. split; [eapply fs_ok_final; eauto|]. cbn.
    destruct (did oc) eqn:Ed; [|split; reflexivity]. exists []. split; [auto|]. split; intros i v H; discriminate.
  - (* ORmTemp *)
    destruct (phase_eqb (p_ph s) PhInit) eqn:Ep; [|discriminate]. inversion Hs; subst s'; clear Hs.
    destruct (p_ph s); try discriminate.
    split; [|exact Hph]. eapply fs_ok_final; [exact Hok|].
    destruct oc as [|[]]; cbn in Ha; try (destruct (f_temp f); inversion Ha; subst; reflexivity); inversion Ha; reflexivity.
  - (* ORmFinal *)
    destruct (phase_eqb (p_ph s) PhInit && p_allow_rm c) eqn:Ep; [|discriminate]. inversion Hs; subst s'; clear Hs.
    destruct (p_ph s); try discriminate.
    split; [|exact Hph].
    destruct oc as [|[]]; cbn in Ha; try discriminate;
      try (destruct (f_final f); inversion Ha; subst; apply fs_ok_no_final; reflexivity).
    inversion Ha; subst; exact Hok.
  - (* OWriteTmp *)
    destruct (phase_eqb (p_ph s) PhOpen) eqn:Ep.
    2:{ destruct (late_ok (p_ph s)) eqn:El; [|discriminate]. inversion Hs; subst s'; clear Hs.
        apply (late_chunk_op_inv c s f _ oc f' _ _ _ (or_introl (ex_intro _ i (ex_intro _ v eq_refl))) (conj Hok Hph) El Ha). }
    inversion Hs; subst s'; clear Hs.
    destruct (p_ph s); try discriminate. destruct Hph as (d & Hd & Ht & Hfi).
    assert (Hcase : (f' = f /\ oc = Failed ENone) \/
                    (exists b, f' = mkFs (Some (dinsert d (FTmp i) (CChunk v b))) (f_final f) /\
                       ((b = true /\ (oc = Done \/ oc = Failed EFull)) \/ (b = false /\ oc = Failed ETrunc)))).
    { destruct oc as [|[]]; cbn in Ha; unfold on_temp in Ha; try rewrite Hd in Ha; inversion Ha; subst; eauto 8. }
    destruct Hcase as [[-> ->]|(b & -> & Hb)].
    + split; [exact Hok|]. cbn. eauto.
    + split; [eapply fs_ok_final; eauto|]. cbn. eexists; split; [reflexivity|]. split.
      * intros j w Hl.
        destruct (Z.eq_dec j i) as [->|Hne].
        -- rewrite dlookup_dinsert_same.
           destruct Hb as [[-> [->| ->]]|[-> ->]]; cbn in Hl; try rewrite Z.eqb_refl in Hl;
             try (inversion Hl; subst; reflexivity); rewrite lookup_i_rm_same in Hl; discriminate.
        -- rewrite dlookup_dinsert_other by (intros E; inversion E; auto).
           apply Ht.
           destruct Hb as [[-> [->| ->]]|[-> ->]]; cbn in Hl;
             try (destruct (i =? j) eqn:E; [apply Z.eqb_eq in E; subst; contradiction|]);
             rewrite lookup_i_rm_other in Hl by auto; exact Hl.
      * apply files_ok_insert_other; [discriminate | exact Hfi].
  - (* ORenameChunk *)
    destruct (phase_eqb (p_ph s) PhOpen) eqn:Ep.
    2:{ destruct (late_ok (p_ph s)) eqn:El; [|discriminate]. inversion Hs; subst s'; clear Hs.
        apply (late_chunk_op_inv c s f _ oc f' _ _ _ (or_intror (ex_intro _ i eq_refl)) (conj Hok Hph) El Ha). }
    inversion Hs; subst s'; clear Hs.
    destruct (p_ph s); try discriminate. destruct Hph as (d & Hd & Ht & Hfi).
    destruct (did oc) eqn:Ed.
    + assert (Hc : exists c0, dlookup d (FTmp i) = Some c0 /\
                     f' = mkFs (Some (dinsert (ddelete d (FTmp i)) (FChunk i) c0)) (f_final f)).
      { destruct oc as [|[]]; cbn in Ed; try discriminate; cbn in Ha; unfold on_temp in Ha; rewrite Hd in Ha;
          destruct (dlookup d (FTmp i)) as [c0|]; inversion Ha; subst; eauto. }
      destruct Hc as (c0 & Hc0 & ->).
      split; [eapply fs_ok_final; eauto|]. cbn. eexists; split; [reflexivity|]. split.
      * intros j w Hl. destruct (Z.eq_dec j i) as [->|Hne]; [rewrite lookup_i_rm_same in Hl; discriminate|].
        rewrite lookup_i_rm_other in Hl by auto.
        rewrite dlookup_dinsert_other by discriminate.
        rewrite dlookup_ddelete_other by (intros E; inversion E; auto). apply Ht; exact Hl.
      * intros j w Hl. destruct (Z.eq_dec j i) as [->|Hne].
        -- rewrite dlookup_dinsert_same.
           destruct (lookup_i i (p_tmp s)) as [v|] eqn:El.
           ++ cbn in Hl. rewrite Z.eqb_refl in Hl. inversion Hl; subst. rewrite (Ht _ _ El) in Hc0. inversion Hc0; reflexivity.
           ++ rewrite lookup_i_rm_same in Hl; discriminate.
        -- rewrite dlookup_dinsert_other by (intros E; inversion E; auto).
           rewrite dlookup_ddelete_other by discriminate. apply Hfi.
           destruct (lookup_i i (p_tmp s)) as [v|]; cbn in Hl;
             try (destruct (i =? j) eqn:E; [apply Z.eqb_eq in E; subst; contradiction|]);
             rewrite lookup_i_rm_other in Hl by auto; exact Hl.
    + assert (f' = f) as ->.
      { destruct oc as [|[]]; cbn in Ed; try discriminate; cbn in Ha; inversion Ha; reflexivity. }
      split; [exact Hok|]. cbn. eauto.
  - (* OWriteMeta *)
    destruct (phase_eqb (p_ph s) PhOpen) eqn:Ep; [|discriminate].
    destruct (p_ph s) eqn:Eph; try discriminate. destruct Hph as (d & Hd & Ht & Hfi).
    assert (Hcase : (f' = f /\ oc = Failed ENone) \/
                    (exists x, f' = mkFs (Some (dinsert d FMeta (CMeta x))) (f_final f) /\
                       ((x = Some m /\ (oc = Done \/ oc = Failed EFull)) \/ (x = None /\ oc = Failed ETrunc)))).
    { destruct oc as [|[]]; cbn in Ha; unfold on_temp in Ha; try rewrite Hd in Ha; inversion Ha; subst; eauto 8. }
    assert (Hopen : forall x, exists d', f_temp (mkFs (Some (dinsert d FMeta (CMeta x))) (f_final f)) = Some d' /\
                       files_ok d' FTmp (p_tmp s) /\ files_ok d' FChunk (p_fin s)).
    { intros x. eexists; split; [reflexivity|]. split; apply files_ok_insert_other; auto; discriminate. }
    destruct (m_ended m) eqn:Een.
    + destruct (closing_ok c s m) eqn:Ec; [|discriminate]. inversion Hs; subst s'; clear Hs.
      destruct Hcase as [[-> ->]|(x & -> & Hx)].
      * split; [exact Hok|]. cbn. eauto.
      * split; [eapply fs_ok_final; eauto|]. cbn.
        destruct Hx as [[-> [->| ->]]|[-> ->]]; try apply Hopen.
        (* the closing flush succeeded *)
        destruct (m_exc m) eqn:Hexc.
        { eexists; split; [reflexivity|]. exists m. split; [apply dlookup_dinsert_same | auto]. }
        eexists; split; [reflexivity|]. exists m. split; [apply dlookup_dinsert_same|]. split; [exact Een|].
        intros _. unfold closing_ok in Ec. rewrite Hexc in Ec. cbn in Ec.
        apply Bool.andb_true_iff in Ec as [_ Ec]. apply Bool.andb_true_iff in Ec as [Ec1 Ec2].
        split; [apply list_eqb_pair_eq; exact Ec1|].
        intros i n v Hin Hn. rewrite dlookup_dinsert_other by discriminate.
        apply Hfi. eapply all_final_spec; eauto.
    + destruct (running_ok c s m); [|discriminate]. inversion Hs; subst s'; clear Hs.
      destruct Hcase as [[-> ->]|(x & -> & Hx)].
      * split; [exact Hok|]. cbn. eauto.
      * split; [eapply fs_ok_final; eauto|]. cbn. apply Hopen.
  - (* ORenameDir *)
    assert (Hcl : exists d, f_temp f = Some d /\ dir_valid (p_expected c) d /\
                    s' = mkPst (if did oc then (if phase_eqb (p_ph s) PhClosing then PhDone else PhDoneX) else p_ph s)
                           (p_failed s || is_fail oc) (p_tmp s) (p_fin s) /\
                    (p_ph s = PhClosing \/ p_ph s = PhClosingX)).
    { destruct (p_ph s) eqn:Eph; cbn in Hs; try discriminate.
      - destruct Hph as (d & Hd & Hv). exists d. inversion Hs; subst. destruct (did oc); auto.
      - destruct Hph as (d & Hd & Hv). exists d. inversion Hs; subst.
        split; [exact Hd|]. split; [apply dir_broken_valid; exact Hv|]. destruct (did oc); auto. }
    destruct Hcl as (d & Hd & Hv & -> & Hcases). clear Hs.
    destruct (did oc) eqn:Ed.
    + assert (f' = mkFs None (Some d)) as ->.
      { destruct oc as [|[]]; cbn in Ed; try discriminate; cbn in Ha; rewrite Hd in Ha;
          destruct (f_final f); inversion Ha; reflexivity. }
      split; [apply dir_valid_visible; assumption|]. cbn. destruct (phase_eqb (p_ph s) PhClosing); exact I.
    + assert (f' = f) as ->.
      { destruct oc as [|[]]; cbn in Ed; try discriminate; cbn in Ha; inversion Ha; reflexivity. }
      split; [exact Hok|]. cbn. exact Hph.
  - (* OUpExc *)
    inversion Hs; subst s'; clear Hs.
    assert (f' = f) as ->. { destruct oc as [|[]]; cbn in Ha; inversion Ha; reflexivity. }
    split; [exact Hok|]. cbn. exact Hph.
  - discriminate.
Qed.

Lemma prun_inv c tr : forall s f s' f',
  p_expected c <> [] ->
  Inv c s f -> prun c s tr = Some s' -> run_evs f tr = Some f' -> Inv c s' f'.
Proof.
  induction tr as [|ev tr IH]; intros s f s' f' Hex HI Hp Hr; cbn in *.
  - inversion Hp; inversion Hr; subst; exact HI.
  - destruct (pstep c s ev) as [s1|] eqn:Es; [|discriminate].
    destruct (apply_ev f ev) as [f1|] eqn:Ea; [|discriminate].
    eapply IH; [exact Hex | eapply pstep_inv; eauto | exact Hp | exact Hr].
Qed.

Lemma Inv_init c f : fs_ok (p_expected c) f -> Inv c pst_init f.
Proof. intros H. split; [exact H | split; reflexivity]. Qed.

(* acceptance does not depend on how an operation ended *)
Lemma pstep_outcome c s o oc oc' s1 :
  pstep c s (o, oc) = Some s1 -> exists s2, pstep c s (o, oc') = Some s2.
Proof.
  unfold pstep. destruct o; intros H;
    repeat match type of H with
           | (if ?b then _ else _) = Some _ => destruct b; try discriminate H
           end; eauto; discriminate H.
Qed.

Lemma prun_firstn c tr : forall s k s', prun c s tr = Some s' -> exists s'', prun c s (firstn k tr) = Some s''.
Proof.
  induction tr as [|ev tr IH]; intros s k s' H; destruct k; cbn in *; eauto.
  destruct (pstep c s ev) as [s1|]; [|discriminate]. eapply IH; eauto.
Qed.

Lemma prun_app c tr1 : forall tr2 s,
  prun c s (tr1 ++ tr2) = match prun c s tr1 with Some s1 => prun c s1 tr2 | None => None end.
Proof.
  induction tr1 as [|ev tr1 IH]; intros tr2 s; cbn; [reflexivity|].
  destruct (pstep c s ev); [apply IH | reflexivity].
Qed.

Lemma prun_nth c tr : forall s k s' ev,
  prun c s tr = Some s' -> nth_error tr k = Some ev ->
  exists s1 s2, prun c s (firstn k tr) = Some s1 /\ pstep c s1 ev = Some s2.
Proof.
  induction tr as [|e tr IH]; intros s k s' ev H Hn; destruct k; cbn in *; try discriminate.
  - inversion Hn; subst. destruct (pstep c s ev) as [s1|] eqn:E; [|discriminate]. eauto.
  - destruct (pstep c s e) as [s1|] eqn:E; [|discriminate]. eapply IH; eauto.
Qed.

Lemma accepts_crash_cut c tr k e : accepts c tr = true -> accepts c (crash_cut tr k e) = true.
Proof.
  unfold accepts. destruct (prun c pst_init tr) as [s'|] eqn:H; [|discriminate]. intros _.
  unfold crash_cut. destruct e as [e|].
  - destruct (nth_error tr k) as [[o oc]|] eqn:En.
    + destruct (prun_nth _ _ _ _ _ _ H En) as (s1 & s2 & H1 & H2).
      rewrite prun_app, H1. cbn [prun]. destruct (pstep_outcome _ _ _ _ (Failed e) _ H2) as [s3 ->]. reflexivity.
    + destruct (prun_firstn _ _ _ k _ H) as [s'' ->]. reflexivity.
  - destruct (prun_firstn _ _ _ k _ H) as [s'' ->]. reflexivity.
Qed.

(* ------------------------------------------------------------------------------------------ *)
(* crash_safe_prefix                                                                          *)
(* ------------------------------------------------------------------------------------------ *)

Theorem accepted_safe c tr f0 f' :
  p_expected c <> [] -> fs_ok (p_expected c) f0 ->
  accepts c tr = true -> run_evs f0 tr = Some f' ->
  fs_ok (p_expected c) f'.
Proof.
  intros Hex H0 Hacc Hrun. unfold accepts in Hacc.
  destruct (prun c pst_init tr) as [s'|] eqn:Hp; [|discriminate].
  exact (proj1 (prun_inv c tr _ _ _ _ Hex (Inv_init c f0 H0) Hp Hrun)).
Qed.

Theorem crash_safe_prefix c tr k e f0 f' :
  p_expected c <> [] -> fs_ok (p_expected c) f0 ->
  accepts c tr = true ->
  run_evs f0 (crash_cut tr k e) = Some f' ->
  final_has_meta f' /\
  (visible f' = true -> loads_correct (p_expected c) f' /\ listed_complete f').
Proof.
  intros Hex H0 Hacc Hrun.
  destruct (accepted_safe c _ f0 f' Hex H0 (accepts_crash_cut c tr k e Hacc) Hrun) as [Hm Hv].
  split; [exact Hm|]. intros V. split; [auto|]. eapply loads_correct_listed_complete; eauto.
Qed.

(* (vi) without permission to overwrite, an existing `<key>` survives every accepted trace untouched *)
Theorem no_overwrite_without_permission c tr : forall s f0 f' d,
  p_allow_rm c = false -> prun c s tr <> None -> run_evs f0 tr = Some f' ->
  f_final f0 = Some d -> f_final f' = Some d.
Proof.
  induction tr as [|[o oc] tr IH]; intros s f0 f' d Hal Hp Hr Hd; cbn [prun run_evs] in *.
  - inversion Hr; subst; exact Hd.
  - destruct (pstep c s (o, oc)) as [s1|] eqn:Es; [|exfalso; apply Hp; reflexivity].
    destruct (apply_ev f0 (o, oc)) as [f1|] eqn:Ea; [|discriminate].
    apply (IH s1 f1 f' d Hal Hp Hr).
    assert (Hkeep : forall o', apply_done f0 o' = Some f1 -> o' <> ORmFinal -> f_final f1 = Some d).
    { intros o' H Hne. destruct o'; cbn in H; unfold on_temp in H; try contradiction;
        destruct (f_temp f0) as [t|]; try discriminate;
        try match type of H with context [dlookup ?a ?b] => destruct (dlookup a b) end;
        try rewrite Hd in H; try discriminate; inversion H; subst; cbn; auto. }
    assert (Hne : o <> ORmFinal).
    { intros ->. unfold pstep in Es. rewrite Hal, Bool.andb_false_r in Es. discriminate. }
    destruct oc as [|[]]; cbn in Ea.
    + eapply Hkeep; eauto.
    + inversion Ea; subst; exact Hd.
    + destruct o; try discriminate; unfold on_temp in Ea; destruct (f_temp f0); inversion Ea; subst; exact Hd.
    + eapply Hkeep; eauto.
Qed.

(* ------------------------------------------------------------------------------------------ *)
(* the hypotheses are satisfiable: a concrete accepted trace, cut in the middle of a write     *)
(* ------------------------------------------------------------------------------------------ *)

Definition ex_cfg : pcfg := mkPcfg [(0, 2, 100); (1, 0, 0); (2, 3, 102)] true.
Definition ex_trace : list event :=
  [(OMkTemp, Done); (OWriteMeta (mkMeta [] false false), Done);
   (OWriteTmp 0 100, Done); (ORenameChunk 0, Done); (OWriteMeta (mkMeta [(0, 2)] false false), Done);
   (OWriteMeta (mkMeta [(0, 2); (1, 0)] false false), Done);
   (OWriteTmp 2 102, Done); (ORenameChunk 2, Done); (OWriteMeta (mkMeta [(0, 2); (1, 0); (2, 3)] false false), Done);
   (OWriteMeta (mkMeta [(0, 2); (1, 0); (2, 3)] true false), Done); (ORenameDir, Done)].

Example ex_accepts : accepts ex_cfg ex_trace = true.
Proof. vm_compute. reflexivity. Qed.

Example ex_complete_visible :
  match run_evs fs_empty ex_trace with
  | Some f => visible f = true /\ load f = Ok [Some 100; None; Some 102]
  | None => False
  end.
Proof. vm_compute. split; reflexivity. Qed.

Example ex_cut_midwrite_invisible :
  match run_evs fs_empty (crash_cut ex_trace 6 (Some ETrunc)) with
  | Some f => visible f = false /\ f_temp f <> None
  | None => False
  end.
Proof. vm_compute. split; [reflexivity | discriminate]. Qed.

(* a trace that renames the directory after a failed chunk write without recording `exception`
   (what the pinned save_from does, D3) is rejected *)
Example ex_swallowed_rejected :
  accepts (mkPcfg [(0, 2, 100)] true)
    [(OMkTemp, Done); (OWriteMeta (mkMeta [] false false), Done); (OWriteMeta (mkMeta [(0, 2)] false false), Done);
     (OWriteTmp 0 100, Failed ENone); (OWriteMeta (mkMeta [(0, 2)] true false), Done); (ORenameDir, Done)] = false.
Proof. vm_compute. reflexivity. Qed.

(* a pooled chunk write that was still in flight when the saver closed *with* `exception` may land afterwards
   (before or after the directory rename): accepted, the key stays invisible ... *)
Example ex_late_write_after_failed_close :
  let tr := [(OMkTemp, Done); (OWriteMeta (mkMeta [] false false), Done);
             (OWriteMeta (mkMeta [(0, 2)] false false), Failed ENone);
             (OWriteMeta (mkMeta [(0, 2)] true true), Done); (ORenameDir, Done);
             (OWriteTmp 0 100, Failed ENone)] in
  accepts (mkPcfg [(0, 2, 100)] true) tr = true /\
  match run_evs fs_empty tr with Some f => visible f = false | None => False end.
Proof. vm_compute. split; reflexivity. Qed.

(* ... but after a closing flush *without* `exception` nothing except the rename is accepted *)
Example ex_late_write_after_successful_close_rejected :
  accepts (mkPcfg [(0, 2, 100)] true)
    [(OMkTemp, Done); (OWriteMeta (mkMeta [] false false), Done); (OWriteTmp 0 100, Done); (ORenameChunk 0, Done);
     (OWriteMeta (mkMeta [(0, 2)] false false), Done); (OWriteMeta (mkMeta [(0, 2)] true false), Done);
     (ORenameDir, Done); (OWriteTmp 0 100, Done)] = false.
Proof. vm_compute. reflexivity. Qed.
