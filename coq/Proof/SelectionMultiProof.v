(* Property C10, two same-kind targets with identical chunk boundaries: both loaders deliver
   relabelings of one stream, Plugin.iter merges them chunk by chunk. *)
From SV Require Import Model.Rows Model.SplitArray Model.Chunk Model.Selection
  Proof.RowsFacts Proof.SplitArrayProof Proof.ChunkProof Proof.SelectionProof.

Definition res_map {A B} (g : A -> B) (r : res A) : res B :=
  match r with Ok a => Ok (g a) | Err e => Err e end.

(* a chunk with every row replaced (times must be kept) and another data type name *)
Definition relabel (f : row -> row) (dt : Z) (c : chunk) : chunk :=
  mkchunk (cstart c) (cend c) (map f (crows c)) dt (ckind c) (crun c) (ctarget c).

Section Relabel.
  Variable f : row -> row.
  Hypothesis f_rt : forall r, rt (f r) = rt r.
  Hypothesis f_re : forall r, re (f r) = re r.

  Lemma sa_scan_map rs i t les spl : sa_scan (map f rs) i t les spl = sa_scan rs i t les spl.
  Proof.
    revert i les spl. induction rs as [|d rs IH]; intros i les spl; [reflexivity|].
    cbn [map sa_scan]. rewrite f_rt, f_re.
    destruct (rt d >=? t); [reflexivity|]. destruct (Z.max les (re d) >? t); [reflexivity|]. apply IH.
  Qed.

  Lemma rt_nth_map n rs : rt (nth n (map f rs) row0) = rt (nth n rs row0).
  Proof.
    revert n. induction rs as [|d rs IH]; intros n; destruct n; cbn; auto.
  Qed.

  Definition map3 (x : list row * list row * Z) : list row * list row * Z :=
    match x with (l, r, t) => (map f l, map f r, t) end.

  Lemma split_array_map rs t early :
    split_array (map f rs) t early = option_map map3 (split_array rs t early).
  Proof.
    unfold split_array. destruct rs as [|d0 rs0] eqn:Ers; [reflexivity|].
    rewrite <- Ers. assert (Hm : map f rs = f d0 :: map f rs0) by (rewrite Ers; reflexivity).
    rewrite Hm at 1. rewrite f_rt. destruct (rt d0 >=? t); [reflexivity|].
    rewrite sa_scan_map. destruct (sa_scan rs 0 t (-1) 0) as [[ex les] spl].
    rewrite firstn_map, skipn_map, rt_nth_map.
    destruct ex as [k| |]; cbn [option_map map3].
    - destruct (negb (Nat.eqb spl k) || (les >? t)); [destruct early|]; reflexivity.
    - cbn [negb orb]. destruct early; reflexivity.
    - reflexivity.
  Qed.

  Lemma max_end_map l : max_end (map f l) = max_end l.
  Proof.
    destruct l as [|r rest]; [reflexivity|]. cbn [map max_end]. rewrite f_re. f_equal.
    rewrite map_map. apply map_ext. intros; apply f_re.
  Qed.

  Lemma lastn_map n (l : list row) : lastn n (map f l) = map f (lastn n l).
  Proof. unfold lastn. rewrite map_length, skipn_map. reflexivity. Qed.

  Lemma mk_chunk_map s e rows dt dt' kind run tgt :
    mk_chunk s e (map f rows) dt' kind run tgt = res_map (relabel f dt') (mk_chunk s e rows dt kind run tgt).
  Proof.
    unfold mk_chunk. destruct (s <? 0); [reflexivity|]. destruct (s >? e); [reflexivity|].
    destruct rows as [|r0 rest]; [reflexivity|]. cbn [map]. rewrite f_rt.
    destruct (rt r0 <? s); [reflexivity|].
    change (f r0 :: map f rest) with (map f (r0 :: rest)). rewrite lastn_map, max_end_map.
    destruct (max_end (lastn end_window (r0 :: rest)) >? e); reflexivity.
  Qed.

  Definition relabel2 dt (x : chunk * chunk) : chunk * chunk := (relabel f dt (fst x), relabel f dt (snd x)).

  Lemma chunk_split_map dt c x early :
    chunk_split (relabel f dt c) x early = res_map (relabel2 dt) (chunk_split c x early).
  Proof.
    unfold chunk_split. cbn [relabel cstart cend crows cdtype ckind crun ctarget].
    set (t := Z.max (Z.min x (cend c)) (cstart c)).
    assert (Hgen : forall d1 d2 t',
      (do c1 <- mk_chunk (cstart c) (Z.max (cstart c) t') (map f d1) dt (ckind c) (crun c) (ctarget c);
       do c2 <- mk_chunk (Z.max (cstart c) t') (Z.max t' (cend c)) (map f d2) dt (ckind c) (crun c) (ctarget c);
       Ok (c1, c2)) =
      res_map (relabel2 dt)
        (do c1 <- mk_chunk (cstart c) (Z.max (cstart c) t') d1 (cdtype c) (ckind c) (crun c) (ctarget c);
         do c2 <- mk_chunk (Z.max (cstart c) t') (Z.max t' (cend c)) d2 (cdtype c) (ckind c) (crun c) (ctarget c);
         Ok (c1, c2))).
    { intros d1 d2 t'. rewrite (mk_chunk_map _ _ d1 (cdtype c)), (mk_chunk_map _ _ d2 (cdtype c)).
      destruct (mk_chunk (cstart c) (Z.max (cstart c) t') d1 (cdtype c) (ckind c) (crun c) (ctarget c)); [|reflexivity].
      cbn [res_map res_bind].
      destruct (mk_chunk (Z.max (cstart c) t') (Z.max t' (cend c)) d2 (cdtype c) (ckind c) (crun c) (ctarget c)); reflexivity. }
    destruct (t =? cend c).
    - apply (Hgen (crows c) [] t).
    - destruct (t =? cstart c).
      + apply (Hgen [] (crows c) t).
      + rewrite split_array_map. destruct (split_array (crows c) t early) as [[[l r] t']|]; [|reflexivity].
        cbn [option_map map3]. apply Hgen.
  Qed.

  Lemma apply_time_range_map dt c t0 t1 :
    apply_time_range (relabel f dt c) t0 t1 = res_map (relabel f dt) (apply_time_range c t0 t1).
  Proof.
    unfold apply_time_range. cbn [relabel cstart cend].
    assert (H1 : (if cstart c <? t0 then do '(_, r) <- chunk_split (relabel f dt c) t0 true; Ok r else Ok (relabel f dt c)) =
                 res_map (relabel f dt) (if cstart c <? t0 then do '(_, r) <- chunk_split c t0 true; Ok r else Ok c)).
    { destruct (cstart c <? t0); [|reflexivity]. rewrite chunk_split_map.
      destruct (chunk_split c t0 true) as [[a b]|e]; reflexivity. }
    change (cstart (relabel f dt c)) with (cstart c). rewrite H1.
    destruct (if cstart c <? t0 then do '(_, r) <- chunk_split c t0 true; Ok r else Ok c) as [c1|e]; [|reflexivity].
    cbn [res_map res_bind]. change (cend (relabel f dt c1)) with (cend c1).
    destruct (cend c1 >? t1); [|reflexivity]. rewrite chunk_split_map.
    destruct (chunk_split c1 t1 false) as [[l r]|e]; cbn [res_map relabel2 fst snd]; [reflexivity|].
    destruct (e =? E_CANNOT_SPLIT); reflexivity.
  Qed.

  Lemma load_chunks_map dt t0 t1 cs :
    load_chunks t0 t1 (map (relabel f dt) cs) = res_map (map (relabel f dt)) (load_chunks t0 t1 cs).
  Proof.
    induction cs as [|c rest IH]; [reflexivity|]. cbn [map load_chunks].
    change (pruned t0 t1 (relabel f dt c)) with (pruned t0 t1 c).
    destruct (pruned t0 t1 c); [exact IH|]. rewrite apply_time_range_map, IH.
    destruct (apply_time_range c t0 t1); [|reflexivity]. cbn [res_map res_bind].
    destruct (load_chunks t0 t1 rest); reflexivity.
  Qed.
End Relabel.

(* ------------------------------------------------------------------------------------------ *)
(* Plugin.iter over two relabelings of one stream                                              *)
(* ------------------------------------------------------------------------------------------ *)
Lemma wf_relabel f dt c :
  (forall r, rt (f r) = rt r) -> (forall r, re (f r) = re r) -> wf c -> wf (relabel f dt c).
Proof.
  intros Hrt Hre (H0 & Hse & Hs & HF). unfold wf, relabel. cbn. repeat split; auto.
  - clear - Hrt Hs. induction (crows c) as [|r l IH]; cbn in *; [exact I|]. destruct Hs as [H1 H2].
    split; [|apply IH; exact H2]. apply Forall_map. eapply Forall_impl; [|exact H1].
    cbn. intros q Hq. rewrite !Hrt. exact Hq.
  - apply Forall_map. eapply Forall_impl; [|exact HF]. cbn. intros q Hq. rewrite Hrt, Hre. exact Hq.
Qed.

(* an exhausted input buffer: the empty remainder [e, e) left by a split at the buffer's end *)
Definition ebuf (b : chunk) (e dt : Z) (run : option Z) : Prop :=
  wf b /\ cstart b = e /\ cend b = e /\ crows b = [] /\ cdtype b = dt /\ crun b = run.

Lemma split_at_end c early :
  wf c ->
  exists l r, chunk_split c (cend c) early = Ok (l, r) /\
    cstart l = cstart c /\ cend l = cend c /\ crows l = crows c /\
    ebuf r (cend c) (cdtype c) (crun c).
Proof.
  intros (H0 & Hse & Hs & HF). unfold chunk_split.
  replace (Z.max (Z.min (cend c) (cend c)) (cstart c)) with (cend c) by lia.
  rewrite Z.eqb_refl. rewrite (Z.max_r (cstart c) (cend c)) by lia. rewrite Z.max_id.
  rewrite mk_chunk_ok; [|lia|lia|].
  2:{ eapply Forall_impl; [|exact HF]. cbn; intros; lia. }
  cbn [res_bind]. rewrite mk_chunk_ok; [|lia|lia|constructor]. cbn [res_bind].
  eexists; eexists. split; [reflexivity|]. unfold ebuf, wf. cbn. repeat split; auto; try lia; try constructor.
Qed.

Lemma max_passes_pos : exists n, max_passes = S n.
Proof. unfold max_passes. vm_compute. eexists. reflexivity. Qed.

Section Aligned.
  Variables fa fb : row -> row.
  Variables dta dtb : Z.
  Hypothesis fa_rt : forall r, rt (fa r) = rt r.
  Hypothesis fa_re : forall r, re (fa r) = re r.
  Hypothesis fb_rt : forall r, rt (fb r) = rt r.
  Hypothesis fb_re : forall r, re (fb r) = re r.

  Definition out_of (z : chunk) : Z * Z * list (row * row) :=
    (cstart z, cend z, combine (map fa (crows z)) (map fb (crows z))).

  (* what happens to one pair of buffers that both hold exactly the rows of z *)
  Lemma merge_full_buffers (ba bb : chunk) z run :
    wf ba -> wf bb -> cstart ba = cstart z -> cend ba = cend z -> crows ba = map fa (crows z) ->
    cstart bb = cstart z -> cend bb = cend z -> crows bb = map fb (crows z) ->
    cdtype ba = dta -> cdtype bb = dtb -> crun ba = run -> crun bb = run ->
    exists ia ba2 ib bb2,
      chunk_split ba (cend z) true = Ok (ia, ba2) /\ chunk_split bb (cend z) true = Ok (ib, bb2) /\
      retrim max_passes ia ib ba2 bb2 (cend z) = Ok (ia, ib, ba2, bb2) /\
      merge2 ia ib = Ok (out_of z) /\
      ebuf ba2 (cend z) dta run /\ ebuf bb2 (cend z) dtb run.
  Proof.
    intros Wa Wb Sa Ea Ra Sb Eb Rb Da Db Ua Ub.
    destruct (split_at_end ba true Wa) as (ia & ba2 & E1 & A1 & A2 & A3 & A4).
    destruct (split_at_end bb true Wb) as (ib & bb2 & E2 & B1 & B2 & B3 & B4).
    rewrite Ea in E1. rewrite Eb in E2.
    exists ia, ba2, ib, bb2. split; [exact E1|]. split; [exact E2|].
    destruct max_passes_pos as [n Hn]. rewrite Hn. cbn [retrim].
    rewrite A2, B2, Ea, Eb, Z.eqb_refl. split; [reflexivity|].
    split.
    - unfold merge2, out_of. rewrite A3, B3, Ra, Rb, !map_length, Nat.eqb_refl. cbn [negb].
      rewrite A1, B1, A2, B2, Sa, Sb, Ea, Eb, !Z.eqb_refl. cbn [andb negb]. reflexivity.
    - rewrite Ea, Da, Ua in A4. rewrite Eb, Db, Ub in B4. split; assumption.
  Qed.

  Lemma fetch_into_empty (b : chunk) e dt run f z it :
    (forall r, rt (f r) = rt r) -> (forall r, re (f r) = re r) ->
    ebuf b e dt run -> wf z -> cstart z = e -> crun z = run ->
    exists b', fetch (Some b) (relabel f dt z :: it) = Ok (Some (b', it)) /\
      wf b' /\ cstart b' = cstart z /\ cend b' = cend z /\ crows b' = map f (crows z) /\
      cdtype b' = dt /\ crun b' = run.
  Proof.
    intros Hrt Hre (Wb & Sb & Eb & Rb & Db & Ub) Wz Sz Uz.
    pose proof (wf_relabel f dt z Hrt Hre Wz) as Wz'.
    destruct (concatenate_two_correct b (relabel f dt z) false Wb Wz') as (c & Ec & Wc & C1 & C2 & C3 & C4 & _ & C6 & _).
    - cbn. congruence.
    - cbn. congruence.
    - cbn. lia.
    - exists c. unfold fetch. rewrite Ec. cbn [res_bind]. split; [reflexivity|].
      cbn in C2, C3. rewrite Rb in C3. cbn in C3.
      split; [exact Wc|]. repeat split; congruence.
  Qed.

  Lemma step_aligned ba bb e run z ita itb :
    ebuf ba e dta run -> ebuf bb e dtb run -> wf z -> cstart z = e -> e < cend z -> crun z = run ->
    exists ba' bb',
      iter_step false false ba bb (relabel fa dta z :: ita) (relabel fb dtb z :: itb) =
        Ok (Some (out_of z, ba', bb', ita, itb)) /\
      ebuf ba' (cend z) dta run /\ ebuf bb' (cend z) dtb run.
  Proof.
    intros Ba Bb Wz Sz Hpos Uz.
    destruct (fetch_into_empty ba e dta run fa z ita fa_rt fa_re Ba Wz Sz Uz)
      as (ba1 & Fa & Wa & A1 & A2 & A3 & A4 & A5).
    destruct (fetch_into_empty bb e dtb run fb z itb fb_rt fb_re Bb Wz Sz Uz)
      as (bb1 & Fb & Wb & B1 & B2 & B3 & B4 & B5).
    destruct (merge_full_buffers ba1 bb1 z run Wa Wb A1 A2 A3 B1 B2 B3 A4 B4 A5 B5)
      as (ia & ba2 & ib & bb2 & E1 & E2 & E3 & E4 & Ha & Hb).
    exists ba2, bb2. split; [|split; assumption].
    unfold iter_step. rewrite Fa. cbn [res_bind]. rewrite A2.
    (* the non-pacemaker fetches exactly one chunk *)
    assert (Hfu : fetch_until (S (length (relabel fb dtb z :: itb))) bb (relabel fb dtb z :: itb) (cend z) = Ok (bb1, itb)).
    { destruct Bb as (_ & _ & Eb & _). cbn [fetch_until length].
      destruct (cend bb <? cend z) eqn:El; [|lia]. rewrite Fb. cbn [res_bind].
      destruct (length itb); cbn [fetch_until]; rewrite B2, Z.ltb_irrefl; reflexivity. }
    rewrite E1. cbn [res_bind]. rewrite Hfu. cbn [res_bind]. rewrite E2. cbn [res_bind].
    rewrite E3. cbn [res_bind]. rewrite E4. cbn [res_bind]. reflexivity.
  Qed.

  Lemma iter_loop_aligned : forall lz fuel ba bb e run,
    (length lz < fuel)%nat -> Forall wf lz -> contig lz ->
    Forall (fun z => cstart z < cend z) lz -> Forall (fun z => crun z = run) lz ->
    match lz with z :: _ => cstart z = e | [] => True end ->
    ebuf ba e dta run -> ebuf bb e dtb run ->
    iter_loop fuel false false ba bb (map (relabel fa dta) lz) (map (relabel fb dtb) lz) = Ok (map out_of lz).
  Proof.
    induction lz as [|z rest IH]; intros fuel ba bb e run Hf HW HC HP HU He Ba Bb.
    - destruct fuel as [|fuel]; [cbn in Hf; lia|]. cbn. reflexivity.
    - destruct fuel as [|fuel]; [cbn in Hf; lia|].
      pose proof (Forall_inv HW) as Wz. pose proof (Forall_inv_tail HW) as HW'.
      pose proof (Forall_inv HP) as Pz. pose proof (Forall_inv_tail HP) as HP'.
      pose proof (Forall_inv HU) as Uz. pose proof (Forall_inv_tail HU) as HU'. cbn beta in Pz, Uz.
      cbn [contig] in HC. destruct HC as [Hhd HC']. subst run.
      destruct (step_aligned ba bb e (crun z) z (map (relabel fa dta) rest) (map (relabel fb dtb) rest)
                             Ba Bb Wz He ltac:(lia) eq_refl) as (ba' & bb' & Es & Ba' & Bb').
      cbn [map iter_loop]. rewrite Es. cbn [res_bind].
      rewrite (IH fuel ba' bb' (cend z) (crun z)); auto.
      + cbn in Hf. lia.
      + destruct rest as [|d rest']; [exact I|]. destruct Hhd as [Hd _]. symmetry. exact Hd.
  Qed.

  Theorem iter_merge_aligned lz run :
    lz <> [] -> Forall wf lz -> contig lz ->
    Forall (fun z => cstart z < cend z) lz -> Forall (fun z => crun z = run) lz ->
    iter_merge (map (relabel fa dta) lz) (map (relabel fb dtb) lz) = Ok (map out_of lz).
  Proof.
    intros Hne HW HC HP HU. destruct lz as [|z rest]; [congruence|].
    pose proof (Forall_inv HW) as Wz. pose proof (Forall_inv_tail HW) as HW'.
    pose proof (Forall_inv HP) as Pz. pose proof (Forall_inv_tail HP) as HP'.
    pose proof (Forall_inv HU) as Uz. pose proof (Forall_inv_tail HU) as HU'. cbn beta in Pz, Uz.
    cbn [contig] in HC. destruct HC as [Hhd HC']. subst run.
    unfold iter_merge. cbn [map fetch concatenate somes res_bind].
    change (cend (relabel fb dtb z)) with (cend z). change (cend (relabel fa dta z)) with (cend z).
    rewrite Z.ltb_irrefl.
    remember (length (relabel fa dta z :: map (relabel fa dta) rest) +
              length (relabel fb dtb z :: map (relabel fb dtb) rest) + 2)%nat as fuel eqn:Hfuel.
    assert (Hf : exists f', fuel = S f' /\ (length rest < f')%nat).
    { cbn [length] in Hfuel. rewrite !map_length in Hfuel. exists (Nat.pred fuel). lia. }
    destruct Hf as (f' & -> & Hf'). clear Hfuel.
    pose proof (wf_relabel fa dta z fa_rt fa_re Wz) as Wa.
    pose proof (wf_relabel fb dtb z fb_rt fb_re Wz) as Wb.
    destruct (merge_full_buffers (relabel fa dta z) (relabel fb dtb z) z (crun z) Wa Wb)
      as (ia & ba2 & ib & bb2 & E1 & E2 & E3 & E4 & Ha & Hb); try reflexivity.
    cbn [iter_loop]. unfold iter_step.
    cbn [res_bind]. change (cend (relabel fa dta z)) with (cend z). rewrite E1. cbn [res_bind].
    cbn [fetch_until length]. change (cend (relabel fb dtb z)) with (cend z). rewrite Z.ltb_irrefl.
    cbn [res_bind]. rewrite E2. cbn [res_bind]. rewrite E3. cbn [res_bind]. rewrite E4. cbn [res_bind].
    rewrite (iter_loop_aligned rest f' ba2 bb2 (cend z) (crun z)); auto.
    destruct rest as [|d rest']; [exact I|]. destruct Hhd as [Hd _]. symmetry. exact Hd.
  Qed.
End Aligned.

(* ------------------------------------------------------------------------------------------ *)
(* bounds of a loaded chunk (needed for "loaded chunks have positive length")                  *)
(* ------------------------------------------------------------------------------------------ *)
Lemma apply_time_range_bounds c t0 t1 c' :
  wf c -> pruned t0 t1 c = false -> apply_time_range c t0 t1 = Ok c' ->
  cstart c' <= Z.max t0 (cstart c) /\ Z.min t1 (cend c) <= cend c'.
Proof.
  intros Hwf Hnp H. unfold pruned in Hnp. apply orb_false_iff in Hnp as [Hn1 Hn2].
  assert (Hend : t0 < cend c) by lia.
  destruct (atr_left c t0 Hwf Hend) as (c1 & E1 & W1 & R1 & B1 & S1 & S2 & _).
  unfold apply_time_range in H. rewrite E1 in H. cbn [res_bind] in H.
  assert (Hs1 : cstart c1 <= Z.max t0 (cstart c)).
  { destruct (Z_lt_dec (cstart c) t0) as [Hl|Hl]; [specialize (S2 Hl); lia|]. rewrite (S1 ltac:(lia)). lia. }
  destruct (cend c1 >? t1) eqn:Ee.
  2:{ inversion H; subst. lia. }
  pose proof (chunk_split_correct c1 t1 false W1) as HP.
  destruct (chunk_split c1 t1 false) as [[l r']|e] eqn:Esp.
  - inversion H; subst. cbn in HP. destruct HP as (_ & _ & A1 & _ & _ & _ & _ & _ & _ & A6 & _).
    specialize (A6 eq_refl). lia.
  - cbn in HP. destruct HP as (-> & _). rewrite Z.eqb_refl in H. inversion H; subst. lia.
Qed.

Lemma Forall2_loaded_positive t0 t1 ks loaded :
  t0 < t1 ->
  Forall2 (fun c c' => apply_time_range c t0 t1 = Ok c') ks loaded ->
  Forall wf ks -> Forall (fun c => np t0 t1 c = true) ks -> Forall (fun c => cstart c < cend c) ks ->
  Forall (fun c => cstart c < cend c) loaded.
Proof.
  intros H01. induction 1 as [|c c' ks' l' Hc F2 IH]; intros HW HN HP; [constructor|].
  inversion HW; subst. inversion HN; subst. inversion HP; subst. constructor; [|apply IH; assumption].
  assert (Hnp : pruned t0 t1 c = false) by (unfold np in *; destruct (pruned t0 t1 c); [discriminate|reflexivity]).
  destruct (apply_time_range_bounds c t0 t1 c' ltac:(assumption) Hnp Hc) as [B1 B2].
  unfold pruned in Hnp. lia.
Qed.

(* load_chunks as a Forall2 of the function itself *)
Lemma load_chunks_fun t0 t1 cs loaded :
  load_chunks t0 t1 cs = Ok loaded ->
  Forall2 (fun c c' => apply_time_range c t0 t1 = Ok c') (filter (np t0 t1) cs) loaded.
Proof.
  revert loaded. induction cs as [|c rest IH]; intros loaded H; cbn in H.
  - inversion H; subst. constructor.
  - cbn [filter]. unfold np at 1. destruct (pruned t0 t1 c); cbn [negb]; [apply IH; exact H|].
    destruct (apply_time_range c t0 t1) as [c'|e] eqn:Ec; cbn [res_bind] in H; [|discriminate].
    destruct (load_chunks t0 t1 rest) as [l'|e] eqn:El; cbn [res_bind] in H; [|discriminate].
    inversion H; subst. constructor; [exact Ec|]. apply IH. reflexivity.
Qed.

Lemma contig_runs : forall l z, contig (z :: l) -> Forall (fun y => crun y = crun z) (z :: l).
Proof.
  induction l as [|d l IH]; intros z H; [repeat constructor|].
  cbn [contig] in H. destruct H as [[_ Hr] H']. specialize (IH d H').
  constructor; [reflexivity|]. eapply Forall_impl; [|exact IH]. cbn. intros; congruence.
Qed.

Lemma Forall2_wf t0 t1 ks loaded :
  Forall2 (fun c c' => atr_post c t0 t1 c') ks loaded -> Forall wf loaded.
Proof. induction 1 as [|c c' ? ? Hp]; constructor; auto. destruct Hp as (W & _). exact W. Qed.

(* ------------------------------------------------------------------------------------------ *)
(* selection on merged records                                                                 *)
(* ------------------------------------------------------------------------------------------ *)
Definition sel_head2 (keep drop : option (list Z)) : res (list Z) :=
  if is_nonempty drop && is_nonempty keep then Err E_KEEP_DROP else out_fields pair_fields keep drop.
Definition proj2 (fs : list Z) (x : row * row) : list Z := map (pair_fval x) fs.
Definition tk2 (m : tmode) (t0 t1 : Z) : row * row -> bool := time_keep (row * row) pair_time pair_end m t0 t1.

Lemma apply_selection_pairs_unfold t0 t1 m p keep drop xs :
  time_mode m ->
  apply_selection_pairs (Some (t0, t1)) m p keep drop xs =
  do fs <- sel_head2 keep drop; Ok (fs, map (proj2 fs) (filter p (filter (tk2 m t0 t1) xs))).
Proof.
  intros Hm. unfold apply_selection_pairs, apply_selection, sel_head2.
  destruct (is_nonempty drop && is_nonempty keep); [reflexivity|].
  destruct Hm as [-> | ->]; cbn [res_bind]; reflexivity.
Qed.

Lemma collect_spec2 t0 t1 m p keep drop code xss :
  time_mode m -> xss <> [] ->
  collect (row * row) (apply_selection_pairs (Some (t0, t1)) m p keep drop) code xss =
  do fs <- sel_head2 keep drop;
  Ok (fs, map (proj2 fs) (filter p (concat (map (filter (tk2 m t0 t1)) xss)))).
Proof.
  intros Hm Hne. unfold collect.
  destruct (sel_head2 keep drop) as [fs|e] eqn:Eh; cbn [res_bind].
  - set (g := fun xs : list (row * row) => (fs, map (proj2 fs) (filter p (filter (tk2 m t0 t1) xs)))).
    assert (E : concat (map snd (map g xss)) = map (proj2 fs) (filter p (concat (map (filter (tk2 m t0 t1)) xss)))).
    { rewrite map_map. unfold g. cbn [snd]. rewrite filter_concat, map_concat, !map_map. reflexivity. }
    rewrite (mapM_ok _ g).
    2:{ intros xs _. rewrite apply_selection_pairs_unfold by exact Hm. rewrite Eh. reflexivity. }
    cbn [res_bind]. rewrite <- E.
    destruct xss as [|x0 xss']; [congruence|].
    change (map g (x0 :: xss')) with (g x0 :: map g xss'). cbv beta iota. reflexivity.
  - destruct xss as [|x0 xss']; [congruence|]. cbn [mapM].
    rewrite apply_selection_pairs_unfold by exact Hm. rewrite Eh. reflexivity.
Qed.

Lemma combine_map {A B C} (f : A -> B) (g : A -> C) l : combine (map f l) (map g l) = map (fun x => (f x, g x)) l.
Proof. induction l as [|x l IH]; cbn; [reflexivity|]. rewrite IH. reflexivity. Qed.

Lemma filter_map_comm {A B} (f : A -> B) (q : B -> bool) l : filter q (map f l) = map f (filter (fun x => q (f x)) l).
Proof. induction l as [|x l IH]; cbn; [reflexivity|]. destruct (q (f x)); cbn; rewrite IH; reflexivity. Qed.

Lemma contiguous_from_contig fa fb : forall lz prev,
  contig lz -> match prev, lz with Some e, z :: _ => cstart z = e | _, _ => True end ->
  contiguous_from prev (map (out_of fa fb) lz) = true.
Proof.
  induction lz as [|z rest IH]; intros prev HC Hp; [reflexivity|].
  cbn [map contiguous_from out_of]. cbn [contig] in HC. destruct HC as [Hhd HC'].
  rewrite (IH (Some (cend z)) HC').
  - destruct prev as [e|]; [rewrite Hp, Z.eqb_refl|]; reflexivity.
  - destruct rest as [|d rest']; [exact I|]. destruct Hhd as [Hd _]. symmetry. exact Hd.
Qed.

Lemma all_rows_relabel f dt cz : all_rows (map (relabel f dt) cz) = map f (all_rows cz).
Proof.
  unfold all_rows. induction cz as [|c rest IH]; [reflexivity|]. cbn [map flat_map relabel crows].
  rewrite IH, map_app. reflexivity.
Qed.

(* ------------------------------------------------------------------------------------------ *)
(* two same-kind targets stored with identical chunk boundaries                                *)
(* ------------------------------------------------------------------------------------------ *)
Section TwoTargets.
  Variables fa fb : row -> row.
  Variables dta dtb : Z.
  Hypothesis fa_rt : forall r, rt (fa r) = rt r.
  Hypothesis fa_re : forall r, re (fa r) = re r.
  Hypothesis fb_rt : forall r, rt (fb r) = rt r.
  Hypothesis fb_re : forall r, re (fb r) = re r.

  Definition pairof (r : row) : row * row := (fa r, fb r).

  Lemma tk2_pairof m t0 t1 r : tk2 m t0 t1 (pairof r) = tk m t0 t1 r.
  Proof. unfold tk2, tk, time_keep, pairof, pair_time, pair_end. cbn [snd]. rewrite fb_rt, fb_re. reflexivity. Qed.

  Theorem multi_target_commutes_partial cz t0 t1 m p keep drop :
    time_mode m -> t0 < t1 -> Forall wf cz -> contig cz -> Forall (fun c => cstart c < cend c) cz ->
    no_lost_row m t0 t1 (fun r => p (pairof r)) cz ->
    get_array2_abs (map (relabel fa dta) cz) (map (relabel fb dtb) cz) (Some (t0, t1)) m p keep drop =
    if forallb (pruned t0 t1) cz then Err E_EMPTY_INPUT
    else select_full2 (map (relabel fa dta) cz) (map (relabel fb dtb) cz) (Some (t0, t1)) m p keep drop.
  Proof.
    intros Hm H01 HF HC HP HN. unfold get_array2_abs, load.
    rewrite (load_chunks_map fa fa_rt fa_re), (load_chunks_map fb fb_rt fb_re).
    destruct (load_chunks_spec t0 t1 cz HF) as (lz & El & F2). rewrite El. cbn [res_map res_bind].
    destruct (forallb (pruned t0 t1) cz) eqn:Eall.
    - apply filter_np_nil in Eall. rewrite Eall in F2. inversion F2; subst. reflexivity.
    - assert (Hne : lz <> []).
      { intros ->. inversion F2 as [Hnil|]; subst. symmetry in Hnil. apply filter_np_nil in Hnil. congruence. }
      assert (HWl : Forall wf lz) by (eapply Forall2_wf; exact F2).
      assert (HCl : contig lz).
      { eapply Forall2_contig; [exact F2| |apply filter_all_true]. apply filter_np_contig; assumption. }
      assert (HPl : Forall (fun c => cstart c < cend c) lz).
      { eapply (Forall2_loaded_positive t0 t1 (filter (np t0 t1) cz)); [exact H01|apply load_chunks_fun; exact El| | |].
        - apply Forall_forall. intros c Hc. apply filter_In in Hc as [Hc _]. rewrite Forall_forall in HF. auto.
        - apply filter_all_true.
        - apply Forall_forall. intros c Hc. apply filter_In in Hc as [Hc _]. rewrite Forall_forall in HP. auto. }
      assert (HUl : exists run, Forall (fun z => crun z = run) lz).
      { destruct lz as [|z l]; [congruence|]. exists (crun z). apply contig_runs. exact HCl. }
      destruct HUl as [run HUl].
      rewrite (iter_merge_aligned fa fb dta dtb fa_rt fa_re fb_rt fb_re lz run Hne HWl HCl HPl HUl).
      cbn [res_bind]. rewrite map_map.
      rewrite collect_spec2; [|exact Hm|destruct lz; [congruence|discriminate]].
      unfold select_full2. rewrite apply_selection_pairs_unfold by exact Hm.
      destruct (sel_head2 keep drop) as [fs|e]; cbn [res_bind]; [|reflexivity].
      rewrite (contiguous_from_contig fa fb lz None HCl I).
      f_equal. f_equal. f_equal.
      rewrite !all_rows_relabel, combine_map. fold pairof.
      (* both sides as images of selections on cz *)
      rewrite map_map. cbn [out_of snd].
      assert (Hl : concat (map (fun z => filter (tk2 m t0 t1) (combine (map fa (crows z)) (map fb (crows z)))) lz) =
                   map pairof (filter (tk m t0 t1) (visible_rows m t0 t1 cz))).
      { transitivity (map pairof (concat (map (fun c' => filter (tk m t0 t1) (crows c')) lz))).
        - rewrite map_concat, map_map. f_equal. apply map_ext. intros z.
          rewrite combine_map. fold pairof. rewrite filter_map_comm. f_equal.
          apply filter_ext_Forall. apply Forall_forall. intros r _. apply tk2_pairof.
        - f_equal. rewrite (loaded_rows m t0 t1 cz lz Hm HF F2).
          unfold visible_rows. rewrite flat_map_concat, filter_concat, map_map.
          f_equal. apply map_ext. intros c. unfold keepf. apply filter_andb. }
      rewrite Hl. rewrite !filter_map_comm. f_equal.
      rewrite (filter_ext_Forall (fun x => tk2 m t0 t1 (pairof x)) (tk m t0 t1) (all_rows cz)).
      2:{ apply Forall_forall. intros r _. apply tk2_pairof. }
      exact (filter_p_visible m t0 t1 (fun r => p (pairof r)) cz HN).
  Qed.
End TwoTargets.

(* ------------------------------------------------------------------------------------------ *)
(* never partial-and-wrong: what is returned is always a sub-sequence of the full selection    *)
(* ------------------------------------------------------------------------------------------ *)
Inductive sublist {A} : list A -> list A -> Prop :=
| sl_nil : sublist [] []
| sl_skip x l1 l2 : sublist l1 l2 -> sublist l1 (x :: l2)
| sl_keep x l1 l2 : sublist l1 l2 -> sublist (x :: l1) (x :: l2).

Lemma sublist_refl {A} (l : list A) : sublist l l.
Proof. induction l; [constructor|apply sl_keep; auto]. Qed.

Lemma sublist_filter {A} (f : A -> bool) l : sublist (filter f l) l.
Proof. induction l as [|x l IH]; cbn; [constructor|]. destruct (f x); [apply sl_keep|apply sl_skip]; exact IH. Qed.

Lemma sublist_filter_mono {A} (f : A -> bool) l1 l2 : sublist l1 l2 -> sublist (filter f l1) (filter f l2).
Proof.
  induction 1 as [|x l1 l2 H IH|x l1 l2 H IH]; cbn; [constructor| |].
  - destruct (f x); [apply sl_skip|]; exact IH.
  - destruct (f x); [apply sl_keep|]; exact IH.
Qed.

Lemma sublist_map {A B} (g : A -> B) l1 l2 : sublist l1 l2 -> sublist (map g l1) (map g l2).
Proof. induction 1; cbn; [apply sl_nil|apply sl_skip|apply sl_keep]; auto. Qed.

Lemma sublist_app {A} (a1 a2 b1 b2 : list A) : sublist a1 a2 -> sublist b1 b2 -> sublist (a1 ++ b1) (a2 ++ b2).
Proof.
  intros H1 H2. induction H1 as [|x l1 l2 H IH|x l1 l2 H IH]; cbn; [exact H2|apply sl_skip; exact IH|apply sl_keep; exact IH].
Qed.

Lemma visible_sublist m t0 t1 cs : sublist (visible_rows m t0 t1 cs) (all_rows cs).
Proof.
  unfold visible_rows, all_rows. induction cs as [|c rest IH]; [constructor|].
  cbn [flat_map]. apply sublist_app; [apply sublist_filter|exact IH].
Qed.

Theorem selection_never_invents cs t0 t1 m p keep drop fs out :
  time_mode m -> Forall wf cs -> contig cs ->
  get_array_abs cs (Some (t0, t1)) m p keep drop = Ok (fs, out) ->
  exists out', select_full cs (Some (t0, t1)) m p keep drop = Ok (fs, out') /\ sublist out out'.
Proof.
  intros Hm HF HC H. rewrite selection_characterised in H by assumption.
  destruct (forallb (pruned t0 t1) cs); [discriminate|].
  unfold select_full. rewrite apply_selection_rows_unfold in * by exact Hm.
  destruct (sel_head keep drop) as [fs'|e]; cbn [res_bind] in *; [|discriminate].
  assert (Hfs : fs' = fs) by congruence. subst fs'.
  eexists. split; [reflexivity|].
  assert (Hout : out = map (proj fs) (filter p (filter (tk m t0 t1) (visible_rows m t0 t1 cs)))) by congruence.
  rewrite Hout. apply sublist_map. apply sublist_filter_mono. apply sublist_filter_mono. apply visible_sublist.
Qed.

(* ------------------------------------------------------------------------------------------ *)
(* non-vacuity of the two-target theorem: one stream, two relabelings, a range cutting both    *)
(* chunks; the second target's rows carry other ids / channels                                 *)
(* ------------------------------------------------------------------------------------------ *)
Definition ex_fb (r : row) : row := mkrow (rt r) (re r) (rid r + 100) (rch r + 10).
Definition ex_cz : list chunk :=
  [mkchunk 0 12 [mkrow 1 3 0 0; mkrow 4 6 1 1] 1 1 (Some 7) 4;
   mkchunk 12 20 [mkrow 13 15 2 0; mkrow 18 19 3 1] 1 1 (Some 7) 4].

Example two_targets_hypotheses_hold :
  Forall wf ex_cz /\ contig ex_cz /\ Forall (fun c => cstart c < cend c) ex_cz /\
  no_lost_row Touching 5 14 (fun _ => true) ex_cz /\
  (* with identical boundaries the straddled right edge is harmless *)
  get_array2_abs (map (relabel (fun r => r) 1) ex_cz) (map (relabel ex_fb 2) ex_cz) (Some (5, 14)) Touching
                 (fun _ => true) None None =
    Ok (pair_fields, [[4; 6; 1; 1; 101; 11]; [13; 15; 2; 0; 102; 10]]).
Proof.
  split; [repeat constructor; wf_tac|]. split; [cbn; auto|]. split; [repeat constructor; cbn; lia|].
  split; [intros c r _ _; reflexivity|]. vm_compute. reflexivity.
Qed.
