(* Property C08: totality below the pass limit (the second half of iter_total_below_pass_limit). *)
From SV Require Import Model.Rows Model.SplitArray Model.Chunk Model.PluginIter
     Proof.RowsFacts Proof.SplitArrayProof Proof.ChunkProof Proof.PluginIterProof Proof.PluginIterRound
     Proof.PluginIterLoop Proof.PluginIterSafety Proof.PluginIterStair Proof.PluginIterTotal.

(* ---------- splitting at or beyond the end: everything goes left ---------- *)

Lemma chunk_split_at_end c t early c1 c2 :
  wf c -> cend c <= t -> chunk_split c t early = Ok (c1, c2) ->
  crows c2 = [] /\ cend c1 = cend c /\ crows c1 = crows c.
Proof.
  intros (H0 & Hse & _) Ht. unfold chunk_split.
  replace (Z.max (Z.min t (cend c)) (cstart c)) with (cend c) by lia.
  rewrite Z.eqb_refl.
  destruct (mk_chunk (cstart c) (Z.max (cstart c) (cend c)) (crows c) (cdtype c) (ckind c) (crun c) (ctarget c)) as [x|] eqn:E1;
    cbn [res_bind]; [|discriminate].
  destruct (mk_chunk (Z.max (cstart c) (cend c)) (Z.max (cend c) (cend c)) [] (cdtype c) (ckind c) (crun c) (ctarget c)) as [y|] eqn:E2;
    cbn [res_bind]; [|discriminate].
  intros H. inversion H; subst x y. apply mk_chunk_inv in E1. apply mk_chunk_inv in E2. subst c1 c2. cbn.
  repeat split. lia.
Qed.

Lemma concat_two_end x y al b : concatenate [Some x; Some y] al = Ok b -> cend b = cend y.
Proof.
  unfold concatenate. cbn [somes].
  destruct (negb _); [discriminate|]. destruct (_ && _); [discriminate|]. destruct (negb _); [discriminate|].
  intros H. apply mk_chunk_inv in H. subst b. reflexivity.
Qed.

(* ---------- no dependency keeps zero-duration chunks back at the common end ---------- *)

Definition trail_ok (b : Z) (s : slot) : Prop :=
  (siter s <> [] -> cend (sbuf s) < b) /\ Forall (fun c => cend c < b) (removelast (siter s)).

Lemma trail_ok_fetch b k buf c it buf' :
  trail_ok b (mkslot k buf (c :: it)) -> cend buf' = cend c -> trail_ok b (mkslot k buf' it).
Proof.
  intros [_ H2] He. unfold trail_ok. cbn [siter sbuf] in *. destruct it as [|c' it].
  - split; [intros H; exfalso; apply H; reflexivity|constructor].
  - cbn [removelast] in H2. apply Forall_cons_iff in H2 as [Hc H2]. split; [intros _; lia|exact H2].
Qed.

Lemma fetch_until_trail it : forall R b dt run done k buf tend buf' it',
  slot_inv R b dt run done (mkslot k buf it) -> trail_ok b (mkslot k buf it) ->
  fetch_until buf it tend = Ok (buf', it') -> trail_ok b (mkslot k buf' it').
Proof.
  induction it as [|c it IH]; intros R b dt run done k buf tend buf' it' HI HT Hf; cbn [fetch_until] in Hf.
  - destruct (cend buf <? tend); [discriminate|]. inversion Hf; subst. exact HT.
  - destruct (cend buf <? tend).
    + destruct (fetch_step _ _ _ _ _ _ _ _ _ HI) as (b' & Ec & HI' & _ & A2 & _).
      rewrite Ec in Hf. cbn [res_bind] in Hf.
      eapply IH; [exact HI'| |exact Hf]. eapply trail_ok_fetch; eauto.
    + inversion Hf; subst. exact HT.
Qed.

Lemma gather_one_total R b dt run done s is_pm tce :
  slot_inv R b dt run done s -> trail_ok b s -> cstart (sbuf s) <= tce -> tce <= b ->
  (is_pm = true -> cend (sbuf s) = tce) ->
  exists inp s', gather_one is_pm s tce = Ok (inp, s') /\ trail_ok b s' /\
    (tce = b -> crows (sbuf s') = [] /\ cend inp = b /\ (is_pm = false -> siter s' = [])).
Proof.
  intros HI HT Hs Hb Hpm. destruct s as [k buf it]. cbn [sbuf siter skind] in *. unfold gather_one. cbn [sbuf siter skind].
  destruct is_pm.
  - cbn [res_bind fst snd]. specialize (Hpm eq_refl).
    destruct (split_buffer _ _ _ _ _ _ _ _ tce HI) as (inp & rest & E & HP & A1 & A2 & A3); [lia|lia|].
    rewrite E. cbn [res_bind fst snd]. exists inp, (mkslot k rest it). split; [reflexivity|].
    assert (Hce : cend rest = cend buf).
    { pose proof (chunk_split_correct buf tce true (si_wf _ _ _ _ _ _ HI)) as HQ. rewrite E in HQ. cbn in HQ. tauto. }
    split.
    + destruct HT as [T1 T2]. unfold trail_ok. cbn [siter sbuf] in *. split; [rewrite Hce; exact T1|exact T2].
    + intros ->. destruct (chunk_split_at_end buf b true inp rest (si_wf _ _ _ _ _ _ HI)) as (B1 & B2 & _); [lia|exact E|].
      cbn [sbuf siter]. split; [exact B1|]. split; [congruence|discriminate].
  - pose proof (fetch_until_spec it R b dt run done k buf tce HI) as HF.
    destruct (fetch_until buf it tce) as [[buf' it']|e] eqn:Ef; cbn [res_bind fst snd].
    2:{ destruct HF as [_ Hlt]. lia. }
    destruct HF as (HI' & F1 & F2 & F3 & F4).
    pose proof (fetch_until_trail it R b dt run done k buf tce buf' it' HI HT Ef) as HT'.
    pose proof (slot_inv_end_le _ _ _ _ _ _ HI') as Hle. cbn [sbuf] in Hle.
    destruct (split_buffer _ _ _ _ _ _ _ _ tce HI') as (inp & rest & E & HP & A1 & A2 & A3); [lia|lia|].
    rewrite E. cbn [res_bind fst snd]. exists inp, (mkslot k rest it'). split; [reflexivity|].
    assert (Hce : cend rest = cend buf').
    { pose proof (chunk_split_correct buf' tce true (si_wf _ _ _ _ _ _ HI')) as HQ. rewrite E in HQ. cbn in HQ. tauto. }
    split.
    + destruct HT' as [T1 T2]. unfold trail_ok. cbn [siter sbuf] in *. split; [rewrite Hce; exact T1|exact T2].
    + intros ->. assert (Hcb : cend buf' = b) by lia.
      destruct (chunk_split_at_end buf' b true inp rest (si_wf _ _ _ _ _ _ HI')) as (B1 & B2 & _); [lia|exact E|].
      cbn [sbuf siter]. split; [exact B1|]. split; [congruence|]. intros _.
      destruct HT' as [T1 _]. cbn [siter sbuf] in T1. destruct it'; [reflexivity|]. exfalso.
      assert (cend buf' < b) by (apply T1; discriminate). lia.
Qed.

Section Run.
Variable run : option Z.
Variable b : Z.

Lemma gather_total E tce pm : forall ss specs dones i,
  slots_inv run E specs dones ss -> Forall (trail_ok b) ss -> Forall (fun sp => db sp = b) specs ->
  E <= tce -> tce <= b ->
  (forall j s, nth_error ss j = Some s -> (i + j)%nat = pm -> cend (sbuf s) = tce) ->
  exists inps ss', gather ss i pm tce = Ok (inps, ss') /\ Forall (trail_ok b) ss' /\
    (tce = b -> Forall (fun c => cend c = b) inps /\
                forall j s', nth_error ss' j = Some s' -> crows (sbuf s') = [] /\ ((i + j)%nat <> pm -> siter s' = [])).
Proof.
  induction ss as [|s ss IH]; intros specs dones i HI HT Hdb HE Hb Hpm; cbn [gather].
  - exists [], []. split; [reflexivity|]. split; [constructor|]. intros _. split; [constructor|].
    intros j s' Hj. destruct j; discriminate.
  - apply slots_inv_cons_inv in HI as (d & ds & dn & dns & -> & -> & Hs & Hst & Hk & Hrest).
    apply Forall_cons_iff in HT as [HT1 HT]. apply Forall_cons_iff in Hdb as [Hd1 Hdb]. rewrite Hd1 in Hs.
    destruct (gather_one_total _ _ _ _ _ s (Nat.eqb i pm) tce Hs HT1) as (inp & s' & Eg & T' & Fin); [lia|exact Hb| |].
    { intros Heq. apply Nat.eqb_eq in Heq. apply (Hpm 0%nat s); [reflexivity|lia]. }
    rewrite Eg. cbn [res_bind fst snd].
    destruct (IH ds dns (S i) Hrest HT Hdb HE Hb) as (inps & ss' & Eg' & T'' & Fin').
    { intros j s0 Hj Hij. apply (Hpm (S j) s0); [exact Hj|lia]. }
    rewrite Eg'. cbn [res_bind fst snd]. exists (inp :: inps), (s' :: ss'). split; [reflexivity|].
    split; [constructor; assumption|]. intros Hbe. destruct (Fin Hbe) as (F1 & F2 & F3). destruct (Fin' Hbe) as (G1 & G2).
    split; [constructor; assumption|]. intros j s0 Hj. destruct j as [|j]; cbn in Hj.
    + inversion Hj; subst s0. split; [exact F1|]. intros Hne. apply F3. apply Nat.eqb_neq. lia.
    + destruct (G2 j s0 Hj) as [H1 H2]. split; [exact H1|]. intros Hne. apply H2. lia.
Qed.

(* the re-trim loop leaves buffer ends and iterators alone *)
Lemma retrim_split_keeps t : forall inps ss inps' ss',
  length inps = length ss -> retrim_split inps ss t = Ok (inps', ss') ->
  map (fun s => cend (sbuf s)) ss' = map (fun s => cend (sbuf s)) ss /\ map siter ss' = map siter ss /\
  length inps' = length ss'.
Proof.
  induction inps as [|inp inps IH]; intros ss inps' ss' HL Hr; destruct ss as [|s ss]; cbn in HL; try lia;
    cbn [retrim_split] in Hr.
  - inversion Hr; subst. auto.
  - destruct (chunk_split inp t true) as [sp|]; cbn [res_bind] in Hr; [|discriminate].
    destruct (concatenate [Some (snd sp); Some (sbuf s)] false) as [b0|] eqn:Ec; cbn [res_bind] in Hr; [|discriminate].
    destruct (retrim_split inps ss t) as [more|] eqn:Em; cbn [res_bind] in Hr; [|discriminate].
    inversion Hr; subst. destruct more as [i2 s2]. cbn [fst snd].
    destruct (IH ss i2 s2) as (A & B & C); [lia|exact Em|].
    cbn [map sbuf siter length]. rewrite A, B, C, (concat_two_end _ _ _ _ Ec). auto.
Qed.

Lemma retrim_keeps : forall p tce inps ss inps' ss',
  length inps = length ss -> retrim p tce inps ss = Ok (inps', ss') ->
  map (fun s => cend (sbuf s)) ss' = map (fun s => cend (sbuf s)) ss /\ map siter ss' = map siter ss /\
  (all_equal (map cend inps) = true -> inps' = inps /\ ss' = ss).
Proof.
  induction p as [|p IH]; intros tce inps ss inps' ss' HL Hr; cbn [retrim] in Hr; [discriminate|].
  destruct (all_equal (map cend inps)) eqn:Heq.
  - inversion Hr; subst. auto.
  - destruct (retrim_split inps ss (zminl tce (map cend inps))) as [[i1 s1]|] eqn:Es; cbn [res_bind fst snd] in Hr; [|discriminate].
    destruct (retrim_split_keeps _ _ _ _ _ HL Es) as (A & B & C).
    destruct (IH _ _ _ _ _ C Hr) as (A' & B' & _). split; [congruence|]. split; [congruence|discriminate].
Qed.

Lemma trail_ok_transfer : forall ss ss',
  Forall (trail_ok b) ss -> map (fun s => cend (sbuf s)) ss' = map (fun s => cend (sbuf s)) ss ->
  map siter ss' = map siter ss -> Forall (trail_ok b) ss'.
Proof.
  induction ss as [|s ss IH]; intros [|s' ss'] HT H1 H2; cbn in *; try discriminate; [constructor|].
  inversion H1; inversion H2. apply Forall_cons_iff in HT as [[T1 T2] HT]. constructor; [|apply IH; assumption].
  unfold trail_ok. rewrite H0, H4. split; assumption.
Qed.

(* ---------- merge / compute checks with one dependency per kind ---------- *)

Lemma group_of_notin k : forall ss inps, ~ In k (map skind ss) -> group_of k ss inps = [].
Proof.
  induction ss as [|s ss IH]; intros inps Hn; cbn [group_of]; [reflexivity|]. destruct inps as [|c inps]; [reflexivity|].
  cbn in Hn. destruct (skind s =? k) eqn:Ek; [apply Z.eqb_eq in Ek; tauto|]. apply IH. tauto.
Qed.

Lemma group_of_unique : forall ss inps j s c,
  NoDup (map skind ss) -> nth_error ss j = Some s -> nth_error inps j = Some c ->
  group_of (skind s) ss inps = [c].
Proof.
  induction ss as [|s0 ss IH]; intros inps j s c Hnd Hs Hc; [destruct j; discriminate|].
  destruct inps as [|c0 inps]; [destruct j; discriminate|]. cbn [map] in Hnd. inversion Hnd as [|? ? Hnin Hnd']; subst.
  cbn [group_of]. destruct j as [|j]; cbn in Hs, Hc.
  - inversion Hs; inversion Hc; subst. rewrite Z.eqb_refl. rewrite group_of_notin by exact Hnin. reflexivity.
  - destruct (skind s0 =? skind s) eqn:Ek.
    + apply Z.eqb_eq in Ek. exfalso. apply Hnin. rewrite Ek. apply in_map. eapply nth_error_In; eauto.
    + eapply IH; eauto.
Qed.

Lemma distinct_kinds_nodup : forall ks seen, NoDup ks -> (forall k, In k ks -> ~ In k seen) -> distinct_kinds ks seen = ks.
Proof.
  induction ks as [|k ks IH]; intros seen Hnd Hs; cbn [distinct_kinds]; [reflexivity|].
  inversion Hnd as [|? ? Hnin Hnd']; subst.
  destruct (existsb (Z.eqb k) seen) eqn:Ex.
  - exfalso. apply existsb_exists in Ex as [x [Hx Heq]]. apply Z.eqb_eq in Heq. subst x. apply (Hs k); [left; reflexivity|exact Hx].
  - f_equal. apply IH; [exact Hnd'|]. intros k0 Hk0 [<-|Hin]; [tauto|]. apply (Hs k0); [right; exact Hk0|exact Hin].
Qed.

Lemma merge_all_single ss inps : NoDup (map skind ss) -> length inps = length ss -> forall ks,
  (forall k, In k ks -> In k (map skind ss)) ->
  exists ms, merge_all ks ss inps = Ok ms /\ length ms = length ks /\
             Forall (fun m => exists c, In c inps /\ m = (cstart c, cend c, crun c)) ms.
Proof.
  intros Hnd HL. induction ks as [|k ks IH]; intros Hin; cbn [merge_all].
  - exists []. split; [reflexivity|]. split; [reflexivity|constructor].
  - destruct IH as (ms & Em & Lm & Fm); [intros k0 Hk0; apply Hin; right; exact Hk0|].
    assert (Hk : In k (map skind ss)) by (apply Hin; left; reflexivity).
    apply in_map_iff in Hk as (s & <- & Hs). apply In_nth_error in Hs as [j Hj].
    destruct (nth_error inps j) as [c|] eqn:Ec.
    2:{ apply nth_error_None in Ec. assert (j < length ss)%nat by (apply nth_error_Some; congruence). lia. }
    rewrite (group_of_unique ss inps j s c Hnd Hj Ec). cbn [merge_check res_bind]. rewrite Em. cbn [res_bind].
    eexists. split; [reflexivity|]. split; [cbn; lia|]. constructor; [|exact Fm].
    exists c. split; [eapply nth_error_In; eauto|reflexivity].
Qed.

Lemma opt_eqb_refl r : opt_eqb r r = true.
Proof. destruct r; cbn; [apply Z.eqb_refl|reflexivity]. Qed.

Lemma compute_check_same sw s e r ms :
  ms <> [] -> Forall (fun m => m = (s, e, r)) ms -> compute_check sw ms = Ok (s, e).
Proof.
  intros Hne HF. destruct ms as [|m rest]; [congruence|]. apply Forall_cons_iff in HF as [-> HF].
  cbn [compute_check].
  assert (H1 : forallb (fun m => (fst (fst m) =? s) && (snd (fst m) =? e)) rest = true).
  { apply forallb_forall. intros m Hm. rewrite Forall_forall in HF. rewrite (HF m Hm). cbn. rewrite !Z.eqb_refl. reflexivity. }
  assert (H2 : forallb (fun m => opt_eqb (snd m) r) rest = true).
  { apply forallb_forall. intros m Hm. rewrite Forall_forall in HF. rewrite (HF m Hm). cbn. apply opt_eqb_refl. }
  rewrite H1, H2. reflexivity.
Qed.

Lemma pends_inv_inputs E y specs dones inps ss :
  pends_inv run E y specs dones inps ss -> Forall (fun i => cstart i = E /\ crun i = run) inps.
Proof. induction 1; constructor; auto. split; [assumption|apply (pi_run _ _ _ _ _ _ _ _ H)]. Qed.

(* ---------- one round, total ---------- *)

Lemma round_total sw pm E ss specs dones :
  slots_inv run E specs dones ss -> (pm < length ss)%nat ->
  Forall (trail_ok b) ss -> Forall (fun sp => db sp = b) specs -> NoDup (map dk specs) ->
  (exists y', stair_ok (map dR specs) max_passes (cend (sbuf (nth pm ss dummy_slot))) y') ->
  exists c ss', round_body sw pm ss = Ok (c, ss') /\ Forall (trail_ok b) ss' /\
    (cend (sbuf (nth pm ss dummy_slot)) = b ->
       call_end c = b /\
       forall j s', nth_error ss' j = Some s' -> crows (sbuf s') = [] /\ (j <> pm -> siter s' = [])).
Proof.
  intros HI Hpm HT Hdb Hnd [y' HS]. unfold round_body.
  set (tce := cend (sbuf (nth pm ss dummy_slot))) in *.
  destruct (nth_error ss pm) as [spm|] eqn:Epm; [|apply nth_error_None in Epm; lia].
  assert (Hnth : nth pm ss dummy_slot = spm) by (apply nth_error_nth; exact Epm).
  destruct (slots_inv_nth _ _ _ _ _ HI pm spm Epm) as (d & dn & Hd & _ & Hs & Hst & _).
  assert (HE : E <= tce).
  { unfold tce. rewrite Hnth. destruct (si_wf _ _ _ _ _ _ Hs) as (_ & Hse & _). lia. }
  assert (Hb : tce <= b).
  { unfold tce. rewrite Hnth. pose proof (slot_inv_end_le _ _ _ _ _ _ Hs) as Hle.
    rewrite Forall_forall in Hdb. rewrite (Hdb d (nth_error_In _ _ Hd)) in Hle. exact Hle. }
  assert (Hpmc : forall j s, nth_error ss j = Some s -> (0 + j)%nat = pm -> cend (sbuf s) = tce).
  { intros j s Hj Hij. cbn in Hij. subst j. unfold tce. rewrite Hnth. congruence. }
  destruct (gather_total E tce pm ss specs dones 0%nat HI HT Hdb HE Hb Hpmc) as (inps & ss1 & Eg & T1 & Fin).
  pose proof (gather_spec run E tce pm ss specs dones 0%nat HI HE Hpmc) as HG. rewrite Eg in HG. destruct HG as [HP _].
  rewrite Eg. cbn [res_bind fst snd].
  pose proof (pends_inv_length _ _ _ _ _ _ _ HP) as (L0 & _ & L).
  pose proof (slots_inv_length _ _ _ _ _ HI) as (L1 & _).
  assert (Hne : inps <> []) by (destruct inps; [cbn in L; lia|discriminate]).
  destruct (retrim_ok_of_stair run E max_passes tce y' inps ss1 specs dones HS HP HE Hne) as (i2 & s2 & y2 & Er & HP2 & Hends & Hit).
  rewrite Er. cbn [res_bind fst snd].
  destruct (retrim_keeps _ _ _ _ _ _ L Er) as (K1 & K2 & K3).
  pose proof (pends_inv_length _ _ _ _ _ _ _ HP2) as (M0 & _ & M).
  pose proof (pends_inv_kinds _ _ _ _ _ _ _ HP2) as Hk2.
  assert (Hkss : map skind ss = map dk specs) by (eapply slots_inv_kinds; eauto).
  assert (Hnd2 : NoDup (map skind ss)) by (rewrite Hkss; exact Hnd).
  (* the merge step looks the kinds up in the state at the beginning of the round *)
  assert (Hlen_i2 : length i2 = length ss) by lia.
  destruct (merge_all_single ss i2 Hnd2 Hlen_i2 (distinct_kinds (map skind ss) [])) as (ms & Em & Lm & Fm).
  { rewrite distinct_kinds_nodup; [auto|exact Hnd2|intros k _ []]. }
  rewrite Em. cbn [res_bind].
  assert (Hms : Forall (fun m => m = (E, y', run)) ms).
  { eapply Forall_impl; [|exact Fm]. cbn. intros m (c & Hc & ->).
    pose proof (pends_inv_inputs _ _ _ _ _ _ HP2) as HF. rewrite Forall_forall in HF. destruct (HF c Hc) as [-> ->].
    rewrite (Hends c Hc). reflexivity. }
  assert (Hmsne : ms <> []).
  { rewrite distinct_kinds_nodup in Lm; [|exact Hnd2|intros k _ []]. rewrite map_length in Lm.
    destruct ms; [cbn in Lm; lia|discriminate]. }
  rewrite (compute_check_same sw E y' run ms Hmsne Hms). cbn [res_bind fst snd].
  eexists; eexists. split; [reflexivity|]. split.
  - eapply trail_ok_transfer; [exact T1|exact K1|exact K2].
  - intros Hbe. destruct (Fin Hbe) as (F1 & F2).
    assert (Hall : all_equal (map cend inps) = true).
    { apply all_equal_complete. intros x z Hx Hz. apply in_map_iff in Hx as (ix & <- & Hix). apply in_map_iff in Hz as (iz & <- & Hiz).
      rewrite Forall_forall in F1. rewrite (F1 ix Hix), (F1 iz Hiz). reflexivity. }
    destruct (K3 Hall) as [-> ->]. cbn [call_end]. split.
    + destruct inps as [|i0 r0]; [congruence|]. rewrite <- (Hends i0 (or_introl eq_refl)).
      rewrite Forall_forall in F1. apply F1. left; reflexivity.
    + intros j s' Hj. destruct (F2 j s' Hj) as [G1 G2]. split; [exact G1|]. intros Hne'. apply G2. cbn. exact Hne'.
Qed.
End Run.
