(* overlap_indices: the index pairs are exactly the intersection of the two integer ranges. *)
From SV Require Import Model.Rows Model.Intervals Spec.IntervalDefs.

(* closed form of the intersection *)
Definition oi_closed (a1 na b1 nb : Z) : (Z * Z) * (Z * Z) :=
  let lo := Z.max a1 b1 in
  let hi := Z.min (a1 + na) (b1 + nb) in
  if hi <=? lo then ((0, 0), (0, 0)) else ((lo - a1, hi - a1), (lo - b1, hi - b1)).

Lemma overlap_indices_closed a1 na b1 nb :
  0 <= na -> 0 <= nb -> overlap_indices a1 na b1 nb = Ok (oi_closed a1 na b1 nb).
Proof.
  intros Ha Hb. unfold overlap_indices, oi_closed.
  destruct (na <? 0) eqn:E1; [lia|]. destruct (nb <? 0) eqn:E2; [lia|]. cbn [orb].
  destruct (na =? 0) eqn:E3; [destruct (Z.min (a1 + na) (b1 + nb) <=? Z.max a1 b1) eqn:E; [reflexivity|lia]|].
  destruct (nb =? 0) eqn:E4; [destruct (Z.min (a1 + na) (b1 + nb) <=? Z.max a1 b1) eqn:E; [reflexivity|lia]|].
  cbn [orb].
  destruct (a1 - b1 <=? - na) eqn:E5;
    [destruct (Z.min (a1 + na) (b1 + nb) <=? Z.max a1 b1) eqn:E; [reflexivity|lia]|].
  destruct (Z.max 0 (a1 - b1) >=? Z.min nb (a1 - b1 + na)) eqn:E6;
    destruct (Z.min (a1 + na) (b1 + nb) <=? Z.max a1 b1) eqn:E; try reflexivity; try lia.
  do 2 f_equal; f_equal; lia.
Qed.

Lemma overlap_indices_negative a1 na b1 nb :
  na < 0 \/ nb < 0 -> overlap_indices a1 na b1 nb = Err 6.
Proof.
  intros H. unfold overlap_indices.
  destruct (na <? 0) eqn:E1; [reflexivity|]. destruct (nb <? 0) eqn:E2; [reflexivity|]. lia.
Qed.

(* semantic reading: membership in both ranges *)
Definition in_range (a n x : Z) : Prop := a <= x < a + n.

Lemma overlap_indices_sem a1 na b1 nb :
  0 <= na -> 0 <= nb ->
  exists sa ea sb eb,
    overlap_indices a1 na b1 nb = Ok ((sa, ea), (sb, eb)) /\
    ea - sa = eb - sb /\ 0 <= ea - sa /\
    (forall x, in_range a1 na x /\ in_range b1 nb x <-> a1 + sa <= x < a1 + ea) /\
    (forall x, in_range a1 na x /\ in_range b1 nb x <-> b1 + sb <= x < b1 + eb) /\
    (((sa, ea), (sb, eb)) = ((0, 0), (0, 0)) <-> forall x, ~ (in_range a1 na x /\ in_range b1 nb x)).
Proof.
  intros Ha Hb. rewrite overlap_indices_closed by lia. unfold oi_closed, in_range.
  destruct (Z.min (a1 + na) (b1 + nb) <=? Z.max a1 b1) eqn:E.
  - exists 0, 0, 0, 0. repeat split; try lia.
  - exists (Z.max a1 b1 - a1), (Z.min (a1 + na) (b1 + nb) - a1),
           (Z.max a1 b1 - b1), (Z.min (a1 + na) (b1 + nb) - b1).
    repeat split; try lia.
    all: try (intros H; inversion H; lia).
    all: try (intros H; exfalso; apply (H (Z.max a1 b1)); lia).
Qed.

(* the enumerated (quadratic) spec equals the closed form *)
Lemma filter_range_members a1 na b1 nb :
  0 <= na ->
  range_members a1 na b1 nb =
  map (fun k => Z.max a1 b1 + Z.of_nat k)
      (seq 0 (Z.to_nat (Z.min (a1 + na) (b1 + nb) - Z.max a1 b1))).
Proof.
  intros Ha. unfold range_members.
  remember (Z.to_nat na) as n eqn:Hn.
  assert (Hna : na = Z.of_nat n) by lia. clear Hn. subst na. clear Ha.
  revert a1. induction n as [|n IH]; intros a1.
  - cbn [seq map filter]. replace (Z.to_nat _) with 0%nat by lia. reflexivity.
  - cbn [seq map filter]. rewrite <- seq_shift, map_map.
    rewrite (map_ext (fun x => a1 + Z.of_nat (S x)) (fun k => (a1 + 1) + Z.of_nat k)) by (intros; lia).
    specialize (IH (a1 + 1)).
    replace (a1 + Z.of_nat 0) with a1 by lia.
    destruct ((b1 <=? a1) && (a1 <? b1 + nb)) eqn:E.
    + rewrite IH.
      replace (Z.to_nat (Z.min (a1 + Z.of_nat (S n)) (b1 + nb) - Z.max a1 b1))
        with (S (Z.to_nat (Z.min (a1 + 1 + Z.of_nat n) (b1 + nb) - Z.max (a1 + 1) b1))) by lia.
      cbn [seq map]. f_equal; [lia|].
      rewrite <- seq_shift, map_map. apply map_ext. intros; lia.
    + rewrite IH.
      destruct (Z_le_dec (Z.min (a1 + Z.of_nat (S n)) (b1 + nb)) (Z.max a1 b1)) as [Hle|Hgt].
      * replace (Z.to_nat (Z.min (a1 + Z.of_nat (S n)) (b1 + nb) - Z.max a1 b1)) with 0%nat by lia.
        replace (Z.to_nat (Z.min (a1 + 1 + Z.of_nat n) (b1 + nb) - Z.max (a1 + 1) b1)) with 0%nat by lia.
        reflexivity.
      * assert (a1 < b1) by lia.
        replace (Z.max (a1 + 1) b1) with (Z.max a1 b1) by lia.
        replace (a1 + 1 + Z.of_nat n) with (a1 + Z.of_nat (S n)) by lia. reflexivity.
Qed.

Lemma last_map_seq (f : nat -> Z) n d : last (map f (seq 0 (S n))) d = f n.
Proof.
  replace (S n) with (n + 1)%nat by lia. rewrite seq_app, map_app. cbn [seq map]. apply last_last.
Qed.

Lemma last_indep (l : list Z) a b : l <> [] -> last l a = last l b.
Proof.
  induction l as [|x l IH]; intros H; [congruence|].
  destruct l as [|y l]; [reflexivity|]. cbn [last] in IH |- *. apply IH. congruence.
Qed.

Lemma last_cons_default (x : Z) r d : last r x = last (x :: r) d.
Proof.
  destruct r as [|y r]; [reflexivity|].
  change (last (x :: y :: r) d) with (last (y :: r) d). apply last_indep. congruence.
Qed.

Lemma oi_spec_closed a1 na b1 nb : 0 <= na -> oi_spec a1 na b1 nb = oi_closed a1 na b1 nb.
Proof.
  intros Ha. unfold oi_spec, oi_closed. rewrite filter_range_members by lia.
  destruct (Z.min (a1 + na) (b1 + nb) <=? Z.max a1 b1) eqn:E.
  - replace (Z.to_nat _) with 0%nat by lia. reflexivity.
  - remember (Z.to_nat (Z.min (a1 + na) (b1 + nb) - Z.max a1 b1)) as n eqn:Hn.
    destruct n as [|n]; [lia|].
    pose proof (last_map_seq (fun k => Z.max a1 b1 + Z.of_nat k) n 0) as HL.
    cbn [seq map] in HL |- *.
    rewrite (last_cons_default _ _ 0), HL.
    do 2 f_equal; f_equal; lia.
Qed.

Theorem overlap_indices_eq_spec a1 na b1 nb :
  0 <= na -> 0 <= nb -> overlap_indices a1 na b1 nb = Ok (oi_spec a1 na b1 nb).
Proof. intros Ha Hb. rewrite oi_spec_closed by lia. apply overlap_indices_closed; lia. Qed.

Example overlap_indices_ex : overlap_indices 3 4 5 6 = Ok ((2, 4), (0, 2)) /\ oi_spec 3 4 5 6 = ((2, 4), (0, 2)).
Proof. vm_compute. split; reflexivity. Qed.
