(* Non-vacuity of the C03 theorems: a concrete codec, stream and metadata satisfy every hypothesis,
   and the conclusions are observed by computation on them.  Also two observations about the code
   that the theorems' hypotheses exclude (forked savers, a zero count over a non-empty file). *)
From SV Require Import Model.Chunk Model.Rechunker Model.SaverLoader Model.C03Run Spec.SaverLoaderSpec
  Proof.SaverLoaderProof Proof.C03Rechunk.

(* the runner codec is a bijection in the sense of the Section hypothesis decode_encode *)
Lemma rcodec_ok : forall k rs, rdecode k (rencode k rs) = Some rs.
Proof. intros k rs. unfold rdecode, rencode. rewrite Z.eqb_refl. reflexivity. Qed.

Definition ex_stream : list chunk :=
  [ mkchunk 0 10 [mkrow 1 2 0 0; mkrow 3 5 1 0] 1 1 (Some 7) 1;
    mkchunk 10 10 [] 1 1 (Some 7) 1;
    mkchunk 10 5000 [mkrow 10 10 2 0] 1 1 (Some 7) 1;
    mkchunk 5000 6000 [mkrow 5500 5600 3 0; mkrow 5550 5650 4 0] 1 1 (Some 7) 1 ].

Definition ex_md0 : metadata :=
  mk_md (Some 7) (Some 1) (Some 1) (Some 1) (Some COMP_ZSTD) (Some 1) [] None None false false.

Definition ex_cfg (rechunk : bool) : save_cfg := mk_cfg rechunk true false false 30.

Example ex_stream_ok : stream_ok 7 1 ex_stream.
Proof.
  unfold stream_ok, ex_stream. split; [discriminate|]. split; [|split].
  - repeat constructor; unfold wf; cbn; repeat split; try lia; repeat constructor; cbn; lia.
  - cbn. repeat split; reflexivity.
  - repeat constructor.
Qed.

Example ex_targets : Forall (fun c => 0 < ctarget c) ex_stream.
Proof. repeat constructor. Qed.

Example ex_md0_ok : md0_ok ex_md0.
Proof. unfold md0_ok, ex_md0; cbn. repeat split; discriminate. Qed.

(* the conclusion of save_load_roundtrip observed on the example: with rechunking (target one row)
   the four chunks become two, split inside the row-free gap before t = 5500 at 5000 *)
Example ex_roundtrip_rechunk :
  let o := c03_run (ex_cfg true) ex_md0 ex_stream [] T_none false 100 in
  ro_save o = Ok tt /\
  option_map (map (fun c => (cstart c, cend c, map rid (crows c)))) (match ro_load o with Ok l => Some l | Err _ => None end)
  = Some [(0, 5000, [0; 1; 2]); (5000, 6000, [3; 4])].
Proof. vm_compute. split; reflexivity. Qed.

Example ex_roundtrip_plain :
  let o := c03_run (ex_cfg false) ex_md0 ex_stream [] T_none false 100 in
  ro_save o = Ok tt /\
  option_map (map (fun c => (cstart c, cend c, map rid (crows c)))) (match ro_load o with Ok l => Some l | Err _ => None end)
  = Some [(0, 10, [0; 1]); (10, 10, []); (10, 5000, [2]); (5000, 6000, [3; 4])] /\
  map (fun ci => (ci_i ci, ci_n ci, ci_filename ci)) (md_chunks (sv_disk (ro_saver o)))
  = [(0, 2, Some 0); (1, 0, None); (2, 1, Some 2); (3, 2, Some 3)] /\
  map fst (sv_files (ro_saver o)) = [0; 2; 3] /\
  (md_start (sv_disk (ro_saver o)), md_end (sv_disk (ro_saver o))) = (Some 0, Some 6000).
Proof. vm_compute. repeat split; reflexivity. Qed.

(* hypotheses of loader_detects_count_mismatch are satisfiable: chunk entry 0 edited to n = 3 *)
Example ex_count_mismatch :
  ro_load (c03_run (ex_cfg false) ex_md0 ex_stream [] (T_set_n 0 3) false 100) = Err E_CORRUPTED.
Proof. vm_compute. reflexivity. Qed.

(* a failed save (second chunk out of order while rechunking) records the exception and cannot be loaded *)
Example ex_failed_save :
  let bad := [ mkchunk 10 20 [mkrow 11 12 0 0] 1 1 (Some 7) 1; mkchunk 0 10 [mkrow 1 2 1 0] 1 1 (Some 7) 1 ] in
  let o := c03_run (ex_cfg true) ex_md0 bad [] T_none false 100 in
  ro_save o = Err E_CONCAT_ORDER /\ md_exception (sv_disk (ro_saver o)) = true /\ ro_load o = Err E_NOT_AVAILABLE.
Proof. vm_compute. repeat split; reflexivity. Qed.

(* OBSERVATION 1 (outside C03's quantifier: process-pool savers).  A forked saver whose chunks are
   written by child processes ends with a complete, ordered chunk list that loads, but WITHOUT the
   overall start / end fields: Saver.close looks at the parent's (empty) chunk list before
   FileSaver._close collects the per-chunk json files. *)
Example ex_forked_no_overall_range :
  let o := c03_run (mk_cfg false true false true 30) ex_md0 ex_stream [2%nat; 0%nat; 3%nat; 1%nat] T_none false 100 in
  ro_save o = Ok tt /\
  map ci_i (md_chunks (sv_disk (ro_saver o))) = [0; 1; 2; 3] /\
  (md_start (sv_disk (ro_saver o)), md_end (sv_disk (ro_saver o))) = (None, None) /\
  option_map (@length chunk) (match ro_load o with Ok l => Some l | Err _ => None end) = Some 4%nat.
Proof. vm_compute. repeat split; reflexivity. Qed.

(* OBSERVATION 2.  The row-count check cannot see a recorded count of zero: an entry edited to n = 0
   is loaded as an empty chunk although its file holds rows (the file is never opened). *)
Example ex_zero_count_not_detected :
  option_map (map (fun c => length (crows c)))
    (match ro_load (c03_run (ex_cfg false) ex_md0 ex_stream [] (T_set_n 0 0) false 100) with Ok l => Some l | Err _ => None end)
  = Some [0%nat; 0%nat; 1%nat; 2%nat].
Proof. vm_compute. reflexivity. Qed.
