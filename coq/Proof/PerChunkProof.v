(* Property C16: building a data type chunk by chunk of its dependency (Context.make with chunk_number) and
   merging the per-chunk results (Context.merge_per_chunk_storage) gives the rows of the directly made data,
   for every grouping of the dependency's chunks into consecutive jobs. *)
From SV Require Import Model.Rows Model.SplitArray Model.Chunk Model.Rechunker Model.CopyRechunk
     Proof.RowsFacts Proof.SplitArrayProof Proof.ChunkProof Proof.RechunkerProof Proof.RechunkerStrong
     Proof.CopyRechunkProof.

(* ------------------------------------------------------------------ lists *)
Lemma skipn_add {A} : forall a n (l : list A), skipn n (skipn a l) = skipn (a + n) l.
Proof.
  induction a as [|a IH]; intros n l; [reflexivity|].
  destruct l as [|x l]; [destruct n; reflexivity|]. cbn [skipn Nat.add]. apply IH.
Qed.

Lemma existsb_seq j : forall n i, existsb (Nat.eqb j) (seq i n) = ((i <=? j)%nat && (j <? i + n)%nat).
Proof.
  induction n as [|n IH]; intros i; cbn [seq existsb].
  - destruct (i <=? j)%nat eqn:E1; destruct (j <? i + 0)%nat eqn:E2; cbn; try reflexivity.
    apply Nat.leb_le in E1. apply Nat.ltb_lt in E2. lia.
  - rewrite IH.
    destruct (Nat.eqb j i) eqn:E0; destruct (S i <=? j)%nat eqn:E1; destruct (j <? S i + n)%nat eqn:E2;
      destruct (i <=? j)%nat eqn:E3; destruct (j <? i + S n)%nat eqn:E4; cbn; try reflexivity; exfalso;
      repeat match goal with
             | H : Nat.eqb _ _ = true |- _ => apply Nat.eqb_eq in H
             | H : Nat.eqb _ _ = false |- _ => apply Nat.eqb_neq in H
             | H : (_ <=? _)%nat = true |- _ => apply Nat.leb_le in H
             | H : (_ <=? _)%nat = false |- _ => apply Nat.leb_gt in H
             | H : (_ <? _)%nat = true |- _ => apply Nat.ltb_lt in H
             | H : (_ <? _)%nat = false |- _ => apply Nat.ltb_ge in H
             end; lia.
Qed.

(* the chunks a loader with chunk_number = g yields, out of the chunks of the full load *)
Fixpoint select (g : list nat) (j : nat) (ds : list chunk) : list chunk :=
  match ds with
  | [] => []
  | d :: r => if existsb (Nat.eqb j) g then d :: select g (S j) r else select g (S j) r
  end.

Lemma select_seq_ge i n : forall ds j, (i <= j)%nat -> select (seq i n) j ds = firstn (i + n - j) ds.
Proof.
  induction ds as [|d ds IH]; intros j Hj; cbn [select]; [rewrite firstn_nil; reflexivity|].
  rewrite existsb_seq. rewrite IH by lia.
  destruct (i <=? j)%nat eqn:E1; [|apply Nat.leb_gt in E1; lia].
  destruct (j <? i + n)%nat eqn:E2; cbn [andb].
  - apply Nat.ltb_lt in E2. replace (i + n - j)%nat with (S (i + n - S j)) by lia. reflexivity.
  - apply Nat.ltb_ge in E2. replace (i + n - j)%nat with 0%nat by lia.
    replace (i + n - S j)%nat with 0%nat by lia. reflexivity.
Qed.

Lemma select_seq_le i n : forall ds j, (j <= i)%nat -> select (seq i n) j ds = firstn n (skipn (i - j) ds).
Proof.
  induction ds as [|d ds IH]; intros j Hj.
  - cbn [select]. rewrite skipn_nil, firstn_nil. reflexivity.
  - destruct (Nat.eq_dec j i) as [->|Hne].
    + rewrite select_seq_ge by lia. rewrite Nat.sub_diag. replace (i + n - i)%nat with n by lia. reflexivity.
    + cbn [select]. rewrite existsb_seq.
      destruct (i <=? j)%nat eqn:E1; [apply Nat.leb_le in E1; lia|]. cbn [andb].
      rewrite IH by lia. replace (i - j)%nat with (S (i - S j)) by lia. reflexivity.
Qed.

(* consecutive per-chunk jobs: chunk numbers and the corresponding pieces of the dependency's chunk list *)
Fixpoint groups_of (a : nat) (ns : list nat) : list (list nat) :=
  match ns with [] => [] | n :: r => seq a n :: groups_of (a + n) r end.
Fixpoint split_by (ns : list nat) (ds : list chunk) : list (list chunk) :=
  match ns with [] => [] | n :: r => firstn n ds :: split_by r (skipn n ds) end.

Lemma split_by_concat : forall ns ds, list_sum ns = length ds -> concat (split_by ns ds) = ds.
Proof.
  induction ns as [|n ns IH]; intros ds H; cbn [split_by concat].
  - destruct ds; [reflexivity|discriminate].
  - change (list_sum (n :: ns)) with (n + list_sum ns)%nat in H.
    rewrite IH; [apply firstn_skipn|]. rewrite skipn_length. lia.
Qed.

Lemma split_by_nonempty : forall ns ds,
  Forall (fun n => (0 < n)%nat) ns -> list_sum ns = length ds -> Forall (fun p => p <> []) (split_by ns ds).
Proof.
  induction ns as [|n ns IH]; intros ds Hp H; cbn [split_by]; [constructor|].
  inversion Hp; subst. change (list_sum (n :: ns)) with (n + list_sum ns)%nat in H. constructor.
  - destruct n; [lia|]. destruct ds; [cbn [length] in H; lia|discriminate].
  - apply IH; [auto|]. rewrite skipn_length. lia.
Qed.

Lemma groups_select full : forall ns a,
  Forall2 (fun g part => select g 0 full = part) (groups_of a ns) (split_by ns (skipn a full)).
Proof.
  induction ns as [|n ns IH]; intros a; cbn [groups_of split_by]; constructor.
  - rewrite select_seq_le by lia. rewrite Nat.sub_0_r. reflexivity.
  - rewrite skipn_add. apply IH.
Qed.

Lemma consecutive_seq : forall n a, consecutive (seq a n) = true.
Proof.
  induction n as [|n IH]; intros a; [reflexivity|]. cbn [seq]. destruct n as [|n]; [reflexivity|].
  cbn [seq consecutive]. rewrite Nat.eqb_refl. cbn [andb]. apply (IH (S a)).
Qed.

Lemma groups_consecutive : forall ns a, Forall (fun g => consecutive g = true) (groups_of a ns).
Proof. induction ns as [|n ns IH]; intros a; cbn [groups_of]; constructor; [apply consecutive_seq|apply IH]. Qed.

Lemma concat_groups : forall ns a, concat (groups_of a ns) = seq a (list_sum ns).
Proof.
  induction ns as [|n ns IH]; intros a; cbn [groups_of concat]; [reflexivity|].
  change (list_sum (n :: ns)) with (n + list_sum ns)%nat. rewrite IH, seq_app. reflexivity.
Qed.

Lemma nodupb_seq : forall n a, nodupb (seq a n) = true.
Proof.
  induction n as [|n IH]; intros a; [reflexivity|]. cbn [seq nodupb]. rewrite existsb_seq, IH.
  destruct (S a <=? a)%nat eqn:E; [apply Nat.leb_le in E; lia|]. reflexivity.
Qed.

Lemma list_max_seq : forall n a, list_max (seq a (S n)) = (a + n)%nat.
Proof.
  unfold list_max. induction n as [|n IH]; intros a.
  - cbn. lia.
  - change (seq a (S (S n))) with (a :: seq (S a) (S n)). cbn [fold_right]. rewrite IH. lia.
Qed.

Lemma merge_tag_all ns :
  Forall (fun n => (0 < n)%nat) ns -> ns <> [] ->
  merge_tag (list_sum ns) (groups_of 0 ns) = Ok None.
Proof.
  intros Hp Hne. unfold merge_tag. rewrite concat_groups, nodupb_seq. cbn [negb].
  destruct ns as [|n ns]; [congruence|]. inversion Hp; subst.
  destruct (list_sum (n :: ns)) as [|k] eqn:E; [cbn in E; lia|].
  change (seq 0 (S k)) with (0%nat :: seq 1 k) at 1. cbv iota.
  rewrite list_max_seq.
  replace (list_min (seq 0 (S k))) with 0%nat.
  - replace (S k - 1)%nat with (0 + k)%nat by lia. rewrite !Nat.eqb_refl. reflexivity.
  - unfold list_min. cbn [seq hd fold_right]. rewrite Nat.min_0_l. reflexivity.
Qed.

(* ------------------------------------------------------------------ possibly empty contiguous streams *)
Definition pstream (dt : Z) (run : option Z) (a : Z) (cs : list chunk) (b : Z) : Prop :=
  Forall wf cs /\ Forall (fun c => 0 < ctarget c /\ cdtype c = dt /\ crun c = run) cs /\ chain a cs b.

Lemma pstream_app dt run a l1 l2 b :
  pstream dt run a (l1 ++ l2) b <-> exists m, pstream dt run a l1 m /\ pstream dt run m l2 b.
Proof.
  unfold pstream. rewrite !Forall_app, chain_app. split.
  - intros ((W1 & W2) & (M1 & M2) & m & C1 & C2). exists m. tauto.
  - intros (m & (W1 & M1 & C1) & (W2 & M2 & C2)). repeat split; auto. exists m; auto.
Qed.

Lemma vstream_pstream dt run a cs b : vstream dt run a cs b <-> cs <> [] /\ pstream dt run a cs b.
Proof. unfold vstream, pstream. tauto. Qed.

Lemma flat_map_map {A B C} (g : A -> B) (h : B -> list C) : forall l, flat_map h (map g l) = flat_map (fun x => h (g x)) l.
Proof. induction l as [|x l IH]; cbn; [reflexivity|]. rewrite IH. reflexivity. Qed.

Lemma flat_map_concat {A B} (h : A -> list B) : forall ll, flat_map h (concat ll) = flat_map (flat_map h) ll.
Proof. induction ll as [|l ll IH]; cbn; [reflexivity|]. rewrite flat_map_app, IH. reflexivity. Qed.

Section PerChunkProofs.
Context {bytes : Type} (enc : Z -> list row -> bytes) (dec : Z -> bytes -> option (list row)).
Hypothesis codec : forall k rs, dec k (enc k rs) = Some rs.

(* the plugin's computation on one dependency chunk.  Chunk-local: the result rows are sorted and stay
   inside the range of the chunk (what Plugin.chunk / Chunk.__init__ demand of a compute result) *)
Variable f : list row -> list row.
Hypothesis f_local : forall a b rows,
  sorted rows -> Forall (fun r => a <= rt r /\ rt r <= re r /\ re r <= b) rows ->
  sorted (f rows) /\ Forall (fun r => a <= rt r /\ rt r <= re r /\ re r <= b) (f rows).

Definition fchunk (md_t : stored bytes) (c : chunk) : chunk :=
  mkchunk (cstart c) (cend c) (f (crows c)) (md_dtype md_t) (md_kind md_t) (crun c) (md_target md_t).

Lemma fchunk_wf md_t c : wf c -> wf (fchunk md_t c).
Proof.
  intros (H0 & Hse & Hs & HF). destruct (f_local (cstart c) (cend c) (crows c) Hs HF) as [Fs FF].
  unfold wf, fchunk. cbn. auto.
Qed.

Lemma compute_ok md_t c : wf c -> compute_chunk f md_t c = Ok (fchunk md_t c).
Proof.
  intros Hwf. pose proof (fchunk_wf md_t c Hwf) as (H0 & Hse & Hs & HF). cbn in *.
  unfold compute_chunk, fchunk. apply mk_chunk_ok; auto.
  eapply Forall_impl; [|exact HF]. cbn. tauto.
Qed.

Lemma mapM_compute md_t : forall cs, Forall wf cs -> mapM (compute_chunk f md_t) cs = Ok (map (fchunk md_t) cs).
Proof.
  induction cs as [|c cs IH]; intros H; [reflexivity|]. inversion H; subst.
  cbn [mapM map]. rewrite compute_ok by auto. cbn [res_bind]. rewrite IH by auto. reflexivity.
Qed.

Lemma pstream_fchunk md_t dt run a cs b :
  0 < md_target md_t -> pstream dt run a cs b -> pstream (md_dtype md_t) run a (map (fchunk md_t) cs) b.
Proof.
  intros Ht (W & M & C). split; [|split].
  - apply Forall_map. eapply Forall_impl; [|exact W]. intros c. apply fchunk_wf.
  - apply Forall_map. eapply Forall_impl; [|exact M]. cbn. intros c (_ & _ & ?). auto.
  - apply chain_map_same; [intros; cbn; auto|exact C].
Qed.

(* one job (or the ordinary make, sel = None) on the chunks `part` its loader yields *)
Lemma make_from_ok dep sel md_t rs part dt run a b :
  match sel with Some g => consecutive g = true | None => True end ->
  load dec dep sel None None = Ok part -> part <> [] -> pstream dt run a part b -> 0 < md_target md_t ->
  exists job js, make_from enc dec f dep sel md_t rs = Ok job /\ meta_consistent dec job /\
    load dec job None None None = Ok js /\ js <> [] /\ pstream (md_dtype md_t) run a js b /\
    flat_map crows js = flat_map (fun c => f (crows c)) part /\
    md_target job = md_target md_t /\ md_comp job = md_comp md_t /\ md_start job = a /\ md_end job = b.
Proof.
  intros Hcons HL Hne P Ht. unfold make_from.
  replace (match sel with Some g => consecutive g | None => true end) with true by (destruct sel; auto).
  cbn [negb]. rewrite HL. cbn [res_bind]. destruct part as [|p0 prest] eqn:Epart; [congruence|]. rewrite <- Epart in *.
  destruct P as (W & M & C). rewrite mapM_compute by exact W. cbn [res_bind].
  assert (V : vstream (md_dtype md_t) run a (map (fchunk md_t) part) b).
  { apply vstream_pstream. split; [rewrite Epart; discriminate|]. apply (pstream_fchunk md_t dt run); [exact Ht|]. split; auto. }
  destruct (save_chunks_ok _ _ _ _ _ rs V) as (outs & E & One & OW & OR & OC & OM & _ & _).
  unfold save_stream. rewrite E. cbn [res_bind].
  destruct (closed_consistent enc dec codec md_t outs a b OW One OC) as (MC & SA & SB & L).
  eexists. exists (map (relabel md_t None) outs). split; [reflexivity|]. split; [exact MC|]. split; [exact L|].
  split; [destruct outs; [congruence|discriminate]|]. split; [|split; [|split; [|split; [|split]]]]; auto.
  - split; [apply Forall_wf_map_same; [apply relabel_same|exact OW]|]. split.
    + apply Forall_map. eapply Forall_impl; [|exact OM]. cbn. intros c [_ ?]. auto.
    + apply chain_map_same; [intros; cbn; auto|exact OC].
  - rewrite flat_map_rows_map_same by reflexivity. rewrite OR. rewrite flat_map_map. reflexivity.
Qed.

Definition job_ok (md_t : stored bytes) (job : stored bytes) (js : list chunk) : Prop :=
  meta_consistent dec job /\ load dec job None None None = Ok js /\ md_target job = md_target md_t.

Lemma jobs_ok dep md_t rs dt run : 0 < md_target md_t -> forall gs parts,
  Forall2 (fun g part => consecutive g = true /\ load dec dep (Some g) None None = Ok part /\ part <> []) gs parts ->
  forall a b, pstream dt run a (concat parts) b ->
  exists jobs jss,
    Forall2 (fun g job => make_from enc dec f dep (Some g) md_t rs = Ok job) gs jobs /\
    Forall2 (job_ok md_t) jobs jss /\
    pstream (md_dtype md_t) run a (concat jss) b /\
    flat_map crows (concat jss) = flat_map (fun c => f (crows c)) (concat parts) /\
    (parts <> [] -> concat jss <> []).
Proof.
  intros Ht gs parts H. induction H as [|g part gs parts (Hc & HL & Hne) _ IH]; intros a b P.
  - exists [], []. cbn in *. repeat split; auto; try constructor; try congruence.
    destruct P as (_ & _ & C). exact C.
  - cbn [concat] in P. apply pstream_app in P as (m & P1 & P2).
    destruct (make_from_ok dep (Some g) md_t rs part dt run a m Hc HL Hne P1 Ht)
      as (job & js & E & MC & L & Jne & PJ & RJ & TJ & _).
    destruct (IH m b P2) as (jobs & jss & EJ & OK & PS & RS & _).
    exists (job :: jobs), (js :: jss). split; [constructor; auto|]. split; [constructor; [split; auto|auto]|].
    cbn [concat]. split; [apply pstream_app; exists m; auto|]. split.
    + rewrite !flat_map_app, RJ, RS. reflexivity.
    + intros _. destruct js; [congruence|discriminate].
Qed.

Lemma mapM_merge md_t rechunk rechunk_to : forall jobs jss,
  Forall2 (job_ok md_t) jobs jss ->
  let t := if rechunk && negb (md_target md_t =? rechunk_to) then rechunk_to else md_target md_t in
  mapM (merge_source dec rechunk rechunk_to) (map Some jobs) = Ok (map (map (retarget t)) jss).
Proof.
  intros jobs jss H t. induction H as [|job js jobs jss ((V & _) & L & T) _ IH]; [reflexivity|].
  cbn [map mapM]. unfold merge_source at 1. rewrite V. cbn [negb]. rewrite L. cbn [res_bind]. rewrite T.
  fold t. rewrite IH. reflexivity.
Qed.

Lemma concat_map_map {A B} (g : A -> B) : forall ll, concat (map (map g) ll) = map g (concat ll).
Proof. induction ll as [|l ll IH]; cbn; [reflexivity|]. rewrite IH, map_app. reflexivity. Qed.

(* the dependency's chunks one by one, as the full loader yields them *)
Lemma load_from_sel (s : stored bytes) g : forall cis j ds,
  load_from dec s None None None j cis = Ok ds ->
  load_from dec s (Some g) None None j cis = Ok (select g j ds).
Proof.
  induction cis as [|ci cis IH]; intros j ds H; cbn [load_from selected] in *.
  - inversion H; subst. reflexivity.
  - destruct (read_chunk dec s None ci) as [c|e] eqn:Ec; cbn [res_bind] in H; [|discriminate].
    destruct (load_from dec s None None None (S j) cis) as [more|e] eqn:E; cbn [res_bind] in H; [|discriminate].
    inversion H; subst ds. clear H. cbn [app select].
    destruct (existsb (Nat.eqb j) g).
    + cbn [res_bind]. rewrite (IH _ _ E). reflexivity.
    + apply IH. exact E.
Qed.

Lemma load_from_length (s : stored bytes) : forall cis j ds,
  load_from dec s None None None j cis = Ok ds -> length ds = length cis.
Proof.
  induction cis as [|ci cis IH]; intros j ds H; cbn [load_from selected] in *.
  - inversion H; subst. reflexivity.
  - destruct (read_chunk dec s None ci) as [c|e]; cbn [res_bind] in H; [|discriminate].
    destruct (load_from dec s None None None (S j) cis) as [more|e] eqn:E; cbn [res_bind] in H; [|discriminate].
    inversion H; subst ds. cbn. rewrite (IH _ _ E). reflexivity.
Qed.

(* ------------------------------------------------------------------ the theorem *)
Theorem per_chunk_merge_equals_direct dep ds ns md_t rechunk_save merge_rechunk rechunk_to :
  good dec dep ds -> 0 < md_target md_t -> (merge_rechunk = true -> 0 < rechunk_to) ->
  Forall (fun n => (0 < n)%nat) ns -> list_sum ns = length ds ->
  exists jobs merged direct ms dd,
    (* every per-chunk job succeeds ... *)
    Forall2 (fun g job => make_from enc dec f dep (Some g) md_t rechunk_save = Ok job) (groups_of 0 ns) jobs /\
    Forall (fun job => meta_consistent dec job) jobs /\
    (* ... the merge takes all of them, stores under the ordinary (untagged) key ... *)
    merge_tag (length (md_chunks dep)) (groups_of 0 ns) = Ok None /\
    merge_run enc dec (map Some jobs) md_t merge_rechunk rechunk_to = Ok merged /\
    (* ... and what it stores loads to the rows of the directly made data, over the same range *)
    make_from enc dec f dep None md_t rechunk_save = Ok direct /\
    meta_consistent dec merged /\ meta_consistent dec direct /\
    load dec merged None None None = Ok ms /\ load dec direct None None None = Ok dd /\
    flat_map crows ms = flat_map crows dd /\
    flat_map crows dd = flat_map (fun c => f (crows c)) ds /\
    md_start merged = md_start direct /\ md_end merged = md_end direct /\
    md_start merged = stream_start ds /\ md_end merged = stream_end ds.
Proof.
  intros (GV & GL & GVS) Ht Hrt Hp Hsum.
  destruct (valid_vstream ds GVS) as (dt & run & V). apply vstream_pstream in V as (Dne & P).
  set (a := stream_start ds) in *. set (b := stream_end ds) in *.
  assert (Hlen : length ds = length (md_chunks dep)).
  { unfold load in GL. destruct (md_chunks dep) as [|ci cis] eqn:E; [discriminate|].
    apply load_from_length in GL. exact GL. }
  assert (Hnsne : ns <> []). { intros ->. cbn in Hsum. destruct ds; [congruence|discriminate]. }
  (* what each group's loader yields *)
  assert (Hparts : Forall2 (fun g part => consecutive g = true /\ load dec dep (Some g) None None = Ok part /\ part <> [])
                           (groups_of 0 ns) (split_by ns ds)).
  { pose proof (groups_select ds ns 0) as HS. cbn [skipn] in HS.
    pose proof (groups_consecutive ns 0) as HC. pose proof (split_by_nonempty ns ds Hp Hsum) as HN.
    revert HC HN. induction HS as [|g part gs parts Hsel _ IH]; intros HC HN; constructor.
    - inversion HC; subst. inversion HN; subst. split; [auto|]. split; [|auto].
      unfold load in *. destruct (md_chunks dep) as [|ci cis]; [discriminate|].
      apply load_from_sel. exact GL.
    - inversion HC; subst. inversion HN; subst. apply IH; auto. }
  assert (Pc : pstream dt run a (concat (split_by ns ds)) b) by (rewrite split_by_concat by exact Hsum; exact P).
  destruct (jobs_ok dep md_t rechunk_save dt run Ht _ _ Hparts a b Pc) as (jobs & jss & EJ & OK & PS & RS & NE).
  rewrite split_by_concat in RS by exact Hsum.
  (* merge *)
  set (t := if merge_rechunk && negb (md_target md_t =? rechunk_to) then rechunk_to else md_target md_t).
  assert (Htpos : 0 < t).
  { subst t. destruct (merge_rechunk && negb (md_target md_t =? rechunk_to)) eqn:E; [|exact Ht].
    apply Hrt. destruct merge_rechunk; [reflexivity|discriminate]. }
  assert (Vm : vstream (md_dtype md_t) run a (map (retarget t) (concat jss)) b).
  { apply vstream_retarget; [exact Htpos|]. apply vstream_pstream. split; [|exact PS].
    apply NE. destruct ns as [|n ns']; [congruence|]. discriminate. }
  destruct (save_chunks_ok _ _ _ _ _ merge_rechunk Vm) as (outs & E & One & OW & OR & OC & _).
  destruct (closed_consistent enc dec codec md_t outs a b OW One OC) as (MC & SA & SB & L).
  (* direct *)
  destruct (make_from_ok dep None md_t rechunk_save ds dt run a b I GL Dne P Ht)
    as (direct & dd & ED & MD & LD & _ & _ & RD & _ & _ & DA & DB).
  exists jobs, (close_md md_t (map (info_of enc (md_comp md_t)) outs) false), direct,
         (map (relabel md_t None) outs), dd.
  split; [exact EJ|]. split.
  { clear - OK. induction OK as [|? ? ? ? (M & _) _ IH]; constructor; auto. }
  split; [rewrite <- Hlen, <- Hsum; apply merge_tag_all; auto|]. split.
  { unfold merge_run. rewrite (mapM_merge md_t merge_rechunk rechunk_to jobs jss OK). cbn [res_bind].
    fold t. rewrite concat_map_map. unfold save_stream. rewrite E. reflexivity. }
  split; [exact ED|]. split; [exact MC|]. split; [exact MD|]. split; [exact L|]. split; [exact LD|].
  split.
  { rewrite flat_map_rows_map_same by reflexivity. rewrite OR.
    rewrite flat_map_rows_map_same by reflexivity. rewrite RS, RD. reflexivity. }
  split; [exact RD|]. rewrite SA, SB, DA, DB. auto.
Qed.

End PerChunkProofs.

(* if the computation commutes with concatenation (row-wise map / filter ...), the rows are f of all the
   dependency's rows: the same as for any other chunking of the dependency *)
Corollary per_chunk_rows_chunking_independent (f : list row -> list row) ds :
  (forall x y, f (x ++ y) = f x ++ f y) ->
  flat_map (fun c => f (crows c)) ds = f (flat_map crows ds).
Proof.
  intros Happ. assert (Hnil : f [] = []).
  { pose proof (Happ [] []) as H. cbn in H. apply (f_equal (@length row)) in H. rewrite app_length in H.
    destruct (f []); [reflexivity|cbn in H; lia]. }
  induction ds as [|c ds IH]; cbn [flat_map]; [auto|]. rewrite IH, Happ. reflexivity.
Qed.

