(* C01 on top of C05: stage determinism at the level of one channel.
   A producer sends the chunks of a stream cs through a strax Mailbox (transition system Model/Mailbox.v).  The
   message that carries chunk number i is identified by i (`encode`), what a subscriber received is read back
   with `decode`.  For EVERY schedule, any number of subscribers, any capacity, lazy or eager, any driver mask:
   at every moment every subscriber has received a prefix of cs, in order, and when all threads have finished
   every subscriber has received exactly cs.  With Fut messages (max_workers > 1: results computed by a pool and
   awaited by the readers) the same holds (`encode_fut`). *)
From SV Require Import Base.Prelude Model.Mailbox Proof.MailboxFacts Proof.MailboxProof Proof.MailboxInOrder
     Proof.MailboxTermination Props.C05.
From SV Require Import Model.Chunk Model.Network.
Local Open Scope nat_scope.

Definition chunk0 : chunk := mkchunk 0 0 [] 0 0 None 0.

Definition encode (cs : stream) : list msg := map (fun i => Plain (Z.of_nat i)) (seq 0 (length cs)).
(* the same stream computed by a worker pool: message i is future number i *)
Definition encode_fut (cs : stream) : list msg := map (fun i => Fut i (Z.of_nat i)) (seq 0 (length cs)).
Definition decode (cs : stream) (log : list Z) : list chunk := map (fun z => nth (Z.to_nat z) cs chunk0) log.

Lemma vals_encode cs : vals (encode cs) = map Z.of_nat (seq 0 (length cs)).
Proof.
  unfold encode, vals. generalize (seq 0 (length cs)). induction l as [|i l IH]; cbn; [reflexivity|]. rewrite IH. reflexivity.
Qed.

Lemma vals_encode_fut cs : vals (encode_fut cs) = map Z.of_nat (seq 0 (length cs)).
Proof.
  unfold encode_fut, vals. generalize (seq 0 (length cs)). induction l as [|i l IH]; cbn; [reflexivity|]. rewrite IH. reflexivity.
Qed.

Lemma decode_seq : forall cs pre,
  map (fun z => nth (Z.to_nat z) (pre ++ cs) chunk0) (map Z.of_nat (seq (length pre) (length cs))) = cs.
Proof.
  induction cs as [|c cs IH]; intros pre; cbn [length seq map]; [reflexivity|].
  rewrite Nat2Z.id, app_nth2, Nat.sub_diag by lia. cbn [nth]. f_equal.
  specialize (IH (pre ++ [c])). rewrite app_length, <- app_assoc in IH. cbn in IH.
  replace (length pre + 1) with (S (length pre)) in IH by lia. exact IH.
Qed.

Lemma decode_all cs : decode cs (map Z.of_nat (seq 0 (length cs))) = cs.
Proof. exact (decode_seq cs []). Qed.

Lemma decode_app cs a b : decode cs (a ++ b) = decode cs a ++ decode cs b.
Proof. apply map_app. Qed.

Lemma no_stop_encode cs : forall m, In m (encode cs) -> is_stop m = false.
Proof. intros m H. apply in_map_iff in H as (i & <- & _). reflexivity. Qed.
Lemma no_stop_encode_fut cs : forall m, In m (encode_fut cs) -> is_stop m = false.
Proof. intros m H. apply in_map_iff in H as (i & <- & _). reflexivity. Qed.

Section Channel.
  Variable msgs_of : stream -> list msg.
  Hypothesis msgs_vals : forall cs, vals (msgs_of cs) = map Z.of_nat (seq 0 (length cs)).
  Hypothesis msgs_no_stop : forall cs m, In m (msgs_of cs) -> is_stop m = false.

  Theorem channel_delivery_gen (cfg : config) (cs : stream) (nfut : nat) (drives : list bool) (killer : option bool)
          (sched : list tid) (st : state) :
    run cfg (init cfg drives (source_of (msgs_of cs)) killer nfut) sched = Some st ->
    forall i r, nth_error (rds st) i = Some r ->
      (exists rest, decode cs (r_log r) ++ rest = cs) /\ (r_pc r = RDone -> decode cs (r_log r) = cs).
  Proof.
    intros Hrun i r Hr.
    destruct (C05_mailbox_delivery_safe cfg (msgs_of cs) nfut (msgs_no_stop cs) drives killer sched st Hrun i r Hr)
      as [[rest Hp] Hd].
    rewrite msgs_vals in Hp, Hd. split.
    - exists (decode cs rest). rewrite <- decode_app, <- Hp. apply decode_all.
    - intros H. rewrite (Hd H). apply decode_all.
  Qed.

  Theorem channel_complete_gen (cfg : config) (cs : stream) (nfut : nat) (drives : list bool)
          (sched : list tid) (st : state) :
    drives <> [] ->
    run cfg (init cfg drives (source_of (msgs_of cs)) None nfut) sched = Some st ->
    all_terminal st = true ->
    forall i r, nth_error (rds st) i = Some r -> decode cs (r_log r) = cs.
  Proof.
    intros Hd Hrun Ht i r Hr.
    destruct (C05_mailbox_complete cfg (msgs_of cs) nfut (msgs_no_stop cs) drives sched st Hd Hrun Ht) as (_ & _ & H).
    destruct (H i r Hr) as [_ Hl]. rewrite Hl, msgs_vals. apply decode_all.
  Qed.
End Channel.

(* every subscriber reads exactly the sequence its producer sent: plain chunks ... *)
Theorem channel_delivery cfg cs nfut drives killer sched st :
  run cfg (init cfg drives (source_of (encode cs)) killer nfut) sched = Some st ->
  forall i r, nth_error (rds st) i = Some r ->
    (exists rest, decode cs (r_log r) ++ rest = cs) /\ (r_pc r = RDone -> decode cs (r_log r) = cs).
Proof. exact (channel_delivery_gen encode vals_encode no_stop_encode cfg cs nfut drives killer sched st). Qed.

Theorem channel_complete cfg cs nfut drives sched st :
  drives <> [] -> run cfg (init cfg drives (source_of (encode cs)) None nfut) sched = Some st ->
  all_terminal st = true -> forall i r, nth_error (rds st) i = Some r -> decode cs (r_log r) = cs.
Proof. exact (channel_complete_gen encode vals_encode no_stop_encode cfg cs nfut drives sched st). Qed.

(* ... and chunks computed by a worker pool (futures awaited by the readers, completing in any order) *)
Theorem channel_complete_futures cfg cs nfut drives sched st :
  drives <> [] -> run cfg (init cfg drives (source_of (encode_fut cs)) None nfut) sched = Some st ->
  all_terminal st = true -> forall i r, nth_error (rds st) i = Some r -> decode cs (r_log r) = cs.
Proof. exact (channel_complete_gen encode_fut vals_encode_fut no_stop_encode_fut cfg cs nfut drives sched st). Qed.
