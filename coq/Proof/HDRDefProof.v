(* highest_density_region equals its definition.
   only_upper_part: the reported amplitude h is the height above which the distribution holds
   exactly the desired fraction of the total, and the intervals are the maximal runs of the samples
   above h.
   Without only_upper_part: the intervals are the maximal runs of the smallest upper level set
   {i : data[i] >= L} whose samples hold the fraction, and amplitude x (number of samples) is the
   surplus area - provided the largest sample is not tied (or alone does not hold the fraction):
   the tie test `lowest_sample_seen == data[max_to_min[j]]` does not protect j = 1. *)
From Coq Require Import Sorting.Permutation Sorting.Sorted Qfield Lqa.
From SV Require Import Model.HDR Spec.HDRSpec Spec.PeakPropsSpec Proof.HDRSortProof Proof.HDRLoopProof Proof.PeakHelpersProof.

(* ------------------------------------------------------------------------------------------ *)
(* generic *)
Lemma zsum_perm l l' : Permutation l l' -> zsum l = zsum l'.
Proof. induction 1; cbn [zsum]; lia. Qed.

Lemma perm_filter {X} (p : X -> bool) l l' : Permutation l l' -> Permutation (filter p l) (filter p l').
Proof.
  induction 1 as [|x l l' _ IH|x y l|l l' l'' _ IH1 _ IH2]; cbn [filter].
  - constructor.
  - destruct (p x); [constructor|]; exact IH.
  - destruct (p x), (p y); (apply perm_swap || reflexivity).
  - eapply perm_trans; eassumption.
Qed.

Lemma map_zget_zseqn data : forall pre, map (zget (pre ++ data)) (zseqn (zlen pre) (length data)) = data.
Proof.
  induction data as [|x r IH]; intros pre; cbn [zseqn length map]; [reflexivity|]. f_equal.
  - unfold zget, zlen. rewrite Nat2Z.id. apply nth_middle.
  - specialize (IH (pre ++ [x])). rewrite <- app_assoc in IH. cbn [app] in IH.
    replace (zlen (pre ++ [x])) with (zlen pre + 1) in IH; [exact IH|].
    unfold zlen. rewrite app_length. cbn [length]. lia.
Qed.

Lemma filter_prefix (p : Z -> bool) : forall l (j : nat), (j <= length l)%nat ->
  (forall k, (k < j)%nat -> p (nth k l 0) = true) ->
  (forall k, (j <= k < length l)%nat -> p (nth k l 0) = false) ->
  filter p l = firstn j l.
Proof.
  induction l as [|x r IH]; intros j Hj Ht Hf.
  - destruct j; reflexivity.
  - cbn [filter]. cbn [length] in *. destruct j as [|j].
    + assert (Hx : p x = false) by (apply (Hf 0%nat); lia). rewrite Hx. cbn [firstn].
      apply (IH 0%nat); [lia|intros; lia|]. intros k Hk. apply (Hf (S k)). lia.
    + assert (Hx : p x = true) by (apply (Ht 0%nat); lia). rewrite Hx. cbn [firstn]. f_equal.
      apply IH; [lia| |]; intros k Hk; [apply (Ht (S k))|apply (Hf (S k))]; lia.
Qed.

Lemma nth_firstn_lt {X} (l : list X) (j k : nat) d : (k < j)%nat -> nth k (firstn j l) d = nth k l d.
Proof.
  revert j k; induction l as [|x l IH]; intros j k H.
  - rewrite firstn_nil. reflexivity.
  - destruct j; [lia|]. destruct k; cbn [firstn nth]; [reflexivity|]. apply IH. lia.
Qed.

Lemma qpos_inj (a : Z) : 0 < a -> (0 < inject_Z a)%Q.
Proof. intros H. change 0%Q with (inject_Z 0). now rewrite <- Zlt_Qlt. Qed.

Lemma qnz (a : Z) : 0 < a -> ~ (inject_Z a == 0)%Q.
Proof. intros H E. apply qpos_inj in H. rewrite E in H. now apply Qlt_irrefl in H. Qed.

Lemma qle_div f (G A : Z) : 0 < A ->
  (Qle_bool f (inject_Z G / inject_Z A) = true <-> (f * inject_Z A <= inject_Z G)%Q).
Proof.
  intros HA. pose proof (qpos_inj A HA) as Hq. rewrite Qle_bool_iff. split; intros H.
  - apply (Qmult_le_compat_r _ _ (inject_Z A)) in H; [|apply Qlt_le_weak, Hq].
    assert (E : (inject_Z G / inject_Z A * inject_Z A == inject_Z G)%Q) by (field; apply qnz, HA).
    rewrite E in H. exact H.
  - apply Qle_shift_div_l; assumption.
Qed.

Lemma inj_sub_mul (S j l : Z) : (inject_Z (S - j * l) == inject_Z S - inject_Z j * inject_Z l)%Q.
Proof. unfold Z.sub. rewrite inject_Z_plus, inject_Z_opp, inject_Z_mult. ring. Qed.

(* the amplitude formula of the code is (S - f*A)/j *)
Lemma amp_algebra (f a s jq lo : Q) : ~ (a == 0)%Q -> ~ (jq == 0)%Q -> ~ (s - jq * lo == 0)%Q ->
  (((1 - f / ((s - jq * lo) / a)) * s / jq + f / ((s - jq * lo) / a) * lo) * jq == s - f * a)%Q.
Proof. intros Ha Hj Hd. field. repeat split; assumption. Qed.

Lemma amp_rest (f a nq : Q) : ~ (nq == 0)%Q -> ((1 - f) * a / nq * nq == a - f * a)%Q.
Proof. intros Hn. field. exact Hn. Qed.

(* ------------------------------------------------------------------------------------------ *)
Section Sorted.
Variables (data m2m : list Z).
Let n := zlen data.
Let v (k : Z) := zget data (zget m2m k).
Hypothesis Hperm : Permutation m2m (zseqn 0 (length data)).
Hypothesis Hdesc : forall a b, 0 <= a -> a <= b -> b < n -> v b <= v a.
Hypothesis Hnn : Forall (fun d => 0 <= d) data.

Local Notation S := (hdr_S data m2m).
Local Notation top := (hdr_top m2m).

Lemma len_m2m : length m2m = length data.
Proof. rewrite (Permutation_length Hperm). apply zseqn_length. Qed.

Lemma zget_nn k : 0 <= zget data k.
Proof.
  unfold zget. destruct (Nat.lt_ge_cases (Z.to_nat k) (length data)) as [H|H].
  - rewrite Forall_forall in Hnn. apply Hnn, nth_In, H.
  - rewrite nth_overflow by exact H. lia.
Qed.

Lemma S_psum j : S j = psum (map (zget data) m2m) j.
Proof. unfold hdr_S, hdr_top, psum. now rewrite firstn_map. Qed.

Lemma vs_get k : 0 <= k < n -> zget (map (zget data) m2m) k = v k.
Proof.
  intros H. unfold zget at 1. rewrite (nth_indep _ 0 (zget data 0)).
  - rewrite map_nth. reflexivity.
  - rewrite map_length, len_m2m. unfold n, zlen in H. lia.
Qed.

Lemma S_succ j : 0 <= j < n -> S (j + 1) = S j + v j.
Proof. intros H. rewrite !S_psum, psum_succ by lia. now rewrite vs_get. Qed.

Lemma S_0 : S 0 = 0.
Proof. reflexivity. Qed.

Lemma S_1 : 0 < n -> S 1 = v 0.
Proof. intros H. change 1 with (0 + 1). rewrite S_succ by lia. now rewrite S_0. Qed.

Lemma perm_vs : Permutation (map (zget data) m2m) data.
Proof.
  eapply perm_trans; [apply Permutation_map, Hperm|].
  pose proof (map_zget_zseqn data []) as E. cbn [app] in E. change (zlen (@nil Z)) with 0 in E.
  rewrite E. reflexivity.
Qed.

Lemma S_n : S n = zsum data.
Proof.
  unfold hdr_S, hdr_top, n, zlen. rewrite Nat2Z.id, <- len_m2m, firstn_all. apply zsum_perm, perm_vs.
Qed.

Lemma m2m_In i : In i m2m <-> 0 <= i < n.
Proof.
  unfold n, zlen. split; intros H.
  - apply (Permutation_in _ Hperm) in H. rewrite zseqn_In in H. lia.
  - apply (Permutation_in _ (Permutation_sym Hperm)). rewrite zseqn_In. lia.
Qed.

Lemma m2m_NoDup : NoDup m2m.
Proof. eapply Permutation_NoDup; [apply Permutation_sym, Hperm|apply zseqn_NoDup]. Qed.

Lemma idx_of i : 0 <= i < n -> exists k, 0 <= k < n /\ zget m2m k = i.
Proof.
  intros H. apply m2m_In in H. destruct (In_nth _ _ 0 H) as (k & Hk & E).
  exists (Z.of_nat k). unfold zget. rewrite Nat2Z.id. split; [|exact E].
  rewrite len_m2m in Hk. unfold n, zlen. lia.
Qed.

Lemma top_In j i : 0 <= j <= n -> (In i (top j) <-> exists k, 0 <= k < j /\ zget m2m k = i).
Proof.
  intros Hj. unfold hdr_top. assert (Hl : length (firstn (Z.to_nat j) m2m) = Z.to_nat j).
  { rewrite firstn_length, len_m2m. unfold n, zlen in Hj. lia. }
  split.
  - intros H. destruct (In_nth _ _ 0 H) as (k & Hk & E). rewrite Hl in Hk.
    rewrite nth_firstn_lt in E by exact Hk. exists (Z.of_nat k). unfold zget. rewrite Nat2Z.id.
    split; [lia|exact E].
  - intros (k & Hk & E). subst i. unfold zget. rewrite <- (nth_firstn_lt m2m (Z.to_nat j)) by lia.
    apply nth_In. rewrite Hl. lia.
Qed.

Lemma nodup_app_l {X} (l1 l2 : list X) : NoDup (l1 ++ l2) -> NoDup l1.
Proof.
  induction l1 as [|x l1 IH]; intros H; [constructor|]. cbn [app] in H. inversion H as [|? ? Hx Hr]; subst.
  constructor; [|apply IH, Hr]. intros Hi. apply Hx, in_or_app. now left.
Qed.

Lemma top_NoDup j : NoDup (top j).
Proof.
  unfold hdr_top. pose proof m2m_NoDup as H. rewrite <- (firstn_skipn (Z.to_nat j) m2m) in H.
  now apply nodup_app_l in H.
Qed.

Lemma top_range j i : In i (top j) -> 0 <= i < n.
Proof.
  intros H. apply m2m_In. unfold hdr_top in H. rewrite <- (firstn_skipn (Z.to_nat j) m2m).
  apply in_or_app. left; exact H.
Qed.

Lemma top_n i : In i (top n) <-> 0 <= i < n.
Proof.
  unfold hdr_top. replace (Z.to_nat n) with (length m2m) by (rewrite len_m2m; unfold n, zlen; lia).
  rewrite firstn_all. apply m2m_In.
Qed.

Lemma top_ivs j : runs_ok (-1) (runs (sort_z (top j))) /\
                  forall i, covered (runs (sort_z (top j))) i <-> In i (top j).
Proof.
  apply runs_sort_spec; [apply top_NoDup|]. rewrite Forall_forall. intros i Hi.
  apply top_range in Hi. lia.
Qed.

(* a threshold predicate that holds exactly on the first j sorted samples selects the cut j *)
Lemma split_at (p : Z -> bool) j : 0 <= j <= n ->
  (forall k, 0 <= k < j -> p (v k) = true) -> (forall k, j <= k < n -> p (v k) = false) ->
  zsum (filter p data) = S j /\ zlen (filter p data) = j /\
  forall i, 0 <= i < n -> (In i (top j) <-> p (zget data i) = true).
Proof.
  intros Hj Ht Hf.
  assert (Hfp : filter p (map (zget data) m2m) = firstn (Z.to_nat j) (map (zget data) m2m)).
  { apply filter_prefix.
    - rewrite map_length, len_m2m. unfold n, zlen in Hj. lia.
    - intros k Hk. specialize (Ht (Z.of_nat k)). rewrite <- vs_get in Ht by lia.
      unfold zget in Ht at 1. rewrite Nat2Z.id in Ht. apply Ht. lia.
    - intros k Hk. rewrite map_length, len_m2m in Hk. specialize (Hf (Z.of_nat k)).
      rewrite <- vs_get in Hf by (unfold n, zlen; lia).
      unfold zget in Hf at 1. rewrite Nat2Z.id in Hf. apply Hf. unfold n, zlen. lia. }
  pose proof (perm_filter p _ _ perm_vs) as Hp. rewrite Hfp in Hp. split; [|split].
  - rewrite <- (zsum_perm _ _ Hp). unfold hdr_S, hdr_top. now rewrite firstn_map.
  - unfold zlen. rewrite <- (Permutation_length Hp), firstn_length, map_length, len_m2m.
    unfold n, zlen in Hj. lia.
  - intros i Hi. rewrite top_In by exact Hj. split.
    + intros (k & Hk & <-). apply Ht, Hk.
    + intros Hpi. destruct (idx_of i Hi) as (k & Hk & E). exists k. split; [|exact E].
      destruct (Z_lt_ge_dec k j) as [Hlt|Hge]; [lia|]. exfalso.
      specialize (Hf k ltac:(lia)). unfold v in Hf. rewrite E in Hf. congruence.
Qed.

(* ------------------------------------------------------------------------------------------ *)
(* the loop, for one fraction *)
Variables (A : Z) (f : Q).
Hypothesis HA : 0 < A.
Hypothesis HAn : A = zsum data.
Hypothesis Hf0 : (0 < f)%Q.
Hypothesis Hf1 : (f <= 1)%Q.
Let F : Q := (f * inject_Z A)%Q.

Lemma F_pos : (0 < F)%Q.
Proof. unfold F. apply Qmult_lt_0_compat; [exact Hf0|apply qpos_inj, HA]. Qed.

Lemma F_le_A : (F <= inject_Z A)%Q.
Proof.
  unfold F. rewrite <- (Qmult_1_l (inject_Z A)) at 2.
  apply Qmult_le_compat_r; [exact Hf1|apply Qlt_le_weak, qpos_inj, HA].
Qed.

Lemma n_pos : 0 < n.
Proof.
  unfold n, zlen. destruct data as [|x r]; [|cbn [length]; lia]. cbn in HAn. lia.
Qed.

(* area above the level of sample j-1 / of sample j, within the first j sorted samples *)
Definition Bq (j : Z) : Z := S j - j * v (j - 1).
Definition Gq (j : Z) : Z := S j - j * v j.

Lemma B_succ j : 1 <= j < n -> Bq (j + 1) = Gq j.
Proof. intros H. unfold Bq, Gq. rewrite S_succ by lia. replace (j + 1 - 1) with j by lia. ring. Qed.

Lemma B_1 : Bq 1 = 0.
Proof.
  unfold Bq. change 1 with (0 + 1) at 1. pose proof n_pos. rewrite S_succ by lia. rewrite S_0.
  replace (1 - 1) with 0 by lia. ring.
Qed.

Lemma first_upper : forall k j lowest, 1 <= j -> j + Z.of_nat k = n ->
  match lowest with None => True | Some l => l = v (j - 1) end ->
  (inject_Z (Bq j) < F)%Q ->
  match hdr_first data m2m A true (zseqn j k) lowest f with
  | Some j' => j <= j' < n /\ (inject_Z (Bq j') < F)%Q /\ (F <= inject_Z (Gq j'))%Q
  | None => (inject_Z (Bq n) < F)%Q
  end.
Proof.
  induction k as [|k IH]; intros j lowest Hj Hk Hlow HB.
  - cbn [zseqn hdr_first]. replace n with j by lia. exact HB.
  - cbn [zseqn hdr_first]. cbv zeta. fold (v j).
    destruct (match lowest with Some l => l =? v j | None => false end) eqn:E.
    + destruct lowest as [l|]; [|discriminate]. assert (Hv : v j = v (j - 1)) by lia.
      specialize (IH (j + 1) (Some l)). cbv beta iota in IH.
      destruct (hdr_first data m2m A true (zseqn (j + 1) k) (Some l) f) as [j'|].
      * destruct IH as (H1 & H2 & H3); [lia|lia| | |repeat split; [lia|lia|exact H2|exact H3]].
        -- replace (j + 1 - 1) with j by lia. lia.
        -- rewrite B_succ by lia. unfold Gq. rewrite Hv. exact HB.
      * apply IH; [lia|lia| |].
        -- replace (j + 1 - 1) with j by lia. lia.
        -- rewrite B_succ by lia. unfold Gq. rewrite Hv. exact HB.
    + change (hdr_seen data m2m A true j) with (inject_Z (Gq j) / inject_Z A)%Q.
      destruct (Qle_bool f (inject_Z (Gq j) / inject_Z A)) eqn:E2.
      * apply qle_div in E2; [|exact HA]. repeat split; [lia|lia|exact HB|exact E2].
      * assert (HG : (inject_Z (Gq j) < F)%Q).
        { apply Qnot_le_lt. intros H. apply (qle_div f (Gq j) A HA) in H. congruence. }
        specialize (IH (j + 1) (Some (v j))). cbv beta iota in IH.
        destruct (hdr_first data m2m A true (zseqn (j + 1) k) (Some (v j)) f) as [j'|].
        -- destruct IH as (H1 & H2 & H3); [lia|lia| | |repeat split; [lia|lia|exact H2|exact H3]].
           ++ now replace (j + 1 - 1) with j by lia.
           ++ rewrite B_succ by lia. exact HG.
        -- apply IH; [lia|lia| |].
           ++ now replace (j + 1 - 1) with j by lia.
           ++ rewrite B_succ by lia. exact HG.
Qed.

(* invariant without only_upper_part: no smaller level-set cut holds the fraction *)
Definition Inv (j : Z) : Prop :=
  forall j', 1 <= j' < j -> v j' < v (j' - 1) -> (inject_Z (S j') < F)%Q.

Lemma first_lower : forall k j l, 1 <= j -> j + Z.of_nat k = n -> l = v (j - 1) ->
  Inv j ->
  match hdr_first data m2m A false (zseqn j k) (Some l) f with
  | Some j' => j <= j' < n /\ Inv j' /\ (F <= inject_Z (S j'))%Q /\ v j' < v (j' - 1)
  | None => Inv n
  end.
Proof.
  induction k as [|k IH]; intros j l Hj Hk Hlow HI.
  - cbn [zseqn hdr_first]. replace n with j by lia. exact HI.
  - cbn [zseqn hdr_first]. cbv zeta. fold (v j).
    assert (Hstep : v j = v (j - 1) \/ (inject_Z (S j) < F)%Q ->
              match hdr_first data m2m A false (zseqn (j + 1) k) (Some (v j)) f with
              | Some j' => j <= j' < n /\ Inv j' /\ (F <= inject_Z (S j'))%Q /\ v j' < v (j' - 1)
              | None => Inv n
              end).
    { intros Hcase. specialize (IH (j + 1) (v j)). cbv beta iota in IH.
      assert (HI' : Inv (j + 1)).
      { intros j' Hj' Hv. destruct (Z.eq_dec j' j) as [->|Hne]; [|apply HI; [lia|exact Hv]].
        destruct Hcase as [Hc|Hc]; [lia|exact Hc]. }
      destruct (hdr_first data m2m A false (zseqn (j + 1) k) (Some (v j)) f) as [j'|].
      - destruct IH as (H1 & H2 & H3 & H4); [lia|lia| |exact HI'|].
        + now replace (j + 1 - 1) with j by lia.
        + repeat split; [lia|lia|exact H2|exact H3|exact H4].
      - apply IH; [lia|lia| |exact HI']. now replace (j + 1 - 1) with j by lia. }
    destruct (l =? v j) eqn:E.
    + assert (Hv : v j = v (j - 1)) by lia. replace l with (v j) by lia. apply Hstep. left; exact Hv.
    + assert (Hseen : hdr_seen data m2m A false j = (inject_Z (S j) / inject_Z A)%Q).
      { unfold hdr_seen, hdr_low. now rewrite Z.mul_0_r, Z.sub_0_r. }
      rewrite Hseen. destruct (Qle_bool f (inject_Z (S j) / inject_Z A)) eqn:E2.
      * apply qle_div in E2; [|exact HA]. repeat split; [lia|lia|exact HI|exact E2|].
        assert (v j <= v (j - 1)) by (apply Hdesc; lia). lia.
      * apply Hstep. right. apply Qnot_le_lt. intros H. apply (qle_div f (S j) A HA) in H. congruence.
Qed.

(* ------------------------------------------------------------------------------------------ *)
(* the result for the fraction f, over this m2m *)
Variable bs : Z.
Definition one_gen (upper : bool) : hdr_out :=
  match hdr_res data m2m A upper bs (zseqn 1 (length data - 1)) (Some (v 0)) f with
  | Some o => o
  | None => hdr_rest data f
  end.

Lemma amp_at upper j : 0 < j -> (0 < inject_Z (S j - j * hdr_low data m2m upper j))%Q ->
  (ho_amp (hdr_out_at data m2m A upper bs j f) * inject_Z j == inject_Z (S j) - F)%Q.
Proof.
  intros Hj Hd. unfold hdr_out_at, hdr_seen. cbn [ho_amp]. cbv zeta.
  assert (Hd' : ~ (inject_Z (S j) - inject_Z j * inject_Z (hdr_low data m2m upper j) == 0)%Q).
  { rewrite <- inj_sub_mul. intros E. rewrite E in Hd. now apply Qlt_irrefl in Hd. }
  rewrite inj_sub_mul. unfold F. apply amp_algebra; [apply qnz, HA|apply qnz, Hj|exact Hd'].
Qed.

Lemma amp_rest_at : (ho_amp (hdr_rest data f) * inject_Z n == inject_Z (S n) - F)%Q.
Proof.
  unfold hdr_rest. cbn [ho_amp]. fold n. rewrite S_n, <- HAn. unfold F.
  apply amp_rest, qnz, n_pos.
Qed.

Lemma q_lt_of_mul (h jq s vq : Q) : (0 < jq -> h * jq == s - F -> s - jq * vq < F -> h < vq)%Q.
Proof. intros H0 H1 H2. apply (Qmult_lt_r _ _ jq); [exact H0|]. rewrite H1. lra. Qed.

Lemma q_le_of_mul (h jq s vq : Q) : (0 < jq -> h * jq == s - F -> F <= s - jq * vq -> vq <= h)%Q.
Proof. intros H0 H1 H2. apply (Qmult_le_r _ _ jq); [exact H0|]. rewrite H1. lra. Qed.

Lemma above_true h d : (h < inject_Z d)%Q -> above h d = true.
Proof.
  intros H. unfold above. destruct (Qle_bool (inject_Z d) h) eqn:E; [|reflexivity].
  apply Qle_bool_iff in E. exfalso. apply (Qlt_not_le _ _ H), E.
Qed.

Lemma above_false h d : (inject_Z d <= h)%Q -> above h d = false.
Proof. intros H. unfold above. apply Qle_bool_iff in H. now rewrite H. Qed.

Lemma above_iff h d : above h d = true <-> (h < inject_Z d)%Q.
Proof.
  split; [|apply above_true]. unfold above. destruct (Qle_bool (inject_Z d) h) eqn:E; [discriminate|].
  intros _. apply Qnot_le_lt. intros H. apply Qle_bool_iff in H. congruence.
Qed.

(* only_upper_part: what a cut j with B(j) < F <= G(j) and amplitude (S(j) - F)/j means *)
Lemma upper_common j h : 1 <= j <= n -> (h * inject_Z j == inject_Z (S j) - F)%Q ->
  (inject_Z (Bq j) < F)%Q -> (j < n -> (F <= inject_Z (Gq j))%Q) ->
  (0 <= h)%Q /\ (hdr_area_above data h == F)%Q /\
  forall i, 0 <= i < n -> (In i (top j) <-> (h < inject_Z (zget data i))%Q).
Proof.
  intros Hj Hh HB HG. assert (Hjq : (0 < inject_Z j)%Q) by (apply qpos_inj; lia).
  unfold Bq in HB. rewrite inj_sub_mul in HB.
  assert (Hlt : (h < inject_Z (v (j - 1)))%Q) by (eapply q_lt_of_mul; eassumption).
  assert (Hge : j < n -> (inject_Z (v j) <= h)%Q).
  { intros Hn. specialize (HG Hn). unfold Gq in HG. rewrite inj_sub_mul in HG.
    eapply q_le_of_mul; eassumption. }
  assert (H0h : (0 <= h)%Q).
  { destruct (Z_lt_ge_dec j n) as [Hn|Hn].
    + eapply Qle_trans; [|apply Hge, Hn]. change 0%Q with (inject_Z 0). rewrite <- Zle_Qle. apply zget_nn.
    + assert (j = n) by lia. subst j. apply (Qmult_le_r _ _ (inject_Z n)); [exact Hjq|].
      rewrite Hh, Qmult_0_l, S_n, <- HAn. pose proof F_le_A. lra. }
  destruct (split_at (above h) j) as (H1 & H2 & H3); [lia| | |].
  { intros k Hk. apply above_true. eapply Qlt_le_trans; [exact Hlt|].
    rewrite <- Zle_Qle. apply Hdesc; lia. }
  { intros k Hk. apply above_false. eapply Qle_trans; [|apply Hge; lia].
    rewrite <- Zle_Qle. apply Hdesc; lia. }
  split; [exact H0h|split].
  - unfold hdr_area_above. rewrite H1, H2. lra.
  - intros i Hi. rewrite H3 by exact Hi. apply above_iff.
Qed.

Theorem upper_gen :
  let o := one_gen true in let h := ho_amp o in
  (0 <= h)%Q /\ (hdr_area_above data h == F)%Q /\
  forall ivs, ho_iv o = Some ivs ->
    runs_ok (-1) ivs /\ forall i, covered ivs i <-> (0 <= i < n /\ (h < inject_Z (zget data i))%Q).
Proof.
  cbv zeta. unfold one_gen, hdr_res. pose proof n_pos as Hn.
  pose proof (first_upper (length data - 1) 1 (Some (v 0))) as Hfst. cbv beta iota in Hfst.
  destruct (hdr_first data m2m A true (zseqn 1 (length data - 1)) (Some (v 0)) f) as [j|].
  - destruct Hfst as (H1 & H2 & H3); [lia|unfold n, zlen in *; lia|reflexivity|rewrite B_1; apply F_pos|].
    assert (Hamp := amp_at true j ltac:(lia)).
    assert (Hd : (0 < inject_Z (S j - j * hdr_low data m2m true j))%Q).
    { eapply Qlt_le_trans; [apply F_pos|exact H3]. }
    specialize (Hamp Hd).
    destruct (upper_common j _ ltac:(lia) Hamp H2 (fun _ => H3)) as (U1 & U2 & U3).
    split; [exact U1|split; [exact U2|]]. intros ivs Hiv.
    unfold hdr_out_at, hdr_ivs in Hiv. cbn [ho_iv] in Hiv. cbv zeta in Hiv.
    destruct (zlen (runs (sort_z (top j))) - 1 >=? bs); [discriminate|]. injection Hiv as <-.
    destruct (top_ivs j) as [R1 R2]. split; [exact R1|]. intros i. rewrite R2. split.
    + intros Hi. pose proof (top_range _ _ Hi) as Hr. split; [exact Hr|]. apply U3; assumption.
    + intros [Hr Hi]. apply U3; assumption.
  - assert (HB : (inject_Z (Bq n) < F)%Q).
    { apply Hfst; [lia|unfold n, zlen in *; lia|reflexivity|rewrite B_1; apply F_pos]. }
    destruct (upper_common n _ ltac:(lia) amp_rest_at HB ltac:(lia)) as (U1 & U2 & U3).
    split; [exact U1|split; [exact U2|]]. intros ivs Hiv. unfold hdr_rest in Hiv. cbn [ho_iv] in Hiv.
    injection Hiv as <-. fold n. split; [cbn [runs_ok]; lia|]. intros i. split.
    + intros (s & e & [Heq|[]] & Hi). injection Heq as <- <-. split; [exact Hi|].
      apply U3; [exact Hi|]. apply top_n, Hi.
    + intros [Hr _]. exists 0, n. split; [left; reflexivity|exact Hr].
Qed.

(* ------------------------------------------------------------------------------------------ *)
(* without only_upper_part *)
Lemma thresh_split (p : Z -> bool) : (forall x y, p x = true -> x <= y -> p y = true) ->
  exists j', 0 <= j' <= n /\ (forall k, 0 <= k < j' -> p (v k) = true) /\
             (forall k, j' <= k < n -> p (v k) = false).
Proof.
  intros mono.
  assert (Hm : forall m : nat, Z.of_nat m <= n ->
            (exists j', 0 <= j' <= n /\ (forall k, 0 <= k < j' -> p (v k) = true) /\
                        (forall k, j' <= k < n -> p (v k) = false)) \/
            (forall k, 0 <= k < Z.of_nat m -> p (v k) = true)).
  { induction m as [|m IH]; intros Hle; [right; intros; lia|].
    destruct IH as [H|H]; [lia|left; exact H|].
    destruct (p (v (Z.of_nat m))) eqn:E.
    - right. intros k Hk. destruct (Z.eq_dec k (Z.of_nat m)) as [->|Hne]; [exact E|apply H; lia].
    - left. exists (Z.of_nat m). split; [lia|split; [exact H|]]. intros k Hk.
      destruct (p (v k)) eqn:E2; [|reflexivity].
      rewrite (mono (v k) (v (Z.of_nat m)) E2) in E; [discriminate|apply Hdesc; lia]. }
  pose proof n_pos as Hnp. destruct (Hm (Z.to_nat n)) as [H|H]; [lia|exact H|].
  exists n. split; [lia|split; [|intros; lia]]. intros k Hk. apply H. lia.
Qed.

Lemma lower_common j : 1 <= j <= n -> Inv j -> (F <= inject_Z (S j))%Q -> (j < n -> v j < v (j - 1)) ->
  let L := v (j - 1) in
  level_area data L = S j /\ level_count data L = j /\
  (forall L', L < L' -> (inject_Z (level_area data L') < F)%Q) /\
  forall i, 0 <= i < n -> (In i (top j) <-> L <= zget data i).
Proof.
  intros Hj HI HS Hv L.
  destruct (split_at (fun d => L <=? d) j) as (H1 & H2 & H3); [lia| | |].
  { intros k Hk. apply Z.leb_le. apply Hdesc; lia. }
  { intros k Hk. apply Z.leb_gt. assert (v k <= v j) by (apply Hdesc; lia). unfold L. lia. }
  split; [exact H1|split; [exact H2|split]].
  - intros L' HL'.
    destruct (thresh_split (fun d => L' <=? d)) as (j' & Hj' & Ht & Hf); [intros x y Hx Hxy; lia|].
    assert (Hlt : j' < j).
    { destruct (Z_lt_ge_dec j' j) as [?|Hge]; [assumption|]. specialize (Ht (j - 1) ltac:(lia)).
      fold L in Ht. lia. }
    destruct (split_at (fun d => L' <=? d) j' Hj' Ht Hf) as (G1 & _ & _).
    unfold level_area. rewrite G1. destruct (Z.eq_dec j' 0) as [->|Hne]; [rewrite S_0; apply F_pos|].
    apply HI; [lia|]. specialize (Ht (j' - 1) ltac:(lia)). specialize (Hf j' ltac:(lia)). lia.
  - intros i Hi. rewrite H3 by exact Hi. apply Z.leb_le.
Qed.

Lemma tie_ok : top_unique data -> 1 < n -> v 1 < v 0.
Proof.
  intros (i & Hi & Hmax) Hn. fold n in Hi, Hmax.
  destruct (idx_of i Hi) as (k & Hk & Ek).
  assert (Hi0 : zget data i <= v 0) by (rewrite <- Ek; apply Hdesc; lia).
  assert (Hl : (1 < length m2m)%nat) by (rewrite len_m2m; unfold n, zlen in Hn; lia).
  assert (Hne : zget m2m 1 <> i).
  { intros E1. assert (H0 : zget m2m 0 <> i).
    { intros E0. pose proof m2m_NoDup as Hnd. unfold zget in E0, E1.
      rewrite <- E1 in E0. apply (NoDup_nth m2m 0) in E0; [discriminate|exact Hnd|lia|lia]. }
    assert (Hr : 0 <= zget m2m 0 < n) by (apply m2m_In, nth_In; lia).
    specialize (Hmax _ Hr H0). fold (v 0) in Hmax. assert (Hd : v 1 <= v 0) by (apply Hdesc; lia).
    unfold v in Hd at 1. rewrite E1 in Hd. lia. }
  assert (Hr : 0 <= zget m2m 1 < n) by (apply m2m_In, nth_In; exact Hl).
  specialize (Hmax _ Hr Hne). fold (v 1) in Hmax. lia.
Qed.

Theorem lower_gen :
  let o := one_gen false in let h := ho_amp o in
  exists L,
    (F <= inject_Z (level_area data L))%Q /\
    (forall L', L < L' -> (inject_Z (level_area data L') < F)%Q) /\
    (h * inject_Z (level_count data L) == inject_Z (level_area data L) - F)%Q /\
    forall ivs, ho_iv o = Some ivs ->
      runs_ok (-1) ivs /\ forall i, covered ivs i <-> (0 <= i < n /\ L <= zget data i).
Proof.
  cbv zeta. unfold one_gen, hdr_res. pose proof n_pos as Hn.
  pose proof (first_lower (length data - 1) 1 (v 0)) as Hfst. cbv beta iota in Hfst.
  assert (HI1 : Inv 1) by (intros j' Hj'; lia).
  destruct (hdr_first data m2m A false (zseqn 1 (length data - 1)) (Some (v 0)) f) as [j|].
  - destruct Hfst as (H1 & H2 & H3 & H4); [lia|unfold n, zlen in *; lia|reflexivity|exact HI1|].
    destruct (lower_common j ltac:(lia) H2 H3 (fun _ => H4)) as (L1 & L2 & L3 & L4).
    exists (v (j - 1)). rewrite L1, L2. split; [exact H3|split; [exact L3|split]].
    + apply amp_at; [lia|]. unfold hdr_low. rewrite Z.mul_0_r, Z.sub_0_r.
      eapply Qlt_le_trans; [apply F_pos|exact H3].
    + intros ivs Hiv. unfold hdr_out_at, hdr_ivs in Hiv. cbn [ho_iv] in Hiv. cbv zeta in Hiv.
      destruct (zlen (runs (sort_z (top j))) - 1 >=? bs); [discriminate|]. injection Hiv as <-.
      destruct (top_ivs j) as [R1 R2]. split; [exact R1|]. intros i. rewrite R2. split.
      * intros Hi. pose proof (top_range _ _ Hi) as Hr. split; [exact Hr|]. apply L4; assumption.
      * intros [Hr Hi]. apply L4; assumption.
  - assert (HIn : Inv n).
    { apply Hfst; [lia|unfold n, zlen in *; lia|reflexivity|exact HI1]. }
    assert (HS : (F <= inject_Z (S n))%Q) by (rewrite S_n, <- HAn; apply F_le_A).
    destruct (lower_common n ltac:(lia) HIn HS ltac:(lia)) as (L1 & L2 & L3 & L4).
    exists (v (n - 1)). rewrite L1, L2. split; [exact HS|split; [exact L3|split]].
    + apply amp_rest_at.
    + intros ivs Hiv. unfold hdr_rest in Hiv. cbn [ho_iv] in Hiv. injection Hiv as <-. fold n.
      split; [cbn [runs_ok]; lia|]. intros i. split.
      * intros (s & e & [Heq|[]] & Hi). injection Heq as <- <-. split; [exact Hi|].
        apply L4; [exact Hi|]. apply top_n, Hi.
      * intros [Hr _]. exists 0, n. split; [left; reflexivity|exact Hr].
Qed.

End Sorted.

(* ------------------------------------------------------------------------------------------ *)
(* the code's max_to_min = rev (argsort data) *)
Lemma m2m_perm data : Permutation (rev (argsort data)) (zseqn 0 (length data)).
Proof. eapply perm_trans; [apply Permutation_sym, Permutation_rev|apply argsort_perm]. Qed.

Lemma m2m_desc data a b : 0 <= a -> a <= b -> b < zlen data ->
  zget data (zget (rev (argsort data)) b) <= zget data (zget (rev (argsort data)) a).
Proof.
  intros Ha Hab Hb. set (m2m := rev (argsort data)).
  assert (Hl : length m2m = length data).
  { unfold m2m. rewrite (Permutation_length (m2m_perm data)). apply zseqn_length. }
  assert (Hs : StronglySorted (fun x y => y <= x) (map (zget data) m2m)).
  { unfold m2m. rewrite map_rev. apply SS_rev, argsort_sorted. }
  assert (Hget : forall k, 0 <= k < zlen data ->
            nth (Z.to_nat k) (map (zget data) m2m) 0 = zget data (zget m2m k)).
  { intros k Hk. rewrite (nth_indep _ 0 (zget data 0)) by (rewrite map_length, Hl; unfold zlen in Hk; lia).
    rewrite map_nth. reflexivity. }
  destruct (Z.eq_dec a b) as [->|Hne]; [lia|].
  rewrite <- !Hget by lia. apply (SS_nth _ _ Hs). rewrite map_length, Hl. unfold zlen in Hb. lia.
Qed.

(* only_upper_part = True *)
Theorem hdr_upper_is_definition data f bs :
  Forall (fun d => 0 <= d) data -> 0 < zsum data -> (0 < f)%Q -> (f <= 1)%Q ->
  exists o, highest_density_region data [f] true bs = Ok [o] /\ hdr_upper_result data f o.
Proof.
  intros Hnn HA Hf0 Hf1. exists (hdr_one data f true bs). split; [apply hdr_single, HA|].
  exact (upper_gen data (rev (argsort data)) (m2m_perm data) (m2m_desc data) Hnn (zsum data) f
           HA eq_refl Hf0 Hf1 bs).
Qed.

(* only_upper_part = False *)
Theorem hdr_level_is_definition data f bs :
  Forall (fun d => 0 <= d) data -> 0 < zsum data -> (0 < f)%Q -> (f <= 1)%Q ->
  exists o, highest_density_region data [f] false bs = Ok [o] /\ hdr_level_result data f o.
Proof.
  intros Hnn HA Hf0 Hf1. exists (hdr_one data f false bs). split; [apply hdr_single, HA|].
  exact (lower_gen data (rev (argsort data)) (m2m_perm data) (m2m_desc data) Hnn (zsum data) f
           HA eq_refl Hf0 Hf1 bs).
Qed.

(* ascending fraction lists: every fraction independently *)
Theorem hdr_fractions_independent data fs upper bs : qsorted fs -> 0 < zsum data ->
  exists outs, highest_density_region data fs upper bs = Ok outs /\
               Forall2 (fun f o => highest_density_region data [f] upper bs = Ok [o]) fs outs.
Proof.
  intros Hs HA. exists (map (fun f => hdr_one data f upper bs) fs).
  split; [apply hdr_sorted_fractions; assumption|].
  clear Hs. induction fs as [|f fs IH]; cbn [map]; constructor; [apply hdr_single, HA|exact IH].
Qed.

(* non-vacuity *)
Definition hdr_ex_data : list Z := [1; 3; 2; 0].
Definition hdr_ex_upper : hdr_out := hdr_one hdr_ex_data (1 # 2) true 10.
Definition hdr_ex_level : hdr_out := hdr_one hdr_ex_data (2 # 3) false 10.

Example hdr_upper_example :
  highest_density_region hdr_ex_data [(1 # 2)%Q] true 10 = Ok [hdr_ex_upper] /\
  ho_iv hdr_ex_upper = Some [(1, 3)] /\ (ho_amp hdr_ex_upper == 1)%Q /\
  (hdr_area_above hdr_ex_data 1 == 3)%Q.
Proof. repeat split; vm_compute; reflexivity. Qed.

Example hdr_level_example :
  highest_density_region hdr_ex_data [(2 # 3)%Q] false 10 = Ok [hdr_ex_level] /\
  ho_iv hdr_ex_level = Some [(1, 3)] /\ (ho_amp hdr_ex_level == 1 # 2)%Q /\
  level_area hdr_ex_data 2 = 5 /\ level_area hdr_ex_data 3 = 3.
Proof.
  repeat split; vm_compute; reflexivity.
Qed.

(* a tie at the top is a level like every other (repaired code, /repo 2181c25) *)
Example hdr_level_tie_example :
  ho_iv (hdr_one [3; 1; 3; 0] (1 # 4) false 10) = Some [(0, 1); (2, 3)].
Proof. vm_compute. reflexivity. Qed.

(* Documentation of the pinned tree (before /repo 2181c25): lowest_sample_seen started at infinity
   (None), so the tie test never skipped j = 1 and a tied largest sample was cut: the level-set
   statement was false there *)
Definition highest_density_region_pinned (data : list Z) (fs : list Q) (upper : bool) (bs : Z)
  : res (list hdr_out) :=
  let area_tot := zsum data in
  if area_tot <=? 0 then Err 1
  else
    let n := zlen data in
    let m2m := rev (argsort data) in
    let '(outs, rem) := hdr_loop data m2m area_tot upper bs (zseqn 1 (length data - 1)) None fs in
    Ok (outs ++ map (fun fd => mkho (Some [(0, n)]) ((1 - fd) * inject_Z area_tot / inject_Z n)%Q) rem).

Theorem hdr_level_tie_pinned_refuted :
  exists data f bs o,
    Forall (fun d => 0 <= d) data /\ 0 < zsum data /\ (0 < f)%Q /\ (f <= 1)%Q /\
    highest_density_region_pinned data [f] false bs = Ok [o] /\ ho_iv o = Some [(2, 3)] /\
    ~ hdr_level_result data f o.
Proof.
  eexists [3; 1; 3; 0], (1 # 4)%Q, 10, _.
  split; [repeat constructor; lia|]. split; [vm_compute; reflexivity|].
  split; [reflexivity|]. split; [discriminate|].
  split; [vm_compute; reflexivity|]. split; [vm_compute; reflexivity|].
  intros (L & _ & _ & _ & Hiv). destruct (Hiv [(2, 3)]) as [_ Hc]; [vm_compute; reflexivity|].
  assert (HL : L <= 3).
  { destruct (proj1 (Hc 2)) as [_ H2]; [exists 2, 3; split; [left; reflexivity|lia]|exact H2]. }
  destruct (proj2 (Hc 0)) as (s & e & [Heq|[]] & Hi); [split; [vm_compute; split; congruence|exact HL]|].
  injection Heq as <- <-. lia.
Qed.
