(* C02 — "get_array returns what a brand-new context with the same settings and empty storage
   computes": the full statement over histories, and its refutation even for the repaired context
   hash: depends_on is not part of the lineage, so re-registering a same-named, same-version class
   whose dependencies change only within data types already in its lineage keeps the storage key
   while the computation changes (storage-level stale read; the plugin cache is not involved). *)
From SV Require Import Base.Prelude Model.Canon Model.Lineage Model.C02Run Proof.CanonProof Spec.LineageSpec
  Proof.LineageEquiv Proof.LineageCache Proof.LineageHash Proof.LineageRegister Proof.LineageHistory
  Proof.LineageRefute.

(* what a brand-new context with the settings of x computes on an empty directory *)
Definition fresh_get (HT : Type) (hash : list Z -> HT) (heqb : HT -> HT -> bool) (fx : bool)
           (x : context HT) (run dt : Z) : obs :=
  snd (step HT hash heqb fx (mkstate HT [mkctx HT (creg HT x) (cconf HT x) [] [] None] []) (OGet 0 run dt)).

Definition no_fuzzy (ops : list op) : Prop :=
  forall c ff fo, In (OSetFuzzy c ff fo) ops -> ff = [] /\ fo = [].

Definition full_get_equals_fresh (fx : bool) : Prop :=
  forall (HT : Type) (hash : list Z -> HT) (heqb : HT -> HT -> bool),
    (forall a b, hash a = hash b -> a = b) -> (forall a b, heqb a b = true <-> a = b) ->
    forall pre c run dt, cid_ok (classes_of pre) -> no_fuzzy pre ->
    forall x, nth_error (ctxs HT (fst (run_ops HT hash heqb fx (init_state HT) pre))) c = Some x ->
    snd (step HT hash heqb fx (fst (run_ops HT hash heqb fx (init_state HT) pre)) (OGet c run dt))
    = fresh_get HT hash heqb fx x run dt.

(* the hypothesis under which the statement is expected to hold (validated by the correspondence,
   not proved): within the history, class name + version determine the class as far as lineages AND
   dependencies are concerned, and child options are tracked *)
Definition name_version_determine_class (ops : list op) : Prop :=
  forall c1 c2 d, In c1 (classes_of ops) -> In c2 (classes_of ops) -> In d (cprovides c1) -> In d (cprovides c2) ->
    cname c1 = cname c2 -> cversion c1 = cversion c2 -> cls_equiv c1 c2.

Definition child_options_tracked (ops : list op) : Prop :=
  forall c o, In c (classes_of ops) -> In o (copts c) -> oparent o <> None -> otrack o = true.

Definition full_get_equals_fresh_versioned (fx : bool) : Prop :=
  forall (HT : Type) (hash : list Z -> HT) (heqb : HT -> HT -> bool),
    (forall a b, hash a = hash b -> a = b) -> (forall a b, heqb a b = true <-> a = b) ->
    forall pre c run dt, cid_ok (classes_of pre) -> no_fuzzy pre ->
    name_version_determine_class pre -> child_options_tracked pre ->
    forall x, nth_error (ctxs HT (fst (run_ops HT hash heqb fx (init_state HT) pre))) c = Some x ->
    snd (step HT hash heqb fx (fst (run_ops HT hash heqb fx (init_state HT) pre)) (OGet c run dt))
    = fresh_get HT hash heqb fx x run dt.

(* ---------- the witness: a -> b -> c, then c re-registered depending on b AND a ---------- *)
Definition dA : cls := mkcls 1 101 1000 2000 80 [10] [] [] false [].
Definition dB : cls := mkcls 2 102 1000 2000 80 [11] [10] [] false [].
Definition dC (cid0 : Z) (deps : list Z) : cls := mkcls cid0 103 1000 2000 80 [12] deps [] false [].

Definition W_DEPS : list op :=
  [ORegister 0 dA; ORegister 0 dB; ORegister 0 (dC 3 [11]); OGet 0 0 12; ORegister 0 (dC 4 [11; 10])].

Lemma cid_ok_W_DEPS : cid_ok (classes_of W_DEPS).
Proof.
  intros x y Hx Hy E. cbn in Hx, Hy.
  destruct Hx as [<-|[<-|[<-|[<-|[]]]]], Hy as [<-|[<-|[<-|[<-|[]]]]]; try reflexivity; cbn in E; lia.
Qed.

Theorem get_equals_fresh_refuted : forall fx, ~ full_get_equals_fresh fx.
Proof.
  intros fx H.
  specialize (H HTc hid heq hid_inj list_eqb_Z_spec W_DEPS 0%nat 0 12 cid_ok_W_DEPS).
  assert (NF : no_fuzzy W_DEPS).
  { intros c ff fo Hin. cbn in Hin. repeat (destruct Hin as [Hin|Hin]; [discriminate|]). destruct Hin. }
  specialize (H NF).
  destruct (nth_error (ctxs HTc (fst (run_ops HTc hid heq fx (init_state HTc) W_DEPS))) 0) as [x|] eqn:E;
    [|destruct fx; vm_compute in E; discriminate].
  specialize (H x eq_refl).
  destruct fx; vm_compute in E; inversion E; subst x; clear E; vm_compute in H; discriminate.
Qed.

(* the key does not see the change: both registries give data type 12 the same lineage, and the
   cache (repaired hash) is transparent on this history — the stale data comes from the directory *)
Example depends_on_not_in_lineage :
  exists i i', spec_plugin 4 [(10, dA); (11, dB); (12, dC 3 [11])] [] 12 = Ok i /\
               spec_plugin 4 [(10, dA); (11, dB); (12, dC 4 [11; 10])] [] 12 = Ok i' /\
               ilin i = ilin i' /\ cdepends (icls i) <> cdepends (icls i').
Proof. vm_compute. do 2 eexists. repeat split. discriminate. Qed.
