(* C11 — proofs about the planner model, part 4: get_components. *)
From SV Require Import Spec.PlannerSpec Proof.PlannerProof Proof.PlannerSaversProof Proof.PlannerDfsProof.

Local Open Scope nat_scope.

Lemma plugins_once_spec g : forall keys seen d j p,
  In (d, j, p) (plugins_once g keys seen) ->
  In d keys /\ plugin_of g d = Some (j, p) /\ ~ In j seen.
Proof.
  induction keys as [|k r IH]; intros seen d j p H; cbn [plugins_once] in H; [destruct H|].
  destruct (plugin_of g k) as [[j' p']|] eqn:Ep.
  - destruct (mem j' seen) eqn:Em.
    + destruct (IH _ _ _ _ H) as [H1 [H2 H3]]. split; [right; exact H1 | auto].
    + destruct H as [H|H].
      * inversion H; subst. apply mem_false in Em. split; [left; reflexivity | auto].
      * destruct (IH _ _ _ _ H) as [H1 [H2 H3]]. split; [right; exact H1|]. split; [exact H2|].
        intros Hc. apply H3. right. exact Hc.
  - destruct (IH _ _ _ _ H) as [H1 [H2 H3]]. split; [right; exact H1 | auto].
Qed.

Lemma plugins_once_complete g : forall keys seen d j p,
  In d keys -> plugin_of g d = Some (j, p) ->
  In j seen \/ exists d', In (d', j, p) (plugins_once g keys seen).
Proof.
  induction keys as [|k r IH]; intros seen d j p Hin Hp; [destruct Hin|]. cbn [plugins_once].
  destruct Hin as [->|Hin].
  - rewrite Hp. destruct (mem j seen) eqn:Em.
    + left. apply mem_In. exact Em.
    + right. exists d. left. reflexivity.
  - destruct (plugin_of g k) as [[j' p']|] eqn:Ep.
    + destruct (mem j' seen) eqn:Em.
      * apply (IH _ _ _ _ Hin Hp).
      * destruct (IH (j' :: seen) _ _ _ Hin Hp) as [[<-|Hs]|[d' Hd']].
        -- right. exists k. left.
           destruct (plugin_of_some _ _ _ _ Hp) as [_ N1]. destruct (plugin_of_some _ _ _ _ Ep) as [_ N2].
           rewrite N1 in N2. inversion N2. reflexivity.
        -- left. exact Hs.
        -- right. exists d'. right. exact Hd'.
    + apply (IH _ _ _ _ Hin Hp).
Qed.

Lemma plugins_once_nodup g : forall keys seen,
  NoDup (map (fun x => snd (fst x)) (plugins_once g keys seen)).
Proof.
  induction keys as [|k r IH]; intros seen; cbn [plugins_once]; [constructor|].
  destruct (plugin_of g k) as [[j p]|]; [|apply IH].
  destruct (mem j seen); [apply IH|]. cbn. constructor; [|apply IH].
  intros Hin. apply in_map_iff in Hin. destruct Hin as [[[d' j'] p'] [He Hin]]. cbn in He. subst j'.
  apply plugins_once_spec in Hin. destruct Hin as [_ [_ Hn]]. apply Hn. left. reflexivity.
Qed.

Lemma intersects_false a b : (forall x, In x a -> In x b -> False) -> intersects a b = false.
Proof.
  intros H. unfold intersects. destruct (existsb (fun x => mem x b) a) eqn:E; [|reflexivity].
  apply existsb_exists in E. destruct E as [x [Hx Hm]]. apply mem_In in Hm. exfalso. eauto.
Qed.

Section Top.
  Variables (g : graph) (cx : context) (rq : request).
  Notation ld := (loadable (c_fes cx)).

  (* the state after all targets have been checked *)
  Record final_state (st : pstate) : Prop := {
    fs_inv : st_inv g cx rq st;
    fs_targets : forall t, In t (r_targets rq) -> In t (s_seen st);
    fs_nodes : forall x, In x (s_seen st) ->
                 (exists t, In t (r_targets rq) /\ reach g cx t x) /\ node_done g cx rq st x
  }.

  Lemma check_all_final fuel st :
    check_all fuel g cx rq (r_targets rq) st0 = Ok st -> final_state st.
  Proof.
    intros H. unfold check_all in H.
    destruct (fold_ok g cx rq _ (cc_ok g cx rq fuel) _ _ _ (st_inv_0 g cx rq) H) as [I [X [S N]]].
    constructor; [exact I | exact S|]. intros x Hx. apply N; [exact Hx | cbn; tauto].
  Qed.

  Section WithFinal.
    Variable st : pstate.
    Hypothesis Hfs : final_state st.

    Lemma seen_needed x : In x (s_seen st) -> needed g cx rq x.
    Proof.
      intros Hx. destruct (fs_nodes _ Hfs x Hx) as [[t [Ht Hr]] _].
      eapply reach_needed; [apply needed_target; exact Ht | exact Hr].
    Qed.

    Lemma needed_seen x : needed g cx rq x -> In x (s_seen st).
    Proof.
      intros H. induction H as [d Hd | d j p d' Hn IH Hu Hp Hin].
      - apply (fs_targets _ Hfs). exact Hd.
      - destruct (fs_nodes _ Hfs d IH) as [_ [[Hl _]|[_ [_ [j' [p' [Hp' [_ [Hdeps _]]]]]]]]].
        + unfold unstored in Hu. congruence.
        + rewrite Hp in Hp'. inversion Hp'; subst. apply Hdeps. exact Hin.
    Qed.

    Lemma compute_iff d : In d (s_compute st) <-> needed g cx rq d /\ unstored cx d.
    Proof.
      split.
      - intros H. destruct (inv_cp _ _ _ _ (fs_inv _ Hfs) d H) as [Hl Hs]. split; [apply seen_needed; exact Hs | exact Hl].
      - intros [Hn Hu]. apply needed_seen in Hn.
        destruct (inv_seen _ _ _ _ (fs_inv _ Hfs) d Hn) as [Hl|Hc]; [|exact Hc].
        destruct (inv_ld _ _ _ _ (fs_inv _ Hfs) d Hl) as [Hl' _]. unfold unstored in Hu. congruence.
    Qed.

    Lemma loaders_iff d : In d (s_loaders st) <-> needed g cx rq d /\ stored cx d.
    Proof.
      split.
      - intros H. destruct (inv_ld _ _ _ _ (fs_inv _ Hfs) d H) as [Hl Hs]. split; [apply seen_needed; exact Hs | exact Hl].
      - intros [Hn Hu]. apply needed_seen in Hn.
        destruct (inv_seen _ _ _ _ (fs_inv _ Hfs) d Hn) as [Hl|Hc]; [exact Hl|].
        destruct (inv_cp _ _ _ _ (fs_inv _ Hfs) d Hc) as [Hl' _]. unfold stored in Hu. congruence.
    Qed.

    Lemma computed_done x : needed g cx rq x -> unstored cx x ->
      exists j p, plugin_of g x = Some (j, p) /\ blocked cx rq p x = false /\
                  saver_done cx rq (s_savers st) p x.
    Proof.
      intros Hn Hu. apply needed_seen in Hn.
      destruct (fs_nodes _ Hfs x Hn) as [_ [[Hl _]|[_ [_ [j [p [Hp [Hb [_ Hs]]]]]]]]].
      - unfold unstored in Hu. congruence.
      - exists j, p. auto.
    Qed.

    Lemma savers_iff d2 fl : In (d2, fl) (s_savers st) <-> dictated_saver g cx rq d2 fl.
    Proof.
      split.
      - intros H. destruct (inv_sv _ _ _ _ (fs_inv _ Hfs) _ H) as [x [j [p [Hx [Hp [Hent Hnew]]]]]].
        apply compute_iff in Hx. destruct Hx as [Hn Hu].
        destruct Hnew as [N1 [N2 [N3 [N4 N5]]]]. cbn in *.
        exists x, j, p. repeat split; try assumption.
        + apply Hent. + apply Hent. + apply Hent.
      - intros [x [j [p [Hn [Hu [Hp [Hent [Hin [Hu2 [Ha [Hfl Hne]]]]]]]]]]].
        destruct (computed_done x Hn Hu) as [j' [p' [Hp' [_ Hs]]]].
        rewrite Hp in Hp'. inversion Hp'; subst j' p'.
        destruct Hent as [Ht Hrest]. destruct (Hs Ht) as [_ Hloop].
        specialize (Hloop (conj Ht Hrest) d2 Hin Hu2). destruct Hloop as [_ Hsv].
        subst fl. apply Hsv; assumption.
    Qed.

    Lemma no_refusal : ~ creation_refused g cx rq.
    Proof.
      intros [x [Hn [Hu [j [p [Hp Hb]]]]]].
      destruct (computed_done x Hn Hu) as [j' [p' [Hp' [Hb' _]]]].
      rewrite Hp in Hp'. inversion Hp'; subst. congruence.
    Qed.

    Lemma no_conflict : ~ never_saved_requested g cx rq.
    Proof.
      intros [x [j [p [Hn [Hu [Hp [Ht Hc]]]]]]].
      destruct (computed_done x Hn Hu) as [j' [p' [Hp' [_ Hs]]]].
      rewrite Hp in Hp'. inversion Hp'; subst j' p'. destruct (Hs Ht) as [Hc1 Hloop].
      destruct Hc as [Hc|[Hent [d2 [Hin [Hu2 Hc2]]]]]; [congruence|].
      destruct (Hloop Hent d2 Hin Hu2) as [Hc3 _]. congruence.
    Qed.

    Lemma no_intersection : intersects (s_compute st) (s_loaders st) = false.
    Proof.
      apply intersects_false. intros x Hc Hl.
      destruct (inv_cp _ _ _ _ (fs_inv _ Hfs) x Hc) as [H1 _].
      destruct (inv_ld _ _ _ _ (fs_inv _ Hfs) x Hl) as [H2 _]. congruence.
    Qed.
  End WithFinal.

  (* ---- unfolding get_components ---- *)

  Lemma get_components_ok c :
    get_components g cx rq = Ok c ->
    exists st, final_state st /\
      k_plugins c = rev (s_compute st) /\ k_loaders c = rev (s_loaders st) /\
      k_savers c = rev (s_savers st) /\
      k_final c = final_candidates g (r_targets rq) (k_plugins c) (k_loaders c).
  Proof.
    unfold get_components. intros H.
    destruct (c_fuzzy cx && c_incomplete cx); [discriminate|].
    destruct (check_all _ g cx rq (r_targets rq) st0) as [st|e] eqn:E; cbn [res_bind] in H; [|discriminate].
    destruct (intersects (s_compute st) (s_loaders st)); [discriminate|].
    inversion H; subst. cbn. exists st. split; [eapply check_all_final; eauto|]. auto.
  Qed.

  Theorem computes_exactly_missing c :
    get_components g cx rq = Ok c ->
    (forall d, In d (k_plugins c) <-> needed g cx rq d /\ unstored cx d) /\
    (forall d, In d (k_loaders c) <-> needed g cx rq d /\ stored cx d) /\
    NoDup (k_plugins c) /\ NoDup (k_loaders c) /\
    (forall j, In j (running_idx g c) <->
               exists d p, plugin_of g d = Some (j, p) /\ needed g cx rq d /\ unstored cx d).
  Proof.
    intros H. destruct (get_components_ok _ H) as [st [Hfs [E1 [E2 [E3 E4]]]]].
    assert (P1 : forall d, In d (k_plugins c) <-> needed g cx rq d /\ unstored cx d).
    { intros d. rewrite E1, <- in_rev. apply compute_iff. exact Hfs. }
    split; [exact P1|]. split.
    { intros d. rewrite E2, <- in_rev. apply loaders_iff. exact Hfs. }
    split. { rewrite E1. apply NoDup_rev. apply (inv_nd_c _ _ _ _ (fs_inv _ Hfs)). }
    split. { rewrite E2. apply NoDup_rev. apply (inv_nd_l _ _ _ _ (fs_inv _ Hfs)). }
    intros j. unfold running_idx, running. rewrite in_map_iff. split.
    - intros [[[d j'] p] [He Hin]]. cbn in He. subst j'. apply plugins_once_spec in Hin.
      destruct Hin as [Hk [Hp _]]. apply P1 in Hk. exists d, p. tauto.
    - intros [d [p [Hp Hn]]]. apply P1 in Hn.
      destruct (plugins_once_complete g _ [] _ _ _ Hn Hp) as [[]|[d' Hd']].
      exists (d', j, p). split; [reflexivity | exact Hd'].
  Qed.

  Theorem saves_by_policy c :
    get_components g cx rq = Ok c ->
    (forall d2 fl, In (d2, fl) (k_savers c) <-> dictated_saver g cx rq d2 fl) /\
    NoDup (map fst (k_savers c)).
  Proof.
    intros H. destruct (get_components_ok _ H) as [st [Hfs [E1 [E2 [E3 E4]]]]]. split.
    - intros d2 fl. rewrite E3, <- in_rev. apply savers_iff. exact Hfs.
    - rewrite E3, map_rev. apply NoDup_rev. apply (inv_sv_nd _ _ _ _ (fs_inv _ Hfs)).
  Qed.

  (* errors are explicit: what an Err means, without any assumption on the graph *)
  Theorem errors_sound :
    match get_components g cx rq with
    | Ok _ => ~ creation_refused g cx rq /\ ~ never_saved_requested g cx rq
    | Err e =>
        (e = E_DNA /\ creation_refused g cx rq) \/ (e = E_VALUE /\ never_saved_requested g cx rq) \/
        (e = E_UNSUPPORTED /\ c_fuzzy cx && c_incomplete cx = true) \/ e = E_FUEL \/ e = E_KEY
    end.
  Proof.
    destruct (get_components g cx rq) as [c|e] eqn:H.
    - destruct (get_components_ok _ H) as [st [Hfs _]]. split; [eapply no_refusal | eapply no_conflict]; eauto.
    - unfold get_components in H. destruct (c_fuzzy cx && c_incomplete cx) eqn:Ef.
      { inversion H. auto. }
      destruct (check_all _ g cx rq (r_targets rq) st0) as [st|e'] eqn:E; cbn [res_bind] in H.
      + rewrite (no_intersection st (check_all_final _ _ E)) in H. discriminate.
      + inversion H; subst e'. unfold check_all in E.
        destruct (fold_res_err _ _ _ _ E) as [t [s1 [Ht Hf]]].
        assert (Hnt : needed g cx rq t) by (apply needed_target; exact Ht).
        destruct (cc_err g cx rq _ _ _ _ Hf) as [[He [x [Hr Hw]]]|[[He [x [Hr Hw]]]|[He|He]]]; auto.
        * left. split; [exact He|]. destruct Hw as [j [p [Hl [Hp Hb]]]].
          exists x. split; [eapply reach_needed; eauto|]. split; [exact Hl|]. exists j, p. auto.
        * right. left. split; [exact He|]. destruct Hw as [j [p [Hl [Hp [Htmp Hc]]]]].
          exists x, j, p. split; [eapply reach_needed; eauto|]. auto.
  Qed.

  (* ... and on well-formed graphs with known targets nothing else can happen *)
  Theorem errors_explicit :
    wf_graph g -> (forall t, In t (r_targets rq) -> In t (all_provs g)) ->
    c_fuzzy cx && c_incomplete cx = false ->
    match get_components g cx rq with
    | Ok _ => ~ creation_refused g cx rq /\ ~ never_saved_requested g cx rq
    | Err e => (e = E_DNA /\ creation_refused g cx rq) \/ (e = E_VALUE /\ never_saved_requested g cx rq)
    end.
  Proof.
    intros Hwf Htp Hf. pose proof errors_sound as Hs.
    destruct (get_components g cx rq) as [c|e] eqn:H; [exact Hs|].
    destruct Hs as [Hs|[Hs|[[_ Hs]|Hs]]]; [left; exact Hs | right; exact Hs | rewrite Hf in Hs; discriminate |].
    exfalso.
    unfold get_components in H. rewrite Hf in H.
    destruct (check_all _ g cx rq (r_targets rq) st0) as [st|e'] eqn:E; cbn [res_bind] in H.
    - rewrite (no_intersection st (check_all_final _ _ E)) in H. discriminate.
    - inversion H; subst e'. unfold check_all in E.
      destruct (fold_res_err _ _ _ _ E) as [t [s1 [Ht Hfe]]].
      assert (Hlt : t < gfuel g (r_targets rq)).
      { unfold gfuel. assert (Hin : In t (all_provs g ++ r_targets rq)) by (apply in_or_app; right; exact Ht).
        pose proof (list_max_le (all_provs g ++ r_targets rq) (list_max (all_provs g ++ r_targets rq))) as [Hm _].
        specialize (Hm (Nat.le_refl _)). rewrite Forall_forall in Hm. specialize (Hm t Hin). lia. }
      destruct (cc_no_fuel_key g cx rq Hwf _ _ _ _ Hlt (Htp t Ht) Hfe) as [N1 N2].
      destruct Hs; contradiction.
  Qed.
End Top.
