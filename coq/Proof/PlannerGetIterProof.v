(* C11 — get_iter's target rewriting keeps the graph well formed, so every planner and wiring theorem
   applies to the request that reaches get_components. *)
From SV Require Import Spec.PlannerSpec Proof.PlannerProof Proof.PlannerSaversProof Proof.PlannerDfsProof
  Proof.PlannerTopProof Proof.PlannerWiringProof Proof.PlannerExamples.

Local Open Scope nat_scope.

Lemma dedup_incl : forall l acc x, In x (dedup_keep_order l acc) -> In x l \/ In x acc.
Proof.
  induction l as [|a l IH]; intros acc x H; cbn [dedup_keep_order] in H.
  - right. apply in_rev. exact H.
  - destruct (mem a acc).
    + destruct (IH _ _ H); [left; right; assumption | right; assumption].
    + destruct (IH _ _ H) as [?|[<-|?]]; [left; right; assumption | left; left; reflexivity | right; assumption].
Qed.

Lemma forallb_impl {A} (f h : A -> bool) l :
  (forall x, In x l -> f x = true -> h x = true) -> forallb f l = true -> forallb h l = true.
Proof.
  intros Himp H. rewrite forallb_forall in *. intros x Hx. apply Himp; [exact Hx | apply H; exact Hx].
Qed.

Lemma list_max_ge l x : In x l -> x <= list_max l.
Proof.
  intros H. pose proof (list_max_le l (list_max l)) as [Hm _]. specialize (Hm (Nat.le_refl _)).
  rewrite Forall_forall in Hm. apply Hm. exact H.
Qed.

Lemma wf_graph_parts g : wf_graph g <->
  forallb plugin_ordered g = true /\
  forallb (fun p => forallb (fun d => mem d (all_provs g)) (p_deps p)) g = true /\
  nodupb (all_provs g) = true /\
  forallb (fun p => match p_out p with [] => false | _ => true end) g = true.
Proof.
  unfold wf_graph, wf_graphb. rewrite !andb_true_iff. tauto.
Qed.

Lemma get_iter_rewrite_wf g kinds targets g' t' :
  wf_graph g -> (forall t, In t targets -> In t (all_provs g)) ->
  get_iter_rewrite g kinds targets = Ok (g', t') ->
  wf_graph g' /\ (forall t, In t t' -> In t (all_provs g')).
Proof.
  intros Hwf Htp H. unfold get_iter_rewrite in H.
  destruct targets as [|t0 [|t1 r]]; [inversion H; subst; split; [exact Hwf | intros ? []] | inversion H; subst; auto |].
  remember (t0 :: t1 :: r) as targets eqn:Etg.
  destruct (dedup_keep_order targets []) as [|t rest] eqn:Ed; [inversion H; subst; split; [exact Hwf | intros ? []]|].
  destruct (forallb _ rest); [|discriminate]. inversion H; subst g' t'. clear H.
  assert (Hsub : forall x, In x (t :: rest) -> In x targets).
  { intros x Hx. rewrite <- Ed in Hx. destruct (dedup_incl _ _ _ Hx) as [?|[]]. assumption. }
  set (fresh := fresh_dt g targets).
  assert (Hfresh : forall x, In x (all_provs g ++ targets) -> x < fresh).
  { intros x Hx. unfold fresh, fresh_dt. pose proof (list_max_ge _ _ Hx). lia. }
  set (tmp := mkplugin [(fresh, SAVEWHEN_EXPLICIT)] (t :: rest) true).
  assert (Hprov : all_provs (g ++ [tmp]) = all_provs g ++ [fresh]).
  { unfold all_provs. rewrite flat_map_app. reflexivity. }
  assert (Hord : plugin_ordered tmp = true).
  { unfold plugin_ordered. apply forallb_forall. intros o Ho. apply forallb_forall. intros x Hx.
    destruct Ho as [<-|[]]. apply Nat.ltb_lt. apply Hfresh. apply in_or_app. right. apply Hsub. exact Hx. }
  assert (Hdeps : forallb (fun d => mem d (all_provs g ++ [fresh])) (p_deps tmp) = true).
  { apply forallb_forall. intros x Hx. apply mem_In. apply in_or_app. left. apply Htp. apply Hsub. exact Hx. }
  apply wf_graph_parts in Hwf. destruct Hwf as [W1 [W2 [W3 W4]]]. split.
  - apply wf_graph_parts. rewrite Hprov, !forallb_app. cbn [forallb]. rewrite Hord, Hdeps, W1, W4.
    split; [reflexivity|]. split; [|split; [|reflexivity]].
    + rewrite andb_true_r. eapply forallb_impl; [|exact W2]. intros p _ Hp. eapply forallb_impl; [|exact Hp].
      intros d _ Hd. apply mem_In. apply in_or_app. left. apply mem_In. exact Hd.
    + apply NoDup_nodupb. apply NoDup_app_intro.
      * apply nodupb_NoDup. exact W3.
      * repeat constructor. intros [].
      * intros x Hx [He|[]]. pose proof (Hfresh x (in_or_app _ _ _ (or_introl Hx))). lia.
  - intros x [<-|[]]. rewrite Hprov. apply in_or_app. right. left. reflexivity.
Qed.

Lemma one_origin_threaded_fixed g cx rq c :
  wf_graph g -> get_components g cx rq = Ok c ->
  one_origin g c (wiring_fixed g c) /\ wiring_single g c = Ok (wiring_fixed g c).
Proof.
  intros Hwf Hc. split; [exact (one_origin_fixed g cx rq c Hwf Hc) | exact (wiring_single_is_fixed g cx rq c Hwf Hc)].
Qed.
