(* C13: the hypotheses of the every-wiring theorems are satisfiable (diamond, fan-join, 3-output fan-out with a
   saved and a discarded output, a chain fed by a loader with a storage-conversion saver), and the bound they
   give for the sources of those graphs. *)
From SV Require Import Base.Prelude Model.Mailbox Model.MailboxNet
  Proof.MailboxNetLift Proof.MailboxStepFacts Proof.MailboxMeasure Proof.MailboxNetFlow Proof.MailboxNetBound
  Proof.MailboxNetChain Proof.MailboxNetQuiesce Proof.MailboxNetExamples Proof.MailboxNetWire.
Local Open Scope nat_scope.

Lemma wire_comes_to_rest c o p N sched n :
  valid_comps c -> nrun (net_of (wire c o p) N) sched = Some n ->
  length sched <= net_mu (n_boxes (net_of (wire c o p) N)).
Proof. intros Hv Hrun. exact (quiescence_reached N _ sched n (wire_wf c o p N Hv) Hrun). Qed.

Ltac valid_tac :=
  split;
  [ vm_compute; repeat constructor; cbn; intuition discriminate
  | intros dq H; cbn in H; intuition (subst; cbn; auto) ].

Example diamond_valid : valid_comps diamond_comps. Proof. valid_tac. Qed.
Example fanjoin_valid : valid_comps fanjoin_comps. Proof. valid_tac. Qed.
Example fanout3_valid : valid_comps fanout3_comps. Proof. valid_tac. Qed.

(* d0 loaded from storage (with a conversion saver on it) -> d1 -> d2 *)
Definition loaded_chain_comps : comps :=
  mkComps [(2, 0); (1, 1)] [mkPlugin [2] [1] None; mkPlugin [1] [0] (Some 1)] [0] [(0, 1)] 2.
Example loaded_chain_valid : valid_comps loaded_chain_comps. Proof. valid_tac. Qed.

(* the source d0 of the diamond is needed through d1 and d3: three mailboxes on the path *)
Example diamond_needed lz c p :
  needed diamond_comps (mkOpts lz true c) p 0 (p + 2 * c + 2 * c + 2 * c).
Proof.
  set (O := mkOpts lz true c).
  change (needed diamond_comps O p 0 (p + 2 * c + 2 * c + 2 * key_cap diamond_comps O (KD 0))).
  apply (needed_single _ _ _ 1 1 0 (p + 2 * c + 2 * c)); [cbn; tauto|reflexivity|cbn; tauto|].
  change (needed diamond_comps O p 1 (p + 2 * c + 2 * key_cap diamond_comps O (KD 1))).
  apply (needed_single _ _ _ 3 0 1 (p + 2 * c)); [cbn; tauto|reflexivity|cbn; tauto|].
  change (needed diamond_comps O p (c_target diamond_comps) (p + 2 * key_cap diamond_comps O (KD (c_target diamond_comps)))).
  apply needed_target.
Qed.

(* the source of the 3-output fan-out: through the divide_outputs mailbox to the target output d2 *)
Example fanout3_needed lz c p :
  needed fanout3_comps (mkOpts lz true c) p 0 (p + 2 * c + 2 * c + 2 * c).
Proof.
  set (O := mkOpts lz true c).
  change (needed fanout3_comps O p 0 (p + 2 * c + 2 * o_maxmsg O + 2 * key_cap fanout3_comps O (KD 0))).
  apply (needed_multi _ _ _ 2 0 2 0 (p + 2 * c)); [cbn; tauto|reflexivity|cbn; tauto|cbn; tauto|].
  change (needed fanout3_comps O p (c_target fanout3_comps) (p + 2 * key_cap fanout3_comps O (KD (c_target fanout3_comps)))).
  apply needed_target.
Qed.

(* the loader of the loaded chain: d1's mailbox has the plugin's own max_messages = 1 *)
Example loaded_chain_needed lz c p :
  needed loaded_chain_comps (mkOpts lz true c) p 0 (p + 2 * c + 2 * 1 + 2 * c).
Proof.
  set (O := mkOpts lz true c).
  change (needed loaded_chain_comps O p 0 (p + 2 * c + 2 * 1 + 2 * key_cap loaded_chain_comps O (KD 0))).
  apply (needed_single _ _ _ 1 1 0 (p + 2 * c + 2 * 1)); [cbn; tauto|reflexivity|cbn; tauto|].
  change (needed loaded_chain_comps O p 1 (p + 2 * c + 2 * key_cap loaded_chain_comps O (KD 1))).
  apply (needed_single _ _ _ 2 0 1 (p + 2 * c)); [cbn; tauto|reflexivity|cbn; tauto|].
  change (needed loaded_chain_comps O p (c_target loaded_chain_comps)
            (p + 2 * key_cap loaded_chain_comps O (KD (c_target loaded_chain_comps)))).
  apply needed_target.
Qed.
