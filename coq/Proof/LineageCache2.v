(* C02 — soundness and completeness of __get_plugin / _get_plugins with respect to the
   specification, given a sound cache. *)
From SV Require Import Base.Prelude Model.Canon Model.Lineage Proof.CanonProof Spec.LineageSpec
  Proof.LineageEquiv Proof.LineageCache.

Lemma In_dset {A} t (i : A) k v m : In (t, i) (dset k v m) -> (t, i) = (k, v) \/ In (t, i) m.
Proof.
  induction m as [|[k' v'] m IH]; cbn [dset]; intros H.
  - destruct H as [H|[]]. left. now symmetry.
  - destruct (k =? k').
    + destruct H as [H|H]; [left; now symmetry|right; now right].
    + destruct H as [H|H]; [right; now left|]. destruct (IH H) as [G|G]; [now left|right; now right].
Qed.

Lemma In_fold_dset {A} t (i x : A) provs m :
  In (t, i) (fold_left (fun acc p => dset p x acc) provs m) -> (i = x /\ In t provs) \/ In (t, i) m.
Proof.
  revert m. induction provs as [|p provs IH]; intros m H; cbn [fold_left] in H; [now right|].
  destruct (IH _ H) as [[E Hin]|Hin]; [left; split; [exact E|now right]|].
  destruct (In_dset _ _ _ _ _ Hin) as [G|G]; [|now right]. inversion G; subst. left. split; [reflexivity|now left].
Qed.

Lemma has_key_fold_dset {A} k (x : A) provs m :
  has_key k (fold_left (fun acc p => dset p x acc) provs m) = memZ k provs || has_key k m.
Proof.
  unfold has_key. rewrite lookup_fold_dset. destruct (memZ k provs); reflexivity.
Qed.

Section Requested.
Variable reg : registry.
Variable conf : config.
Hypothesis Hok : reg_ok reg.

Lemma requested_fold_sound m0 acc :
  cache_sound reg conf m0 -> cache_sound reg conf acc ->
  cache_sound reg conf (fold_left (fun req ti =>
               if has_key (fst ti) req then req
               else fold_left (fun r p => dset p (snd ti) r) (cprovides (icls (snd ti))) req) m0 acc).
Proof.
  revert acc. induction m0 as [|[t i] m0 IH]; intros acc Hm0 Hacc; cbn [fold_left fst snd]; [exact Hacc|].
  apply IH; [intros t' i' Hin; apply Hm0; now right|].
  destruct (has_key t acc); [exact Hacc|].
  intros dt j Hin. destruct (In_fold_dset _ _ _ _ _ Hin) as [[-> Hp]|Hold]; [|now apply Hacc].
  eapply sound_inst_provides; eauto. apply Hm0. now left.
Qed.

Lemma requested_sound m : cache_sound reg conf m -> cache_sound reg conf (requested_from_cache m).
Proof. intros Hm. apply requested_fold_sound; [exact Hm|intros dt i []]. Qed.

Lemma requested_fold_keys k m0 acc :
  cache_sound reg conf m0 -> (has_key k acc = true \/ has_key k m0 = true) ->
  has_key k (fold_left (fun req ti =>
               if has_key (fst ti) req then req
               else fold_left (fun r p => dset p (snd ti) r) (cprovides (icls (snd ti))) req) m0 acc) = true.
Proof.
  revert acc. induction m0 as [|[t i] m0 IH]; intros acc Hm0 H; cbn [fold_left fst snd].
  - destruct H as [H|H]; [exact H|discriminate].
  - apply IH; [intros t' i' Hin; apply Hm0; now right|].
    destruct (has_key t acc) eqn:Ht.
    + destruct H as [H|H]; [now left|]. unfold has_key in H. cbn [lookup] in H.
      destruct (k =? t) eqn:E; [apply Z.eqb_eq in E; subst; now left|right; exact H].
    + rewrite has_key_fold_dset. destruct H as [H|H]; [left; rewrite H; apply orb_true_r|].
      unfold has_key in H. cbn [lookup] in H. destruct (k =? t) eqn:E; [|right; exact H].
      apply Z.eqb_eq in E. subst. left. apply orb_true_iff. left. apply memZ_spec.
      eapply sound_inst_self; eauto. apply Hm0. now left.
Qed.

Lemma requested_keys k m : cache_sound reg conf m -> has_key k m = true -> has_key k (requested_from_cache m) = true.
Proof. intros Hm Hk. apply requested_fold_keys; [exact Hm|now right]. Qed.
End Requested.

Section WithHash.
Variable HT : Type.
Variable hash : list Z -> HT.
Variable heqb : HT -> HT -> bool.
Hypothesis heqb_spec : forall a b, heqb a b = true <-> a = b.

Variable reg : registry.
Variable conf : config.
Hypothesis Hok : reg_ok reg.
Variable h : HT.

Notation cache_t := (cache_t HT).

(* the cache is sound for the current settings whenever its key is the current context hash *)
Definition cs (ca : cache_t) : Prop :=
  forall m, cache_map HT heqb h ca = Some m -> cache_sound reg conf m.

Lemma heqb_refl a : heqb a a = true.
Proof. now apply heqb_spec. Qed.

Lemma cs_put ca provs i :
  cs ca -> (forall p, In p provs -> sound_inst reg conf p i) -> cs (cache_put HT heqb h ca provs i).
Proof.
  intros Hcs Hi m Hm. unfold cache_put, cache_map in Hm. rewrite heqb_refl in Hm. inversion Hm; subst m. clear Hm.
  intros dt j Hin. apply In_fold_dset in Hin. destruct Hin as [[E Hp]|Hold]; [subst j; now apply Hi|].
  fold (cache_map HT heqb h ca) in Hold.
  destruct (cache_map HT heqb h ca) as [m0|] eqn:E; [|destruct Hold]. now apply (Hcs m0).
Qed.

(* results of fold_deps *)
Lemma fold_deps_sound (gp : cache_t -> Z -> res (inst * cache_t)) :
  (forall ca d i ca', cs ca -> gp ca d = Ok (i, ca') -> sound_inst reg conf d i /\ cs ca') ->
  forall ds ca acc l ca',
    cs ca -> fold_deps HT gp ds ca acc = Ok (l, ca') ->
    cs ca' /\ exists l', l = acc ++ l' /\ Forall2 (sound_inst reg conf) ds l'.
Proof.
  intros Hgp. induction ds as [|d ds IH]; intros ca acc l ca' Hcs H; cbn [fold_deps] in H.
  - inversion H; subst. split; [exact Hcs|]. exists []. split; [now rewrite app_nil_r|constructor].
  - destruct (gp ca d) as [[i ca1]|e] eqn:E; cbn [res_bind fst snd] in H; [|discriminate].
    destruct (Hgp _ _ _ _ Hcs E) as (Hi & Hcs1).
    destruct (IH _ _ _ _ Hcs1 H) as (Hcs' & l' & -> & HF).
    split; [exact Hcs'|]. exists (i :: l'). split; [now rewrite <- app_assoc|]. constructor; assumption.
Qed.

(* from sound dependencies to a sound instance *)
Lemma spec_deps_of_sound ds deps :
  Forall2 (sound_inst reg conf) ds deps ->
  exists n deps', spec_deps (spec_plugin n reg conf) ds = Ok deps' /\
                  Forall2 (fun d d' => lin_equiv (ilin d) (ilin d') /\ lin_nodup d /\ lin_nodup d') deps deps'.
Proof.
  induction 1 as [|d i ds deps (ND & n & i' & Hs & He) _ (n2 & deps' & Hd & HF)].
  - exists O, []. split; [reflexivity|constructor].
  - exists (Nat.max n n2), (i' :: deps'). split.
    + cbn [spec_deps]. rewrite (spec_plugin_mono reg conf n (Nat.max n n2) d i' ltac:(lia) Hs). cbn [res_bind].
      rewrite (spec_deps_mono (spec_plugin n2 reg conf) (spec_plugin (Nat.max n n2) reg conf) ds deps'
                 (fun d0 j => spec_plugin_mono reg conf n2 (Nat.max n n2) d0 j ltac:(lia)) Hd). reflexivity.
    + constructor; [|exact HF]. destruct He as (_ & _ & Hl). split; [exact Hl|]. split; [exact ND|].
      eapply spec_plugin_nodup; eauto.
Qed.

Lemma fresh_sound dt c pconf deps :
  lookup dt reg = Some c -> plugin_config conf c = Ok pconf ->
  Forall2 (sound_inst reg conf) (cdepends c) deps ->
  sound_inst reg conf dt (mkinst c pconf (build_lineage c pconf deps)).
Proof.
  intros Hc Hp Hd. split; [unfold lin_nodup; cbn [ilin]; apply build_lineage_NoDup|].
  destruct (spec_deps_of_sound _ _ Hd) as (n & deps' & Hs & HF).
  exists (S n), (mkinst c pconf (build_lineage c pconf deps')). split.
  - cbn [spec_plugin]. rewrite Hc, Hp. cbn [res_bind]. rewrite Hs. reflexivity.
  - split; [apply cls_equiv_refl|]. split; [apply dequiv_refl|]. cbn [ilin].
    apply build_lineage_equiv; [apply cls_equiv_refl|apply dequiv_refl|exact HF].
Qed.

Theorem get_plugin_sound : forall fuel ca dt i ca',
  cs ca -> get_plugin HT heqb fuel h reg conf ca dt = Ok (i, ca') -> sound_inst reg conf dt i /\ cs ca'.
Proof.
  induction fuel as [|f IH]; intros ca dt i ca' Hcs H; cbn [get_plugin] in H; [discriminate|].
  destruct (cache_has HT heqb h ca dt) eqn:Hhas.
  - destruct (cache_map HT heqb h ca) as [m|] eqn:Hm; [|discriminate].
    destruct (lookup dt (requested_from_cache m)) as [j|] eqn:Hl; [|discriminate].
    inversion H; subst. split; [|exact Hcs].
    apply (requested_sound reg conf Hok m (Hcs m Hm)). now apply lookup_In.
  - destruct (lookup dt reg) as [c|] eqn:Hc; [|discriminate].
    destruct (plugin_config conf c) as [pconf|] eqn:Hp; cbn [res_bind] in H; [|discriminate].
    destruct (fold_deps HT (get_plugin HT heqb f h reg conf) (cdepends c) ca []) as [[deps ca1]|] eqn:Hd;
      cbn [res_bind fst snd] in H; [|discriminate].
    inversion H; subst. clear H.
    destruct (fold_deps_sound (get_plugin HT heqb f h reg conf) (fun ca d i ca' => IH ca d i ca') _ _ _ _ _ Hcs Hd)
      as (Hcs1 & l' & -> & HF). cbn [app] in *.
    pose proof (fresh_sound dt c pconf l' Hc Hp HF) as Hs.
    split; [exact Hs|]. apply cs_put; [exact Hcs1|].
    intros p Hp'. eapply sound_inst_provides; eauto.
Qed.

(* completeness: whenever the specification succeeds with fuel n, so does __get_plugin *)
Lemma fold_deps_complete (gp : cache_t -> Z -> res (inst * cache_t)) :
  (forall ca d i ca', cs ca -> gp ca d = Ok (i, ca') -> sound_inst reg conf d i /\ cs ca') ->
  forall ds, (forall d, In d ds -> forall ca, cs ca -> exists i ca', gp ca d = Ok (i, ca')) ->
  forall ca acc, cs ca -> exists l ca', fold_deps HT gp ds ca acc = Ok (l, ca').
Proof.
  intros Hs. induction ds as [|d ds IH]; intros Hgp ca acc Hcs; cbn [fold_deps]; [eauto|].
  destruct (Hgp d (or_introl eq_refl) ca Hcs) as (i & ca1 & E). rewrite E. cbn [res_bind fst snd].
  apply IH; [intros d' Hin; apply Hgp; now right|]. eapply Hs; eauto.
Qed.

Lemma spec_deps_ok_each sp ds l : spec_deps sp ds = Ok l -> forall d, In d ds -> exists i, sp d = Ok i.
Proof.
  revert l. induction ds as [|d ds IH]; intros l H d0 Hin; [destruct Hin|]. cbn [spec_deps] in H.
  destruct (sp d) as [i|] eqn:E; cbn [res_bind] in H; [|discriminate].
  destruct (spec_deps sp ds) as [r|] eqn:E2; cbn [res_bind] in H; [|discriminate].
  destruct Hin as [<-|Hin]; [eauto|]. eapply IH; eauto.
Qed.

Theorem get_plugin_complete : forall n dt i', spec_plugin n reg conf dt = Ok i' ->
  forall ca, cs ca -> exists i ca', get_plugin HT heqb n h reg conf ca dt = Ok (i, ca').
Proof.
  induction n as [|n IH]; intros dt i' Hs ca Hcs; [discriminate|]. cbn [get_plugin].
  destruct (cache_has HT heqb h ca dt) eqn:Hhas.
  - unfold cache_has in Hhas. destruct (cache_map HT heqb h ca) as [m|] eqn:Hm; [|discriminate].
    pose proof (requested_keys reg conf Hok dt m (Hcs m Hm) Hhas) as Hk. unfold has_key in Hk.
    destruct (lookup dt (requested_from_cache m)); [eauto|discriminate].
  - cbn [spec_plugin] in Hs. destruct (lookup dt reg) as [c|]; [|discriminate].
    destruct (plugin_config conf c) as [pconf|]; cbn [res_bind] in Hs |- *; [|discriminate].
    destruct (spec_deps (spec_plugin n reg conf) (cdepends c)) as [deps|] eqn:Hd; cbn [res_bind] in Hs; [|discriminate].
    destruct (fold_deps_complete (get_plugin HT heqb n h reg conf) (fun ca d i ca' => get_plugin_sound n ca d i ca')
                (cdepends c)) with (ca := ca) (acc := @nil inst) as (l & ca1 & E); [|exact Hcs|].
    + intros d Hin ca0 Hcs0. destruct (spec_deps_ok_each _ _ _ Hd d Hin) as (j & Hj). eapply IH; eauto.
    + rewrite E. cbn [res_bind]. eauto.
Qed.

End WithHash.
