(* C14, assembly: get_iter(superrun, target) on valid sub-runs (gaps between the sub-runs allowed), for any
   number of superrun-capable levels, with and without writing / rechunking / re-reading. *)
From SV Require Import Model.Annot Model.Superrun Proof.SuperrunKeyProof Proof.AnnotProof
     Proof.SuperrunRowsProof Proof.SuperrunExactProof Proof.SuperrunTotalProof.
From Coq Require Import Permutation Sorted.

Definition stored_of (dt k tgt : Z) (x : lc) : stored :=
  mkstored (mkchunk (la x) (le x) (lrows x) dt k (Some (lr x)) tgt) None.

(* the chunk lies inside the span that T records for its run *)
Definition covered (T : annot) (x : lc) : Prop :=
  exists S E, In (mkspan (Some (lr x)) S E) T /\ S <= la x /\ le x <= E.

(* nothing of T lies between the end of a chunk and the start of the next one *)
Fixpoint lgaps (T : annot) (e : Z) (l : list lc) : Prop :=
  match l with [] => True | x :: m => clip e (la x) T = [] /\ lgaps T (le x) m end.

Lemma last_In {A} (l : list A) d : l <> [] -> In (last l d) l.
Proof.
  induction l as [|x l IH]; intros H; [contradiction|].
  destruct l as [|y l']; [left; reflexivity|]. right. apply IH. discriminate.
Qed.
Lemma hd_In {A} (l : list A) d : l <> [] -> In (hd d l) l.
Proof. destruct l; intros H; [contradiction|left; reflexivity]. Qed.

Section Main.
  Variable T : annot.
  Variable prun : Z.
  Hypothesis HwT : wfa T.
  Hypothesis HndT : NoDup (keys T).
  Hypothesis HnoneT : has_none_key T = false.
  Hypothesis Hprun : prun < 0.
  Variables dt k tgt : Z.

  Definition lgood (x : lc) : Prop := lc_ok prun x /\ 0 <= lr x /\ covered T x.

  (* the loaders of the sub-runs chained *)
  Lemma load_stored_of x : lgood x -> load_chunk (stored_of dt k tgt x) = Ok (ord_of dt k tgt x).
  Proof.
    intros ((Hlt & Hr & c0 & Hmk) & Hpos & _).
    unfold load_chunk, stored_of. cbn [st_base st_sub crun cstart cend crows cdtype ckind ctarget].
    destruct (lr x <? 0) eqn:E; [lia|].
    unfold mk_achunk. cbn [set_subruns res_bind]. rewrite (mk_chunk_any _ _ _ _ _ _ _ _ Hmk). cbn [res_bind].
    rewrite set_superrun_none. reflexivity.
  Qed.

  Lemma mapM_load_stored L : Forall lgood L ->
    mapM load_chunk (map (stored_of dt k tgt) L) = Ok (map (ord_of dt k tgt) L).
  Proof.
    induction 1 as [|x L Hx _ IH]; [reflexivity|]. cbn [map mapM].
    rewrite (load_stored_of x Hx). cbn [res_bind]. rewrite IH. reflexivity.
  Qed.

  (* what the first superrun-capable level yields is good: the chunk [e, le x) that absorbed the gap
     [e, la x) records exactly the run of x over [la x, le x) *)
  Lemma fl_out_good lv x e : lgood x -> 0 <= e -> e <= la x -> clip e (la x) T = [] ->
    goodc T prun (l_dtype lv) (l_kind lv) (l_target lv) (fl_out prun lv (lr x) e (la x) (le x) (lrows x)).
  Proof.
    intros ((Hlt & Hr & c0 & Hmk) & Hpos & (S & E & Hin & HS & HE)) He Hle Hgap.
    assert (Hclip : clip e (le x) T = [mkspan (Some (lr x)) (la x) (le x)]).
    { rewrite (clip_gap_prefix e (la x) (le x) T Hle HwT Hgap).
      apply (clip_single T (Some (lr x)) S E); auto; lia. }
    unfold goodc, exactc, fl_out, base_ok.
    cbn [abase asub asuper cstart cend crows cdtype ckind crun ctarget]. rewrite Hclip.
    repeat split; auto; try lia; try discriminate.
    apply (mk_chunk_any _ _ _ _ _ _ _ _ (mk_chunk_widen _ _ _ _ e Hmk He Hle)).
  Qed.

  Lemma fl_outs_good lv L : forall r e,
    Forall lgood L -> 0 <= e -> lorder r e L -> lgaps T e L ->
    Forall (goodc T prun (l_dtype lv) (l_kind lv) (l_target lv)) (fl_outs prun lv e L) /\
    chain_from e (fl_outs prun lv e L).
  Proof.
    induction L as [|x L IH]; intros r e Hall He Hord Hgaps; [split; [constructor|exact I]|].
    inversion Hall as [|? ? Hx Hrest]; subst.
    cbn [lorder] in Hord. destruct Hord as (Hle & _ & Hord). cbn [lgaps] in Hgaps. destruct Hgaps as [Hgap Hgaps].
    assert (Hlt : la x < le x) by apply Hx.
    destruct (IH (lr x) (le x) Hrest ltac:(lia) Hord Hgaps) as [IH1 IH2].
    cbn [fl_outs]. split.
    - constructor; [apply fl_out_good; auto|exact IH1].
    - cbn [chain_from fl_out abase cstart cend]. split; [reflexivity|exact IH2].
  Qed.

  (* ---------------------------------------------------------------------------------------------
     continuity_check passes on a chain of good chunks (also where a chunk begins with an absorbed gap:
     its promise of continuity is False and no start is compared)
     --------------------------------------------------------------------------------------------- *)
  Definition cstate_ok (e : Z) (le : option Z) (lrun : option Z) (ls : lastsub) : Prop :=
    (le = None /\ lrun = None /\ ls = LInit) \/
    (le = Some e /\ lrun = Some prun /\ exists sp a, ls = LSome sp /\ In sp (clip a e T)).

  Lemma continuity_good d0 k0 t0 cs : forall e le lrun ls i,
    Forall (goodc T prun d0 k0 t0) cs -> chain_from e cs -> cstate_ok e le lrun ls ->
    acontinuity_from le lrun ls i cs = None.
  Proof.
    induction cs as [|c cs IH]; intros e le lrun ls i Hall Hch Hst; [reflexivity|].
    inversion Hall as [|? ? Hc Hrest]; subst. cbn [chain_from] in Hch. destruct Hch as [Hs Hch].
    destruct Hc as (Hex & Hlt & Hok & _ & _ & _ & Hne).
    pose proof (is_superrun_exact T prun Hprun c Hex) as His.
    pose proof Hex as (Hr & Hab & Hsub & Hsup).
    destruct (clip (cstart (abase c)) (cend (abase c)) T) as [|s0 r0] eqn:Eclip; [contradiction|].
    assert (Hsubs : subs_of c = s0 :: r0) by (unfold subs_of; rewrite Hsub; reflexivity).
    cbn [acontinuity_from]. rewrite His, Hr.
    assert (Hnext : acontinuity_from (Some (cend (abase c))) (Some prun)
                      (LSome (last (subs_of c) span0)) (S i) cs = None).
    { apply (IH (cend (abase c))); auto.
      right. split; [reflexivity|]. split; [reflexivity|].
      exists (last (subs_of c) span0), (cstart (abase c)). split; [reflexivity|].
      rewrite Hsubs, <- Eclip. apply last_In. rewrite Eclip. discriminate. }
    destruct Hst as [(-> & -> & ->)|(-> & -> & sp & a & -> & Hsp)].
    - cbn [opt_eqb negb]. exact Hnext.
    - rewrite opt_eqb_refl. cbn [negb].
      destruct (opt_eqb (srun (hd span0 (subs_of c))) (srun sp)) eqn:Ek; [|exact Hnext].
      unfold promised_continuity. rewrite His. cbn [res_bind negb].
      destruct ((sstart (hd span0 (subs_of c)) =? cstart (abase c)) &&
                (send (last (subs_of c) span0) =? cend (abase c))) eqn:Ep; [|exact Hnext].
      (* same run as the end of the previous chunk and the chunk starts with its first span: that span is
         the continuation of the previous chunk's last span *)
      apply opt_eqb_eq in Ek.
      assert (Hh : In (hd span0 (subs_of c)) (clip (cstart (abase c)) (cend (abase c)) T)).
      { rewrite Hsubs, Eclip. left; reflexivity. }
      apply clip_in in Hh as (t1 & Hin1 & Hk1 & Hst1 & Hen1 & Hne1).
      apply clip_in in Hsp as (t2 & Hin2 & Hk2 & Hst2 & Hen2 & Hne2).
      assert (t1 = t2) by (apply (nodup_keys_unique T); auto; congruence). subst t2.
      assert (Hq : send sp = cstart (abase c)) by lia.
      rewrite Hq, Z.eqb_refl. cbn [negb]. exact Hnext.
  Qed.

  Lemma checked_good d0 k0 t0 cs e :
    cs <> [] -> Forall (goodc T prun d0 k0 t0) cs -> chain_from e cs -> checked cs = Ok cs.
  Proof.
    intros Hne Hall Hch. unfold checked. destruct cs as [|c cs']; [contradiction|].
    unfold acontinuity_check. rewrite (continuity_good d0 k0 t0 (c :: cs') e None None LInit 0%nat); auto.
    left; auto.
  Qed.

  (* storing (without rechunking) and re-reading good chunks *)
  Lemma reload_good d0 k0 t0 cs :
    Forall (goodc T prun d0 k0 t0) cs -> mapM load_chunk (map save_chunk cs) = Ok cs.
  Proof.
    induction 1 as [|c cs Hc _ IH]; [reflexivity|]. cbn [map mapM].
    destruct Hc as (Hex & Hlt & Hok & _ & _ & _ & Hne).
    rewrite (load_save_exact T prun HwT HnoneT c Hex Hne Hok). cbn [res_bind]. rewrite IH. reflexivity.
  Qed.

  (* a stored exact chunk that can be read back at all comes back as it was *)
  Lemma load_save_exact_if c c' :
    exactc T prun c -> load_chunk (save_chunk c) = Ok c' -> c' = c.
  Proof.
    intros Hex H. pose proof Hex as (Hr & Hab & Hsub & Hsup).
    unfold load_chunk, save_chunk in H. cbn [st_base st_sub] in H. rewrite Hsub, Hr in H.
    destruct (clip (cstart (abase c)) (cend (abase c)) T) as [|x r] eqn:E; cbn [none_if_empty] in H.
    { destruct (prun <? 0) eqn:E1; [discriminate|lia]. }
    rewrite <- E in H.
    apply mk_achunk_ok in H as (Hb & Hs & Hsp & Hmk).
    assert (Hset : set_subruns true (Some (sort_by key_z (clip (cstart (abase c)) (cend (abase c)) T)))
                   = Ok (Some (clip (cstart (abase c)) (cend (abase c)) T))).
    { unfold set_subruns.
      rewrite (has_none_key_perm (clip (cstart (abase c)) (cend (abase c)) T) _
                 (sort_by_perm key_z (clip (cstart (abase c)) (cend (abase c)) T))), (has_none_key_clip T HnoneT).
      rewrite (sort_spans_of_perm T (clip (cstart (abase c)) (cend (abase c)) T)); [|apply clip_wfa, HwT|apply sort_by_perm].
      rewrite overlapb_wfa by (apply clip_wfa, HwT). reflexivity. }
    rewrite Hset in Hs. inversion Hs as [Hs']. rewrite set_superrun_none in Hsp. inversion Hsp as [Hsp'].
    destruct c as [b sub sup]. destruct c' as [b' sub' sup']. cbn [abase asub asuper] in *.
    subst sub sup sub' sup'. rewrite E. cbn [none_if_empty]. f_equal.
    rewrite Hb. destruct b. cbn in *. subst. reflexivity.
  Qed.

  Lemma reload_exact_if cs : forall cs',
    Forall (exactc T prun) cs -> mapM load_chunk (map save_chunk cs) = Ok cs' -> cs' = cs.
  Proof.
    induction cs as [|c cs IH]; intros cs' Hall H; cbn [map mapM] in H; [inversion H; reflexivity|].
    inversion Hall as [|? ? Hc Hrest]; subst.
    bind_inv H. bind_inv H. inversion H; subst.
    apply (load_save_exact_if c x Hc) in Hx. subst x. f_equal. apply IH; auto.
  Qed.

  (* ---------------------------------------------------------------------------------------------
     the levels above the first one
     --------------------------------------------------------------------------------------------- *)
  Definition saved_exact (sv : list stored) : Prop :=
    exists cs, sv = map save_chunk cs /\ Forall (exactc T prun) cs.

  Lemma goodc_exact d0 k0 t0 cs : Forall (goodc T prun d0 k0 t0) cs -> Forall (exactc T prun) cs.
  Proof. intros H. eapply Forall_impl; [|exact H]. intros c Hc. apply Hc. Qed.

  Lemma save_stream_exact rechunk cs e sv d0 k0 t0 :
    Forall (goodc T prun d0 k0 t0) cs -> chain_from e cs ->
    save_stream rechunk prun cs = Ok sv -> saved_exact sv.
  Proof.
    intros Hall Hch H. unfold save_stream in H. bind_inv H. inversion H; subst.
    exists x. split; [reflexivity|].
    destruct rechunk; [|inversion Hx; subst; apply (goodc_exact d0 k0 t0), Hall].
    apply (arechunk_exact T prun HwT HndT HnoneT (prun <? 0) cs None e x) in Hx; [tauto|exact I| |exact Hch].
    apply (goodc_exact d0 k0 t0), Hall.
  Qed.

  Definition out_view (c : achunk) := (cstart (abase c), cend (abase c), crows (abase c), asub c).

  (* whatever the rechunk settings: every level yields good chunks (the same boundaries, rows and
     annotations as its input); whatever gets stored is exact *)
  Lemma run_levels_good levels : forall d0 k0 t0 cs e write out savs,
    cs <> [] -> Forall (goodc T prun d0 k0 t0) cs -> chain_from e cs ->
    run_levels prun write levels cs = Ok (out, savs) ->
    (exists d1 k1 t1, Forall (goodc T prun d1 k1 t1) out) /\ chain_from e out /\ out <> [] /\
    map out_view out = map out_view cs /\
    (write = true -> Forall saved_exact savs).
  Proof.
    induction levels as [|lv more IH]; intros d0 k0 t0 cs e write out savs Hne Hall Hch H; cbn [run_levels] in H.
    - inversion H; subst. repeat split; auto. exists d0, k0, t0. exact Hall.
    - destruct (plugin_iter_good T prun HwT HndT HnoneT Hprun d0 k0 t0 lv cs e Hne Hall Hch) as (Hpi & Hg & Hc).
      rewrite Hpi in H. cbn [res_bind] in H. bind_inv H. bind_inv H. destruct x0 as [o sv]. inversion H; subst.
      assert (Hne' : map (relevel prun lv) cs <> []) by (destruct cs; [contradiction|discriminate]).
      destruct (IH _ _ _ _ e write out sv Hne' Hg Hc Hx0) as (Hgo & Hco & Hno & Hmap & Hsv).
      repeat split; auto.
      + rewrite Hmap, map_map. apply map_ext. intros c. reflexivity.
      + intros Hw. subst write. constructor; [|auto].
        eapply save_stream_exact; eauto.
  Qed.

  (* ... and without rechunking nothing can fail *)
  Lemma run_levels_total levels : forall d0 k0 t0 cs e write,
    cs <> [] -> Forall (goodc T prun d0 k0 t0) cs -> chain_from e cs ->
    (write = true -> Forall (fun lv => l_rechunk lv = false) levels) ->
    exists out savs, run_levels prun write levels cs = Ok (out, savs) /\
                     (write = true -> Forall (fun sv => exists cs', sv = map save_chunk cs' /\
                                                         exists d1 k1 t1, Forall (goodc T prun d1 k1 t1) cs' /\ chain_from e cs' /\ cs' <> []) savs).
  Proof.
    induction levels as [|lv more IH]; intros d0 k0 t0 cs e write Hne Hall Hch Hnr; cbn [run_levels].
    - exists cs, []. split; [reflexivity|]. intros _. constructor.
    - destruct (plugin_iter_good T prun HwT HndT HnoneT Hprun d0 k0 t0 lv cs e Hne Hall Hch) as (Hpi & Hg & Hc).
      rewrite Hpi. cbn [res_bind].
      assert (Hne' : map (relevel prun lv) cs <> []) by (destruct cs; [contradiction|discriminate]).
      assert (Hnr' : write = true -> Forall (fun lv => l_rechunk lv = false) more).
      { intros Hw. specialize (Hnr Hw). inversion Hnr; auto. }
      destruct (IH _ _ _ _ e write Hne' Hg Hc Hnr') as (out & savs & Hrl & Hsv).
      destruct write.
      + assert (Hrc : l_rechunk lv = false) by (specialize (Hnr eq_refl); inversion Hnr; auto).
        unfold save_stream. rewrite Hrc. cbn [res_bind]. rewrite Hrl. cbn [res_bind].
        exists out, (map save_chunk (map (relevel prun lv) cs) :: savs). split; [reflexivity|].
        intros _. constructor; [|apply Hsv; reflexivity].
        exists (map (relevel prun lv) cs). split; [reflexivity|].
        exists (l_dtype lv), (l_kind lv), (l_target lv). auto.
      + cbn [res_bind]. rewrite Hrl. cbn [res_bind]. exists out, ([] :: savs). split; [reflexivity|]. discriminate.
  Qed.

  (* ---------------------------------------------------------------------------------------------
     main theorems
     --------------------------------------------------------------------------------------------- *)
  Variable L : list lc.               (* the stored chunks of the sub-runs, chained in spec order *)
  Variable subruns : list (list stored).
  Hypothesis HL : concat subruns = map (stored_of dt k tgt) L.
  Hypothesis HLne : L <> [].
  Hypothesis HLgood : Forall lgood L.
  Let e0 := la (hd (mklc 0 0 0 []) L).
  Hypothesis HLorder : lorder 0 e0 L.
  Hypothesis HLgaps : lgaps T e0 L.

  Lemma first_level lv :
    chained_loader subruns = Ok (map (ord_of dt k tgt) L) /\
    plugin_iter true prun lv (map (ord_of dt k tgt) L) = Ok (fl_outs prun lv e0 L) /\
    Forall (goodc T prun (l_dtype lv) (l_kind lv) (l_target lv)) (fl_outs prun lv e0 L) /\
    chain_from e0 (fl_outs prun lv e0 L) /\
    fl_outs prun lv e0 L <> [].
  Proof.
    split; [unfold chained_loader; rewrite HL; apply mapM_load_stored, HLgood|].
    subst e0. destruct L as [|x L']; [contradiction|]. cbn [hd] in *.
    inversion HLgood as [|? ? Hx Hrest]; subst.
    cbn [lorder] in HLorder. destruct HLorder as (_ & _ & Hord).
    assert (H0 : 0 <= la x).
    { destruct Hx as ((_ & _ & c0 & Hmk) & _). apply mk_chunk_range in Hmk. lia. }
    split.
    - rewrite (fl_plugin_iter prun Hprun dt k tgt lv x L'); [reflexivity|apply Hx| |exact Hord].
      eapply Forall_impl; [|exact Hrest]. intros y Hy. apply Hy.
    - destruct (fl_outs_good lv (x :: L') 0 (la x) HLgood H0) as [Hg Hc].
      + cbn [lorder]. repeat split; [lia|exact Hord].
      + exact HLgaps.
      + split; [exact Hg|]. split; [exact Hc|discriminate].
  Qed.

  (* superrun_annotations_exact: every chunk yielded records exactly the runs and spans it covers --
     whatever the gaps between the sub-runs, the depth, whether or not anything is written, rechunked across
     sub-run borders and re-read *)
  Theorem superrun_exact levels write out savs :
    levels <> [] ->
    superrun_get prun write levels subruns = Ok (out, savs) ->
    Forall (exactc T prun) out /\
    map out_view out = map out_view (fl_outs prun (hd (mklevel 0 0 false 0) levels) e0 L) /\
    (write = true ->
     Forall (fun sv => saved_exact sv /\ forall cs', superrun_reload sv = Ok cs' -> Forall (exactc T prun) cs') savs).
  Proof.
    intros Hlv H. destruct levels as [|lv more]; [contradiction|]. cbn [hd].
    destruct (first_level lv) as (Hld & Hpi & Hg & Hch & Hne).
    unfold superrun_get in H. rewrite Hld in H. cbn [res_bind run_levels] in H.
    rewrite Hpi in H. cbn [res_bind] in H.
    apply bind_ok in H as ([o1 s1] & Hlevels & H).
    apply bind_ok in H as (o2 & Hchk & H). inversion H; subst o2 s1. clear H.
    apply checked_same in Hchk. subst o1.
    apply bind_ok in Hlevels as (saved & Hsave & Hlevels).
    apply bind_ok in Hlevels as ([o sv] & Hmore & Hlevels). inversion Hlevels; subst o savs. clear Hlevels.
    destruct (run_levels_good more _ _ _ _ _ write out sv Hne Hg Hch Hmore) as ((d1 & k1 & t1 & Hgo) & Hco & Hno & Hmap & Hsv).
    split; [apply (goodc_exact d1 k1 t1), Hgo|]. split; [exact Hmap|].
    intros Hw. subst write.
    assert (Hall : Forall saved_exact (saved :: sv)).
    { constructor; [|apply Hsv; reflexivity].
      apply (save_stream_exact (l_rechunk lv) (fl_outs prun lv e0 L) _ saved _ _ _ Hg Hch Hsave). }
    eapply Forall_impl; [|exact Hall]. intros s (cs & -> & Hcs). split; [exists cs; auto|].
    intros cs' Hr. unfold superrun_reload in Hr.
    apply bind_ok in Hr as (cs2 & Hload & Hr). apply checked_same in Hr. subst cs2.
    apply (reload_exact_if cs cs' Hcs) in Hload. subst. exact Hcs.
  Qed.

  (* superrun_rows, totality: without rechunking nothing can fail -- get_iter returns the sub-runs' rows in
     the order of the spec, every stored level can be re-read and gives the same chunks again *)
  Theorem superrun_total levels write :
    levels <> [] -> (write = true -> Forall (fun lv => l_rechunk lv = false) levels) ->
    exists out savs,
      superrun_get prun write levels subruns = Ok (out, savs) /\
      rows_of_stream out = flat_map lrows L /\
      (write = true -> Forall (fun sv => exists cs, sv = map save_chunk cs /\ superrun_reload sv = Ok cs) savs).
  Proof.
    intros Hlv Hnr. destruct levels as [|lv more]; [contradiction|].
    destruct (first_level lv) as (Hld & Hpi & Hg & Hch & Hne).
    assert (Hnr' : write = true -> Forall (fun lv => l_rechunk lv = false) more).
    { intros Hw. specialize (Hnr Hw). inversion Hnr; auto. }
    destruct (run_levels_total more _ _ _ _ _ write Hne Hg Hch Hnr') as (out & savs & Hrl & Hsv).
    pose proof (run_levels_good more _ _ _ _ _ write out savs Hne Hg Hch Hrl) as ((d1 & k1 & t1 & Hgo) & Hco & Hno & _ & _).
    assert (Hreload : forall cs' d k0 t0 e, Forall (goodc T prun d k0 t0) cs' -> chain_from e cs' -> cs' <> [] ->
                                     superrun_reload (map save_chunk cs') = Ok cs').
    { intros cs' d k0 t0 e Hgc Hcc Hnn. unfold superrun_reload. rewrite (reload_good d k0 t0 cs' Hgc). cbn [res_bind].
      apply (checked_good d k0 t0 cs' e); auto. }
    assert (Hget : exists savs', superrun_get prun write (lv :: more) subruns = Ok (out, savs') /\
              (write = true -> Forall (fun sv => exists cs, sv = map save_chunk cs /\ superrun_reload sv = Ok cs) savs')).
    { unfold superrun_get. rewrite Hld. cbn [res_bind run_levels]. rewrite Hpi. cbn [res_bind].
      destruct write.
      - assert (Hrc : l_rechunk lv = false) by (specialize (Hnr eq_refl); inversion Hnr; auto).
        unfold save_stream. rewrite Hrc. cbn [res_bind]. rewrite Hrl. cbn [res_bind].
        rewrite (checked_good d1 k1 t1 out _ Hno Hgo Hco). cbn [res_bind].
        eexists. split; [reflexivity|]. intros _. constructor.
        + eexists. split; [reflexivity|]. eapply Hreload; eauto.
        + specialize (Hsv eq_refl). eapply Forall_impl; [|exact Hsv].
          intros s (cs' & -> & d & k0 & t0 & Hgc & Hcc & Hnn). exists cs'. split; [reflexivity|]. eapply Hreload; eauto.
      - cbn [res_bind]. rewrite Hrl. cbn [res_bind].
        rewrite (checked_good d1 k1 t1 out _ Hno Hgo Hco). cbn [res_bind].
        eexists. split; [reflexivity|]. discriminate. }
    destruct Hget as (savs' & Hget & Hsv').
    exists out, savs'. split; [exact Hget|]. split; [|exact Hsv'].
    apply superrun_get_rows in Hget as [Hrows _]. rewrite Hrows.
    assert (Hfm : flat_map stored_rows subruns = stored_rows (concat subruns)) by (symmetry; apply stored_rows_concat).
    rewrite Hfm, HL. clear. induction L as [|x L' IH]; [reflexivity|].
    cbn [map]. unfold stored_rows in *. cbn [flat_map stored_of st_base crows]. now rewrite IH.
  Qed.
End Main.
