(* Concrete runs of the network model: non-vacuity examples for the C06 theorems and the witnesses of the
   three defects F1-F3 of the code before the repairs (fx = false; each schedule below is replayed on the real
   ThreadedMailboxProcessor by harness/props/c06.py: corpus/C06/F*.json). *)
From SV Require Import Base.Prelude Model.Mailbox Model.MailboxFail Model.C06Run Model.C06Nets Spec.MailboxFailSpec.
Local Open Scope nat_scope.

Definition boom : nat := 11.
Definition cexc : nat := 9.

Lemma quiescent_dec nt st : (forallb (fun t => negb (nenabled nt st t)) (seq 0 (length (ths st))) = true) -> quiescent nt st.
Proof.
  intros H t. destruct (Nat.lt_ge_cases t (length (ths st))) as [Hlt | Hge].
  - rewrite forallb_forall in H. specialize (H t). rewrite in_seq in H.
    destruct (nenabled nt st t); [|reflexivity]. discriminate H. lia.
  - unfold nenabled. apply nth_error_None in Hge. rewrite Hge. reflexivity.
Qed.

(* ---------- a chain of three stages, savers on mailbox 0 and on the target ---------- *)
Definition ch3 : chain_spec := mkChain 2 [1; 2; 1] [1; 0; 1] false false.
Example ch3_valid : valid_chain ch3.
Proof.
  split; [cbn; lia | split; [reflexivity |]].
  intros c Hc. cbn in Hc. destruct Hc as [<-|[<-|[<-|[]]]]; lia.
Qed.

(* threads: 0,1,2 stages; 3 saver of s0; 4 saver of s2; 5 the caller *)
Example ch3_main : chain_main ch3 = 5. Proof. reflexivity. Qed.

(* no failure: the round-robin schedule ends with everything delivered and saved *)
Definition rr (k n : nat) : list nat := concat (repeat (seq 0 n) k).
Fixpoint run_some (nt : net) (st : nstate) (fuel : nat) (order : list nat) : nstate :=
  match fuel with
  | O => st
  | S f =>
      match find (fun t => nenabled nt st t) order with
      | Some t => match nstep nt st t with Some st' => run_some nt st' f order | None => st end
      | None => st
      end
  end.
Definition ch3_final := run_some (chain_net ch3 true None None) (chain_init ch3 true None None) 200 (seq 0 6).
Example ch3_no_failure :
  all_terminal ch3_final = true /\ main_outcome ch3_final 5 = Some (OOk [0; 1]%Z) /\
  map t_rows (filter is_saver (ths ch3_final)) = [[0; 1]%Z; [0; 1]%Z].
Proof. vm_compute. repeat split. Qed.

(* stage 1 fails at chunk 1 *)
Definition ch3_fnet := chain_net ch3 true (Some (1, 1, boom)) None.
Definition ch3_ffinal := run_some ch3_fnet (chain_init ch3 true (Some (1, 1, boom)) None) 200 (rev (seq 0 6)).
Example ch3_failure :
  all_terminal ch3_ffinal = true /\ main_outcome ch3_ffinal 5 = Some (OErr (EOrig boom)) /\
  map (fun t => (t_closed t, t_excrec t, length (t_rows t))) (filter is_saver (ths ch3_ffinal))
  = [(true, true, 2); (true, true, 1)].
Proof. vm_compute. repeat split. Qed.

(* ---------- F1: the caller closes ThreadedMailboxProcessor.iter() directly ---------- *)
Definition f1_spec : chain_spec := mkChain 2 [1; 1] [0; 0] false false.
Definition f1_net := chain_net f1_spec false None (Some (0, true, cexc)).
Definition f1_sched : list nat := [0; 1; 1; 0; 2; 1; 1; 1; 0; 1; 1].
Example f1_direct_close_hangs :
  exists st, nrun f1_net (chain_init f1_spec false None (Some (0, true, cexc))) f1_sched = Some st /\
             deadlocked f1_net st /\ main_outcome st 2 = Some (OErr (EOrig C_TYPEERR)).
Proof.
  eexists. split; [vm_compute; reflexivity|]. split; [split|].
  - apply quiescent_dec. vm_compute. reflexivity.
  - vm_compute. reflexivity.
  - vm_compute. reflexivity.
Qed.

(* ---------- F2: the caller gets StopIteration instead of the injected exception ---------- *)
Definition f2_spec : fan_spec := mkFan 2 4 false false 0 1 false.
Definition f2_net := fan_net f2_spec false (Some (3, 0, boom)) None.
Definition f2_sched : list nat := [0; 0; 0; 1; 1; 1; 1; 2; 2; 2; 2; 3; 3; 2; 2; 2; 2; 4; 4; 4; 4; 4].
Example f2_wrong_exception :
  exists st, nrun f2_net (fan_init f2_spec false (Some (3, 0, boom)) None) f2_sched = Some st /\
             quiescent f2_net st /\ all_terminal st = true /\
             main_outcome st (fan_main f2_spec) = Some (OErr (EOrig C_STOPITER)).
Proof.
  eexists. split; [vm_compute; reflexivity|]. split; [|split].
  - apply quiescent_dec. vm_compute. reflexivity.
  - vm_compute. reflexivity.
  - vm_compute. reflexivity.
Qed.

(* ---------- F3: the pipeline hangs ---------- *)
Definition f3_spec : fan_spec := mkFan 1 2 false true 0 1 false.
Definition f3_net := fan_net f3_spec false (Some (3, 0, boom)) None.
Definition f3_sched : list nat := [0; 0; 1; 1; 1; 2; 2; 2; 3; 3; 2; 4; 4].
Example f3_hang :
  exists st, nrun f3_net (fan_init f3_spec false (Some (3, 0, boom)) None) f3_sched = Some st /\
             deadlocked f3_net st /\ main_outcome st (fan_main f3_spec) = None.
Proof.
  eexists. split; [vm_compute; reflexivity|]. split; [split|].
  - apply quiescent_dec. vm_compute. reflexivity.
  - vm_compute. reflexivity.
  - vm_compute. reflexivity.
Qed.

(* ---------- a diamond (a general DAG): the premises of the shutdown theorem hold, and the caller notices ---------- *)
(* s -> a, s -> b, c(a, b) = target; threads 0 s, 1 a, 2 b, 3 c, 4 the caller; stage b fails at chunk 1 *)
Definition dia_boxes : list mbox :=
  [mk_mbox 1 false [true; true]; mk_mbox 1 false [true]; mk_mbox 1 false [true]; mk_mbox 1 false [true]].
Definition dia_threads : list thread :=
  [mk_thread (KStage 2 0) []; mk_thread (KStage 2 1) [(0, 0)]; mk_thread (KStage 2 2) [(0, 1)];
   mk_thread (KStage 2 3) [(1, 0); (2, 0)]; mk_thread (KMain false) [(3, 0)]].
Definition dia_net : net := mkNet (Some (2, 1, boom)) None [0; 1; 2; 3] [0; 1; 2; 3] [] true true true.
Example dia_premises :
  cover_b dia_net (mkSt dia_boxes dia_threads) 4 = true /\ init_ok_b dia_boxes dia_threads = true.
Proof. vm_compute. split; reflexivity. Qed.

Fixpoint run_sched (nt : net) (st : nstate) (fuel : nat) (order : list nat) (acc : list nat) : nstate * list nat :=
  match fuel with
  | O => (st, rev acc)
  | S f =>
      match find (fun t => nenabled nt st t) order with
      | Some t => match nstep nt st t with Some st' => run_sched nt st' f order (t :: acc) | None => (st, rev acc) end
      | None => (st, rev acc)
      end
  end.
Definition dia_run := run_sched dia_net (ninit dia_net dia_boxes dia_threads) 200 [4; 3; 2; 1; 0] [].
Example dia_noticed_and_shut_down :
  nrun dia_net (ninit dia_net dia_boxes dia_threads) (snd dia_run) = Some (fst dia_run) /\
  main_outcome (fst dia_run) 4 = Some (OErr (EOrig boom)) /\ all_terminal (fst dia_run) = true /\
  quiescent dia_net (fst dia_run).
Proof.
  split; [vm_compute; reflexivity|]. split; [vm_compute; reflexivity|]. split; [vm_compute; reflexivity|].
  apply quiescent_dec. vm_compute. reflexivity.
Qed.
