(* Property C16: the hypotheses of the theorems are satisfiable — saving a valid stream gives `good` stored
   data for any codec; the tagging codec of Model/C16Run.v is a codec; the harness plugin's computation is
   chunk-local and commutes with concatenation; concrete instances evaluated by vm_compute. *)
From SV Require Import Model.Rows Model.SplitArray Model.Chunk Model.Rechunker Model.CopyRechunk Model.C16Run
     Proof.RowsFacts Proof.ChunkProof Proof.RechunkerProof Proof.RechunkerStrong
     Proof.CopyRechunkProof Proof.OnLoadProof Proof.PerChunkProof Proof.KeyTagProof.

Section SaveGood.
Context {bytes : Type} (enc : Z -> list row -> bytes) (dec : Z -> bytes -> option (list row)).
Hypothesis codec : forall k rs, dec k (enc k rs) = Some rs.

(* what a saver leaves for a valid stream is `good` (with or without rechunking) *)
Lemma save_good (md : stored bytes) cs rechunk :
  valid_stream cs -> 0 < md_target md ->
  exists s' cs', save_stream enc md cs rechunk = Ok s' /\ good dec s' cs' /\ meta_consistent dec s' /\
    flat_map crows cs' = flat_map crows cs /\ md_start s' = stream_start cs /\ md_end s' = stream_end cs.
Proof.
  intros HV Ht. destruct (valid_vstream cs HV) as (dt & run & V).
  destruct (save_chunks_ok _ _ _ _ _ rechunk V) as (outs & E & One & OW & OR & OC & OM & _ & _).
  destruct (closed_consistent enc dec codec md outs _ _ OW One OC) as (MC & SA & SB & L).
  unfold save_stream. rewrite E. cbn [res_bind]. eexists. exists (map (relabel md None) outs).
  split; [reflexivity|]. split; [|split; [exact MC|split; [|auto]]].
  - split; [reflexivity|]. split; [exact L|].
    assert (V' : vstream (md_dtype md) run (stream_start cs) (map (relabel md None) outs) (stream_end cs)).
    { split; [destruct outs; [congruence|discriminate]|]. split; [apply Forall_wf_map_same; [apply relabel_same|exact OW]|].
      split.
      - apply Forall_map. eapply Forall_impl; [|exact OM]. cbn. intros c [_ ?]. auto.
      - apply chain_map_same; [intros; cbn; auto|exact OC]. }
    apply vstream_valid in V'. tauto.
  - rewrite flat_map_rows_map_same by reflexivity. exact OR.
Qed.
End SaveGood.

(* "replace = false leaves the source intact": destination different from the source *)
Lemma rechunker_source_intact {bytes : Type} (enc : Z -> list row -> bytes) (dec : Z -> bytes -> option (list row)) :
  (forall k rs, dec k (enc k rs) = Some rs) ->
  forall (fs : fsys bytes) src dst tmp comp tgt rechunk s cs,
  src <> dst -> src <> tmp -> dst <> tmp -> lookup src fs = Some s -> good dec s cs ->
  (forall t, tgt = Some t -> 0 < t) ->
  Forall (fun fs' => lookup src fs' = Some s) (fst (rechunker_run enc dec fs src dst tmp false comp tgt rechunk)).
Proof.
  intros codec fs src dst tmp comp tgt rechunk s cs H1 H2 H3 Hl G Ht.
  destruct (rechunker_preserves enc dec codec fs src dst tmp false comp tgt rechunk s cs H1 H2 H3 Hl G Ht)
    as (tr & s' & cs' & E & _ & _ & _ & Hf & _).
  rewrite E. cbn [fst]. apply Hf. reflexivity.
Qed.

(* ... and for every destination, now that rechunker() refuses a destination that is the source itself *)
Lemma rechunker_source_intact_full {bytes : Type} (enc : Z -> list row -> bytes) (dec : Z -> bytes -> option (list row)) :
  (forall k rs, dec k (enc k rs) = Some rs) ->
  forall (fs : fsys bytes) src dst tmp comp tgt rechunk s cs,
  src <> tmp -> dst <> tmp -> lookup src fs = Some s -> good dec s cs ->
  (forall t, tgt = Some t -> 0 < t) ->
  Forall (fun fs' => lookup src fs' = Some s) (fst (rechunker_run enc dec fs src dst tmp false comp tgt rechunk)).
Proof.
  intros codec fs src dst tmp comp tgt rechunk s cs H2 H3 Hl G Ht.
  destruct (Z.eq_dec src dst) as [->|Hne].
  - unfold rechunker_run. rewrite Hl, Z.eqb_refl. constructor.
  - eapply rechunker_source_intact; eauto.
Qed.

(* the proved part of "ordinary key only if all chunks took part": groupings into consecutive jobs *)
Lemma merge_tag_complete_groupings ns :
  Forall (fun n => (0 < n)%nat) ns -> ns <> [] ->
  merge_tag (list_sum ns) (groups_of 0 ns) = Ok None /\
  forall i, (i < list_sum ns)%nat -> In i (concat (groups_of 0 ns)).
Proof.
  intros Hp Hne. split; [apply merge_tag_all; auto|]. intros i Hi. rewrite concat_groups. apply in_seq. lia.
Qed.

(* staged merges: a block of consecutive jobs (chunks a .. a + sum ns - 1) is stored under the ordinary key
   only if it is the whole dependency; every proper block gets a tagged key *)
Lemma fold_min_ge d : forall l, Forall (fun x => (d <= x)%nat) l -> fold_right Nat.min d l = d.
Proof. induction l as [|x l IH]; intros H; [reflexivity|]. inversion H; subst. cbn. rewrite IH by auto. lia. Qed.

Lemma list_min_seq a k : list_min (seq a (S k)) = a.
Proof.
  unfold list_min. cbn [seq hd fold_right]. rewrite fold_min_ge; [lia|].
  apply Forall_forall. intros x Hx. apply in_seq in Hx. lia.
Qed.

Lemma merge_tag_block_plain_only_if_full ndep a ns :
  Forall (fun n => (0 < n)%nat) ns -> ns <> [] -> (a + list_sum ns <= ndep)%nat ->
  merge_tag ndep (groups_of a ns) = Ok None -> a = 0%nat /\ list_sum ns = ndep.
Proof.
  intros Hp Hne Hle. unfold merge_tag. rewrite concat_groups, nodupb_seq. cbn [negb].
  destruct ns as [|n ns]; [congruence|]. inversion Hp; subst.
  destruct (list_sum (n :: ns)) as [|k] eqn:E.
  { change (list_sum (n :: ns)) with (n + list_sum ns)%nat in E. lia. }
  change (seq a (S k)) with (a :: seq (S a) k) at 1. cbv iota.
  rewrite list_max_seq, list_min_seq.
  destruct (Nat.eqb a 0) eqn:E1; destruct (Nat.eqb (a + k) (ndep - 1)) eqn:E2; cbn [andb]; try discriminate.
  intros _. apply Nat.eqb_eq in E1. apply Nat.eqb_eq in E2. lia.
Qed.

Lemma tcodec : forall k rs, tdec k (tenc k rs) = Some rs.
Proof. intros k rs. unfold tdec, tenc. cbn. rewrite Z.eqb_refl. reflexivity. Qed.

(* ------------------------------------------------------------------ the harness plugin *)
Lemma sorted_filter p : forall rs, sorted rs -> sorted (filter p rs).
Proof.
  induction rs as [|a rs IH]; cbn [filter sorted]; [auto|]. intros [H1 H2]. destruct (p a); [|auto].
  cbn [sorted]. split; [|auto]. apply Forall_forall. intros q Hq. apply filter_In in Hq as [Hq _].
  rewrite Forall_forall in H1. auto.
Qed.

Lemma sorted_map g : (forall q, rt (g q) = rt q) -> forall rs, sorted rs -> sorted (map g rs).
Proof.
  intros Hg. induction rs as [|a rs IH]; cbn [map sorted]; [auto|]. intros [H1 H2]. split; [|auto].
  apply Forall_map. eapply Forall_impl; [|exact H1]. cbn. intros q. rewrite !Hg. auto.
Qed.

Lemma c16_f_local m r : forall a b rows,
  sorted rows -> Forall (fun q => a <= rt q /\ rt q <= re q /\ re q <= b) rows ->
  sorted (c16_f m r rows) /\ Forall (fun q => a <= rt q /\ rt q <= re q /\ re q <= b) (c16_f m r rows).
Proof.
  intros a b rows Hs HF. unfold c16_f. split.
  - apply sorted_map; [reflexivity|]. apply sorted_filter. exact Hs.
  - apply Forall_map. apply Forall_forall. intros q Hq. apply filter_In in Hq as [Hq _].
    rewrite Forall_forall in HF. exact (HF q Hq).
Qed.

Lemma c16_f_app m r x y : c16_f m r (x ++ y) = c16_f m r x ++ c16_f m r y.
Proof. unfold c16_f. rewrite filter_app, map_app. reflexivity. Qed.

(* ------------------------------------------------------------------ concrete instances *)
Definition ex_rows : list row := [mkrow 0 1 0 0; mkrow 2 3 1 0; mkrow 5000 5001 2 0; mkrow 5002 5003 3 0].
Definition ex_layout : list chunk :=
  [mkchunk 0 3 (firstn 2 ex_rows) 1 1 (Some 7) 1; mkchunk 3 6000 (skipn 2 ex_rows) 1 1 (Some 7) 1].
Definition ex_store : tstored := c16_store_of 1 1 0 1 ex_layout.

Example ex_layout_valid : valid_stream ex_layout.
Proof. cbn. repeat split; try lia; repeat constructor; cbn; try lia. Qed.

Example ex_store_good : good tdec ex_store ex_layout.
Proof. split; [reflexivity|]. split; [vm_compute; reflexivity|exact ex_layout_valid]. Qed.

(* copy with rechunking to one row per chunk: the single eligible gap is used, the rows are the same *)
Example ex_copy :
  let '(tr, r) := c16_copy ex_store 0 (Some 2) true 1 in
  r = Ok tt /\
  match lookup P_DST (last tr []) with
  | Some s' => option_map (map (fun c => (cstart c, cend c, map rid (crows c)))) (opt_of_res (c16_load s'))
               = Some [(0, 4500, [0; 1]); (4500, 6000, [2; 3])] /\ md_comp s' = 2
  | None => False
  end /\
  Forall (fun fs => lookup P_SRC fs = Some ex_store) tr.
Proof. vm_compute. repeat split; repeat constructor. Qed.

(* the stand-alone rechunker with replace: the source path goes old ... old, absent, new *)
Example ex_rechunker_replace :
  let '(tr, r) := c16_rechunker ex_store 0 true None (Some 1) true in
  r = Ok tt /\
  map (fun fs => match lookup P_SRC fs with None => 0 | Some s => if is_valid s then Z.of_nat (length (md_chunks s)) else -1 end) tr
  = [2; 2; 2; 2; 2; 2; 2; 0; 2].
Proof. vm_compute. split; reflexivity. Qed.

(* per-chunk jobs {0}, {1} and their merge against the directly made data *)
Example ex_perchunk :
  let md_t := c16_template 2 2 1 2 in
  let '(jobs, tag, merged, direct) := c16_perchunk 2 0 ex_store [[0%nat]; [1%nat]] md_t true true 3 in
  tag = Ok None /\
  option_map (fun s => option_map (flat_map (fun c => map rid (crows c))) (opt_of_res (c16_load s))) (opt_of_res merged)
  = Some (Some [1; 3]) /\
  option_map (fun s => option_map (flat_map (fun c => map rid (crows c))) (opt_of_res (c16_load s))) (opt_of_res direct)
  = Some (Some [1; 3]).
Proof. vm_compute. repeat split; reflexivity. Qed.

(* ------------------------------------------------------------------ what the faithful model refutes *)
(* (1) pinned: rechunker() before the repair (= rechunker_unguarded) with a dest_directory that resolves to
   the source directory itself (its parent or the directory), replace = false: FileSaver.__init__ removes
   the "destination" before the lazy loader has read anything; the call fails ("has no chunks", read from
   the fresh temp directory's metadata) and the source path is left holding a directory marked with the
   exception.  The repaired rechunker_run refuses with E_SAME_DIR before anything is removed. *)
Lemma rechunker_same_dir_witness :
  exists (fs : fsys tbytes) src tmp s cs,
    src <> tmp /\ lookup src fs = Some s /\ good tdec s cs /\
    let '(tr, r) := rechunker_unguarded tenc tdec fs src src tmp false None None true in
    r = Err E_NO_CHUNKS /\ visible (last tr fs) src = false /\
    ~ Forall (fun fs' => lookup src fs' = Some s) tr.
Proof.
  exists [(P_SRC, ex_store)], P_SRC, P_TMP, ex_store, ex_layout.
  split; [discriminate|]. split; [reflexivity|]. split; [exact ex_store_good|].
  vm_compute. split; [reflexivity|]. split; [reflexivity|]. intros H. inversion H as [|? ? H1 _]. discriminate.
Qed.

Example ex_same_dir_refused :
  rechunker_run tenc tdec [(P_SRC, ex_store)] P_SRC P_SRC P_TMP false None None true = ([], Err E_SAME_DIR).
Proof. reflexivity. Qed.

(* (2) merge_per_chunk_storage decides "these are all the chunks" by min = 0 and max = last: groups with a
   hole pass, the merged data goes under the ordinary key and lacks the rows of the missing chunk *)
Definition ex_rows3 : list chunk :=
  [mkchunk 0 10 [mkrow 1 2 0 0] 1 1 (Some 7) 4; mkchunk 10 20 [mkrow 11 12 1 0] 1 1 (Some 7) 4;
   mkchunk 20 30 [mkrow 21 22 2 0] 1 1 (Some 7) 4].

Lemma merge_hole_witness :
  exists ndep groups i, merge_tag ndep groups = Ok None /\ (i < ndep)%nat /\ ~ In i (concat groups).
Proof.
  exists 3%nat, [[0%nat]; [2%nat]], 1%nat. split; [reflexivity|]. split; [lia|].
  cbn. intros [H|[H|[]]]; discriminate.
Qed.

Example ex_merge_hole_rows :
  let dep := c16_store_of 1 1 0 4 ex_rows3 in
  let md_t := c16_template 2 2 0 4 in
  let '(jobs, tag, merged, direct) := c16_perchunk 0 0 dep [[0%nat]; [2%nat]] md_t true true 4 in
  tag = Ok None /\
  option_map (fun s => option_map (flat_map (fun c => map rid (crows c))) (opt_of_res (c16_load s))) (opt_of_res merged)
  = Some (Some [0; 2]) /\
  option_map (fun s => option_map (flat_map (fun c => map rid (crows c))) (opt_of_res (c16_load s))) (opt_of_res direct)
  = Some (Some [0; 1; 2]).
Proof. vm_compute. repeat split; reflexivity. Qed.

(* the tag changes the serialised lineage *)
Example ex_tag_changes_serialisation :
  ser (lineage_tree [] [] 1 2 3 [] [] 9 (Some [0%nat; 1%nat])) <> ser (lineage_tree [] [] 1 2 3 [] [] 9 None) /\
  ser (lineage_tree [] [] 1 2 3 [] [] 9 (Some [0%nat; 1%nat])) <> ser (lineage_tree [] [] 1 2 3 [] [] 9 (Some [2%nat])).
Proof. split; vm_compute; discriminate. Qed.
