(* C14, rows: every stage of superrun processing hands on exactly the rows it received, in order.
   These are partial-correctness facts ("if the stage returns Ok"); that the stages do return Ok on
   well-formed gap-free input is proved in SuperrunExactProof.v together with the exactness of the
   annotations. *)
From SV Require Import Model.Annot Model.Superrun.

Definition rows_a (c : achunk) : list row := crows (abase c).
Definition stored_rows (l : list stored) : list row := flat_map (fun s => crows (st_base s)) l.

Lemma rows_of_stream_app a b : rows_of_stream (a ++ b) = rows_of_stream a ++ rows_of_stream b.
Proof. unfold rows_of_stream. apply flat_map_app. Qed.
Lemma rows_of_stream_cons c l : rows_of_stream (c :: l) = rows_a c ++ rows_of_stream l.
Proof. reflexivity. Qed.

Lemma bind_ok {A B} (r : res A) (f : A -> res B) b :
  res_bind r f = Ok b -> exists a, r = Ok a /\ f a = Ok b.
Proof. destruct r; cbn; [eauto|discriminate]. Qed.

Ltac bind_inv H :=
  let x := fresh "x" in let Hx := fresh "Hx" in
  apply bind_ok in H; destruct H as (x & Hx & H).

Lemma mk_chunk_ok s e rows dt k run tgt c :
  mk_chunk s e rows dt k run tgt = Ok c -> c = mkchunk s e rows dt k run tgt.
Proof.
  unfold mk_chunk. destruct (s <? 0); [discriminate|]. destruct (s >? e); [discriminate|].
  destruct rows as [|r0 rows]; [intros H; inversion H; reflexivity|].
  destruct (rt r0 <? s); [discriminate|]. destruct (_ >? e); [discriminate|].
  intros H; inversion H; reflexivity.
Qed.

Lemma mk_achunk_ok s e rows dt k run tgt sub sup c :
  mk_achunk s e rows dt k run tgt sub sup = Ok c ->
  abase c = mkchunk s e rows dt k run tgt /\
  set_subruns true sub = Ok (asub c) /\ set_superrun run s e sup = Ok (asuper c) /\
  mk_chunk s e rows dt k run tgt = Ok (abase c).
Proof.
  unfold mk_achunk. intros H. bind_inv H. bind_inv H. bind_inv H. inversion H; subst c. cbn.
  pose proof (mk_chunk_ok _ _ _ _ _ _ _ _ Hx0) as ->. repeat split; auto.
Qed.

Lemma split_array_app rs t early l r t' : split_array rs t early = Some (l, r, t') -> l ++ r = rs.
Proof.
  unfold split_array. destruct rs as [|d0 rs0]; [intros H; inversion H; reflexivity|].
  destruct (rt d0 >=? t); [intros H; inversion H; reflexivity|].
  destruct (sa_scan _ _ _ _ _) as [[ex les] spl].
  destruct ex; try (intros H; inversion H; subst; apply app_nil_r);
    (destruct (_ || _);
     [destruct early; [|discriminate]; intros H; inversion H; apply firstn_skipn
     |intros H; inversion H; apply firstn_skipn]).
Qed.

Lemma asplit_rows c t early c1 c2 :
  asplit c t early = Ok (c1, c2) -> rows_a c1 ++ rows_a c2 = rows_a c.
Proof.
  unfold asplit, rows_a.
  set (b := abase c). set (tt := Z.max (Z.min t (cend b)) (cstart b)).
  destruct (if tt =? cend b then Some (crows b, [], tt)
            else if tt =? cstart b then Some ([], crows b, tt) else split_array (crows b) tt early)
    as [[[d1 d2] t']|] eqn:Er; [|discriminate].
  intros H. bind_inv H. bind_inv H. inversion H; subst.
  apply mk_achunk_ok in Hx as (-> & _). apply mk_achunk_ok in Hx0 as (-> & _). cbn [crows].
  destruct (tt =? cend b); [inversion Er; apply app_nil_r|].
  destruct (tt =? cstart b); [inversion Er; reflexivity|].
  eapply split_array_app; eauto.
Qed.

Lemma asplit_at_end_rows c c1 c2 :
  cstart (abase c) <= cend (abase c) ->
  asplit c (cend (abase c)) true = Ok (c1, c2) -> rows_a c1 = rows_a c /\ rows_a c2 = [].
Proof.
  intros Hle. unfold asplit, rows_a.
  rewrite Z.min_id, Z.max_l by lia. rewrite Z.eqb_refl.
  intros H. bind_inv H. bind_inv H. inversion H; subst.
  apply mk_achunk_ok in Hx as (-> & _). apply mk_achunk_ok in Hx0 as (-> & _). cbn [crows]. auto.
Qed.

Lemma aconcatenate_rows ocs allow c :
  aconcatenate ocs allow = Ok c -> rows_a c = rows_of_stream (somes ocs).
Proof.
  unfold aconcatenate, rows_a, rows_of_stream.
  destruct (somes ocs) as [|c0 [|c1 rest]]; [discriminate| |].
  - intros H; inversion H; subst. cbn. now rewrite app_nil_r.
  - destruct (negb _); [discriminate|]. destruct (_ && _); [discriminate|].
    intros H. bind_inv H. bind_inv H. destruct (negb _); [discriminate|].
    apply mk_achunk_ok in H as (-> & _). reflexivity.
Qed.

Lemma superrun_transformation_base prun result superrun subruns c :
  superrun_transformation prun result superrun subruns = Ok c -> abase c = abase result.
Proof.
  unfold superrun_transformation. destruct (_ && _).
  - intros H. bind_inv H. inversion H; reflexivity.
  - destruct (_ <? _)%nat; [discriminate|]. intros H. bind_inv H. bind_inv H. inversion H; reflexivity.
Qed.

Lemma do_compute_rows prun lv inp others c :
  do_compute prun lv inp others = Ok c -> rows_a c = rows_a inp.
Proof.
  unfold do_compute, rows_a. destruct (negb _); [discriminate|].
  intros H. bind_inv H. bind_inv H. bind_inv H.
  apply superrun_transformation_base in H. rewrite H.
  apply mk_achunk_ok in Hx1 as (-> & _). reflexivity.
Qed.

Lemma iter_loop_rows allow prun lv inputs : forall buffer outs,
  iter_loop allow prun lv buffer inputs = Ok outs ->
  rows_of_stream outs = rows_a buffer ++ rows_of_stream inputs.
Proof.
  induction inputs as [|c more IH]; intros buffer outs H; cbn [iter_loop] in H.
  - bind_inv H. destruct x as [inp rest]. bind_inv H.
    apply asplit_rows in Hx. apply do_compute_rows in Hx0.
    destruct (crows (abase rest)) eqn:Er; [|discriminate]. inversion H; subst.
    unfold rows_a in *. rewrite Er, app_nil_r in Hx.
    cbn. rewrite !app_nil_r. unfold rows_a in Hx0. congruence.
  - bind_inv H. destruct x as [inp rest]. bind_inv H. bind_inv H. bind_inv H. inversion H; subst.
    apply asplit_rows in Hx. apply do_compute_rows in Hx0. apply aconcatenate_rows in Hx1.
    apply IH in Hx2. rewrite rows_of_stream_cons, Hx2, Hx1, Hx0.
    cbn [somes]. rewrite !rows_of_stream_cons. cbn [rows_of_stream flat_map]. rewrite app_nil_r.
    rewrite <- Hx. now rewrite !app_assoc.
Qed.

Lemma plugin_iter_rows allow prun lv inputs outs :
  plugin_iter allow prun lv inputs = Ok outs -> rows_of_stream outs = rows_of_stream inputs.
Proof.
  destruct inputs as [|c more]; [discriminate|]. cbn [plugin_iter]. intros H.
  apply iter_loop_rows in H. now rewrite rows_of_stream_cons.
Qed.

Lemma asplit_off_rows idxs : forall c out c',
  asplit_off c idxs = Ok (out, c') -> rows_of_stream out ++ rows_a c' = rows_a c.
Proof.
  induction idxs as [|i rest IH]; intros c out c' H; cbn [asplit_off] in H.
  - inversion H; subst. reflexivity.
  - destruct (nth_error _ _); [|discriminate]. bind_inv H. destruct x as [c1 c2]. bind_inv H.
    destruct x as [out' c'']. inversion H; subst.
    apply asplit_rows in Hx. apply IH in Hx0. rewrite rows_of_stream_cons, <- app_assoc, Hx0. exact Hx.
Qed.

Definition opt_rows (o : option achunk) : list row := match o with None => [] | Some c => rows_a c end.

Lemma areceive_rows is_sr cache c out cache' :
  areceive is_sr cache c = Ok (out, cache') ->
  rows_of_stream out ++ opt_rows cache' = opt_rows cache ++ rows_a c.
Proof.
  unfold areceive. intros H. bind_inv H. bind_inv H. bind_inv H. destruct x1 as [o c']. inversion H; subst.
  apply asplit_off_rows in Hx1. cbn [opt_rows]. rewrite Hx1.
  destruct cache as [c0|]; cbn [opt_rows].
  - apply aconcatenate_rows in Hx. rewrite Hx. cbn. now rewrite app_nil_r.
  - inversion Hx; subst. reflexivity.
Qed.

Lemma arechunk_from_rows is_sr cs : forall cache res,
  arechunk_from is_sr cache cs = Ok res -> rows_of_stream res = opt_rows cache ++ rows_of_stream cs.
Proof.
  induction cs as [|c rest IH]; intros cache res H; cbn [arechunk_from] in H.
  - inversion H; subst. destruct cache; cbn; now rewrite ?app_nil_r.
  - bind_inv H. destruct x as [out cache']. bind_inv H. inversion H; subst.
    apply areceive_rows in Hx. apply IH in Hx0.
    rewrite rows_of_stream_app, Hx0, rows_of_stream_cons, app_assoc, Hx. now rewrite app_assoc.
Qed.

Lemma stored_rows_save cs : stored_rows (map save_chunk cs) = rows_of_stream cs.
Proof. unfold stored_rows, rows_of_stream. induction cs as [|c cs IH]; cbn; [reflexivity|]. now rewrite IH. Qed.

Lemma save_stream_rows rechunk run cs st :
  save_stream rechunk run cs = Ok st -> stored_rows st = rows_of_stream cs.
Proof.
  unfold save_stream. intros H. bind_inv H. inversion H; subst. rewrite stored_rows_save.
  destruct rechunk; [|inversion Hx; reflexivity].
  apply arechunk_from_rows in Hx. exact Hx.
Qed.

Lemma load_chunk_rows s c : load_chunk s = Ok c -> rows_a c = crows (st_base s).
Proof.
  unfold load_chunk, rows_a. destruct (st_sub s).
  - intros H. apply mk_achunk_ok in H as (-> & _). reflexivity.
  - destruct (match crun (st_base s) with Some r => r <? 0 | None => false end); [discriminate|].
    intros H. apply mk_achunk_ok in H as (-> & _). reflexivity.
Qed.

Lemma mapM_load_rows l : forall cs, mapM load_chunk l = Ok cs -> rows_of_stream cs = stored_rows l.
Proof.
  induction l as [|s l IH]; intros cs H; cbn [mapM] in H.
  - inversion H; reflexivity.
  - bind_inv H. bind_inv H. inversion H; subst.
    apply load_chunk_rows in Hx. rewrite rows_of_stream_cons, Hx, (IH _ Hx0). reflexivity.
Qed.

Lemma checked_same cs cs' : checked cs = Ok cs' -> cs' = cs.
Proof.
  unfold checked. destruct cs; [discriminate|]. destruct (acontinuity_check _) as [[? ?]|]; [discriminate|].
  intros H; inversion H; reflexivity.
Qed.

Lemma stored_rows_concat ls : stored_rows (concat ls) = flat_map stored_rows ls.
Proof. unfold stored_rows. induction ls as [|l ls IH]; cbn; [reflexivity|]. now rewrite flat_map_app, IH. Qed.

Lemma chained_loader_rows subs cs : chained_loader subs = Ok cs -> rows_of_stream cs = flat_map stored_rows subs.
Proof. unfold chained_loader. intros H. apply mapM_load_rows in H. now rewrite H, stored_rows_concat. Qed.

(* every superrun-capable level yields the rows it was given; what is stored at each level (rechunked
   across sub-run borders or not) holds the same rows *)
Lemma run_levels_rows prun write levels : forall stream out savs,
  run_levels prun write levels stream = Ok (out, savs) ->
  rows_of_stream out = rows_of_stream stream /\
  length savs = length levels /\
  (write = true -> Forall (fun sv => stored_rows sv = rows_of_stream stream) savs).
Proof.
  induction levels as [|lv more IH]; intros stream out savs H; cbn [run_levels] in H.
  - inversion H; subst. repeat split; auto.
  - bind_inv H. bind_inv H. bind_inv H. destruct x1 as [o sv]. inversion H; subst.
    apply plugin_iter_rows in Hx. apply IH in Hx1 as (H1 & H2 & H3).
    repeat split; [congruence|cbn; congruence|].
    intros Hw. subst write. constructor.
    + apply save_stream_rows in Hx0. congruence.
    + specialize (H3 eq_refl). eapply Forall_impl; [|exact H3]. cbn. intros; congruence.
Qed.

Lemma run_plain_rows run levels : forall stream out,
  run_plain run levels stream = Ok out -> rows_of_stream out = rows_of_stream stream.
Proof.
  induction levels as [|lv more IH]; intros stream out H; cbn [run_plain] in H.
  - inversion H; reflexivity.
  - bind_inv H. apply plugin_iter_rows in Hx. apply IH in H. congruence.
Qed.

Lemma subrun_make_rows run levels from st :
  subrun_make run levels from = Ok st -> stored_rows st = stored_rows from.
Proof.
  unfold subrun_make. destruct levels as [|lv more]; [intros H; inversion H; reflexivity|].
  intros H. bind_inv H. bind_inv H. apply mapM_load_rows in Hx. apply run_plain_rows in Hx0.
  apply save_stream_rows in H. congruence.
Qed.

(* ---------------------------------------------------------------------------------------------
   superrun_rows, "if it returns" form
   --------------------------------------------------------------------------------------------- *)
Theorem superrun_get_rows prun write levels subruns out savs :
  superrun_get prun write levels subruns = Ok (out, savs) ->
  rows_of_stream out = flat_map stored_rows subruns /\
  (write = true ->
   Forall (fun sv => stored_rows sv = flat_map stored_rows subruns /\
                     forall cs, superrun_reload sv = Ok cs -> rows_of_stream cs = flat_map stored_rows subruns) savs).
Proof.
  unfold superrun_get. intros H. bind_inv H. bind_inv H. destruct x0 as [o sv]. bind_inv H. inversion H; subst.
  apply chained_loader_rows in Hx. apply run_levels_rows in Hx0 as (H1 & _ & H3).
  apply checked_same in Hx1. subst. split; [congruence|].
  intros Hw. specialize (H3 Hw). eapply Forall_impl; [|exact H3]. cbn. intros sv' Hsv. split; [congruence|].
  intros cs Hr. unfold superrun_reload in Hr. bind_inv Hr. apply checked_same in Hr. subst.
  apply mapM_load_rows in Hx0. congruence.
Qed.

Theorem combining_get_rows subruns cs :
  combining_get subruns = Ok cs -> rows_of_stream cs = flat_map stored_rows subruns.
Proof.
  unfold combining_get. intros H. bind_inv H. apply checked_same in H. subst.
  now apply chained_loader_rows.
Qed.

Lemma mapM_subrun_make_rows f (srcs : list (Z * list stored)) :
  (forall r from st, f (r, from) = Ok st -> stored_rows st = stored_rows from) ->
  forall subs, mapM f srcs = Ok subs -> flat_map stored_rows subs = flat_map (fun rs => stored_rows (snd rs)) srcs.
Proof.
  intros Hf. induction srcs as [|[r from] srcs IH]; intros subs H; cbn [mapM] in H.
  - inversion H; reflexivity.
  - bind_inv H. bind_inv H. inversion H; subst. cbn [flat_map snd]. rewrite (IH _ Hx0), (Hf _ _ _ Hx). reflexivity.
Qed.

(* from the generated source chunks of the sub-runs (listed in sub_run_spec order), through the
   per-sub-run levels (stored with or without rechunking), the superrun-capable levels (stored with
   or without rechunking across sub-run borders) and back from disk: always the sub-runs' rows, in the
   order of the spec *)
Theorem superrun_full_rows prun write low levels srcs out savs :
  superrun_full prun write low levels srcs = Ok (out, savs) ->
  let want := flat_map (fun rs => stored_rows (snd rs)) srcs in
  rows_of_stream out = want /\
  (write = true ->
   Forall (fun sv => stored_rows sv = want /\
                     forall cs, superrun_reload sv = Ok cs -> rows_of_stream cs = want) savs).
Proof.
  unfold superrun_full. intros H. bind_inv H. cbn zeta.
  apply mapM_subrun_make_rows in Hx; [|intros r from st; cbn [fst snd]; apply subrun_make_rows].
  apply superrun_get_rows in H. rewrite Hx in H. exact H.
Qed.

Theorem combining_full_rows low levels srcs cs :
  combining_full low levels srcs = Ok cs ->
  rows_of_stream cs = flat_map (fun rs => stored_rows (snd rs)) srcs.
Proof.
  unfold combining_full. intros H. bind_inv H.
  apply mapM_subrun_make_rows in Hx.
  - apply combining_get_rows in H. congruence.
  - intros r from st. cbn [fst snd]. intros Hb. bind_inv Hb.
    apply subrun_make_rows in Hx0. apply subrun_make_rows in Hb. congruence.
Qed.
