(* C02 — the statements about histories, and the witnesses that refute cache transparency for the
   context hash of the pinned tree (finding D4 and the config/data-type name clash). *)
From SV Require Import Base.Prelude Model.Canon Model.Lineage Model.C02Run Proof.CanonProof Spec.LineageSpec
  Proof.LineageEquiv Proof.LineageCache Proof.LineageCache2 Proof.LineageHash Proof.LineageRegister
  Proof.LineageHistory.

(* the full statement: for every injective hash, every history, every context and data type the
   plugin obtained through the cache is the one the cache-free specification computes (same
   lineage hash), and the cache never makes initialisation fail *)
Definition full_cache_transparent (fx : bool) : Prop :=
  forall (HT : Type) (hash : list Z -> HT) (heqb : HT -> HT -> bool),
    (forall a b, hash a = hash b -> a = b) -> (forall a b, heqb a b = true <-> a = b) ->
    forall ops, cid_ok (classes_of ops) ->
    forall c x dt, nth_error (ctxs HT (fst (run_ops HT hash heqb fx (init_state HT) ops))) c = Some x ->
    transparent_at HT hash heqb fx x dt.

Theorem cache_transparent_fixed_full : full_cache_transparent true.
Proof. intros HT hash heqb Hi Hs ops HU c x dt Hn. eapply cache_transparent_fixed; eauto. Qed.

(* ---------- the runner's hash (identity) satisfies the hypotheses ---------- *)
Lemma list_eqb_Z_spec (a b : list Z) : list_eqb Z.eqb a b = true <-> a = b.
Proof.
  revert b. induction a as [|x a IH]; intros [|y b]; cbn [list_eqb]; try (split; [discriminate|discriminate]); [tauto|].
  rewrite andb_true_iff, Z.eqb_eq, IH. split; [intros [-> ->]; reflexivity|intros H; inversion H; auto].
Qed.

Lemma hid_inj (a b : list Z) : hid a = hid b -> a = b.
Proof. exact (fun H => H). Qed.

(* ---------- witness D4: a same-named, same-version class with another option default ---------- *)
Definition cA (cid0 def : Z) : cls :=
  mkcls cid0 101 1000 2000 80 [10] [] [mkopt 20 (VInt def) true None] false [].

Definition W_D4 : list op :=
  [ORegister 0 (cA 1 1); OKeyFor 0 0 10; ORegister 0 (cA 2 2); OKeyFor 0 0 10].

Lemma cid_ok_two (a b : cls) : cid a <> cid b -> cid_ok [a; b].
Proof.
  intros Hne x y Hx Hy E. destruct Hx as [<-|[<-|[]]], Hy as [<-|[<-|[]]]; try reflexivity; congruence.
Qed.

Lemma spec_det reg conf n m dt i j :
  spec_plugin n reg conf dt = Ok i -> spec_plugin m reg conf dt = Ok j -> i = j.
Proof.
  intros Hi Hj. destruct (Nat.le_ge_cases n m) as [L|L].
  - rewrite (spec_plugin_mono reg conf n m dt i L Hi) in Hj. congruence.
  - rewrite (spec_plugin_mono reg conf m n dt j L Hj) in Hi. congruence.
Qed.

Theorem cache_transparent_refuted : ~ full_cache_transparent false.
Proof.
  intros H.
  specialize (H HTc hid heq hid_inj list_eqb_Z_spec W_D4).
  assert (HU : cid_ok (classes_of W_D4)) by (apply cid_ok_two; cbn; lia).
  specialize (H HU 0%nat).
  destruct (nth_error (ctxs HTc (fst (run_ops HTc hid heq false (init_state HTc) W_D4))) 0) as [x|] eqn:E;
    [|vm_compute in E; discriminate].
  specialize (H x 10 eq_refl). destruct H as (H1 & _).
  vm_compute in E. inversion E; subst x. clear E.
  destruct (ctx_plugin HTc hid heq false _ 10) as [[i ca]|] eqn:G; [|vm_compute in G; discriminate].
  destruct (H1 i ca eq_refl) as (n & i' & Hs & _ & Hh).
  vm_compute in G. inversion G; subst i ca. clear G.
  assert (Hs2 : spec_plugin 2 [(10, cA 2 2)] [] 10 = Ok (mkinst (cA 2 2) [(20, VInt 2)] [(10, (101, 1000, [(20, VInt 2)]))]))
    by (vm_compute; reflexivity).
  cbn [creg cconf] in Hs. pose proof (spec_det _ _ _ _ _ _ _ Hs Hs2) as ->.
  vm_compute in Hh. discriminate.
Qed.

(* ---------- witness: an option with the name of a data type ---------- *)
Definition cS : cls := mkcls 1 101 1000 2000 80 [10] [] [mkopt 10 (VInt 1) true None] false [].

Definition W_SHADOW : list op :=
  [ORegister 0 cS; OKeyFor 0 0 10; OSetConfig 0 0 [(10, VInt 2)]; OKeyFor 0 0 10].

(* no class is registered twice in this history, and still the cache is stale *)
Theorem cache_transparent_shadow_refuted :
  exists ops c x dt, length (classes_of ops) = 1%nat /\
    nth_error (ctxs HTc (fst (run_ops HTc hid heq false (init_state HTc) ops))) c = Some x /\
    ~ transparent_at HTc hid heq false x dt.
Proof.
  exists W_SHADOW, 0%nat.
  destruct (nth_error (ctxs HTc (fst (run_ops HTc hid heq false (init_state HTc) W_SHADOW))) 0) as [x|] eqn:E;
    [|vm_compute in E; discriminate].
  exists x, 10. split; [reflexivity|]. split; [reflexivity|]. intros (H1 & _).
  vm_compute in E. inversion E; subst x. clear E.
  destruct (ctx_plugin HTc hid heq false _ 10) as [[i ca]|] eqn:G; [|vm_compute in G; discriminate].
  destruct (H1 i ca eq_refl) as (n & i' & Hs & _ & Hh).
  vm_compute in G. inversion G; subst i ca. clear G.
  assert (Hs2 : spec_plugin 2 [(10, cS)] [(10, VInt 2)] 10 = Ok (mkinst cS [(10, VInt 2)] [(10, (101, 1000, [(10, VInt 2)]))]))
    by (vm_compute; reflexivity).
  cbn [creg cconf] in Hs. pose proof (spec_det _ _ _ _ _ _ _ Hs Hs2) as ->.
  vm_compute in Hh. discriminate.
Qed.

(* the same histories are harmless with the repaired hash (sanity of the witnesses) *)
Example witnesses_fixed :
  map fst (c02_run_tokens true W_D4) <> map fst (c02_run_tokens false W_D4) /\
  map fst (c02_run_tokens true W_SHADOW) <> map fst (c02_run_tokens false W_SHADOW).
Proof. split; vm_compute; discriminate. Qed.
