(* C02 — canon_injective: on the domain [dom] the canonical string determines the value. *)
From SV Require Import Base.Prelude Model.Canon Spec.CanonSpec Proof.CanonProof Proof.CanonEquiv.

Lemma dom_seq v l : seq_of v = Some l -> (dom v <-> Forall (fun x => pair_shaped x = false /\ dom x) l).
Proof.
  intros H.
  assert (E : forall l, (fix go (l : list value) : Prop :=
         match l with
         | [] => True
         | x :: r => (pair_shaped x = false /\ dom x) /\ go r
         end) l <-> Forall (fun x => pair_shaped x = false /\ dom x) l).
  { induction l0 as [|x r IH]; [split; auto|]. rewrite IH. split.
    - intros [A B]. constructor; assumption.
    - intros G. inversion G; subst. split; assumption. }
  destruct v; try discriminate; cbn in H; inversion H; subst; cbn [dom]; apply E.
Qed.

Lemma dom_dict d : dom (VDict d) <-> d <> [] /\ NoDup (keys d) /\ Forall (fun kv => dom (snd kv)) d.
Proof.
  cbn [dom].
  assert (E : forall d, (fix go (d : list (Z * value)) : Prop :=
         match d with
         | [] => True
         | kv :: r => dom (snd kv) /\ go r
         end) d <-> Forall (fun kv => dom (snd kv)) d).
  { induction d0 as [|x r IH]; [split; auto|]. rewrite IH. split.
    - intros [A B]. constructor; assumption.
    - intros G. inversion G; subst. split; assumption. }
  rewrite E. tauto.
Qed.

Lemma norm_eq_TStr v k : norm v = TStr k -> v = VStr k.
Proof.
  destruct v as [z|s|l|l|d]; try (cbn [norm]; discriminate).
  cbn [norm]. intros H. inversion H. reflexivity.
Qed.

Lemma norm_pair_shape a k t : norm a = TArr [TStr k; t] -> pair_shaped a = true.
Proof.
  destruct a as [z|s|l|l|d]; try (cbn [norm]; discriminate).
  - cbn [norm]. intros H. inversion H as [H'].
    destruct l as [|a1 [|a2 [|a3 l]]]; cbn [map] in H'; try discriminate.
    inversion H' as [[H0 H1]]. apply norm_eq_TStr in H0. subst. reflexivity.
  - cbn [norm]. intros H. inversion H as [H'].
    destruct l as [|a1 [|a2 [|a3 l]]]; cbn [map] in H'; try discriminate.
    inversion H' as [[H0 H1]]. apply norm_eq_TStr in H0. subst. reflexivity.
  - rewrite norm_dict. intros H. inversion H as [H'].
    destruct (sort_items (norm_items d)) as [|x r]; cbn [map] in H'; [discriminate|].
    unfold pair_arr in H'. inversion H'.
Qed.

Lemma insert_item_nonempty {A} (kv : Z * A) l : insert_item kv l <> [].
Proof.
  destruct l as [|kv' r]; cbn [insert_item]; [discriminate|].
  destruct (fst kv <? fst kv'); [discriminate|]. destruct (fst kv' <? fst kv); discriminate.
Qed.

Lemma sort_items_nonempty {A} (l : list (Z * A)) : l <> [] -> sort_items l <> [].
Proof. destruct l as [|kv l]; [congruence|]. intros _. cbn [sort_items fold_right]. apply insert_item_nonempty. Qed.

Lemma lookup_NoDup_In {A} k (x : A) d : NoDup (keys d) -> In (k, x) d -> lookup k d = Some x.
Proof.
  induction d as [|[k' x'] d IH]; intros ND Hin; [destruct Hin|].
  unfold keys in ND. cbn [map fst] in ND. inversion ND as [|? ? Hn ND']; subst.
  cbn [lookup]. destruct Hin as [E|Hin].
  - inversion E; subst. now rewrite Z.eqb_refl.
  - destruct (k =? k') eqn:Q.
    + apply Z.eqb_eq in Q. subst. exfalso. apply Hn. now apply (in_map fst) in Hin.
    + now apply IH.
Qed.

Lemma seq_dict_norm_neq v l d :
  seq_of v = Some l -> dom v -> dom (VDict d) -> norm v <> norm (VDict d).
Proof.
  intros Hs Hd Hdd E. rewrite (norm_seq v l Hs), norm_dict in E. inversion E as [E'].
  apply dom_dict in Hdd. destruct Hdd as (Hne & _ & _).
  assert (Hn : norm_items d <> []) by (destruct d; [congruence|discriminate]).
  apply sort_items_nonempty in Hn.
  destruct (sort_items (norm_items d)) as [|[k t] r]; [congruence|].
  destruct l as [|a l]; cbn [map] in E'; [discriminate|].
  assert (Ha : norm a = pair_arr (k, t)) by congruence.
  apply (dom_seq v (a :: l) Hs) in Hd. inversion Hd as [|? ? [Hps _] _]; subst.
  unfold pair_arr in Ha. cbn [fst snd] in Ha. apply norm_pair_shape in Ha. congruence.
Qed.

Lemma norm_injective : forall v1 v2, dom v1 -> dom v2 -> norm v1 = norm v2 -> veqb v1 v2 = true.
Proof.
  assert (SEQ : forall v1 l1, seq_of v1 = Some l1 ->
            Forall (fun x => forall v2, dom x -> dom v2 -> norm x = norm v2 -> veqb x v2 = true) l1 ->
            forall v2, dom v1 -> dom v2 -> norm v1 = norm v2 -> veqb v1 v2 = true).
  { intros v1 l1 Hs IH v2 D1 D2 E.
    destruct (seq_of v2) as [l2|] eqn:E2.
    - rewrite (veqb_seq v1 v2 l1 l2) by auto.
      rewrite (norm_seq v1 l1 Hs), (norm_seq v2 l2 E2) in E. inversion E as [E'].
      apply (dom_seq v1 l1 Hs) in D1. apply (dom_seq v2 l2 E2) in D2.
      clear E Hs E2. revert l2 E' D2 D1.
      induction IH as [|x l Hx _ IHl]; intros [|y l2] E' D2 D1; cbn [map] in E'; try discriminate; [reflexivity|].
      assert (E1 : norm x = norm y) by congruence.
      assert (E2 : map norm l = map norm l2) by congruence.
      inversion D1 as [|? ? [_ Dx] D1']; subst. inversion D2 as [|? ? [_ Dy] D2']; subst.
      cbn [seq_eqb]. rewrite (Hx y Dx Dy E1). cbn [andb]. apply IHl; assumption.
    - destruct v2 as [z|s|l2|l2|d2]; try discriminate.
      + rewrite (norm_seq v1 l1 Hs) in E. discriminate.
      + rewrite (norm_seq v1 l1 Hs) in E. discriminate.
      + exfalso. eapply seq_dict_norm_neq; eauto. }
  induction v1 as [z|s|l IH|l IH|d IH] using value_ind'; intros v2 D1 D2 E.
  - destruct v2 as [z'|s'|l2|l2|d2]; try (cbn [norm] in E; discriminate).
    cbn [norm] in E. inversion E. cbn. apply Z.eqb_refl.
  - destruct v2 as [z'|s'|l2|l2|d2]; try (cbn [norm] in E; discriminate).
    cbn [norm] in E. inversion E. cbn. apply Z.eqb_refl.
  - apply (SEQ (VList l) l); auto.
  - apply (SEQ (VTuple l) l); auto.
  - destruct (seq_of v2) as [l2|] eqn:E2.
    + exfalso. symmetry in E. eapply seq_dict_norm_neq; eauto.
    + destruct v2 as [z|s|l2|l2|d2]; try discriminate.
      rewrite veqb_dict. apply norm_dict_ext in E.
        apply dom_dict in D1. destruct D1 as (_ & ND1 & F1).
        apply dom_dict in D2. destruct D2 as (_ & ND2 & F2).
        rewrite Forall_forall in IH, F1, F2.
        apply andb_true_iff. split.
        -- unfold dict_sub. rewrite forallb_forall. intros [k x] Hin. cbn [fst snd].
           pose proof (E k) as Ek. rewrite (lookup_NoDup_In k x d ND1 Hin) in Ek. cbn [option_map] in Ek.
           destruct (lookup k d2) as [y|] eqn:L2; [|discriminate]. cbn [option_map] in Ek. inversion Ek.
           apply (IH (k, x) Hin y).
           ++ apply (F1 _ Hin).
           ++ apply (F2 (k, y)). now apply lookup_In.
           ++ cbn [snd]. congruence.
        -- rewrite forallb_forall. intros [k y] Hin. cbn [fst].
           pose proof (E k) as Ek. rewrite (lookup_NoDup_In k y d2 ND2 Hin) in Ek.
           unfold has_key. destruct (lookup k d); [reflexivity|discriminate].
Qed.

(* on [dom], equal canonical strings (hence, under hash injectivity, equal hashes) mean the same value *)
Theorem canon_injective v1 v2 : dom v1 -> dom v2 -> canon v1 = canon v2 -> veqb v1 v2 = true.
Proof. intros D1 D2 E. apply norm_injective; auto. now apply ser_injective. Qed.

(* outside [dom] it fails: hashablize identifies a dict with the list of its items *)
Example canon_collision :
  canon (VDict [(40, VInt 1)]) = canon (VList [VList [VStr 40; VInt 1]])
  /\ veqb (VDict [(40, VInt 1)]) (VList [VList [VStr 40; VInt 1]]) = false
  /\ py_eqb (VDict [(40, VInt 1)]) (VList [VList [VStr 40; VInt 1]]) = false.
Proof. vm_compute. auto. Qed.

Example canon_collision_empty : canon (VDict []) = canon (VList []).
Proof. reflexivity. Qed.

(* the hypotheses are satisfiable by a nested value with two dict orders *)
Example canon_order_example :
  let a := VDict [(1, VTuple [VInt 1; VInt 2]); (2, VDict [(5, VStr 7); (4, VList [])])] in
  let b := VDict [(2, VDict [(4, VTuple []); (5, VStr 7)]); (1, VList [VInt 1; VInt 2])] in
  veqb a b = true /\ dom a /\ dom b /\ a <> b.
Proof.
  cbn zeta. split; [vm_compute; reflexivity|]. split; [|split; [|discriminate]].
  - cbn. repeat split; try discriminate; repeat constructor; cbn; intuition lia.
  - cbn. repeat split; try discriminate; repeat constructor; cbn; intuition lia.
Qed.
