(* Property C16: the chunk_number lineage tag makes storage keys differ.
   The canonical serialisation of a lineage (hashablize + json.dumps, modelled as a bracketed token list) is
   injective; the hash (SHA-1 / base32) is a Section variable assumed injective on canonical serialisations. *)
From SV Require Import Model.Rows Model.Chunk Model.Rechunker Model.CopyRechunk Proof.PerChunkProof.

Lemma ser_arr l : ser (JArr l) = TOpen :: flat_map ser l ++ [TClose].
Proof.
  cbn [ser].
  assert (E : forall l0, (fix sers (l : list jv) : list tok :=
                            match l with [] => [] | x :: r => ser x ++ sers r end) l0 = flat_map ser l0).
  { induction l0 as [|x l0 IH]; [reflexivity|]. cbn [flat_map]. rewrite IH. reflexivity. }
  rewrite E. reflexivity.
Qed.

Lemma ser_head v : exists t rest, ser v = t :: rest /\ t <> TClose.
Proof.
  destruct v as [n|l]; [exists (TNum n), []|rewrite ser_arr; exists TOpen, (flat_map ser l ++ [TClose])];
    split; auto; discriminate.
Qed.

(* induction over the tree with the hypothesis for every element of an array *)
Fixpoint jv_ind' (P : jv -> Prop) (Hn : forall n, P (JNum n)) (Ha : forall l, Forall P l -> P (JArr l)) (v : jv) : P v :=
  match v with
  | JNum n => Hn n
  | JArr l => Ha l ((fix go (l : list jv) : Forall P l :=
                       match l with [] => Forall_nil P | x :: r => Forall_cons x (jv_ind' P Hn Ha x) (go r) end) l)
  end.

(* the serialisation is prefix-free and injective *)
Lemma ser_inj_app : forall v v' r r', ser v ++ r = ser v' ++ r' -> v = v' /\ r = r'.
Proof.
  intros v. induction v as [n|l IH] using jv_ind'; intros v' r r' H.
  - destruct v' as [n'|l']; [cbn in H; inversion H; auto|]. rewrite ser_arr in H. cbn in H. discriminate.
  - destruct v' as [n'|l']; [rewrite ser_arr in H; cbn in H; discriminate|].
    rewrite !ser_arr in H. cbn [app] in H. inversion H as [H']. clear H.
    rewrite <- !app_assoc in H'. cbn [app] in H'.
    assert (Hl : l = l' /\ r = r').
    { revert l' H'. induction IH as [|x l1 Hx _ IHl]; intros l' H'.
      - destruct l' as [|x' l1']; [cbn in H'; inversion H'; auto|].
        cbn [flat_map] in H'. destruct (ser_head x') as (t & rest & E & Ht). rewrite E in H'. cbn in H'.
        inversion H'; subst. congruence.
      - destruct l' as [|x' l1'].
        + cbn [flat_map] in H'. destruct (ser_head x) as (t & rest & E & Ht). rewrite E in H'. cbn in H'.
          inversion H'; subst. congruence.
        + cbn [flat_map] in H'. rewrite <- !app_assoc in H'.
          destruct (Hx _ _ _ H') as [-> H2]. destruct (IHl _ H2) as [-> ->]. auto. }
    destruct Hl as [-> ->]. auto.
Qed.

Theorem ser_injective v v' : ser v = ser v' -> v = v'.
Proof.
  intros H. apply (ser_inj_app v v' [] []). rewrite !app_nil_r. exact H.
Qed.

Lemma map_inj {A B} (g : A -> B) : (forall x y, g x = g y -> x = y) -> forall l l', map g l = map g l' -> l = l'.
Proof.
  intros Hg. induction l as [|x l IH]; intros [|y l'] H; try discriminate; [reflexivity|].
  cbn in H. inversion H. f_equal; auto.
Qed.

Lemma tag_entry_inj dep t1 t2 : tag_entry dep t1 = tag_entry dep t2 -> t1 = t2.
Proof.
  destruct t1 as [g1|], t2 as [g2|]; cbn; intros H; try discriminate; [|reflexivity].
  inversion H as [H']. f_equal. eapply map_inj; [|exact H']. intros x y E. inversion E. lia.
Qed.

Lemma lineage_tree_inj lin_pre lin_post tgt cls ver cfg_pre cfg_post dep t1 t2 :
  lineage_tree lin_pre lin_post tgt cls ver cfg_pre cfg_post dep t1 =
  lineage_tree lin_pre lin_post tgt cls ver cfg_pre cfg_post dep t2 -> t1 = t2.
Proof.
  unfold lineage_tree. intros H. inversion H as [H1]. apply app_inv_head in H1. cbn in H1.
  inversion H1 as [H2]. apply app_inv_head in H2. apply app_inv_tail in H2. apply tag_entry_inj in H2. exact H2.
Qed.

Section Keys.
Variable hash : list tok -> Z.     (* sha1 + b32encode of the json text *)
Hypothesis hash_inj : forall v v', hash (ser v) = hash (ser v') -> ser v = ser v'.

(* the lineage hash in the storage key of (run, target) for a given chunk_number tag *)
Variables (lin_pre lin_post : list jv) (tgt cls ver : Z) (cfg_pre cfg_post : list jv) (dep : Z).
Definition key_hash (tag : option (list nat)) : Z :=
  hash (ser (lineage_tree lin_pre lin_post tgt cls ver cfg_pre cfg_post dep tag)).

Theorem chunk_number_keys_distinct t1 t2 : key_hash t1 = key_hash t2 -> t1 = t2.
Proof.
  unfold key_hash. intros H. apply hash_inj in H. apply ser_injective in H.
  eapply lineage_tree_inj. exact H.
Qed.

(* the jobs of one grouping never share a key, and none of them has the ordinary (untagged) key *)
Corollary job_keys_distinct ns :
  Forall (fun n => (0 < n)%nat) ns ->
  Forall (fun g => key_hash (Some g) <> key_hash None) (groups_of 0 ns) /\
  forall i j g1 g2, nth_error (groups_of 0 ns) i = Some g1 -> nth_error (groups_of 0 ns) j = Some g2 ->
    key_hash (Some g1) = key_hash (Some g2) -> i = j.
Proof.
  intros Hp. split.
  - apply Forall_forall. intros g _ H. apply chunk_number_keys_distinct in H. discriminate.
  - intros i j g1 g2 H1 H2 H. apply chunk_number_keys_distinct in H. inversion H; subst g2. clear H.
    (* groups start at strictly increasing offsets and are non-empty, so equal groups sit at equal positions *)
    assert (Hstart : forall ns a k g, Forall (fun n => (0 < n)%nat) ns ->
               nth_error (groups_of a ns) k = Some g ->
               exists n, (0 < n)%nat /\ g = seq (a + list_sum (firstn k ns)) n).
    { clear. induction ns as [|n ns IH]; intros a k g Hp H; [destruct k; discriminate|].
      inversion Hp; subst. destruct k as [|k]; cbn [groups_of nth_error] in H.
      - inversion H; subst. exists n. split; [auto|].
        change (list_sum (firstn 0 (n :: ns))) with 0%nat. rewrite Nat.add_0_r. reflexivity.
      - destruct (IH _ _ _ H3 H) as (m & Hm & ->). exists m. split; [auto|].
        change (firstn (S k) (n :: ns)) with (n :: firstn k ns).
        change (list_sum (n :: firstn k ns)) with (n + list_sum (firstn k ns))%nat.
        rewrite Nat.add_assoc. reflexivity. }
    assert (Hmono : forall ns, Forall (fun n => (0 < n)%nat) ns -> forall i j,
               (i < j)%nat -> (j < length ns)%nat -> (list_sum (firstn i ns) < list_sum (firstn j ns))%nat).
    { clear. induction ns as [|n ns IH]; intros Hp i j Hij Hj; [cbn in Hj; lia|].
      inversion Hp; subst. destruct j as [|j]; [lia|]. cbn [length] in Hj.
      change (firstn (S j) (n :: ns)) with (n :: firstn j ns).
      change (list_sum (n :: firstn j ns)) with (n + list_sum (firstn j ns))%nat.
      destruct i as [|i]; [cbn; lia|].
      change (firstn (S i) (n :: ns)) with (n :: firstn i ns).
      change (list_sum (n :: firstn i ns)) with (n + list_sum (firstn i ns))%nat.
      assert (j < length ns \/ j = length ns)%nat as [Hj'|Hj'] by lia.
      - specialize (IH H2 i j). lia.
      - lia. }
    assert (Hlen : forall ns a, length (groups_of a ns) = length ns).
    { clear. induction ns; intros; cbn; auto. }
    destruct (Hstart _ _ _ _ Hp H1) as (n1 & Hn1 & E1). destruct (Hstart _ _ _ _ Hp H2) as (n2 & Hn2 & E2).
    rewrite E1 in E2. destruct n1; [lia|]. destruct n2; [lia|]. cbn [seq] in E2. injection E2 as Hs _.
    assert (Hi : (i < length ns)%nat) by (rewrite <- (Hlen ns 0%nat); apply nth_error_Some; congruence).
    assert (Hj : (j < length ns)%nat) by (rewrite <- (Hlen ns 0%nat); apply nth_error_Some; congruence).
    destruct (Nat.lt_trichotomy i j) as [Hlt|[->|Hlt]]; [|reflexivity|].
    + pose proof (Hmono ns Hp i j Hlt Hj). lia.
    + pose proof (Hmono ns Hp j i Hlt Hi). lia.
Qed.
End Keys.
