(* n-ary concatenate: acceptance iff, result; continuity_check iff (property C07). *)
From SV Require Import Model.Rows Model.SplitArray Model.Chunk Proof.RowsFacts Proof.SplitArrayProof Proof.ChunkProof.

Fixpoint ordered (cs : list chunk) : Prop :=
  match cs with
  | c :: ((c' :: _) as r) => cend c <= cstart c' /\ ordered r
  | _ => True
  end.

Lemma somes_map_Some {A} (l : list A) : somes (map Some l) = l.
Proof. induction l as [|x l IH]; cbn; [auto|]. rewrite IH. auto. Qed.

Lemma order_ok_iff : forall cs p, Forall wf cs ->
  (order_ok p cs = true <-> (match cs with [] => True | c :: _ => p <= cstart c end) /\ ordered cs).
Proof.
  induction cs as [|c cs IH]; intros p Hwf; cbn [order_ok ordered]; [tauto|].
  inversion Hwf as [|? ? Wc Wcs]; subst.
  destruct (cstart c <? p) eqn:E.
  - split; [discriminate|]. intros [H _]. lia.
  - rewrite (IH (cend c) Wcs). destruct cs as [|c' cs]; [split; [intros; split; [lia|auto]|tauto]|].
    split; [intros [H1 H2]; repeat split; auto; lia|intros [H1 [H2 H3]]; split; auto].
Qed.

Lemma ordered_rows_ok : forall cs, Forall wf cs -> ordered cs -> cs <> [] ->
  let s := cstart (hd (mkchunk 0 0 [] 0 0 None 0) cs) in
  let e := last_end 0 cs in
  0 <= s /\ s <= e /\ sorted (flat_map crows cs) /\
  Forall (fun r => s <= rt r /\ rt r <= re r /\ re r <= e) (flat_map crows cs).
Proof.
  induction cs as [|c cs IH]; intros Hwf Hord Hne; [congruence|].
  inversion Hwf as [|? ? Wc Wcs]; subst. cbn [hd last_end flat_map].
  destruct cs as [|c' cs'].
  - cbn. rewrite app_nil_r. destruct Wc as (H0 & H1 & H2 & H3). repeat split; auto.
  - cbn [ordered] in Hord. destruct Hord as [Hcc Hord].
    assert (Hne' : c' :: cs' <> []) by discriminate.
    specialize (IH Wcs Hord Hne'). cbn [hd last_end] in IH. destruct IH as (I0 & I1 & I2 & I3).
    destruct Wc as (H0 & H1 & H2 & H3).
    cbn [last_end]. repeat split; auto; try lia.
    + apply sorted_app. repeat split; auto.
      apply Forall_forall. intros a Ha. apply Forall_forall. intros b Hb.
      rewrite Forall_forall in H3, I3. specialize (H3 a Ha). specialize (I3 b Hb). cbn in *. lia.
    + apply Forall_app; split.
      * eapply Forall_impl; [|exact H3]. cbn. intros; lia.
      * eapply Forall_impl; [|exact I3]. cbn. intros; lia.
Qed.

Lemma last_end_indep d d' c cs : last_end d (c :: cs) = last_end d' (c :: cs).
Proof. reflexivity. Qed.

Lemma forallb_Forall {A} (f : A -> bool) (P : A -> Prop) l :
  (forall x, f x = true <-> P x) -> (forallb f l = true <-> Forall P l).
Proof.
  intros H. rewrite forallb_forall, Forall_forall. split; intros H' x Hx; apply H; auto.
Qed.

Lemma forallb_cons' {A} (f : A -> bool) x l : forallb f (x :: l) = f x && forallb f l.
Proof. reflexivity. Qed.

Lemma opt_eqb_eq a b : opt_eqb a b = true <-> a = b.
Proof.
  destruct a, b; cbn; try (split; [discriminate|congruence]); [rewrite Z.eqb_eq|]; split; congruence.
Qed.

Definition concat_valid (cs : list chunk) (allow : bool) : Prop :=
  match cs with
  | [] => False
  | [_] => True
  | c0 :: rest =>
      Forall (fun c => cdtype c = cdtype c0) rest /\
      (allow = true \/ Forall (fun c => crun c = crun c0) rest) /\
      ordered cs
  end.

(* concatenate accepts well-formed chunks iff there is at least one, they share the data type, share the
   run id unless superruns are allowed, and are ordered without overlap (gaps are accepted);
   the result holds the concatenated rows over first start .. last end *)
Theorem concatenate_accepts_iff cs allow :
  Forall wf cs ->
  ((exists c, concatenate (map Some cs) allow = Ok c) <-> concat_valid cs allow) /\
  (forall c, concatenate (map Some cs) allow = Ok c ->
     crows c = flat_map crows cs /\ cstart c = cstart (hd c cs) /\ cend c = last_end 0 cs /\ wf c).
Proof.
  intros Hwf. unfold concatenate. rewrite somes_map_Some.
  destruct cs as [|c0 [|c1 rest]].
  - cbn. split; [split; [intros [c H]; discriminate|tauto]|intros c H; discriminate].
  - cbn. split; [split; [auto|eauto]|]. intros c H. inversion H; subst. rewrite app_nil_r.
    inversion Hwf; subst. auto.
  - set (cs := c0 :: c1 :: rest) in *.
    assert (Hdt : forallb (fun c => cdtype c =? cdtype c0) cs = true <-> Forall (fun c => cdtype c = cdtype c0) (c1 :: rest)).
    { unfold cs. rewrite forallb_cons'. rewrite Z.eqb_refl. cbn [andb].
      apply (forallb_Forall _ (fun c => cdtype c = cdtype c0)). intros x. apply Z.eqb_eq. }
    assert (Hrun : forallb (fun c => opt_eqb (crun c) (crun c0)) cs = true <-> Forall (fun c => crun c = crun c0) (c1 :: rest)).
    { unfold cs. rewrite forallb_cons'. rewrite (proj2 (opt_eqb_eq (crun c0) (crun c0)) eq_refl). cbn [andb].
      apply (forallb_Forall _ (fun c => crun c = crun c0)). intros x. apply opt_eqb_eq. }
    assert (Hord : order_ok 0 cs = true <-> ordered cs).
    { rewrite (order_ok_iff cs 0 Hwf). unfold cs. inversion Hwf as [|? ? W0 _]; subst.
      destruct W0 as (H0 & _). tauto. }
    assert (Hmk : ordered cs ->
      forall run tgt, mk_chunk (cstart c0) (last_end (cend c0) (c1 :: rest)) (flat_map crows cs) (cdtype c0) (ckind c0) run tgt
      = Ok (mkchunk (cstart c0) (last_end (cend c0) (c1 :: rest)) (flat_map crows cs) (cdtype c0) (ckind c0) run tgt) /\
        wf (mkchunk (cstart c0) (last_end (cend c0) (c1 :: rest)) (flat_map crows cs) (cdtype c0) (ckind c0) run tgt)).
    { intros Ho run tgt. assert (Hne : cs <> []) by discriminate.
      pose proof (ordered_rows_ok cs Hwf Ho Hne) as (I0 & I1 & I2 & I3). cbn [hd cs last_end] in I0, I1, I3.
      split.
      - apply mk_chunk_ok; auto. eapply Forall_impl; [|exact I3]. cbn. intros; lia.
      - unfold wf. cbn. repeat split; auto. }
    split.
    + split.
      * intros [c Hc].
        destruct (forallb (fun c => cdtype c =? cdtype c0) cs) eqn:E1; cbn [negb] in Hc; [|discriminate].
        destruct (forallb (fun c => opt_eqb (crun c) (crun c0)) cs) eqn:E2; cbn [negb andb] in Hc.
        -- destruct (order_ok 0 cs) eqn:E3; cbn [negb] in Hc; [|discriminate].
           unfold concat_valid, cs. fold cs. split; [apply Hdt; auto|]. split; [right; apply Hrun; auto|apply Hord; auto].
        -- destruct allow; cbn [negb] in Hc; [|discriminate].
           destruct (order_ok 0 cs) eqn:E3; cbn [negb] in Hc; [|discriminate].
           unfold concat_valid, cs. fold cs. split; [apply Hdt; auto|]. split; [left; auto|apply Hord; auto].
      * unfold concat_valid, cs. fold cs. intros (V1 & V2 & V3).
        rewrite (proj2 Hdt V1). cbn [negb].
        rewrite (proj2 Hord V3). cbn [negb].
        destruct (forallb (fun c => opt_eqb (crun c) (crun c0)) cs) eqn:E2; cbn [negb andb].
        -- destruct (Hmk V3 (crun c0) (fold_left Z.max (map ctarget cs) (ctarget c0))) as [-> _]. eauto.
        -- destruct V2 as [->|V2]; [|apply Hrun in V2; congruence]. cbn [negb].
           destruct (Hmk V3 None (fold_left Z.max (map ctarget cs) (ctarget c0))) as [-> _]. eauto.
    + intros c Hc.
      destruct (forallb (fun c => cdtype c =? cdtype c0) cs) eqn:E1; cbn [negb] in Hc; [|discriminate].
      assert (Ho : ordered cs /\ exists run, mk_chunk (cstart c0) (last_end (cend c0) (c1 :: rest)) (flat_map crows cs) (cdtype c0) (ckind c0) run (fold_left Z.max (map ctarget cs) (ctarget c0)) = Ok c).
      { destruct (forallb (fun c => opt_eqb (crun c) (crun c0)) cs); cbn [negb andb] in Hc.
        - destruct (order_ok 0 cs) eqn:E3; cbn [negb] in Hc; [|discriminate]. split; [apply Hord; auto|eauto].
        - destruct allow; cbn [negb] in Hc; [|discriminate].
          destruct (order_ok 0 cs) eqn:E3; cbn [negb] in Hc; [|discriminate]. split; [apply Hord; auto|eauto]. }
      destruct Ho as (Ho & run & Hr).
      destruct (Hmk Ho run (fold_left Z.max (map ctarget cs) (ctarget c0))) as [Hok Hw].
      rewrite Hok in Hr. inversion Hr; subst c. cbn. repeat split; auto; apply Hw.
Qed.

(* ---- continuity_check for ordinary runs ---- *)
Fixpoint adj_ok (cs : list chunk) : Prop :=
  match cs with
  | c :: ((c' :: _) as r) => (crun c' = crun c -> cstart c' = cend c) /\ adj_ok r
  | _ => True
  end.

Lemma continuity_from_iff : forall cs e r i,
  continuity_from (Some e) r i cs = None <->
  (match cs with [] => True | c :: _ => crun c = r -> cstart c = e end) /\ adj_ok cs.
Proof.
  induction cs as [|c cs IH]; intros e r i; cbn [continuity_from adj_ok]; [tauto|].
  destruct (opt_eqb (crun c) r) eqn:E.
  - apply opt_eqb_eq in E. destruct (cstart c =? e) eqn:E2; cbn [negb].
    + apply Z.eqb_eq in E2. rewrite IH. destruct cs as [|c' cs]; tauto.
    + apply Z.eqb_neq in E2. split; [discriminate|]. intros [H _]. tauto.
  - assert (crun c <> r) by (intros H; apply opt_eqb_eq in H; congruence).
    rewrite IH. destruct cs as [|c' cs]; tauto.
Qed.

Theorem continuity_check_iff cs : continuity_check cs = None <-> adj_ok cs.
Proof.
  unfold continuity_check. destruct cs as [|c cs]; cbn [continuity_from adj_ok]; [tauto|].
  assert (H : (if opt_eqb (crun c) None then None else None) = @None Z) by (destruct (opt_eqb _ _); auto).
  rewrite H. rewrite continuity_from_iff. destruct cs as [|c' cs]; tauto.
Qed.
