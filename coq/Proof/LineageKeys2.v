(* C02 — when does the lineage entry of a plugin change?  (the other half of key_sensitivity)
   - a different class name or version: always;
   - a tracked option (not shadowed by a child option) set to a different value: always;
   - an option the plugin does not track (untracked, not taken, or a parent option that a child
     option overrides): never. *)
From SV Require Import Base.Prelude Model.Canon Model.Lineage Proof.CanonProof Spec.LineageSpec
  Proof.LineageEquiv Proof.LineageCache Proof.LineageHash Proof.LineageStore Proof.LineageKeys.

Definition tracks (c : cls) (o : Z) : bool :=
  tracked c o && negb (cchild c && memZ o (parent_options c)).

(* ---------- name / version ---------- *)
Lemma entry_name_version_changes (e e' : lentry) :
  (fst (fst e) <> fst (fst e') \/ snd (fst e) <> snd (fst e')) -> norm_entry e <> norm_entry e'.
Proof.
  intros H E. unfold norm_entry, entry_value in E. rewrite !norm_tuple in E. cbn [map norm] in E.
  inversion E. destruct H; congruence.
Qed.

(* ---------- the child-option fold only touches parent option names ---------- *)
Definition parents_of (os : list opt) : list Z :=
  flat_map (fun o => match oparent o with Some p => [p] | None => [] end) os.

Lemma child_fold_err full os e : fold_left (child_step full) os (Err e) = Err e.
Proof. induction os as [|o os IH]; cbn [fold_left]; [reflexivity|]. exact IH. Qed.

Lemma child_step_ok full p0 o :
  child_step full (Ok p0) o =
  match oparent o with
  | None => Ok p0
  | Some pn => match lookup (oname o) full with
               | None => Err E_KEY
               | Some v => if has_key pn p0 then Ok (dset pn v p0) else Err E_ASSERT
               end
  end.
Proof. reflexivity. Qed.

Lemma child_fold_other full : forall os p0 p,
  fold_left (child_step full) os (Ok p0) = Ok p ->
  forall k, ~ In k (parents_of os) -> lookup k p = lookup k p0.
Proof.
  induction os as [|o os IH]; intros p0 p H k Hk; cbn [fold_left] in H; [inversion H; reflexivity|].
  rewrite child_step_ok in H. cbn [parents_of flat_map] in Hk.
  destruct (oparent o) as [pn|].
  - destruct (lookup (oname o) full) as [v|]; [|rewrite child_fold_err in H; discriminate].
    destruct (has_key pn p0); [|rewrite child_fold_err in H; discriminate].
    rewrite (IH _ _ H k) by (intros Q; apply Hk; apply in_app_iff; now right).
    rewrite lookup_dset. destruct (k =? pn) eqn:E; [|reflexivity].
    apply Z.eqb_eq in E. subst. exfalso. apply Hk. now left.
  - apply (IH _ _ H k). exact Hk.
Qed.

(* two runs of the fold on configurations that agree outside a set S containing the parent names *)
Lemma child_fold_agree full full' (S : list Z) : forall os p0 p0',
  (forall o, In o os -> has_key (oname o) full = true /\ has_key (oname o) full' = true) ->
  (forall k, In k (parents_of os) -> In k S) ->
  (forall k, has_key k p0 = has_key k p0') -> (forall k, ~ In k S -> lookup k p0 = lookup k p0') ->
  match fold_left (child_step full) os (Ok p0), fold_left (child_step full') os (Ok p0') with
  | Ok p, Ok p' => (forall k, has_key k p = has_key k p') /\ (forall k, ~ In k S -> lookup k p = lookup k p')
  | Err e, Err e' => e = e'
  | _, _ => False
  end.
Proof.
  induction os as [|o os IH]; intros p0 p0' Hfull HS Hk Hl; cbn [fold_left]; [split; assumption|].
  rewrite !child_step_ok.
  destruct (Hfull o (or_introl eq_refl)) as (F1 & F2).
  assert (Hfull' : forall o0, In o0 os -> has_key (oname o0) full = true /\ has_key (oname o0) full' = true)
    by (intros o0 H0; apply Hfull; now right).
  destruct (oparent o) as [pn|] eqn:Ep.
  - unfold has_key in F1, F2.
    destruct (lookup (oname o) full) as [v|]; [|discriminate]. destruct (lookup (oname o) full') as [v'|]; [|discriminate].
    rewrite <- (Hk pn). destruct (has_key pn p0) eqn:Hp; [|rewrite (child_fold_err full), (child_fold_err full'); reflexivity].
    apply IH; try assumption.
    + intros k Hin. apply HS. cbn [parents_of flat_map]. rewrite Ep. apply in_app_iff. now right.
    + intros k. unfold has_key. rewrite !lookup_dset. destruct (k =? pn); [reflexivity|apply Hk].
    + intros k Hn. rewrite !lookup_dset. destruct (k =? pn) eqn:E; [|now apply Hl].
      apply Z.eqb_eq in E. subst. exfalso. apply Hn. apply HS. cbn [parents_of flat_map]. rewrite Ep. now left.
  - apply IH; try assumption.
    intros k Hin. apply HS. cbn [parents_of flat_map]. rewrite Ep. exact Hin.
Qed.

Lemma has_key_with_defaults conf os o : In o os -> has_key (oname o) (with_defaults conf os) = true.
Proof.
  intros Hin. unfold has_key. rewrite lookup_with_defaults. destruct (lookup (oname o) conf); [reflexivity|].
  destruct (find (fun o0 => oname o0 =? oname o) os) eqn:F; [reflexivity|].
  exfalso. apply (find_none _ _ F o) in Hin. rewrite Z.eqb_refl in Hin. discriminate.
Qed.

Lemma parents_of_parent_options c : parents_of (copts c) = parent_options c.
Proof. reflexivity. Qed.

Lemma tracked_takes c k : tracked c k = true -> takes c k = true.
Proof. unfold tracked. rewrite takes_opt_of. destruct (opt_of c k); [reflexivity|discriminate]. Qed.

(* ---------- an option the plugin does not track ---------- *)
Theorem entry_untracked_invariant conf c o v :
  tracks c o = false ->
  match plugin_config conf c, plugin_config (dset o v conf) c with
  | Ok pc, Ok pc' => forall k, lookup k (lin_configs c pc) = lookup k (lin_configs c pc')
  | Err e, Err e' => e = e'
  | _, _ => False
  end.
Proof.
  intros Ht. rewrite !plugin_config_unfold. cbn zeta.
  set (full := with_defaults conf (copts c)). set (full' := with_defaults (dset o v conf) (copts c)).
  assert (Hf : forall k, k <> o -> lookup k full = lookup k full').
  { intros k Hk. unfold full, full'. rewrite !lookup_with_defaults, lookup_dset.
    destruct (k =? o) eqn:E; [apply Z.eqb_eq in E; congruence|reflexivity]. }
  assert (Hfk : forall k, takes c k = true -> has_key k full = has_key k full').
  { intros k Hk. unfold has_key, full, full'. rewrite !lookup_with_defaults, lookup_dset.
    destruct (k =? o); [|reflexivity]. destruct (lookup k conf); [reflexivity|].
    rewrite takes_opt_of in Hk. unfold opt_of in Hk. destruct (find _ (copts c)); [reflexivity|discriminate]. }
  set (p0 := filter (fun kv => takes c (fst kv)) full). set (p0' := filter (fun kv => takes c (fst kv)) full').
  assert (Hk0 : forall k, has_key k p0 = has_key k p0').
  { intros k. unfold has_key, p0, p0'. rewrite !(lookup_filter_key (takes c)). destruct (takes c k) eqn:T; [|reflexivity].
    apply (Hfk k T). }
  assert (Hl0 : forall k, k <> o -> lookup k p0 = lookup k p0').
  { intros k Hk. unfold p0, p0'. rewrite !(lookup_filter_key (takes c)). destruct (takes c k); [now apply Hf|reflexivity]. }
  unfold tracks in Ht. unfold lin_configs.
  destruct (cchild c) eqn:Ech.
  - pose proof (child_fold_agree full full' (o :: parent_options c) (copts c) p0 p0') as G.
    destruct (fold_left (child_step full) (copts c) (Ok p0)) as [pc|e], (fold_left (child_step full') (copts c) (Ok p0')) as [pc'|e'].
    + destruct G as (_ & Gl).
      * intros o0 H0. split; apply has_key_with_defaults; exact H0.
      * intros k Hin. right. exact Hin.
      * exact Hk0.
      * intros k Hn. apply Hl0. intros ->. apply Hn. now left.
      * intros k. rewrite !lookup_dupdate. destruct (lookup k (rev _)); [reflexivity|].
        rewrite !(lookup_filter_key (fun k0 => negb (memZ k0 (parent_options c)) && tracked c k0)).
        destruct (memZ k (parent_options c)) eqn:M; cbn [negb andb]; [reflexivity|].
        destruct (tracked c k) eqn:T; [|reflexivity].
        apply Gl. intros [<-|Hin]; [|apply memZ_spec in Hin; congruence].
        rewrite T, M in Ht. discriminate.
    + exfalso. apply G; auto.
      * intros o0 H0. split; apply has_key_with_defaults; exact H0.
      * intros k Hin. right. exact Hin.
      * intros k Hn. apply Hl0. intros ->. apply Hn. now left.
    + exfalso. apply G; auto.
      * intros o0 H0. split; apply has_key_with_defaults; exact H0.
      * intros k Hin. right. exact Hin.
      * intros k Hn. apply Hl0. intros ->. apply Hn. now left.
    + apply G; auto.
      * intros o0 H0. split; apply has_key_with_defaults; exact H0.
      * intros k Hin. right. exact Hin.
      * intros k Hn. apply Hl0. intros ->. apply Hn. now left.
  - cbn [andb negb] in Ht. rewrite andb_true_r in Ht.
    intros k. rewrite !(lookup_filter_key (tracked c)). destruct (tracked c k) eqn:T; [|reflexivity].
    apply Hl0. intros ->. congruence.
Qed.

(* ---------- a tracked option set to a different value ---------- *)
Theorem entry_tracked_changes conf c o v pc pc' :
  tracks c o = true -> ~ In o (map fst (cparents c)) ->
  plugin_config conf c = Ok pc -> plugin_config (dset o v conf) c = Ok pc' ->
  (forall old, lookup o (with_defaults conf (copts c)) = Some old -> norm old <> norm v) ->
  norm_entry (cname c, cversion c, lin_configs c pc) <> norm_entry (cname c, cversion c, lin_configs c pc').
Proof.
  intros Ht Hnp Hp Hp' Hdiff E.
  unfold tracks in Ht. apply andb_true_iff in Ht. destruct Ht as [Htr Hnc].
  pose proof (tracked_takes c o Htr) as Htk.
  unfold norm_entry, entry_value in E. cbn [fst snd] in E. rewrite !norm_tuple in E. cbn [map] in E.
  assert (E' : norm (VDict (lin_configs c pc)) = norm (VDict (lin_configs c pc'))) by congruence.
  apply norm_dict_ext in E'. specialize (E' o).
  (* the value of o in both plugin configurations *)
  rewrite plugin_config_unfold in Hp, Hp'. cbn zeta in Hp, Hp'.
  set (full := with_defaults conf (copts c)) in *. set (full' := with_defaults (dset o v conf) (copts c)) in *.
  assert (Lo' : lookup o full' = Some v).
  { unfold full'. rewrite lookup_with_defaults, lookup_dset, Z.eqb_refl. reflexivity. }
  assert (Ko : has_key o full = true).
  { rewrite takes_opt_of in Htk. unfold opt_of in Htk. destruct (find (fun o0 => oname o0 =? o) (copts c)) as [oo|] eqn:F; [|discriminate].
    pose proof (find_some _ _ F) as (Hin & Hn). apply Z.eqb_eq in Hn. subst o. now apply has_key_with_defaults. }
  unfold has_key in Ko. destruct (lookup o full) as [old|] eqn:Lo; [|discriminate].
  assert (Hpo : lookup o pc = Some old /\ lookup o pc' = Some v).
  { destruct (cchild c) eqn:Ech.
    - assert (Hn : ~ In o (parents_of (copts c))).
      { cbn [andb] in Hnc. intros Hin. apply memZ_spec in Hin. rewrite parents_of_parent_options in *. rewrite Hin in Hnc. discriminate. }
      rewrite (child_fold_other full _ _ _ Hp o Hn), (child_fold_other full' _ _ _ Hp' o Hn).
      rewrite !(lookup_filter_key (takes c)), Htk. auto.
    - inversion Hp; inversion Hp'; subst. rewrite !(lookup_filter_key (takes c)), Htk. auto. }
  destruct Hpo as (Po & Po').
  assert (Lc : forall p, lookup o (lin_configs c p) = lookup o p).
  { intros p. unfold lin_configs. destruct (cchild c) eqn:Ech.
    - rewrite lookup_dupdate.
      assert (Hr : lookup o (rev (map (fun p0 : Z * Z => (fst p0, VStr (snd p0))) (cparents c))) = None).
      { apply lookup_None_keys. unfold keys. rewrite map_rev, map_map. cbn [fst]. intros Hin. apply in_rev in Hin. contradiction. }
      rewrite Hr. rewrite (lookup_filter_key (fun k0 => negb (memZ k0 (parent_options c)) && tracked c k0)).
      rewrite Htr. cbn [andb] in Hnc. rewrite Hnc. reflexivity.
    - rewrite (lookup_filter_key (tracked c)), Htr. reflexivity. }
  rewrite !Lc, Po, Po' in E'. cbn [option_map] in E'. inversion E' as [E2]. exact (Hdiff old eq_refl E2).
Qed.
