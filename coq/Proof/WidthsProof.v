(* compute_widths and compute_center_time equal their defining formulas; the area-fraction time is
   the position at which the cumulative area equals the fraction of the total. *)
From Coq Require Import Lqa.
From SV Require Import Model.Widths Spec.WidthsSpec Proof.PeakPropsProof Proof.HDRSortProof.

(* ------------------------------------------------------------------------------------------ *)
(* compute_center_time *)
Lemma zsum_nonneg d : Forall (fun x => 0 <= x) d -> 0 <= zsum d.
Proof. induction 1 as [|x r Hx _ IH]; cbn [zsum]; lia. Qed.

Lemma wsum_bounds : forall d i, Forall (fun x => 0 <= x) d -> 0 <= i ->
  i * zsum d <= wsum i d <= (i + zlen d - 1) * zsum d.
Proof.
  induction d as [|x r IH]; intros i Hd Hi; cbn [wsum zsum].
  - unfold zlen. cbn [length]. lia.
  - inversion Hd as [|? ? Hx Hr]; subst. pose proof (zsum_nonneg r Hr) as Hs.
    specialize (IH (i + 1) Hr ltac:(lia)). unfold zlen in *. cbn [length]. rewrite Nat2Z.inj_succ.
    assert (0 <= Z.of_nat (length r)) by lia. nia.
Qed.

Theorem center_time_spec time len dt data :
  Forall (fun x => 0 <= x) data -> 0 < zsum data -> 0 < dt -> len = zlen data ->
  center_time time len dt data = center_spec time dt data /\
  time <= center_spec time dt data <= time + len * dt.
Proof.
  intros Hd Hs Hdt ->. unfold center_time, center_spec, zlen. rewrite Nat2Z.id, firstn_all.
  destruct (zsum data =? 0) eqn:E; [lia|]. cbv zeta.
  pose proof (wsum_bounds data 0 Hd ltac:(lia)) as [Hlo Hhi]. unfold zlen in Hhi.
  assert (HN : 0 <= dt * (2 * wsum 0 data + zsum data)) by nia.
  rewrite Z.quot_div_nonneg by lia.
  assert (Hq0 : 0 <= dt * (2 * wsum 0 data + zsum data) / (2 * zsum data)) by (apply Z.div_pos; lia).
  assert (Hq1 : dt * (2 * wsum 0 data + zsum data) / (2 * zsum data) <= Z.of_nat (length data) * dt).
  { apply Z.div_le_upper_bound; [lia|]. nia. }
  unfold clip. lia.
Qed.

Example center_time_example : center_time 100 4 2 [1; 0; 2; 1] = 104.
Proof. vm_compute. reflexivity. Qed.

(* zero-sum peaks: the start time *)
Theorem center_time_empty time len dt data : 0 <= len * dt ->
  zsum (firstn (Z.to_nat len) data) = 0 -> center_time time len dt data = time.
Proof. intros Hl Hs. unfold center_time. rewrite Hs. cbn. unfold clip. lia. Qed.

(* ------------------------------------------------------------------------------------------ *)
(* the area-fraction time is where the cumulative area equals f * A *)
Lemma cum_at_0 data : (cum_at data 0 == 0)%Q.
Proof. destruct data as [|x d]; cbn; reflexivity. Qed.

Global Instance cum_at_proper data : Proper (Qeq ==> Qeq) (cum_at data).
Proof.
  induction data as [|x d IH]; intros t t' E; cbn [cum_at]; [reflexivity|].
  rewrite (Qleb_comp 1%Q 1%Q (Qeq_refl 1%Q) t t' E), (Qleb_comp t t' E 0%Q 0%Q (Qeq_refl 0%Q)).
  destruct (Qle_bool 1 t').
  - rewrite (IH (t - 1)%Q (t' - 1)%Q); [reflexivity|]. rewrite E. reflexivity.
  - destruct (Qle_bool t' 0); [reflexivity|]. rewrite E. reflexivity.
Qed.

Section AFT.
Variable A : Q.
Hypothesis HA : (0 < A)%Q.

Lemma qle_div_A f seen x : Qle_bool f (seen + x / A) = true <-> (f * A <= seen * A + x)%Q.
Proof.
  rewrite Qle_bool_iff. assert (Hn : ~ (A == 0)%Q) by (intros E; rewrite E in HA; now apply Qlt_irrefl in HA).
  split; intros H.
  - apply (Qmult_le_compat_r _ _ A) in H; [|apply Qlt_le_weak, HA].
    assert (E : ((seen + x / A) * A == seen * A + x)%Q) by (field; exact Hn). rewrite E in H. exact H.
  - apply (Qmult_le_r _ _ A HA). assert (E : ((seen + x / A) * A == seen * A + x)%Q) by (field; exact Hn).
    rewrite E. exact H.
Qed.

(* reached: the position t lies in the sample range, and the area left of it (plus what was seen
   before the scan started) is exactly f * A *)
Theorem iof1_cum f : forall data i seen t,
  Forall (fun x => 0 <= x)%Q data -> (seen <= f)%Q ->
  iof1 A data i seen f = Some t ->
  (inject_Z i <= t <= inject_Z i + inject_Z (zlen data))%Q /\
  (seen * A + cum_at data (t - inject_Z i) == f * A)%Q.
Proof.
  induction data as [|x d IH]; intros i seen t Hd Hs E; cbn [iof1] in E; [discriminate|].
  inversion Hd as [|? ? Hx Hd']; subst.
  assert (Hlen : (inject_Z (zlen (x :: d)) == 1 + inject_Z (zlen d))%Q).
  { unfold zlen. cbn [length]. rewrite Nat2Z.inj_succ, <- Z.add_1_l, inject_Z_plus. reflexivity. }
  assert (Hld : (0 <= inject_Z (zlen d))%Q).
  { change 0%Q with (inject_Z 0). rewrite <- Zle_Qle. unfold zlen. lia. }
  destruct (Qle_bool f (seen + x / A)) eqn:E1.
  - injection E as <-. apply qle_div_A in E1. unfold iof_value.
    destruct (Qeq_bool x 0) eqn:Ex.
    + apply Qeq_bool_iff in Ex. rewrite Hlen. split; [split; lra|].
      setoid_replace (inject_Z i - inject_Z i)%Q with 0%Q by ring. rewrite cum_at_0.
      rewrite Ex in E1. assert (Hfa : (f * A <= seen * A)%Q) by lra.
      assert (Hsa : (seen * A <= f * A)%Q) by (apply Qmult_le_compat_r; [exact Hs|apply Qlt_le_weak, HA]).
      lra.
    + assert (Hx0 : ~ (x == 0)%Q) by (intros Hc; apply Qeq_bool_iff in Hc; congruence).
      assert (Hxp : (0 < x)%Q) by (apply Qle_lteq in Hx; destruct Hx as [?|Hc]; [assumption|symmetry in Hc; contradiction]).
      set (u := (A * (f - seen) / x)%Q).
      assert (Hu : (u * x == f * A - seen * A)%Q) by (unfold u; field; exact Hx0).
      assert (Hsa : (seen * A <= f * A)%Q) by (apply Qmult_le_compat_r; [exact Hs|apply Qlt_le_weak, HA]).
      assert (Hu0 : (0 <= u)%Q).
      { apply (Qmult_le_r _ _ x Hxp). rewrite Hu. lra. }
      assert (Hu1 : (u <= 1)%Q).
      { apply (Qmult_le_r _ _ x Hxp). rewrite Hu. lra. }
      rewrite Hlen. split; [split; lra|].
      setoid_replace (inject_Z i + u - inject_Z i)%Q with u by ring.
      cbn [cum_at]. destruct (Qle_bool 1 u) eqn:E2.
      * apply Qle_bool_iff in E2. assert (Hu_eq : (u == 1)%Q) by (apply Qle_antisym; assumption).
        setoid_replace (u - 1)%Q with 0%Q by (rewrite Hu_eq; ring). rewrite cum_at_0.
        rewrite Hu_eq in Hu. lra.
      * destruct (Qle_bool u 0) eqn:E3.
        -- apply Qle_bool_iff in E3. assert (Hu_eq : (u == 0)%Q) by (apply Qle_antisym; assumption).
           rewrite Hu_eq in Hu. lra.
        -- lra.
  - assert (Hnot : ~ (f * A <= seen * A + x)%Q).
    { intros Hc. apply qle_div_A in Hc. congruence. }
    apply Qnot_le_lt in Hnot.
    assert (Hn : ~ (A == 0)%Q) by (intros Ez; rewrite Ez in HA; now apply Qlt_irrefl in HA).
    assert (Hs' : (seen + x / A <= f)%Q).
    { apply (Qmult_le_r _ _ A HA). assert (Ee : ((seen + x / A) * A == seen * A + x)%Q) by (field; exact Hn).
      rewrite Ee. lra. }
    destruct (IH (i + 1) (seen + x / A)%Q t Hd' Hs' E) as [[Hlo Hhi] Hc].
    rewrite inject_Z_plus in Hlo, Hhi, Hc. change (inject_Z 1) with 1%Q in Hlo, Hhi, Hc. rewrite Hlen. split; [split; lra|].
    cbn [cum_at]. assert (H1 : Qle_bool 1 (t - inject_Z i) = true) by (apply Qle_bool_iff; lra).
    rewrite H1. setoid_replace (t - inject_Z i - 1)%Q with (t - (inject_Z i + 1))%Q by ring.
    assert (Ee : ((seen + x / A) * A == seen * A + x)%Q) by (field; exact Hn).
    rewrite Ee in Hc. lra.
Qed.

(* every fraction up to the part of A the samples hold is reached *)
Theorem iof1_reached f : forall data i seen,
  data <> [] -> (f * A <= seen * A + qsum data)%Q -> iof1 A data i seen f <> None.
Proof.
  induction data as [|x d IH]; intros i seen Hne Hf; [contradiction|]. cbn [iof1].
  destruct (Qle_bool f (seen + x / A)) eqn:E1; [discriminate|].
  assert (Hnot : ~ (f * A <= seen * A + x)%Q) by (intros Hc; apply qle_div_A in Hc; congruence).
  apply Qnot_le_lt in Hnot. cbn [qsum fold_right] in Hf. fold (qsum d) in Hf.
  assert (Hn : ~ (A == 0)%Q) by (intros Ez; rewrite Ez in HA; now apply Qlt_irrefl in HA).
  assert (Ee : ((seen + x / A) * A == seen * A + x)%Q) by (field; exact Hn).
  apply IH.
  - intros ->. cbn in Hf. lra.
  - rewrite Ee. lra.
Qed.
End AFT.

(* ------------------------------------------------------------------------------------------ *)
(* compute_widths *)
Lemma set_last_app (l : list Q) x v : set_last (l ++ [x]) v = l ++ [v].
Proof.
  induction l as [|a l IH]; [reflexivity|]. cbn [app].
  change (set_last (a :: (l ++ [x])) v)
    with (match l ++ [x] with [] => [v] | _ :: _ => a :: set_last (l ++ [x]) v end).
  rewrite IH. destruct l; reflexivity.
Qed.

Lemma find_app_false {X} (p : X -> bool) l r :
  Forall (fun y => p y = false) l -> find p (l ++ r) = find p r.
Proof. induction 1 as [|y l Hy _ IH]; cbn [app find]; [reflexivity|]. now rewrite Hy. Qed.

Lemma qget_map (g : Q -> Q) l m : 0 <= m < zlen l -> qget (map g l) m = g (qget l m).
Proof.
  intros H. unfold qget. rewrite (nth_indep _ 0%Q (g 0%Q)) by (rewrite map_length; unfold zlen in H; lia).
  apply map_nth.
Qed.

Lemma frac_sorted p : forall k i, qsorted (map (fun m => (m # p)%Q) (zseqn i k)).
Proof.
  induction k as [|k IH]; intros i; cbn [zseqn map]; constructor; [|apply IH].
  rewrite Forall_map, Forall_forall. intros m Hm. apply zseqn_In in Hm.
  unfold Qle. cbn [Qnum Qden]. apply Z.mul_le_mono_nonneg_r; lia.
Qed.

Lemma width_fractions_split K : (2 <= K)%nat ->
  width_fractions K = map (wfrac K) (zseqn 0 (2 * K - 2)) ++ [wfrac K (2 * Z.of_nat K - 2)].
Proof.
  intros HK. destruct K as [|[|K']]; [lia|lia|]. unfold width_fractions.
  replace (2 * S (S K') - 1)%nat with ((2 * S (S K') - 2) + 1)%nat by lia.
  rewrite zseqn_app, map_app. cbn [zseqn map]. unfold wfrac. do 3 f_equal. lia.
Qed.

Lemma wfrac_last_one K : (2 <= K)%nat -> Qeq_bool (wfrac K (2 * Z.of_nat K - 2)) 1 = true.
Proof.
  intros HK. apply Qeq_bool_iff. unfold wfrac, Qeq. cbn [Qnum Qden].
  assert (E : Z.pos (Pos.of_nat (2 * (K - 1))) = 2 * Z.of_nat K - 2).
  { rewrite <- positive_nat_Z, Nat2Pos.id by lia. lia. }
  rewrite E. lia.
Qed.

Theorem compute_widths_spec K A len dt data : (2 <= K)%nat -> (0 < A)%Q ->
  (forall m, 0 <= m < 2 * Z.of_nat K - 2 -> iof1 A data 0 0%Q (wfrac K m) <> None) ->
  compute_widths K A len dt data = widths_spec K A len dt data.
Proof.
  intros HK HA Hr. unfold compute_widths. cbv zeta.
  set (g := fun f => qdflt (iof1 A data 0 0%Q f)).
  set (pre := map (wfrac K) (zseqn 0 (2 * K - 2))).
  set (one := wfrac K (2 * Z.of_nat K - 2)).
  assert (Hfr : width_fractions K = pre ++ [one]) by (apply width_fractions_split, HK).
  assert (Hn : zlen (width_fractions K) = 2 * Z.of_nat K - 1).
  { rewrite Hfr. unfold zlen, pre. rewrite app_length, map_length, zseqn_length. cbn [length]. lia. }
  assert (HL : iof_peak A len data (width_fractions K) = map g pre ++ [inject_Z len]).
  { unfold iof_peak. assert (E0 : Qle_bool A 0 = false).
    { destruct (Qle_bool A 0) eqn:E; [|reflexivity]. apply Qle_bool_iff in E. exfalso.
      apply (Qlt_not_le _ _ HA), E. }
    rewrite E0, index_of_fraction_spec.
    2:{ destruct K as [|[|K']]; [lia|lia|]. unfold width_fractions. apply frac_sorted. }
    unfold iof_spec. rewrite Hfr, map_app. cbn [map]. rewrite last_last.
    assert (Hfind : match find (fun f => is_none (iof1 A data 0 0%Q f)) (pre ++ [one]) with
                    | Some f => f | None => one end = one).
    { rewrite find_app_false.
      - cbn [find]. destruct (is_none (iof1 A data 0 0%Q one)); reflexivity.
      - unfold pre. rewrite Forall_map, Forall_forall. intros m Hm. apply zseqn_In in Hm.
        specialize (Hr m ltac:(lia)). destruct (iof1 A data 0 0%Q (wfrac K m)); [reflexivity|contradiction]. }
    rewrite Hfind. unfold one at 1. rewrite wfrac_last_one by exact HK. apply set_last_app. }
  assert (Hget : forall m, 0 <= m <= 2 * Z.of_nat K - 2 ->
            qget (map g pre ++ [inject_Z len]) m = aft K A len data m).
  { intros m Hm. unfold qget, aft. destruct (m =? 2 * Z.of_nat K - 2) eqn:E.
    - rewrite app_nth2; rewrite map_length; unfold pre; rewrite map_length, zseqn_length; [|lia].
      replace (Z.to_nat m - (2 * K - 2))%nat with 0%nat by lia. reflexivity.
    - rewrite app_nth1 by (rewrite map_length; unfold pre; rewrite map_length, zseqn_length; lia).
      rewrite (nth_indep _ 0%Q (g (wfrac K 0))) by (rewrite map_length; unfold pre; rewrite map_length, zseqn_length; lia).
      rewrite map_nth. unfold pre. rewrite map_nth. rewrite zseqn_nth by lia.
      unfold g. do 3 f_equal. lia. }
  assert (Ht : forall m, 0 <= m <= 2 * Z.of_nat K - 2 ->
            qget (map (fun x => (x * inject_Z dt)%Q) (iof_peak A len data (width_fractions K))) m =
            (aft K A len data m * inject_Z dt)%Q).
  { intros m Hm. rewrite HL, qget_map.
    - now rewrite Hget.
    - unfold zlen. rewrite app_length, map_length. unfold pre. rewrite map_length, zseqn_length. cbn [length]. lia. }
  rewrite Hn. replace ((2 * Z.of_nat K - 1) / 2) with (Z.of_nat K - 1) by lia.
  replace (Z.to_nat (2 * Z.of_nat K - 1 - (Z.of_nat K - 1))) with K by lia.
  replace (Z.to_nat ((2 * Z.of_nat K - 1 + 1) / 2)) with K by lia.
  unfold widths_spec. cbv zeta. f_equal; [f_equal|].
  - apply Ht. lia.
  - apply map_ext_in. intros k Hk. apply zseqn_In in Hk. rewrite !Ht by lia.
    replace (2 * Z.of_nat K - 1 - 1 - (Z.of_nat K - 1 + k)) with (Z.of_nat K - 1 - k) by lia. reflexivity.
  - apply map_ext_in. intros k Hk. apply zseqn_In in Hk. rewrite !Ht by lia. reflexivity.
Qed.

(* a proper peak (non-negative samples, area = their sum > 0): every fraction is reached, so the
   formulas hold; the times are within the peak *)
Theorem widths_proper_peak K A len dt data : (2 <= K)%nat -> (0 < A)%Q ->
  Forall (fun x => 0 <= x)%Q data -> (A == qsum data)%Q ->
  compute_widths K A len dt data = widths_spec K A len dt data /\
  forall m t, 0 <= m <= 2 * Z.of_nat K - 2 -> iof1 A data 0 0%Q (wfrac K m) = Some t ->
    (0 <= t <= inject_Z (zlen data))%Q /\ (cum_at data t == wfrac K m * A)%Q.
Proof.
  intros HK HA Hd HAs.
  assert (Hw : forall m, 0 <= m <= 2 * Z.of_nat K - 2 -> (0 <= wfrac K m)%Q /\ (wfrac K m <= 1)%Q).
  { intros m Hm. unfold wfrac, Qle. cbn [Qnum Qden].
    assert (E : Z.pos (Pos.of_nat (2 * (K - 1))) = 2 * Z.of_nat K - 2).
    { rewrite <- positive_nat_Z, Nat2Pos.id by lia. lia. }
    rewrite E. lia. }
  split.
  - apply compute_widths_spec; [exact HK|exact HA|]. intros m Hm. apply iof1_reached; [exact HA| |].
    + intros ->. cbn in HAs. rewrite HAs in HA. now apply Qlt_irrefl in HA.
    + destruct (Hw m ltac:(lia)) as [_ H1]. rewrite <- HAs.
      assert ((wfrac K m) * A <= 1 * A)%Q by (apply Qmult_le_compat_r; [exact H1|apply Qlt_le_weak, HA]). lra.
  - intros m t Hm E. destruct (Hw m Hm) as [H0 _].
    destruct (iof1_cum A HA (wfrac K m) data 0 0%Q t Hd H0 E) as [[Hlo Hhi] Hc].
    change (inject_Z 0) with 0%Q in *. split; [split; lra|].
    assert (Et : (t - 0 == t)%Q) by ring. rewrite Et in Hc. lra.
Qed.

Example widths_example :
  let '(m, w, d) := compute_widths 3 4 4 2 [1; 1; 1; 1]%Q in
  (Qred m, map Qred w, map Qred d) = (4, [0; 4; 8], [-4; 0; 4])%Q.
Proof. vm_compute. reflexivity. Qed.
