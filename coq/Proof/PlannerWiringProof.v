(* C11 — proofs about the planner model, part 5: one origin per topic in the processors' wiring. *)
From SV Require Import Spec.PlannerSpec Proof.PlannerProof Proof.PlannerSaversProof Proof.PlannerDfsProof
  Proof.PlannerTopProof.

Local Open Scope nat_scope.
Local Arguments multi_output : simpl never.

(* ---------------------------------------------------------------------------------------------- *)
(* list facts                                                                                    *)
(* ---------------------------------------------------------------------------------------------- *)

Lemma NoDup_app_intro {A} (l1 l2 : list A) :
  NoDup l1 -> NoDup l2 -> (forall x, In x l1 -> In x l2 -> False) -> NoDup (l1 ++ l2).
Proof.
  induction l1 as [|a l1 IH]; cbn; intros H1 H2 Hd; [exact H2|].
  inversion H1; subst. constructor.
  - rewrite in_app_iff. intros [Hi|Hi]; [contradiction|]. apply (Hd a); [left; reflexivity | exact Hi].
  - apply IH; auto. intros x Hx1 Hx2. apply (Hd x); [right; exact Hx1 | exact Hx2].
Qed.

Lemma NoDup_app_disj {A} (l1 l2 : list A) x : NoDup (l1 ++ l2) -> In x l1 -> In x l2 -> False.
Proof.
  induction l1 as [|a l1 IH]; cbn; intros H H1 H2; [destruct H1|].
  inversion H; subst. destruct H1 as [->|H1].
  - apply H4. apply in_or_app. right. exact H2.
  - apply IH; assumption.
Qed.

Lemma NoDup_app_l {A} (l1 l2 : list A) : NoDup (l1 ++ l2) -> NoDup l1.
Proof.
  induction l1 as [|a l1 IH]; cbn; intros H; [constructor|]. inversion H; subst. constructor.
  - intros Hi. apply H2. apply in_or_app. left. exact Hi.
  - apply IH. exact H3.
Qed.

Lemma NoDup_app_r {A} (l1 l2 : list A) : NoDup (l1 ++ l2) -> NoDup l2.
Proof. induction l1 as [|a l1 IH]; cbn; intros H; [exact H|]. inversion H; subst. apply IH. exact H3. Qed.

Lemma NoDup_flat_map_elem {A B} (f : A -> list B) l x : NoDup (flat_map f l) -> In x l -> NoDup (f x).
Proof.
  induction l as [|a l IH]; cbn; intros H Hin; [destruct Hin|]. destruct Hin as [->|Hin].
  - eapply NoDup_app_l; eauto.
  - apply IH; [eapply NoDup_app_r; eauto | exact Hin].
Qed.

Lemma NoDup_flat_map_key {A B K} (key : A -> K) (f : A -> list B) l :
  NoDup (map key l) ->
  (forall x, In x l -> NoDup (f x)) ->
  (forall x y t, In x l -> In y l -> In t (f x) -> In t (f y) -> key x = key y) ->
  NoDup (flat_map f l).
Proof.
  induction l as [|a l IH]; cbn; intros Hk Hn Hd; [constructor|].
  inversion Hk; subst. apply NoDup_app_intro.
  - apply Hn. left. reflexivity.
  - apply IH; [assumption | intros; apply Hn; right; assumption|].
    intros x y t Hx Hy. apply Hd; right; assumption.
  - intros t Ht1 Ht2. apply in_flat_map in Ht2. destruct Ht2 as [y [Hy Hty]].
    apply H1. rewrite (Hd a y t); [apply in_map; exact Hy | left; reflexivity | right; exact Hy | exact Ht1 | exact Hty].
Qed.

Lemma nodupb_NoDup l : nodupb l = true -> NoDup l.
Proof.
  induction l as [|a l IH]; cbn; intros H; [constructor|].
  apply andb_true_iff in H. destruct H as [H1 H2]. apply negb_true_iff in H1. apply mem_false in H1.
  constructor; [exact H1 | apply IH; exact H2].
Qed.

Lemma map_fst_flat_map {A B C} (F : A -> list (B * C)) (T : A -> list B) l :
  (forall x, In x l -> map fst (F x) = T x) -> map fst (flat_map F l) = flat_map T l.
Proof.
  induction l as [|a l IH]; cbn; intros H; [reflexivity|].
  rewrite map_app, H by (left; reflexivity). rewrite IH; [reflexivity|]. intros; apply H; right; assumption.
Qed.

(* ---------------------------------------------------------------------------------------------- *)
(* unique providers                                                                               *)
(* ---------------------------------------------------------------------------------------------- *)

Lemma find_plugin_unique g : forall i j p t,
  NoDup (flat_map p_prov g) -> nth_error g j = Some p -> In t (p_prov p) ->
  find_plugin g i t = Some (i + j, p).
Proof.
  induction g as [|q g IH]; intros i j p t Hnd Hn Ht; [destruct j; discriminate|].
  cbn [flat_map] in Hnd. cbn [find_plugin]. destruct j as [|j]; cbn [nth_error] in Hn.
  - inversion Hn; subst q. apply mem_In in Ht. rewrite Ht. rewrite Nat.add_0_r. reflexivity.
  - destruct (mem t (p_prov q)) eqn:Em.
    + exfalso. apply mem_In in Em. eapply NoDup_app_disj; [exact Hnd | exact Em|].
      apply in_flat_map. exists p. split; [eapply nth_error_In; eauto | exact Ht].
    + rewrite (IH (S i) j p t); [f_equal; f_equal; lia | eapply NoDup_app_r; eauto | exact Hn | exact Ht].
Qed.

Lemma single_output_prov p d : multi_output p = false -> In d (p_prov p) -> p_prov p = [d].
Proof.
  unfold multi_output, p_prov. intros Hm Hin. apply Nat.ltb_ge in Hm.
  destruct (p_out p) as [|a [|b r]]; cbn in *; [destruct Hin | | lia].
  destruct Hin as [->|[]]. reflexivity.
Qed.

Section Wiring.
  Variables (g : graph) (cx : context) (rq : request) (c : components).
  Hypothesis Hwf : wf_graph g.
  Hypothesis Hc : get_components g cx rq = Ok c.

  Lemma wf_nodup : NoDup (all_provs g).
  Proof.
    pose proof Hwf as H. unfold wf_graph, wf_graphb in H.
    apply andb_true_iff in H. destruct H as [H _]. apply andb_true_iff in H. destruct H as [_ H].
    apply nodupb_NoDup. exact H.
  Qed.

  Lemma provider_unique j p t : nth_error g j = Some p -> In t (p_prov p) -> plugin_of g t = Some (j, p).
  Proof. intros Hn Ht. unfold plugin_of. rewrite (find_plugin_unique g 0 j p t wf_nodup Hn Ht). reflexivity. Qed.

  Lemma disjoint_pl x : In x (k_plugins c) -> In x (k_loaders c) -> False.
  Proof.
    destruct (computes_exactly_missing g cx rq c Hc) as [P1 [P2 _]]. intros H1 H2.
    apply P1 in H1. apply P2 in H2. destruct H1 as [_ H1]. destruct H2 as [_ H2].
    unfold unstored in H1. unfold stored in H2. congruence.
  Qed.

  Lemma running_spec d j p : In (d, j, p) (running g c) -> In d (k_plugins c) /\ plugin_of g d = Some (j, p).
  Proof. intros H. apply plugins_once_spec in H. tauto. Qed.

  Lemma running_nth d j p : In (d, j, p) (running g c) -> nth_error g j = Some p /\ In d (p_prov p).
  Proof. intros H. apply running_spec in H. destruct H as [_ H]. apply plugin_of_some in H. tauto. Qed.

  Lemma computed_has_plugin d : In d (k_plugins c) -> exists j p, plugin_of g d = Some (j, p).
  Proof.
    intros H. destruct (get_components_ok g cx rq c Hc) as [st [Hfs _]].
    destruct (computes_exactly_missing g cx rq c Hc) as [P1 _]. apply P1 in H. destruct H as [Hn Hu].
    destruct (computed_done g cx rq st Hfs d Hn Hu) as [j [p [Hp _]]]. eauto.
  Qed.

  Lemma running_complete d j p : In d (k_plugins c) -> plugin_of g d = Some (j, p) -> exists d', In (d', j, p) (running g c).
  Proof.
    intros H Hp. destruct (plugins_once_complete g _ [] _ _ _ H Hp) as [[]|H']. exact H'.
  Qed.

  (* the topics a running plugin feeds in the repaired threaded wiring / the post office *)
  Definition topics_fixed (x : dt * nat * plugin) : list dt :=
    match x with
    | (d, j, p) => if multi_output p then filter (fun k => negb (mem k (k_loaders c))) (p_prov p) else [d]
    end.

  Lemma topics_fixed_sub d j p t : In (d, j, p) (running g c) -> In t (topics_fixed (d, j, p)) ->
    In t (p_prov p) /\ ~ In t (k_loaders c).
  Proof.
    intros Hr Ht. cbn in Ht. destruct (multi_output p).
    - apply filter_In in Ht. destruct Ht as [H1 H2]. apply negb_true_iff in H2. apply mem_false in H2. tauto.
    - destruct Ht as [<-|[]]. destruct (running_nth _ _ _ Hr) as [_ Hd]. split; [exact Hd|].
      intros Hl. eapply disjoint_pl; [|exact Hl]. apply running_spec in Hr. tauto.
  Qed.

  Lemma fixed_topics : map fst (wiring_fixed g c) = k_loaders c ++ flat_map topics_fixed (running g c).
  Proof.
    unfold wiring_fixed, loader_wires. rewrite map_app, map_map. cbn. rewrite map_id. f_equal.
    apply map_fst_flat_map. intros [[d j] p] _. cbn. destruct (multi_output p); [|reflexivity].
    rewrite map_map. cbn. apply map_id.
  Qed.

  Lemma fixed_nodup : NoDup (map fst (wiring_fixed g c)).
  Proof.
    rewrite fixed_topics. destruct (computes_exactly_missing g cx rq c Hc) as [_ [_ [_ [NL _]]]].
    apply NoDup_app_intro; [exact NL| |].
    - apply (NoDup_flat_map_key (fun x => snd (fst x))).
      + apply plugins_once_nodup.
      + intros [[d j] p] Hr. cbn. destruct (multi_output p); [|repeat constructor; intros []].
        apply NoDup_filter. destruct (running_nth _ _ _ Hr) as [Hn _].
        apply (NoDup_flat_map_elem p_prov g p wf_nodup). eapply nth_error_In; eauto.
      + intros [[d j] p] [[d' j'] p'] t Hx Hy Ht Ht'. cbn.
        destruct (topics_fixed_sub _ _ _ _ Hx Ht) as [T1 _]. destruct (topics_fixed_sub _ _ _ _ Hy Ht') as [T2 _].
        destruct (running_nth _ _ _ Hx) as [N1 _]. destruct (running_nth _ _ _ Hy) as [N2 _].
        pose proof (provider_unique _ _ _ N1 T1) as U1. pose proof (provider_unique _ _ _ N2 T2) as U2.
        rewrite U1 in U2. inversion U2. reflexivity.
    - intros t Hl Ht. apply in_flat_map in Ht. destruct Ht as [[[d j] p] [Hr Ht]].
      destruct (topics_fixed_sub _ _ _ _ Hr Ht) as [_ Hn]. contradiction.
  Qed.

  Lemma fixed_entries t o : In (t, o) (wiring_fixed g c) ->
    (o = OLoader t /\ In t (k_loaders c)) \/
    (exists d j p, o = OPlugin j /\ In (d, j, p) (running g c) /\ In t (topics_fixed (d, j, p))).
  Proof.
    unfold wiring_fixed, loader_wires. rewrite in_app_iff. intros [H|H].
    - apply in_map_iff in H. destruct H as [d [He Hd]]. inversion He; subst. left. auto.
    - apply in_flat_map in H. destruct H as [[[d j] p] [Hr Ht]]. right. exists d, j, p.
      cbn in *. destruct (multi_output p).
      + apply in_map_iff in Ht. destruct Ht as [k [He Hk]]. inversion He; subst. auto.
      + destruct Ht as [He|[]]. inversion He; subst. split; [reflexivity|]. split; [exact Hr | left; reflexivity].
  Qed.

  Lemma fixed_wired d j p t : In (d, j, p) (running g c) -> In t (p_prov p) -> ~ In t (k_loaders c) ->
    In (t, OPlugin j) (wiring_fixed g c).
  Proof.
    intros Hr Ht Hn. unfold wiring_fixed. apply in_or_app. right. apply in_flat_map.
    exists (d, j, p). split; [exact Hr|]. cbn. destruct (multi_output p) eqn:Em.
    - apply in_map_iff. exists t. split; [reflexivity|]. apply filter_In. split; [exact Ht|].
      apply negb_true_iff. apply mem_false. exact Hn.
    - destruct (running_nth _ _ _ Hr) as [_ Hd]. rewrite (single_output_prov p d Em Hd) in Ht.
      destruct Ht as [<-|[]]. left. reflexivity.
  Qed.

  (* every needed data type has its producer *)
  Lemma needed_wired t : needed g cx rq t -> exists o, In (t, o) (wiring_fixed g c).
  Proof.
    intros Hn. destruct (computes_exactly_missing g cx rq c Hc) as [P1 [P2 _]].
    destruct (loadable (c_fes cx) t) eqn:El.
    - exists (OLoader t). unfold wiring_fixed, loader_wires. apply in_or_app. left.
      apply in_map_iff. exists t. split; [reflexivity|]. apply P2. split; assumption.
    - assert (Hp : In t (k_plugins c)) by (apply P1; split; assumption).
      destruct (computed_has_plugin _ Hp) as [j [p Hpl]]. destruct (running_complete _ _ _ Hp Hpl) as [d' Hr].
      exists (OPlugin j). eapply fixed_wired; [exact Hr | apply plugin_of_some in Hpl; tauto|].
      intros Hl. eapply disjoint_pl; eauto.
  Qed.

  Theorem one_origin_fixed : one_origin g c (wiring_fixed g c).
  Proof.
    split; [exact fixed_nodup|]. split.
    - intros t o H. unfold expected_origin. destruct (fixed_entries _ _ H) as [[-> Hl]|[d [j [p [-> [Hr Ht]]]]]].
      + apply mem_In in Hl. rewrite Hl. reflexivity.
      + destruct (topics_fixed_sub _ _ _ _ Hr Ht) as [T1 T2]. apply mem_false in T2. rewrite T2.
        destruct (running_nth _ _ _ Hr) as [N1 _]. rewrite (provider_unique _ _ _ N1 T1). reflexivity.
    - intros t Ht. unfold consumed in Ht. rewrite !in_app_iff in Ht.
      destruct (computes_exactly_missing g cx rq c Hc) as [P1 [P2 _]].
      destruct Ht as [Ht|[Ht|Ht]].
      + (* the final target *)
        destruct (get_components_ok g cx rq c Hc) as [st [Hfs [_ [_ [_ Ef]]]]]. rewrite Ef in Ht.
        unfold final_candidates in Ht.
        assert (Hgen : In t (filter (fun t0 => mem t0 (flat_map (fun x => p_prov (snd x)) (plugins_once g (k_plugins c) []))
                                   && negb (mem t0 (flat_map (fun x => p_deps (snd x)) (plugins_once g (k_plugins c) [])))
                                   && negb (mem t0 (k_loaders c))) (nodup Nat.eq_dec (r_targets rq))) ->
                       exists o, In (t, o) (wiring_fixed g c)).
        { intros Hf. apply filter_In in Hf. destruct Hf as [_ Hb].
          apply andb_true_iff in Hb. destruct Hb as [Hb Hb3]. apply andb_true_iff in Hb. destruct Hb as [Hb1 _].
          apply mem_In in Hb1. apply negb_true_iff in Hb3. apply mem_false in Hb3.
          apply in_flat_map in Hb1. destruct Hb1 as [[[d j] p] [Hr Hp]]. cbn in Hp.
          exists (OPlugin j). eapply fixed_wired; eauto. }
        destruct (r_targets rq) as [|t0 [|t1 r]] eqn:Et; [apply Hgen; exact Ht | | apply Hgen; exact Ht].
        destruct Ht as [<-|[]]. apply needed_wired. apply needed_target. rewrite Et. left. reflexivity.
      + (* a dependency of a running plugin *)
        apply in_flat_map in Ht. destruct Ht as [[[d j] p] [Hr Hd]]. cbn in Hd.
        destruct (running_spec _ _ _ Hr) as [Hk Hp]. apply P1 in Hk. destruct Hk as [Hn Hu].
        apply needed_wired. eapply needed_dep; eauto.
      + (* a saved data type *)
        apply in_map_iff in Ht. destruct Ht as [[d2 fl] [He Hs]]. cbn in He. subst d2.
        destruct (saves_by_policy g cx rq c Hc) as [S1 _]. apply S1 in Hs.
        destruct Hs as [x [j [p [Hn [Hu [Hp [_ [Hin [Hu2 _]]]]]]]]].
        assert (Hk : In x (k_plugins c)) by (apply P1; split; assumption).
        destruct (running_complete _ _ _ Hk Hp) as [d' Hr].
        exists (OPlugin j). eapply fixed_wired; [exact Hr | exact Hin|].
        intros Hl. apply P2 in Hl. destruct Hl as [_ Hl]. unfold stored in Hl. unfold unstored in Hu2. congruence.
  Qed.

  (* ---- the post office registers exactly this wiring and never refuses a producer ---- *)

  Lemma register_loaders_ok : forall ls w,
    NoDup (map fst w ++ ls) -> register_loaders ls w = Ok (w ++ map (fun d => (d, OLoader d)) ls).
  Proof.
    induction ls as [|d r IH]; intros w H; cbn [register_loaders map]; [rewrite app_nil_r; reflexivity|].
    destruct (mem d (map fst w)) eqn:Em.
    - exfalso. apply mem_In in Em. eapply NoDup_app_disj; [exact H | exact Em | left; reflexivity].
    - rewrite IH.
      + rewrite <- app_assoc. reflexivity.
      + rewrite map_app. cbn. rewrite <- app_assoc. exact H.
  Qed.

  Lemma register_all_ok j : forall ts w,
    NoDup (map fst w ++ ts) -> register_all j ts w = Ok (w ++ map (fun t => (t, OPlugin j)) ts).
  Proof.
    induction ts as [|d r IH]; intros w H; cbn [register_all map]; [rewrite app_nil_r; reflexivity|].
    destruct (mem d (map fst w)) eqn:Em.
    - exfalso. apply mem_In in Em. eapply NoDup_app_disj; [exact H | exact Em | left; reflexivity].
    - rewrite IH.
      + rewrite <- app_assoc. reflexivity.
      + rewrite map_app. cbn. rewrite <- app_assoc. exact H.
  Qed.

  Definition entries_fixed (x : dt * nat * plugin) : wiring :=
    map (fun t => (t, OPlugin (snd (fst x)))) (topics_fixed x).

  Lemma register_plugins_ok : forall run w,
    (forall d j p, In (d, j, p) run -> In d (p_prov p)) ->
    NoDup (map fst w ++ flat_map topics_fixed run) ->
    register_plugins c run w = Ok (w ++ flat_map entries_fixed run).
  Proof.
    induction run as [|[[d j] p] r IH]; intros w Hd H; cbn [register_plugins flat_map]; [rewrite app_nil_r; reflexivity|].
    assert (Ht : match p_prov p with [t] => [t] | ts => filter (fun k => negb (mem k (k_loaders c))) ts end
                 = topics_fixed (d, j, p)).
    { cbn. pose proof (Hd d j p (or_introl eq_refl)) as Hin. unfold multi_output, p_prov in *.
      destruct (p_out p) as [|a [|b l]]; cbn in *; [destruct Hin | | reflexivity].
      destruct Hin as [->|[]]. reflexivity. }
    rewrite Ht. cbn [flat_map] in H. rewrite app_assoc in H.
    rewrite register_all_ok by (eapply NoDup_app_l; exact H). cbn [res_bind].
    rewrite IH.
    - unfold entries_fixed at 2. cbn [fst snd]. rewrite <- app_assoc. reflexivity.
    - intros; eapply Hd; right; eauto.
    - rewrite map_app, map_map. cbn. rewrite map_id. exact H.
  Qed.

  Lemma fixed_as_entries : wiring_fixed g c = loader_wires c ++ flat_map entries_fixed (running g c).
  Proof.
    unfold wiring_fixed. f_equal. apply flat_map_ext. intros [[d j] p]. unfold entries_fixed. cbn.
    destruct (multi_output p); reflexivity.
  Qed.

  Theorem wiring_single_is_fixed : wiring_single g c = Ok (wiring_fixed g c).
  Proof.
    unfold wiring_single. pose proof fixed_nodup as Hnd. rewrite fixed_topics in Hnd.
    rewrite register_loaders_ok by (cbn; eapply NoDup_app_l; exact Hnd). cbn [res_bind app].
    rewrite register_plugins_ok.
    - rewrite fixed_as_entries. reflexivity.
    - intros d j p Hr. apply running_nth in Hr. tauto.
    - rewrite map_map. cbn. rewrite map_id. exact Hnd.
  Qed.

  Theorem one_origin_single : exists w, wiring_single g c = Ok w /\ one_origin g c w.
  Proof. exists (wiring_fixed g c). split; [exact wiring_single_is_fixed | exact one_origin_fixed]. Qed.

  (* ---- the pinned threaded wiring is right as long as no running multi-output plugin has a
          loader-fed output ---- *)

  Definition no_loader_fed_sibling : Prop :=
    forall d j p k, In (d, j, p) (running g c) -> multi_output p = true -> In k (p_prov p) -> ~ In k (k_loaders c).

  Lemma filter_all {A} (f : A -> bool) l : (forall x, In x l -> f x = true) -> filter f l = l.
  Proof.
    induction l as [|a l IH]; cbn; intros H; [reflexivity|]. rewrite (H a (or_introl eq_refl)).
    f_equal. apply IH. intros; apply H; right; assumption.
  Qed.

  Theorem pinned_is_fixed : no_loader_fed_sibling -> wiring_pinned g c = wiring_fixed g c.
  Proof.
    intros Hno. unfold wiring_pinned, wiring_fixed. f_equal.
    assert (Hext : forall l, (forall x, In x l -> In x (running g c)) ->
      flat_map (fun x => match x with (d, j, p) => if multi_output p then map (fun k => (k, OPlugin j)) (p_prov p)
                                                    else [(d, OPlugin j)] end) l =
      flat_map (fun x => match x with (d, j, p) => if multi_output p
                          then map (fun k => (k, OPlugin j)) (filter (fun k => negb (mem k (k_loaders c))) (p_prov p))
                          else [(d, OPlugin j)] end) l).
    { induction l as [|[[d j] p] l IH]; intros Hl; cbn [flat_map]; [reflexivity|].
      rewrite IH by (intros; apply Hl; right; assumption). f_equal.
      destruct (multi_output p) eqn:Em; [|reflexivity]. rewrite filter_all; [reflexivity|].
      intros k Hk. apply negb_true_iff. apply mem_false. eapply Hno; [apply Hl; left; reflexivity | exact Em | exact Hk]. }
    apply Hext. auto.
  Qed.

  Theorem one_origin_pinned_partial : no_loader_fed_sibling -> one_origin g c (wiring_pinned g c).
  Proof. intros H. rewrite (pinned_is_fixed H). exact one_origin_fixed. Qed.
End Wiring.
