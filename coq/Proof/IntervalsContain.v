(* fully_contained_in: the two-pointer scan equals the quadratic definition. *)
From SV Require Import Model.Rows Model.Intervals Spec.IntervalDefs Proof.RowsFacts Proof.IntervalsChecks.

Lemma fc_skip_spec cs bi a cs2 bi2 :
  fc_skip cs bi a = (cs2, bi2) ->
  exists sk, cs = sk ++ cs2 /\ bi2 = (bi + length sk)%nat /\ Forall (fun c => re c <= a) sk /\
             match cs2 with [] => True | c :: _ => a < re c end.
Proof.
  revert bi; induction cs as [|c cs IH]; intros bi H; cbn [fc_skip] in H.
  - inversion H; subst. exists []. cbn. repeat split; auto.
  - destruct (re c <=? a) eqn:E.
    + destruct (IH _ H) as (sk & -> & -> & F & M). exists (c :: sk). cbn [app length].
      repeat split; auto; [lia|]. constructor; [lia|auto].
    + inversion H; subst. exists []. cbn. repeat split; auto. lia.
Qed.

(* invariant form: pre = containers already skipped, all of which end at or before every
   remaining thing's start *)
Lemma fc_in_inv : forall things pre cs,
  sorted things -> sep (pre ++ cs) ->
  Forall (fun c => Forall (fun a => re c <= rt a) things) pre ->
  fc_in things cs (length pre) = map (fc_spec_strict (pre ++ cs)) things.
Proof.
  induction things as [|a rest IH]; intros pre cs Hs Hsep Hpre; [reflexivity|].
  cbn [fc_in].
  destruct (fc_skip cs (length pre) (rt a)) as [cs2 bi2] eqn:Esk.
  destruct (fc_skip_spec _ _ _ _ _ Esk) as (sk & -> & -> & Fsk & Hhead).
  destruct Hs as [Hs1 Hs2].
  (* all of pre ++ sk end at or before every thing in a :: rest *)
  assert (Hpre' : Forall (fun c => Forall (fun x => re c <= rt x) (a :: rest)) (pre ++ sk)).
  { apply Forall_app. split; [exact Hpre|].
    eapply Forall_impl; [|exact Fsk]. cbn. intros c Hc. constructor; [lia|].
    eapply Forall_impl; [|exact Hs1]. cbn; intros; lia. }
  assert (Hfalse : forall x, In x (a :: rest) ->
            Forall (fun c => contains_strict c x = false) (pre ++ sk)).
  { intros x Hx. eapply Forall_impl; [|exact Hpre']. cbn. intros c Hc.
    rewrite Forall_forall in Hc. specialize (Hc x Hx). unfold contains_strict, contains_lit. lia. }
  rewrite app_assoc in Hsep |- *.
  destruct cs2 as [|c cs3].
  - (* break: everything left is -1 *)
    rewrite app_nil_r. apply map_ext_in. intros x Hx. unfold fc_spec_strict.
    symmetry. apply first_idx_all_false. apply Hfalse, Hx.
  - replace (length pre + length sk)%nat with (length (pre ++ sk)) by (rewrite app_length; reflexivity).
    cbn [map]. f_equal.
    + unfold fc_spec_strict. rewrite first_idx_app_false by (apply Hfalse; left; auto).
      cbn [first_idx Nat.add]. unfold contains_strict at 1, contains_lit at 1.
      replace (rt a <? re c) with true by lia. rewrite andb_true_r.
      destruct ((rt c <=? rt a) && (re a <=? re c)) eqn:E; [reflexivity|].
      symmetry. apply first_idx_all_false.
      apply sep_app_r in Hsep. destruct Hsep as [Hc _].
      eapply Forall_impl; [|exact Hc]. cbn. intros c' Hc'. unfold contains_strict, contains_lit. lia.
    + apply IH; auto.
      eapply Forall_impl; [|exact Hpre']. cbn. intros c0 Hc0. inversion Hc0; auto.
Qed.

Theorem fc_in_strict things cs :
  sorted things -> sep cs -> fc_in things cs 0 = map (fc_spec_strict cs) things.
Proof. intros Hs Hsep. apply (fc_in_inv things [] cs); auto. Qed.

(* the documented preconditions, as the boolean checks of the wrapper *)
Definition fc_pre (things cs : list row) : Prop :=
  check_time_sorted (map rt things) = true /\ check_time_sorted (map rt cs) = true /\
  check_not_overlapping cs = true /\
  check_nonneg_length things = true /\ check_nonneg_length cs = true.

Theorem fully_contained_in_exact things cs :
  fc_pre things cs ->
  fully_contained_in things cs = Ok (false, map (fc_spec_strict cs) things).
Proof.
  intros (H1 & H2 & H3 & H4 & H5). unfold fully_contained_in, fc_sanity.
  rewrite H1, H2, H3, H4, H5. cbn [negb res_bind].
  rewrite fc_in_strict; [reflexivity| |].
  - apply check_time_sorted_iff; auto.
  - apply check_not_overlapping_sep; auto. apply check_nonneg_iff; auto.
Qed.

(* literal formula: holds when no zero-length thing sits on a container's exclusive end *)
Definition no_zero_on_end (things cs : list row) : Prop :=
  Forall (fun a => Forall (fun c => ~ (rt a = re a /\ re a = re c)) cs) things.

Lemma strict_eq_lit things cs :
  nonnegP things -> no_zero_on_end things cs ->
  map (fc_spec_strict cs) things = map (fc_spec_lit cs) things.
Proof.
  intros Hn Hz. apply map_ext_in. intros a Ha. unfold fc_spec_strict, fc_spec_lit.
  apply first_idx_ext_in. intros c Hc.
  unfold nonnegP in Hn. rewrite Forall_forall in Hn. specialize (Hn a Ha).
  unfold no_zero_on_end in Hz. rewrite Forall_forall in Hz. specialize (Hz a Ha).
  rewrite Forall_forall in Hz. specialize (Hz c Hc).
  unfold contains_strict, contains_lit.
  destruct ((rt c <=? rt a) && (re a <=? re c)) eqn:E; [|reflexivity].
  cbn [andb]. lia.
Qed.

Theorem fully_contained_in_literal things cs :
  fc_pre things cs -> no_zero_on_end things cs ->
  fully_contained_in things cs = Ok (false, map (fc_spec_lit cs) things).
Proof.
  intros Hp Hz. rewrite fully_contained_in_exact by auto.
  rewrite strict_eq_lit; auto. apply check_nonneg_iff. apply Hp.
Qed.

Lemma positive_no_zero_on_end things cs :
  Forall (fun a => rt a < re a) things -> no_zero_on_end things cs.
Proof.
  intros H. eapply Forall_impl; [|exact H]. cbn. intros a Ha.
  apply Forall_forall. intros c _. lia.
Qed.

Corollary fully_contained_in_literal_positive things cs :
  fc_pre things cs -> Forall (fun a => rt a < re a) things ->
  fully_contained_in things cs = Ok (false, map (fc_spec_lit cs) things).
Proof. intros Hp Hpos. apply fully_contained_in_literal; auto. apply positive_no_zero_on_end; auto. Qed.

(* T1: without that hypothesis the literal statement is false *)
Theorem fully_contained_in_literal_refuted :
  exists things cs, fc_pre things cs /\
    fully_contained_in things cs <> Ok (false, map (fc_spec_lit cs) things).
Proof.
  exists [mkrow 5 5 0 0], [mkrow 3 5 0 0]. split.
  - unfold fc_pre. vm_compute. repeat split; reflexivity.
  - vm_compute. discriminate.
Qed.

(* rejection: what the wrapper really verifies *)
Theorem fully_contained_in_rejects things cs :
  fc_pre things cs \/
  (exists c, fully_contained_in things cs = Err c /\
     (c = 1 /\ ~ sorted things \/ c = 2 /\ ~ sorted cs \/ c = 3 /\ ~ nonnegP things \/ c = 4 /\ ~ nonnegP cs)) \/
  (exists r, fully_contained_in things cs = Ok (true, r) /\ check_not_overlapping cs = false).
Proof.
  unfold fully_contained_in, fc_sanity, fc_pre.
  destruct (check_time_sorted (map rt things)) eqn:E1; cbn [negb].
  2:{ right; left. exists 1. split; [reflexivity|]. left. split; [reflexivity|].
      rewrite <- check_time_sorted_iff. congruence. }
  destruct (check_time_sorted (map rt cs)) eqn:E2; cbn [negb].
  2:{ right; left. exists 2. split; [reflexivity|]. right; left. split; [reflexivity|].
      rewrite <- check_time_sorted_iff. congruence. }
  destruct (check_nonneg_length things) eqn:E3; cbn [negb].
  2:{ right; left. exists 3. split; [reflexivity|]. right; right; left. split; [reflexivity|].
      rewrite <- check_nonneg_iff. congruence. }
  destruct (check_nonneg_length cs) eqn:E4; cbn [negb].
  2:{ right; left. exists 4. split; [reflexivity|]. right; right; right. split; [reflexivity|].
      rewrite <- check_nonneg_iff. congruence. }
  destruct (check_not_overlapping cs) eqn:E5; cbn [negb res_bind].
  - left. repeat split; reflexivity.
  - right; right. eexists. split; reflexivity.
Qed.

(* hypotheses are satisfiable on a non-trivial configuration: shared endpoints, zero gap,
   zero-length thing at a container start, a thing sticking out *)
Example fc_pre_example :
  let things := [mkrow 0 2 0 0; mkrow 2 2 1 0; mkrow 2 4 2 0; mkrow 3 6 3 0; mkrow 7 8 4 0] in
  let cs := [mkrow 0 2 0 0; mkrow 2 4 1 0; mkrow 7 9 2 0] in
  fc_pre things cs /\ fully_contained_in things cs = Ok (false, [0; 1; 1; -1; 2]).
Proof. vm_compute. repeat split; reflexivity. Qed.
