(* C01 -- the LoopPlugin kind (fully_contained selection over two data kinds) is a call-wise computation:
   computing every base row's selection inside the call that carries it gives the same as on the whole run,
   for every aligned sequence of tight calls. *)
From SV Require Import Model.Rows Model.SplitArray Model.Chunk Model.Rechunker Model.Network
     Proof.RowsFacts Proof.ChunkProof Proof.ConcatProof Proof.RechunkerProof Proof.NetworkProof.

(* ---- container_of: where the search stops ---- *)

Lemma container_skip th : forall pre base i,
  Forall (fun b => re b <= rt th) pre -> container_of th i (pre ++ base) = container_of th (i + length pre) base.
Proof.
  induction pre as [|b pre IH]; intros base i H; cbn [app length container_of].
  - rewrite Nat.add_0_r. reflexivity.
  - inversion H as [|? ? Hb Hp]; subst. destruct (re b >? rt th) eqn:E; [lia|].
    rewrite IH; [|exact Hp]. f_equal. lia.
Qed.

Lemma container_late_none th : forall post i, Forall (fun b => rt th < rt b) post -> container_of th i post = None.
Proof.
  induction post as [|b post IH]; intros i H; cbn [container_of]; [reflexivity|].
  inversion H as [|? ? Hb Hp]; subst. destruct (re b >? rt th); [|apply IH; exact Hp].
  destruct (rt b <=? rt th) eqn:E; [lia|reflexivity].
Qed.

Lemma container_app_post th : forall base post i,
  Forall (fun b => rt th < rt b) post -> container_of th i (base ++ post) = container_of th i base.
Proof.
  induction base as [|b base IH]; intros post i H; cbn [app container_of].
  - apply container_late_none. exact H.
  - destruct (re b >? rt th); [reflexivity|]. apply IH. exact H.
Qed.

Lemma container_bounds th : forall base i j, container_of th i base = Some j -> (i <= j < i + length base)%nat.
Proof.
  induction base as [|b base IH]; intros i j H; cbn [container_of length] in *; [discriminate|].
  destruct (re b >? rt th).
  - destruct ((rt b <=? rt th) && (re th <=? re b)); [|discriminate]. inversion H; subst. lia.
  - apply IH in H. lia.
Qed.

Lemma container_shift th : forall base i,
  container_of th i base = option_map (fun j => (j + i)%nat) (container_of th 0 base).
Proof.
  induction base as [|b base IH]; intros i; cbn [container_of]; [reflexivity|].
  destruct (re b >? rt th).
  - destruct ((rt b <=? rt th) && (re th <=? re b)); reflexivity.
  - rewrite (IH (S i)), (IH 1%nat). destruct (container_of th 0 base); cbn; [f_equal; lia|reflexivity].
Qed.

(* ---- the selection of one base row, computed on the whole run and inside its call ---- *)

Definition sel_test (base : list row) (j : nat) (th : row) : bool :=
  match container_of th 0 base with Some i => Nat.eqb i j | None => false end.

Lemma things_in_eq j base things : things_in j base things = filter (sel_test base j) things.
Proof. reflexivity. Qed.

Lemma filter_none {A} (f : A -> bool) l : Forall (fun x => f x = false) l -> filter f l = [].
Proof. induction 1 as [|x l H _ IH]; cbn; [reflexivity|]. rewrite H. exact IH. Qed.

Lemma filter_ext_Forall {A} (f g : A -> bool) l : Forall (fun x => f x = g x) l -> filter f l = filter g l.
Proof. induction 1 as [|x l H _ IH]; cbn; [reflexivity|]. rewrite H, IH. reflexivity. Qed.

Lemma sel_local Bdone Bp Brest Thdone Thp Threst s0 ep j' :
  s0 <= ep ->
  Forall (fun b => re b <= s0) Bdone ->
  Forall (fun b => s0 <= rt b /\ re b <= ep) Bp ->
  Forall (fun b => ep <= rt b) Brest ->
  Forall (fun th => rt th < s0) Thdone ->
  Forall (fun th => s0 <= rt th /\ rt th < ep) Thp ->
  Forall (fun th => ep <= rt th) Threst ->
  (j' < length Bp)%nat ->
  things_in (length Bdone + j') (Bdone ++ Bp ++ Brest) (Thdone ++ Thp ++ Threst) = things_in j' Bp Thp.
Proof.
  intros Hse HBd HBp HBr HTd HTp HTr Hj. rewrite !things_in_eq, !filter_app.
  rewrite (filter_none _ Thdone), (filter_none _ Threst); cbn [app].
  - rewrite app_nil_r. apply filter_ext_Forall. eapply Forall_impl; [|exact HTp]. cbn. intros th [H1 H2].
    unfold sel_test. rewrite container_skip.
    + rewrite container_app_post.
      * rewrite container_shift. destruct (container_of th 0 Bp) as [i|]; cbn; [|reflexivity].
        destruct (Nat.eqb i j') eqn:E.
        -- apply Nat.eqb_eq in E. apply Nat.eqb_eq. lia.
        -- apply Nat.eqb_neq in E. apply Nat.eqb_neq. lia.
      * eapply Forall_impl; [|exact HBr]. cbn; intros; lia.
    + eapply Forall_impl; [|exact HBd]. cbn; intros; lia.
  - (* things of later calls start at or after ep: every base row up to this call has ended *)
    eapply Forall_impl; [|exact HTr]. cbn. intros th Hth. unfold sel_test.
    rewrite app_assoc, container_skip.
    + destruct (container_of th (0 + length (Bdone ++ Bp)) Brest) as [i|] eqn:E; [|reflexivity].
      apply container_bounds in E. rewrite app_length in E. apply Nat.eqb_neq. lia.
    + apply Forall_app. split.
      * eapply Forall_impl; [|exact HBd]. cbn; intros; lia.
      * eapply Forall_impl; [|exact HBp]. cbn; intros; lia.
  - (* things of earlier calls start before s0: no base row from this call on can hold them *)
    eapply Forall_impl; [|exact HTd]. cbn. intros th Hth. unfold sel_test.
    rewrite container_app_post.
    + destruct (container_of th 0 Bdone) as [i|] eqn:E; [|reflexivity].
      apply container_bounds in E. apply Nat.eqb_neq. lia.
    + apply Forall_app. split.
      * eapply Forall_impl; [|exact HBp]. cbn; intros; lia.
      * eapply Forall_impl; [|exact HBr]. cbn; intros; lia.
Qed.

(* ---- loop_from ---- *)

Lemma loop_from_app a b allb things : forall x y j,
  loop_from j a b allb (x ++ y) things = loop_from j a b allb x things ++ loop_from (j + length x) a b allb y things.
Proof.
  induction x as [|r x IH]; intros y j; cbn [app loop_from length].
  - rewrite Nat.add_0_r. reflexivity.
  - rewrite IH. cbn [app]. do 3 f_equal. lia.
Qed.

Lemma loop_from_ext a b allb things allb' things' : forall base o k,
  (forall j', (j' < length base)%nat -> things_in (o + k + j') allb things = things_in (k + j') allb' things') ->
  loop_from (o + k) a b allb base things = loop_from k a b allb' base things'.
Proof.
  induction base as [|r base IH]; intros o k H; cbn [loop_from]; [reflexivity|].
  assert (H0 : things_in (o + k) allb things = things_in k allb' things').
  { specialize (H 0%nat). rewrite !Nat.add_0_r in H. apply H. cbn. lia. }
  rewrite H0. f_equal.
  replace (S (o + k)) with (o + S k)%nat by lia. apply IH. intros j' Hj.
  replace (o + S k + j')%nat with (o + k + S j')%nat by lia. replace (S k + j')%nat with (k + S j')%nat by lia.
  apply H. cbn. lia.
Qed.

(* ---- positions of the rows of a sequence of calls ---- *)

Lemma calls_rows_ge : forall calls s e,
  Forall call_ok calls -> chain s (map fst calls) e ->
  Forall (fun r => s <= rt r) (rows1 calls) /\ Forall (fun r => s <= rt r) (rows2 calls) /\ s <= e.
Proof.
  induction calls as [|[c1 c2] calls IH]; intros s e HF Ch.
  - cbn in Ch. subst. repeat split; try constructor. lia.
  - inversion HF as [|? ? (W1 & W2 & T1 & T2 & E1 & E2) HF']; subst. cbn [fst snd map] in *.
    cbn in Ch. destruct Ch as [Cs Ch]. destruct (IH (cend c1) e HF' Ch) as (A1 & A2 & A3).
    pose proof W1 as (C0 & Cse & _ & CF1). pose proof W2 as (_ & _ & _ & CF2).
    unfold rows1, rows2. cbn [flat_map fst snd]. rewrite !Forall_app. repeat split; try lia.
    + eapply Forall_impl; [|exact CF1]. cbn; intros; lia.
    + eapply Forall_impl; [|exact A1]. cbn; intros; lia.
    + eapply Forall_impl; [|exact CF2]. cbn; intros; lia.
    + eapply Forall_impl; [|exact A2]. cbn; intros; lia.
Qed.

(* the general statement: bases / things of the calls already done in front *)
Lemma loop_calls a b : forall calls Bdone Thdone s0 e,
  Forall call_ok calls -> chain s0 (map fst calls) e ->
  Forall (fun r => re r <= s0) Bdone -> Forall (fun th => rt th < s0) Thdone ->
  loop_from (length Bdone) a b (Bdone ++ rows1 calls) (rows1 calls) (Thdone ++ rows2 calls) =
  flat_map (fun p => h_loop a b (crows (fst p)) (crows (snd p))) calls.
Proof.
  induction calls as [|[c1 c2] calls IH]; intros Bdone Thdone s0 e HF Ch HBd HTd.
  - reflexivity.
  - inversion HF as [|? ? (W1 & W2 & T1 & T2 & E1 & E2) HF']; subst. cbn [fst snd map] in *.
    cbn in Ch. destruct Ch as [Cs Ch]. subst s0.
    destruct (calls_rows_ge calls (cend c1) e HF' Ch) as (A1 & A2 & A3).
    pose proof W1 as (C0 & Cse & _ & CF1). pose proof W2 as (_ & _ & _ & CF2).
    unfold rows1, rows2. cbn [flat_map fst snd]. fold (rows1 calls). fold (rows2 calls).
    rewrite loop_from_app. f_equal.
    + (* the rows of this call *)
      unfold h_loop. replace (length Bdone) with (length Bdone + 0)%nat at 1 by lia.
      apply loop_from_ext. intros j' Hj. rewrite Nat.add_0_r. cbn [Nat.add].
      apply (sel_local Bdone (crows c1) (rows1 calls) Thdone (crows c2) (rows2 calls) (cstart c1) (cend c1) j'); auto.
      * eapply Forall_impl; [|exact CF1]. cbn; intros; lia.
      * unfold tight in T2. rewrite E2 in T2. rewrite E1 in CF2.
        apply Forall_forall. intros th Hth. rewrite Forall_forall in CF2, T2. specialize (CF2 th Hth). specialize (T2 th Hth). lia.
    + (* the later calls *)
      specialize (IH (Bdone ++ crows c1) (Thdone ++ crows c2) (cend c1) e HF' Ch).
      rewrite app_length in IH. rewrite <- !app_assoc in IH. apply IH.
      * apply Forall_app. split.
        -- eapply Forall_impl; [|exact HBd]. cbn; intros; lia.
        -- eapply Forall_impl; [|exact CF1]. cbn; intros; lia.
      * apply Forall_app. split.
        -- eapply Forall_impl; [|exact HTd]. cbn; intros; lia.
        -- unfold tight in T2. rewrite E2 in T2. exact T2.
Qed.

Lemma loop_from_ivs a b allb things : forall base j, same_ivs base (loop_from j a b allb base things).
Proof. induction base as [|r base IH]; intros j; cbn; constructor; [split; reflexivity|apply IH]. Qed.

(* LoopPlugin with fully-contained selection is a call-wise computation: no premise beyond alignment *)
Theorem pair_h_loop a b : pair_comp (fun _ => True) (h_loop a b).
Proof.
  apply pair_of_prefix.
  - intros R1 R2 a0 b0 calls (_ & HF & Ch & <- & <-) _.
    apply (loop_calls a b calls [] [] a0 b0 HF Ch); constructor.
  - intros r1 r2. exists r1. split; [apply loop_from_ivs|exists []; rewrite app_nil_r; reflexivity].
Qed.

(* ---------------------------------------------------------------------------------------------- *)
(* same-kind inputs: aligned tight calls hold equally many rows of both inputs                      *)
(* ---------------------------------------------------------------------------------------------- *)

Lemma split_by_bound (x : Z) : forall p1 s1 p2 s2,
  Forall (fun t => t < x) p1 -> Forall (fun t => x <= t) s1 ->
  Forall (fun t => t < x) p2 -> Forall (fun t => x <= t) s2 ->
  p1 ++ s1 = p2 ++ s2 -> length p1 = length p2 /\ s1 = s2.
Proof.
  induction p1 as [|u p1 IH]; intros s1 p2 s2 H1 H2 H3 H4 E.
  - destruct p2 as [|v p2]; [split; [reflexivity|exact E]|].
    cbn in E. subst s1. inversion H2; subst. inversion H3; subst. lia.
  - destruct p2 as [|v p2].
    + cbn in E. subst s2. inversion H4; subst. inversion H1; subst. lia.
    + cbn in E. inversion E; subst. inversion H1; subst. inversion H3; subst.
      destruct (IH s1 p2 s2) as [A B]; auto. split; [cbn; lia|exact B].
Qed.

Lemma calls_equal_len : forall calls s e,
  Forall call_ok calls -> chain s (map fst calls) e ->
  map rt (rows1 calls) = map rt (rows2 calls) -> equal_len calls.
Proof.
  induction calls as [|[c1 c2] calls IH]; intros s e HF Ch HE; [constructor|].
  inversion HF as [|? ? (W1 & W2 & T1 & T2 & E1 & E2) HF']; subst. cbn [fst snd map] in *.
  cbn in Ch. destruct Ch as [Cs Ch].
  destruct (calls_rows_ge calls (cend c1) e HF' Ch) as (A1 & A2 & _).
  unfold rows1, rows2 in HE. cbn [flat_map fst snd] in HE. fold (rows1 calls) in HE. fold (rows2 calls) in HE.
  rewrite !map_app in HE.
  destruct (split_by_bound (cend c1) (map rt (crows c1)) (map rt (rows1 calls)) (map rt (crows c2)) (map rt (rows2 calls)))
    as [L S]; auto.
  - apply Forall_map. exact T1.
  - apply Forall_map. exact A1.
  - apply Forall_map. unfold tight in T2. rewrite E2 in T2. exact T2.
  - apply Forall_map. exact A2.
  - constructor; [cbn; rewrite !map_length in L; exact L|]. apply (IH (cend c1) e HF' Ch S).
Qed.

Theorem aligned_equal_len R1 R2 a b calls :
  aligned R1 R2 a b calls -> map rt R1 = map rt R2 -> equal_len calls.
Proof.
  intros (_ & HF & Ch & <- & <-) HE. apply (calls_equal_len calls a b HF Ch HE).
Qed.
