(* C13: the network invariant GI is inductive; well-formed initial networks satisfy it; the edge
   inequality and the path bound: along any path  source = d_0 -> d_1 -> ... -> d_k = target mailbox
   (consecutive mailboxes joined by a worker that pulls from the first and sends to the second) whose
   last mailbox is read by the consumer, the source is never more than  p + 2 * (sum of max_messages
   along the path) + 1  items ahead — in any schedule, whatever the run length. *)
From SV Require Import Base.Prelude Model.Mailbox Model.MailboxNet
  Proof.MailboxFacts Proof.MailboxProof Proof.MailboxInOrder Proof.MailboxNetLift Proof.MailboxStepFacts
  Proof.MailboxNetFlow.
Local Open Scope nat_scope.

(* ---------- GI is inductive ---------- *)
Lemma GI_step N n w n' : GI N n -> nstep n w = Some n' -> GI N n'.
Proof.
  intros [HB HT HO] Hs. apply nstep_inv in Hs.
  destruct Hs as (th & th' & d & t & cfg & st & st' & Hw & Hm & Hd & Hst & Eb & Et & Hts).
  pose proof (HB _ _ _ Hd) as Hg.
  constructor.
  - rewrite Eb. apply all_boxes_upd; auto. eapply box_good_step; eauto.
  - intros w2 th2 H2. rewrite Et in H2. rewrite Eb.
    apply nth_error_upd in H2. destruct H2 as [(-> & -> & _)|(Hne & H2)].
    + destruct (HT _ _ Hw) as [A B]. split.
      * rewrite <- Eb. eapply TI_self; eauto.
      * intros u i Hin. rewrite (thread_step_roles _ _ _ _ Hts) in Hin.
        eapply os_reader_exists; eauto.
    + destruct (HT _ _ H2) as [A B]. split.
      * eapply TI_other; eauto using next_move_kind. intros Hin.
        eapply (HO w w2 (roles th) (roles th2) (d, t)); auto.
        -- rewrite nth_error_map, Hw. reflexivity.
        -- rewrite nth_error_map, H2. reflexivity.
        -- eapply next_move_role; eauto.
      * eapply readers_exist_step; eauto.
  - rewrite Et, upd_map, (thread_step_roles _ _ _ _ Hts), upd_same; auto.
    rewrite nth_error_map, Hw. reflexivity.
Qed.

Theorem GI_reachable N n0 sched n : GI N n0 -> nrun n0 sched = Some n -> GI N n.
Proof. intros H0 Hrun. eapply (nrun_invariant (GI N)); eauto. intros; eapply GI_step; eauto. Qed.

(* ---------- the local inequalities ---------- *)
Lemma sent_le_reader N bs u i :
  all_boxes (box_good N) bs -> reader_of bs u i <> None ->
  nsent_of bs u <= nread_of bs u i + cap_of bs u.
Proof.
  intros Hall Hex. unfold reader_of, nsent_of, nread_of, reader_of, cap_of in *.
  destruct (nth_error bs u) as [[cfg st]|] eqn:E; [|congruence].
  destruct (nth_error (rds st) i) as [r|] eqn:Er; [|congruence].
  destruct (Hall _ _ _ E) as (HJ & Hcap & Hfin).
  pose proof (J_box_len _ _ _ HJ). pose proof (J_min_le_sent _ _ _ HJ). pose proof (min_nread_le _ _ _ Er).
  unfold cap_ok in Hcap. destruct (c_cap cfg); [lia|congruence].
Qed.

(* a worker that pulls from u and sends to d: u's sender is at most 2 * max_messages(u) ahead of d's *)
Theorem edge N n w prog pc it u i d :
  GI N n -> nth_error (n_threads n) w = Some (Worker prog pc it) ->
  In (OPull u i) prog -> In d (sends_of prog) ->
  nsent_of (n_boxes n) u <= nsent_of (n_boxes n) d + 2 * cap_of (n_boxes n) u.
Proof.
  intros [HB HT _] Hw Hp Hd. destruct (HT _ _ Hw) as [(_ & _ & H1 & H2) HRE].
  assert (Hex : reader_of (n_boxes n) u i <> None) by (apply HRE; cbn [roles]; apply in_pull_role; auto).
  pose proof (sent_le_reader N _ _ _ HB Hex). specialize (H1 d Hd). specialize (H2 u i Hp).
  destruct (sent_before prog pc d); lia.
Qed.

(* the consumer that takes p chunks out of u *)
Theorem sink_bound N n w u i p :
  GI N n -> nth_error (n_threads n) w = Some (Sink u i (Some p)) ->
  nsent_of (n_boxes n) u <= p + 2 * cap_of (n_boxes n) u.
Proof.
  intros [HB HT _] Hw. destruct (HT _ _ Hw) as [H HRE]. cbn [TI] in H.
  assert (Hex : reader_of (n_boxes n) u i <> None) by (apply HRE; left; reflexivity).
  pose proof (sent_le_reader N _ _ _ HB Hex). lia.
Qed.

(* the source iterable of any mailbox is at most one item ahead of what was put into the mailbox *)
Lemma advances_le_sent N bs d :
  all_boxes (box_good N) bs -> advances N bs d <= nsent_of bs d + 1.
Proof.
  intros Hall. unfold advances, nsent_of. destruct (nth_error bs d) as [[cfg st]|] eqn:E; [|lia].
  destruct (Hall _ _ _ E) as (HJ & _). apply (J_advances _ _ _ HJ).
Qed.

(* ---------- paths: static data of a network ---------- *)
Definition prog_of (th : thread) : option (list op) :=
  match th with Worker prog _ _ => Some prog | Sink _ _ _ => None end.
Definition sink_of (th : thread) : option (nat * nat * option nat) :=
  match th with Sink u i b => Some (u, i, b) | Worker _ _ _ => None end.

Definition static_eq (n0 n : net) : Prop :=
  map prog_of (n_threads n) = map prog_of (n_threads n0) /\
  map sink_of (n_threads n) = map sink_of (n_threads n0) /\
  map fst (n_boxes n) = map fst (n_boxes n0).

Lemma settle_static bs prog pc it :
  prog_of (settle bs prog pc it) = Some prog /\ sink_of (settle bs prog pc it) = None.
Proof. unfold settle. destruct (skip_pulls _ _ _ _ _). split; reflexivity. Qed.

Lemma thread_step_static bs th bs' th' :
  thread_step bs th = Some (bs', th') -> prog_of th' = prog_of th /\ sink_of th' = sink_of th.
Proof.
  destruct th as [prog pc it|u i b]; cbn [thread_step].
  - destruct (nth_error prog pc) as [[d|u i|d]|]; try discriminate.
    + destruct (at_gate _); try discriminate. destruct (box_step bs d TS); try discriminate.
      destruct (sender_waits _); [intros H; inversion H; split; reflexivity|].
      destruct (advance prog pc it). intros H; inversion H. apply settle_static.
    + destruct (it <? _); try discriminate. destruct (box_step bs u (TR i)); try discriminate.
      intros H; inversion H. apply settle_static.
    + destruct (at_send _); try discriminate. destruct (box_step bs d TS); try discriminate.
      destruct (sender_waits _); [intros H; inversion H; split; reflexivity|].
      destruct (advance prog pc it). intros H; inversion H. apply settle_static.
  - destruct (budget_left _ _ _ _); try discriminate. destruct (box_step bs u (TR i)); try discriminate.
    intros H; inversion H; split; reflexivity.
Qed.

Lemma static_eq_refl n : static_eq n n. Proof. repeat split. Qed.

Lemma static_eq_step n0 n w n' : static_eq n0 n -> nstep n w = Some n' -> static_eq n0 n'.
Proof.
  intros (A & B & C) Hs. pose proof (nstep_cfgs _ _ _ Hs) as Hc. apply nstep_inv in Hs.
  destruct Hs as (th & th' & d & t & cfg & st & st' & Hw & _ & _ & _ & _ & Et & Hts).
  destruct (thread_step_static _ _ _ _ Hts) as [P S].
  repeat split.
  - rewrite Et, upd_map, P, upd_same; auto. rewrite nth_error_map, Hw. reflexivity.
  - rewrite Et, upd_map, S, upd_same; auto. rewrite nth_error_map, Hw. reflexivity.
  - congruence.
Qed.

Lemma static_eq_reachable n0 sched n : nrun n0 sched = Some n -> static_eq n0 n.
Proof.
  intros Hrun. eapply (nrun_invariant (static_eq n0)); [| |exact Hrun].
  - intros; eapply static_eq_step; eauto.
  - apply static_eq_refl.
Qed.

Lemma cap_of_fst bs bs' u : map fst bs = map fst bs' -> cap_of bs u = cap_of bs' u.
Proof.
  intros H. unfold cap_of. pose proof (map_nth_eq fst _ _ u H) as E.
  destruct (nth_error bs u) as [[c1 s1]|], (nth_error bs' u) as [[c2 s2]|]; cbn in E; try congruence.
  inversion E; subst. reflexivity.
Qed.

Definition has_worker (n : net) (prog : list op) : Prop :=
  exists w, option_map prog_of (nth_error (n_threads n) w) = Some (Some prog).
Definition has_sink (n : net) (u i : nat) (b : option nat) : Prop :=
  exists w, option_map sink_of (nth_error (n_threads n) w) = Some (Some (u, i, b)).

(* reach n u B : mailbox u is connected to the consumer through workers, with accumulated slack B *)
Inductive reach (n : net) : nat -> nat -> Prop :=
| reach_sink u i p : has_sink n u i (Some p) -> reach n u (p + 2 * cap_of (n_boxes n) u)
| reach_edge prog u i d B :
    has_worker n prog -> In (OPull u i) prog -> In d (sends_of prog) -> reach n d B ->
    reach n u (B + 2 * cap_of (n_boxes n) u).

Lemma has_worker_static n0 n prog : static_eq n0 n -> has_worker n0 prog -> has_worker n prog.
Proof.
  intros (A & _) (w & H). exists w. rewrite <- nth_error_map in *. rewrite A. exact H.
Qed.
Lemma has_sink_static n0 n u i b : static_eq n0 n -> has_sink n0 u i b -> has_sink n u i b.
Proof.
  intros (_ & A & _) (w & H). exists w. rewrite <- nth_error_map in *. rewrite A. exact H.
Qed.

Lemma reach_static n0 n u B : static_eq n0 n -> reach n0 u B -> reach n u B.
Proof.
  intros Hs H. pose proof Hs as (_ & _ & Hc). induction H as [u i p Hk|prog u i d B Hw Hp Hd Hr IH].
  - rewrite (cap_of_fst _ _ u (eq_sym Hc)). eapply reach_sink. eapply has_sink_static; eauto.
  - rewrite (cap_of_fst _ _ u (eq_sym Hc)). eapply reach_edge; eauto. eapply has_worker_static; eauto.
Qed.

Lemma reach_sent N n u B : GI N n -> reach n u B -> nsent_of (n_boxes n) u <= B.
Proof.
  intros HG H. induction H as [u i p (w & Hk)|prog u i d B (w & Hw) Hp Hd Hr IH].
  - destruct (nth_error (n_threads n) w) as [[pr pc it|u0 i0 b0]|] eqn:E; cbn in Hk; try discriminate.
    inversion Hk; subst. eapply sink_bound; eauto.
  - destruct (nth_error (n_threads n) w) as [[pr pc it|u0 i0 b0]|] eqn:E; cbn in Hw; try discriminate.
    inversion Hw; subst. pose proof (edge N n w prog pc it u i d HG E Hp Hd). lia.
Qed.

(* the path bound, for every schedule *)
Theorem flow_bound N n0 sched n u B :
  GI N n0 -> nrun n0 sched = Some n -> reach n0 u B -> advances N (n_boxes n) u <= B + 1.
Proof.
  intros H0 Hrun Hr.
  pose proof (GI_reachable _ _ _ _ H0 Hrun) as HG.
  pose proof (reach_static _ _ _ _ (static_eq_reachable _ _ _ Hrun) Hr) as Hr'.
  pose proof (reach_sent _ _ _ _ HG Hr'). pose proof (advances_le_sent N _ u (gi_boxes _ _ HG)). lia.
Qed.

(* ---------- well-formed initial networks ---------- *)
Lemma net_of_mk w N :
  net_of w N = mk_net (map (fun kcd => (snd (fst kcd), snd kcd)) (w_boxes w)) (map snd (w_threads w)) N.
Proof.
  unfold net_of, mk_net. f_equal. rewrite map_map. apply map_ext. intros [[k cfg] ds]. reflexivity.
Qed.

Definition thread_init_ok (nb : list (config * list bool)) (th : thread) : Prop :=
  match th with
  | Worker prog pc it => pc = 0 /\ it = 0 /\ 0 < length prog /\ NoDup (sends_of prog)
  | Sink _ _ _ => True
  end /\
  forall u i, In (u, TR i) (roles th) -> exists cfg ds, nth_error nb u = Some (cfg, ds) /\ i < length ds.

Definition boxes_ok (nb : list (config * list bool)) : Prop :=
  forall d cfg ds, nth_error nb d = Some (cfg, ds) -> c_cap cfg <> None /\ ds <> [].

Lemma init_nsent cfg ds src k nf : n_sent (init cfg ds src k nf) = 0.
Proof. unfold init. destruct (c_lazy cfg); [reflexivity|]. rewrite nsent_produce. reflexivity. Qed.

Lemma init_rds cfg ds src k nf : rds (init cfg ds src k nf) = map init_reader ds.
Proof. unfold init. destruct (c_lazy cfg); [reflexivity|]. rewrite nreads_produce. reflexivity. Qed.

Section InitGI.
Variables (nb : list (config * list bool)) (ths : list thread) (N : nat).
Let bs := n_boxes (mk_net nb ths N).

Lemma mk_nth d : nth_error bs d = option_map (fun cd => (fst cd, init (fst cd) (snd cd) (chunk_msgs N) None 0)) (nth_error nb d).
Proof. unfold bs, mk_net. cbn [n_boxes]. apply nth_error_map. Qed.

Lemma mk_nsent d : nsent_of bs d = 0.
Proof. unfold nsent_of. rewrite mk_nth. destruct (nth_error nb d); cbn; auto. apply init_nsent. Qed.

Lemma mk_nread u i : nread_of bs u i = 0.
Proof.
  unfold nread_of, reader_of. rewrite mk_nth. destruct (nth_error nb u) as [[cfg ds]|]; cbn; auto.
  rewrite init_rds, nth_error_map. destruct (nth_error ds i); reflexivity.
Qed.

Theorem wf_GI :
  boxes_ok nb -> (forall w th, nth_error ths w = Some th -> thread_init_ok nb th) ->
  owner_ok (map roles ths) -> GI N (mk_net nb ths N).
Proof.
  intros Hb Ht Ho. constructor.
  - intros d cfg st Hd. fold bs in Hd. rewrite mk_nth in Hd.
    destruct (nth_error nb d) as [[cfg0 ds]|] eqn:E; cbn in Hd; [|discriminate].
    inversion Hd; subst. destruct (Hb _ _ _ E) as [Hc Hne].
    split; [apply J_init; auto|]. split; [apply cap_ok_init|auto].
  - intros w th Hw. cbn [n_threads mk_net] in Hw. destruct (Ht _ _ Hw) as [Hsh Hrd]. fold bs. split.
    + destruct th as [prog pc it|u i [p|]]; cbn [TI]; auto.
      * destruct Hsh as (-> & -> & Hl & Hnd). repeat split; auto.
        -- intros d _. rewrite mk_nsent, sent_before_0. reflexivity.
        -- intros u i _. rewrite mk_nread. lia.
      * rewrite mk_nread. lia.
    + intros u i Hin. destruct (Hrd _ _ Hin) as (cfg & ds & Hu & Hi).
      unfold reader_of. rewrite mk_nth, Hu. cbn. rewrite init_rds, nth_error_map.
      destruct (nth_error ds i) eqn:E; [discriminate|]. apply nth_error_None in E. lia.
  - exact Ho.
Qed.
End InitGI.

(* ---------- a boolean check of well-formedness, for concrete wirings ---------- *)
Definition tid_eqb (a b : tid) : bool :=
  match a, b with
  | TS, TS => true | TK, TK => true
  | TR i, TR j => i =? j | TW i, TW j => i =? j
  | _, _ => false
  end.
Lemma tid_eqb_eq a b : tid_eqb a b = true <-> a = b.
Proof.
  destruct a, b; cbn; split; intros H; try discriminate; try reflexivity;
    try (apply Nat.eqb_eq in H; congruence); try (inversion H; apply Nat.eqb_refl).
Qed.
Definition role_eqb (a b : nat * tid) : bool := (fst a =? fst b) && tid_eqb (snd a) (snd b).
Lemma role_eqb_eq a b : role_eqb a b = true <-> a = b.
Proof.
  destruct a as [a1 a2], b as [b1 b2]. unfold role_eqb. cbn [fst snd]. rewrite andb_true_iff, Nat.eqb_eq, tid_eqb_eq.
  split; [intros [-> ->]; reflexivity|intros H; inversion H; auto].
Qed.

Definition disjointb (r1 r2 : list (nat * tid)) : bool :=
  forallb (fun x => negb (existsb (role_eqb x) r2)) r1.
Fixpoint pairwiseb (rl : list (list (nat * tid))) : bool :=
  match rl with [] => true | r :: t => forallb (disjointb r) t && pairwiseb t end.

Lemma disjointb_spec r1 r2 x : disjointb r1 r2 = true -> In x r1 -> In x r2 -> False.
Proof.
  unfold disjointb. rewrite forallb_forall. intros H H1 H2. specialize (H _ H1).
  apply negb_true_iff in H. assert (existsb (role_eqb x) r2 = true); [|congruence].
  apply existsb_exists. exists x. split; auto. apply role_eqb_eq. reflexivity.
Qed.

Lemma disjointb_sym r1 r2 : disjointb r1 r2 = true -> disjointb r2 r1 = true.
Proof.
  intros H. unfold disjointb. apply forallb_forall. intros x Hx. apply negb_true_iff.
  destruct (existsb (role_eqb x) r1) eqn:E; auto. exfalso.
  apply existsb_exists in E. destruct E as (y & Hy & Hxy). apply role_eqb_eq in Hxy. subst y.
  eapply disjointb_spec; eauto.
Qed.

Lemma pairwiseb_spec rl : pairwiseb rl = true -> owner_ok rl.
Proof.
  induction rl as [|r t IH]; intros H w1 w2 r1 r2 x Hne H1 H2 Hx1 Hx2.
  - destruct w1; discriminate.
  - cbn [pairwiseb] in H. apply andb_true_iff in H. destruct H as [Hh Ht]. rewrite forallb_forall in Hh.
    destruct w1 as [|w1], w2 as [|w2]; cbn [nth_error] in H1, H2; try congruence.
    + inversion H1; subst. apply nth_error_In in H2. eapply disjointb_spec; [apply (Hh _ H2)| |]; eauto.
    + inversion H2; subst. apply nth_error_In in H1. eapply disjointb_spec; [apply (Hh _ H1)| |]; eauto.
    + eapply (IH Ht w1 w2); eauto.
Qed.

Fixpoint nodupb (l : list nat) : bool :=
  match l with [] => true | x :: t => negb (memb x t) && nodupb t end.
Lemma memb_in x l : memb x l = true <-> In x l.
Proof.
  unfold memb. rewrite existsb_exists. split.
  - intros (y & Hy & E). apply Nat.eqb_eq in E. subst. exact Hy.
  - intros H. exists x. split; auto. apply Nat.eqb_refl.
Qed.
Lemma nodupb_spec l : nodupb l = true -> NoDup l.
Proof.
  induction l as [|x t IH]; intros H; [constructor|]. cbn [nodupb] in H. apply andb_true_iff in H.
  destruct H as [H1 H2]. constructor; auto. intros Hin. apply memb_in in Hin. rewrite Hin in H1. discriminate.
Qed.

Definition role_okb (nb : list (config * list bool)) (x : nat * tid) : bool :=
  match snd x with
  | TR i => match nth_error nb (fst x) with Some (_, ds) => i <? length ds | None => false end
  | _ => true
  end.

Definition thread_okb (nb : list (config * list bool)) (th : thread) : bool :=
  match th with
  | Worker prog pc it => (pc =? 0) && (it =? 0) && (0 <? length prog) && nodupb (sends_of prog)
  | Sink _ _ _ => true
  end && forallb (role_okb nb) (roles th).

Definition box_okb (cd : config * list bool) : bool :=
  match c_cap (fst cd) with Some _ => true | None => false end && match snd cd with [] => false | _ => true end.

Definition wf_b (nb : list (config * list bool)) (ths : list thread) : bool :=
  forallb box_okb nb && forallb (thread_okb nb) ths && pairwiseb (map roles ths).

Theorem wf_b_GI nb ths N : wf_b nb ths = true -> GI N (mk_net nb ths N).
Proof.
  unfold wf_b. intros H. apply andb_true_iff in H. destruct H as [H Hp]. apply andb_true_iff in H.
  destruct H as [Hb Ht]. rewrite forallb_forall in Hb, Ht. apply wf_GI.
  - intros d cfg ds Hd. apply nth_error_In in Hd. specialize (Hb _ Hd). unfold box_okb in Hb. cbn [fst snd] in Hb.
    apply andb_true_iff in Hb. destruct Hb as [H1 H2]. split.
    + destruct (c_cap cfg); [discriminate|discriminate].
    + destruct ds; [discriminate|discriminate].
  - intros w th Hw. apply nth_error_In in Hw. specialize (Ht _ Hw). unfold thread_okb in Ht.
    apply andb_true_iff in Ht. destruct Ht as [H1 H2]. split.
    + destruct th as [prog pc it|u i b]; auto.
      repeat (apply andb_true_iff in H1; destruct H1 as [H1 ?]).
      apply Nat.eqb_eq in H1. apply Nat.eqb_eq in H3. apply Nat.ltb_lt in H0. apply nodupb_spec in H. auto.
    + intros u i Hin. rewrite forallb_forall in H2. specialize (H2 _ Hin). unfold role_okb in H2. cbn [fst snd] in H2.
      destruct (nth_error nb u) as [[cfg ds]|]; [|discriminate]. apply Nat.ltb_lt in H2. eauto.
  - apply pairwiseb_spec. exact Hp.
Qed.
