(* Property C16: copying, stand-alone rechunking, rechunk-on-load and per-chunk make + merge preserve the
   data.  Everything rests on rechunk_stream_correct_strong (Proof/RechunkerStrong.v). *)
From SV Require Import Model.Rows Model.SplitArray Model.Chunk Model.Rechunker Model.CopyRechunk
     Proof.RowsFacts Proof.SplitArrayProof Proof.ChunkProof Proof.RechunkerProof Proof.RechunkerStrong.

(* ------------------------------------------------------------------ streams *)
Lemma chain_last_end : forall cs s e, chain s cs e -> last_end s cs = e.
Proof.
  induction cs as [|c cs IH]; intros s e H; cbn in *; [exact H|]. destruct H as [_ H]. apply IH. exact H.
Qed.

Lemma chain_last : forall cs s e d, cs <> [] -> chain s cs e -> cend (last cs d) = e.
Proof.
  induction cs as [|c cs IH]; intros s e d Hne H; [congruence|].
  cbn in H. destruct H as [_ H]. destruct cs as [|c' cs']; [cbn in *; exact H|].
  change (last (c :: c' :: cs') d) with (last (c' :: cs') d). eapply IH; [discriminate|exact H].
Qed.

Lemma chain_map_same (g : chunk -> chunk) :
  (forall c, cstart (g c) = cstart c /\ cend (g c) = cend c) ->
  forall cs s e, chain s (map g cs) e <-> chain s cs e.
Proof.
  intros Hg. induction cs as [|c cs IH]; intros s e; cbn [map chain]; [tauto|].
  destruct (Hg c) as [-> ->]. rewrite IH. tauto.
Qed.

Lemma flat_map_rows_map_same (g : chunk -> chunk) :
  (forall c, crows (g c) = crows c) -> forall cs, flat_map crows (map g cs) = flat_map crows cs.
Proof. intros Hg. induction cs as [|c cs IH]; cbn; [reflexivity|]. rewrite Hg, IH. reflexivity. Qed.

Lemma wf_same_range (c d : chunk) :
  cstart d = cstart c -> cend d = cend c -> crows d = crows c -> wf c -> wf d.
Proof. unfold wf. intros -> -> ->. tauto. Qed.

Lemma Forall_wf_map_same (g : chunk -> chunk) :
  (forall c, cstart (g c) = cstart c /\ cend (g c) = cend c /\ crows (g c) = crows c) ->
  forall cs, Forall wf cs -> Forall wf (map g cs).
Proof.
  intros Hg cs H. apply Forall_map. eapply Forall_impl; [|exact H]. intros c Hc.
  destruct (Hg c) as (A & B & C). eapply wf_same_range; eauto.
Qed.

(* a contiguous stream of well-formed chunks of one data type and run with positive targets *)
Definition vstream (dt : Z) (run : option Z) (a : Z) (cs : list chunk) (b : Z) : Prop :=
  cs <> [] /\ Forall wf cs /\ Forall (fun c => 0 < ctarget c /\ cdtype c = dt /\ crun c = run) cs /\ chain a cs b.

Lemma vstream_valid dt run a cs b :
  vstream dt run a cs b -> valid_stream cs /\ stream_start cs = a /\ stream_end cs = b.
Proof.
  intros (Hne & Hwf & Hm & Hch). destruct cs as [|c0 rest]; [congruence|].
  cbn in Hch. destruct Hch as [Hs Hch]. pose proof (chain_last_end _ _ _ Hch) as HL.
  pose proof (Forall_inv Hm) as (T0 & D0 & R0). pose proof (Forall_inv_tail Hm) as Hm'.
  split; [|split; [exact Hs|exact HL]].
  cbn. split; [exact Hwf|]. split.
  - eapply Forall_impl; [|exact Hm]. cbn. tauto.
  - split; [|rewrite HL; exact Hch].
    eapply Forall_impl; [|exact Hm']. cbn. intros c (_ & ? & ?). split; congruence.
Qed.

Lemma valid_vstream cs :
  valid_stream cs -> exists dt run, vstream dt run (stream_start cs) cs (stream_end cs).
Proof.
  destruct cs as [|c0 rest]; [intros []|]. intros (Hwf & Ht & Hm & Hch).
  exists (cdtype c0), (crun c0). split; [discriminate|]. split; [exact Hwf|]. split.
  - inversion Ht as [|? ? T0 Ht']; subst. constructor; [auto|].
    rewrite Forall_forall in *. intros c Hc. destruct (Hm c Hc). auto.
  - cbn. split; [reflexivity|exact Hch].
Qed.

Lemma vstream_retarget dt run a cs b t :
  0 < t -> vstream dt run a cs b -> vstream dt run a (map (retarget t) cs) b.
Proof.
  intros Ht (Hne & Hwf & Hm & Hch). split; [destruct cs; [congruence|discriminate]|].
  split; [apply Forall_wf_map_same; [intros; cbn; auto|exact Hwf]|]. split.
  - apply Forall_map. eapply Forall_impl; [|exact Hm]. cbn. intros c (_ & ? & ?). auto.
  - apply chain_map_same; [intros; cbn; auto|exact Hch].
Qed.

(* what Saver.save_from hands to save(): rows, range and contiguity preserved; without rechunking the
   chunks themselves; with rechunking every new boundary lies strictly inside a row-free gap *)
Lemma save_chunks_ok dt run a cs b rechunk :
  vstream dt run a cs b ->
  exists outs, save_chunks cs rechunk = Ok outs /\ outs <> [] /\ Forall wf outs /\
    flat_map crows outs = flat_map crows cs /\ chain a outs b /\
    Forall (fun c => cdtype c = dt /\ crun c = run) outs /\
    (rechunk = false -> outs = cs) /\
    (rechunk = true -> Forall (cut_in a b (flat_map crows cs)) (removelast outs)).
Proof.
  intros V. destruct rechunk; cbn [save_chunks].
  - destruct (vstream_valid _ _ _ _ _ V) as (Hv & Hs & He).
    destruct (rechunk_stream_correct_strong cs Hv) as (body & lst & E & W & R & C & M & K).
    rewrite Hs, He in *. exists (body ++ [lst]). split; [exact E|]. split; [destruct body; discriminate|].
    split; [exact W|]. split; [exact R|]. split; [exact C|]. split; [|split; [discriminate|]].
    + destruct V as (Hne & _ & Hm & _). destruct cs as [|c0 rest]; [congruence|]. cbn [hd] in M.
      inversion Hm as [|? ? (_ & D0 & R0) _]; subst.
      eapply Forall_impl; [|exact M]. intros c [-> ->]. split; reflexivity.
    + intros _. rewrite removelast_last. exact K.
  - exists cs. destruct V as (Hne & Hwf & Hm & Hch). repeat split; auto; try discriminate.
    eapply Forall_impl; [|exact Hm]. cbn. tauto.
Qed.

(* ------------------------------------------------------------------ saver / loader *)
Section StoreProofs.
Context {bytes : Type} (enc : Z -> list row -> bytes) (dec : Z -> bytes -> option (list row)).
Hypothesis codec : forall k rs, dec k (enc k rs) = Some rs.

Notation stored := (stored bytes).
Notation cinfo := (cinfo bytes).

(* a chunk as the loader rebuilds it: data type, kind and target size come from the metadata *)
Definition relabel (s : stored) (ovr : option Z) (c : chunk) : chunk :=
  mkchunk (cstart c) (cend c) (crows c) (md_dtype s) (md_kind s) (crun c)
          (match ovr with Some t => t | None => md_target s end).

Lemma relabel_same s ovr c :
  cstart (relabel s ovr c) = cstart c /\ cend (relabel s ovr c) = cend c /\ crows (relabel s ovr c) = crows c.
Proof. cbn. auto. Qed.

Lemma read_info s ovr c :
  wf c -> read_chunk dec s ovr (info_of enc (md_comp s) c) = Ok (relabel s ovr c).
Proof.
  intros (H0 & Hse & Hs & HF). unfold read_chunk, info_of, relabel. cbn [ci_n ci_start ci_end ci_run ci_file].
  assert (HF' : Forall (fun r => cstart c <= rt r /\ re r <= cend c) (crows c)).
  { eapply Forall_impl; [|exact HF]. cbn. tauto. }
  destruct (crows c) as [|r l] eqn:E.
  - cbn [length Z.of_nat Z.eqb res_bind negb]. rewrite mk_chunk_ok by (auto; lia). cbn [res_bind].
    destruct ovr; reflexivity.
  - destruct (Z.of_nat (length (r :: l)) =? 0) eqn:E0; [cbn [length] in E0; lia|].
    rewrite codec. cbn [res_bind]. rewrite Z.eqb_refl. cbn [negb].
    rewrite mk_chunk_ok by (auto; lia). cbn [res_bind]. destruct ovr; reflexivity.
Qed.

Lemma load_from_saved s ovr : forall outs i,
  Forall wf outs ->
  load_from dec s None ovr None i (map (info_of enc (md_comp s)) outs) = Ok (map (relabel s ovr) outs).
Proof.
  induction outs as [|c outs IH]; intros i Hwf; [reflexivity|].
  inversion Hwf; subst. cbn [map load_from selected]. rewrite read_info by auto. cbn [res_bind].
  rewrite IH by auto. reflexivity.
Qed.

Lemma load_closed md outs exc ovr :
  Forall wf outs -> outs <> [] ->
  load dec (close_md md (map (info_of enc (md_comp md)) outs) exc) None ovr None = Ok (map (relabel md ovr) outs).
Proof.
  intros Hwf Hne. unfold load. cbn [close_md md_chunks].
  destruct outs as [|c outs]; [congruence|]. cbn [map].
  change (info_of enc (md_comp md) c :: map (info_of enc (md_comp md)) outs)
    with (map (info_of enc (md_comp md)) (c :: outs)).
  set (s := close_md md _ exc). change (md_comp md) with (md_comp s).
  rewrite load_from_saved by exact Hwf. reflexivity.
Qed.

(* the target-size override of FileSytemBackend only relabels *)
Lemma read_chunk_ovr s t ci :
  read_chunk dec s (Some t) ci =
  match read_chunk dec s None ci with Ok c => Ok (retarget t c) | Err e => Err e end.
Proof.
  unfold read_chunk.
  destruct (if ci_n ci =? 0 then Ok [] else _) as [rows|e]; cbn [res_bind]; [|reflexivity].
  destruct (negb _); [reflexivity|].
  destruct (mk_chunk _ _ _ _ _ _ _); reflexivity.
Qed.

Lemma load_from_ovr s t : forall cis i cs,
  load_from dec s None None None i cis = Ok cs ->
  load_from dec s None (Some t) None i cis = Ok (map (retarget t) cs).
Proof.
  induction cis as [|ci cis IH]; intros i cs H; cbn [load_from selected] in *.
  - inversion H; subst. reflexivity.
  - rewrite read_chunk_ovr. destruct (read_chunk dec s None ci) as [c|e]; cbn [res_bind] in *; [|discriminate].
    destruct (load_from dec s None None None (S i) cis) as [more|e] eqn:E; cbn [res_bind] in *; [|discriminate].
    inversion H; subst. rewrite (IH _ _ E). reflexivity.
Qed.

Lemma load_ovr s t cs :
  load dec s None None None = Ok cs -> load dec s None (Some t) None = Ok (map (retarget t) cs).
Proof.
  unfold load. destruct (md_chunks s) as [|ci cis]; [discriminate|]. apply load_from_ovr.
Qed.

(* ------------------------------------------------------------------ metadata consistent with the files *)
Definition info_ok (ci : cinfo) (c : chunk) : Prop :=
  ci_n ci = Z.of_nat (length (crows c)) /\ ci_start ci = cstart c /\ ci_end ci = cend c /\ ci_run ci = crun c /\
  ci_first ci = first_of (crows c) /\ ci_last ci = last_of (crows c) /\
  (ci_file ci = None <-> crows c = []).

(* complete, loadable; every chunk_info describes the rows in its file (n, first/last times, range, file
   present iff non-empty); the chunks are well-formed and contiguous from the overall start to the overall end *)
Definition meta_consistent (s : stored) : Prop :=
  is_valid s = true /\
  exists cs, load dec s None None None = Ok cs /\ cs <> [] /\ Forall2 info_ok (md_chunks s) cs /\
             Forall wf cs /\ chain (md_start s) cs (md_end s).

Lemma info_of_ok k c d :
  cstart d = cstart c -> cend d = cend c -> crows d = crows c -> crun d = crun c -> info_ok (info_of enc k c) d.
Proof.
  intros A B C D. unfold info_ok, info_of. cbn. rewrite A, B, C, D. repeat split; auto.
  - destruct (crows c); [auto|discriminate].
  - intros ->. reflexivity.
Qed.

Lemma last_map {A B} (g : A -> B) : forall l d, last (map g l) (g d) = g (last l d).
Proof.
  induction l as [|x l IH]; intros d; [reflexivity|]. destruct l as [|y l]; [reflexivity|].
  change (last (map g (x :: y :: l)) (g d)) with (last (map g (y :: l)) (g d)). rewrite IH. reflexivity.
Qed.

Lemma closed_consistent md outs a b :
  Forall wf outs -> outs <> [] -> chain a outs b ->
  let s := close_md md (map (info_of enc (md_comp md)) outs) false in
  meta_consistent s /\ md_start s = a /\ md_end s = b /\
  load dec s None None None = Ok (map (relabel md None) outs).
Proof.
  intros Hwf Hne Hch s. pose proof (load_closed md outs false None Hwf Hne) as HL. fold s in HL.
  assert (Hs : md_start s = a /\ md_end s = b).
  { destruct outs as [|c outs]; [congruence|]. subst s. cbn [close_md md_start md_end map ci_start info_of].
    split; [cbn in Hch; tauto|].
    change (info_of enc (md_comp md) c :: map (info_of enc (md_comp md)) outs)
      with (map (info_of enc (md_comp md)) (c :: outs)).
    rewrite last_map. cbn [ci_end info_of]. eapply chain_last; [discriminate|exact Hch]. }
  destruct Hs as [Hsa Hsb]. split; [|auto].
  split; [reflexivity|]. exists (map (relabel md None) outs). split; [exact HL|].
  split; [destruct outs; [congruence|discriminate]|]. split; [|split].
  - subst s. cbn [close_md md_chunks]. clear. induction outs as [|c outs IH]; cbn [map]; constructor; auto.
    apply info_of_ok; reflexivity.
  - apply Forall_wf_map_same; [apply relabel_same|exact Hwf].
  - rewrite Hsa, Hsb. apply chain_map_same; [intros c; cbn; auto|exact Hch].
Qed.

(* ------------------------------------------------------------------ good stored data *)
(* complete data that loads to the valid stream cs *)
Definition good (s : stored) (cs : list chunk) : Prop :=
  is_valid s = true /\ load dec s None None None = Ok cs /\ valid_stream cs.

Lemma read_chunk_fields s ci c :
  read_chunk dec s None ci = Ok c -> ctarget c = md_target s /\ cdtype c = md_dtype s.
Proof.
  unfold read_chunk.
  destruct (if ci_n ci =? 0 then Ok [] else _) as [rows|e]; cbn [res_bind]; [|discriminate].
  destruct (negb _); [discriminate|].
  destruct (mk_chunk _ _ _ _ _ _ _) as [c'|e] eqn:E; cbn [res_bind]; [|discriminate].
  intros H. inversion H; subst c'. apply mk_chunk_inv in E. subst c. cbn. auto.
Qed.

Lemma load_from_fields s : forall cis i cs,
  load_from dec s None None None i cis = Ok cs ->
  Forall (fun c => ctarget c = md_target s /\ cdtype c = md_dtype s) cs.
Proof.
  induction cis as [|ci cis IH]; intros i cs H; cbn [load_from selected] in H.
  - inversion H; subst. constructor.
  - destruct (read_chunk dec s None ci) as [c|e] eqn:Ec; cbn [res_bind] in H; [|discriminate].
    destruct (load_from dec s None None None (S i) cis) as [more|e] eqn:E; cbn [res_bind] in H; [|discriminate].
    inversion H; subst. constructor; [eapply read_chunk_fields; eauto|eapply IH; eauto].
Qed.

Lemma good_target s cs : good s cs -> 0 < md_target s.
Proof.
  intros (_ & HL & HV). unfold load in HL. destruct (md_chunks s) as [|ci cis]; [discriminate|].
  apply load_from_fields in HL. destruct cs as [|c0 rest]; [destruct HV|].
  destruct HV as (_ & HT & _). inversion HT; subst. inversion HL as [|? ? [Ht _] _]; subst. lia.
Qed.

Definition opt_retarget (o : option Z) (cs : list chunk) : list chunk :=
  match o with Some t => map (retarget t) cs | None => cs end.

Definition shape (c : chunk) : Z * Z * list row := (cstart c, cend c, crows c).

Lemma shape_map_same (g : chunk -> chunk) :
  (forall c, cstart (g c) = cstart c /\ cend (g c) = cend c /\ crows (g c) = crows c) ->
  forall cs, map shape (map g cs) = map shape cs.
Proof.
  intros Hg cs. rewrite map_map. apply map_ext. intros c. unfold shape.
  destruct (Hg c) as (-> & -> & ->). reflexivity.
Qed.

Lemma opt_retarget_props o dt run a cs b :
  (forall t, o = Some t -> 0 < t) -> vstream dt run a cs b ->
  vstream dt run a (opt_retarget o cs) b /\ flat_map crows (opt_retarget o cs) = flat_map crows cs /\
  map shape (opt_retarget o cs) = map shape cs.
Proof.
  intros Ho V. destruct o as [t|]; cbn [opt_retarget]; [|auto].
  split; [apply vstream_retarget; auto|]. split.
  - apply flat_map_rows_map_same. reflexivity.
  - apply shape_map_same. intros; cbn; auto.
Qed.

(* the interior boundaries of a stream: ends of all chunks but the last *)
Definition cuts_ok (a b : Z) (rows : list row) (cs : list chunk) : Prop :=
  Forall (cut_in a b rows) (removelast cs).

Lemma removelast_map {A B} (g : A -> B) : forall l, removelast (map g l) = map g (removelast l).
Proof.
  induction l as [|x l IH]; [reflexivity|]. destruct l as [|y l]; [reflexivity|].
  change (removelast (map g (x :: y :: l))) with (g x :: removelast (map g (y :: l))). rewrite IH. reflexivity.
Qed.

Lemma cuts_ok_map_same (g : chunk -> chunk) a b rows cs :
  (forall c, cend (g c) = cend c) -> cuts_ok a b rows cs -> cuts_ok a b rows (map g cs).
Proof.
  intros Hg H. unfold cuts_ok in *. rewrite removelast_map. apply Forall_map.
  eapply Forall_impl; [|exact H]. intros c Hc. unfold cut_in in *. rewrite Hg. exact Hc.
Qed.

(* load -> retarget -> save_from *)
Lemma transfer_ok s cs ovr retgt rechunk :
  good s cs -> (forall t, ovr = Some t -> 0 < t) -> (forall t, retgt = Some t -> 0 < t) ->
  exists outs, transfer dec s ovr retgt rechunk = Ok outs /\ outs <> [] /\ Forall wf outs /\
    flat_map crows outs = flat_map crows cs /\ chain (stream_start cs) outs (stream_end cs) /\
    (rechunk = false -> map shape outs = map shape cs) /\
    (rechunk = true -> cuts_ok (stream_start cs) (stream_end cs) (flat_map crows cs) outs).
Proof.
  intros (Hv & HL & HV) Ho Hr. destruct (valid_vstream cs HV) as (dt & run & V).
  destruct (opt_retarget_props ovr _ _ _ _ _ Ho V) as (V1 & R1 & S1).
  destruct (opt_retarget_props retgt _ _ _ _ _ Hr V1) as (V2 & R2 & S2).
  destruct (save_chunks_ok _ _ _ _ _ rechunk V2) as (outs & E & Hne & W & R & C & _ & Hs & Hc).
  exists outs. split.
  - unfold transfer.
    assert (HL' : load dec s None ovr None = Ok (opt_retarget ovr cs)).
    { destruct ovr as [t|]; [apply load_ovr; exact HL|exact HL]. }
    rewrite HL'. cbn [res_bind]. destruct retgt; exact E.
  - split; [exact Hne|]. split; [exact W|]. split; [congruence|]. split; [exact C|]. split.
    + intros Hf. rewrite (Hs Hf). congruence.
    + intros Ht. unfold cuts_ok. rewrite <- R1, <- R2. exact (Hc Ht).
Qed.

(* ------------------------------------------------------------------ the little file system *)
Lemma lookup_remove_same k (fs : fsys bytes) : lookup k (remove k fs) = None.
Proof.
  induction fs as [|[k' s] fs IH]; cbn [remove lookup]; [reflexivity|].
  destruct (k =? k') eqn:E; [exact IH|]. cbn [lookup]. rewrite E. exact IH.
Qed.

Lemma lookup_remove_other k k' (fs : fsys bytes) : k <> k' -> lookup k (remove k' fs) = lookup k fs.
Proof.
  intros Hne. induction fs as [|[k2 s] fs IH]; cbn [remove lookup]; [reflexivity|].
  destruct (k' =? k2) eqn:E.
  - destruct (k =? k2) eqn:E2; [lia|exact IH].
  - cbn [lookup]. destruct (k =? k2); [reflexivity|exact IH].
Qed.

Lemma lookup_put_same k s (fs : fsys bytes) : lookup k (put k s fs) = Some s.
Proof. unfold put. cbn [lookup]. rewrite Z.eqb_refl. reflexivity. Qed.

Lemma lookup_put_other k k' s (fs : fsys bytes) : k <> k' -> lookup k (put k' s fs) = lookup k fs.
Proof.
  intros Hne. unfold put. cbn [lookup]. destruct (k =? k') eqn:E; [lia|]. apply lookup_remove_other. exact Hne.
Qed.

Lemma last_two {A} (l : list A) x y d : last (l ++ [x; y]) d = y.
Proof. change [x; y] with ([x] ++ [y]). rewrite app_assoc. apply last_last. Qed.

Lemma saver_trace_other (fs : fsys bytes) dst tmp md infos final k :
  k <> dst -> k <> tmp ->
  Forall (fun fs' => lookup k fs' = lookup k fs) (saver_trace fs dst tmp md infos final).
Proof.
  intros Hd Ht. unfold saver_trace.
  assert (H2 : lookup k (remove tmp (remove dst fs)) = lookup k fs).
  { rewrite !lookup_remove_other by auto. reflexivity. }
  apply Forall_app. split; [|apply Forall_app; split].
  - constructor; [apply lookup_remove_other; auto|]. constructor; [exact H2|constructor].
  - apply Forall_map. apply Forall_forall. intros n _. rewrite lookup_put_other by auto. exact H2.
  - constructor; [rewrite lookup_put_other by auto; exact H2|].
    constructor; [rewrite lookup_put_other by auto; exact H2|constructor].
Qed.

(* the destination path holds nothing until the final rename puts the complete directory there *)
Lemma saver_trace_dst (fs : fsys bytes) dst tmp md infos final :
  dst <> tmp ->
  Forall (fun fs' => lookup dst fs' = None \/ lookup dst fs' = Some final) (saver_trace fs dst tmp md infos final).
Proof.
  intros Hne. unfold saver_trace.
  assert (H2 : lookup dst (remove tmp (remove dst fs)) = None).
  { rewrite lookup_remove_other by auto. apply lookup_remove_same. }
  apply Forall_app. split; [|apply Forall_app; split].
  - constructor; [left; apply lookup_remove_same|]. constructor; [left; exact H2|constructor].
  - apply Forall_map. apply Forall_forall. intros n _. left. rewrite lookup_put_other by auto. exact H2.
  - constructor; [left; rewrite lookup_put_other by auto; exact H2|].
    constructor; [right; apply lookup_put_same|constructor].
Qed.

Lemma saver_trace_last (fs : fsys bytes) dst tmp md infos final d :
  last (saver_trace fs dst tmp md infos final) d = put dst final (remove tmp (remove dst fs)).
Proof. unfold saver_trace. rewrite app_assoc. apply last_two. Qed.

Lemma saver_trace_last_tmp (fs : fsys bytes) dst tmp md infos final d :
  dst <> tmp -> lookup tmp (last (saver_trace fs dst tmp md infos final) d) = None.
Proof.
  intros Hne. rewrite saver_trace_last. rewrite lookup_put_other by auto. apply lookup_remove_same.
Qed.

(* what both copy and rechunker leave at the destination *)
Record dest_ok (s : stored) (cs : list chunk) (rechunk : bool) (s' : stored) (cs' : list chunk) : Prop := {
  d_meta : meta_consistent s';
  d_load : load dec s' None None None = Ok cs';
  d_rows : flat_map crows cs' = flat_map crows cs;
  d_start : md_start s' = stream_start cs;
  d_end : md_end s' = stream_end cs;
  d_same : rechunk = false -> map shape cs' = map shape cs;
  d_cuts : rechunk = true -> cuts_ok (stream_start cs) (stream_end cs) (flat_map crows cs) cs'
}.

Lemma dest_of_outs s cs rechunk md outs :
  outs <> [] -> Forall wf outs -> flat_map crows outs = flat_map crows cs ->
  chain (stream_start cs) outs (stream_end cs) ->
  (rechunk = false -> map shape outs = map shape cs) ->
  (rechunk = true -> cuts_ok (stream_start cs) (stream_end cs) (flat_map crows cs) outs) ->
  dest_ok s cs rechunk (close_md md (map (info_of enc (md_comp md)) outs) false) (map (relabel md None) outs).
Proof.
  intros Hne W R C Hs Hc.
  destruct (closed_consistent md outs _ _ W Hne C) as (M & A & B & L).
  constructor; auto.
  - rewrite flat_map_rows_map_same by reflexivity. exact R.
  - intros Hf. rewrite shape_map_same by (intros; cbn; auto). auto.
  - intros Ht. apply cuts_ok_map_same; [reflexivity|auto].
Qed.

(* ------------------------------------------------------------------ copy_to_frontend *)
Theorem copy_preserves (fs : fsys bytes) src dst tmp comp rechunk rechunk_to s cs :
  src <> dst -> src <> tmp -> dst <> tmp ->
  lookup src fs = Some s -> good s cs -> visible fs dst = false ->
  (rechunk = true -> 0 < rechunk_to) ->
  exists tr s' cs',
    copy_run enc dec fs src dst tmp comp rechunk rechunk_to = (tr, Ok tt) /\
    (* the source is the same directory after every step *)
    Forall (fun fs' => lookup src fs' = Some s) tr /\
    (* the destination path holds nothing or the complete copy *)
    Forall (fun fs' => lookup dst fs' = None \/ lookup dst fs' = Some s') tr /\
    lookup dst (last tr fs) = Some s' /\ lookup tmp (last tr fs) = None /\
    md_comp s' = match comp with Some k => k | None => md_comp s end /\
    dest_ok s cs rechunk s' cs'.
Proof.
  intros Hsd Hst Hdt Hl G Hvis Hrt. pose proof G as (Hv & HL & HV). pose proof (good_target s cs G) as Htg.
  unfold copy_run. rewrite Hl, Hv, Hvis. cbn [negb].
  set (md0 := opt_set_comp s comp).
  set (md := if rechunk && negb (md_target md0 =? rechunk_to) then set_target md0 rechunk_to else md0).
  assert (Hmt : 0 < md_target md).
  { subst md. destruct (rechunk && negb (md_target md0 =? rechunk_to)) eqn:E.
    - cbn. apply Hrt. destruct rechunk; [reflexivity|discriminate].
    - subst md0. destruct comp; cbn; exact Htg. }
  assert (Hmc : md_comp md = match comp with Some k => k | None => md_comp s end).
  { subst md md0. destruct (rechunk && _); destruct comp; reflexivity. }
  destruct (transfer_ok s cs None (Some (md_target md)) rechunk G) as (outs & E & Hne & W & R & C & Hs & Hc).
  { intros t Ht; discriminate. }
  { intros t Ht; inversion Ht; subst; exact Hmt. }
  rewrite E. cbn [run_saver].
  set (s' := close_md md (map (info_of enc (md_comp md)) outs) false).
  exists (saver_trace fs dst tmp md (map (info_of enc (md_comp md)) outs) s'), s', (map (relabel md None) outs).
  split; [reflexivity|]. split.
  { eapply Forall_impl; [|apply saver_trace_other; [exact Hsd|exact Hst]]. cbn. intros fs' ->. exact Hl. }
  split; [apply saver_trace_dst; exact Hdt|].
  split; [rewrite saver_trace_last; apply lookup_put_same|].
  split; [apply saver_trace_last_tmp; exact Hdt|].
  split; [exact Hmc|]. apply dest_of_outs; auto.
Qed.

(* an existing complete copy is never overwritten *)
Theorem copy_refuses_existing (fs : fsys bytes) src dst tmp comp rechunk rechunk_to s :
  lookup src fs = Some s -> is_valid s = true -> visible fs dst = true ->
  copy_run enc dec fs src dst tmp comp rechunk rechunk_to = ([], Err E_EXISTS).
Proof. intros Hl Hv Hd. unfold copy_run. rewrite Hl, Hv, Hd. reflexivity. Qed.

(* ------------------------------------------------------------------ strax.rechunker *)
Theorem rechunker_preserves (fs : fsys bytes) src dst tmp replace comp tgt rechunk s cs :
  src <> dst -> src <> tmp -> dst <> tmp ->
  lookup src fs = Some s -> good s cs -> (forall t, tgt = Some t -> 0 < t) ->
  exists tr s' cs',
    rechunker_run enc dec fs src dst tmp replace comp tgt rechunk = (tr, Ok tt) /\
    md_comp s' = match comp with Some k => k | None => md_comp s end /\
    md_target s' = match tgt with Some t => t | None => md_target s end /\
    dest_ok s cs rechunk s' cs' /\
    (replace = false ->
       (* no source path is written or removed; the destination holds nothing or the complete new data *)
       Forall (fun fs' => lookup src fs' = Some s) tr /\
       Forall (fun fs' => lookup dst fs' = None \/ lookup dst fs' = Some s') tr /\
       lookup dst (last tr fs) = Some s') /\
    (replace = true ->
       lookup src (last tr fs) = Some s' /\ lookup dst (last tr fs) = None /\
       (* a crash after any step leaves the complete old data, nothing, or the complete new data under
          the source path ... *)
       Forall (fun fs' => lookup src fs' = Some s \/ lookup src fs' = None \/ lookup src fs' = Some s') tr /\
       (* ... and the data is never gone from both places *)
       Forall (fun fs' => lookup src fs' = Some s \/ lookup dst fs' = Some s' \/ lookup src fs' = Some s') tr).
Proof.
  intros Hsd Hst Hdt Hl G Htg. unfold rechunker_run. rewrite Hl.
  destruct (src =? dst) eqn:Esd; [lia|]. unfold rechunker_unguarded. rewrite Hl.
  set (md := opt_set_target (opt_set_comp s comp) tgt).
  assert (Hmc : md_comp md = match comp with Some k => k | None => md_comp s end).
  { subst md. destruct tgt, comp; reflexivity. }
  assert (Hmt : md_target md = match tgt with Some t => t | None => md_target s end).
  { subst md. destruct tgt, comp; reflexivity. }
  destruct (transfer_ok s cs tgt None rechunk G Htg) as (outs & E & Hne & W & R & C & Hs & Hc).
  { intros t Ht; discriminate. }
  assert (Hinit : lookup src (put tmp (open_md md []) (remove tmp (remove dst fs))) = Some s).
  { rewrite lookup_put_other by auto. rewrite !lookup_remove_other by auto. exact Hl. }
  rewrite Hinit. rewrite E. cbn [run_saver].
  set (infos := map (info_of enc (md_comp md)) outs).
  set (s' := close_md md infos false).
  set (tr0 := saver_trace fs dst tmp md infos s').
  assert (D : dest_ok s cs rechunk s' (map (relabel md None) outs)) by (apply dest_of_outs; auto).
  assert (Hsrc0 : Forall (fun fs' => lookup src fs' = Some s) tr0).
  { eapply Forall_impl; [|apply saver_trace_other; [exact Hsd|exact Hst]]. cbn. intros fs' ->. exact Hl. }
  pose proof (saver_trace_dst fs dst tmp md infos s' Hdt) as Hdst0. fold tr0 in Hdst0.
  assert (Hlast0 : forall d, last tr0 d = put dst s' (remove tmp (remove dst fs))) by (intros; apply saver_trace_last).
  destruct replace.
  - set (fs1 := last tr0 fs). set (fs2 := remove src fs1).
    exists (tr0 ++ [fs2; move dst src fs2]), s', (map (relabel md None) outs).
    split; [reflexivity|]. split; [exact Hmc|]. split; [exact Hmt|]. split; [exact D|].
    split; [discriminate|]. intros _.
    assert (H1d : lookup dst fs1 = Some s') by (subst fs1; rewrite Hlast0; apply lookup_put_same).
    assert (H2s : lookup src fs2 = None) by apply lookup_remove_same.
    assert (H2d : lookup dst fs2 = Some s') by (subst fs2; rewrite lookup_remove_other by auto; exact H1d).
    assert (Hmv : move dst src fs2 = put src s' (remove dst fs2)) by (unfold move; rewrite H2d; reflexivity).
    assert (H3s : lookup src (move dst src fs2) = Some s') by (rewrite Hmv; apply lookup_put_same).
    assert (H3d : lookup dst (move dst src fs2) = None).
    { rewrite Hmv. rewrite lookup_put_other by auto. apply lookup_remove_same. }
    rewrite last_two. split; [exact H3s|]. split; [exact H3d|]. split.
    + apply Forall_app. split; [eapply Forall_impl; [|exact Hsrc0]; cbn; tauto|].
      constructor; [right; left; exact H2s|]. constructor; [right; right; exact H3s|constructor].
    + apply Forall_app. split; [eapply Forall_impl; [|exact Hsrc0]; cbn; tauto|].
      constructor; [right; left; exact H2d|]. constructor; [right; right; exact H3s|constructor].
  - exists tr0, s', (map (relabel md None) outs).
    split; [reflexivity|]. split; [exact Hmc|]. split; [exact Hmt|]. split; [exact D|].
    split; [|discriminate]. intros _. split; [exact Hsrc0|]. split; [exact Hdst0|].
    rewrite Hlast0. apply lookup_put_same.
Qed.

End StoreProofs.
