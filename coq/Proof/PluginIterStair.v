(* Property C08, the pass limit of the re-trim loop (DESIGN section 7, T4).

   The re-trim loop is characterised from the rows alone.  For a dependency with rows R and a time y,
   `adm R y y'` says y' is the latest time <= y that no row of R straddles (where an early split of
   that dependency at y ends up).  Starting from a pacemaker boundary y the loop compares these
   times over all dependencies; when they differ it restarts from their minimum.  `stair_ok Rs p y y'`
   says: within p comparisons the times agree, at y'.  The "staircase" of mutually straddling rows is
   exactly what makes this take many steps. *)
From SV Require Import Model.Rows Model.SplitArray Model.Chunk Model.PluginIter
     Proof.RowsFacts Proof.SplitArrayProof Proof.ChunkProof Proof.PluginIterProof Proof.PluginIterRound.

Definition adm (R : list row) (y y' : Z) : Prop :=
  y' <= y /\ ~ straddled R y' /\ forall z, y' < z <= y -> straddled R z.

Lemma adm_unique R y y1 y2 : adm R y y1 -> adm R y y2 -> y1 = y2.
Proof.
  intros (A1 & A2 & A3) (B1 & B2 & B3).
  destruct (Z_lt_dec y1 y2) as [H|H]; [exfalso; apply B2, A3; lia|].
  destruct (Z_lt_dec y2 y1) as [H'|H']; [exfalso; apply A2, B3; lia|lia].
Qed.

Inductive stair_ok (Rs : list (list row)) : nat -> Z -> Z -> Prop :=
| stair_done p y y' : (forall R, In R Rs -> adm R y y') -> stair_ok Rs (S p) y y'
| stair_next p y y1 y' :
    (forall R, In R Rs -> exists z, adm R y z /\ y1 <= z) ->
    (exists R, In R Rs /\ adm R y y1) ->
    ~ (forall R, In R Rs -> adm R y y1) ->
    stair_ok Rs p y1 y' -> stair_ok Rs (S p) y y'.

(* more comparisons never hurt *)
Lemma stair_ok_mono Rs p y y' : stair_ok Rs p y y' -> forall q, (p <= q)%nat -> stair_ok Rs q y y'.
Proof.
  induction 1 as [p y y' H|p y y1 y' H1 H2 H3 H4 IH]; intros q Hq; (destruct q as [|q]; [lia|]).
  - apply stair_done. exact H.
  - eapply stair_next; eauto. apply IH. lia.
Qed.

(* nothing straddles y in any dependency: no trimming, one comparison suffices *)
Lemma stair_ok_unstraddled Rs y p : (forall R, In R Rs -> ~ straddled R y) -> stair_ok Rs (S p) y y.
Proof.
  intros H. apply stair_done. intros R HR. split; [lia|]. split; [apply H, HR|]. intros z Hz. lia.
Qed.

Lemma zminl_eq d l m : m <= d -> Forall (fun x => m <= x) l -> In m l -> zminl d l = m.
Proof.
  intros H1 H2 H3. pose proof (zminl_le_in d l m H3). pose proof (zminl_ge d l m H1 H2). lia.
Qed.

Section Run.
Variable run : option Z.

Lemma pend_adm R b dt done y inp s : pend_inv R b dt run done y inp s -> adm R y (cend inp).
Proof.
  intros HP. split; [apply (pi_le _ _ _ _ _ _ _ _ HP)|]. split; [eapply pend_unstraddled, HP|apply (pi_late _ _ _ _ _ _ _ _ HP)].
Qed.

Lemma pends_adm E y specs dones inps ss :
  pends_inv run E y specs dones inps ss -> Forall2 (fun d i => adm (dR d) y (cend i)) specs inps.
Proof. induction 1; constructor; auto. eapply pend_adm; eauto. Qed.

Lemma Forall2_in_l {A B} (P : A -> B -> Prop) l1 l2 x : Forall2 P l1 l2 -> In x l1 -> exists y, In y l2 /\ P x y.
Proof.
  induction 1 as [|a b l1 l2 Hab _ IH]; intros Hin; [destruct Hin|].
  destruct Hin as [->|Hin]; [exists b; split; [left; reflexivity|exact Hab]|].
  destruct (IH Hin) as [y0 [H1 H2]]. exists y0. split; [right; exact H1|exact H2].
Qed.

Lemma Forall2_in_r {A B} (P : A -> B -> Prop) l1 l2 y : Forall2 P l1 l2 -> In y l2 -> exists x, In x l1 /\ P x y.
Proof.
  induction 1 as [|a b l1 l2 Hab _ IH]; intros Hin; [destruct Hin|].
  destruct Hin as [->|Hin]; [exists a; split; [left; reflexivity|exact Hab]|].
  destruct (IH Hin) as [x0 [H1 H2]]. exists x0. split; [right; exact H1|exact H2].
Qed.

(* the ends of the pending inputs agree iff one time is the latest admissible one for everybody *)
Lemma ends_agree_iff E y specs dones inps ss :
  pends_inv run E y specs dones inps ss -> inps <> [] ->
  (all_equal (map cend inps) = true <->
   exists y', forall R, In R (map dR specs) -> adm R y y').
Proof.
  intros HP Hne. pose proof (pends_adm _ _ _ _ _ _ HP) as HA. split.
  - intros Heq. destruct inps as [|i0 inps]; [congruence|]. exists (cend i0).
    intros R HR. apply in_map_iff in HR as (d & <- & Hd).
    destruct (Forall2_in_l _ _ _ _ HA Hd) as (i & Hi & Hadm).
    rewrite (all_equal_spec _ Heq (cend i0) (cend i)); [exact Hadm|left; reflexivity|apply in_map; exact Hi].
  - intros [y' Hy]. apply all_equal_complete. intros x z Hx Hz.
    apply in_map_iff in Hx as (i & <- & Hi). apply in_map_iff in Hz as (j & <- & Hj).
    destruct (Forall2_in_r _ _ _ _ HA Hi) as (d & Hd & Hadm).
    destruct (Forall2_in_r _ _ _ _ HA Hj) as (d' & Hd' & Hadm').
    rewrite (adm_unique _ _ _ _ Hadm (Hy _ (in_map dR _ _ Hd))).
    rewrite (adm_unique _ _ _ _ Hadm' (Hy _ (in_map dR _ _ Hd'))). reflexivity.
Qed.

(* the re-trim loop succeeds exactly when the staircase settles within the number of passes *)
Lemma retrim_ok_of_stair E : forall p y y' inps ss specs dones,
  stair_ok (map dR specs) p y y' ->
  pends_inv run E y specs dones inps ss -> E <= y -> inps <> [] ->
  exists inps' ss' y2, retrim p y inps ss = Ok (inps', ss') /\
    pends_inv run E y2 specs dones inps' ss' /\ (forall i, In i inps' -> cend i = y') /\
    map siter ss' = map siter ss.
Proof.
  intros p y y' inps ss specs dones HS. revert inps ss dones.
  induction HS as [p y y' Hall|p y y1 y' H1 H2 H3 HS IH]; intros inps ss dones HP HE Hne; cbn [retrim].
  - assert (Heq : all_equal (map cend inps) = true).
    { apply (ends_agree_iff _ _ _ _ _ _ HP Hne). exists y'. exact Hall. }
    rewrite Heq. exists inps, ss, y. split; [reflexivity|]. split; [exact HP|]. split; [|reflexivity].
    intros i Hi. pose proof (pends_adm _ _ _ _ _ _ HP) as HA.
    destruct (Forall2_in_r _ _ _ _ HA Hi) as (d & Hd & Hadm).
    apply (adm_unique _ _ _ _ Hadm (Hall _ (in_map dR _ _ Hd))).
  - pose proof (pends_adm _ _ _ _ _ _ HP) as HA.
    destruct (all_equal (map cend inps)) eqn:Heq.
    { exfalso. apply (ends_agree_iff _ _ _ _ _ _ HP Hne) in Heq as [c Hc].
      destruct H2 as (R & HR & HRadm). apply H3. intros R' HR'.
      rewrite (adm_unique _ _ _ _ HRadm (Hc R HR)). apply Hc, HR'. }
    assert (Ht : zminl y (map cend inps) = y1).
    { apply zminl_eq.
      - destruct H2 as (R & _ & (Hle & _)). exact Hle.
      - apply Forall_forall. intros x Hx. apply in_map_iff in Hx as (i & <- & Hi).
        destruct (Forall2_in_r _ _ _ _ HA Hi) as (d & Hd & Hadm).
        destruct (H1 _ (in_map dR _ _ Hd)) as (z & Hz & Hle).
        rewrite (adm_unique _ _ _ _ Hadm Hz). exact Hle.
      - destruct H2 as (R & HR & HRadm). apply in_map_iff in HR as (d & <- & Hd).
        destruct (Forall2_in_l _ _ _ _ HA Hd) as (i & Hi & Hadm).
        rewrite (adm_unique _ _ _ _ HRadm Hadm). apply in_map. exact Hi. }
    rewrite Ht.
    assert (Ht1 : E <= y1).
    { rewrite <- Ht. apply zminl_ge; [exact HE|]. apply Forall_map. eapply pends_inv_ends_ge, HP. }
    assert (Ht2 : Forall (fun i => y1 <= cend i) inps).
    { apply Forall_forall. intros i Hi. rewrite <- Ht. apply zminl_le_in. apply in_map. exact Hi. }
    destruct (retrim_split_spec run E y1 inps ss specs dones y HP Ht1 Ht2) as (inps' & ss' & E1 & HP' & Hit).
    rewrite E1. cbn [res_bind fst snd].
    assert (Hne' : inps' <> []).
    { pose proof (pends_inv_length _ _ _ _ _ _ _ HP') as (_ & _ & L1).
      pose proof (pends_inv_length _ _ _ _ _ _ _ HP) as (_ & _ & L2).
      assert (length ss' = length ss) by (rewrite <- (map_length siter ss'), Hit, map_length; reflexivity).
      destruct inps; [congruence|]. destruct inps'; [cbn in *; lia|discriminate]. }
    destruct (IH inps' ss' dones HP' Ht1 Hne') as (i2 & s2 & y2 & E2 & P2 & Q2 & R2).
    exists i2, s2, y2. split; [exact E2|]. split; [exact P2|]. split; [exact Q2|congruence].
Qed.

Lemma stair_of_retrim_ok E : forall p y inps ss specs dones inps' ss',
  pends_inv run E y specs dones inps ss -> E <= y -> inps <> [] ->
  retrim p y inps ss = Ok (inps', ss') ->
  exists y', stair_ok (map dR specs) p y y'.
Proof.
  induction p as [|p IH]; intros y inps ss specs dones inps' ss' HP HE Hne Hr; cbn [retrim] in Hr; [discriminate|].
  pose proof (pends_adm _ _ _ _ _ _ HP) as HA.
  destruct (all_equal (map cend inps)) eqn:Heq.
  - apply (ends_agree_iff _ _ _ _ _ _ HP Hne) in Heq as [c Hc]. exists c. apply stair_done. exact Hc.
  - set (t := zminl y (map cend inps)) in *.
    assert (Ht1 : E <= t).
    { apply zminl_ge; [exact HE|]. apply Forall_map. eapply pends_inv_ends_ge, HP. }
    assert (Ht2 : Forall (fun i => t <= cend i) inps).
    { apply Forall_forall. intros i Hi. apply zminl_le_in. apply in_map. exact Hi. }
    destruct (retrim_split_spec run E t inps ss specs dones y HP Ht1 Ht2) as (i1 & s1 & E1 & HP' & Hit).
    rewrite E1 in Hr. cbn [res_bind fst snd] in Hr.
    assert (Hne' : i1 <> []).
    { pose proof (pends_inv_length _ _ _ _ _ _ _ HP') as (_ & _ & L1).
      pose proof (pends_inv_length _ _ _ _ _ _ _ HP) as (_ & _ & L2).
      assert (length s1 = length ss) by (rewrite <- (map_length siter s1), Hit, map_length; reflexivity).
      destruct inps; [congruence|]. destruct i1; [cbn in *; lia|discriminate]. }
    destruct (IH t i1 s1 specs dones inps' ss' HP' Ht1 Hne' Hr) as [y' HS].
    exists y'. apply (stair_next _ p y t y'); [| | |exact HS].
    + intros R HR. apply in_map_iff in HR as (d & <- & Hd).
      destruct (Forall2_in_l _ _ _ _ HA Hd) as (i & Hi & Hadm). exists (cend i). split; [exact Hadm|].
      rewrite Forall_forall in Ht2. apply Ht2, Hi.
    + assert (Hall_le : forall i, In i inps -> cend i <= y).
      { intros i Hi. destruct (Forall2_in_r _ _ _ _ HA Hi) as (d & _ & (Hle & _)). exact Hle. }
      destruct (zminl_attained y (map cend inps)) as [Hy|Hin].
      * (* the minimum is y itself: then all ends equal y, contradiction *)
        exfalso. assert (all_equal (map cend inps) = true); [|congruence].
        apply all_equal_complete. intros a b Ha Hb.
        apply in_map_iff in Ha as (ia & <- & Hia). apply in_map_iff in Hb as (ib & <- & Hib).
        rewrite Forall_forall in Ht2. pose proof (Ht2 ia Hia). pose proof (Ht2 ib Hib).
        pose proof (Hall_le ia Hia). pose proof (Hall_le ib Hib). unfold t in *. lia.
      * fold t in Hin. apply in_map_iff in Hin as (i & Hi1 & Hi2).
        destruct (Forall2_in_r _ _ _ _ HA Hi2) as (d & Hd & Hadm).
        exists (dR d). split; [apply in_map; exact Hd|]. rewrite <- Hi1. exact Hadm.
    + intros Hc. assert (all_equal (map cend inps) = true); [|congruence].
      apply (ends_agree_iff _ _ _ _ _ _ HP Hne). exists t. exact Hc.
Qed.
End Run.
