(* C12 — lemmas about _fix_output of every plugin kind and about the run (savers, continuity
   check, exception path) of Model/PluginKinds.v. *)
From SV Require Import Model.Rows Model.Chunk Model.PluginKinds Proof.RowsFacts Proof.PluginKindsProof.

(* ------------------------------------------------------------------------------------------ *)
(* Plugin._fix_output.  fx = false: the code before the repairs of F1/F2 (pinned); fx = true:   *)
(* the repaired code.  Lemmas without a hypothesis on fx hold for both.                        *)
(* ------------------------------------------------------------------------------------------ *)
Definition is_chunk_item (i : item) : bool := match i with IMk _ _ _ _ _ _ _ => true | _ => false end.

(* a bare array of another dtype is rejected by _check_dtype *)
Theorem fix_single_bare_wrong_dtype fx p dt rows s e d :
  dt <> dtype_for p d -> fix_output_single_gen fx p (IArr dt rows) (Some (s, e)) d = Err E_WRONG_OUTPUT.
Proof. intros H. cbn. apply adt_eqb_neq in H. rewrite H. reflexivity. Qed.

(* plugins without dependencies must return chunks *)
Theorem fix_single_source_not_chunk fx p i d :
  is_chunk_item i = false -> fix_output_single_gen fx p i None d = Err E_SRC_NOT_CHUNK.
Proof. destruct i; cbn; try reflexivity; discriminate. Qed.

(* neither an array, a dict of columns nor a chunk *)
Theorem fix_single_other fx p range d : is_err (fix_output_single_gen fx p IOther range d).
Proof. destruct range as [[s e]|]; cbn; exact I. Qed.

(* a dict with a field the declared dtype does not have *)
Theorem fix_single_unknown_field fx p fs rows s e d :
  forallb (has_field (dtype_for p d)) fs = false ->
  is_err (fix_output_single_gen fx p (ICols fs rows) (Some (s, e)) d).
Proof. intros H. cbn. destruct (length fs =? 1)%nat; cbn; [exact I|]. rewrite H. exact I. Qed.

(* self.chunk(...) around data of another dtype: the constructor's comparison rejects it *)
Theorem fix_single_self_chunk_wrong_dtype fx p dt label kind s e rows range d :
  dt <> dtype_for p label ->
  fix_output_single_gen fx p (IMk (dtype_for p label) dt label kind s e rows) range d = Err E_CTOR_DTYPE.
Proof. intros H. cbn. rewrite mk_xchunk_wrong_dtype; auto. Qed.

(* a chunk labelled with another data type is rejected *)
Theorem fix_single_label fx p declared dt label kind s e rows range d :
  label <> d -> is_err (fix_output_single_gen fx p (IMk declared dt label kind s e rows) range d).
Proof.
  intros Hl. cbn. destruct (mk_xchunk declared dt s e rows label kind (Some (p_run p)) (p_tgt p)) eqn:E; cbn; [|exact I].
  apply mk_xchunk_ok in E as (_ & _ & E). apply mk_chunk_ok_fields in E. rewrite E. cbn.
  destruct (label =? d) eqn:E2; [apply Z.eqb_eq in E2; contradiction|exact I].
Qed.

(* rows outside the carrying range (bare array wrapped by the framework, at most W sorted rows) *)
Theorem fix_single_rows_outside fx p rows s e d :
  sorted rows -> (length rows <= end_window)%nat ->
  Exists (fun r => rt r < s \/ re r > e) rows ->
  is_err (fix_output_single_gen fx p (IArr (dtype_for p d) rows) (Some (s, e)) d).
Proof.
  intros Hs Hl Hx. cbn. rewrite adt_eqb_refl. cbn.
  apply mk_xchunk_err_iff. right. apply ctor_rejects_outside; auto.
Qed.

Definition range_ok (c : chunk) : Prop :=
  ~ is_err (mk_chunk (cstart c) (cend c) (crows c) (cdtype c) (ckind c) (crun c) (ctarget c)).

Lemma mk_chunk_ok_range_ok s e rows label kind run tgt c :
  mk_chunk s e rows label kind run tgt = Ok c -> range_ok c.
Proof.
  intros H. pose proof (mk_chunk_ok_fields _ _ _ _ _ _ _ _ H) as ->. unfold range_ok. cbn. rewrite H. cbn. tauto.
Qed.

(* what an accepted output of _fix_output looks like *)
Theorem fix_single_ok_inv fx p i range d x :
  fix_output_single_gen fx p i range d = Ok x ->
  cdtype (xc x) = d /\ range_ok (xc x) /\
  (is_chunk_item i = false -> xdt x = dtype_for p d) /\
  (forall declared dt label kind s e rows, i = IMk declared dt label kind s e rows -> xdt x = declared /\ dt = declared) /\
  (fx = true -> xdt x = dtype_for p d).
Proof.
  destruct i as [dt rows|declared dt label kind s e rows|fs rows|].
  - destruct range as [[s e]|]; cbn; [|discriminate].
    destruct (adt_eqb dt (dtype_for p d)); cbn; [|discriminate]. intros H.
    apply mk_xchunk_ok in H as (_ & H2 & H3). pose proof (mk_chunk_ok_fields _ _ _ _ _ _ _ _ H3) as E.
    split; [rewrite E; reflexivity|]. split; [eapply mk_chunk_ok_range_ok; eauto|].
    split; [auto|]. split; [intros; discriminate|auto].
  - cbn. destruct (mk_xchunk declared dt s e rows label kind (Some (p_run p)) (p_tgt p)) as [x0|] eqn:E; cbn; [|discriminate].
    destruct (cdtype (xc x0) =? d) eqn:E2; [|discriminate].
    destruct (fx && negb (adt_eqb (xdt x0) (dtype_for p d))) eqn:E5; [discriminate|].
    intros H; inversion H; subst.
    apply Z.eqb_eq in E2. apply mk_xchunk_ok in E as (E1 & E3 & E4).
    split; [auto|]. split; [eapply mk_chunk_ok_range_ok; eauto|].
    split; [discriminate|]. split.
    + intros ? ? ? ? ? ? ? H0. inversion H0; subst; auto.
    + intros ->. cbn in E5. apply negb_false_iff in E5. apply adt_eqb_eq in E5. exact E5.
  - destruct range as [[s e]|]; cbn; [|discriminate].
    destruct (length fs =? 1)%nat; cbn; [discriminate|].
    destruct (forallb (has_field (dtype_for p d)) fs); cbn; [|discriminate]. intros H.
    apply mk_xchunk_ok in H as (_ & H2 & H3). pose proof (mk_chunk_ok_fields _ _ _ _ _ _ _ _ H3) as E.
    split; [rewrite E; reflexivity|]. split; [eapply mk_chunk_ok_range_ok; eauto|].
    split; [auto|]. split; [intros; discriminate|auto].
  - destruct range as [[s e]|]; cbn; discriminate.
Qed.

(* hence: at most W sorted rows, all inside the chunk that carries them *)
Corollary fix_single_ok_rows_inside fx p i range d x :
  fix_output_single_gen fx p i range d = Ok x ->
  sorted (crows (xc x)) -> (length (crows (xc x)) <= end_window)%nat ->
  0 <= cstart (xc x) <= cend (xc x) /\
  Forall (fun r => cstart (xc x) <= rt r /\ re r <= cend (xc x)) (crows (xc x)).
Proof.
  intros H Hs Hl. apply fix_single_ok_inv in H as (_ & Hr & _).
  unfold range_ok in Hr. rewrite (ctor_rejects_outside _ _ _ _ _ _ _ Hs Hl) in Hr.
  split; [lia|]. apply Forall_forall. intros r Hin.
  destruct (Z_lt_dec (rt r) (cstart (xc x))) as [H1|H1];
    [exfalso; apply Hr; right; right; apply Exists_exists; exists r; auto|].
  destruct (Z_gt_dec (re r) (cend (xc x))) as [H2|H2];
    [exfalso; apply Hr; right; right; apply Exists_exists; exists r; auto|]. lia.
Qed.

(* The dtype of an accepted output is the declared one: for the repaired code always ... *)
Theorem fix_output_dtype_repaired p i range d x :
  fix_output_single_gen true p i range d = Ok x -> xdt x = dtype_for p d.
Proof. intros H. apply fix_single_ok_inv in H as (_ & _ & _ & _ & H). auto. Qed.

(* ... and a chunk of another dtype than declared is rejected by the repaired code *)
Theorem fix_single_raw_chunk_wrong_dtype_repaired p declared dt label kind s e rows range d :
  declared <> dtype_for p d ->
  is_err (fix_output_single_gen true p (IMk declared dt label kind s e rows) range d).
Proof.
  intros Hd. destruct (fix_output_single_gen true p (IMk declared dt label kind s e rows) range d) as [x|] eqn:E;
    [|exact I].
  pose proof (fix_output_dtype_repaired _ _ _ _ _ E) as H1.
  apply fix_single_ok_inv in E as (_ & _ & _ & H2 & _). destruct (H2 _ _ _ _ _ _ _ eq_refl) as [H3 _]. congruence.
Qed.

(* ... for the code before the repair only if chunks are built with the declared dtype *)
Theorem fix_output_dtype_partial fx p i range d x :
  (forall declared dt label kind s e rows, i = IMk declared dt label kind s e rows -> declared = dtype_for p d) ->
  fix_output_single_gen fx p i range d = Ok x -> xdt x = dtype_for p d.
Proof.
  intros Hd H. apply fix_single_ok_inv in H as (_ & _ & H1 & H2 & _).
  destruct i as [dt rows|declared dt label kind s e rows|fs rows|]; try (apply H1; reflexivity).
  destruct (H2 _ _ _ _ _ _ _ eq_refl) as [-> _]. eapply Hd; reflexivity.
Qed.

Definition escape_plugin : pdecl := mkp KOrdinary [2] [(2, [(1, 3); (2, 3)])] [(2, 2)] 0 1.
Definition escape_item : item := IMk [(1, 3); (2, 3); (5, 1)] [(1, 3); (2, 3); (5, 1)] 2 2 0 10 [mkrow 1 2 0 0].

(* F1: the code before the repair accepted it *)
Theorem fix_output_dtype_pinned_refuted :
  exists p i range d x, fix_output_single_gen false p i range d = Ok x /\ xdt x <> dtype_for p d.
Proof.
  exists escape_plugin, escape_item, (Some (0, 10)), 2.
  eexists. split; [vm_compute; reflexivity|vm_compute; discriminate].
Qed.

(* multi-output plugins must return a dict with every provided data type *)
Theorem fix_output_multi_requires_dict fx p i range :
  multi_output p = true -> fix_output_gen fx p (VItem i) range = Err E_NOT_DICT.
Proof. intros H. unfold fix_output_gen. rewrite H. reflexivity. Qed.

Lemma fix_each_missing fx p l range ds d :
  In d ds -> assoc d l = None -> is_err (fix_each_gen fx p l range ds).
Proof.
  induction ds as [|d' ds IH]; intros Hin Ha; [destruct Hin|]. cbn [fix_each_gen].
  destruct Hin as [->|Hin].
  - rewrite Ha. exact I.
  - destruct (assoc d' l); [|exact I]. destruct (fix_output_single_gen fx p i range d'); cbn; [|exact I].
    specialize (IH Hin Ha). destruct (fix_each_gen fx p l range ds); cbn; [destruct IH|exact I].
Qed.

Theorem fix_output_multi_missing_key fx p l range d :
  multi_output p = true -> In d (p_provides p) -> assoc d l = None -> is_err (fix_output_gen fx p (VDict l) range).
Proof. intros H Hin Ha. unfold fix_output_gen. rewrite H. eapply fix_each_missing; eauto. Qed.

Lemma fix_each_labels fx p l range ds cs :
  fix_each_gen fx p l range ds = Ok cs -> map (fun x => cdtype (xc x)) cs = ds.
Proof.
  revert cs; induction ds as [|d ds IH]; intros cs; cbn [fix_each_gen]; [intros H; inversion H; reflexivity|].
  destruct (assoc d l); [|discriminate]. destruct (fix_output_single_gen fx p i range d) eqn:E; cbn; [|discriminate].
  destruct (fix_each_gen fx p l range ds) eqn:E2; cbn; [|discriminate]. intros H; inversion H; subst. cbn.
  apply fix_single_ok_inv in E as (-> & _). rewrite (IH _ eq_refl). reflexivity.
Qed.

(* every accepted message carries exactly the promised data types, in order *)
Theorem fix_output_ok_labels fx p v range cs :
  fix_output_gen fx p v range = Ok cs -> map (fun x => cdtype (xc x)) cs = p_provides p.
Proof.
  unfold fix_output_gen. destruct (multi_output p) eqn:M.
  - destruct v; [discriminate|]. apply fix_each_labels.
  - unfold multi_output in M. apply Z.ltb_ge in M.
    destruct (p_provides p) as [|d [|d' ds]] eqn:P; cbn [length] in M; try lia.
    + destruct v; discriminate.
    + destruct v as [i|l].
      * destruct (fix_output_single_gen fx p i range d) eqn:E; cbn; [|discriminate].
        intros H; inversion H; subst. cbn. apply fix_single_ok_inv in E as (-> & _). reflexivity.
      * destruct (length l =? 1)%nat; discriminate.
Qed.

(* ------------------------------------------------------------------------------------------ *)
(* DownChunkingPlugin._fix_output                                                              *)
(* ------------------------------------------------------------------------------------------ *)
Theorem down_requires_generator fx p v range :
  p_kind p = KDown -> do_compute_out_gen fx p (PVal v) range = [Err E_NOT_GENERATOR].
Proof. intros H. unfold do_compute_out_gen. rewrite H. reflexivity. Qed.

Theorem down_requires_chunks fx p i : is_chunk_item i = false -> is_err (down_one_gen fx p (VItem i)).
Proof. destruct i; cbn; try discriminate; intros _; destruct (multi_output p); exact I. Qed.

Theorem down_chunk_ctor_checked fx p declared dt label kind s e rows :
  declared <> dt -> is_err (down_one_gen fx p (VItem (IMk declared dt label kind s e rows))).
Proof. intros H. cbn. rewrite mk_xchunk_wrong_dtype; auto. exact I. Qed.

(* the repaired code compares label and dtype of every yielded chunk *)
Theorem down_label_dtype_repaired p i x :
  down_one_gen true p (VItem i) = Ok [x] ->
  In (cdtype (xc x)) (p_provides p) /\ xdt x = dtype_for p (cdtype (xc x)).
Proof.
  unfold down_one_gen. destruct (build_item p i) as [oc|]; cbn; [|discriminate].
  destruct (multi_output p); [discriminate|].
  destruct oc as [c|]; [|discriminate]. destruct (p_provides p) as [|d ds]; [discriminate|].
  unfold down_check. destruct (cdtype (xc c) =? d) eqn:E; cbn; [|discriminate].
  destruct (adt_eqb (xdt c) (dtype_for p d)) eqn:E2; cbn; [|discriminate].
  intros H; inversion H; subst. apply Z.eqb_eq in E. apply adt_eqb_eq in E2.
  split; [left; auto|rewrite E; auto].
Qed.

(* F2 (and F1 for down-chunking): the code before the repair compared neither *)
Definition down_witness_plugin : pdecl := mkp KDown [2] [(2, [(1, 3); (2, 3)])] [(2, 2)] 0 1.
Definition down_witness_item : item := IMk [(1, 3); (2, 3)] [(1, 3); (2, 3)] 9 2 0 10 [mkrow 1 2 0 0].

Theorem down_label_pinned_refuted :
  exists p i x, multi_output p = false /\ down_one_gen false p (VItem i) = Ok [x] /\
                ~ In (cdtype (xc x)) (p_provides p).
Proof.
  exists down_witness_plugin, down_witness_item. eexists.
  split; [reflexivity|]. split; [vm_compute; reflexivity|].
  vm_compute. intros [H|H]; [discriminate|exact H].
Qed.
(* ------------------------------------------------------------------------------------------ *)
(* The run: savers, continuity check, exception path                                           *)
(* ------------------------------------------------------------------------------------------ *)
Definition all_open (svs : list saver) : Prop := Forall (fun sv => sv_status sv = SOpen) svs.

Lemma sv_receive_open sv c sv' : sv_receive sv c = Ok sv' -> sv_status sv' = SOpen.
Proof.
  unfold sv_receive. destruct (sv_rechunk sv).
  - destruct (sv_cache sv) as [k|]; [destruct (x_concat2 k c); cbn|]; intros H; inversion H; reflexivity.
  - intros H; inversion H; reflexivity.
Qed.

Lemma sv_deliver_topic_open d c svs : forall svs',
  all_open svs -> sv_deliver_topic d c svs = Ok svs' -> all_open svs'.
Proof.
  induction svs as [|sv svs IH]; intros svs' Ho; cbn [sv_deliver_topic].
  - intros H; inversion H; constructor.
  - inversion Ho as [|? ? Hsv Ho']; subst. destruct (sv_type sv =? d).
    + destruct (sv_receive sv c) eqn:E; cbn; [|discriminate].
      destruct (sv_deliver_topic d c svs) eqn:E2; cbn; [|discriminate]. intros H; inversion H; subst.
      constructor; [eapply sv_receive_open; eauto|apply IH; auto].
    + destruct (sv_deliver_topic d c svs) eqn:E2; cbn; [|discriminate]. intros H; inversion H; subst.
      constructor; [auto|apply IH; auto].
Qed.

Lemma sv_deliver_msg_open topics : forall cs svs svs',
  all_open svs -> sv_deliver_msg svs topics cs = Ok svs' -> all_open svs'.
Proof.
  induction topics as [|d ts IH]; intros cs svs svs' Ho; cbn [sv_deliver_msg].
  - intros H; inversion H; subst; auto.
  - destruct cs as [|c rest]; [intros H; inversion H; subst; auto|].
    destruct (sv_deliver_topic d c svs) eqn:E; cbn; [|discriminate].
    intros H. eapply IH; [|exact H]. eapply sv_deliver_topic_open; eauto.
Qed.

Lemma close_exc_invisible svs : all_open svs -> Forall (fun sv => visible sv = false) (map sv_close_exc svs).
Proof.
  intros H. apply Forall_map. eapply Forall_impl; [|exact H]. cbn. intros sv Hs.
  unfold sv_close_exc, visible. rewrite Hs. reflexivity.
Qed.

(* an exception anywhere in the run leaves no saver's data visible *)
Theorem run_msgs_err_invisible topics target : forall ms svs le acc,
  all_open svs ->
  is_err (o_result (run_msgs topics target ms svs le acc)) ->
  Forall (fun sv => visible sv = false) (o_savers (run_msgs topics target ms svs le acc)).
Proof.
  induction ms as [|m ms IH]; intros svs le acc Ho; cbn [run_msgs].
  - cbn. tauto.
  - destruct m as [cs|e]; [|cbn; intros _; apply close_exc_invisible; auto].
    destruct (sv_deliver_msg svs topics cs) as [svs'|e] eqn:E; [|cbn; intros _; apply close_exc_invisible; auto].
    pose proof (sv_deliver_msg_open _ _ _ _ Ho E) as Ho'.
    destruct (nth_chunk topics cs target) as [c|]; [|cbn; intros _; apply close_exc_invisible; auto].
    destruct (cont_step le c); [apply IH; auto|cbn; intros _; apply close_exc_invisible; auto].
Qed.

(* processing stops with an exception as soon as one message is an exception *)
Theorem run_msgs_stops_at_err topics target : forall ms svs le acc,
  Exists is_err ms -> is_err (o_result (run_msgs topics target ms svs le acc)).
Proof.
  induction ms as [|m ms IH]; intros svs le acc Hx; [inversion Hx|]. cbn [run_msgs].
  destruct m as [cs|e]; [|cbn; exact I].
  inversion Hx as [? ? Hm|? ? Hx']; subst; [destruct Hm|].
  destruct (sv_deliver_msg svs topics cs); [|cbn; exact I].
  destruct (nth_chunk topics cs target) as [c|]; [|cbn; exact I].
  destruct (cont_step le c); [apply IH; auto|cbn; exact I].
Qed.

Lemma new_savers_open ds rechunk : all_open (map (fun d => sv_new d rechunk) ds).
Proof. apply Forall_map. apply Forall_forall. intros; reflexivity. Qed.

(* C12 at the level of the run: if the plugin's output path raises for any chunk, the caller gets
   an exception and nothing is left visible in storage *)
Theorem run_pipeline_rejects p target rechunk ms :
  Exists is_err ms ->
  is_err (o_result (run_pipeline p target rechunk ms)) /\
  Forall (fun sv => visible sv = false) (o_savers (run_pipeline p target rechunk ms)).
Proof.
  intros Hx. unfold run_pipeline. destruct (fix_dtype p); [|cbn; split; [exact I|constructor]].
  split; [apply run_msgs_stops_at_err; auto|].
  apply run_msgs_err_invisible; [apply new_savers_open|apply run_msgs_stops_at_err; auto].
Qed.

(* any exception of the run (also one raised by a saver or by the continuity check) *)
Theorem run_pipeline_err_invisible p target rechunk ms :
  is_err (o_result (run_pipeline p target rechunk ms)) ->
  Forall (fun sv => visible sv = false) (o_savers (run_pipeline p target rechunk ms)).
Proof.
  unfold run_pipeline. destruct (fix_dtype p); [|cbn; constructor].
  apply run_msgs_err_invisible. apply new_savers_open.
Qed.

(* what reaches the caller is contiguous *)
Lemma contiguous_from_snoc e l c :
  contiguous_from e (l ++ [c]) <-> contiguous_from e l /\ cstart c = last_end e l.
Proof.
  revert e; induction l as [|a l IH]; intros e; cbn [app contiguous_from last_end]; [tauto|].
  rewrite IH. tauto.
Qed.

Definition tail_end (l : list chunk) : option Z :=
  match l with [] => None | c :: rest => Some (last_end (cend c) rest) end.

Lemma contiguous_snoc l c :
  contiguous (l ++ [c]) <-> contiguous l /\ match tail_end l with Some e => cstart c = e | None => True end.
Proof.
  destruct l as [|a l]; cbn [app contiguous tail_end]; [cbn; tauto|]. apply contiguous_from_snoc.
Qed.

Lemma last_end_snoc e l c : last_end e (l ++ [c]) = cend c.
Proof. revert e; induction l as [|b l IH]; intros e; cbn; [reflexivity|apply IH]. Qed.

Lemma tail_end_snoc l c : tail_end (l ++ [c]) = Some (cend c).
Proof. destruct l as [|a l]; cbn [app tail_end]; [reflexivity|]. f_equal. apply last_end_snoc. Qed.

Theorem run_msgs_ok_contiguous topics target : forall ms svs le acc cs,
  contiguous (map xc (rev acc)) -> le = tail_end (map xc (rev acc)) ->
  o_result (run_msgs topics target ms svs le acc) = Ok cs ->
  contiguous (map xc cs) /\ Forall (fun m => ~ is_err m) ms.
Proof.
  induction ms as [|m ms IH]; intros svs le acc cs Hc Hle; cbn [run_msgs].
  - cbn. intros H; inversion H; subst. split; [auto|constructor].
  - destruct m as [mc|e]; [|cbn; discriminate].
    destruct (sv_deliver_msg svs topics mc); [|cbn; discriminate].
    destruct (nth_chunk topics mc target) as [c|]; [|cbn; discriminate].
    destruct (cont_step le c) eqn:E; [|cbn; discriminate].
    intros H. apply IH in H.
    + destruct H as [H1 H2]. split; [auto|constructor; [cbn; tauto|auto]].
    + cbn [rev]. rewrite map_app. cbn [map]. apply contiguous_snoc. split; [auto|].
      rewrite <- Hle. unfold cont_step in E. destruct le; [apply Z.eqb_eq in E; auto|auto].
    + cbn [rev]. rewrite map_app. cbn [map]. rewrite tail_end_snoc. reflexivity.
Qed.

Theorem run_pipeline_ok_contiguous p target rechunk ms cs :
  o_result (run_pipeline p target rechunk ms) = Ok cs ->
  contiguous (map xc cs) /\ Forall (fun m => ~ is_err m) ms.
Proof.
  unfold run_pipeline. destruct (fix_dtype p); [|cbn; discriminate].
  apply run_msgs_ok_contiguous; cbn; auto.
Qed.
