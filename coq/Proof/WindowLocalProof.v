(* Concrete computations are window-local (Spec/WindowLocal.v):
   - one output per input row with the row's extent and ANY payload that depends only on the rows
     within (kl, kr) of it (the neighbour count, the plain copy);
   - (below) the gap-separated group former. *)
From SV Require Import Model.Rows Model.OverlapKernels Spec.WindowLocal.
From SV Require Import Proof.RowsFacts Proof.OverlapLists.

Lemma dsp_sorted l : dsp l -> sorted l.
Proof.
  induction l as [|r l IH]; cbn; [auto|]. intros ([H0 Hp] & HF & Hd). split; [|auto].
  eapply Forall_impl; [|exact HF]. cbn beta; intros; lia.
Qed.

Section PerRow.
  Variable h : row -> list row -> Z.
  Variables kl kr : Z.
  Hypothesis Hkl : 0 <= kl.
  Hypothesis Hkr : 0 <= kr.
  Hypothesis Hloc : payload_local kl kr h.

  Let out (X : list row) (r : row) : row := mkrow (rt r) (re r) (rid r) (h r X).

  Lemma f_row_map X : f_row h X = map (out X) X.
  Proof. reflexivity. Qed.

  Lemma sorted_map_out X l : sorted l -> sorted (map (out X) l).
  Proof.
    induction l as [|r l IH]; cbn [map sorted]; [auto|]. intros [HF Hs]. split; [|auto].
    apply Forall_map. exact HF.
  Qed.

  (* rows of an omitted segment are never safe themselves *)
  Lemma unsafe_left X L T l : incl l L -> Forall pos_row l -> filter (safeb kl kr L T) (map (out X) l) = [].
  Proof.
    intros Hi Hp. apply filter_all_false. apply Forall_map. apply Forall_forall. intros q Hq.
    unfold safeb. apply andb_false_iff. left.
    apply not_true_is_false. rewrite forallb_forall. intros H. specialize (H q (Hi q Hq)).
    rewrite Forall_forall in Hp. specialize (Hp q Hq). unfold pos_row in Hp. cbn [rt re out] in H. lia.
  Qed.

  Lemma unsafe_right X L T l : incl l T -> Forall pos_row l -> filter (safeb kl kr L T) (map (out X) l) = [].
  Proof.
    intros Hi Hp. apply filter_all_false. apply Forall_map. apply Forall_forall. intros q Hq.
    unfold safeb. apply andb_false_iff. right.
    apply not_true_is_false. rewrite forallb_forall. intros H. specialize (H q (Hi q Hq)).
    rewrite Forall_forall in Hp. specialize (Hp q Hq). unfold pos_row in Hp. cbn [rt re out] in H. lia.
  Qed.

  (* for a safe row the omitted rows are not within its window *)
  Lemma near_filter_segment L I T r :
    safeb kl kr L T (out I r) = true ->
    filter (near_closed kl kr r) (L ++ I ++ T) = filter (near_closed kl kr r) I.
  Proof.
    unfold safeb. rewrite andb_true_iff, !forallb_forall. cbn [rt re out]. intros [HL HT].
    rewrite !filter_app.
    rewrite (filter_all_false _ L), (filter_all_false _ T); [cbn [app]; apply app_nil_r| |].
    - apply Forall_forall. intros q Hq. specialize (HT q Hq). unfold near_closed. lia.
    - apply Forall_forall. intros q Hq. specialize (HL q Hq). unfold near_closed. lia.
  Qed.

  Lemma safe_rows_agree L I T : forall l,
    filter (safeb kl kr L T) (map (out I) l) = filter (safeb kl kr L T) (map (out (L ++ I ++ T)) l).
  Proof.
    induction l as [|r l IH]; cbn [map filter]; [reflexivity|].
    assert (Hs : safeb kl kr L T (out (L ++ I ++ T) r) = safeb kl kr L T (out I r)) by reflexivity.
    rewrite Hs. destruct (safeb kl kr L T (out I r)) eqn:E; [|exact IH].
    f_equal; [|exact IH]. unfold out. f_equal. apply Hloc. symmetry. apply near_filter_segment. exact E.
  Qed.

  Lemma straddled_map X l x : straddled (map (out X) l) x <-> exists r, In r l /\ straddles r x.
  Proof.
    rewrite straddled_iff. split.
    - intros (o & Ho & Hs). apply in_map_iff in Ho as (r & <- & Hr). exists r. split; auto.
    - intros (r & Hr & Hs). exists (out X r). split; [apply in_map; auto|exact Hs].
  Qed.

  Theorem f_row_window_local : window_local kl kr (f_row h).
  Proof.
    constructor.
    - intros I Hd. rewrite f_row_map. apply sorted_map_out. apply dsp_sorted. exact Hd.
    - intros I Hd. rewrite f_row_map. apply Forall_map. eapply Forall_impl; [|apply dsp_pos; exact Hd].
      unfold pos_row. cbn [rt re out]. intros; lia.
    - intros I lo hi _ H. rewrite f_row_map. apply Forall_map. exact H.
    - intros L I T Hd. rewrite !f_row_map. rewrite !map_app, !filter_app.
      apply dsp_app in Hd as [HdL Hd']. apply dsp_app in Hd' as [HdI HdT].
      rewrite (unsafe_left _ L T L (incl_refl _) (dsp_pos _ HdL)).
      rewrite (unsafe_right _ L T T (incl_refl _) (dsp_pos _ HdT)).
      cbn [app]. rewrite app_nil_r. apply safe_rows_agree.
    - intros L I T x Hd [HL HT]. rewrite !f_row_map, !straddled_map. split.
      + intros (r & Hr & Hs). exists r. split; [apply in_or_app; right; apply in_or_app; left; exact Hr|exact Hs].
      + intros (r & Hr & Hs). exists r. split; [|exact Hs].
        apply in_app_or in Hr as [Hr|Hr]; [exfalso|apply in_app_or in Hr as [Hr|Hr]; [exact Hr|exfalso]].
        * rewrite Forall_forall in HL. specialize (HL r Hr). unfold straddles in Hs. cbn beta in HL. lia.
        * rewrite Forall_forall in HT. specialize (HT r Hr). unfold straddles in Hs. cbn beta in HT. lia.
  Qed.
End PerRow.

(* the neighbour count looks only at rows within the (strict) window, hence within the closed one *)
Lemma h_count_local kl kr : payload_local kl kr (h_count kl kr).
Proof.
  intros r N N' H. unfold h_count. f_equal. f_equal.
  rewrite (filter_filter_impl (nearb kl kr r) (near_closed kl kr r) N).
  - rewrite (filter_filter_impl (nearb kl kr r) (near_closed kl kr r) N'); [rewrite H; reflexivity|].
    intros q _. unfold nearb, near_closed. lia.
  - intros q _. unfold nearb, near_closed. lia.
Qed.

Theorem f_count_window_local kl kr : 0 <= kl -> 0 <= kr -> window_local kl kr (f_count kl kr).
Proof. intros. apply f_row_window_local; auto. apply h_count_local. Qed.

Theorem f_copy_window_local : window_local 0 0 f_copy.
Proof. apply f_row_window_local; try lia. intros r N N' _. reflexivity. Qed.
