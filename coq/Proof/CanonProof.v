(* C02 — facts about the canonical serialisation (Model/Canon.v). *)
From SV Require Import Base.Prelude Model.Canon.
From Coq Require Import Sorting.Permutation.

(* ---------- induction principles for the nested types ---------- *)
Section TvInd.
  Variable P : tv -> Prop.
  Hypothesis HI : forall z, P (TInt z).
  Hypothesis HS : forall s, P (TStr s).
  Hypothesis HA : forall l, Forall P l -> P (TArr l).
  Fixpoint tv_ind' (t : tv) : P t :=
    match t with
    | TInt z => HI z
    | TStr s => HS s
    | TArr l => HA l ((fix go (l : list tv) : Forall P l :=
                         match l with
                         | [] => Forall_nil P
                         | x :: r => Forall_cons x (tv_ind' x) (go r)
                         end) l)
    end.
End TvInd.

Section ValueInd.
  Variable P : value -> Prop.
  Hypothesis HI : forall z, P (VInt z).
  Hypothesis HS : forall s, P (VStr s).
  Hypothesis HL : forall l, Forall P l -> P (VList l).
  Hypothesis HT : forall l, Forall P l -> P (VTuple l).
  Hypothesis HD : forall d, Forall (fun kv => P (snd kv)) d -> P (VDict d).
  Fixpoint value_ind' (v : value) : P v :=
    match v with
    | VInt z => HI z
    | VStr s => HS s
    | VList l => HL l ((fix go (l : list value) : Forall P l :=
                          match l with
                          | [] => Forall_nil P
                          | x :: r => Forall_cons x (value_ind' x) (go r)
                          end) l)
    | VTuple l => HT l ((fix go (l : list value) : Forall P l :=
                           match l with
                           | [] => Forall_nil P
                           | x :: r => Forall_cons x (value_ind' x) (go r)
                           end) l)
    | VDict d => HD d ((fix go (d : list (Z * value)) : Forall (fun kv => P (snd kv)) d :=
                          match d with
                          | [] => Forall_nil _
                          | kv :: r => Forall_cons kv (value_ind' (snd kv)) (go r)
                          end) d)
    end.
End ValueInd.

(* ---------- unfolding lemmas for the local fixpoints ---------- *)
Definition ser_list (l : list tv) : list Z := flat_map ser l.

Lemma ser_arr l : ser (TArr l) = 2 :: ser_list l ++ [3].
Proof. reflexivity. Qed.

Lemma norm_items_go d :
  (fix go (d : list (Z * value)) : list (Z * tv) :=
     match d with
     | [] => []
     | (k, x) :: r => (k, norm x) :: go r
     end) d = norm_items d.
Proof.
  induction d as [|[k x] r IH]; cbn [norm_items map fst snd]; [reflexivity|]. now rewrite IH.
Qed.

Lemma norm_dict d : norm (VDict d) = TArr (map pair_arr (sort_items (norm_items d))).
Proof. cbn [norm]. now rewrite norm_items_go. Qed.

Lemma norm_list l : norm (VList l) = TArr (map norm l). Proof. reflexivity. Qed.
Lemma norm_tuple l : norm (VTuple l) = TArr (map norm l). Proof. reflexivity. Qed.

(* ---------- json text (token list) is injective: it can be parsed back ---------- *)
Lemma ser_head t : exists h r, ser t = h :: r /\ h <> 3.
Proof.
  destruct t as [z|s|l].
  - exists 0, [z]. split; [reflexivity|lia].
  - exists 1, [s]. split; [reflexivity|lia].
  - rewrite ser_arr. exists 2, (ser_list l ++ [3]). split; [reflexivity|lia].
Qed.

Lemma ser_inj_gen : forall t1 t2 r1 r2, ser t1 ++ r1 = ser t2 ++ r2 -> t1 = t2 /\ r1 = r2.
Proof.
  induction t1 as [z|s|l IH] using tv_ind'; intros t2 r1 r2 H.
  - destruct t2 as [z'|s'|l']; [| |rewrite ser_arr in H]; cbn in H; inversion H; subst; auto.
  - destruct t2 as [z'|s'|l']; [| |rewrite ser_arr in H]; cbn in H; inversion H; subst; auto.
  - destruct t2 as [z'|s'|l']; rewrite ser_arr in H; [cbn in H; inversion H|cbn in H; inversion H|].
    rewrite ser_arr in H. cbn [app] in H. inversion H as [H'].
    rewrite <- !app_assoc in H'. cbn [app] in H'.
    assert (G : forall l2 q1 q2, ser_list l ++ 3 :: q1 = ser_list l2 ++ 3 :: q2 -> l = l2 /\ q1 = q2).
    { clear H H' l' r1 r2. induction IH as [|x l Hx _ IHl]; intros l2 q1 q2 E.
      - destruct l2 as [|y l2]; cbn [ser_list flat_map app] in E.
        + inversion E; auto.
        + destruct (ser_head y) as (h & r & Ey & Hh). rewrite Ey in E. cbn in E. inversion E; subst. congruence.
      - destruct l2 as [|y l2]; cbn [ser_list flat_map app] in E.
        + destruct (ser_head x) as (h & r & Ex & Hh). rewrite Ex in E. cbn in E. inversion E; subst. congruence.
        + rewrite <- !app_assoc in E. apply Hx in E. destruct E as [-> E].
          apply IHl in E. destruct E as [-> ->]. auto. }
    apply G in H'. destruct H' as [-> ->]. auto.
Qed.

Theorem ser_injective t1 t2 : ser t1 = ser t2 -> t1 = t2.
Proof.
  intros H. apply (ser_inj_gen t1 t2 [] []). now rewrite !app_nil_r.
Qed.

(* ---------- association lists ---------- *)
Lemma lookup_app {A} k (a b : list (Z * A)) :
  lookup k (a ++ b) = match lookup k a with Some v => Some v | None => lookup k b end.
Proof.
  induction a as [|[k' v] a IH]; cbn [lookup app]; [reflexivity|]. destruct (k =? k'); auto.
Qed.

Lemma lookup_dset {A} k k' (v : A) l :
  lookup k (dset k' v l) = if k =? k' then Some v else lookup k l.
Proof.
  induction l as [|[k2 v2] l IH]; cbn [dset lookup].
  - destruct (k =? k'); reflexivity.
  - destruct (k' =? k2) eqn:E2; cbn [lookup].
    + apply Z.eqb_eq in E2. subst k2. destruct (k =? k'); reflexivity.
    + destruct (k =? k2) eqn:E3.
      * apply Z.eqb_eq in E3. subst k2. destruct (k =? k') eqn:E4; [|reflexivity].
        apply Z.eqb_eq in E4. subst. rewrite Z.eqb_refl in E2. discriminate.
      * apply IH.
Qed.

Lemma lookup_dupdate {A} k (l new : list (Z * A)) :
  lookup k (dupdate l new) = match lookup k (rev new) with Some v => Some v | None => lookup k l end.
Proof.
  unfold dupdate. revert l. induction new as [|[k' v] new IH]; intros l; cbn [fold_left rev fst snd].
  - reflexivity.
  - rewrite IH, lookup_app, lookup_dset. cbn [lookup].
    destruct (lookup k (rev new)); [reflexivity|]. destruct (k =? k'); reflexivity.
Qed.

Lemma lookup_filter_key {A} (P : Z -> bool) k (l : list (Z * A)) :
  lookup k (filter (fun kv => P (fst kv)) l) = if P k then lookup k l else None.
Proof.
  induction l as [|[k' v] l IH]; cbn [filter lookup fst].
  - destruct (P k); reflexivity.
  - destruct (P k') eqn:Ek'; cbn [lookup].
    + destruct (k =? k') eqn:E.
      * apply Z.eqb_eq in E. subst. now rewrite Ek'.
      * apply IH.
    + destruct (k =? k') eqn:E.
      * apply Z.eqb_eq in E. subst. rewrite Ek' in IH |- *. apply IH.
      * apply IH.
Qed.

Lemma lookup_ddel {A} k k' (l : list (Z * A)) :
  lookup k (ddel k' l) = if k =? k' then None else lookup k l.
Proof.
  unfold ddel. rewrite (lookup_filter_key (fun x => negb (x =? k'))).
  destruct (k =? k'); reflexivity.
Qed.

Lemma lookup_map_snd {A B} (f : A -> B) k (l : list (Z * A)) :
  lookup k (map (fun kv => (fst kv, f (snd kv))) l) = option_map f (lookup k l).
Proof.
  induction l as [|[k' v] l IH]; cbn [map lookup fst snd option_map]; [reflexivity|].
  destruct (k =? k'); [reflexivity|apply IH].
Qed.

Lemma lookup_In {A} k (v : A) l : lookup k l = Some v -> In (k, v) l.
Proof.
  induction l as [|[k' v'] l IH]; cbn [lookup]; [discriminate|].
  destruct (k =? k') eqn:E; intros H.
  - apply Z.eqb_eq in E. inversion H; subst. now left.
  - right. auto.
Qed.

Lemma lookup_None_keys {A} k (l : list (Z * A)) : lookup k l = None <-> ~ In k (keys l).
Proof.
  induction l as [|[k' v'] l IH]; cbn [lookup keys map fst]; [tauto|].
  destruct (k =? k') eqn:E.
  - apply Z.eqb_eq in E. subst. split; [discriminate|intros H; exfalso; apply H; now left].
  - apply Z.eqb_neq in E. rewrite IH. unfold keys. cbn [In]. intuition congruence.
Qed.

Lemma has_key_spec {A} k (l : list (Z * A)) : has_key k l = true <-> In k (keys l).
Proof.
  unfold has_key. destruct (lookup k l) eqn:E.
  - split; [intros _|reflexivity]. apply lookup_In in E. unfold keys. apply (in_map fst) in E. exact E.
  - apply lookup_None_keys in E. split; [discriminate|tauto].
Qed.

Lemma memZ_spec k l : memZ k l = true <-> In k l.
Proof.
  unfold memZ. rewrite existsb_exists. split.
  - intros (x & Hx & E). apply Z.eqb_eq in E. now subst.
  - intros H. exists k. split; [exact H|apply Z.eqb_refl].
Qed.

(* ---------- sorted(d.items()) ---------- *)
Inductive ssorted {A} : list (Z * A) -> Prop :=
| ss_nil : ssorted []
| ss_one kv : ssorted [kv]
| ss_cons kv kv' r : fst kv < fst kv' -> ssorted (kv' :: r) -> ssorted (kv :: kv' :: r).

Lemma ssorted_tail {A} (kv : Z * A) r : ssorted (kv :: r) -> ssorted r.
Proof. inversion 1; subst; [constructor|assumption]. Qed.

Lemma ssorted_lb {A} (kv : Z * A) r : ssorted (kv :: r) -> forall x, In x r -> fst kv < fst x.
Proof.
  revert kv. induction r as [|kv' r IH]; intros kv H x Hx; [destruct Hx|].
  inversion H; subst. destruct Hx as [<-|Hx]; [assumption|].
  specialize (IH kv' H4 x Hx). lia.
Qed.

Lemma insert_item_sorted {A} (kv : Z * A) l : ssorted l -> ssorted (insert_item kv l).
Proof.
  induction l as [|kv' r IH]; intros H; cbn [insert_item]; [constructor|].
  destruct (fst kv <? fst kv') eqn:E1.
  - constructor; [lia|assumption].
  - destruct (fst kv' <? fst kv) eqn:E2.
    + specialize (IH (ssorted_tail _ _ H)).
      destruct r as [|kv2 r]; cbn [insert_item] in *.
      * constructor; [lia|constructor].
      * inversion H; subst.
        destruct (fst kv <? fst kv2) eqn:E3; [constructor; [lia|assumption]|].
        destruct (fst kv2 <? fst kv) eqn:E4; [constructor; [assumption|assumption]|].
        constructor; [lia|assumption].
    + assert (fst kv = fst kv') by lia.
      destruct r as [|kv2 r]; [constructor|]. inversion H; subst. constructor; [lia|assumption].
Qed.

Lemma sort_items_sorted {A} (l : list (Z * A)) : ssorted (sort_items l).
Proof.
  induction l as [|kv l IH]; cbn [sort_items fold_right]; [constructor|].
  apply insert_item_sorted, IH.
Qed.

Lemma lookup_insert_item {A} k (kv : Z * A) l :
  ssorted l ->
  lookup k (insert_item kv l) = if k =? fst kv then Some (snd kv) else lookup k l.
Proof.
  destruct kv as [k0 v0]. cbn [fst snd].
  induction l as [|[k' v'] r IH]; intros H; cbn [insert_item lookup fst snd]; [reflexivity|].
  destruct (k0 <? k') eqn:E1; cbn [lookup]; [reflexivity|].
  destruct (k' <? k0) eqn:E2; cbn [lookup].
  - rewrite (IH (ssorted_tail _ _ H)).
    destruct (k =? k') eqn:E3; [|reflexivity].
    destruct (k =? k0) eqn:E4; [|reflexivity]. lia.
  - assert (k0 = k') by lia. subst k'. destruct (k =? k0); reflexivity.
Qed.

Lemma lookup_sort_items {A} k (l : list (Z * A)) : lookup k (sort_items l) = lookup k l.
Proof.
  induction l as [|[k' v'] l IH]; cbn [sort_items fold_right]; [reflexivity|].
  rewrite lookup_insert_item by apply sort_items_sorted. cbn [fst snd lookup].
  destruct (k =? k'); [reflexivity|apply IH].
Qed.

Lemma lookup_notin_sorted {A} k (kv : Z * A) r : ssorted (kv :: r) -> k <= fst kv -> lookup k r = None.
Proof.
  intros H Hk. apply lookup_None_keys. intros Hin. unfold keys in Hin. apply in_map_iff in Hin.
  destruct Hin as (x & <- & Hx). pose proof (ssorted_lb _ _ H x Hx). lia.
Qed.

Lemma ssorted_ext {A} (l1 l2 : list (Z * A)) :
  ssorted l1 -> ssorted l2 -> (forall k, lookup k l1 = lookup k l2) -> l1 = l2.
Proof.
  revert l2. induction l1 as [|[k1 v1] r1 IH]; intros l2 H1 H2 E.
  - destruct l2 as [|[k2 v2] r2]; [reflexivity|]. specialize (E k2). cbn [lookup] in E.
    rewrite Z.eqb_refl in E. discriminate.
  - destruct l2 as [|[k2 v2] r2].
    + specialize (E k1). cbn [lookup] in E. rewrite Z.eqb_refl in E. discriminate.
    + assert (k1 = k2).
      { pose proof (E k1) as E1. pose proof (E k2) as E2. cbn [lookup] in E1, E2.
        rewrite Z.eqb_refl in E1, E2.
        destruct (Z.lt_trichotomy k1 k2) as [L|[L|L]]; [|exact L|].
        - destruct (k1 =? k2) eqn:Q; [lia|]. rewrite (lookup_notin_sorted k1 (k2, v2) r2 H2) in E1 by (cbn; lia).
          discriminate.
        - destruct (k2 =? k1) eqn:Q; [lia|]. rewrite (lookup_notin_sorted k2 (k1, v1) r1 H1) in E2 by (cbn; lia).
          discriminate. }
      subst k2. pose proof (E k1) as E1. cbn [lookup] in E1. rewrite Z.eqb_refl in E1. inversion E1; subst v2.
      f_equal. apply IH; [eapply ssorted_tail; eauto|eapply ssorted_tail; eauto|].
      intros k. specialize (E k). cbn [lookup] in E. destruct (k =? k1) eqn:Q; [|exact E].
      apply Z.eqb_eq in Q. subst k.
      rewrite (lookup_notin_sorted k1 (k1, v1) r1 H1), (lookup_notin_sorted k1 (k1, v1) r2 H2) by (cbn; lia).
      reflexivity.
Qed.

(* two dicts with the same (normalised) content sort to the same list, whatever the insertion order *)
Definition dequiv {A B} (f : A -> B) (l1 l2 : list (Z * A)) : Prop :=
  forall k, option_map f (lookup k l1) = option_map f (lookup k l2).

Lemma sort_items_ext {A B} (f : A -> B) (l1 l2 : list (Z * A)) :
  dequiv f l1 l2 <->
  sort_items (map (fun kv => (fst kv, f (snd kv))) l1) = sort_items (map (fun kv => (fst kv, f (snd kv))) l2).
Proof.
  split.
  - intros E. apply ssorted_ext; try apply sort_items_sorted.
    intros k. rewrite !lookup_sort_items, !lookup_map_snd. apply E.
  - intros E k. rewrite <- !(lookup_map_snd f), <- !(lookup_sort_items k (map _ _)). now rewrite E.
Qed.

Lemma pair_arr_inj a b : pair_arr a = pair_arr b -> a = b.
Proof. destruct a, b. unfold pair_arr. cbn. intros H. inversion H. reflexivity. Qed.

Lemma map_pair_arr_inj l1 l2 : map pair_arr l1 = map pair_arr l2 -> l1 = l2.
Proof.
  revert l2. induction l1 as [|a l1 IH]; intros [|b l2] H; cbn [map] in H; try discriminate; [reflexivity|].
  assert (H1 : pair_arr a = pair_arr b) by congruence.
  assert (H2 : map pair_arr l1 = map pair_arr l2) by congruence.
  f_equal; [now apply pair_arr_inj|now apply IH].
Qed.

(* dicts: equal canonical form <-> same normalised content *)
Lemma norm_dict_ext d1 d2 : norm (VDict d1) = norm (VDict d2) <-> dequiv norm d1 d2.
Proof.
  rewrite !norm_dict. unfold norm_items. rewrite (sort_items_ext norm). split.
  - intros H. inversion H as [H']. now apply map_pair_arr_inj in H'.
  - intros ->. reflexivity.
Qed.
