(* C09 main proof: for a single-output overlap-window plugin with a window-local computation the
   stream delivered by OverlapWindowPlugin.iter over any contiguous well-formed chunking of a
   disjoint sorted positive-length input is contiguous over the run and carries exactly f(all rows). *)
From SV Require Import Model.Rows Model.SplitArray Model.Chunk Model.Overlap Spec.WindowLocal Spec.OverlapSpec.
From SV Require Import Proof.RowsFacts Proof.OverlapChunkFacts Proof.OverlapLists Proof.OverlapBasic.

Lemma max_trials_pos : exists k, Z.to_nat OVERLAP_MAX_TRIALS = S k.
Proof. eexists. vm_compute. reflexivity. Qed.

Lemma straddled_rows_iff O x : straddled_rows O x <-> straddled O x.
Proof. unfold straddled_rows. symmetry. apply straddled_iff. Qed.

Section Single.
  Variable f : list row -> list row.
  Variables wl wr : Z.
  Variable wtuple : bool.
  Variables odt okind : Z.
  Variable orun : option Z.
  Variables otgt sw : Z.
  Hypothesis Hwl : 0 <= wl.
  Hypothesis Hwr : 0 <= wr.
  Hypothesis HWL : window_local (2 * wl) (2 * wr) f.

  Let P := mk_ow_params wtuple wl wr [mk_ow_out f odt okind] orun otgt sw.

  Variable R : list row.
  Hypothesis HR : dsp R.

  Definition out_chunk (s e : Z) (rows : list row) : chunk := mkchunk s e rows odt okind orun otgt.

  (* the result array wrapped into a chunk over the input's range is accepted and well formed *)
  Lemma result0_ok inp :
    wf inp -> dsp (crows inp) ->
    base_compute P inp = Ok [out_chunk (cstart inp) (cend inp) (f (crows inp))] /\
    wf (out_chunk (cstart inp) (cend inp) (f (crows inp))).
  Proof.
    intros Hwf Hd. pose proof Hwf as (H0 & Hse & _ & Hin).
    assert (Hri : rows_in (cstart inp) (cend inp) (f (crows inp))).
    { assert (Hr : Forall (fun o => cstart inp <= rt o /\ re o <= cend inp) (f (crows inp))).
      { apply (wl_range _ _ _ HWL); auto. eapply Forall_impl; [|exact Hin]. cbn beta; intros; lia. }
      pose proof (wl_pos _ _ _ HWL (crows inp) Hd) as Hp.
      unfold rows_in. rewrite Forall_forall in *. intros o Ho.
      specialize (Hr o Ho). specialize (Hp o Ho). cbn beta in *. lia. }
    split.
    - unfold base_compute, P. cbn [ow_outs map_res oo_f oo_dt oo_kind ow_run ow_tgt].
      rewrite mk_chunk_ok; auto.
    - apply wf_mkchunk; auto. apply (wl_sorted _ _ _ HWL). exact Hd.
  Qed.

  Lemma get_window_ok : get_window P = Ok (wl, wr).
  Proof.
    unfold get_window, P. cbn [ow_wtuple ow_wl ow_wr].
    destruct (wl <? 0) eqn:E1; [lia|]. destruct (wr <? 0) eqn:E2; [lia|].
    rewrite andb_false_r. reflexivity.
  Qed.

  (* cache_beyond over the single input chunk: one early split *)
  Lemma cache_beyond_single inp p :
    wf inp -> Forall (fun r => rt r < re r) (crows inp) ->
    exists A M t,
      cache_beyond [inp] p =
        Ok ([mkchunk t (cend inp) M (cdtype inp) (ckind inp) (crun inp) (ctarget inp)], t) /\
      A ++ M = crows inp /\ cstart inp <= t /\ t <= clamp inp p /\
      Forall (fun q => re q <= t) A /\ Forall (fun q => t <= rt q) M /\
      (p < cstart inp -> A = []).
  Proof.
    intros Hwf Hpos. destruct max_trials_pos as [k Hk].
    destruct (chunk_split_spec inp p true Hwf (or_introl eq_refl))
      as (A & M & t & Hs & HAM & HA & HM & Ht1 & Ht2 & _ & _).
    exists A, M, t. unfold cache_beyond. rewrite Hk. cbn [cb_loop cb_pass]. rewrite Hs.
    cbn [res_bind cstart map one_unique forallb]. repeat split; auto.
    intros Hp. destruct A as [|q A']; [reflexivity|exfalso].
    assert (Hc : clamp inp p = cstart inp).
    { unfold clamp. destruct Hwf as (_ & Hse & _). lia. }
    inversion HA; subst.
    assert (Hq : In q (crows inp)) by (rewrite <- HAM; left; reflexivity).
    pose proof (wf_rows_in _ Hwf) as Hin. unfold rows_in in Hin.
    rewrite Forall_forall in Hin, Hpos. specialize (Hin q Hq). specialize (Hpos q Hq). cbn beta in *. lia.
  Qed.

  (* One do_compute after the cached input has been prepended.
     L = input rows already dropped from the cache, T = input rows not yet fetched,
     S = clamped sent_until.  Phase "start": S = start of the input and nothing dropped yet. *)
  Lemma compute_core_spec inp S0 L T :
    wf inp -> R = L ++ crows inp ++ T ->
    forall S, S = clamp inp S0 ->
    Forall (fun q => re q + 2 * wl < S) L ->
    Forall (fun q => cend inp <= rt q) T ->
    ((S = cstart inp /\ L = []) \/ S + 2 * wr + 1 <= cend inp) ->
    ~ straddled (f R) S ->
    exists S' t A M,
      ow_compute_core P inp S0 =
        Ok ([out_chunk S S' (filter (betweenb S S') (f R))],
            mk_ow_state (Some (mkchunk t (cend inp) M (cdtype inp) (ckind inp) (crun inp) (ctarget inp)))
                        (Some [out_chunk S' (cend inp) (filter (fromb S') (f (crows inp)))]) S') /\
      S <= S' /\ S' <= cend inp /\
      wf (out_chunk S S' (filter (betweenb S S') (f R))) /\
      wf (out_chunk S' (cend inp) (filter (fromb S') (f (crows inp)))) /\
      A ++ M = crows inp /\ cstart inp <= t /\ t <= S' /\
      Forall (fun q => re q <= t) A /\ Forall (fun q => t <= rt q) M /\
      Forall (fun q => re q + 2 * wl < S') (L ++ A) /\
      ((S' = t /\ L ++ A = []) \/ S' + 2 * wr + 1 <= cend inp) /\
      ~ straddled (f R) S'.
  Proof.
    intros Hwf HRdec S HSdef HL HT Hphase HnsR.
    pose proof Hwf as (H0 & Hse & Hsort & Hin).
    assert (HS : cstart inp <= S <= cend inp) by (rewrite HSdef; unfold clamp; lia).
    assert (HdI : dsp (crows inp)).
    { rewrite HRdec in HR. apply dsp_app in HR as [_ HR']. apply dsp_app in HR' as [HR' _]. exact HR'. }
    assert (HposI : Forall (fun r => rt r < re r) (crows inp)).
    { eapply Forall_impl; [|apply dsp_pos; exact HdI]. unfold pos_row. intros; lia. }
    set (I := crows inp) in *.
    assert (HdR : dsp (L ++ I ++ T)) by (rewrite <- HRdec; exact HR).
    pose proof (wl_sorted _ _ _ HWL I HdI) as HsortO.
    pose proof (wl_pos _ _ _ HWL I HdI) as HposO.
    pose proof (wl_sorted _ _ _ HWL R HR) as HsortR.
    pose proof (wl_pos _ _ _ HWL R HR) as HposR.
    assert (HrangeO : Forall (fun o => cstart inp <= rt o /\ re o <= cend inp) (f I)).
    { apply (wl_range _ _ _ HWL); auto. eapply Forall_impl; [|exact Hin]. cbn beta; intros; lia. }
    (* rows of f R start at or after the start of the input when nothing was dropped *)
    assert (HrangeR : L = [] -> Forall (fun o => cstart inp <= rt o) (f R)).
    { intros ->. cbn [app] in HRdec.
      assert (HMx : Forall (fun q => re q <= Mx R) R) by (apply Mx_le_iff; [apply Mx_ge|lia]).
      assert (Hx : Forall (fun o => cstart inp <= rt o /\ re o <= Z.max (cend inp) (Mx R)) (f R)).
      { apply (wl_range _ _ _ HWL); auto. apply Forall_forall. intros q Hq.
        pose proof (proj1 (Forall_forall _ _) HMx q Hq) as H1. cbn beta in H1.
        split; [|lia]. rewrite HRdec in Hq. apply in_app_or in Hq as [Hq|Hq].
        - pose proof (proj1 (Forall_forall _ _) Hin q Hq) as H2. cbn beta in H2. lia.
        - pose proof (proj1 (Forall_forall _ _) HT q Hq) as H2. cbn beta in H2. lia. }
      eapply Forall_impl; [|exact Hx]. cbn beta; intros; lia. }
    (* 1. no output row of f I straddles S *)
    assert (HnsI : ~ straddled (f I) S).
    { destruct Hphase as [[HSa HLn]|HSb].
      - intros Hst. apply straddled_iff in Hst as (o & Ho & Hso).
        rewrite Forall_forall in HrangeO. specialize (HrangeO o Ho). unfold straddles in Hso. cbn beta in HrangeO. lia.
      - intros Hst. apply HnsR. rewrite HRdec. apply (wl_straddle _ _ _ HWL L I T S HdR); [|exact Hst].
        split; [exact HL|]. eapply Forall_impl; [|exact HT]. cbn beta; intros; lia. }
    destruct (result0_ok inp Hwf HdI) as [Hbase Hwf0]. fold I in Hbase, Hwf0.
    set (res0 := out_chunk (cstart inp) (cend inp) (f I)) in *.
    (* 2. strict split at sent_until *)
    assert (Hc1 : clamp res0 S0 = S) by (rewrite HSdef; reflexivity).
    destruct (chunk_split_spec res0 S0 false Hwf0) as (l1 & r1 & t1 & Hs1 & Hlr1 & Hl1 & Hr1 & _ & _ & Ht1 & _).
    { right. rewrite Hc1. intros Hst. apply HnsI. apply straddled_rows_iff. exact Hst. }
    rewrite Hc1 in Ht1.
    assert (Et1 : t1 = S).
    { apply Ht1. intros Hst. apply HnsI. apply straddled_rows_iff. exact Hst. }
    subst t1. cbn [crows res0 out_chunk] in Hlr1.
    destruct (split_is_filter (f I) l1 r1 S Hlr1 HposO Hl1 Hr1) as [El1 Er1].
    cbn [cstart cend cdtype ckind crun ctarget res0 out_chunk] in Hs1.
    set (res1 := mkchunk S (cend inp) r1 odt okind orun otgt) in *.
    assert (Hwf1 : wf res1).
    { apply wf_mkchunk; try lia.
      - rewrite Er1. clear - HsortO. induction (f I) as [|o O IH]; cbn; [auto|].
        destruct HsortO as [Ha Hb]. destruct (fromb S o); [|auto]. cbn. split; [|auto].
        clear - Ha. induction O as [|q O IH]; cbn; [constructor|]. inversion Ha; subst.
        destruct (fromb S q); [constructor|]; auto.
      - unfold rows_in. rewrite Er1. apply Forall_forall. intros o Ho. apply filter_In in Ho as [Ho Hb].
        rewrite Forall_forall in HrangeO, HposO. specialize (HrangeO o Ho). specialize (HposO o Ho).
        unfold fromb in Hb. cbn beta in *. lia. }
    (* 3. early split at invalid_beyond *)
    set (ib := cend inp - 2 * wr - 1).
    destruct (chunk_split_spec res1 ib true Hwf1 (or_introl eq_refl))
      as (l2 & r2 & S' & Hs2 & Hlr2 & Hl2 & Hr2 & HS1 & HS2 & _ & _).
    cbn [cstart cend cdtype ckind crun ctarget crows res1] in Hs2, Hlr2, HS1, HS2.
    assert (Hc2 : clamp res1 ib = Z.max (Z.min ib (cend inp)) S) by reflexivity.
    rewrite Hc2 in HS2.
    assert (Hpos1 : Forall (fun o => rt o < re o) r1).
    { rewrite Er1. apply Forall_forall. intros o Ho. apply filter_In in Ho as [Ho _].
      rewrite Forall_forall in HposO. auto. }
    destruct (split_is_filter r1 l2 r2 S' Hlr2 Hpos1 Hl2 Hr2) as [El2 Er2].
    rewrite Er1, before_from_between in El2. rewrite Er1, from_from in Er2 by lia.
    (* S' is not straddled in f I *)
    assert (HnsI' : ~ straddled (f I) S').
    { intros Hst. apply straddled_iff in Hst as (o & Ho & Hso). unfold straddles in Hso.
      destruct (Z_lt_dec (rt o) S) as [Hlt|Hge].
      - pose proof (not_straddled_end _ _ _ HnsI Ho Hlt). lia.
      - assert (Ho1 : In o r1) by (rewrite Er1; apply filter_In; split; [auto|unfold fromb; lia]).
        rewrite <- Hlr2 in Ho1. apply in_app_or in Ho1 as [Ho2|Ho2].
        + rewrite Forall_forall in Hl2. specialize (Hl2 o Ho2). cbn beta in Hl2. lia.
        + rewrite Forall_forall in Hr2. specialize (Hr2 o Ho2). cbn beta in Hr2. lia. }
    assert (Hphase' : (S' = S /\ S = cstart inp /\ L = []) \/ S' + 2 * wr + 1 <= cend inp).
    { destruct (Z_le_gt_dec S ib) as [Hle|Hgt].
      - right. unfold ib in *. lia.
      - left. assert (S' = S) by lia. destruct Hphase as [[? ?]|?]; [auto|unfold ib in *; lia]. }
    assert (HnsR' : ~ straddled (f R) S').
    { destruct Hphase' as [(E1 & E2 & E3)|Hb].
      - rewrite E1. exact HnsR.
      - intros Hst. apply HnsI'. rewrite HRdec in Hst. apply (wl_straddle _ _ _ HWL L I T S' HdR); [|exact Hst].
        split.
        + eapply Forall_impl; [|exact HL]. cbn beta; intros; lia.
        + eapply Forall_impl; [|exact HT]. cbn beta; intros; lia. }
    (* the rows sent out are the rows of f R between S and S' *)
    assert (Hemit : filter (betweenb S S') (f I) = filter (betweenb S S') (f R)).
    { destruct Hphase' as [(E1 & _)|Hb].
      - rewrite E1. rewrite !filter_all_false; auto; apply Forall_forall; intros o _;
          unfold betweenb, fromb, beforeb; lia.
      - rewrite (filter_filter_impl (betweenb S S') (safeb (2 * wl) (2 * wr) L T) (f I)).
        + rewrite (filter_filter_impl (betweenb S S') (safeb (2 * wl) (2 * wr) L T) (f R)).
          * rewrite (wl_agree _ _ _ HWL L I T HdR), <- HRdec. reflexivity.
          * intros o Ho Hb'. unfold betweenb, fromb, beforeb in Hb'. apply andb_true_iff in Hb' as [Hb1 Hb2].
            pose proof (not_straddled_end _ _ _ HnsR' Ho ltac:(lia)) as He.
            apply safeb_true.
            -- eapply Forall_impl; [|exact HL]. cbn beta; intros; lia.
            -- eapply Forall_impl; [|exact HT]. cbn beta; intros; lia.
        + intros o Ho Hb'. unfold betweenb, fromb, beforeb in Hb'. apply andb_true_iff in Hb' as [Hb1 Hb2].
          pose proof (not_straddled_end _ _ _ HnsI' Ho ltac:(lia)) as He.
          apply safeb_true.
          * eapply Forall_impl; [|exact HL]. cbn beta; intros; lia.
          * eapply Forall_impl; [|exact HT]. cbn beta; intros; lia. }
    (* 4. cache the input from sent_until - 2 wl - 1 *)
    destruct (cache_beyond_single inp (S' - 2 * wl - 1) Hwf HposI)
      as (A & M & t & Hcb & HAM & Ht1' & Ht2' & HA & HM & HAnil).
    fold I in HAM.
    assert (Hc3 : clamp inp (S' - 2 * wl - 1) <= Z.max (S' - 2 * wl - 1) (cstart inp)) by (unfold clamp; lia).
    assert (HtS : t <= S') by lia.
    assert (HLA : Forall (fun q => re q + 2 * wl < S') (L ++ A)).
    { apply Forall_app. split.
      - eapply Forall_impl; [|exact HL]. cbn beta; intros; lia.
      - destruct (Z_lt_dec (S' - 2 * wl - 1) (cstart inp)) as [Hlt|Hge].
        + rewrite (HAnil Hlt). constructor.
        + eapply Forall_impl; [|exact HA]. cbn beta; intros; lia. }
    exists S', t, A, M.
    split.
    { unfold ow_compute_core. rewrite get_window_ok. cbn [res_bind]. fold I.
      rewrite Hbase. cbn [res_bind map_res]. fold res0. rewrite Hs1. cbn [res_bind].
      assert (Hm : multi_output P = false) by reflexivity. rewrite Hm.
      fold ib. fold res1. rewrite Hs2. cbn [res_bind cstart].
      rewrite Hcb. cbn [res_bind hd_error]. unfold out_chunk. rewrite El2, Er2, Hemit. reflexivity. }
    assert (HwfOut : wf (out_chunk S S' (filter (betweenb S S') (f R)))).
    { rewrite <- Hemit, <- El2. apply wf_mkchunk; try lia.
      - destruct Hwf1 as (_ & _ & Hs & _). cbn [crows res1] in Hs. rewrite <- Hlr2 in Hs.
        apply sorted_app in Hs. tauto.
      - pose proof (wf_rows_in _ Hwf1) as Hri. cbn [crows cstart cend res1] in Hri. unfold rows_in in *.
        rewrite <- Hlr2 in Hri. apply Forall_app in Hri as [Hri _].
        rewrite Forall_forall in *. intros o Ho. specialize (Hri o Ho). specialize (Hl2 o Ho). cbn beta in *. lia. }
    assert (HwfCr : wf (out_chunk S' (cend inp) (filter (fromb S') (f I)))).
    { rewrite <- Er2. apply wf_mkchunk; try lia.
      - destruct Hwf1 as (_ & _ & Hs & _). cbn [crows res1] in Hs. rewrite <- Hlr2 in Hs.
        apply sorted_app in Hs. tauto.
      - pose proof (wf_rows_in _ Hwf1) as Hri. cbn [crows cstart cend res1] in Hri. unfold rows_in in *.
        rewrite <- Hlr2 in Hri. apply Forall_app in Hri as [_ Hri].
        rewrite Forall_forall in *. intros o Ho. specialize (Hri o Ho). specialize (Hr2 o Ho). cbn beta in *. lia. }
    split; [lia|]. split; [lia|]. split; [exact HwfOut|]. split; [exact HwfCr|]. split; [exact HAM|].
    split; [lia|]. split; [lia|]. split; [exact HA|]. split; [exact HM|]. split; [exact HLA|].
    split; [|exact HnsR'].
    destruct Hphase' as [(E1 & E2 & E3)|Hb]; [left|right; exact Hb].
    assert (Hlt : S' - 2 * wl - 1 < cstart inp) by lia.
    rewrite (HAnil Hlt), E3. split; [|reflexivity].
    assert (clamp inp (S' - 2 * wl - 1) = cstart inp) by (unfold clamp; lia). lia.
  Qed.

  (* ---------------------------------------------------------------------------------- *)
  (* the stream of input chunks *)

  Variable dt : Z.
  Variable run : option Z.

  Definition stream_ok (e : Z) (rest : list chunk) : Prop :=
    contiguous_from e rest /\ Forall wf rest /\ Forall (fun c => cdtype c = dt /\ crun c = run) rest.

  Lemma stream_rows_ge : forall rest e,
    contiguous_from e rest -> Forall wf rest -> Forall (fun q => e <= rt q) (flat_map crows rest).
  Proof.
    induction rest as [|c rest IH]; intros e Hc Hw; cbn [flat_map]; [constructor|].
    destruct Hc as [Hs Hc]. inversion Hw as [|? ? Hwc Hwrs]; subst.
    pose proof Hwc as (H0 & Hse & _ & Hin). apply Forall_app. split.
    - eapply Forall_impl; [|exact Hin]. cbn beta; intros; lia.
    - eapply Forall_impl; [|apply (IH (cend c) Hc Hwrs)]. cbn beta; intros; lia.
  Qed.

  Lemma range_lo lo : Forall (fun q => lo <= rt q) R -> Forall (fun o => lo <= rt o) (f R).
  Proof.
    intros Hlo.
    assert (HMx : Forall (fun q => re q <= Mx R) R) by (apply Mx_le_iff; [apply Mx_ge|lia]).
    assert (Hx : Forall (fun o => lo <= rt o /\ re o <= Mx R) (f R)).
    { apply (wl_range _ _ _ HWL); auto. apply Forall_forall. intros q Hq.
      pose proof (proj1 (Forall_forall _ _) HMx q Hq) as H1.
      pose proof (proj1 (Forall_forall _ _) Hlo q Hq) as H2. cbn beta in *. lia. }
    eapply Forall_impl; [|exact Hx]. cbn beta; intros; lia.
  Qed.

  (* plugin state between two do_compute calls, relative to the next input chunk `inp`:
     L = rows dropped from the input cache, M = rows in the input cache, S = effective sent_until *)
  Definition state_ok (st : ow_state) (inp : chunk) (L M : list row) (S : Z) : Prop :=
    (st = ow_init /\ L = [] /\ M = [] /\ S = cstart inp) \/
    (exists ci crs, st = mk_ow_state (Some ci) (Some crs) S /\
       wf ci /\ crows ci = M /\ cend ci = cstart inp /\ cdtype ci = dt /\ crun ci = run /\
       cstart ci <= S /\ S <= cend ci /\
       Forall (fun q => re q + 2 * wl < S) L /\
       ((S = cstart ci /\ L = []) \/ S + 2 * wr + 1 <= cend ci) /\
       ~ straddled (f R) S).

  Lemma wf_suffix c A M t :
    wf c -> A ++ M = crows c -> cstart c <= t -> t <= cend c -> Forall (fun q => t <= rt q) M ->
    wf (mkchunk t (cend c) M (cdtype c) (ckind c) (crun c) (ctarget c)).
  Proof.
    intros (H0 & Hse & Hs & Hin) HAM Ht1 Ht2 HM. apply wf_mkchunk; try lia.
    - rewrite <- HAM in Hs. apply sorted_app in Hs. tauto.
    - unfold rows_in. rewrite <- HAM in Hin. apply Forall_app in Hin as [_ Hin].
      rewrite Forall_forall in *. intros q Hq. specialize (Hin q Hq). specialize (HM q Hq). cbn beta in *. lia.
  Qed.

  Lemma do_compute_spec st inp L M Tr S :
    wf inp -> cdtype inp = dt -> crun inp = run ->
    R = L ++ M ++ crows inp ++ Tr -> Forall (fun q => cend inp <= rt q) Tr ->
    state_ok st inp L M S ->
    exists S' ci' A M',
      ow_do_compute P st inp =
        Ok ([out_chunk S S' (filter (betweenb S S') (f R))],
            mk_ow_state (Some ci')
              (Some [out_chunk S' (cend inp) (filter (fromb S') (f (M ++ crows inp)))]) S') /\
      S <= S' /\ S' <= cend inp /\
      wf (out_chunk S S' (filter (betweenb S S') (f R))) /\
      wf (out_chunk S' (cend inp) (filter (fromb S') (f (M ++ crows inp)))) /\
      A ++ M' = M ++ crows inp /\
      wf ci' /\ crows ci' = M' /\ cend ci' = cend inp /\ cdtype ci' = dt /\ crun ci' = run /\
      cstart ci' <= S' /\
      Forall (fun q => re q + 2 * wl < S') (L ++ A) /\
      ((S' = cstart ci' /\ L ++ A = []) \/ S' + 2 * wr + 1 <= cend inp) /\
      ~ straddled (f R) S'.
  Proof.
    intros Hwf Hdt Hrun HRdec HT Hst. pose proof Hwf as (H0 & Hse & _ & _).
    destruct Hst as [(-> & -> & -> & ->)|(ci & crs & -> & Hwci & HM & Hce & Hcdt & Hcrun & HS1 & HS2 & HL & Hph & Hns)].
    - (* first call: no cached input, sent_until = 0 *)
      cbn [app] in HRdec |- *.
      assert (Hlo : Forall (fun o => cstart inp <= rt o) (f R)).
      { apply range_lo. rewrite HRdec. apply Forall_app. split.
        - eapply Forall_impl; [|apply (wf_rows_in _ Hwf)]. cbn beta; intros; lia.
        - eapply Forall_impl; [|exact HT]. cbn beta; intros; lia. }
      destruct (compute_core_spec inp 0 [] Tr Hwf HRdec (cstart inp)) as
          (S' & t & A & M' & Hcore & Ha & Hb & Hwo & Hwc & HAM & Ht1 & Ht2 & HA & HM' & HLA & Hph' & Hns');
        try (unfold clamp; lia); auto.
      { intros Hs. apply straddled_iff in Hs as (o & Ho & Hso).
        rewrite Forall_forall in Hlo. specialize (Hlo o Ho). unfold straddles in Hso. cbn beta in Hlo. lia. }
      exists S', (mkchunk t (cend inp) M' (cdtype inp) (ckind inp) (crun inp) (ctarget inp)), A, M'.
      split; [unfold ow_do_compute; cbn [ow_cin ow_init ow_sent res_bind]; exact Hcore|].
      split; [lia|]. split; [lia|]. split; [exact Hwo|]. split; [exact Hwc|]. split; [exact HAM|].
      split; [apply (wf_suffix inp A M' t); auto; lia|].
      cbn [crows cend cdtype crun cstart]. split; [reflexivity|]. split; [reflexivity|]. split; [exact Hdt|].
      split; [exact Hrun|]. split; [lia|]. split; [exact HLA|]. split; [exact Hph'|exact Hns'].
    - (* later calls: the cached input is prepended *)
      destruct (concat2_ok ci inp Hwci Hwf ltac:(lia) ltac:(congruence) ltac:(congruence)) as [tgt Hcat].
      pose proof (wf_concat2 ci inp tgt Hwci Hwf ltac:(lia)) as Hwfi.
      set (inp' := mkchunk (cstart ci) (cend inp) (crows ci ++ crows inp) (cdtype ci) (ckind ci) (crun ci) tgt) in *.
      assert (HRdec' : R = L ++ crows inp' ++ Tr).
      { cbn [crows inp']. rewrite HM, <- app_assoc. exact HRdec. }
      destruct (compute_core_spec inp' S L Tr Hwfi HRdec' S) as
          (S' & t & A & M' & Hcore & Ha & Hb & Hwo & Hwc & HAM & Ht1 & Ht2 & HA & HM' & HLA & Hph' & Hns');
        try (unfold clamp; cbn [cstart cend inp']; lia); auto.
      { cbn [cstart cend inp']. destruct Hph as [?|?]; [left; auto|right; lia]. }
      cbn [cstart cend crows cdtype ckind crun ctarget inp'] in *.
      exists S', (mkchunk t (cend inp) M' (cdtype ci) (ckind ci) (crun ci) tgt), A, M'.
      split.
      { unfold ow_do_compute. cbn [ow_cin ow_sent]. rewrite Hcat. cbn [res_bind]. fold inp'.
        rewrite Hcore. rewrite HM. reflexivity. }
      rewrite HM in HAM.
      split; [lia|]. split; [lia|]. split; [exact Hwo|]. split; [rewrite <- HM; exact Hwc|]. split; [exact HAM|].
      split.
      { apply (wf_suffix inp' A M' t Hwfi); cbn [crows cstart cend inp']; auto; try lia. rewrite HM. exact HAM. }
      cbn [crows cend cdtype crun cstart]. split; [reflexivity|]. split; [reflexivity|]. split; [exact Hcdt|].
      split; [exact Hcrun|]. split; [lia|]. split; [exact HLA|]. split; [exact Hph'|exact Hns'].
  Qed.

  (* splitting the freshly fetched buffer at its own end hands the whole chunk to do_compute *)
  Lemma split_at_end buf :
    wf buf -> Forall (fun r => rt r < re r) (crows buf) ->
    chunk_split buf (cend buf) true =
      Ok (mkchunk (cstart buf) (cend buf) (crows buf) (cdtype buf) (ckind buf) (crun buf) (ctarget buf),
          mkchunk (cend buf) (cend buf) [] (cdtype buf) (ckind buf) (crun buf) (ctarget buf)).
  Proof.
    intros Hwf Hpos. pose proof Hwf as (H0 & Hse & _ & Hin).
    destruct (chunk_split_spec buf (cend buf) true Hwf (or_introl eq_refl))
      as (l & r & t & Hs & Hlr & Hl & Hr & Ht1 & Ht2 & Hex & _).
    assert (Hc : clamp buf (cend buf) = cend buf) by (unfold clamp; lia).
    rewrite Hc in *.
    assert (Et : t = cend buf).
    { apply Hex. intros (q & Hq & Hsq). rewrite Forall_forall in Hin. specialize (Hin q Hq).
      unfold straddles in Hsq. cbn beta in Hin. lia. }
    subst t.
    assert (Er : r = []).
    { destruct r as [|q r']; [reflexivity|exfalso].
      assert (Hq : In q (crows buf)) by (rewrite <- Hlr; apply in_or_app; right; left; reflexivity).
      inversion Hr; subst. rewrite Forall_forall in Hin, Hpos. specialize (Hin q Hq). specialize (Hpos q Hq).
      cbn beta in *. lia. }
    subst r. rewrite app_nil_r in Hlr. subst l. exact Hs.
  Qed.

  Definition as_items (outs : list chunk) : list (option (list chunk)) := map (fun c => Some [c]) outs.

  Lemma rounds_spec : forall rest buf st L M S,
    wf buf -> cdtype buf = dt -> crun buf = run -> stream_ok (cend buf) rest ->
    R = L ++ M ++ crows buf ++ flat_map crows rest ->
    state_ok st buf L M S ->
    exists outs,
      ow_rounds P st buf rest = Ok (as_items outs) /\
      contiguous_from S outs /\ last_end S outs = last_end (cend buf) rest /\
      Forall wf outs /\ flat_map crows outs = filter (fromb S) (f R).
  Proof.
    induction rest as [|c rest IH]; intros buf st L M S Hwf Hdt Hrun (Hcont & Hwrest & Hmeta) HRdec Hst.
    - cbn [flat_map] in HRdec.
      assert (Hpos : Forall (fun r => rt r < re r) (crows buf)).
      { rewrite HRdec in HR. apply dsp_app in HR as [_ H1]. apply dsp_app in H1 as [_ H1].
        apply dsp_app in H1 as [H1 _]. eapply Forall_impl; [|apply dsp_pos; exact H1]. unfold pos_row; intros; lia. }
      set (inp := mkchunk (cstart buf) (cend buf) (crows buf) (cdtype buf) (ckind buf) (crun buf) (ctarget buf)).
      assert (Hwfi : wf inp) by (destruct Hwf as (? & ? & ? & ?); apply wf_mkchunk; auto).
      assert (Hst' : state_ok st inp L M S) by exact Hst.
      destruct (do_compute_spec st inp L M [] S Hwfi Hdt Hrun HRdec (Forall_nil _) Hst')
        as (S' & ci' & A & M' & Hdo & Ha & Hb & Hwo & Hwc & HAM & Hwci & HM' & Hce & Hcdt & Hcrun & HcS & HLA & Hph & Hns).
      cbn [crows cend inp] in *.
      exists [out_chunk S S' (filter (betweenb S S') (f R));
              out_chunk S' (cend buf) (filter (fromb S') (f (M ++ crows buf)))].
      split.
      { cbn [ow_rounds]. rewrite (split_at_end buf Hwf Hpos). cbn [res_bind]. fold inp. rewrite Hdo.
        cbn [res_bind crows length ow_cres]. rewrite andb_false_r. reflexivity. }
      split; [cbn; auto|]. split; [reflexivity|]. split; [constructor; [exact Hwo|constructor; [exact Hwc|constructor]]|].
      cbn [flat_map crows out_chunk]. rewrite app_nil_r.
      (* the flushed rows: nothing is missing on the right any more *)
      assert (Hfl : filter (fromb S') (f (M ++ crows buf)) = filter (fromb S') (f R)).
      { assert (HR0 : R = L ++ (M ++ crows buf) ++ []) by (rewrite HRdec, !app_nil_r; reflexivity).
        assert (HdR2 : dsp (L ++ (M ++ crows buf) ++ [])) by (rewrite <- HR0; exact HR).
        apply Forall_app in HLA as [HLA _].
        rewrite (filter_filter_impl (fromb S') (safeb (2 * wl) (2 * wr) L []) (f (M ++ crows buf))).
        - rewrite (filter_filter_impl (fromb S') (safeb (2 * wl) (2 * wr) L []) (f R)).
          + rewrite (wl_agree _ _ _ HWL L (M ++ crows buf) [] HdR2), <- HR0. reflexivity.
          + intros o _ Hb'. unfold fromb in Hb'. apply safeb_true; [|constructor].
            eapply Forall_impl; [|exact HLA]. cbn beta; intros; lia.
        - intros o _ Hb'. unfold fromb in Hb'. apply safeb_true; [|constructor].
          eapply Forall_impl; [|exact HLA]. cbn beta; intros; lia. }
      rewrite Hfl. apply sorted_between_from; [apply (wl_sorted _ _ _ HWL); exact HR|lia].
    - cbn [flat_map] in HRdec.
      assert (Hpos : Forall (fun r => rt r < re r) (crows buf)).
      { rewrite HRdec in HR. apply dsp_app in HR as [_ H1]. apply dsp_app in H1 as [_ H1].
        apply dsp_app in H1 as [H1 _]. eapply Forall_impl; [|apply dsp_pos; exact H1]. unfold pos_row; intros; lia. }
      set (inp := mkchunk (cstart buf) (cend buf) (crows buf) (cdtype buf) (ckind buf) (crun buf) (ctarget buf)).
      assert (Hwfi : wf inp) by (destruct Hwf as (? & ? & ? & ?); apply wf_mkchunk; auto).
      assert (Hst' : state_ok st inp L M S) by exact Hst.
      destruct Hcont as [Hcs Hcont]. inversion Hwrest as [|? ? Hwc' Hwrest']; subst.
      inversion Hmeta as [|? ? [Hcdt' Hcrun'] Hmeta']; subst.
      assert (HTr : Forall (fun q => cend buf <= rt q) (crows c ++ flat_map crows rest)).
      { apply (stream_rows_ge (c :: rest) (cend buf)); [split; auto|auto]. }
      destruct (do_compute_spec st inp L M (crows c ++ flat_map crows rest) S Hwfi Hdt Hrun HRdec HTr Hst')
        as (S' & ci' & A & M' & Hdo & Ha & Hb & Hwo & Hwc & HAM & Hwci & HM' & Hce & Hcdt & Hcrun & HcS & HLA & Hph & Hns).
      cbn [crows cend inp] in *.
      (* fetch the next chunk: concatenate the empty remainder of the buffer with it *)
      set (buf' := mkchunk (cend buf) (cend buf) [] (cdtype buf) (ckind buf) (crun buf) (ctarget buf)).
      assert (Hwb' : wf buf') by (destruct Hwf as (? & ? & ? & ?); apply wf_mkchunk; try lia; [exact I|constructor]).
      destruct (concat2_ok buf' c Hwb' Hwc' ltac:(cbn; lia) ltac:(cbn; congruence) ltac:(cbn; congruence)) as [tgt Hcat].
      pose proof (wf_concat2 buf' c tgt Hwb' Hwc' ltac:(cbn; lia)) as Hwb2.
      cbn [cstart cend crows cdtype ckind crun buf' app] in Hcat, Hwb2.
      set (buf2 := mkchunk (cend buf) (cend c) (crows c) (cdtype buf) (ckind buf) (crun buf) tgt) in *.
      destruct (IH buf2 (mk_ow_state (Some ci')
                  (Some [out_chunk S' (cend buf) (filter (fromb S') (f (M ++ crows buf)))]) S') (L ++ A) M' S')
        as (outs & Hro & Hco & Hle & Hwo' & Hrows); auto.
      { split; [exact Hcont|]. split; auto. }
      { cbn [crows buf2]. rewrite <- app_assoc. rewrite (app_assoc A), HAM, <- app_assoc. exact HRdec. }
      { right. eexists ci', _. split; [reflexivity|]. cbn [cstart buf2].
        split; [exact Hwci|]. split; [exact HM'|]. split; [exact Hce|]. split; [exact Hcdt|]. split; [exact Hcrun|].
        split; [exact HcS|]. split; [lia|]. split; [exact HLA|]. split; [|exact Hns].
        destruct Hph as [?|?]; [left; auto|right; lia]. }
      exists (out_chunk S S' (filter (betweenb S S') (f R)) :: outs).
      split.
      { cbn [ow_rounds]. rewrite (split_at_end buf Hwf Hpos). cbn [res_bind]. fold inp. rewrite Hdo.
        cbn [res_bind]. fold buf'. rewrite Hcat. cbn [res_bind]. fold buf2. rewrite Hro. reflexivity. }
      split; [cbn [contiguous_from cstart cend out_chunk]; split; [reflexivity|exact Hco]|].
      split; [cbn [last_end cend out_chunk buf2] in *; exact Hle|].
      split; [constructor; auto|].
      cbn [flat_map crows out_chunk]. rewrite Hrows.
      apply sorted_between_from; [apply (wl_sorted _ _ _ HWL); exact HR|lia].
  Qed.

End Single.

(* ------------------------------------------------------------------------------------------ *)
(* closed statements *)

Lemma safeb_mono ml mr ml' mr' L T o :
  ml <= ml' -> mr <= mr' -> safeb ml' mr' L T o = true -> safeb ml mr L T o = true.
Proof.
  intros H1 H2. unfold safeb. rewrite !andb_true_iff, !forallb_forall. intros [A B]. split; intros q Hq.
  - specialize (A q Hq). lia.
  - specialize (B q Hq). lia.
Qed.

(* a computation that is local within smaller margins is local within larger ones *)
Lemma window_local_mono ml mr ml' mr' f :
  ml <= ml' -> mr <= mr' -> window_local ml mr f -> window_local ml' mr' f.
Proof.
  intros H1 H2 [Hs Hp Hr Ha Hst]. constructor; auto.
  - intros L I T Hd.
    rewrite (filter_filter_impl (safeb ml' mr' L T) (safeb ml mr L T) (f I))
      by (intros; eapply safeb_mono; eauto).
    rewrite (filter_filter_impl (safeb ml' mr' L T) (safeb ml mr L T) (f (L ++ I ++ T)))
      by (intros; eapply safeb_mono; eauto).
    rewrite (Ha L I T Hd). reflexivity.
  - intros L I T x Hd [HL HT]. apply Hst; auto. split.
    + eapply Forall_impl; [|exact HL]. cbn beta; intros; lia.
    + eapply Forall_impl; [|exact HT]. cbn beta; intros; lia.
Qed.

Lemma delivered_as_items outs : delivered_rows 0 (as_items outs) = flat_map crows outs.
Proof.
  unfold delivered_rows, as_items. induction outs as [|c outs IH]; [reflexivity|].
  cbn [map flat_map item_rows nth_error]. rewrite IH. reflexivity.
Qed.

Definition single_params (f : list row -> list row) (wtuple : bool) (wl wr odt okind : Z) (orun : option Z)
           (otgt sw : Z) : ow_params :=
  mk_ow_params wtuple wl wr [mk_ow_out f odt okind] orun otgt sw.

Theorem overlap_single_correct f wtuple wl wr ml mr odt okind orun otgt sw R a b dt run cs :
  0 <= wl -> 0 <= wr -> ml <= 2 * wl -> mr <= 2 * wr -> window_local ml mr f ->
  dsp R -> chunking_of R a b dt run cs ->
  exists outs,
    ow_iter (single_params f wtuple wl wr odt okind orun otgt sw) cs = Ok (as_items outs) /\
    flat_map crows outs = f R /\
    contiguous_from a outs /\ last_end a outs = b /\ Forall wf outs.
Proof.
  intros Hwl Hwr Hml Hmr HWL0 HR (Hne & Hcont & Hlast & Hwf & Hmeta & Hrows).
  pose proof (window_local_mono _ _ _ _ _ Hml Hmr HWL0) as HWL.
  destruct cs as [|c rest]; [congruence|]. clear Hne.
  destruct Hcont as [Hca Hcont]. inversion Hwf as [|? ? Hwc Hwrest]; subst.
  inversion Hmeta as [|? ? [Hdt Hrun] Hmeta']; subst.
  cbn [flat_map last_end] in *.
  destruct (rounds_spec f wl wr wtuple odt okind orun otgt sw Hwl Hwr HWL
              (crows c ++ flat_map crows rest) HR (cdtype c) (crun c) rest c ow_init [] [] (cstart c))
    as (outs & Hro & Hco & Hle & Hwo & Hfl); auto.
  { split; auto. }
  { left. auto. }
  exists outs. split; [exact Hro|]. split; [|auto].
  rewrite Hfl. apply filter_all_true.
  assert (Hlo : Forall (fun o => cstart c <= rt o) (f (crows c ++ flat_map crows rest))).
  { apply (range_lo f wl wr HWL _ HR). apply Forall_app. split.
    - eapply Forall_impl; [|apply (wf_rows_in _ Hwc)]. cbn beta; intros; lia.
    - destruct Hwc as (_ & Hse & _). eapply Forall_impl; [|eapply stream_rows_ge; eauto].
      cbn beta; intros; lia. }
  eapply Forall_impl; [|exact Hlo]. cbn beta. unfold fromb. intros; lia.
Qed.
