(* Frame facts about one step of the mailbox network (Model/MailboxFail.v): a lock region of thread tid changes the
   thread tid, at most one mailbox, and of the other threads at most the woken flag.  Also: what start_all does to
   each thread.  Used by the chain proof (Proof/MailboxFailChain.v). *)
From SV Require Import Base.Prelude Model.Mailbox Proof.MailboxFacts Model.MailboxFail Proof.MailboxFailFacts
  Proof.MailboxFailWake Proof.MailboxFailStruct.
Local Open Scope nat_scope.

Definition weq (t t' : thread) : Prop := t' = t \/ t' = set_woken t true.

Lemma weq_refl t : weq t t. Proof. left. reflexivity. Qed.
Lemma weq_trans a b c : weq a b -> weq b c -> weq a c.
Proof. intros [->| ->] [->| ->]; unfold weq; auto. Qed.
Lemma weq_wk f j t : weq t (wk f j t).
Proof. unfold wk, weq. destruct (f t j); auto. Qed.

(* fr tid j st st': threads other than tid changed at most their woken flag, mailboxes other than j are unchanged *)
Definition fr (tid j : nat) (st st' : nstate) : Prop :=
  (forall i t, i <> tid -> nth_error (ths st) i = Some t -> exists t', nth_error (ths st') i = Some t' /\ weq t t') /\
  (forall k, k <> j -> get_mb st' k = get_mb st k).

Lemma fr_refl tid j st : fr tid j st st.
Proof. split; [intros i t _ H; exists t; split; [auto | apply weq_refl] | auto]. Qed.
Lemma fr_trans tid j a b c : fr tid j a b -> fr tid j b c -> fr tid j a c.
Proof.
  intros [H1 H2] [H3 H4]. split.
  - intros i t Hi Ht. destruct (H1 i t Hi Ht) as [t1 [Ht1 W1]]. destruct (H3 i t1 Hi Ht1) as [t2 [Ht2 W2]].
    exists t2. split; auto. eapply weq_trans; eauto.
  - intros k Hk. rewrite H4, H2; auto.
Qed.
Lemma fr_set_th tid j st t : fr tid j st (set_th st tid t).
Proof.
  split; [|reflexivity]. intros i u Hi Hu. exists u. split; [|apply weq_refl].
  rewrite nth_error_set_th_neq by auto. exact Hu.
Qed.
Lemma fr_set_mb tid j st m : fr tid j st (set_mb st j m).
Proof.
  split.
  - intros i u _ Hu. exists u. split; [exact Hu | apply weq_refl].
  - intros k Hk. apply get_mb_set_mb_neq. auto.
Qed.
Lemma fr_wake tid j f k st : fr tid j st (wake f k st).
Proof.
  split; [|reflexivity]. intros i u _ Hu. exists (wk f k u). split; [|apply weq_wk].
  rewrite nth_error_wake, Hu. reflexivity.
Qed.
Lemma fr_maybe_wake_gate tid j k st : fr tid j st (maybe_wake_gate k st).
Proof. unfold maybe_wake_gate. destruct (_ && _); auto using fr_refl, fr_wake. Qed.
Lemma fr_kill_mb tid st j c : fr tid j st (kill_mb st j c).
Proof.
  unfold kill_mb. cbn [mb_killed set_fkilled]. destruct (mb_killed (get_mb st j)); [apply fr_set_mb|].
  eapply fr_trans; [|apply fr_wake]. eapply fr_trans; [|apply fr_wake]. eapply fr_trans; [|apply fr_wake].
  apply fr_set_mb.
Qed.

Section FR.
Variable nt : net.
Variable tid : nat.

Lemma fr_read_region resume st t : fr tid (r_mb (cur_r t)) st (read_region nt tid resume st t).
Proof.
  unfold read_region. destruct (has_msg _ _ || mb_killed _).
  - destruct (mb_killed _).
    + eapply fr_trans; [apply fr_set_mb | apply fr_set_th].
    + destruct (take_from _ _ _) as [[ms n'] last].
      eapply fr_trans; [|apply fr_set_th]. eapply fr_trans; [|apply fr_wake].
      eapply fr_trans; [|apply fr_maybe_wake_gate]. apply fr_set_mb.
  - destruct resume; [apply fr_set_th|].
    eapply fr_trans; [|apply fr_set_th]. eapply fr_trans; [|apply fr_maybe_wake_gate]. apply fr_set_mb.
Qed.
Lemma fr_after_send st t oi mg closing : fr tid (out_mb t oi) st (after_send nt tid st t oi mg closing).
Proof.
  unfold after_send. eapply fr_trans; [|apply fr_set_th]. destruct closing; [apply fr_set_mb | apply fr_refl].
Qed.
Lemma fr_do_push st t oi mg closing : fr tid (out_mb t oi) st (do_push nt tid st t oi mg closing).
Proof.
  unfold do_push. eapply fr_trans; [|apply fr_after_send]. eapply fr_trans; [|apply fr_wake]. apply fr_set_mb.
Qed.
Lemma fr_send_region resume st t oi mg closing :
  fr tid (out_mb t oi) st (send_region nt tid resume st t oi mg closing).
Proof.
  unfold send_region. destruct resume.
  - destruct (mb_can_write _); [|apply fr_set_th].
    destruct (mb_killed _); [destruct (mb_fkilled _); auto using fr_set_th, fr_after_send | apply fr_do_push].
  - destruct (mb_closed _); [apply fr_set_th|]. destruct (mb_fkilled _); [apply fr_set_th|].
    destruct (mb_killed _); [apply fr_after_send|].
    destruct (mb_can_write _); [apply fr_do_push | apply fr_set_th].
Qed.
Lemma fr_gate_region resume st t oi j : fr tid j st (gate_region nt tid resume st t oi).
Proof.
  unfold gate_region. destruct (mb_can_fetch _).
  - destruct (t_kind t); try apply fr_set_th. destruct (next_gate _ _ _); apply fr_set_th.
  - destruct resume; apply fr_set_th.
Qed.
Lemma fr_killout_region st t oi e : fr tid (out_mb t oi) st (killout_region tid st t oi e).
Proof. unfold killout_region. eapply fr_trans; [apply fr_kill_mb | apply fr_set_th]. Qed.
End FR.

(* consequences in terms of get_th *)
Lemma fr_get_th tid j st st' i :
  fr tid j st st' -> i <> tid -> i < length (ths st) -> weq (get_th st i) (get_th st' i).
Proof.
  intros [H _] Hi Hlt. destruct (nth_error (ths st) i) as [t|] eqn:E.
  - destruct (H i t Hi E) as [t' [E' W]]. rewrite (get_th_nth _ _ _ E), (get_th_nth _ _ _ E'). exact W.
  - apply nth_error_None in E. lia.
Qed.

(* ---------- start_all: every thread runs loop_start against the initial mailboxes ---------- *)
Lemma loop_start_mbs nt i s s' t : mbs s = mbs s' -> loop_start nt i s t = loop_start nt i s' t.
Proof.
  intros H. unfold loop_start, next_gate.
  assert (Hg : forall j, get_mb s j = get_mb s' j) by (intros j; unfold get_mb; rewrite H; reflexivity).
  destruct (t_kind t); auto.
  - rewrite Hg. reflexivity.
  - assert (Hf : forall l idx, find_gate s l idx = find_gate s' l idx).
    { induction l as [|[o ff] l IH]; intros idx; cbn; auto. rewrite Hg, IH. reflexivity. }
    rewrite Hf. reflexivity.
Qed.

Lemma start_fold_spec nt l : NoDup l -> forall s,
  let s' := fold_left (fun s i => set_th s i (loop_start nt i s (get_th s i))) l s in
  mbs s' = mbs s /\ length (ths s') = length (ths s) /\
  forall i, i < length (ths s) ->
    get_th s' i = if existsb (Nat.eqb i) l then loop_start nt i s (get_th s i) else get_th s i.
Proof.
  induction l as [|a l IH]; intros Hnd s; cbn [fold_left existsb].
  - auto.
  - inversion Hnd as [|x y Hna Hnd']; subst.
    set (s1 := set_th s a (loop_start nt a s (get_th s a))).
    destruct (IH Hnd' s1) as [Hm [Hl Hth]]. cbn zeta in *.
    assert (Hm1 : mbs s1 = mbs s) by reflexivity.
    assert (Hl1 : length (ths s1) = length (ths s)) by apply length_ths_set_th.
    split; [congruence|]. split; [congruence|].
    intros i Hi. rewrite Hth by lia.
    destruct (Nat.eqb i a) eqn:Eia; cbn [orb].
    + apply Nat.eqb_eq in Eia. subst i.
      replace (existsb (Nat.eqb a) l) with false.
      2:{ symmetry. apply not_true_iff_false. intros Hc. apply existsb_exists in Hc.
          destruct Hc as [x [Hx Ex]]. apply Nat.eqb_eq in Ex. subst x. contradiction. }
      unfold s1. apply get_th_set_th_eq. auto.
    + apply Nat.eqb_neq in Eia.
      assert (Eg : get_th s1 i = get_th s i).
      { unfold s1, get_th, set_th. cbn. apply nth_upd_neq. auto. }
      rewrite Eg. destruct (existsb (Nat.eqb i) l); auto.
      apply loop_start_mbs. exact Hm1.
Qed.

Lemma start_all_spec nt st :
  mbs (start_all nt st) = mbs st /\ length (ths (start_all nt st)) = length (ths st) /\
  forall i, i < length (ths st) -> get_th (start_all nt st) i = loop_start nt i st (get_th st i).
Proof.
  unfold start_all. destruct (start_fold_spec nt (seq 0 (length (ths st))) (seq_NoDup _ _) st) as [H1 [H2 H3]].
  split; auto. split; auto. intros i Hi. rewrite H3 by auto.
  replace (existsb (Nat.eqb i) (seq 0 (length (ths st)))) with true; auto.
  symmetry. apply existsb_exists. exists i. split; [apply in_seq; lia | apply Nat.eqb_refl].
Qed.
