(* The gap-separated group former (Model/OverlapKernels.v, f_group G) is window-local with margins
   (G, G): one output row per maximal run of rows whose consecutive gaps are <= G. *)
From SV Require Import Model.Rows Model.OverlapKernels Spec.WindowLocal.
From SV Require Import Proof.RowsFacts Proof.OverlapLists Proof.WindowLocalProof.

Section Group.
  Variable G : Z.
  Hypothesis HG : 0 <= G.

  Definition first_of (r : row) : row := mkrow (rt r) (re r) (rid r) 1.
  Definition merge (c r : row) : row := mkrow (rt c) (re r) (rid c) (rch c + 1).

  Lemma f_group_cons r rest : f_group G (r :: rest) = group_from G (first_of r) rest.
  Proof. reflexivity. Qed.

  (* ---- shape of the first group: it only remembers the end of the accumulator ---- *)
  Lemma gf_shape : forall Z e0, exists e n tl,
    forall c, re c = e0 -> group_from G c Z = mkrow (rt c) e (rid c) (rch c + n) :: tl.
  Proof.
    induction Z as [|r Z IH]; intros e0.
    - exists e0, 0, []. intros c <-. cbn. destruct c; cbn. f_equal. f_equal. lia.
    - destruct (rt r - e0 <=? G) eqn:E.
      + destruct (IH (re r)) as (e & n & tl & H). exists e, (1 + n), tl. intros c Hc.
        cbn [group_from]. rewrite Hc, E. rewrite (H (mkrow (rt c) (re r) (rid c) (rch c + 1)) eq_refl).
        cbn [rt re rid rch]. f_equal. f_equal. lia.
      + exists e0, 0, (group_from G (first_of r) Z). intros c Hc. cbn [group_from]. rewrite Hc, E.
        destruct c; cbn in *. subst. f_equal. f_equal. lia.
  Qed.

  (* ---- ends and starts of the outputs ---- *)
  Lemma gf_ends : forall Z c o, In o (group_from G c Z) -> re o = re c \/ exists q, In q Z /\ re o = re q.
  Proof.
    induction Z as [|r Z IH]; intros c o Ho; cbn [group_from] in Ho.
    - destruct Ho as [<-|[]]. left; reflexivity.
    - destruct (rt r - re c <=? G).
      + destruct (IH _ _ Ho) as [H|(q & Hq & H)]; cbn in H.
        * right. exists r. split; [left; auto|auto].
        * right. exists q. split; [right; auto|auto].
      + destruct Ho as [<-|Ho]; [left; reflexivity|].
        destruct (IH _ _ Ho) as [H|(q & Hq & H)]; cbn in H.
        * right. exists r. split; [left; auto|auto].
        * right. exists q. split; [right; auto|auto].
  Qed.

  Lemma gf_lb lo : forall Z c, lo <= rt c -> Forall (fun q => lo <= rt q) Z ->
    Forall (fun o => lo <= rt o) (group_from G c Z).
  Proof.
    induction Z as [|r Z IH]; intros c Hc HZ; cbn [group_from]; [repeat constructor; auto|].
    inversion HZ; subst. destruct (rt r - re c <=? G).
    - apply IH; auto.
    - constructor; [auto|]. apply IH; auto.
  Qed.

  Lemma gf_sorted : forall Z c, Forall (fun q => rt c <= rt q) Z -> sorted Z -> sorted (group_from G c Z).
  Proof.
    induction Z as [|r Z IH]; intros c HF Hs; cbn [group_from]; [cbn; auto|].
    inversion HF; subst. destruct Hs as [Hs1 Hs2]. destruct (rt r - re c <=? G).
    - apply IH; auto.
    - cbn [sorted]. split.
      + apply gf_lb; [cbn; lia|]. eapply Forall_impl; [|exact Hs1]. cbn beta; intros; lia.
      + apply IH; auto.
  Qed.

  (* chain: accumulator c followed by the remaining rows is disjoint, sorted, positive *)
  Definition chain (c : row) (Z : list row) : Prop :=
    rt c < re c /\ Forall (fun q => re c <= rt q) Z /\ dsp Z.

  Lemma gf_pos : forall Z c, chain c Z -> Forall (fun o => rt o < re o) (group_from G c Z).
  Proof.
    induction Z as [|r Z IH]; intros c (Hc & HF & Hd); cbn [group_from]; [repeat constructor; auto|].
    inversion HF; subst. destruct Hd as ([H0 Hp] & HF' & Hd'). destruct (rt r - re c <=? G).
    - apply IH. repeat split; cbn; auto. lia.
    - constructor; [auto|]. apply IH. repeat split; cbn; auto.
  Qed.

  Lemma dsp_chain r Z : dsp (r :: Z) -> chain (first_of r) Z.
  Proof. intros ([H0 Hp] & HF & Hd). repeat split; cbn; auto. Qed.

  (* ---- left side: rows in front of the segment ---- *)
  Definition safeL (L : list row) (o : row) : bool := forallb (fun q => re q + G <? rt o) L.
  Definition safeR (T : list row) (o : row) : bool := forallb (fun q => re o + G <? rt q) T.

  Lemma safeb_LR L T o : safeb G G L T o = safeL L o && safeR T o.
  Proof. reflexivity. Qed.

  Lemma left_agree : forall L Y, Forall pos_row L ->
    filter (safeL L) (f_group G (L ++ Y)) = filter (safeL L) (f_group G Y).
  Proof.
    induction L as [|q L IH]; intros Y Hp; [reflexivity|].
    inversion Hp as [|? ? [Hq0 Hq] Hp']; subst.
    assert (Hsplit : forall l, filter (safeL (q :: L)) l = filter (fun o => re q + G <? rt o) (filter (safeL L) l)).
    { intros l. rewrite <- filter_andb. apply filter_ext_in'. intros o _. unfold safeL. cbn [forallb]. apply andb_comm. }
    cbn [app]. destruct (L ++ Y) as [|z Z'] eqn:EZ.
    - (* nothing follows q *)
      assert (Y = []) by (destruct L; cbn in EZ; [auto|discriminate]). subst Y. cbn.
      destruct (re q + G <? rt q) eqn:E; [lia|]. reflexivity.
    - rewrite f_group_cons. cbn [group_from first_of re].
      specialize (IH Y Hp'). rewrite EZ in IH. rewrite (Hsplit (f_group G Y)), <- IH, <- Hsplit.
      rewrite f_group_cons.
      destruct (gf_shape Z' (re z)) as (e & n & tl & Hsh).
      destruct (rt z - re q <=? G) eqn:E.
      + rewrite (Hsh (mkrow (rt (first_of q)) (re z) (rid (first_of q)) (rch (first_of q) + 1)) eq_refl), (Hsh (first_of z) eq_refl).
        cbn [filter safeL forallb rt re first_of].
        destruct (re q + G <? rt q) eqn:E1; [lia|]. destruct (re q + G <? rt z) eqn:E2; [lia|].
        cbn [andb]. reflexivity.
      + cbn [filter]. unfold safeL at 1. cbn [forallb rt first_of]. destruct (re q + G <? rt q) eqn:E1; [lia|].
        cbn [andb]. reflexivity.
  Qed.

  (* ---- right side: rows behind the segment ---- *)
  Lemma unsafe_if_ends_in_T T o : Forall pos_row T -> (exists q, In q T /\ re o = re q) -> safeR T o = false.
  Proof.
    intros Hp (q & Hq & He). apply not_true_is_false. unfold safeR. rewrite forallb_forall. intros H.
    specialize (H q Hq). rewrite Forall_forall in Hp. destruct (Hp q Hq) as [_ Hlt]. lia.
  Qed.

  Lemma right_tail_unsafe T : Forall pos_row T -> forall Z c,
    incl Z T -> (exists q, In q T /\ re c = re q) -> filter (safeR T) (group_from G c Z) = [].
  Proof.
    intros Hp Z c Hi Hc. apply filter_all_false. apply Forall_forall. intros o Ho.
    apply unsafe_if_ends_in_T; auto. destruct (gf_ends _ _ _ Ho) as [H|(q & Hq & H)].
    - destruct Hc as (q & Hq & Hc). exists q. split; [auto|congruence].
    - exists q. split; [apply Hi; auto|auto].
  Qed.

  Lemma right_agree T : Forall pos_row T -> forall Y c,
    filter (safeR T) (group_from G c (Y ++ T)) = filter (safeR T) (group_from G c Y).
  Proof.
    intros Hp. induction Y as [|y Y IH]; intros c.
    - cbn [app]. destruct T as [|t T'] eqn:ET; [reflexivity|]. rewrite <- ET in *.
      assert (Ht : In t T) by (rewrite ET; left; reflexivity).
      assert (Hi : incl T' T) by (rewrite ET; intros x Hx; right; exact Hx).
      rewrite ET at 2. cbn [group_from]. destruct (rt t - re c <=? G) eqn:E.
      + rewrite right_tail_unsafe; auto; [|exists t; split; [exact Ht|reflexivity]].
        cbn [filter]. assert (Hs : safeR T c = false).
        { apply not_true_is_false. unfold safeR. rewrite forallb_forall. intros H. specialize (H t Ht). lia. }
        rewrite Hs. reflexivity.
      + cbn [filter]. rewrite right_tail_unsafe; auto. exists t. split; [exact Ht|reflexivity].
    - cbn [app group_from]. destruct (rt y - re c <=? G).
      + apply IH.
      + cbn [filter]. rewrite IH. reflexivity.
  Qed.

  Lemma right_agree_f T Y : Forall pos_row T ->
    filter (safeR T) (f_group G (Y ++ T)) = filter (safeR T) (f_group G Y).
  Proof.
    intros Hp. destruct Y as [|y Y].
    - cbn [app]. destruct T as [|t T'] eqn:ET; [reflexivity|]. rewrite <- ET in *.
      rewrite ET at 2. rewrite f_group_cons. cbn [f_group filter]. apply right_tail_unsafe; auto.
      + rewrite ET. intros x Hx; right; exact Hx.
      + exists t. split; [rewrite ET; left; reflexivity|reflexivity].
    - cbn [app]. rewrite !f_group_cons. apply right_agree. exact Hp.
  Qed.

  Lemma group_agree L I T : dsp (L ++ I ++ T) ->
    filter (safeb G G L T) (f_group G I) = filter (safeb G G L T) (f_group G (L ++ I ++ T)).
  Proof.
    intros Hd. apply dsp_app in Hd as [HdL Hd']. apply dsp_app in Hd' as [_ HdT].
    pose proof (dsp_pos _ HdL) as HpL. pose proof (dsp_pos _ HdT) as HpT.
    assert (E : forall l, filter (safeb G G L T) l = filter (safeR T) (filter (safeL L) l)).
    { intros l. rewrite <- filter_andb. apply filter_ext_in'. intros o _. apply safeb_LR. }
    rewrite !E. rewrite (left_agree L (I ++ T) HpL).
    rewrite (filter_comm (safeR T) (safeL L)), (filter_comm (safeR T) (safeL L) (f_group G (I ++ T))).
    rewrite (right_agree_f T I HpT). reflexivity.
  Qed.

  (* ---- straddling: a group covers x iff a row covers x or x lies in a glued gap ---- *)
  Fixpoint covered (X : list row) (x : Z) : Prop :=
    match X with
    | [] => False
    | r :: rest =>
        straddles r x \/
        (match rest with r2 :: _ => rt r2 - re r <= G /\ re r <= x <= rt r2 | [] => False end) \/
        covered rest x
    end.

  Lemma straddled_cons o O x : straddled (o :: O) x <-> straddles o x \/ straddled O x.
  Proof. unfold straddled. rewrite Exists_cons. tauto. Qed.

  Lemma straddled_nil x : straddled [] x <-> False.
  Proof. unfold straddled. rewrite Exists_nil. tauto. Qed.

  Definition gapP (r : row) (rest : list row) (x : Z) : Prop :=
    match rest with r2 :: _ => rt r2 - re r <= G /\ re r <= x <= rt r2 | [] => False end.

  Lemma covered_cons r rest x : covered (r :: rest) x <-> straddles r x \/ gapP r rest x \/ covered rest x.
  Proof. reflexivity. Qed.

  Lemma gapP_re a b rest x : re a = re b -> (gapP a rest x <-> gapP b rest x).
  Proof. intros H. unfold gapP. destruct rest; [tauto|]. rewrite H. tauto. Qed.

  Lemma gf_covered : forall Z c x, chain c Z -> (straddled (group_from G c Z) x <-> covered (c :: Z) x).
  Proof.
    induction Z as [|r Z IH]; intros c x (Hc & HF & Hd).
    - cbn [group_from covered]. rewrite straddled_cons, straddled_nil. tauto.
    - inversion HF; subst. destruct Hd as ([H0 Hp] & HF' & Hd').
      cbn [group_from]. destruct (rt r - re c <=? G) eqn:E.
      + rewrite IH by (repeat split; cbn; auto; lia).
        rewrite !covered_cons.
        rewrite (gapP_re (mkrow (rt c) (re r) (rid c) (rch c + 1)) r Z x eq_refl).
        change (gapP c (r :: Z) x) with (rt r - re c <= G /\ re c <= x <= rt r).
        unfold straddles. cbn [rt re].
        generalize (gapP r Z x) (covered Z x). intros A B. intuition lia.
      + rewrite straddled_cons, IH by (repeat split; cbn; auto).
        rewrite !covered_cons.
        rewrite (gapP_re (first_of r) r Z x eq_refl).
        change (gapP c (r :: Z) x) with (rt r - re c <= G /\ re c <= x <= rt r).
        unfold straddles. cbn [rt re first_of].
        generalize (gapP r Z x) (covered Z x). intros A B. intuition lia.
  Qed.

  Lemma group_covered X x : dsp X -> (straddled (f_group G X) x <-> covered X x).
  Proof.
    destruct X as [|r Z]; intros Hd.
    - cbn. rewrite straddled_nil. tauto.
    - rewrite f_group_cons, gf_covered by (apply dsp_chain; exact Hd).
      cbn [covered]. unfold straddles. cbn [rt re first_of]. tauto.
  Qed.

  Lemma gapP_left_false q Z x : re q + G < x -> ~ gapP q Z x.
  Proof. intros H. unfold gapP. destruct Z as [|r2 ?]; [tauto|]. lia. Qed.

  Lemma gapP_right_false t Z x : x + G < rt t -> rt t < re t -> ~ gapP t Z x.
  Proof. intros H1 H2. unfold gapP. destruct Z as [|r2 ?]; [tauto|]. lia. Qed.

  Lemma covered_drop_left : forall L Y x,
    Forall (fun q => re q + G < x) L -> (covered (L ++ Y) x <-> covered Y x).
  Proof.
    induction L as [|q L IH]; intros Y x HL; [tauto|].
    inversion HL as [|? ? Hq HL']; subst. cbn [app]. rewrite covered_cons, (IH Y x HL').
    pose proof (gapP_left_false q (L ++ Y) x Hq) as Hg.
    assert (Hs : ~ straddles q x) by (unfold straddles; lia).
    tauto.
  Qed.

  Lemma covered_drop_right T x : Forall pos_row T -> Forall (fun q => x + G < rt q) T ->
    forall Y, covered (Y ++ T) x <-> covered Y x.
  Proof.
    intros Hp HT.
    assert (HTn : forall T', Forall pos_row T' -> Forall (fun q => x + G < rt q) T' -> ~ covered T' x).
    { induction T' as [|t T' IH]; intros Hp' HT'; [cbn; tauto|].
      inversion Hp' as [|? ? [? ?] ?]; subst. inversion HT'; subst. specialize (IH ltac:(auto) ltac:(auto)).
      rewrite covered_cons. pose proof (gapP_right_false t T' x ltac:(auto) ltac:(auto)) as Hg.
      assert (Hs : ~ straddles t x) by (unfold straddles; lia). tauto. }
    induction Y as [|y Y IH].
    - cbn [app]. split; [intros H; exfalso; revert H; apply HTn; auto|cbn; tauto].
    - cbn [app]. rewrite !covered_cons, IH.
      assert (Hg : gapP y (Y ++ T) x <-> gapP y Y x).
      { destruct Y as [|y2 Y']; [|reflexivity]. cbn [app]. unfold gapP.
        destruct T as [|t T']; [tauto|]. inversion HT; subst. lia. }
      tauto.
  Qed.

  Theorem f_group_window_local : window_local G G (f_group G).
  Proof.
    constructor.
    - intros I Hd. destruct I as [|r Z]; [cbn; auto|]. rewrite f_group_cons.
      pose proof (dsp_sorted _ Hd) as [Hs1 Hs2]. apply gf_sorted; auto.
    - intros I Hd. destruct I as [|r Z]; [constructor|]. rewrite f_group_cons. apply gf_pos. apply dsp_chain. exact Hd.
    - intros I lo hi Hd HF. destruct I as [|r Z]; [constructor|]. rewrite f_group_cons.
      inversion HF as [|? ? [Hr1 Hr2] HF']; subst.
      assert (Hlb : Forall (fun o => lo <= rt o) (group_from G (first_of r) Z)).
      { apply gf_lb; [cbn; lia|]. eapply Forall_impl; [|exact HF']. cbn beta; intros; lia. }
      apply Forall_forall. intros o Ho. split; [rewrite Forall_forall in Hlb; auto|].
      destruct (gf_ends _ _ _ Ho) as [H|(q & Hq & H)]; cbn in H; [lia|].
      rewrite Forall_forall in HF'. specialize (HF' q Hq). cbn beta in HF'. lia.
    - intros L I T Hd. apply group_agree. exact Hd.
    - intros L I T x Hd [HL HT].
      pose proof Hd as Hd0. apply dsp_app in Hd as [HdL Hd']. apply dsp_app in Hd' as [HdI HdT].
      rewrite (group_covered I x HdI), (group_covered (L ++ I ++ T) x Hd0).
      rewrite covered_drop_left; [|exact HL].
      rewrite covered_drop_right; [tauto|apply dsp_pos; exact HdT|exact HT].
  Qed.
End Group.
