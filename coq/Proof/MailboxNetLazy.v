(* C13, lazy mode: a source is advanced only on demand.

   lazy_fetch_only_on_demand (every network, every schedule): a lazy (gated) sender takes the next item from
   its iterable only in a step of its fetch gate that starts in a state where _can_fetch() is true.
   With the gate as repaired by /repo ede7cda (Model/Mailbox.v can_fetch) that means, for every mailbox:
   some DRIVING subscriber waits for a message that has not been produced (its number is >= _n_sent), and
   no subscriber waits for a message that is already in the mailbox (lazy_fetch_only_on_demand_full).

   The gate as it was before ede7cda (can_fetch_pinned: compare with the LOWEST buffered number) lets the
   sender pass in a reachable state in which a driving subscriber waits for a buffered message whenever a
   second, slower subscriber keeps older messages in the mailbox: lazy_gate_pinned_refuted (finding F1; the
   schedule is replayed on the real code by harness/props/c13.py on every run: a revert is a VIOLATION). *)
From SV Require Import Base.Prelude Model.Mailbox Model.MailboxNet Model.C13Run
  Proof.MailboxFacts Proof.MailboxProof Proof.MailboxInOrder Proof.MailboxNetLift Proof.MailboxStepFacts
  Proof.MailboxNetFlow Proof.MailboxNetBound.
Local Open Scope nat_scope.

(* ---------- the step that advances a source ---------- *)
Lemma advancing_step n w n' d cfg st st' :
  nstep n w = Some n' ->
  nth_error (n_boxes n) d = Some (cfg, st) -> nth_error (n_boxes n') d = Some (cfg, st') ->
  length (src st') < length (src st) ->
  exists t, step cfg st t = Some st'.
Proof.
  intros Hs Hd Hd' Hlt. apply nstep_inv in Hs.
  destruct Hs as (th & th' & d0 & t & cfg0 & st0 & st0' & _ & _ & Hd0 & Hst & Eb & _).
  rewrite Eb in Hd'. destruct (Nat.eq_dec d0 d) as [->|Hne].
  - rewrite nth_error_upd_eq in Hd' by (eapply nth_lt; eauto). rewrite Hd in Hd0.
    inversion Hd0; subst. inversion Hd'; subst. eauto.
  - rewrite nth_error_upd_neq in Hd' by auto. rewrite Hd in Hd'. inversion Hd'; subst. lia.
Qed.

Theorem lazy_fetch_only_on_demand n0 sched n w n' :
  nrun n0 sched = Some n -> nstep n w = Some n' ->
  forall d cfg st st',
    nth_error (n_boxes n) d = Some (cfg, st) -> nth_error (n_boxes n') d = Some (cfg, st') ->
    c_lazy cfg = true -> length (src st') < length (src st) ->
    at_gate (s_pc st) = true /\ can_fetch st = true.
Proof.
  intros _ Hs d cfg st st' Hd Hd' Hl Hlt.
  destruct (advancing_step _ _ _ _ _ _ _ Hs Hd Hd' Hlt) as (t & Ht).
  destruct (lazy_step_src _ _ _ _ Hl Ht Hlt) as (_ & A & B). auto.
Qed.

(* ---------- what _can_fetch() = True means when nothing was killed ---------- *)
Lemma existsb_nth {A} (f : A -> bool) l : existsb f l = true -> exists i x, nth_error l i = Some x /\ f x = true.
Proof.
  intros H. apply existsb_exists in H. destruct H as (x & Hin & Hf).
  apply In_nth_error in Hin. destruct Hin as (i & Hi). eauto.
Qed.

Lemma can_fetch_spec st :
  killed st = false -> can_fetch st = true ->
  (exists i r x, nth_error (rds st) i = Some r /\ r_drive r = true /\ r_waiting r = Some x) /\
  (forall i r x, nth_error (rds st) i = Some r -> r_waiting r = Some x -> has_msg (box st) x = false).
Proof.
  intros Hk Hc. unfold can_fetch in Hc. rewrite Hk in Hc.
  destruct (existsb (waits_buffered st) (rds st)) eqn:E; [discriminate|]. split.
  - apply existsb_nth in Hc. destruct Hc as (i & r & Hi & Hr). unfold drives in Hr.
    apply andb_true_iff in Hr. destruct Hr as [H1 H2]. destruct (r_waiting r) as [x|] eqn:Ew; [|discriminate]. eauto 8.
  - intros i r x Hi Hw. destruct (has_msg (box st) x) eqn:Eh; auto. exfalso.
    assert (existsb (waits_buffered st) (rds st) = true); [|congruence].
    apply existsb_exists. exists r. split; [eapply nth_error_In; eauto|].
    unfold waits_buffered. rewrite Hw. exact Eh.
Qed.

(* the property as worded, for every mailbox of every network without failures, every schedule *)
Theorem lazy_fetch_only_on_demand_full N n0 sched n w n' :
  all_boxes (J N) (n_boxes n0) -> nrun n0 sched = Some n -> nstep n w = Some n' ->
  forall d cfg st st',
    nth_error (n_boxes n) d = Some (cfg, st) -> nth_error (n_boxes n') d = Some (cfg, st') ->
    c_lazy cfg = true -> length (src st') < length (src st) ->
    (exists i r x, nth_error (rds st) i = Some r /\ r_drive r = true /\ r_waiting r = Some x /\ n_sent st <= x) /\
    (forall i r x, nth_error (rds st) i = Some r -> r_waiting r = Some x ->
       has_msg (box st) x = false /\ n_sent st <= x).
Proof.
  intros H0 Hrun Hs d cfg st st' Hd Hd' Hl Hlt.
  destruct (lazy_fetch_only_on_demand _ _ _ _ _ Hrun Hs _ _ _ _ Hd Hd' Hl Hlt) as [_ Hc].
  assert (HJ : J N cfg st) by (eapply (lift (J N) n0 sched n); eauto using J_step).
  destruct (can_fetch_spec st (J_not_killed _ _ _ HJ) Hc) as [(i & r & x & Hi & Hdr & Hw) Hno].
  assert (Hge : forall i r x, nth_error (rds st) i = Some r -> r_waiting r = Some x -> n_sent st <= x).
  { intros i0 r0 x0 Hi0 Hw0. pose proof (Hno _ _ _ Hi0 Hw0) as Hh.
    pose proof (J_MB _ _ _ HJ) as HM. rewrite (has_box _ _ _ HM) in Hh.
    destruct HM as (_ & _ & HR & _). destruct (HR _ _ Hi0) as [_ Hpc].
    assert (Hx : r_nread r0 = x0).
    { unfold pc_ok in Hpc. destruct (r_pc r0); try (destruct Hpc as (_ & _ & Hn & _); congruence);
        try (destruct Hpc as (_ & Hn & _); congruence).
      destruct Hpc as (E1 & _ & E2 & _). congruence. }
    pose proof (min_nread_le _ _ _ Hi0).
    apply andb_false_iff in Hh. destruct Hh as [Hh|Hh].
    - apply Nat.leb_gt in Hh. lia.
    - apply Nat.ltb_ge in Hh. exact Hh. }
  split.
  - exists i, r, x. repeat split; eauto.
  - intros i0 r0 x0 Hi0 Hw0. split; eauto.
Qed.

(* ---------- the gate as it was before ede7cda ---------- *)
(* source d0 -> plugin d1, one saver on d0 (it does not drive in lazy mode), max_messages 3, the consumer
   takes 2 chunks; threads: 0 build:d1, 1 build:d0, 2 save_0:d0, 3 consumer.  The saver never runs.  After
   this schedule build:d0 is at its fetch gate again, chunks 0 and 1 are in the mailbox (the saver has read
   nothing), and build:d1 has been notified of chunk 1 but has not run yet. *)
Definition f1_comps : comps :=
  mkComps [(1, 0); (0, 1)] [mkPlugin [1] [0] None; mkPlugin [0] [] None] [] [(0, 1)] 1.
Definition f1_opts : popts := mkOpts true true 3.
Definition f1_net0 : net := net_of (wire f1_comps f1_opts 2) 12.
Definition f1_sched : list nat := [1; 0; 3; 0; 0; 1; 1; 1; 0; 0; 0; 3; 3; 0; 0; 1; 1].
Definition f1_n : net := match nrun f1_net0 f1_sched with Some n => n | None => f1_net0 end.
Definition box0 (n : net) : config * state :=
  nth 0 (n_boxes n) (mkConfig None false, init (mkConfig None false) [] [] None 0).

Lemma f1_facts :
  nrun f1_net0 f1_sched = Some f1_n /\
  nth_error (n_boxes f1_n) 0 = Some (box0 f1_n) /\
  c_lazy (fst (box0 f1_n)) = true /\ at_gate (s_pc (snd (box0 f1_n))) = true /\
  can_fetch_pinned (snd (box0 f1_n)) = true /\ can_fetch (snd (box0 f1_n)) = false /\
  existsb (fun r => r_drive r && waits_buffered (snd (box0 f1_n)) r) (rds (snd (box0 f1_n))) = true.
Proof. vm_compute. repeat split; reflexivity. Qed.

Global Opaque f1_n f1_net0.

Theorem lazy_gate_pinned_refuted :
  exists (c : comps) (o : popts) (p N : nat) (sched : list nat) (n : net) (cfg : config) (st : state),
    nrun (net_of (wire c o p) N) sched = Some n /\ nth_error (n_boxes n) 0 = Some (cfg, st) /\
    c_lazy cfg = true /\ at_gate (s_pc st) = true /\
    can_fetch_pinned st = true /\ can_fetch st = false /\
    exists i r x, nth_error (rds st) i = Some r /\ r_drive r = true /\ r_waiting r = Some x /\
                  has_msg (box st) x = true.
Proof.
  destruct f1_facts as (A & B & C & D & E & F & G).
  destruct (box0 f1_n) as [cfg st] eqn:E0. cbn [fst snd] in *.
  exists f1_comps, f1_opts, 2, 12, f1_sched, f1_n, cfg, st.
  split; [exact A|]. split; [exact B|]. split; [exact C|]. split; [exact D|]. split; [exact E|]. split; [exact F|].
  apply existsb_nth in G. destruct G as (i & r & Hi & Hr). apply andb_true_iff in Hr. destruct Hr as [H1 H2].
  unfold waits_buffered in H2. destruct (r_waiting r) as [x|] eqn:Ew; [|discriminate].
  exists i, r, x. auto.
Qed.
