(* C13, lazy mode: a source is advanced only on demand.

   lazy_fetch_only_on_demand (every network, every schedule): a lazy (gated) sender takes the next item from
   its iterable only in a step that starts in a state where _can_fetch() is true: a driving subscriber is
   waiting, and no subscriber is waiting for a message number <= the lowest buffered one.
   For a mailbox with a single subscriber that is exactly "the driving subscriber waits for a message that
   has not been produced, and the mailbox is empty".
   With two or more subscribers the literal reading ("nobody waits for a message that is already in the
   mailbox") is FALSE for the code as it is: _can_fetch compares with the lowest buffered number only.
   lazy_fetch_strong_refuted exhibits the schedule (replayed on the real code by harness/props/c13.py). *)
From SV Require Import Base.Prelude Model.Mailbox Model.MailboxNet Model.C13Run
  Proof.MailboxFacts Proof.MailboxProof Proof.MailboxInOrder Proof.MailboxNetLift Proof.MailboxStepFacts
  Proof.MailboxNetFlow Proof.MailboxNetBound.
Local Open Scope nat_scope.

(* ---------- the step that advances a source ---------- *)
Lemma advancing_step n w n' d cfg st st' :
  nstep n w = Some n' ->
  nth_error (n_boxes n) d = Some (cfg, st) -> nth_error (n_boxes n') d = Some (cfg, st') ->
  length (src st') < length (src st) ->
  exists t, step cfg st t = Some st'.
Proof.
  intros Hs Hd Hd' Hlt. apply nstep_inv in Hs.
  destruct Hs as (th & th' & d0 & t & cfg0 & st0 & st0' & _ & _ & Hd0 & Hst & Eb & _).
  rewrite Eb in Hd'. destruct (Nat.eq_dec d0 d) as [->|Hne].
  - rewrite nth_error_upd_eq in Hd' by (eapply nth_lt; eauto). rewrite Hd in Hd0.
    inversion Hd0; subst. inversion Hd'; subst. eauto.
  - rewrite nth_error_upd_neq in Hd' by auto. rewrite Hd in Hd'. inversion Hd'; subst. lia.
Qed.

Theorem lazy_fetch_only_on_demand n0 sched n w n' :
  nrun n0 sched = Some n -> nstep n w = Some n' ->
  forall d cfg st st',
    nth_error (n_boxes n) d = Some (cfg, st) -> nth_error (n_boxes n') d = Some (cfg, st') ->
    c_lazy cfg = true -> length (src st') < length (src st) ->
    at_gate (s_pc st) = true /\ can_fetch st = true.
Proof.
  intros _ Hs d cfg st st' Hd Hd' Hl Hlt.
  destruct (advancing_step _ _ _ _ _ _ _ Hs Hd Hd' Hlt) as (t & Ht).
  destruct (lazy_step_src _ _ _ _ Hl Ht Hlt) as (_ & A & B). auto.
Qed.

(* ---------- what _can_fetch() = True means when nothing was killed ---------- *)
Lemma existsb_nth {A} (f : A -> bool) l : existsb f l = true -> exists i x, nth_error l i = Some x /\ f x = true.
Proof.
  intros H. apply existsb_exists in H. destruct H as (x & Hin & Hf).
  apply In_nth_error in Hin. destruct Hin as (i & Hi). eauto.
Qed.

Lemma can_fetch_spec st :
  killed st = false -> can_fetch st = true ->
  (exists i r x, nth_error (rds st) i = Some r /\ r_drive r = true /\ r_waiting r = Some x) /\
  (forall lo m t, box st = (lo, m) :: t ->
     forall i r x, nth_error (rds st) i = Some r -> r_waiting r = Some x -> lo < x).
Proof.
  intros Hk Hc. unfold can_fetch in Hc. rewrite Hk in Hc.
  assert (Hd : existsb drives (rds st) = true).
  { destruct (box st) as [|[lo m] t]; auto. destruct (existsb (waits_le lo) (rds st)); [discriminate|auto]. }
  split.
  - apply existsb_nth in Hd. destruct Hd as (i & r & Hi & Hr). unfold drives in Hr.
    apply andb_true_iff in Hr. destruct Hr as [H1 H2]. destruct (r_waiting r) as [x|] eqn:E; [|discriminate]. eauto 8.
  - intros lo m t Hb i r x Hi Hw. rewrite Hb in Hc.
    destruct (existsb (waits_le lo) (rds st)) eqn:E; [discriminate|].
    destruct (Nat.lt_ge_cases lo x) as [|Hge]; auto. exfalso.
    assert (existsb (waits_le lo) (rds st) = true); [|congruence].
    apply existsb_exists. exists r. split; [eapply nth_error_In; eauto|].
    unfold waits_le. rewrite Hw. apply Nat.leb_le. exact Hge.
Qed.

(* in a network without failures: the explicit form *)
Theorem lazy_fetch_demand_explicit N n0 sched n w n' :
  all_boxes (J N) (n_boxes n0) -> nrun n0 sched = Some n -> nstep n w = Some n' ->
  forall d cfg st st',
    nth_error (n_boxes n) d = Some (cfg, st) -> nth_error (n_boxes n') d = Some (cfg, st') ->
    c_lazy cfg = true -> length (src st') < length (src st) ->
    (exists i r x, nth_error (rds st) i = Some r /\ r_drive r = true /\ r_waiting r = Some x) /\
    (forall lo m t, box st = (lo, m) :: t ->
       forall i r x, nth_error (rds st) i = Some r -> r_waiting r = Some x -> lo < x).
Proof.
  intros H0 Hrun Hs d cfg st st' Hd Hd' Hl Hlt.
  destruct (lazy_fetch_only_on_demand _ _ _ _ _ Hrun Hs _ _ _ _ Hd Hd' Hl Hlt) as [_ Hc].
  assert (HJ : all_boxes (J N) (n_boxes n)) by (eapply lift; eauto using J_step).
  apply can_fetch_spec; auto. apply (J_not_killed _ _ _ (HJ _ _ _ Hd)).
Qed.

(* a mailbox with one subscriber: the advance happens while that (driving) subscriber waits for the very
   next message, which has not been sent, and the mailbox is empty *)
Theorem lazy_fetch_single_subscriber N n0 sched n w n' :
  all_boxes (J N) (n_boxes n0) -> nrun n0 sched = Some n -> nstep n w = Some n' ->
  forall d cfg st st' r,
    nth_error (n_boxes n) d = Some (cfg, st) -> nth_error (n_boxes n') d = Some (cfg, st') ->
    c_lazy cfg = true -> length (src st') < length (src st) -> rds st = [r] ->
    r_drive r = true /\ r_waiting r = Some (n_sent st) /\ box st = [] /\
    forall x, r_waiting r = Some x -> has_msg (box st) x = false.
Proof.
  intros H0 Hrun Hs d cfg st st' r Hd Hd' Hl Hlt Hr.
  destruct (lazy_fetch_demand_explicit N _ _ _ _ _ H0 Hrun Hs _ _ _ _ Hd Hd' Hl Hlt) as [(i & r0 & x & Hi & Hdr & Hw) Hlo].
  assert (HJ : J N cfg st) by (eapply (lift (J N) n0 sched n); eauto using J_step).
  rewrite Hr in Hi. destruct i as [|i]; [|destruct i; discriminate]. cbn in Hi. inversion Hi; subst r0.
  pose proof (J_MB _ _ _ HJ) as HM. pose proof HM as (HB & _ & HR & _).
  assert (Hr0 : nth_error (rds st) 0 = Some r) by (rewrite Hr; reflexivity).
  destruct (HR _ _ Hr0) as [Hle Hpc].
  assert (Hx : r_nread r = x).
  { unfold pc_ok in Hpc. destruct (r_pc r); try (destruct Hpc as (_ & _ & Hn & _); congruence);
      try (destruct Hpc as (_ & Hn & _); congruence).
    destruct Hpc as (E1 & _ & E2 & _). congruence. }
  assert (Hmin : min_nread (rds st) = x) by (rewrite Hr; cbn; exact Hx).
  assert (Hbox : box st = []).
  { destruct (box st) as [|[lo m] t] eqn:Eb; auto. exfalso.
    pose proof (box_hd _ _ _ _ _ HM Eb) as Elo. specialize (Hlo _ _ _ eq_refl 0 r x Hr0 Hw). lia. }
  pose proof (J_box_len _ _ _ HJ) as Hlen. rewrite Hbox in Hlen. cbn in Hlen.
  pose proof (J_min_le_sent _ _ _ HJ).
  repeat split; auto.
  - rewrite Hw. f_equal. lia.
  - intros y _. rewrite Hbox. reflexivity.
Qed.

(* ---------- the literal reading fails with a second, slower subscriber ---------- *)
(* source d0 -> plugin d1, one saver on d0 (it does not drive in lazy mode), max_messages 3, the consumer
   takes 2 chunks; threads: 0 build:d1, 1 build:d0, 2 save_0:d0, 3 consumer.  The saver never runs. *)
Definition f1_comps : comps :=
  mkComps [(1, 0); (0, 1)] [mkPlugin [1] [0] None; mkPlugin [0] [] None] [] [(0, 1)] 1.
Definition f1_opts : popts := mkOpts true true 3.
Definition f1_net0 : net := net_of (wire f1_comps f1_opts 2) 12.
Definition f1_sched : list nat := [1; 0; 3; 0; 0; 1; 1; 1; 0; 0; 0; 3; 3; 0; 0; 1; 1].
Definition f1_n : net := match nrun f1_net0 f1_sched with Some n => n | None => f1_net0 end.
Definition f1_n' : net := match nstep f1_n 1 with Some n => n | None => f1_n end.
Definition box0 (n : net) : config * state :=
  nth 0 (n_boxes n) (mkConfig None false, init (mkConfig None false) [] [] None 0).

Definition strong_demand_violated (st : state) : bool := existsb (waits_present st) (rds st).

Lemma f1_facts :
  nrun f1_net0 f1_sched = Some f1_n /\ nstep f1_n 1 = Some f1_n' /\
  nth_error (n_boxes f1_n) 0 = Some (box0 f1_n) /\ nth_error (n_boxes f1_n') 0 = Some (box0 f1_n') /\
  fst (box0 f1_n') = fst (box0 f1_n) /\
  c_lazy (fst (box0 f1_n)) = true /\
  (length (src (snd (box0 f1_n'))) <? length (src (snd (box0 f1_n)))) = true /\
  strong_demand_violated (snd (box0 f1_n)) = true /\
  can_fetch (snd (box0 f1_n)) = true.
Proof. vm_compute. repeat split; reflexivity. Qed.

Global Opaque f1_n f1_n' f1_net0.

Theorem lazy_fetch_strong_refuted :
  exists (c : comps) (o : popts) (p N : nat) (sched : list nat) (w : nat) (n n' : net)
         (cfg : config) (st st' : state),
    nrun (net_of (wire c o p) N) sched = Some n /\ nstep n w = Some n' /\
    nth_error (n_boxes n) 0 = Some (cfg, st) /\ nth_error (n_boxes n') 0 = Some (cfg, st') /\
    c_lazy cfg = true /\ length (src st') < length (src st) /\
    exists i r x, nth_error (rds st) i = Some r /\ r_waiting r = Some x /\ has_msg (box st) x = true.
Proof.
  destruct f1_facts as (A & B & C & D & E & F & G & H & _).
  destruct (box0 f1_n) as [cfg st] eqn:E0. destruct (box0 f1_n') as [cfg' st'] eqn:E1.
  cbn [fst snd] in E, F, G, H. subst cfg'.
  exists f1_comps, f1_opts, 2, 12, f1_sched, 1, f1_n, f1_n', cfg, st, st'.
  split; [exact A|]. split; [exact B|]. split; [exact C|]. split; [exact D|]. split; [exact F|].
  split; [apply Nat.ltb_lt; exact G|].
  unfold strong_demand_violated in H. apply existsb_nth in H. destruct H as (i & r & Hi & Hr).
  unfold waits_present in Hr. destruct (r_waiting r) as [x|] eqn:Ew; [|discriminate].
  exists i, r, x. auto.
Qed.
