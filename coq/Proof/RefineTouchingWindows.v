(* Refinement: the MiniPy program regenerated from strax/processing/general.py::_touching_windows
   (Gen/TouchingWindows.v), run on the columns of `things` and `cs` with kind = "mergesort",
   returns the (len(cs), 2) matrix whose rows are the pairs computed by
   Model/Intervals.v: touching_windows_core things cs w 0 -- for every input, given
   fuel > len(things) for the two inner `while` loops.

   stable_argsort is a MiniPy primitive with specified semantics (indices ordered by key, ties in
   index order); it is shown equal to the model's `sort_by snd (index_list keys)`. *)
From Coq Require Import String Permutation.
From SV Require Import Lang.MiniPy Gen.TouchingWindows Model.Intervals Proof.IntervalsSort.

Definition P := touching_windows_prog.
Definition tw_names : list str := Eval vm_compute in env_names P.
Definition tw_body1 : stmt := Eval vm_compute in nth_for_body 0 (fbody P).
Definition tw_body2 : stmt := Eval vm_compute in nth_for_body 1 (fbody P).
Definition tw_i1 : str := Eval vm_compute in nth 0 (nth_for_targets 0 (fbody P)) EmptyString.
Definition tw_t0 : str := Eval vm_compute in nth 1 (nth_for_targets 0 (fbody P)) EmptyString.
Definition tw_i2 : str := Eval vm_compute in nth 0 (nth_for_targets 1 (fbody P)) EmptyString.
Definition tw_cond1 : expr := Eval vm_compute in nth_while_cond 0 (fbody P).
Definition tw_wbody1 : stmt := Eval vm_compute in nth_while_body 0 (fbody P).
Definition tw_cond2 : expr := Eval vm_compute in nth_while_cond 1 (fbody P).
Definition tw_wbody2 : stmt := Eval vm_compute in nth_while_body 1 (fbody P).

(* thing_start, thing_end, container_start, container_end, window, endtime_sort_kind, n,
   container_end_argsort, left_i, right_i, result, i, t0, t1 *)
Definition tw_env (things cs : list row) (w : Z) (ord : val) (li ri : nat) (M : list (list Z))
           (iv t0v t1v : val) : env :=
  mk_env tw_names [VInts (map rt things); VInts (map re things); VInts (map rt cs); VInts (map re cs);
                   VInt w; VStr mergesort_name; VInt (len_z (map rt things)); ord;
                   VInt (Z.of_nat li); VInt (Z.of_nat ri); VMat M; iv; t0v; t1v].

(* ---- the primitive's specification is the model's argsort ---- *)

Lemma as_ins_ins_by x l : as_ins x l = ins_by snd x l.
Proof. induction l as [|y l IH]; cbn [as_ins ins_by]; [reflexivity|]. rewrite IH. reflexivity. Qed.

Lemma argsort_pairs_model keys : argsort_pairs keys = sort_by snd (index_list keys).
Proof.
  unfold argsort_pairs, sort_by, index_list.
  induction (combine (seq 0 (length keys)) keys) as [|x l IH]; cbn [fold_right]; [reflexivity|].
  rewrite IH. apply as_ins_ins_by.
Qed.

(* ---- the two inner while loops ---- *)

Lemma tw_cond1_eval tpre trest cs w ord ri M iv t0 t1v :
  eval_test tw_cond1 (tw_env (tpre ++ trest) cs w ord (length tpre) ri M iv (VInt t0) t1v) =
  Some (match trest with [] => false | q :: _ => re q <=? t0 - w end).
Proof.
  unfold tw_cond1, tw_env, tw_names. mp_eval.
  rewrite len_z_map, len_z_app.
  destruct trest as [|q trest].
  - rewrite len_z_nil. replace (Z.of_nat (length tpre) <=? len_z tpre + 0 - 1) with false by (unfold len_z; lia).
    reflexivity.
  - replace (Z.of_nat (length tpre) <=? len_z tpre + len_z (q :: trest) - 1) with true
      by (rewrite len_z_cons; pose proof (len_z_nonneg trest); unfold len_z in *; lia).
    rewrite idx_map_app_mid. reflexivity.
Qed.

Lemma tw_while1 things cs w ord ri M iv t0 t1v : forall trest tpre fuel fuel',
  things = tpre ++ trest -> (length trest < fuel)%nat ->
  iter_while fuel tw_cond1 (exec fuel' tw_wbody1) (tw_env things cs w ord (length tpre) ri M iv (VInt t0) t1v) =
  ONormal (tw_env things cs w ord (snd (tw_adv_left trest (length tpre) (t0 - w))) ri M iv (VInt t0) t1v).
Proof.
  induction trest as [|q trest IH]; intros tpre fuel fuel' Ht Hf;
    (destruct fuel as [|fuel]; [cbn [length] in Hf; lia|]); rewrite iter_while_S; subst things; rewrite tw_cond1_eval.
  - reflexivity.
  - cbn [tw_adv_left]. destruct (re q <=? t0 - w).
    + unfold tw_wbody1, tw_env, tw_names. mp_eval. mp_steps.
      replace (Z.of_nat (length tpre) + 1) with (Z.of_nat (length (tpre ++ [q])))
        by (rewrite app_length; cbn [length]; lia).
      specialize (IH (tpre ++ [q]) fuel fuel').
      unfold tw_wbody1, tw_env, tw_names in IH. mp_eval_in IH.
      replace (S (length tpre)) with (length (tpre ++ [q])) by (rewrite app_length; cbn [length]; lia).
      apply IH; [rewrite <- app_assoc; reflexivity|cbn [length] in Hf; lia].
    + reflexivity.
Qed.

Lemma tw_cond2_eval tpre trest cs w ord li M iv t0v t1 :
  eval_test tw_cond2 (tw_env (tpre ++ trest) cs w ord li (length tpre) M iv t0v (VInt t1)) =
  Some (match trest with [] => false | q :: _ => rt q <? t1 + w end).
Proof.
  unfold tw_cond2, tw_env, tw_names. mp_eval.
  rewrite len_z_map, len_z_app.
  destruct trest as [|q trest].
  - rewrite len_z_nil. replace (Z.of_nat (length tpre) <=? len_z tpre + 0 - 1) with false by (unfold len_z; lia).
    reflexivity.
  - replace (Z.of_nat (length tpre) <=? len_z tpre + len_z (q :: trest) - 1) with true
      by (rewrite len_z_cons; pose proof (len_z_nonneg trest); unfold len_z in *; lia).
    rewrite idx_map_app_mid. reflexivity.
Qed.

Lemma tw_while2 things cs w ord li M iv t0v t1 : forall trest tpre fuel fuel',
  things = tpre ++ trest -> (length trest < fuel)%nat ->
  iter_while fuel tw_cond2 (exec fuel' tw_wbody2) (tw_env things cs w ord li (length tpre) M iv t0v (VInt t1)) =
  ONormal (tw_env things cs w ord li (snd (tw_adv_right trest (length tpre) (t1 + w))) M iv t0v (VInt t1)).
Proof.
  induction trest as [|q trest IH]; intros tpre fuel fuel' Ht Hf;
    (destruct fuel as [|fuel]; [cbn [length] in Hf; lia|]); rewrite iter_while_S; subst things; rewrite tw_cond2_eval.
  - reflexivity.
  - cbn [tw_adv_right]. destruct (rt q <? t1 + w).
    + unfold tw_wbody2, tw_env, tw_names. mp_eval. mp_steps.
      replace (Z.of_nat (length tpre) + 1) with (Z.of_nat (length (tpre ++ [q])))
        by (rewrite app_length; cbn [length]; lia).
      specialize (IH (tpre ++ [q]) fuel fuel').
      unfold tw_wbody2, tw_env, tw_names in IH. mp_eval_in IH.
      replace (S (length tpre)) with (length (tpre ++ [q])) by (rewrite app_length; cbn [length]; lia).
      apply IH; [rewrite <- app_assoc; reflexivity|cbn [length] in Hf; lia].
    + reflexivity.
Qed.

(* the advancing scans return a suffix and the matching index *)
Lemma tw_adv_left_split : forall trest li b,
  exists mid, trest = mid ++ fst (tw_adv_left trest li b) /\ snd (tw_adv_left trest li b) = (li + length mid)%nat.
Proof.
  induction trest as [|q trest IH]; intros li b; cbn [tw_adv_left].
  - exists []. split; [reflexivity|cbn [length snd]; lia].
  - destruct (re q <=? b).
    + destruct (IH (S li) b) as (mid & H1 & H2). exists (q :: mid). split.
      * cbn [app]. rewrite <- H1. reflexivity.
      * rewrite H2. cbn [length]. lia.
    + exists []. split; [reflexivity|cbn [length snd]; lia].
Qed.

Lemma tw_adv_right_split : forall trest ri b,
  exists mid, trest = mid ++ fst (tw_adv_right trest ri b) /\ snd (tw_adv_right trest ri b) = (ri + length mid)%nat.
Proof.
  induction trest as [|q trest IH]; intros ri b; cbn [tw_adv_right].
  - exists []. split; [reflexivity|cbn [length snd]; lia].
  - destruct (rt q <? b).
    + destruct (IH (S ri) b) as (mid & H1 & H2). exists (q :: mid). split.
      * cbn [app]. rewrite <- H1. reflexivity.
      * rewrite H2. cbn [length]. lia.
    + exists []. split; [reflexivity|cbn [length snd]; lia].
Qed.

(* ---- the result matrix ---- *)

Definition mat_of (Pm : list (nat * nat)) : list (list Z) :=
  map (fun p => [Z.of_nat (fst p); Z.of_nat (snd p)]) Pm.

Definition zrow : list Z := [0; 0].

(* ---- first loop ---- *)

Lemma tw_step1 fuel tpre trest cs w ord ri ldone mrest iv t0v t1v c :
  (length trest < fuel)%nat ->
  let things := tpre ++ trest in
  exec fuel tw_body1
       (bind_all (tw_env things cs w ord (length tpre) ri (mat_of ldone ++ zrow :: mrest) iv t0v t1v)
                 [(tw_i1, zi (length ldone)); (tw_t0, VInt c)]) =
  let li' := snd (tw_adv_left trest (length tpre) (c - w)) in
  ONormal (tw_env things cs w ord li' ri (mat_of (ldone ++ [(li', 0%nat)]) ++ mrest)
                  (zi (length ldone)) (VInt c) t1v).
Proof.
  intros Hf things.
  pose proof (tw_while1 things cs w ord ri (mat_of ldone ++ zrow :: mrest) (zi (length ldone)) c t1v
                        trest tpre fuel fuel eq_refl Hf) as Hw.
  unfold tw_body1, tw_cond1, tw_wbody1, tw_env, tw_names, tw_i1, tw_t0 in *. mp_eval_in Hw. mp_eval.
  mp_step. mp_step. rewrite Hw. clear Hw. mp_steps.
  replace (Z.of_nat (length ldone)) with (Z.of_nat (length (mat_of ldone))) by (unfold mat_of; rewrite map_length; reflexivity).
  unfold zrow.
  rewrite (set_idx2_app_mid (mat_of ldone) mrest [] 0 [0]).
  unfold mat_of at 3. rewrite map_app, <- app_assoc. reflexivity.
Qed.

Lemma tw_loop1 fuel things cs w ord ri t1v : forall crest tpre trest ldone iv t0v,
  things = tpre ++ trest -> (length trest < fuel)%nat ->
  exists li' iv' t0v',
    iter_list (exec fuel tw_body1) (enum_binds tw_i1 tw_t0 (length ldone) (map VInt (map rt crest)))
              (tw_env things cs w ord (length tpre) ri (mat_of ldone ++ repeat zrow (length crest)) iv t0v t1v) =
    ONormal (tw_env things cs w ord li' ri
                    (mat_of (ldone ++ map (fun l => (l, 0%nat)) (tw_left trest (length tpre) w crest)))
                    iv' t0v' t1v).
Proof.
  induction crest as [|c crest IH]; intros tpre trest ldone iv t0v Ht Hf.
  - exists (length tpre), iv, t0v. cbn [map tw_left length repeat]. rewrite !app_nil_r. reflexivity.
  - cbn [map length repeat]. rewrite enum_binds_cons, iter_list_cons. subst things.
    rewrite (tw_step1 fuel tpre trest cs w ord ri ldone (repeat zrow (length crest)) iv t0v t1v (rt c) Hf).
    cbv zeta. cbn [tw_left].
    destruct (tw_adv_left_split trest (length tpre) (rt c - w)) as (mid & Hmid & Hli).
    destruct (tw_adv_left trest (length tpre) (rt c - w)) as [th' li'] eqn:Eadv. cbn [fst snd] in *.
    specialize (IH (tpre ++ mid) th' (ldone ++ [(li', 0%nat)]) (zi (length ldone)) (VInt (rt c))).
    destruct IH as (li2 & iv2 & t0v2 & IH).
    + rewrite Hmid at 1. rewrite app_assoc. reflexivity.
    + assert (length trest = length mid + length th')%nat by (rewrite Hmid at 1; apply app_length). lia.
    + exists li2, iv2, t0v2.
      rewrite !app_length in IH. cbn [length] in IH. rewrite Nat.add_1_r in IH.
      rewrite <- Hli in IH. rewrite <- !app_assoc in IH. cbn [app] in IH. exact IH.
Qed.

(* ---- second loop ---- *)

Fixpoint set_snd (Pm : list (nat * nat)) (i v : nat) : list (nat * nat) :=
  match Pm, i with
  | [], _ => []
  | (a, _) :: r, O => (a, v) :: r
  | p :: r, S i' => p :: set_snd r i' v
  end.

Lemma set_snd_app_mid P1 a b P2 v : set_snd (P1 ++ (a, b) :: P2) (length P1) v = P1 ++ (a, v) :: P2.
Proof. induction P1 as [|[x y] P1 IH]; cbn [app length set_snd]; [reflexivity|]. rewrite IH. reflexivity. Qed.

Lemma nth_error_set_snd : forall Pm i v k,
  nth_error (set_snd Pm i v) k =
  if Nat.eqb i k then option_map (fun p => (fst p, v)) (nth_error Pm k) else nth_error Pm k.
Proof.
  induction Pm as [|[a b] Pm IH]; intros i v k.
  - destruct i, k; cbn [set_snd nth_error option_map]; destruct (Nat.eqb _ _); reflexivity.
  - destruct i as [|i], k as [|k]; cbn [set_snd nth_error Nat.eqb option_map fst]; try reflexivity. apply IH.
Qed.

Lemma tw_step2 fuel tpre trest cs w ord li P1 a b P2 iv t0v t1v t1 :
  (length trest < fuel)%nat ->
  nth_error (map re cs) (length P1) = Some t1 ->
  let things := tpre ++ trest in
  exec fuel tw_body2
       (bind_all (tw_env things cs w ord li (length tpre) (mat_of (P1 ++ (a, b) :: P2)) iv t0v t1v)
                 [(tw_i2, VInt (Z.of_nat (length P1)))]) =
  let ri' := snd (tw_adv_right trest (length tpre) (t1 + w)) in
  ONormal (tw_env things cs w ord li ri' (mat_of (P1 ++ (a, ri') :: P2)) (VInt (Z.of_nat (length P1))) t0v (VInt t1)).
Proof.
  intros Hf Hnth things.
  pose proof (tw_while2 things cs w ord li (mat_of (P1 ++ (a, b) :: P2)) (VInt (Z.of_nat (length P1))) t0v t1
                        trest tpre fuel fuel eq_refl Hf) as Hw.
  unfold tw_body2, tw_cond2, tw_wbody2, tw_env, tw_names, tw_i2 in *. mp_eval_in Hw. mp_eval.
  mp_step. mp_step. rewrite (idx_nth_error _ _ _ Hnth). mp_steps.
  rewrite Hw. clear Hw. mp_steps.
  unfold mat_of. rewrite !map_app. cbn [map fst snd].
  replace (Z.of_nat (length P1)) with (Z.of_nat (length (map (fun p : nat * nat => [Z.of_nat (fst p); Z.of_nat (snd p)]) P1)))
    by (rewrite map_length; reflexivity).
  rewrite (set_idx2_app_mid _ _ [Z.of_nat a] (Z.of_nat b) []). reflexivity.
Qed.

(* the order list: indices in range, keys read from the array *)
Definition order_ok (cs : list row) (n : nat) (order : list (nat * Z)) : Prop :=
  Forall (fun p => nth_error (map re cs) (fst p) = Some (snd p) /\ (fst p < n)%nat) order.

Fixpoint apply_rights (Pm : list (nat * nat)) (rights : list (nat * nat)) : list (nat * nat) :=
  match rights with
  | [] => Pm
  | (i, v) :: rest => apply_rights (set_snd Pm i v) rest
  end.

Lemma tw_loop2 fuel things cs w ordv li t0v : forall order tpre trest Pm iv t1v,
  things = tpre ++ trest -> (length trest < fuel)%nat ->
  order_ok cs (length Pm) order ->
  exists ri' iv' t1v',
    iter_list (exec fuel tw_body2) (in_binds tw_i2 (map VInt (map (fun p => Z.of_nat (fst p)) order)))
              (tw_env things cs w ordv li (length tpre) (mat_of Pm) iv t0v t1v) =
    ONormal (tw_env things cs w ordv li ri' (mat_of (apply_rights Pm (tw_right trest (length tpre) w order)))
                    iv' t0v t1v').
Proof.
  induction order as [|[i t1] order IH]; intros tpre trest Pm iv t1v Ht Hf Hok.
  - exists (length tpre), iv, t1v. reflexivity.
  - inversion Hok as [|? ? [Hnth Hlt] Hok']; subst. cbn [fst snd] in *.
    cbn [map fst]. rewrite in_binds_cons, iter_list_cons.
    destruct (nth_error Pm i) as [[a b]|] eqn:E; [|apply nth_error_None in E; lia].
    apply nth_error_split in E. destruct E as (P1 & P2 & HP & HlenP1). subst Pm i.
    rewrite (tw_step2 fuel tpre trest cs w ordv li P1 a b P2 iv t0v t1v t1 Hf Hnth). cbv zeta.
    cbn [tw_right].
    destruct (tw_adv_right_split trest (length tpre) (t1 + w)) as (mid & Hmid & Hri).
    destruct (tw_adv_right trest (length tpre) (t1 + w)) as [th' ri'] eqn:Eadv. cbn [fst snd] in *.
    cbn [apply_rights]. rewrite set_snd_app_mid.
    specialize (IH (tpre ++ mid) th' (P1 ++ (a, ri') :: P2) (VInt (Z.of_nat (length P1))) (VInt t1)).
    destruct IH as (ri2 & iv2 & t1v2 & IH).
    + rewrite Hmid at 1. rewrite app_assoc. reflexivity.
    + assert (length trest = length mid + length th')%nat by (rewrite Hmid at 1; apply app_length). lia.
    + unfold order_ok in *. rewrite app_length in *. cbn [length] in *. exact Hok'.
    + exists ri2, iv2, t1v2.
      rewrite app_length in IH. rewrite <- Hri in IH. exact IH.
Qed.

(* ---- the fold of the second loop is the model's lookup ---- *)

Lemma nth_error_ext' {A} : forall (l1 l2 : list A), (forall k, nth_error l1 k = nth_error l2 k) -> l1 = l2.
Proof.
  induction l1 as [|x l1 IH]; intros [|y l2] H.
  - reflexivity.
  - specialize (H 0%nat). discriminate.
  - specialize (H 0%nat). discriminate.
  - pose proof (H 0%nat) as H0. cbn in H0. injection H0 as ->. f_equal. apply IH.
    intros k. exact (H (S k)).
Qed.

Lemma apply_rights_nth : forall rights Pm k,
  NoDup (map fst rights) ->
  nth_error (apply_rights Pm rights) k =
  option_map (fun p => (fst p, match find (fun q => Nat.eqb (fst q) k) rights with
                               | Some q => snd q | None => snd p end)) (nth_error Pm k).
Proof.
  induction rights as [|[i v] rights IH]; intros Pm k Hnd.
  - cbn [apply_rights find]. destruct (nth_error Pm k) as [[a b]|]; reflexivity.
  - cbn [apply_rights find fst]. cbn [map fst] in Hnd. inversion Hnd as [|? ? Hni Hnd']; subst.
    rewrite IH by exact Hnd'. rewrite nth_error_set_snd.
    destruct (Nat.eqb i k) eqn:E.
    + apply Nat.eqb_eq in E. subst k.
      assert (Hf : find (fun q : nat * nat => Nat.eqb (fst q) i) rights = None).
      { destruct (find (fun q : nat * nat => Nat.eqb (fst q) i) rights) as [q|] eqn:F; [|reflexivity].
        apply find_some in F. destruct F as [F1 F2]. apply Nat.eqb_eq in F2. exfalso. apply Hni.
        rewrite <- F2. apply in_map. exact F1. }
      rewrite Hf. destruct (nth_error Pm i) as [[a b]|]; reflexivity.
    + reflexivity.
Qed.

Lemma nth_error_index_list {A} : forall (l : list A) s k,
  nth_error (combine (seq s (length l)) l) k = option_map (fun x => ((s + k)%nat, x)) (nth_error l k).
Proof.
  induction l as [|x l IH]; intros s [|k]; cbn [length seq combine nth_error option_map]; auto.
  - rewrite Nat.add_0_r. reflexivity.
  - rewrite IH. replace (S s + k)%nat with (s + S k)%nat by lia. reflexivity.
Qed.

Lemma apply_rights_model lefts rights :
  NoDup (map fst rights) ->
  apply_rights (map (fun l => (l, 0%nat)) lefts) rights =
  map (fun p => (snd p, lookup_nat (fst p) rights)) (index_list lefts).
Proof.
  intros Hnd. apply nth_error_ext'. intros k.
  rewrite apply_rights_nth by exact Hnd. unfold index_list.
  rewrite !nth_error_map, nth_error_index_list. unfold lookup_nat.
  destruct (nth_error lefts k) as [l|]; reflexivity.
Qed.

Lemma tw_right_fst : forall order trest ri w, map fst (tw_right trest ri w order) = map fst order.
Proof.
  induction order as [|[i t1] order IH]; intros trest ri w; cbn [tw_right map fst]; [reflexivity|].
  destruct (tw_adv_right trest ri (t1 + w)) as [th' ri']. cbn [map fst]. rewrite IH. reflexivity.
Qed.

Lemma tw_left_length : forall cs trest li w, length (tw_left trest li w cs) = length cs.
Proof.
  induction cs as [|c cs IH]; intros trest li w; cbn [tw_left length]; [reflexivity|].
  destruct (tw_adv_left trest li (rt c - w)) as [th' li']. cbn [length]. rewrite IH. reflexivity.
Qed.

Lemma index_list_ok {A} : forall (l : list A) s,
  Forall (fun p => nth_error l (fst p - s) = Some (snd p) /\ (s <= fst p < s + length l)%nat)
         (combine (seq s (length l)) l).
Proof.
  induction l as [|x l IH]; intros s; cbn [length seq combine]; constructor.
  - cbn [fst snd]. rewrite Nat.sub_diag. split; [reflexivity|lia].
  - eapply Forall_impl; [|apply (IH (S s))]. intros [i v] [H1 H2]. cbn [fst snd] in *.
    split; [|lia]. replace (i - s)%nat with (S (i - S s)) by lia. exact H1.
Qed.

Lemma order_ok_sorted cs : order_ok cs (length cs) (sort_by snd (index_list (map re cs))).
Proof.
  unfold order_ok. eapply Permutation_Forall; [apply sort_by_perm|].
  unfold index_list. eapply Forall_impl; [|apply (index_list_ok (map re cs) 0)].
  intros [i v] [H1 H2]. cbn [fst snd] in *. rewrite Nat.sub_0_r in H1. rewrite map_length in H2. split; [exact H1|lia].
Qed.

Lemma order_nodup cs : NoDup (map fst (sort_by snd (index_list (map re cs)))).
Proof.
  eapply Permutation_NoDup; [apply Permutation_map, sort_by_perm|]. apply index_list_nodup.
Qed.

Definition embed_tw (r : res (list (nat * nat))) : outcome :=
  match r with Ok Pm => OReturn (VMat (mat_of Pm)) | Err _ => OStuck end.

Theorem touching_windows_refines fuel things cs w :
  (length things < fuel)%nat ->
  run fuel touching_windows_prog
      [VInts (map rt things); VInts (map re things); VInts (map rt cs); VInts (map re cs); VInt w;
       VStr mergesort_name]
  = embed_tw (touching_windows_core things cs w 0).
Proof.
  intros Hf.
  unfold run, touching_windows_prog. mp_eval. mp_steps.
  rewrite (len_z_map rt cs). change (len_z cs) with (Z.of_nat (length cs)). change 2 with (Z.of_nat 2). rewrite zeros2_nat. mp_steps.
  destruct (tw_loop1 fuel things cs w (VInts (MiniPy.stable_argsort (map re cs))) 0%nat VUndef
                     cs [] things [] VUndef VUndef eq_refl Hf) as (li' & iv' & t0v' & H1).
  unfold tw_env, tw_names, tw_i1, tw_t0, tw_body1 in H1. mp_eval_in H1. cbn [app length] in H1. change (mat_of []) with (@nil (list Z)) in H1. cbn [app] in H1.
  change (Z.of_nat 0) with 0 in H1. unfold zrow in H1. cbn [repeat] in *.
  rewrite H1. clear H1. mp_steps.
  unfold MiniPy.stable_argsort. rewrite argsort_pairs_model.
  set (lefts := tw_left things 0 w cs).
  set (order := sort_by snd (index_list (map re cs))).
  destruct (tw_loop2 fuel things cs w (VInts (map (fun p : nat * Z => Z.of_nat (fst p)) order)) li' t0v'
                     order [] things (map (fun l => (l, 0%nat)) lefts) iv' VUndef eq_refl Hf) as (ri' & iv2 & t1v' & H2).
  { rewrite map_length. unfold lefts. rewrite tw_left_length. apply order_ok_sorted. }
  unfold tw_env, tw_names, tw_i2, tw_body2 in H2. mp_eval_in H2. cbn [length] in H2.
  change (Z.of_nat 0) with 0 in H2.
    rewrite H2. clear H2. mp_steps.
  unfold touching_windows_core. cbn [Z.eqb negb embed_tw].
  fold lefts. fold order.
  rewrite apply_rights_model; [reflexivity|].
  rewrite tw_right_fst. apply order_nodup.
Qed.

Example touching_windows_prog_runs :
  run 9 touching_windows_prog
      [VInts [0; 3; 6]; VInts [2; 5; 9]; VInts [1; 4]; VInts [4; 7]; VInt 0; VStr mergesort_name]
  = OReturn (VMat [[0; 2]; [1; 3]]).
Proof. vm_compute. reflexivity. Qed.
