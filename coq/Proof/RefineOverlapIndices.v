(* Refinement: the MiniPy program regenerated from strax/processing/general.py::overlap_indices
   (Gen/OverlapIndices.v) computes, for all integers, exactly what Model/Intervals.v:
   overlap_indices computes (the pair of index pairs, or ValueError for a negative length). *)
From Coq Require Import String.
From SV Require Import Lang.MiniPy Gen.OverlapIndices Model.Intervals.

(* Err 6 = ValueError (Model/Intervals.v) *)
Definition embed_oi (r : res ((Z * Z) * (Z * Z))) : outcome :=
  match r with
  | Ok ((sa, ea), (sb, eb)) => OReturn (VTuple [VTuple [VInt sa; VInt ea]; VTuple [VInt sb; VInt eb]])
  | Err c => if c =? 6 then ORaise "ValueError" else OStuck
  end.

Theorem overlap_indices_refines fuel a1 na b1 nb :
  run fuel overlap_indices_prog [VInt a1; VInt na; VInt b1; VInt nb] = embed_oi (overlap_indices a1 na b1 nb).
Proof.
  unfold run, overlap_indices_prog, overlap_indices. mp_eval.
  mp_step. mp_step.
  destruct (na <? 0) eqn:E1; cbn [orb]; mp_eval.
  { mp_steps. reflexivity. }
  destruct (nb <? 0) eqn:E2; mp_steps; [reflexivity|].
  destruct (na =? 0) eqn:E3; cbn [orb]; mp_eval.
  { mp_steps. reflexivity. }
  destruct (nb =? 0) eqn:E4; mp_steps; [reflexivity|].
  destruct (a1 - b1 <=? - na) eqn:E5; mp_steps; [reflexivity|].
  destruct (Z.max 0 (a1 - b1) >=? Z.min nb (a1 - b1 + na)) eqn:E6; mp_steps; reflexivity.
Qed.

Example overlap_indices_prog_runs :
  run 0 overlap_indices_prog [VInt 3; VInt 5; VInt 6; VInt 4]
    = OReturn (VTuple [VTuple [VInt 3; VInt 5]; VTuple [VInt 0; VInt 2]])
  /\ run 0 overlap_indices_prog [VInt 3; VInt (-1); VInt 6; VInt 4] = ORaise "ValueError".
Proof. vm_compute. split; reflexivity. Qed.
