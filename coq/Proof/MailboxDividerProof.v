(* divide_outputs (Model/MailboxDivider.v): every run of the divider system projects, mailbox by mailbox,
   onto a run of the single-mailbox LTS, so delivery safety, the capacity bound and the no-lost-wake-up
   invariant hold for every target mailbox of a divider, for all schedules. *)
From SV Require Import Base.Prelude Model.Mailbox Model.MailboxDivider
  Proof.MailboxFacts Proof.MailboxProof Proof.MailboxInOrder.
Local Open Scope nat_scope.

Lemma run_snoc cfg st0 sched c t c' :
  run cfg st0 sched = Some c -> step cfg c t = Some c' -> run cfg st0 (sched ++ [t]) = Some c'.
Proof. intros H1 H2. rewrite run_app, H1. cbn [run]. now rewrite H2. Qed.

Section Divider.
Variable dc : dconfig.
Variable subs : list (list bool).
Variable comps : list (list msg).
Variable ndicts : nat.

(* component j is a reachable state of the single-mailbox system of mailbox j *)
Definition comp_reach (j : nat) (c : state) : Prop :=
  exists dr ms sched, nth_error subs j = Some dr /\ nth_error comps j = Some ms /\
    run (cfg_of dc j) (init (cfg_of dc j) dr (source_of ms) None 0) sched = Some c.

Definition all_reach (ds : dstate) : Prop :=
  forall j c, nth_error (d_mbs ds) j = Some c -> comp_reach j c.

Lemma init_mbs_nth k sb cp j c :
  nth_error (init_mbs dc k sb cp) j = Some c ->
  exists dr ms, nth_error sb j = Some dr /\ nth_error cp j = Some ms /\
    c = init (cfg_of dc (k + j)) dr (source_of ms) None 0.
Proof.
  revert k cp j; induction sb as [|dr sb IH]; intros k cp j H; cbn [init_mbs] in H.
  - destruct j; discriminate.
  - destruct cp as [|ms cp]; [destruct j; discriminate|].
    destruct j as [|j]; cbn [nth_error] in *.
    + inversion H. exists dr, ms. rewrite Nat.add_0_r. auto.
    + apply IH in H. destruct H as (dr' & ms' & H1 & H2 & H3).
      exists dr', ms'. repeat split; auto. rewrite H3. f_equal; f_equal; lia.
Qed.

Lemma all_reach_init : all_reach (dinit dc subs comps ndicts).
Proof.
  unfold dinit. destruct (after_gates dc (length (init_mbs dc 0 subs comps)) 0 ndicts) as [pc lft].
  intros j c Hj. cbn [d_mbs] in Hj. apply init_mbs_nth in Hj. destruct Hj as (dr & ms & H1 & H2 & ->).
  exists dr, ms, []. repeat split; auto.
Qed.

Lemma all_reach_upd ds j c c' t mbs pc lft :
  all_reach ds -> nth_error (d_mbs ds) j = Some c -> step (cfg_of dc j) c t = Some c' ->
  mbs = upd j c' (d_mbs ds) -> all_reach (mkD mbs pc lft).
Proof.
  intros HA Hj Hs -> k x Hk. cbn [d_mbs] in Hk. apply nth_error_upd in Hk.
  destruct Hk as [(-> & -> & _)|(_ & Hk)].
  - destruct (HA _ _ Hj) as (dr & ms & sched & H1 & H2 & H3).
    exists dr, ms, (sched ++ [t]). repeat split; auto. eapply run_snoc; eauto.
  - apply (HA _ _ Hk).
Qed.

Lemma sender_step_is_step cfg c : sender_enabled c = true -> step cfg c TS = Some (sender_step cfg c).
Proof. intros H. unfold step. cbn [enabled]. now rewrite H. Qed.

Lemma all_reach_step ds t ds' : all_reach ds -> dstep dc ds t = Some ds' -> all_reach ds'.
Proof.
  intros HA Hs. unfold dstep in Hs. destruct (denabled ds t) eqn:En; try discriminate.
  destruct t as [|j i].
  - (* the divider *)
    inversion Hs; subst ds'. clear Hs. cbn [denabled] in En. unfold div_enabled in En. unfold div_step.
    destruct (d_pc ds) eqn:Epc; try discriminate;
      (destruct (nth_error (d_mbs ds) j) as [c|] eqn:Ej; [|discriminate]);
      pose proof (sender_step_is_step (cfg_of dc j) c En) as Hst.
    + destruct (comp_waiting _).
      * eapply all_reach_upd; eauto.
      * destruct (after_gates dc (length (d_mbs ds)) (S j) (d_left ds)) as [pc' lft'].
        eapply all_reach_upd; eauto.
    + destruct (comp_waiting _); [eapply all_reach_upd; eauto|].
      destruct (S j <? length (d_mbs ds)); [eapply all_reach_upd; eauto|].
      destruct (after_gates dc (length (d_mbs ds)) 0 (d_left ds)) as [pc' lft'].
      eapply all_reach_upd; eauto.
    + destruct (comp_waiting _); [eapply all_reach_upd; eauto|].
      destruct (S j <? length (d_mbs ds)); eapply all_reach_upd; eauto.
  - (* a subscriber of mailbox j *)
    destruct (nth_error (d_mbs ds) j) as [c|] eqn:Ej; [|discriminate].
    destruct (step (cfg_of dc j) c (TR i)) as [c'|] eqn:Est; [|discriminate].
    inversion Hs; subst ds'. eapply all_reach_upd; eauto.
Qed.

Lemma all_reach_run sched ds :
  drun dc (dinit dc subs comps ndicts) sched = Some ds -> all_reach ds.
Proof.
  assert (H : forall sc s s', all_reach s -> drun dc s sc = Some s' -> all_reach s').
  { intros sc; induction sc as [|t sc IH]; intros s s' HA Hr; cbn [drun] in Hr.
    - inversion Hr; subst; auto.
    - destruct (dstep dc s t) eqn:E; [|discriminate]. eapply IH; [|exact Hr]. eapply all_reach_step; eauto. }
  intros Hr. eapply H; [apply all_reach_init|exact Hr].
Qed.

(* ---------- the single-mailbox theorems, for every target mailbox of the divider ---------- *)
Theorem divider_delivery_safe sched ds j c ms :
  drun dc (dinit dc subs comps ndicts) sched = Some ds ->
  nth_error (d_mbs ds) j = Some c -> nth_error comps j = Some ms ->
  (forall m, In m ms -> is_stop m = false) ->
  forall i r, nth_error (rds c) i = Some r ->
    is_prefix (r_log r) (vals ms) /\ (r_pc r = RDone -> r_log r = vals ms).
Proof.
  intros Hr Hj Hms Hns i r Hi.
  destruct (all_reach_run _ _ Hr _ _ Hj) as (dr & ms' & sc & H1 & H2 & H3).
  assert (ms' = ms) by congruence. subst ms'.
  eapply delivery_safe; eauto.
Qed.

Theorem divider_capacity sched ds j c cap :
  drun dc (dinit dc subs comps ndicts) sched = Some ds ->
  nth_error (d_mbs ds) j = Some c -> dc_cap dc = Some cap -> length (box c) <= cap.
Proof.
  intros Hr Hj Hc. destruct (all_reach_run _ _ Hr _ _ Hj) as (dr & ms & sc & H1 & H2 & H3).
  eapply mailbox_capacity_gen; [|exact H3]. exact Hc.
Qed.

Theorem divider_no_lost_wakeup sched ds j c :
  drun dc (dinit dc subs comps ndicts) sched = Some ds ->
  nth_error (d_mbs ds) j = Some c -> W (cfg_of dc j) c.
Proof.
  intros Hr Hj. destruct (all_reach_run _ _ Hr _ _ Hj) as (dr & ms & sc & H1 & H2 & H3).
  eapply mailbox_no_lost_wakeup_gen; eauto.
Qed.

End Divider.
